#!/usr/bin/env python3
"""Regenerate MANIFEST.json from tools/registry.py (claimed checks) and properties.jsonl."""
import json, os, sys
ROOT = os.path.dirname(os.path.dirname(os.path.abspath(__file__)))
sys.path.insert(0, os.path.join(ROOT, "tools"))
from registry import CHECKS, MANIFEST_META

props = [json.loads(l) for l in open(os.path.join(ROOT, "properties.jsonl"))]
checks = []
na = []
for p in props:
    pid = p["id"]
    if pid in CHECKS and not CHECKS[pid].get("unclaimed"):
        c = CHECKS[pid]
        checks.append({
            "property_id": pid,
            "quick_cmd": "./verif check %s --tier quick" % pid,
            "thorough_cmd": "./verif check %s --tier thorough" % pid,
            "evidence_file": "/verif/evidence/%s.json" % pid,
            "replay_cmd_template": "./verif replay {path}",
            "engine": c.get("engine", ""),
            "level_claimed": {"category": c["level"], "text": c["level_text"], "design_ref": c.get("design_ref", "DESIGN.md §5 " + pid)},
            "level_note": c["level_note"],
            "technique": c["technique"],
        })
    else:
        na.append({"property_id": pid, "reason": MANIFEST_META["pending_reason"].get(pid, "check not built yet (runtime-monitoring design in DESIGN.md §5; not claimed until the monitor exists and is silent on the unchanged tree)")})
m = {
    "version": 1,
    "setup_cmd": "./verif setup",
    "hooks": {
        "guard": "verif",
        "enable": "go1.26.8 test -c -tags verif [-race] (GOFLAGS=-mod=mod GOPROXY=off GOSUMDB=off GOTOOLCHAIN=local); harness module /verif/harness replaces github.com/jech/storrent => /repo",
        "baseline_off_cmd": "cd /repo && GOFLAGS=-mod=mod GOPROXY=off GOSUMDB=off go test -vet=off -count=1 -timeout 25m ./...",
        "source_commits": MANIFEST_META["hook_commits"],
        "add_only": True,
    },
    "engines": MANIFEST_META["engines"],
    "checks": checks,
    "notes": MANIFEST_META["notes"],
    "not_applicable": na,
}
json.dump(m, open(os.path.join(ROOT, "MANIFEST.json"), "w"), indent=1)
print("MANIFEST.json: %d checks claimed, %d not claimed" % (len(checks), len(na)))
