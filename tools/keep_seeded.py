#!/usr/bin/env python3
"""keep_seeded.py <prop> <k> <outdir> <confirm-log> <checks comma-sep> : run the quick checks against the seeded change
(scratch copy via tools/mutant.sh), then store it as /verif/seeded/<prop>-<k>/ with meta.json."""
import sys, os, subprocess, json, shutil, re
prop, k, out, conflog, checks = sys.argv[1:6]
dst = '/verif/seeded/%s-%s' % (prop, k)
os.makedirs(dst, exist_ok=True)
shutil.copy(os.path.join(out, 'patch.diff'), dst)
if os.path.isdir(os.path.join(out, 'demo')):
    shutil.rmtree(os.path.join(dst, 'demo'), ignore_errors=True)
    shutil.copytree(os.path.join(out, 'demo'), os.path.join(dst, 'demo'))
if os.path.exists(os.path.join(out, 'README.md')):
    shutil.copy(os.path.join(out, 'README.md'), dst)
res = subprocess.run(['/verif/tools/mutant.sh', os.path.join(dst, 'patch.diff')] + checks.split(','), stdout=subprocess.PIPE, stderr=subprocess.STDOUT, text=True).stdout
lines = [l for l in res.splitlines() if not l.startswith('KNOWN-FINDING')]
caught = {}
cur = None
for l in lines:
    m = re.match(r'== (C\d+) against', l)
    if m:
        cur = m.group(1); caught[cur] = []
    m = re.match(r'\s+sig: (.*)', l)
    if m and cur:
        caught[cur].append(m.group(1))
readme = open(os.path.join(out, 'README.md')).read() if os.path.exists(os.path.join(out, 'README.md')) else ''
title = readme.splitlines()[0].lstrip('# ').strip() if readme else ''
meta = {
    "property": prop, "origin": "independent sub-agent (saw only the property text and a scratch worktree)",
    "title": title,
    "needs_to_manifest": "see README.md (written by the sub-agent)",
    "confirmed": {"how": "tools/confirm_seeded.sh on a scratch copy of /repo: patch applies, go build ./... ok, existing suite passes with the change, demonstration passes on the clean tree and fails with the change", "log": open(conflog).read()[-3000:]},
    "checks_run": {c: {"caught": bool(caught.get(c)), "signatures": caught.get(c, [])} for c in checks.split(',')},
    "raw": lines[-40:],
}
json.dump(meta, open(os.path.join(dst, 'meta.json'), 'w'), indent=1)
print(prop, k, {c: (caught.get(c) or 'NOT CAUGHT') for c in checks.split(',')})
