#!/bin/bash
# usage: tools/confirm_seeded.sh <outdir e.g. /tmp/out-C11/1> <demo-dest-dir-in-tree e.g. peer> <go test -run pattern> [pkg]
# Confirms a seeded change in a scratch copy of /repo: applies, builds, suite passes, demo fails with / passes without.
set -u
out=$1; dest=$2; pat=$3; pkg=${4:-./$dest/}
export GOFLAGS=-mod=mod GOPROXY=off GOSUMDB=off
w=/tmp/confirm-$$; rm -rf $w; mkdir -p $w; rsync -a --exclude .git /repo/ $w/repo/; cd $w/repo
(cd $out/demo && find . -type f) > $w/demofiles
(cd $out/demo && tar cf - .) | (cd $dest && tar xf -)
echo "--- demo on clean tree"; go test ${CONFIRM_TAGS:+-tags=$CONFIRM_TAGS} -vet=off -count=1 -timeout 10m -run "$pat" $pkg 2>&1 | tail -4
if ! patch -p1 -s --dry-run < $out/patch.diff >/dev/null 2>&1; then echo "PATCH DOES NOT APPLY to current /repo"; cd /; rm -rf $w; exit 3; fi
patch -p1 -s < $out/patch.diff
echo "--- build with change"; go build ./... 2>&1 | tail -3 && echo build-ok
echo "--- demo with change"; go test ${CONFIRM_TAGS:+-tags=$CONFIRM_TAGS} -vet=off -count=1 -timeout 10m -run "$pat" $pkg 2>&1 | tail -6
while read f; do rm -f "$dest/$f"; done < $w/demofiles
echo "--- existing suite with change (demo removed)"; go test -vet=off -count=1 -timeout 25m ./... 2>&1 | grep -v "no test files" | grep -v "^ok" | tail -5; echo suite-done
cd /; rm -rf $w
