#!/bin/bash
# usage: tools/sweep.sh <tier> <seed>...   -- run every registered check at the given seeds, print one line per run
tier=$1; shift
cd "$(dirname "$0")/.."
for seed in "$@"; do
  for id in $(./verif list); do
    out=$(VERIF_SEED=$seed ./verif check $id --tier $tier 2>&1); rc=$?
    echo "seed=$seed $id rc=$rc $(echo "$out" | grep "^$id tier" | sed 's/  observed.*//' | cut -c1-160)"
    if [ $rc -ne 0 ]; then echo "$out" | grep -A2 'VIOLATION\|INCONCLUSIVE' | cut -c1-400 | head -30; fi
  done
done
