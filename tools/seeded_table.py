#!/usr/bin/env python3
"""Regenerates the table of independently seeded changes in DESIGN.md (between the seeded-table markers)
from seeded/<id>-<k>/meta.json."""
import json, glob, os, re
ROOT = os.path.dirname(os.path.dirname(os.path.abspath(__file__)))
# what had to be added to the checks because the change was first missed (by the check of its own property)
STRENGTHENED = {
    "C02-3": "C02 missed it: hashing now takes virtual time in half of the histories (hook at piece.finalise.hash.begin) and readers come back exactly while a piece is being verified; whole-block corrupting seed",
    "C03-1": "first missed: E1 'uaf' part added (ReadAt hammered against eviction with a canary pattern in recycled buffers)",
    "C05-3": "first missed: typed-fields grammar in C04 and flags-shorter-than-peers PEX in C05's hostile generator",
    "C08-1": "C08 missed it: injected write faults now include net.Error timeouts (partial and nothing written)",
    "C05-2": "C05 missed it (C09 caught it): composite 'choke, then data for the blocks behind the ones on the wire'",
    "C09-2": "C09 missed it: back-pressure action (torrent loop held, mailbox filled, have/dont-have toggled while it drains)",
    "C09-3": "first missed: congestion and push-all actions (data for blocks still queued at the peer)",
    "C10-1": "first missed: 'hammer' family (real-time Request/evict/complete races outside the bubble scheduler's cuts)",
    "C13-3": "C13 missed it: near-hash magnet inputs (hex/base-32 encodings of 15..25-byte strings, padded and truncated)",
    "C14-1": "C14 missed it: 'large' family (torrents beyond 4 GiB served lazily from the PRF; requests must stay inside the demanded piece)",
    "C15-3": "C15 missed it: a well-formed failure reply's 'retry in' is now an announced interval for the contact rule",
    "C16-1": "C16 missed it: a piece holding corrupt data is verified slowly (hook) while unchoked leeches request its blocks",
    "C17-3": "C17 missed it: position 'stop-queued-mailbox-full' and ops PeerError / PeerHangup (a peer leaves on its own while the mailbox is full and the loop stops)",
    "C18-2": "C18 missed it: torrent deleted and re-added through a proxy while an incoming handshake for it is stalled",
    "C20-1": "C20 missed it: padding files placed inside ordinary directories, before or after the file they pad",
    # second round (k = 4..6)
    "C01-4": "C01 missed it: deletion is absorbing in the visibility model (no Finalise succeeds after Del took effect) + template 'another piece filled, verified and read while Del waits for a hasher' + PRNG schedules after the DFS budget",
    "C02-5": "C02 missed it: 'racing read' (a Read lingers at piece.readat.prelock while everything is evicted and corrupting seeds refill)",
    "C03-4": "C03 missed it: fault point alloc.mmap (new hook) + accounting equation and error return under 1-3 failed mappings",
    "C03-6": "C03 missed it: least-recently-accessed order with access times made through Torrent.Request on complete pieces (re-reads)",
    "C05-4": "C05 missed it: composite 'size vote + complete garbage set + stray blocks with and without total_size'",
    "C05-5": "C05 missed it: composite 'allowed-fast around the piece count before the metadata, have-all, then the true metadata' (magnet + idle prefetch)",
    "C05-6": "C05 missed it: peer closes while the torrent loop is held and the mailbox full, timers run, loop resumes; LoopAlive probe",
    "C06-5": "C06 missed it: extended messages written under a foreign sub-id inside streams (storrent's reader must return ExtendedUnknown and skip exactly that frame)",
    "C08-4": "C08 missed it (1 handshake in 256): Diffie-Hellman secrets with a leading zero byte, steered (storrent client) or retried (storrent server); waits on the in-memory pipe are bounded",
    "C08-5": "C08 missed it: a second writer calls Write while the first is inside the failing underlying write",
    "C10-5": "C10 missed it: variant 'request crosses completion' (request queued behind a held loop, piece verified before the loop handles it)",
    "C10-6": "C10 missed it: idle histories get a peer that has everything; an idle entry for a piece complete for two cuts is a violation",
    "C11-6": "C11 missed it: PEX pool peers that advertise another port than the one they were dialled at; every announced address must be one a peer connected from",
    "C12-5": "C12 missed it: size voters that do not speak ut_metadata (key absent or 0)",
    "C12-6": "caught once by luck: directed 'vote flip' family with the exact bound (nothing forged was offered for the true size, so one honest pass suffices)",
    "C13-4": "C13 missed it: the refused info dictionary offered three times over the magnet path (tor.New + MetadataComplete)",
    "C13-5": "C13 missed it: PieceLength of first / last / beyond-last piece; lengths beyond 2^32 with piece lengths 48K, 80K, 3M",
    "C16-4": "C16 missed it: leeches advertise reqq values from 1 to 2^31-1",
    "C16-5": "C16 missed it: a request being served lingers at piece.readat.prelock while the piece is evicted and refilled with corrupt data",
    "C17-5": "C17 missed it: real-time part 'webseed-stop' (stalled web seed, Kill, the server must see the fetch abandoned)",
    "C17-6": "C17 missed it: position 'live-peer-leaves-mailbox-full' with interested peers and the 20 s choking round due",
    "C18-4": "C18 missed it: in-process observers (fake tracker, DHT hook) are judged against the new settings only (SetConf is called at a quiescent cut, no virtual time passes)",
    "C19-5": "C19 missed it: paths storrent declares nothing for (/debug/pprof/..., /debug/vars, /metrics, ...) probed under foreign Hosts",
    "C19-6": "C19 missed it: hostile names that end like file names (.mp3, .ts, .mkv, .m3u8 after the line break)",
    "C20-4": "C20 missed it: duplicate names in a FUSE directory listing",
    # third round (k = 7..9)
    "C01-9": "C01 and C17 missed it: family 'a piece is being hashed at deletion' (hasher held at its yield point; Kill may not return while memory is held or data readable)",
    "C02-7": "C02 missed it (C10 caught it): honest seeds answer after 30-80 virtual ms and honour cancels",
    "C02-9": "C02 missed it: 2-3 FUSE reads blocked on one open file, interrupted one after the other",
    "C03-7": "hung the check: Del watchdog (two minutes, then reported and busy marks cleared by force)",
    "C03-9": "C03 missed it: family 'a torrent in the middle of its deletion is in the table during the global pass'",
    "C05-7": "C05 caught it once, then not at all (C12 always): size votes from a succession of short-lived connections go up and then down, then blocks beyond the smaller size",
    "C05-9": "C05 missed it: magnets added by the hash of an authentic, unusable (nameless) dictionary",
    "C08-8": "C08 missed it: the reference server sends its answer and the first payload bytes in one write",
    "C08-9": "C08 missed it: 'aftermath' family (three healthy pairs with slow readers move data concurrently after a failed write elsewhere)",
    "C09-7": "C09 missed it: answer kind 'misaligned' (begin shifted by 1-3 bytes, sometimes followed by a hang-up); answers are matched to requests by 16 KiB slot",
    "C09-8": "caught once by luck: a new bitfield and a have behind it while the torrent loop is held",
    "C10-7": "caught once by luck: completions are reported twice (duplicate last block)",
    "C17-7": "C17 missed it: family 'second Torrent object for a listed hash' (refused duplicate, and calls through tor.Get while a torrent is being added)",
    "C17-9": "spun for ever inside the bubble: per-case wall-clock watchdog in the children (inconclusive) + real-time family 'deletion with a full mailbox'",
    "C18-7": "C18 missed it: the same hash added again while the process-wide defaults say everything on",
    "C18-8": "C18 missed it: other, unproxied torrents live next to the proxied one when the incoming handshake names it",
    "C18-9": "C18 missed it: a slow, failing tracker first in the tier (the switch-off falls into its announce)",
    "C19-8": "C19 missed it: taints with percent-escaped metacharacters; a page showing their decoded form counts",
    "C19-9": "C19 missed it: names that are empty once commas and line breaks are removed",
    "C20-9": "C20 missed it: torrents created by hash with a display name, then completed with their info dictionary",
    # fourth round (k = 10..12)
    "C02-11": "no verdict: the change adds a parameter to the exported Torrent.Request, the harness does not build against it (BUILD FAILED, non-zero exit). Its signature-preserving twin is C17-12; C02 missed that one too: a new reader is cancelled while its first request waits behind a busy loop, then the loop must still answer",
    "C02-12": "C02 missed it: a FUSE read that begins in a complete piece and runs into a missing one is interrupted, or the torrent deleted: a reply without error and with fewer bytes than asked, short of the end of the file, is a violation",
    "C03-11": "C03 missed it: LRU passes over pieces that hold a buffer and no chunk yet (first bytes of a block arrived)",
    "C05-10": "C05 missed it (C09 caught it): a peer serves honestly until storrent keeps a queue for it, then chokes and goes on sending data and rejects for the blocks around the ones on the wire",
    "C08-12": "C08 missed it (C07 caught it): the reference initiator puts a prefix of the BT handshake, or nothing, in IA and sends the rest as payload in the selected mode",
    "C09-12": "C09 missed it: rejects for every block of a piece (outstanding, queued again after an expiry, or never asked)",
    "C10-12": "C10 missed it: family 'congested withdraw' (a peer actor parked with its mailbox filled to capacity - 1 / capacity while the last consumer withdraws; afterwards no seed may still hold an uncancelled request for the piece)",
    "C12-12": "C12 missed it (C04 caught it): ut_metadata messages whose length prefix disagrees with their own dictionary or data",
    "C16-11": "C16 missed it: the torrent stops while its mailbox is full (stop event queued behind a held loop, remaining slots filled), so the peers' last reports cannot be delivered; unchoke count must return to its base",
    "C17-10": "C17 missed it: family 'stalled peer at deletion' (writer queue to a non-reading peer filled exactly, a pending interest change retried on every event, a burst of evictions, then a status query and the deletion)",
    "C17-12": "C17 missed it: family 'reader cancelled while its request is queued' (loop parked, request queued, context cancelled, loop released; then every operation and Kill must return)",
    "C07-11": "C07 missed it: segmentation family 'end-with-last-bytes' (the transport reports the end of the stream in the same Read as its last bytes)",
    "C07-12": "C07 missed it: family 'id-after-reply' (plain handshake, storrent the server: the peer sends its id only after it has read storrent's handshake)",
    "C11-10": "C11 missed it: the observer stops reading 20 s before a PEX tick, its writer queue is filled exactly, an arrival is pending at the tick; then it reads again and the newcomer leaves, comes back and leaves",
    "C11-11": "C11 missed it (and C09): family 'adverts before metadata' (magnet torrent; have-all / have-none / have / bitfield sequences before the metadata is known, then metadata, unchoke, demand)",
    # fifth round (k = 13, 14; twelve properties)
    "C08-14": "C08 missed it: after a crypto_select with both method bits set the reference responder also carries on in plaintext (it only ever encrypted), 128 more cells; the policy clauses judge whatever storrent then establishes",
    "C09-13": "C09 missed it (C14 caught it): part 'webseed-release' — C14's writer and fetch workload run on C09's behalf, reporting only in-flight leaks and over-releases",
    "C11-13": "C11 missed it: PEX observers and pool peers send keep-alives (storrent had been timing the observers out five minutes into every history, so the final 'every departure reported' check ran in 0.3 % of them; now in all); the whole pool (55-74 peers) arrives within one PEX interval, then peers from both messages leave, return and leave",
    "C12-14": "C12 and C13 missed it: single-file dictionaries with a negative length in (-piece length, 0) next to exactly one piece hash (truncating division), over the magnet path and as .torrent; an accepted negative total is a geometry violation",
}
rows = []
for d in sorted(glob.glob(os.path.join(ROOT, "seeded", "C[0-9][0-9]-*"))):
    mid = os.path.basename(d)
    try:
        m = json.load(open(os.path.join(d, "meta.json")))
    except Exception:
        continue
    title = re.sub(r"^C\d+[ -/]*(seeded )?change \d+\s*[-—–:]+\s*", "", m.get("title", ""), flags=re.I)
    title = re.sub(r"^C\d+-\d+:\s*", "", title).replace("|", "\\|")
    res = []
    for chk, r in m.get("checks_run", {}).items():
        if r.get("caught"):
            sig = r["signatures"][0]
            sig = re.sub(r"^C\d+ ", "", sig)
            sig = re.sub(r" \(x\d+\)$", "", sig)
            n = len(r["signatures"])
            res.append("**%s**: %s%s" % (chk, sig[:90].replace("|", "\\|"), " (+%d more)" % (n - 1) if n > 1 else ""))
        else:
            res.append("%s: not caught" % chk)
    rows.append("| %s | %s | %s | %s |" % (mid, title[:110], "; ".join(res), STRENGTHENED.get(mid, "")))
table = "| id | change | quick tier, seed 1 | strengthening it prompted |\n|---|---|---|---|\n" + "\n".join(rows) + "\n"
p = os.path.join(ROOT, "DESIGN.md")
s = open(p).read()
b, e = "<!-- seeded-table-begin -->\n", "<!-- seeded-table-end -->\n"
if b in s:
    s = s[:s.index(b) + len(b)] + table + s[s.index(e):]
    open(p, "w").write(s)
print(table)
