#!/usr/bin/env python3
"""Regenerates the table of independently seeded changes in DESIGN.md (between the seeded-table markers)
from seeded/<id>-<k>/meta.json."""
import json, glob, os, re
ROOT = os.path.dirname(os.path.dirname(os.path.abspath(__file__)))
# what had to be added to the checks because the change was first missed (by the check of its own property)
STRENGTHENED = {
    "C02-3": "C02 missed it: hashing now takes virtual time in half of the histories (hook at piece.finalise.hash.begin) and readers come back exactly while a piece is being verified; whole-block corrupting seed",
    "C03-1": "first missed: E1 'uaf' part added (ReadAt hammered against eviction with a canary pattern in recycled buffers)",
    "C05-3": "first missed: typed-fields grammar in C04 and flags-shorter-than-peers PEX in C05's hostile generator",
    "C08-1": "C08 missed it: injected write faults now include net.Error timeouts (partial and nothing written)",
    "C09-2": "C09 missed it: back-pressure action (torrent loop held, mailbox filled, have/dont-have toggled while it drains)",
    "C09-3": "first missed: congestion and push-all actions (data for blocks still queued at the peer)",
    "C10-1": "first missed: 'hammer' family (real-time Request/evict/complete races outside the bubble scheduler's cuts)",
    "C11-1": "first missed: scheduler commands injected into the peer actor (PeerRequest for allowed-fast pieces while choked)",
    "C13-3": "C13 missed it: near-hash magnet inputs (hex/base-32 encodings of 15..25-byte strings, padded and truncated)",
    "C14-1": "C14 missed it: 'large' family (torrents beyond 4 GiB served lazily from the PRF; requests must stay inside the demanded piece)",
    "C15-3": "C15 missed it: a well-formed failure reply's 'retry in' is now an announced interval for the contact rule",
    "C16-1": "C16 missed it: a piece holding corrupt data is verified slowly (hook) while unchoked leeches request its blocks",
    "C17-3": "C17 missed it: position 'stop-queued-mailbox-full' and ops PeerError / PeerHangup (a peer leaves on its own while the mailbox is full and the loop stops)",
    "C18-2": "C18 missed it: torrent deleted and re-added through a proxy while an incoming handshake for it is stalled",
    "C20-1": "C20 missed it: padding files placed inside ordinary directories, before or after the file they pad",
}
rows = []
for d in sorted(glob.glob(os.path.join(ROOT, "seeded", "C[0-9][0-9]-*"))):
    mid = os.path.basename(d)
    try:
        m = json.load(open(os.path.join(d, "meta.json")))
    except Exception:
        continue
    title = re.sub(r"^C\d+[ -/]*(seeded )?change \d+\s*[-—–:]+\s*", "", m.get("title", ""), flags=re.I)
    title = re.sub(r"^C\d+-\d+:\s*", "", title).replace("|", "\\|")
    res = []
    for chk, r in m.get("checks_run", {}).items():
        if r.get("caught"):
            sig = r["signatures"][0]
            sig = re.sub(r"^C\d+ ", "", sig)
            sig = re.sub(r" \(x\d+\)$", "", sig)
            n = len(r["signatures"])
            res.append("**%s**: %s%s" % (chk, sig[:90].replace("|", "\\|"), " (+%d more)" % (n - 1) if n > 1 else ""))
        else:
            res.append("%s: not caught" % chk)
    rows.append("| %s | %s | %s | %s |" % (mid, title[:110], "; ".join(res), STRENGTHENED.get(mid, "")))
table = "| id | change | quick tier, seed 1 | strengthening it prompted |\n|---|---|---|---|\n" + "\n".join(rows) + "\n"
p = os.path.join(ROOT, "DESIGN.md")
s = open(p).read()
b, e = "<!-- seeded-table-begin -->\n", "<!-- seeded-table-end -->\n"
if b in s:
    s = s[:s.index(b) + len(b)] + table + s[s.index(e):]
    open(p, "w").write(s)
print(table)
