#!/usr/bin/env python3
"""Runner for the storrent runtime-monitoring checks.

check = build the check binaries from /repo's working tree (tag verif), run the
fixed case list sharded over child processes, merge their record streams,
match violations against known-findings.json, write evidence/<id>.json and
print KNOWN-FINDING / VIOLATION / INCONCLUSIVE lines.  Exit 0 / 1 / 2.
"""
import json, os, re, shutil, signal, subprocess, sys, time, hashlib

ROOT = os.path.dirname(os.path.dirname(os.path.abspath(__file__)))
HARNESS = os.path.join(ROOT, "harness")
BUILD = os.environ.get("VERIF_BUILD") or os.path.join(ROOT, "build")
BIN = os.path.join(BUILD, "bin")
# VERIF_REPO: build against another copy of jech/storrent (mutant validation only; default /repo)
ALT_REPO = os.environ.get("VERIF_REPO", "")
GO = "go1.26.8"
NCPU = os.cpu_count() or 4

sys.path.insert(0, os.path.join(ROOT, "tools"))
from registry import CHECKS  # noqa: E402


def goenv():
    e = dict(os.environ)
    e.update({
        "GOFLAGS": "-mod=mod", "GOPROXY": "off", "GOSUMDB": "off",
        "GOTOOLCHAIN": "local", "CGO_ENABLED": "1",
    })
    e.pop("GOROOT", None)
    return e


def binname(part):
    n = part["pkg"].replace("/", "_")
    if part.get("race"):
        n += ".race"
    return os.path.join(BIN, n + ".test")


def build(part, quiet=False):
    os.makedirs(BIN, exist_ok=True)
    out = binname(part)
    cmd = [GO, "test", "-c", "-tags", "verif", "-vet=off", "-o", out]
    if ALT_REPO:
        mf = os.path.join(BUILD, "alt.go.mod")
        with open(os.path.join(HARNESS, "go.mod")) as f:
            gm = f.read()
        gm = gm.replace("=> /repo", "=> " + ALT_REPO)
        with open(mf, "w") as f:
            f.write(gm)
        shutil.copy(os.path.join(HARNESS, "go.sum"), os.path.join(BUILD, "alt.go.sum"))
        cmd.append("-modfile=" + mf)
    if part.get("race"):
        cmd.append("-race")
    cmd.append("./checks/" + part["pkg"])
    t0 = time.time()
    p = subprocess.run(cmd, cwd=HARNESS, env=goenv(), stdout=subprocess.PIPE,
                       stderr=subprocess.STDOUT, text=True)
    if p.returncode != 0:
        sys.stdout.write(p.stdout)
        raise SystemExit("BUILD FAILED: " + " ".join(cmd))
    if not quiet:
        print("built %s in %.1fs" % (os.path.basename(out), time.time() - t0), flush=True)
    return out


_crash_re = re.compile(r"^(panic: .*|fatal error: .*|SIGSEGV.*|signal SIGSEGV.*|unexpected fault address.*|runtime: out of memory.*)$", re.M)
_frame_re = re.compile(r"^(github\.com/jech/storrent[^\n]*)\(", re.M)
_anyframe_re = re.compile(r"^([A-Za-z0-9_./\-]+\.[A-Za-z0-9_.()*\[\]·]+)\(", re.M)


def norm_msg(m):
    m = re.sub(r"0x[0-9a-fA-F]+", "N", m)
    m = re.sub(r"\d+", "N", m)
    m = re.sub(r"\[recovered\].*", "", m)
    return m.strip()[:120]


def crash_signature(log):
    """Turn a crashed child's stderr into (kind-ish message, top storrent frame)."""
    m = _crash_re.search(log)
    msg = norm_msg(m.group(1)) if m else "died"
    tail = log[m.start():] if m else log
    # goroutine that panicked comes first after the message
    fm = _frame_re.search(tail)
    frame = fm.group(1) if fm else ""
    if not frame:
        fm = _anyframe_re.search(tail)
        frame = fm.group(1) if fm else "?"
    frame = frame.replace("github.com/jech/storrent/", "")
    return msg, frame


def race_reports(text):
    """Split race detector output into report blocks, return list of (sig, block)."""
    out = []
    blocks = text.split("WARNING: DATA RACE")[1:]
    for b in blocks:
        b = b.split("==================")[0]
        frames = []
        for sec in re.split(r"\n\n", b):
            if re.match(r"\s*(Read|Write|Previous read|Previous write|Atomic)", sec.strip()[:40] if sec.strip() else ""):
                fm = re.search(r"^\s+(github\.com/jech/storrent[^\s(]*)\(", sec, re.M)
                if fm:
                    frames.append(fm.group(1).replace("github.com/jech/storrent/", ""))
                else:
                    fm = re.search(r"^\s+([A-Za-z0-9_./\-]+\.[^\s(]+)\(", sec, re.M)
                    frames.append("~" + (fm.group(1) if fm else "?"))
        frames = sorted(frames[:2])
        out.append((" ".join(frames), "WARNING: DATA RACE" + b[:3000]))
    return out


def load_known():
    p = os.path.join(ROOT, "known-findings.json")
    if not os.path.exists(p):
        return []
    with open(p) as f:
        return json.load(f).get("findings", [])


def run_part(pid, part, tier, seed, rundir, viols, agg, problems):
    exe = binname(part)
    shards = part.get("shards", {}).get(tier, part.get("shards", {}).get("quick", NCPU)) if isinstance(part.get("shards"), dict) else part.get("shards", NCPU)
    shards = max(1, min(shards, 64))
    watchdog = part.get("watchdog_s", {}).get(tier, 1500 if tier == "quick" else 6 * 3600)
    env_extra = part.get("env", {})
    name = part["name"]
    procs = {}
    attempts = {}

    def start(shard, resume, attempt):
        out = os.path.join(rundir, "%s.%d.%d.jsonl" % (name, shard, attempt))
        log = os.path.join(rundir, "%s.%d.%d.log" % (name, shard, attempt))
        for p_ in (out, out + ".cur", log):
            if os.path.exists(p_):
                os.remove(p_)
        e = goenv()
        e.update({
            "VERIF_SEED": str(seed), "VERIF_TIER": tier,
            "VERIF_SHARD": "%d/%d" % (shard, shards), "VERIF_OUT": out,
            "VERIF_RESUME": str(resume), "VERIF_PART": name,
            "VERIF_ROOT": ROOT,
        })
        if part.get("race"):
            e["GORACE"] = "halt_on_error=0 history_size=2 log_path=%s" % os.path.join(rundir, "%s.%d.%d.race" % (name, shard, attempt))
        e.update(env_extra)
        lf = open(log, "wb")
        cmd = [exe, "-test.run", "^TestCheck$", "-test.timeout", "0"]
        if part.get("ulimit_v_kb"):
            cmd = ["bash", "-c", "ulimit -v %d; exec \"$@\"" % part["ulimit_v_kb"], "sh"] + cmd
        # network namespace: storrent dials peers it hears about (PEX, trackers); in an empty namespace
        # such a dial fails at once (ENETUNREACH) instead of waiting for a SYN that is never answered,
        # which inside a synctest bubble would stall virtual time.  "loopback" also brings lo up.
        ns = part.get("netns")
        if ns and netns_ok():
            if ns == "loopback":
                cmd = ["unshare", "-n", "sh", "-c", "ip link set lo up 2>/dev/null; exec \"$@\"", "sh"] + cmd
            else:
                cmd = ["unshare", "-n", "--"] + cmd
        p = subprocess.Popen(cmd, cwd=rundir, env=e, stdout=lf, stderr=subprocess.STDOUT,
                             start_new_session=True)
        procs[shard] = (p, out, log, time.time(), lf, attempt)

    for s in range(shards):
        attempts[s] = 0
        start(s, -1, 0)

    results = []  # (out, log)
    timed_out_once = set()
    while procs:
        time.sleep(0.05)
        for s in list(procs):
            p, out, log, t0, lf, attempt = procs[s]
            rc = p.poll()
            if rc is None:
                if time.time() - t0 > watchdog:
                    try:
                        os.killpg(p.pid, signal.SIGQUIT)
                        time.sleep(1.0)
                        os.killpg(p.pid, signal.SIGKILL)
                    except ProcessLookupError:
                        pass
                    p.wait()
                    lf.close()
                    del procs[s]
                    results.append((out, log, s, attempt))
                    cur = read_cur(out)
                    if s not in timed_out_once and cur is not None:
                        timed_out_once.add(s)
                        attempts[s] += 1
                        start(s, cur["case"] - 1, attempts[s])  # retry the same case once
                    else:
                        problems.append("watchdog: part %s shard %d stuck in case %s" % (name, s, cur and cur.get("case")))
                continue
            lf.close()
            del procs[s]
            results.append((out, log, s, attempt))
            final = has_final(out)
            if final:
                continue
            # died without a final snapshot: crash attributed to the current case
            cur = read_cur(out)
            with open(log, "r", errors="replace") as f:
                text = f.read()
            if "race detected during execution of test" in text and not _crash_re.search(text):
                # a race report fails the bubble's test and aborts TestCheck; the report itself is
                # collected from the race log. Resume after the case that was running.
                attempts[s] += 1
                if cur is not None and attempts[s] <= 40:
                    start(s, cur["case"], attempts[s])
                else:
                    problems.append("part %s shard %d: too many race aborts" % (name, s))
                continue
            if "VK-WATCHDOG:" in text and not _crash_re.search(text):
                # the child's own wall-clock watchdog: one case ran for ten minutes. Inconclusive (wall clock
                # is never a verdict); go on after that case.
                attempts[s] += 1
                problems.append("watchdog: part %s shard %d: case %s exceeded its wall-clock bound" % (name, s, cur and cur.get("case")))
                if cur is not None and attempts[s] <= 6:
                    start(s, cur["case"], attempts[s])
                continue
            msg, frame = crash_signature(text)
            case = cur["case"] if cur else -1
            m = _crash_re.search(text)
            excerpt = text[m.start():m.start() + 3500] if m else text[-3500:]
            viols.append({
                "kind": "crash", "sig": "%s crash %s @%s" % (pid, msg, frame),
                "detail": "child exit %s in part %s; %s" % (rc, name, excerpt),
                "case": case, "desc": cur.get("desc") if cur else None,
                "part": name,
            })
            attempts[s] += 1
            mc = part.get("max_crashes", 12)
            if isinstance(mc, dict):
                mc = mc.get(tier, 12)
            if cur is not None and attempts[s] <= mc:
                start(s, case, attempts[s])
            else:
                problems.append("part %s shard %d: gave up after %d crashes" % (name, s, attempts[s]))

    # merge
    for out, log, s, attempt in results:
        last = None
        if os.path.exists(out):
            with open(out, "r", errors="replace") as f:
                for line in f:
                    try:
                        rec = json.loads(line)
                    except Exception:
                        continue
                    if rec.get("t") == "violation":
                        v = rec["v"]
                        v["part"] = name
                        viols.append(v)
                    elif rec.get("t") == "snapshot":
                        last = rec
        if last:
            agg["cases"] += last["cases"]
            agg["held"] += last["held"]
            agg["inconclusive"] += last["inconclusive"]
            for k, v in (last.get("inconclusive_why") or {}).items():
                agg["inconclusive_why"][k] = agg["inconclusive_why"].get(k, 0) + v
            for k, v in (last.get("counters") or {}).items():
                kk = k
                if k.startswith("max:"):
                    agg["counters"][kk] = max(agg["counters"].get(kk, 0), v)
                else:
                    agg["counters"][kk] = agg["counters"].get(kk, 0) + v
            for fp in last.get("fps_nontrivial") or []:
                agg["fps"].add(name + ":" + fp)
            agg["fps_trivial"] += last.get("fps_trivial", 0)
            for smp in last.get("samples") or []:
                if len(agg["samples"]) < 6 and (not agg["samples"] or len(agg["samples_by_part"].get(name, [])) < 2):
                    agg["samples"].append({"part": name, "case": smp})
                    agg["samples_by_part"].setdefault(name, []).append(1)
            agg["notes"].update(last.get("notes") or {})
        # race logs
        if part.get("race"):
            base = os.path.join(rundir, "%s.%d.%d.race" % (name, s, attempt))
            d = os.path.dirname(base)
            for fn in os.listdir(d):
                if fn.startswith(os.path.basename(base)):
                    with open(os.path.join(d, fn), "r", errors="replace") as f:
                        text = f.read()
                    for sig, block in race_reports(text):
                        agg["race_reports"] += 1
                        if all(fr.startswith("~") for fr in sig.split()) or sig == "":
                            problems.append("race report outside storrent code (harness?): " + sig)
                            continue
                        viols.append({"kind": "race", "sig": "%s race %s" % (pid, sig),
                                      "detail": block, "case": -1, "part": name})


_netns = None


def netns_ok():
    global _netns
    if _netns is None:
        try:
            _netns = subprocess.run(["unshare", "-n", "true"], stdout=subprocess.DEVNULL, stderr=subprocess.DEVNULL, timeout=20).returncode == 0
        except Exception:
            _netns = False
        if not _netns:
            print("note: unshare -n unavailable, children run in the host network namespace", flush=True)
    return _netns


def read_cur(out):
    try:
        with open(out + ".cur") as f:
            line = f.readline()
        return json.loads(line)
    except Exception:
        return None


def has_final(out):
    if not os.path.exists(out):
        return False
    with open(out, "r", errors="replace") as f:
        for line in f:
            if '"t":"snapshot"' in line and '"final":true' in line:
                return True
    return False


def check(pid, tier, seed):
    spec = CHECKS[pid]
    t0 = time.time()
    rundir = os.path.join(BUILD, "run", pid)
    shutil.rmtree(rundir, ignore_errors=True)
    os.makedirs(rundir, exist_ok=True)
    os.makedirs(os.path.join(ROOT, "replays"), exist_ok=True)
    os.makedirs(os.path.join(ROOT, "evidence"), exist_ok=True)
    ev_path = os.path.join(ROOT if not ALT_REPO else BUILD, "evidence", pid + ".json")
    os.makedirs(os.path.dirname(ev_path), exist_ok=True)
    if os.path.exists(ev_path):
        os.remove(ev_path)

    for part in spec["parts"]:
        build(part)

    viols = []
    problems = []
    agg = {"cases": 0, "held": 0, "inconclusive": 0, "inconclusive_why": {}, "counters": {},
           "fps": set(), "fps_trivial": 0, "samples": [], "samples_by_part": {}, "notes": {},
           "race_reports": 0}
    for part in spec["parts"]:
        tiers = part.get("tiers")
        if tiers and tier not in tiers:
            continue
        run_part(pid, part, tier, seed, rundir, viols, agg, problems)

    known = [k for k in load_known() if k.get("property") == pid and k.get("status") == "known"]
    known_hit = {}
    new = []
    seen_sig = {}
    for v in viols:
        sig = v["sig"]
        k = next((k for k in known if k["sig"] == sig), None)
        if k is not None:
            known_hit.setdefault(sig, (k, 0))
            known_hit[sig] = (k, known_hit[sig][1] + 1)
            continue
        if sig in seen_sig:
            seen_sig[sig]["count"] += 1
            continue
        v["count"] = 1
        seen_sig[sig] = v
        new.append(v)

    for sig, (k, n) in sorted(known_hit.items()):
        print("KNOWN-FINDING: property=%s %s [sig: %s; seen %d times this run]" % (pid, k.get("what", ""), sig, n))

    replay_paths = []
    for v in new:
        h = hashlib.sha1(v["sig"].encode()).hexdigest()[:10]
        rp = os.path.join(ROOT if not ALT_REPO else BUILD, "replays", "%s-%d-%s.json" % (pid, seed, h))
        os.makedirs(os.path.dirname(rp), exist_ok=True)
        with open(rp, "w") as f:
            json.dump({"property": pid, "seed": seed, "tier": tier, "violation": v}, f, indent=1, default=str)
        replay_paths.append(rp)
        print("VIOLATION property=%s replay=%s" % (pid, rp))
        print("  sig: %s (x%d)" % (v["sig"], v["count"]))
        print("  " + (v.get("detail") or "")[:600].replace("\n", "\n  "))

    thresholds = spec.get("min", {})
    min_nt = thresholds.get("distinct_nontrivial", {}).get(tier, 2) if isinstance(thresholds.get("distinct_nontrivial"), dict) else thresholds.get("distinct_nontrivial", 2)
    nt = len(agg["fps"])
    if agg["inconclusive"] > 0:
        problems.append("%d cases inconclusive: %s" % (agg["inconclusive"], json.dumps(agg["inconclusive_why"])))
    if nt < max(2, min_nt):
        problems.append("too few distinct non-trivial cases observed: %d < %d" % (nt, max(2, min_nt)))
    for cname, cmin in (thresholds.get("counters", {}) or {}).items():
        if agg["counters"].get(cname, 0) < cmin:
            problems.append("counter %s=%d below required minimum %d (monitor observed too little)" % (cname, agg["counters"].get(cname, 0), cmin))

    wall = time.time() - t0
    coverage = {
        "evaluations": agg["cases"],
        "distinct_nontrivial": nt,
        "rule": spec["rule"],
        "samples": agg["samples"] or [{"note": "no sample recorded"}],
        "held": agg["held"],
        "inconclusive": agg["inconclusive"],
        "counters": dict(sorted(agg["counters"].items())),
        "trivial_fingerprints": agg["fps_trivial"],
        "race_reports": agg["race_reports"],
        "known_findings_seen": [{"sig": s, "count": n} for s, (k, n) in sorted(known_hit.items())],
        "new_violation_sigs": [v["sig"] for v in new],
        "notes": agg["notes"],
        "parts": [p["name"] for p in spec["parts"] if not p.get("tiers") or tier in p["tiers"]],
        "problems": problems,
    }
    if spec.get("exhaustive_note"):
        coverage["exhaustive_note"] = spec["exhaustive_note"]
    ev = {
        "property_id": pid, "tier": tier, "seed": seed, "level": spec["level"],
        "coverage": coverage,
        "assumptions": spec.get("assumptions", []),
        "wall_s": round(wall, 2),
        "violations": len(new),
    }
    if agg["cases"] >= 1 and nt >= 2:
        with open(ev_path, "w") as f:
            json.dump(ev, f, indent=1, default=str)
    else:
        # still write something for debugging, but not schema-valid evidence
        with open(ev_path + ".invalid", "w") as f:
            json.dump(ev, f, indent=1, default=str)

    print("%s tier=%s seed=%d: %d cases, %d held, %d inconclusive, %d distinct non-trivial, %d new violations, %d known-finding sigs, %.1fs" % (
        pid, tier, seed, agg["cases"], agg["held"], agg["inconclusive"], nt, len(new), len(known_hit), wall))
    keys = sorted(agg["counters"])
    if keys:
        print("  observed: " + ", ".join("%s=%d" % (k, agg["counters"][k]) for k in keys[:60]))
    if new:
        return 1
    if problems:
        for p in problems:
            print("INCONCLUSIVE property=%s %s" % (pid, p))
        return 2
    return 0


def setup():
    # warm the build cache: build every part of every check
    seen = set()
    for pid, spec in sorted(CHECKS.items()):
        for part in spec["parts"]:
            key = (part["pkg"], bool(part.get("race")))
            if key in seen:
                continue
            seen.add(key)
            build(part)
    print("setup ok")
    return 0


def replay(path):
    with open(path) as f:
        r = json.load(f)
    pid = r["property"]
    v = r["violation"]
    spec = CHECKS[pid]
    part = next((p for p in spec["parts"] if p["name"] == v.get("part")), spec["parts"][0])
    build(part)
    e = goenv()
    e.update({"VERIF_SEED": str(r["seed"]), "VERIF_TIER": r["tier"], "VERIF_ONLY": str(v.get("case", -1)),
              "VERIF_PART": part["name"], "VERIF_ROOT": ROOT})
    e.update(part.get("env", {}))
    p = subprocess.run([binname(part), "-test.run", "^TestCheck$", "-test.timeout", "0", "-test.v"], env=e, cwd=BUILD)
    return p.returncode


def main(argv):
    if len(argv) < 2:
        print("usage: verif setup | check <id> [--tier quick|thorough] | replay <path> | list")
        return 64
    if argv[1] == "setup":
        return setup()
    if argv[1] == "list":
        for k in sorted(CHECKS):
            print(k)
        return 0
    if argv[1] == "replay":
        return replay(argv[2])
    if argv[1] == "check":
        pid = argv[2]
        tier = os.environ.get("VERIF_TIER", "")
        if "--tier" in argv:
            tier = argv[argv.index("--tier") + 1]
        if tier not in ("quick", "thorough"):
            tier = "quick"
        seed = int(os.environ.get("VERIF_SEED", "1") or "1")
        if pid not in CHECKS:
            print("unknown check", pid)
            return 64
        return check(pid, tier, seed)
    return 64


if __name__ == "__main__":
    sys.exit(main(sys.argv))
