#!/bin/bash
# usage: tools/proc_seeded.sh <round-dir-prefix e.g. /tmp/out3-> <ID> <k-in-round> <k-kept> <demo-dest> <-run pattern> <pkgs> <checks comma-sep>
# confirm a sub-agent's seeded change on a scratch copy, then run the checks against it and keep it as seeded/<ID>-<k-kept>/
pre=$1; id=$2; k=$3; kk=$4; dest=$5; pat=$6; pkgs=$7; checks=$8
cd "$(dirname "$0")/.."
log=/tmp/conf-$(basename $pre)$id-$k.log
tools/confirm_seeded.sh $pre$id/$k "$dest" "$pat" "$pkgs" > $log 2>&1
sum=$(cut -c1-160 $log | grep "^---\|^ok\|^FAIL\|build-ok\|PATCH\|suite-done" | tr '\n' ' ')
echo "== $id-$kk confirm: $sum"
if grep -q "PATCH DOES NOT APPLY" $log; then exit 3; fi
python3 tools/keep_seeded.py $id $kk $pre$id/$k $log $checks 2>&1 | tail -1 | cut -c1-500
