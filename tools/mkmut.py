#!/usr/bin/env python3
"""mkmut.py <outdir> <file-relative-to-repo> <<< JSON {"old":..., "new":...}  -> writes outdir/patch.diff (unified diff against /repo)"""
import sys, json, os, subprocess, tempfile
out, rel = sys.argv[1], sys.argv[2]
spec = json.load(sys.stdin)
src = open(os.path.join("/repo", rel)).read()
assert src.count(spec["old"]) == 1, "old text occurs %d times" % src.count(spec["old"])
new = src.replace(spec["old"], spec["new"])
os.makedirs(out, exist_ok=True)
with tempfile.NamedTemporaryFile("w", delete=False) as f:
    f.write(new)
p = subprocess.run(["diff", "-u", "--label", "a/" + rel, "--label", "b/" + rel, os.path.join("/repo", rel), f.name], stdout=subprocess.PIPE, text=True)
os.unlink(f.name)
open(os.path.join(out, "patch.diff"), "w").write(p.stdout)
print(p.stdout)
