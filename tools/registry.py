"""Registry of checks: one entry per property; parts = check binaries to run."""

COMMON_ASSUMPTIONS = [
    "only executions produced by the workload are judged (runtime monitoring, not proof)",
    "Go 1.26.8 toolchain, race detector and testing/synctest behave as documented",
    "harness module links /repo through a replace directive: the code under test is the current working tree built with -tags verif",
]

CHECKS = {}

CHECKS["C04"] = {
    "level": "exploration",
    "rule": ("cases = (a) exhaustive matrix of message id {0..21,254,255} x extended sub-id {0..5,255} x announced length {0..40, 2^14+8..10, 2^17, 2^20-1, 2^20, 2^20+1, 2^31, 2^32-1} x 4 payload fills, each complete frame followed by a sentinel frame, plus every truncation <=40 bytes with and without a following frame; "
             "(b) grammar-generated hostile bencode for extended handshake / ut_pex / ut_metadata; (c) mutations of valid frames from the independent codec. "
             "A case is distinct by hash(family, id, sub, length class, input class, outcome class) and non-trivial if it decoded a message or carried payload bytes."),
    "assumptions": COMMON_ASSUMPTIONS + [
        "allocation is measured as runtime.MemStats.TotalAlloc delta around one protocol.Read call in a single-goroutine child",
        "bound used: 256*(min(L,1MiB)+4)+64KiB bytes per call",
    ],
    "min": {"distinct_nontrivial": {"quick": 200, "thorough": 200}, "counters": {"decoded": 1000, "errors": 1000, "sentinel_ok": 1000}},
    "parts": [
        {"name": "decode", "pkg": "c04_decode", "race": False, "shards": 16},
    ],
}

CHECKS["C04"].update({
    "engine": "E2 codec",
    "technique": "runtime monitor: per-call oracle (recover, byte-exact consumption below bufio, sentinel frame, TotalAlloc delta) over an exhaustive id x length matrix plus generated hostile frames; differential against independent codec",
    "level_text": "Every frame in an exhaustive (message id x extended sub-id x announced length x fill x truncation) matrix and ~20k (quick) / 2M (thorough) generated hostile frames is decoded by the real protocol.Read under a monitor that checks totality, exact consumption, no over-read, the 1 MiB cap and an allocation bound. Exploration: judged on the inputs produced, the small-length matrix is complete.",
    "level_note": "trusts runtime.MemStats.TotalAlloc as allocation measure and the independent refwire codec for field comparison; zeebo/bencode string pre-allocation is a listed known finding",
})

MANIFEST_META = {
    "hook_commits": ["db0b83b", "f0ff4d9", "d998a9e"],
    "pending_reason": {},
    "engines": [
        {"name": "E2 codec", "path": "harness/checks/c04_decode, c06_*, c13_*", "serves_properties": ["C04", "C06", "C13"], "kind_free_text": "generators + per-call oracles on the real decoders, single-goroutine children, allocation measured per call"},
    ],
    "notes": "Runtime monitoring only. ./verif check <id> rebuilds the check binaries from /repo's working tree with -tags verif, shards a fixed (seed,tier)-determined case list over child processes, merges record streams, matches violation signatures against known-findings.json and writes evidence/<id>.json. Exit 0 held / 1 VIOLATION / 2 INCONCLUSIVE.",
}
