"""Registry of checks: one entry per property; parts = check binaries to run."""

COMMON_ASSUMPTIONS = [
    "only executions produced by the workload are judged (runtime monitoring, not proof)",
    "Go 1.26.8 toolchain, race detector and testing/synctest behave as documented",
    "harness module links /repo through a replace directive: the code under test is the current working tree built with -tags verif",
]

CHECKS = {}

CHECKS["C04"] = {
    "level": "exploration",
    "rule": ("cases = (a) exhaustive matrix of message id {0..21,254,255} x extended sub-id {0..5,255} x announced length {0..40, 2^14+8..10, 2^17, 2^20-1, 2^20, 2^20+1, 2^31, 2^32-1} x 4 payload fills, each complete frame followed by a sentinel frame, plus every truncation <=40 bytes with and without a following frame; "
             "(b) grammar-generated hostile bencode for extended handshake / ut_pex / ut_metadata; (c) mutations of valid frames from the independent codec. "
             "A case is distinct by hash(family, id, sub, length class, input class, outcome class) and non-trivial if it decoded a message or carried payload bytes."),
    "assumptions": COMMON_ASSUMPTIONS + [
        "allocation is measured as runtime.MemStats.TotalAlloc delta around one protocol.Read call in a single-goroutine child",
        "bound used: 256*(min(L,1MiB)+4)+64KiB bytes per call",
    ],
    "min": {"distinct_nontrivial": {"quick": 200, "thorough": 200}, "counters": {"decoded": 1000, "errors": 1000, "sentinel_ok": 1000}},
    "parts": [
        {"name": "decode", "pkg": "c04_decode", "race": False, "shards": 16, "ulimit_v_kb": 6000000},
    ],
}

CHECKS["C04"].update({
    "engine": "E2 codec",
    "technique": "runtime monitor: per-call oracle (recover, byte-exact consumption below bufio, sentinel frame, TotalAlloc delta) over an exhaustive id x length matrix plus generated hostile frames; differential against independent codec",
    "level_text": "Every frame in an exhaustive (message id x extended sub-id x announced length x fill x truncation) matrix and ~20k (quick) / 2M (thorough) generated hostile frames is decoded by the real protocol.Read under a monitor that checks totality, exact consumption, no over-read, the 1 MiB cap and an allocation bound. Exploration: judged on the inputs produced, the small-length matrix is complete.",
    "level_note": "trusts runtime.MemStats.TotalAlloc as allocation measure and the independent refwire codec for field comparison; zeebo/bencode string pre-allocation is a listed known finding",
})

E1_ASSUME = COMMON_ASSUMPTIONS + [
    "sched part: interleavings are explored at the granularity of the named yield points (places where the store lock is not held); finer interleavings are only exercised by the free-running stress part",
    "heap pieces (<128 KiB) cannot be used after free (GC); only mmap'd pieces give the SIGSEGV oracle; both sizes are in every geometry set",
    "a corrupt piece whose SHA-1 collides with the metainfo hash is outside any oracle",
]

def _e1_parts(prop):
    return [
        {"name": "sched", "pkg": "e1_store", "race": False, "shards": 16, "env": {"VERIF_PROP": prop}},
        {"name": "stress", "pkg": "e1_store", "race": True, "shards": 16, "env": {"VERIF_PROP": prop}},
        {"name": "uaf", "pkg": "e1_store", "race": False, "shards": 16, "env": {"VERIF_PROP": prop}},
    ] + ([{"name": "swarm-upload", "pkg": "c16_upload", "netns": "isolated", "race": False, "shards": 16, "env": {"VERIF_PROP": "C01"}},
          {"name": "swarm-readers", "pkg": "c02_reader", "netns": "loopback", "race": False, "shards": 16, "env": {"VERIF_PROP": "C01", "VERIF_PART": "readers"}},
          {"name": "swarm-frontends", "pkg": "c02_reader", "netns": "loopback", "race": False, "shards": 16, "env": {"VERIF_PROP": "C01", "VERIF_PART": "frontends"}},
          {"name": "swarm-large", "pkg": "c09_conserve", "netns": "isolated", "race": False, "shards": 9, "env": {"VERIF_PROP": "C01", "VERIF_PART": "large"}},
          {"name": "swarm-hashdel", "pkg": "c17_lifecycle", "netns": "isolated", "race": False, "shards": 8, "env": {"VERIF_PROP": "C01", "VERIF_PART": "hashdel"}}] if prop == "C01" else []) + ([{"name": "lru", "pkg": "e1_store", "race": False, "shards": 16, "env": {"VERIF_PROP": prop}},
          {"name": "torexpire", "pkg": "c03_torexpire", "netns": "isolated", "race": False, "shards": 16}] if prop == "C03" else [])

CHECKS["C01"] = {
    "level": "exploration",
    "engine": "E1 piece store",
    "rule": ("sched: 96 templated scenarios built around the windows named in the property (Finalise||AddData, ||ReadAt, ||Expire, ||Del, wrong hash, two Finalise; heap and mmap piece sizes; short last piece/block) explored by stateless DFS over yield-point release choices inside a synctest bubble, plus random programs x random schedules; "
             "stress: 4-12 free-running goroutines x rounds on 1-3 stores with a racing Del, built with -race, yield points inject Gosched/sleeps. "
             "swarm-upload / swarm-readers / swarm-frontends: the end-to-end view - the C16 upload histories and the C02 reader / HTTP Range / FUSE histories (corrupting and honest seeds mixed, evictions and deletion during reads) with every byte that leaves storrent (Piece payloads to scripted peers, Reader.Read, HTTP bodies, FUSE reads) compared with PRF truth at the claimed offset. "
             "Distinct = (scenario, variant) or program hash; non-trivial = at least two real scheduling decisions (sched) / at least one successful Finalise in the history (stress). distinct schedules are counted separately in counters."),
    "assumptions": E1_ASSUME,
    "min": {"distinct_nontrivial": {"quick": 100, "thorough": 100}, "counters": {"reads_with_data": 200, "visibility_histories": 200, "distinct_schedules_with_interleaving": 500, "piece_payloads_compared": 5000, "bytes_compared": 50000000}},
    "parts": _e1_parts("C01"),
    "technique": "runtime monitor: content oracle (PRF truth) on every read + per-piece visibility history checked with porcupine, over schedules enumerated at yield points in a synctest bubble and free-running -race stress; SIGSEGV on munmap'd buffers as hardware UAF oracle",
    "level_text": "The real piece store is executed under thousands of distinct yield-point schedules (DFS on templated race windows, random elsewhere) and under -race stress; every byte read is compared with position-dependent truth and each piece's history must be linearizable against 'readable only between a successful Finalise and a reported eviction/Del'. Held on the executions observed.",
    "level_note": "schedules are at yield-point granularity; race detector only sees accesses the stress workload made",
}

CHECKS["C03"] = {
    "level": "exploration",
    "engine": "E1 piece store",
    "rule": ("same workloads as C01 (sched DFS/random, stress) with the accounting oracles: at every quiescent cut alloc.Bytes() == sum of cap(buffer) over all pieces (reflect) and count == #buffers; complete pieces disappear only through a reported eviction or Del; after Del nothing is owned or allocated; "
             "plus lru: sequential eviction passes over stores whose piece ages were produced by virtual sleeps (0 s..3 h), checked for reaching the target, least-recently-accessed-first (commonest first beyond 2 h) and exact eviction reports. "
             "Distinct = scenario/program/eviction-class hash; non-trivial = >=2 scheduling decisions (sched), a successful Finalise (stress), a pass with both evicted and surviving pieces (lru)."),
    "assumptions": E1_ASSUME,
    "min": {"distinct_nontrivial": {"quick": 100, "thorough": 100}, "counters": {"cuts_checked": 2000, "release_checks": 200, "lru_passes": 100}},
    "parts": _e1_parts("C03"),
    "technique": "runtime monitor: structural invariant (allocator counter vs. buffers walked by reflect) at quiescent cuts of a yield-point scheduler, eviction-order and report oracles in virtual time, -race stress with barrier cuts",
    "level_text": "Accounting, eviction and release invariants are asserted at every quiescent cut of thousands of enumerated schedules and at barriers of -race stress runs, eviction order is judged on ages produced in virtual time. Held on the executions observed.",
    "level_note": "reads unexported fields through reflect at cuts (a missing field makes the run inconclusive, never a violation)",
}

E3_ASSUME = COMMON_ASSUMPTIONS + [
    "swarm runs inside one testing/synctest bubble per history: time is virtual, synctest.Wait() is the quiescent cut ('events in transit have been processed')",
    "remote peers are scripted by the harness and speak the independent refwire codec over net.Pipe; storrent's internal PRNG choices are not controlled (they are part of the explored space)",
    "unexported state is read through reflect at cuts only; a missing field makes the run inconclusive",
]

CHECKS["C09"] = {
    "level": "exploration",
    "engine": "E3 swarm",
    "rule": ("random download histories (40-80 steps, a quiescent cut and the conservation equations after every step): 1-6 scripted peers connect, advertise (bitfield/have/have-all/none/dont-have, changing), choke/unchoke, allowed-fast, answer requests with true/corrupt/short/empty/over-long/misplaced/duplicate blocks or rejects, stay silent past the 30 s expiry, disconnect; consumers request/withdraw pieces; evictions; geometries incl. short final block and >=72 pieces. "
             "Distinct = class vector of (answer kinds, choke, disconnect, advert changes, evictions, request/cancel counts); non-trivial = at least one block answered, one dropped (choke/disconnect/reject) and one request seen. The download histories also contain: mailbox back-pressure (torrent loop held while remotes toggle have / dont-have until the mailbox and the peers' overflow lists are full, then released), data pushed for every block of a piece (requested or queued or neither), the same against a remote that is not reading. Part 'large': torrents of 4-9 GiB (piece lengths 48K, 80K, 768K, 3M, 64K, 4M; real hashes only for the demanded pieces, content from the PRF on demand): pieces below / across / above byte 2^32, the last piece and pieces 0-2 are demanded from an honest seed under the same monitors, read back, read through a Reader across 2^32, and uploaded to a leech."),
    "assumptions": E3_ASSUME,
    "min": {"distinct_nontrivial": {"quick": 50, "thorough": 50}, "counters": {"conservation_cuts": 10000, "allzero_checks": 300, "requests_received": 2000, "backpressure": 300, "large_pieces_completed:above-4GiB": 10, "split_events_measured": 5000, "fetch_rounds": 800}},
    "parts": [{"name": "download", "pkg": "c09_conserve", "netns": "isolated", "race": False, "shards": 16, "env": {"VERIF_PROP": "C09"}},
              {"name": "download-race", "pkg": "c09_conserve", "netns": "isolated", "race": True, "shards": 16, "env": {"VERIF_PROP": "C09", "VERIF_RACE_SUBSET": "1"}},
              {"name": "large", "pkg": "c09_conserve", "netns": "isolated", "race": False, "shards": 9, "env": {"VERIF_PROP": "C09"}},
              {"name": "webseed-release", "pkg": "c14_webseed", "race": False, "shards": 16, "env": {"VERIF_PROP": "C09"}}],
    "technique": "runtime monitor: conservation equations (availability, in-flight) evaluated by reflect at every quiescent cut of a virtual-time swarm against both the peer actors' state and the scripted remotes' own view; storrent's own 'Eek' alarms captured; -race; web-seed reservations: the writer's TorData/TorDrop events fed to the real handlers and Torrent.inFlight read by reflection after every real fetch against a hostile HTTP server",
    "level_text": "The real torrent loop and peer actors run against scripted remotes in virtual time; after every step the two bookkeeping equations are evaluated at an exact quiescent cut and again after everybody disconnected. Held on the histories observed.",
    "level_note": "the swarm parts run without web seeds; the web-seed clause (every block reserved for a fetch is released exactly once, whatever the server answers and however the body is cut) is decided by part 'webseed-release', which is C14's writer and fetch workload reporting only in-flight leaks and over-releases",
}
CHECKS["C11"] = {
    "level": "exploration",
    "engine": "E3 swarm",
    "rule": CHECKS["C09"]["rule"].replace("the conservation equations", "the conformance monitor inside each scripted remote judging every message storrent sent Histories also contain scheduler commands injected into peer actors, mailbox back-pressure and pushed data (see C09). Part 'large': torrents of 4-9 GiB (piece lengths 48K, 80K, 768K, 3M, 64K, 4M; real hashes only for the demanded pieces, content from the PRF on demand): pieces below / across / above byte 2^32, the last piece and pieces 0-2 are demanded from an honest seed under the same monitors, read back, read through a Reader across 2^32, and uploaded to a leech."),
    "assumptions": E3_ASSUME + ["messages that reach a remote between its own state-changing message and the next quiescent cut are judged against either the old or the new state (exact exemption window)"],
    "min": {"distinct_nontrivial": {"quick": 50, "thorough": 50}, "counters": {"requests_received": 2000, "recv:bitfield": 100, "recv:cancel": 100, "recv:pex": 100, "pex_final_checks": 500, "bigpool_all_at_once": 20, "large_pieces_completed:above-4GiB": 10, "large_pieces_completed:spans-4GiB": 5}},
    "parts": [{"name": "download", "pkg": "c09_conserve", "netns": "isolated", "race": False, "shards": 16, "env": {"VERIF_PROP": "C11"}},
              {"name": "download-race", "pkg": "c09_conserve", "netns": "isolated", "race": True, "shards": 16, "env": {"VERIF_PROP": "C11", "VERIF_RACE_SUBSET": "1"}},
              {"name": "pex", "pkg": "c09_conserve", "netns": "isolated", "race": False, "shards": 16, "env": {"VERIF_PROP": "C11"}},
              {"name": "large", "pkg": "c09_conserve", "netns": "isolated", "race": False, "shards": 9, "env": {"VERIF_PROP": "C11"}}],
    "technique": "runtime monitor: online protocol-conformance checker inside the scripted remote peer (requests, cancels, bitfields, have/dont-have, fast messages, PEX deltas) with exact exemption windows closed at quiescent cuts",
    "level_text": "Every message storrent emits in the generated histories is judged at the receiving end by an independent monitor that uses only what the remote itself sent and received. Held on the histories observed.",
    "level_note": "queue-depth rule only judged when the remote advertised reqq; bitfield-first rule allows port/extended-handshake before it",
}

CHECKS["C16"] = {
    "level": "exploration",
    "engine": "E3 swarm",
    "rule": ("random upload histories (30-80 steps, quiescent cut after every step): store pre-filled from truth, 1-16 scripted leechers flap interest, send valid / zero-length / spanning / unaligned / out-of-range / duplicate requests, floods of 260-1000 requests, cancels of present and absent requests, stop reading (write congestion), disconnect in any choke state; choke rotation over virtual minutes; eviction and refill of requested pieces; torrent deleted while peers are unchoked. "
             "Distinct = class vector of the action and message counts; non-trivial = at least one request sent and one Piece received. Also: a missing piece is filled with corrupt data and verified slowly (hook at piece.finalise.hash.begin sleeps virtual time) while unchoked leeches request its blocks. Part 'large': torrents of 4-9 GiB (piece lengths 48K, 80K, 768K, 3M, 64K, 4M; real hashes only for the demanded pieces, content from the PRF on demand): pieces below / across / above byte 2^32, the last piece and pieces 0-2 are demanded from an honest seed under the same monitors, read back, read through a Reader across 2^32, and uploaded to a leech."),
    "assumptions": E3_ASSUME + ["the 'at most five unchoked per torrent' rotation is a mechanism, not part of the statement: it is reported, not asserted"],
    "min": {"distinct_nontrivial": {"quick": 50, "thorough": 50}, "counters": {"pieces_answering_our_requests": 2000, "unchoke_accounting_cuts_nonzero": 1000, "rejects_for_our_requests": 100}},
    "parts": [{"name": "upload", "pkg": "c16_upload", "netns": "isolated", "race": False, "shards": 16},
              {"name": "upload-race", "pkg": "c16_upload", "netns": "isolated", "race": True, "shards": 16, "env": {"VERIF_RACE_SUBSET": "1"}},
              {"name": "large", "pkg": "c09_conserve", "netns": "isolated", "race": False, "shards": 9, "env": {"VERIF_PROP": "C16", "VERIF_PART": "large"}}],
    "technique": "runtime monitor: upload-discipline checker inside the scripted leecher (every Piece must answer an outstanding, un-cancelled, un-choked request with the true bytes) + unchoke accounting invariant by reflect at quiescent cuts; -race",
    "level_text": "Every Piece/Reject/Choke/Unchoke storrent sends in the generated histories is judged by the receiving scripted leecher against its own request log and the truth; peer.NumUnchoking() is compared with the actors' flags and the remotes' view at every cut and after deletion. Held on the histories observed.",
    "level_note": "requests sent by a non-fast remote while it knows it is choked are expected to be dropped silently",
}

CHECKS["C10"] = {
    "level": "exploration",
    "engine": "E3 swarm",
    "rule": ("(a) exhaustive: every ordering of 1..5 events from {request A (prio 1, waiting), request B (prio 0, waiting), withdraw A, piece verified, piece fails verification, piece evicted} on one piece, each strictly ordered (cut after every event) and with consumer/completion event pairs issued simultaneously from two goroutines; "
             "(b) random histories on several pieces with direct callers of Torrent.Request at priorities -1..3, real tor.Readers (open/read/cancel/close, positioned in first, middle, last piece), completions, failed verifications, evictions, SetConf, idle prefetch on/off. After every step the reference model (multiset of priorities + open waiters) is compared with Torrent.requested and with the state of every wait channel. "
             "Distinct = group of orderings / class vector; non-trivial (random) = at least one waiter, one withdrawal and one completion."),
    "assumptions": E3_ASSUME + ["while real Readers are open their registrations are only bounded (current piece .. end of range), exact equality with the model is demanded whenever no reader is open"],
    "min": {"distinct_nontrivial": {"quick": 100, "thorough": 100}, "counters": {"model_cuts": 10000, "waiters_woken_as_expected": 1000, "exhaustive_orderings": 15000}},
    "exhaustive_note": "part (a) enumerates all 9330 orderings of length 1..5 over the 6-event alphabet, x2 variants",
    "parts": [{"name": "requests", "pkg": "c10_requests", "netns": "isolated", "race": False, "shards": 16},
              {"name": "requests-race", "pkg": "c10_requests", "netns": "isolated", "race": True, "shards": 16, "env": {"VERIF_RACE_SUBSET": "1"}}],
    "technique": "runtime monitor: reference model (priority multiset + wake-up register) stepped next to the real torrent loop, compared by reflect and by probing every wait channel at quiescent cuts; small event orderings enumerated exhaustively",
    "level_text": "All orderings of up to five request/withdraw/complete/fail/evict events on a piece and random multi-consumer histories with real Readers are executed against the real event loop in virtual time; stored priorities and every wait channel are compared with a reference model at each quiescent cut. Held on the executions observed.",
    "level_note": "a double close of a wait channel is observed as a crash of the child",
}

CHECKS["C17"] = {
    "level": "fault_enumeration",
    "engine": "E3 swarm",
    "rule": ("enumeration: 21 operations (GetStats, GetAvailable, DropPeer, GetPeer, GetPeers, GetKnown, GetKnowns, GetConf, SetConf, Request with/without wait, withdraw, Have, BadPeer, AddKnown, NewPeer, tor.Announce, Kill, Reader.Read blocked/complete, InfoComplete) x stop position {loop already stopped; stop queued before the call's event; call queued before the stop (must be served); stop and call simultaneous (repeated); context cancelled before / simultaneously} x {0,1,5 peers} x {0,2 blocked readers} x event queue {empty, 400 deep, full}. Queue positions are arranged exactly by parking the loop inside a handler (harness-owned reply channel) and verified by len(Event) at the parked cut. "
             "Distinct = the enumeration cell; every cell is non-trivial (the stop actually happened)."),
    "assumptions": E3_ASSUME + ["'returns' is judged in virtual time: a call that has not returned one virtual hour after the stop is a hang; goroutine exit is checked by synctest at the end of every bubble (a leaked goroutine crashes the child and is attributed to the case)"],
    "min": {"distinct_nontrivial": {"quick": 1000, "thorough": 1000}, "counters": {"calls_checked": 1000, "calls_served": 200, "calls_refused_dead": 200, "connections_seen_closed": 500, "webseed_fetches_abandoned_at_deletion": 4}},
    "exhaustive_note": "the (operation x stop position x peers x readers x queue depth) table is enumerated completely in every run",
    "parts": [{"name": "lifecycle", "pkg": "c17_lifecycle", "netns": "isolated", "race": False, "shards": 16},
              {"name": "webseed-stop", "pkg": "c17_lifecycle", "netns": "loopback", "race": False, "shards": 8},
              {"name": "lifecycle-race", "pkg": "c17_lifecycle", "netns": "isolated", "race": True, "shards": 16, "tiers": ["thorough"]}],
    "technique": "runtime monitor with fault enumeration: every API x every stop position arranged deterministically through the parked mailbox in a synctest bubble; bounded return in virtual time; post-mortem checks (unlisted, connections closed, readers fail, memory released, goroutines exited)",
    "level_text": "Every exported blocking operation is crossed with every position of the event loop's stop, with peers, blocked readers and pending events, inside a virtual-time bubble where 'does not hang' is decidable and leaked goroutines are detected by synctest. The enumeration is complete for the listed dimensions.",
    "level_note": "positions inside a handler other than 'parked with the stop behind it' are covered only by the simultaneous repetitions",
}

CHECKS["C05"] = {
    "level": "exploration",
    "engine": "E3 swarm",
    "rule": ("random hostile sequences of 1-40 well-framed messages from the full alphabet (choke..keep-alive, have, bitfield, request/cancel/reject, piece, port, suggest/allowed-fast, have-all/none, extended handshake incl. duplicates, ut_pex up to 5000 entries, ut_metadata, lt_donthave, upload_only, unknown ids / sub-ids) with boundary field values (0,1,n-1,n,n+1,2^14..2^32-1; payloads 0..2^20-9), in states metadata {known, unknown, arriving mid-sequence} x caps {none, fast, extended, both}, interleaved with the torrent's own commands (requests, evictions, ticks, deletion); a quiescent cut and the oracle after every single message; storrent-initiated disconnects are followed by a reconnect. "
             "Distinct = hash of (number of message classes, disconnected?, metadata completed?, length class, 64 buckets); non-trivial = at least 3 messages handled."),
    "assumptions": E3_ASSUME + ["part 'hostile' runs without -race under ulimit -v 6 GB so that an attacker-sized allocation is a clean fatal error attributed to the case; part 'hostile-race' repeats a prefix under -race with indexes capped at 2^20 and no memory limit",
                                "allocation bound per message: 256*len(frame) + 1 MiB, measured as process-wide TotalAlloc between the cut before and the cut after the message",
                                "non-termination of a handler would show as the child hitting the wall-clock watchdog (reported inconclusive, never as a pass)"],
    "min": {"distinct_nontrivial": {"quick": 100, "thorough": 100}, "counters": {"messages": 10000, "canary_probes": 500, "disconnected_by_storrent": 500}},
    "parts": [{"name": "hostile", "pkg": "c05_hostile", "netns": "isolated", "race": False, "shards": 16, "ulimit_v_kb": 6000000, "max_crashes": {"quick": 40, "thorough": 4000}},
              {"name": "hostile-race", "pkg": "c05_hostile", "netns": "isolated", "race": True, "shards": 16, "env": {"VERIF_CAP_INDEX": "1"}}],
    "technique": "runtime monitor: crash / termination / per-message allocation bound / blast-radius canaries evaluated at a quiescent cut after every hostile message sent to the real peer and torrent actors; child under RLIMIT_AS; second pass under -race",
    "level_text": "Generated hostile message sequences are sent on the wire to the real decoder->peer actor->torrent loop path in every capability and metadata state; after each message the process must be alive, quiescent, within an allocation bound proportional to the message, and canary peers/torrents must be unaffected. Held on the sequences observed.",
    "level_note": "allocation is process-wide (includes the harness's own small allocations); huge-index classes are listed known findings",
}

CHECKS["C12"] = {
    "level": "exploration",
    "engine": "E3 swarm",
    "rule": ("random histories on a torrent added by info-hash: metadata sizes {tiny, 100, 16383, 16384, 16385, 3x16384, 3x16384+1, 100000} (name stretched to hit the size exactly), 1-3 honest size voters and 0-3 liars (votes 1, size+-1, size+16384, 2^20, 128 MiB, 128 MiB+1, 2^31, none), 10-60 steps of honest blocks, forged blocks (index in {0, n-1, n, n+1, 2^31, 2^32-1}, total_size right/wrong/0/over the cap/absent, payload 0/1/16383/16384/16385/2^20-50 bytes or right length with flipped bytes) sent over the wire through ut_metadata or posted straight into the torrent's mailbox, other message types, peers joining/leaving, request ticks; 1 in 11 histories uses an authentic but unusable dictionary (piece length 0, empty name, odd pieces size, no length, too few hashes). "
             "At every cut InfoComplete() implies SHA-1(Info)==info-hash; at the end the true size is given a strict plurality and up to three honest passes (each followed by a request tick) must complete the metadata. "
             "Distinct = class vector x size; non-trivial = at least one forged block and a completed (or correctly refused degenerate) torrent."),
    "assumptions": E3_ASSUME + ["'completes once an honest block for every index has been delivered after the last corruption' is read as: within three honest passes, each followed by a request tick (the first pass may be consumed by the hash check that discards a poisoned buffer, and the buffer is only re-sized at the next tick)",
                                "the completion clause is applied only while the true size holds a strict plurality of the size votes cast (the protocol cannot tell sizes apart otherwise)"],
    "min": {"distinct_nontrivial": {"quick": 100, "thorough": 100}, "counters": {"completed": 1500, "forged-wire": 10000, "forged-mailbox": 3000, "degenerate_refused": 100}},
    "parts": [{"name": "metadata", "pkg": "c12_metadata", "netns": "isolated", "race": False, "shards": 16},
              {"name": "metadata-race", "pkg": "c12_metadata", "netns": "isolated", "race": True, "shards": 16, "env": {"VERIF_RACE_SUBSET": "1"}}],
    "technique": "runtime monitor: authenticity invariant (SHA-1 of the accepted dictionary) checked at every quiescent cut of hostile ut_metadata histories in a virtual-time swarm, bounded-completion oracle, process survival; -race",
    "level_text": "Hostile and honest metadata blocks and size votes are delivered to the real peer actors and torrent loop in generated orders; whenever the torrent reports complete metadata its SHA-1 must equal the info-hash, degenerate authentic dictionaries must be refused, nothing may crash, and honest delivery after the last forgery must complete within a bounded number of passes. Held on the histories observed.",
    "level_note": "SHA-1 collisions are outside any oracle",
}

CHECKS["C18"] = {
    "level": "exploration",
    "engine": "E3 swarm + E5 sockets",
    "rule": ("enumeration: 12 per-torrent settings (trackers on/off x web seeds on/off x DHT none/passive/normal) x proxy yes/no as initial configuration (set per torrent, or through the global defaults), x all SetConf sequences of length 0, 1 and 2 over the 12 settings (thorough: repeated with other waits and a third PRNG-chosen change), with virtual waits of 0 s / 25 s (one slow tick) / 30 min (DHT re-announce) between changes; a tracker fake and a web seed are present in every torrent, pieces are wanted and no peer has them. "
             "Every contact is judged, at the moment it starts, against the settings in force (old and new settings both count between the call of SetConf and the quiescent cut after its return): tracker fake Announce (and its port / proxy arguments), requests at the local web-seed server (for proxied torrents: at the local HTTP proxy), the DHT announce hook (mode, port), the extended handshake and Port message a scripted peer receives, an incoming handshake through tor.Server on a connection with a global-unicast address. "
             "Distinct = the enumeration cell; non-trivial = at least one contact was observed under an enabling setting in the same scenario (or nothing was ever enabled)."),
    "assumptions": E3_ASSUME + ["the local web-seed server answers 404: only the fact of the request is observed; for proxied torrents the same server is configured as HTTP proxy, so a web-seed fetch shows up there as a proxy request",
                                "the uninitialised C DHT library returns an error after the hook has reported the announce; what the library would send is not observed"],
    "min": {"distinct_nontrivial": {"quick": 3000, "thorough": 3000}, "counters": {"tracker_contacts_allowed": 1000, "webseed_contacts_allowed": 1000, "dht_announces_allowed": 2000, "dht_announces_with_port": 300, "peer_handshakes_proxied_checked": 1500, "incoming_refused_proxied": 1500, "incoming_refused_proxied_after_swap": 1500, "incoming_accepted_unproxied": 1500, "tracker_contacts_proxied": 300}},
    "exhaustive_note": "the initial-configuration x proxy x SetConf-sequence (length <= 2) table is enumerated completely; waits are PRNG-chosen per cell",
    "parts": [{"name": "privacy", "pkg": "c18_privacy", "netns": "loopback", "race": False, "shards": 16},
              {"name": "privacy-race", "pkg": "c18_privacy", "netns": "loopback", "race": True, "shards": 16, "tiers": ["thorough"]}],
    "technique": "runtime monitor: absence-of-contact checker on all outbound channels (injected tracker fakes, local web-seed/proxy server, DHT announce hook, scripted peer, incoming handshake) judged against the settings in force at the start of each contact, over an exhaustive configuration x SetConf-sequence table in virtual time",
    "level_text": "Every combination of per-torrent privacy settings, with and without proxy, and every sequence of up to two run-time changes is executed against the real torrent loop in virtual time (slow ticks, 28-minute DHT re-announces) with trackers and web seeds present and pieces wanted; each outbound contact is judged at its start against the settings in force. Held on the scenarios observed.",
    "level_note": "needs the verif build tag hook in Torrent.announce; the web-seed fetch uses a real loopback socket (child runs in its own network namespace with lo up)",
}

CHECKS["C02"] = {
    "level": "exploration",
    "engine": "E3 swarm + E6 front-end",
    "rule": ("readers: random seek/read programs (15-55 steps; whence variants, seeks before 0 / to / past EOF, buffer sizes 1 B..200 KB, zero-length reads, read-to-EOF) on 1-4 real tor.Readers over windows of torrents <= 1 MiB (whole torrent, a file, ending at a piece end, ending inside a piece, one byte, starting in the first piece, the tail), single- and multi-file, while one honest auto-seed and 0-2 slow / corrupting / silent seeds deliver, seeds leave and are replaced, pieces are evicted between reads (per-torrent eviction with Have(false) as tor.Expire does it, and tor.Expire itself under a small MemoryMark); one history in four starts with every piece already complete (the 'complete at request time, then evicted' family); each history ends with blocked reads being cancelled or the torrent killed. "
             "frontends: HTTP GETs through the mux with Range headers (none, a-b, a-, -n, end beyond EOF, unsatisfiable, two ranges, first/last byte) and 1-4 concurrent FUSE handle reads (offsets up to and beyond EOF) on a file of a torrent that is being downloaded and evicted. "
             "Every byte returned is compared with PRF truth at offset+position, lengths/EOF/Seek results with a seekable-file reference model, HTTP status/Content-Range/multipart parts with the range semantics. "
             "Distinct = class vector of the action counts; non-trivial = at least three reads and one eviction (readers) / at least one HTTP request and one FUSE read (frontends). In half of the histories hashing takes virtual time (hook), and after evictions readers come back exactly while a piece is being verified; one seed corrupts whole blocks. Part 'large': torrents of 4-9 GiB (piece lengths 48K, 80K, 768K, 3M, 64K, 4M; real hashes only for the demanded pieces, content from the PRF on demand): pieces below / across / above byte 2^32, the last piece and pieces 0-2 are demanded from an honest seed under the same monitors, read back, read through a Reader across 2^32, and uploaded to a leech."),
    "assumptions": E3_ASSUME + ["'eventually returns the data' is decided as bounded progress: a Read (retried every 100 virtual ms on (0,nil)), an HTTP request or a FUSE read must complete within 10 virtual minutes while an honest unchoking auto-seed is connected; 'fails promptly' = within 1 virtual minute of cancel / Kill",
                                "short reads and transient (0,nil) are allowed; anything else is compared exactly"],
    "min": {"distinct_nontrivial": {"quick": 60, "thorough": 60}, "counters": {"reads": 5000, "bytes_compared": 50000000, "evictions": 1000, "eofs": 300, "reads_resumed_after_zero_returns": 20, "http_206": 100, "fuse_reads": 500, "blocked_reads_failed_promptly:cancel": 50, "blocked_reads_failed_promptly:kill": 50}},
    "parts": [{"name": "readers", "pkg": "c02_reader", "netns": "loopback", "race": False, "shards": 16},
              {"name": "frontends", "pkg": "c02_reader", "netns": "loopback", "race": False, "shards": 16},
              {"name": "readers-race", "pkg": "c02_reader", "netns": "loopback", "race": True, "shards": 16, "env": {"VERIF_RACE_SUBSET": "1"}},
              {"name": "large", "pkg": "c09_conserve", "netns": "isolated", "race": False, "shards": 9, "env": {"VERIF_PROP": "C02", "VERIF_PART": "large"}}],
    "technique": "runtime monitor: seekable-file reference model stepped next to real Readers / HTTP Range requests / FUSE reads over a virtual-time swarm with auto-seeds and evictions; content oracle (PRF truth); bounded-progress and prompt-failure oracles in virtual time; -race",
    "level_text": "Generated seek/read programs, ranged GETs and concurrent FUSE reads run against the real Reader while scripted seeds deliver (or corrupt) data and pieces are evicted in between; every returned byte, length, EOF, Seek result and HTTP range answer is compared with the reference, blocked reads must resume within a virtual-time bound and fail promptly on cancel/Kill. Held on the histories observed.",
    "level_note": "the HTTP and FUSE parts are driven without sockets / kernel (mux + recorder, fs.Node interfaces)",
}

# ---- entries written by the check builders (kept in their own files) ----
import os as _os
_here = _os.path.dirname(_os.path.abspath(__file__))
for _f in ["registry_C20.py.txt", "registry_C19.py.txt", "registry_C07.py.txt", "registry_C08.py.txt", "registry_C14.py.txt", "registry_C15.py.txt", "registry_C06.py.txt", "registry_C13.py.txt"]:
    _p = _os.path.join(_here, _f)
    if _os.path.exists(_p):
        exec(compile(open(_p).read(), _p, "exec"))

MANIFEST_META = {
    "hook_commits": ["db0b83b", "f0ff4d9", "d998a9e", "0811933"],
    "pending_reason": {},
    "engines": [
        {"name": "E1 piece store", "path": "harness/checks/e1_store, harness/sched", "serves_properties": ["C01", "C03"], "kind_free_text": "real tor/piece.Pieces under a deterministic yield-point scheduler (stateless DFS / random) inside a synctest bubble, and free-running under -race; porcupine visibility model; reflect accounting at cuts; LRU in virtual time"},
        {"name": "E2 codec", "path": "harness/checks/c04_decode, c06_roundtrip, c13_torfile, harness/refwire", "serves_properties": ["C04", "C06", "C13"], "kind_free_text": "generators + per-call oracles on the real decoders/encoders/parsers, single-goroutine children, allocation measured per call, differential against the independent refwire codec"},
        {"name": "E3 swarm", "path": "harness/swarm, harness/checks/c05_hostile, c09_conserve, c10_requests, c16_upload, c17_lifecycle", "serves_properties": ["C05", "C09", "C10", "C11", "C16", "C17"], "kind_free_text": "real tor.AddTorrent loops + real peer.Run actors on net.Pipe against scripted remote peers speaking refwire, inside one synctest bubble per history (virtual time, synctest.Wait quiescent cuts, reflect state readers, parked mailbox)"},
        {"name": "E4 handshake", "path": "harness/refwire/mse.go, harness/checks/c07_handshake, c08_policy", "serves_properties": ["C07", "C08"], "kind_free_text": "storrent's handshakes against the independent refwire MSE/BT implementation over net.Pipe with harness-chosen segmentation inside synctest bubbles; storrent<->storrent through a re-segmenting relay; tapped tables of option pairs; real tor.DialClient through a harness SOCKS5 listener; crypto.Conn over an in-memory duplex with write-fault injection"},
        {"name": "E5 sockets", "path": "harness/checks/c14_webseed, c15_tracker, harness/refwire/tracker.go", "serves_properties": ["C14", "C15"], "kind_free_text": "local httptest / UDP servers playing hostile web seeds and trackers; storrent's client side in real time or in a synctest bubble where timers matter; tor.NewWriter driven directly with every split"},
        {"name": "E6 front-end", "path": "harness/fixture/frontend.go, harness/checks/c19_webui, c20_namespace", "serves_properties": ["C19", "C20"], "kind_free_text": "storhttp.Serve registers the handlers once; requests go through http.DefaultServeMux.ServeHTTP with recorders (panics recovered into violations); FUSE nodes via fuse.VerifRoot(); real torrent event loops on a truth-prefilled store; scripted refwire peers over net.Pipe"},
    ],
    "notes": "Runtime monitoring only. ./verif check <id> rebuilds the check binaries from /repo's working tree with -tags verif, shards a fixed (seed,tier)-determined case list over child processes, merges record streams, matches violation signatures against known-findings.json and writes evidence/<id>.json. Exit 0 held / 1 VIOLATION / 2 INCONCLUSIVE.",
}
