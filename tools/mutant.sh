#!/bin/bash
# usage: tools/mutant.sh <patch.diff> <check-id>...   -- validate checks against a seeded change
# Applies the patch to a scratch copy of /repo (never /repo itself), runs the quick checks against it.
set -u
patch=$(readlink -f "$1"); shift
tag=$(basename "$(dirname "$patch")")-$$
wt=/tmp/mut-$tag
rm -rf "$wt"; mkdir -p "$wt"
rsync -a --exclude .git /repo/ "$wt/repo/"
( cd "$wt/repo" && patch -p1 -s < "$patch" ) || { echo "PATCH FAILED"; rm -rf "$wt"; exit 3; }
rc=0
for id in "$@"; do
  echo "== $id against $(basename "$(dirname "$patch")")"
  VERIF_REPO="$wt/repo" VERIF_BUILD="$wt/build" /verif/verif check "$id" --tier quick 2>&1 | grep -E '^(VIOLATION|KNOWN|INCONCLUSIVE|C[0-9]+ tier|  sig)' | cut -c1-240
done
rm -rf "$wt"
