package vk

import "math/rand/v2"

// Rng returns the deterministic PRNG of case i (a pure function of the seed).
func (e Env) Rng(i int) *rand.Rand {
	return rand.New(rand.NewPCG(uint64(e.Seed)*0x9E3779B97F4A7C15+0x1234567, uint64(i)+1))
}

// Pick returns a random element.
func Pick[T any](r *rand.Rand, xs []T) T { return xs[r.IntN(len(xs))] }
