// Package vk is the small runtime every check binary shares: deterministic
// case lists sharded over child processes, a record stream the Python runner
// merges, three-valued verdicts, counters, fingerprints and samples.
package vk

import (
	"encoding/json"
	"fmt"
	"hash/fnv"
	"os"
	"sort"
	"strconv"
	"strings"
	"sync"
	"testing"
	"time"
)

// Env is the run configuration taken from the environment.
type Env struct {
	Seed     int64
	Tier     string // quick | thorough
	Shard    int
	Shards   int
	Out      string // JSONL record stream
	Resume   int    // skip cases with index <= Resume (after a crash)
	Only     int    // >=0: run only this case index (replay)
	Property string
}

func getenvInt(name string, def int64) int64 {
	s := os.Getenv(name)
	if s == "" {
		return def
	}
	v, err := strconv.ParseInt(s, 10, 64)
	if err != nil {
		return def
	}
	return v
}

// LoadEnv reads VERIF_* variables.
func LoadEnv() Env {
	e := Env{
		Seed:   getenvInt("VERIF_SEED", 1),
		Tier:   os.Getenv("VERIF_TIER"),
		Shards: 1,
		Out:    os.Getenv("VERIF_OUT"),
		Resume: int(getenvInt("VERIF_RESUME", -1)),
		Only:   int(getenvInt("VERIF_ONLY", -1)),
	}
	if e.Tier != "thorough" {
		e.Tier = "quick"
	}
	if s := os.Getenv("VERIF_SHARD"); s != "" {
		a, b, ok := strings.Cut(s, "/")
		if ok {
			i, _ := strconv.Atoi(a)
			n, _ := strconv.Atoi(b)
			if n > 0 && i >= 0 && i < n {
				e.Shard, e.Shards = i, n
			}
		}
	}
	return e
}

// Violation is one refuting observation.
type Violation struct {
	Kind   string `json:"kind"`
	Sig    string `json:"sig"`
	Detail string `json:"detail"`
	Case   int    `json:"case"`
	Desc   any    `json:"desc,omitempty"`
	Replay any    `json:"replay,omitempty"`
}

// Run is the per-process aggregate state.
type Run struct {
	Env  Env
	Prop string
	// KindFilter, when set, drops violations whose kind it rejects (set before the first case).
	KindFilter func(kind string) bool

	mu         sync.Mutex
	out        *os.File
	cur        *os.File
	counters   map[string]int64
	fps        map[string]bool // fingerprint -> nontrivial
	samples    []any
	maxSample  int
	cases      int
	held       int
	violated   int
	inconcl    int
	inconclWhy map[string]int
	lastFlush  time.Time
	notes      map[string]string
	t0         time.Time
	complete   bool
	wd         *time.Timer // wall-clock watchdog of the case under way
}

// Finish marks the case loop as having run to its end (call last in TestCheck).
// A final snapshot without it means the test function was aborted (FailNow in a bubble).
func (r *Run) Finish() {
	r.mu.Lock()
	r.complete = true
	r.mu.Unlock()
}

// C is the context of one case.
type C struct {
	R     *Run
	Index int
	Desc  any

	mu        sync.Mutex
	verdict   string
	fp        string
	nontriv   bool
	whyInconc string
}

// New opens the record stream.
func New(prop string) *Run {
	r := &Run{
		Env:        LoadEnv(),
		Prop:       prop,
		counters:   map[string]int64{},
		fps:        map[string]bool{},
		inconclWhy: map[string]int{},
		notes:      map[string]string{},
		maxSample:  5,
		t0:         time.Now(),
	}
	r.Env.Property = prop
	if r.Env.Out != "" {
		f, err := os.OpenFile(r.Env.Out, os.O_CREATE|os.O_WRONLY|os.O_APPEND, 0o644)
		if err != nil {
			panic(err)
		}
		r.out = f
		c, err := os.OpenFile(r.Env.Out+".cur", os.O_CREATE|os.O_WRONLY, 0o644)
		if err != nil {
			panic(err)
		}
		r.cur = c
	}
	return r
}

func (r *Run) emit(v any) {
	b, err := json.Marshal(v)
	if err != nil {
		b, _ = json.Marshal(map[string]any{"t": "error", "err": err.Error()})
	}
	if r.out != nil {
		r.out.Write(append(b, '\n'))
	} else {
		os.Stdout.Write(append(b, '\n'))
	}
}

// Mine reports whether case i belongs to this shard/run.
func (r *Run) Mine(i int) bool {
	if r.Env.Only >= 0 {
		return i == r.Env.Only
	}
	if i <= r.Env.Resume {
		return false
	}
	return i%r.Env.Shards == r.Env.Shard
}

// Note records a string shown in the evidence (thresholds, constants).
func (r *Run) Note(k, v string) {
	r.mu.Lock()
	r.notes[k] = v
	r.mu.Unlock()
}

// Count adds to a named counter.
func (r *Run) Count(name string, n int64) {
	r.mu.Lock()
	r.counters[name] += n
	r.mu.Unlock()
}

// Max keeps the maximum of a named gauge.
func (r *Run) Max(name string, n int64) {
	r.mu.Lock()
	if n > r.counters[name] {
		r.counters[name] = n
	}
	r.mu.Unlock()
}

// Begin marks the start of a case (crash attribution).
func (r *Run) Begin(i int, desc any) *C {
	if r.cur != nil {
		b, _ := json.Marshal(map[string]any{"case": i, "desc": desc})
		if len(b) > 60000 {
			b, _ = json.Marshal(map[string]any{"case": i, "desc": "(too large)"})
		}
		b = append(b, '\n')
		r.cur.Truncate(0)
		r.cur.WriteAt(b, 0)
	}
	// wall-clock watchdog of one case (real time: Begin is called outside any bubble). A case takes seconds;
	// one that is still running after ten minutes is spinning or stuck in a way the case's own (virtual-time)
	// bounds cannot see. The child says so and exits; the runner counts it as inconclusive, never as a
	// violation, and goes on after that case.
	if r.wd != nil {
		r.wd.Stop()
	}
	wall := 10 * time.Minute
	if v := os.Getenv("VERIF_CASE_WALL_S"); v != "" {
		if n, err := strconv.Atoi(v); err == nil && n > 0 {
			wall = time.Duration(n) * time.Second
		}
	}
	r.wd = time.AfterFunc(wall, func() {
		fmt.Fprintf(os.Stderr, "\nVK-WATCHDOG: case %d exceeded %v of wall clock\n", i, wall)
		os.Exit(97)
	})
	return &C{R: r, Index: i, Desc: desc, verdict: "held"}
}

// Count adds to a run counter.
func (c *C) Count(name string, n int64) { c.R.Count(name, n) }

// FP sets the case fingerprint and whether it exercised the mechanism.
func (c *C) FP(fp string, nontrivial bool) {
	c.mu.Lock()
	c.fp = fp
	c.nontriv = nontrivial
	c.mu.Unlock()
}

// Violated reports whether a violation has been recorded for this case.
func (c *C) Violated() bool {
	c.mu.Lock()
	defer c.mu.Unlock()
	return c.verdict == "violated"
}

// Violation records a refuting observation.  sig must be built from
// semantic features of the case, never from free text.
func (c *C) Violation(kind, sig, detail string, replay any) {
	if f := c.R.KindFilter; f != nil && !f(kind) {
		return // a package run on behalf of another property reports only the kinds that property forbids
	}
	c.mu.Lock()
	first := c.verdict != "violated"
	c.verdict = "violated"
	c.mu.Unlock()
	if len(detail) > 4000 {
		detail = detail[:4000] + "…"
	}
	c.R.mu.Lock()
	defer c.R.mu.Unlock()
	if first {
		c.R.violated++
	}
	c.R.emit(map[string]any{"t": "violation", "v": Violation{
		Kind: kind, Sig: c.R.Prop + " " + sig, Detail: detail, Case: c.Index,
		Desc: c.Desc, Replay: replay}})
}

// Inconclusive marks the case inconclusive (unless already violated).
func (c *C) Inconclusive(why string) {
	c.mu.Lock()
	defer c.mu.Unlock()
	if c.verdict == "held" {
		c.verdict = "inconclusive"
		c.whyInconc = why
	}
}

// End closes the case.
func (c *C) End() {
	r := c.R
	if r.wd != nil {
		r.wd.Stop()
	}
	r.mu.Lock()
	r.cases++
	switch c.verdict {
	case "held":
		r.held++
	case "inconclusive":
		r.inconcl++
		r.inconclWhy[c.whyInconc]++
	}
	if c.fp != "" {
		if c.nontriv {
			r.fps[c.fp] = true
		} else if _, ok := r.fps[c.fp]; !ok {
			r.fps[c.fp] = false
		}
	}
	if len(r.samples) < r.maxSample && c.Desc != nil {
		r.samples = append(r.samples, c.Desc)
	}
	flush := time.Since(r.lastFlush) > 250*time.Millisecond
	r.mu.Unlock()
	if flush {
		r.Flush(false)
	}
}

// Flush writes a cumulative snapshot.
func (r *Run) Flush(final bool) {
	r.mu.Lock()
	defer r.mu.Unlock()
	r.lastFlush = time.Now()
	nt := []string{}
	triv := 0
	for k, v := range r.fps {
		if v {
			nt = append(nt, k)
		} else {
			triv++
		}
	}
	sort.Strings(nt)
	r.emit(map[string]any{
		"t": "snapshot", "final": final && r.complete, "aborted": final && !r.complete, "shard": r.Env.Shard,
		"cases": r.cases, "held": r.held, "violated": r.violated,
		"inconclusive": r.inconcl, "inconclusive_why": r.inconclWhy,
		"counters": r.counters, "fps_nontrivial": nt, "fps_trivial": triv,
		"samples": r.samples, "notes": r.notes,
		"wall_s": time.Since(r.t0).Seconds(),
	})
}

// Cases runs n cases: gen(i) returns the descriptor and body of case i.
// It is the standard main loop of a check.
func (r *Run) Cases(t *testing.T, n int, gen func(i int) (desc any, body func(c *C))) {
	for i := 0; i < n; i++ {
		if !r.Mine(i) {
			continue
		}
		desc, body := gen(i)
		c := r.Begin(i, desc)
		body(c)
		c.End()
	}
}

// Done flushes the final snapshot.
func (r *Run) Done() {
	r.Flush(true)
	if r.out != nil {
		r.out.Sync()
	}
}

// Hash64 is a convenience fingerprint helper.
func Hash64(parts ...any) string {
	h := fnv.New64a()
	for _, p := range parts {
		fmt.Fprintf(h, "%v|", p)
	}
	return strconv.FormatUint(h.Sum64(), 36)
}

// Tier picks a value by tier.
func (e Env) N(quick, thorough int) int {
	if e.Tier == "thorough" {
		return thorough
	}
	return quick
}
