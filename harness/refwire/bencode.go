// Package refwire is an independent implementation of the BitTorrent wire
// formats (BEP 3, 5, 6, 9, 10, 11, lt_donthave, upload_only), of bencoding and
// of the MSE handshake, written from the specifications and not from
// storrent's protocol package.  It is the reference side of the differential
// monitors.
package refwire

import (
	"bytes"
	"errors"
	"fmt"
	"sort"
	"strconv"
)

// Bencode values: int64, []byte, []any, *Dict.

// Dict is a bencoded dictionary that keeps the order in which keys appeared.
type Dict struct {
	Keys []string
	Vals map[string]any
	// Spans of the raw value bytes per key (filled by the decoder).
	Span map[string][2]int
}

func NewDict() *Dict { return &Dict{Vals: map[string]any{}, Span: map[string][2]int{}} }

func (d *Dict) Set(k string, v any) *Dict {
	if _, ok := d.Vals[k]; !ok {
		d.Keys = append(d.Keys, k)
	}
	d.Vals[k] = v
	return d
}

func (d *Dict) Get(k string) (any, bool) {
	if d == nil {
		return nil, false
	}
	v, ok := d.Vals[k]
	return v, ok
}

func (d *Dict) Int(k string) (int64, bool) {
	v, ok := d.Get(k)
	if !ok {
		return 0, false
	}
	i, ok := v.(int64)
	return i, ok
}

func (d *Dict) Bytes(k string) ([]byte, bool) {
	v, ok := d.Get(k)
	if !ok {
		return nil, false
	}
	b, ok := v.([]byte)
	return b, ok
}

// Benc encodes canonically (sorted keys).
func Benc(v any) []byte {
	var b bytes.Buffer
	benc(&b, v, true)
	return b.Bytes()
}

// BencOrdered encodes keeping Dict.Keys order (for non-canonical inputs).
func BencOrdered(v any) []byte {
	var b bytes.Buffer
	benc(&b, v, false)
	return b.Bytes()
}

func benc(b *bytes.Buffer, v any, sorted bool) {
	switch v := v.(type) {
	case int:
		fmt.Fprintf(b, "i%de", v)
	case int64:
		fmt.Fprintf(b, "i%de", v)
	case uint32:
		fmt.Fprintf(b, "i%de", v)
	case uint64:
		fmt.Fprintf(b, "i%de", v)
	case string:
		fmt.Fprintf(b, "%d:", len(v))
		b.WriteString(v)
	case []byte:
		fmt.Fprintf(b, "%d:", len(v))
		b.Write(v)
	case Raw:
		b.Write(v)
	case []any:
		b.WriteByte('l')
		for _, x := range v {
			benc(b, x, sorted)
		}
		b.WriteByte('e')
	case *Dict:
		b.WriteByte('d')
		keys := append([]string(nil), v.Keys...)
		if sorted {
			sort.Strings(keys)
		}
		for _, k := range keys {
			fmt.Fprintf(b, "%d:%s", len(k), k)
			benc(b, v.Vals[k], sorted)
		}
		b.WriteByte('e')
	default:
		panic(fmt.Sprintf("refwire.benc: unsupported %T", v))
	}
}

// Raw is pre-encoded bencode spliced in verbatim.
type Raw []byte

var ErrBencode = errors.New("refwire: bad bencode")

// Bdec decodes one value from the start of b, returns it and the number of
// bytes used.  strict demands canonical form (sorted unique keys, no leading
// zeros, no negative zero).
func Bdec(b []byte, strict bool) (any, int, error) {
	d := bdec{b: b, strict: strict}
	v, err := d.value(0)
	if err != nil {
		return nil, d.i, err
	}
	return v, d.i, nil
}

type bdec struct {
	b      []byte
	i      int
	strict bool
}

func (d *bdec) value(depth int) (any, error) {
	if depth > 10000 {
		return nil, ErrBencode
	}
	if d.i >= len(d.b) {
		return nil, ErrBencode
	}
	switch c := d.b[d.i]; {
	case c == 'i':
		j := bytes.IndexByte(d.b[d.i:], 'e')
		if j < 0 {
			return nil, ErrBencode
		}
		s := string(d.b[d.i+1 : d.i+j])
		if s == "" || s == "-" {
			return nil, ErrBencode
		}
		if d.strict {
			if s == "-0" || (len(s) > 1 && s[0] == '0') || (len(s) > 2 && s[0] == '-' && s[1] == '0') {
				return nil, ErrBencode
			}
		}
		for k, ch := range s {
			if !(ch >= '0' && ch <= '9') && !(k == 0 && ch == '-') {
				return nil, ErrBencode
			}
		}
		n, err := strconv.ParseInt(s, 10, 64)
		if err != nil {
			return nil, ErrBencode
		}
		d.i += j + 1
		return n, nil
	case c >= '0' && c <= '9':
		j := bytes.IndexByte(d.b[d.i:], ':')
		if j < 0 || j > 20 {
			return nil, ErrBencode
		}
		s := string(d.b[d.i : d.i+j])
		for _, ch := range s {
			if ch < '0' || ch > '9' {
				return nil, ErrBencode
			}
		}
		if d.strict && len(s) > 1 && s[0] == '0' {
			return nil, ErrBencode
		}
		n, err := strconv.ParseInt(s, 10, 64)
		if err != nil || n < 0 || n > int64(len(d.b)-(d.i+j+1)) {
			return nil, ErrBencode
		}
		st := d.i + j + 1
		d.i = st + int(n)
		return d.b[st:d.i], nil
	case c == 'l':
		d.i++
		l := []any{}
		for {
			if d.i >= len(d.b) {
				return nil, ErrBencode
			}
			if d.b[d.i] == 'e' {
				d.i++
				return l, nil
			}
			v, err := d.value(depth + 1)
			if err != nil {
				return nil, err
			}
			l = append(l, v)
		}
	case c == 'd':
		d.i++
		m := NewDict()
		last := ""
		first := true
		for {
			if d.i >= len(d.b) {
				return nil, ErrBencode
			}
			if d.b[d.i] == 'e' {
				d.i++
				return m, nil
			}
			if d.b[d.i] < '0' || d.b[d.i] > '9' {
				return nil, ErrBencode
			}
			kv, err := d.value(depth + 1)
			if err != nil {
				return nil, err
			}
			k := string(kv.([]byte))
			if d.strict && !first && k <= last {
				return nil, ErrBencode
			}
			first = false
			last = k
			st := d.i
			v, err := d.value(depth + 1)
			if err != nil {
				return nil, err
			}
			if _, dup := m.Vals[k]; !dup {
				m.Keys = append(m.Keys, k)
				m.Vals[k] = v
				m.Span[k] = [2]int{st, d.i}
			} else if d.strict {
				return nil, ErrBencode
			}
		}
	default:
		return nil, ErrBencode
	}
}
