package refwire

import (
	"encoding/binary"
	"errors"
	"fmt"
	"net/netip"
)

// Message ids (BEP 3, 5, 6, 10).
const (
	IDChoke         = 0
	IDUnchoke       = 1
	IDInterested    = 2
	IDNotInterested = 3
	IDHave          = 4
	IDBitfield      = 5
	IDRequest       = 6
	IDPiece         = 7
	IDCancel        = 8
	IDPort          = 9
	IDSuggest       = 13
	IDHaveAll       = 14
	IDHaveNone      = 15
	IDReject        = 16
	IDAllowedFast   = 17
	IDExtended      = 20
)

// Kind names a decoded message.
type Kind string

const (
	KKeepAlive     Kind = "keepalive"
	KChoke         Kind = "choke"
	KUnchoke       Kind = "unchoke"
	KInterested    Kind = "interested"
	KNotInterested Kind = "notinterested"
	KHave          Kind = "have"
	KBitfield      Kind = "bitfield"
	KRequest       Kind = "request"
	KPiece         Kind = "piece"
	KCancel        Kind = "cancel"
	KPort          Kind = "port"
	KSuggest       Kind = "suggest"
	KHaveAll       Kind = "haveall"
	KHaveNone      Kind = "havenone"
	KReject        Kind = "reject"
	KAllowedFast   Kind = "allowedfast"
	KExtended      Kind = "extended" // raw extended message: Sub + Data
	KUnknown       Kind = "unknown"
)

// Msg is one peer-wire message.
type Msg struct {
	Kind                 Kind
	ID                   byte // raw id (for unknown)
	Index, Begin, Length uint32
	Port                 uint16
	Data                 []byte // bitfield, block, or extended payload
	Sub                  byte   // extended sub-id
}

func be32(v uint32) []byte { return binary.BigEndian.AppendUint32(nil, v) }

// Frame prepends the 4-byte length prefix.
func Frame(body []byte) []byte {
	return append(be32(uint32(len(body))), body...)
}

// Encode produces the wire bytes of m (length prefix included).
func Encode(m Msg) []byte {
	switch m.Kind {
	case KKeepAlive:
		return []byte{0, 0, 0, 0}
	case KChoke:
		return Frame([]byte{IDChoke})
	case KUnchoke:
		return Frame([]byte{IDUnchoke})
	case KInterested:
		return Frame([]byte{IDInterested})
	case KNotInterested:
		return Frame([]byte{IDNotInterested})
	case KHave:
		return Frame(append([]byte{IDHave}, be32(m.Index)...))
	case KBitfield:
		return Frame(append([]byte{IDBitfield}, m.Data...))
	case KRequest, KCancel, KReject:
		id := byte(IDRequest)
		if m.Kind == KCancel {
			id = IDCancel
		} else if m.Kind == KReject {
			id = IDReject
		}
		b := []byte{id}
		b = append(b, be32(m.Index)...)
		b = append(b, be32(m.Begin)...)
		b = append(b, be32(m.Length)...)
		return Frame(b)
	case KPiece:
		b := []byte{IDPiece}
		b = append(b, be32(m.Index)...)
		b = append(b, be32(m.Begin)...)
		b = append(b, m.Data...)
		return Frame(b)
	case KPort:
		return Frame([]byte{IDPort, byte(m.Port >> 8), byte(m.Port)})
	case KSuggest:
		return Frame(append([]byte{IDSuggest}, be32(m.Index)...))
	case KHaveAll:
		return Frame([]byte{IDHaveAll})
	case KHaveNone:
		return Frame([]byte{IDHaveNone})
	case KAllowedFast:
		return Frame(append([]byte{IDAllowedFast}, be32(m.Index)...))
	case KExtended:
		return Frame(append([]byte{IDExtended, m.Sub}, m.Data...))
	case KUnknown:
		return Frame(append([]byte{m.ID}, m.Data...))
	}
	panic("refwire.Encode: kind " + string(m.Kind))
}

var ErrShort = errors.New("refwire: short frame")
var ErrLength = errors.New("refwire: wrong length for message id")

// Decode parses exactly one frame (length prefix included) strictly.
// It returns the message and the number of bytes the frame occupies.
func Decode(b []byte) (Msg, int, error) {
	if len(b) < 4 {
		return Msg{}, 0, ErrShort
	}
	n := int(binary.BigEndian.Uint32(b))
	if len(b)-4 < n {
		return Msg{}, 0, ErrShort
	}
	if n == 0 {
		return Msg{Kind: KKeepAlive}, 4, nil
	}
	body := b[4 : 4+n]
	id := body[0]
	p := body[1:]
	want := func(l int) error {
		if len(p) != l {
			return ErrLength
		}
		return nil
	}
	u32 := func(i int) uint32 { return binary.BigEndian.Uint32(p[i:]) }
	m := Msg{ID: id}
	var err error
	switch id {
	case IDChoke:
		m.Kind, err = KChoke, want(0)
	case IDUnchoke:
		m.Kind, err = KUnchoke, want(0)
	case IDInterested:
		m.Kind, err = KInterested, want(0)
	case IDNotInterested:
		m.Kind, err = KNotInterested, want(0)
	case IDHaveAll:
		m.Kind, err = KHaveAll, want(0)
	case IDHaveNone:
		m.Kind, err = KHaveNone, want(0)
	case IDHave, IDSuggest, IDAllowedFast:
		m.Kind = map[byte]Kind{IDHave: KHave, IDSuggest: KSuggest, IDAllowedFast: KAllowedFast}[id]
		if err = want(4); err == nil {
			m.Index = u32(0)
		}
	case IDBitfield:
		m.Kind = KBitfield
		m.Data = append([]byte(nil), p...)
	case IDRequest, IDCancel, IDReject:
		m.Kind = map[byte]Kind{IDRequest: KRequest, IDCancel: KCancel, IDReject: KReject}[id]
		if err = want(12); err == nil {
			m.Index, m.Begin, m.Length = u32(0), u32(4), u32(8)
		}
	case IDPiece:
		m.Kind = KPiece
		if len(p) < 8 {
			err = ErrLength
		} else {
			m.Index, m.Begin = u32(0), u32(4)
			m.Data = append([]byte(nil), p[8:]...)
		}
	case IDPort:
		m.Kind = KPort
		if err = want(2); err == nil {
			m.Port = binary.BigEndian.Uint16(p)
		}
	case IDExtended:
		m.Kind = KExtended
		if len(p) < 1 {
			err = ErrLength
		} else {
			m.Sub = p[0]
			m.Data = append([]byte(nil), p[1:]...)
		}
	default:
		m.Kind = KUnknown
		m.Data = append([]byte(nil), p...)
	}
	if err != nil {
		return Msg{}, 4 + n, err
	}
	return m, 4 + n, nil
}

// ---- extended payloads --------------------------------------------------

// Ext0 is the BEP 10 extension handshake.
type Ext0 struct {
	M            map[string]int64 // nil = key absent
	V            *string
	P            *int64
	ReqQ         *int64
	MetadataSize *int64
	IPv4, IPv6   []byte
	UploadOnly   *int64
	E            *int64
	Extra        *Dict // other keys, spliced in
}

func (e Ext0) Payload() []byte {
	d := NewDict()
	if e.M != nil {
		m := NewDict()
		for k, v := range e.M {
			m.Set(k, v)
		}
		d.Set("m", m)
	}
	if e.V != nil {
		d.Set("v", *e.V)
	}
	if e.P != nil {
		d.Set("p", *e.P)
	}
	if e.ReqQ != nil {
		d.Set("reqq", *e.ReqQ)
	}
	if e.MetadataSize != nil {
		d.Set("metadata_size", *e.MetadataSize)
	}
	if e.IPv4 != nil {
		d.Set("ipv4", e.IPv4)
	}
	if e.IPv6 != nil {
		d.Set("ipv6", e.IPv6)
	}
	if e.UploadOnly != nil {
		d.Set("upload_only", *e.UploadOnly)
	}
	if e.E != nil {
		d.Set("e", *e.E)
	}
	if e.Extra != nil {
		for _, k := range e.Extra.Keys {
			d.Set(k, e.Extra.Vals[k])
		}
	}
	return Benc(d)
}

// ParseExt0 decodes an extension handshake payload strictly.
func ParseExt0(p []byte) (Ext0, error) {
	v, n, err := Bdec(p, true)
	if err != nil {
		return Ext0{}, err
	}
	if n != len(p) {
		return Ext0{}, fmt.Errorf("refwire: %d trailing bytes after extension handshake", len(p)-n)
	}
	d, ok := v.(*Dict)
	if !ok {
		return Ext0{}, ErrBencode
	}
	var e Ext0
	e.Extra = NewDict()
	for _, k := range d.Keys {
		val := d.Vals[k]
		switch k {
		case "m":
			md, ok := val.(*Dict)
			if !ok {
				return e, fmt.Errorf("refwire: m is not a dict")
			}
			e.M = map[string]int64{}
			for _, mk := range md.Keys {
				iv, ok := md.Vals[mk].(int64)
				if !ok {
					return e, fmt.Errorf("refwire: m[%q] not an int", mk)
				}
				e.M[mk] = iv
			}
		case "v":
			b, ok := val.([]byte)
			if !ok {
				return e, fmt.Errorf("refwire: v not a string")
			}
			s := string(b)
			e.V = &s
		case "p", "reqq", "metadata_size", "upload_only", "e":
			iv, ok := val.(int64)
			if !ok {
				return e, fmt.Errorf("refwire: %s not an int", k)
			}
			c := iv
			switch k {
			case "p":
				e.P = &c
			case "reqq":
				e.ReqQ = &c
			case "metadata_size":
				e.MetadataSize = &c
			case "upload_only":
				e.UploadOnly = &c
			case "e":
				e.E = &c
			}
		case "ipv4", "ipv6":
			b, ok := val.([]byte)
			if !ok {
				return e, fmt.Errorf("refwire: %s not a string", k)
			}
			if k == "ipv4" {
				if len(b) != 4 {
					return e, fmt.Errorf("refwire: ipv4 length %d", len(b))
				}
				e.IPv4 = b
			} else {
				if len(b) != 16 {
					return e, fmt.Errorf("refwire: ipv6 length %d", len(b))
				}
				e.IPv6 = b
			}
		default:
			e.Extra.Set(k, val)
		}
	}
	return e, nil
}

// PexPeer is one compact peer with flags.
type PexPeer struct {
	Addr  netip.AddrPort
	Flags byte
}

// Pex is a BEP 11 message.
type Pex struct {
	Added4, Added6     []PexPeer
	Dropped4, Dropped6 []netip.AddrPort
}

func compact(ap netip.AddrPort) []byte {
	a := ap.Addr()
	var b []byte
	if a.Is4() {
		x := a.As4()
		b = x[:]
	} else {
		x := a.As16()
		b = x[:]
	}
	return append(append([]byte(nil), b...), byte(ap.Port()>>8), byte(ap.Port()))
}

func (p Pex) Payload() []byte {
	d := NewDict()
	if len(p.Added4) > 0 {
		var a, f []byte
		for _, x := range p.Added4 {
			a = append(a, compact(x.Addr)...)
			f = append(f, x.Flags)
		}
		d.Set("added", a)
		d.Set("added.f", f)
	}
	if len(p.Added6) > 0 {
		var a, f []byte
		for _, x := range p.Added6 {
			a = append(a, compact(x.Addr)...)
			f = append(f, x.Flags)
		}
		d.Set("added6", a)
		d.Set("added6.f", f)
	}
	if len(p.Dropped4) > 0 {
		var a []byte
		for _, x := range p.Dropped4 {
			a = append(a, compact(x)...)
		}
		d.Set("dropped", a)
	}
	if len(p.Dropped6) > 0 {
		var a []byte
		for _, x := range p.Dropped6 {
			a = append(a, compact(x)...)
		}
		d.Set("dropped6", a)
	}
	return Benc(d)
}

func parseCompact(b []byte, v6 bool) ([]netip.AddrPort, error) {
	w := 6
	if v6 {
		w = 18
	}
	if len(b)%w != 0 {
		return nil, fmt.Errorf("refwire: compact list length %d not a multiple of %d", len(b), w)
	}
	var out []netip.AddrPort
	for i := 0; i < len(b); i += w {
		a, _ := netip.AddrFromSlice(b[i : i+w-2])
		out = append(out, netip.AddrPortFrom(a, binary.BigEndian.Uint16(b[i+w-2:])))
	}
	return out, nil
}

// ParsePex decodes a ut_pex payload strictly.
func ParsePex(p []byte) (Pex, error) {
	v, n, err := Bdec(p, true)
	if err != nil {
		return Pex{}, err
	}
	if n != len(p) {
		return Pex{}, fmt.Errorf("refwire: trailing bytes after pex dictionary")
	}
	d, ok := v.(*Dict)
	if !ok {
		return Pex{}, ErrBencode
	}
	var out Pex
	get := func(k string) ([]byte, error) {
		v, ok := d.Get(k)
		if !ok {
			return nil, nil
		}
		b, ok := v.([]byte)
		if !ok {
			return nil, fmt.Errorf("refwire: pex %s not a string", k)
		}
		return b, nil
	}
	for _, fam := range []struct {
		a, f, dr string
		v6       bool
	}{{"added", "added.f", "dropped", false}, {"added6", "added6.f", "dropped6", true}} {
		ab, err := get(fam.a)
		if err != nil {
			return out, err
		}
		fb, err := get(fam.f)
		if err != nil {
			return out, err
		}
		db, err := get(fam.dr)
		if err != nil {
			return out, err
		}
		al, err := parseCompact(ab, fam.v6)
		if err != nil {
			return out, err
		}
		if fb != nil && len(fb) != len(al) {
			return out, fmt.Errorf("refwire: %s has %d flags for %d peers", fam.f, len(fb), len(al))
		}
		for i, a := range al {
			var fl byte
			if fb != nil {
				fl = fb[i]
			}
			if fam.v6 {
				out.Added6 = append(out.Added6, PexPeer{a, fl})
			} else {
				out.Added4 = append(out.Added4, PexPeer{a, fl})
			}
		}
		dl, err := parseCompact(db, fam.v6)
		if err != nil {
			return out, err
		}
		if fam.v6 {
			out.Dropped6 = dl
		} else {
			out.Dropped4 = dl
		}
	}
	return out, nil
}

// Meta is a BEP 9 ut_metadata message.
type Meta struct {
	Type      int64
	Piece     int64
	TotalSize *int64
	Data      []byte
}

func (m Meta) Payload() []byte {
	d := NewDict()
	d.Set("msg_type", m.Type)
	d.Set("piece", m.Piece)
	if m.TotalSize != nil {
		d.Set("total_size", *m.TotalSize)
	}
	return append(Benc(d), m.Data...)
}

// ParseMeta decodes a ut_metadata payload strictly.
func ParseMeta(p []byte) (Meta, error) {
	v, n, err := Bdec(p, true)
	if err != nil {
		return Meta{}, err
	}
	d, ok := v.(*Dict)
	if !ok {
		return Meta{}, ErrBencode
	}
	var m Meta
	t, ok := d.Int("msg_type")
	if !ok {
		return m, fmt.Errorf("refwire: metadata without msg_type")
	}
	pc, ok := d.Int("piece")
	if !ok {
		return m, fmt.Errorf("refwire: metadata without piece")
	}
	m.Type, m.Piece = t, pc
	if ts, ok := d.Int("total_size"); ok {
		m.TotalSize = &ts
	}
	m.Data = append([]byte(nil), p[n:]...)
	return m, nil
}
