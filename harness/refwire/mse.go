package refwire

// Message Stream Encryption (MSE / "protocol encryption") and the plain
// BitTorrent handshake, written from the MSE specification and BEP 3/5/6/10.
// Nothing here is derived from storrent's crypto package; even RC4 is
// implemented from the algorithm description so that decrypting a wire tap is
// independent of the code under test.
//
//   1 A->B: Ya, PadA
//   2 B->A: Yb, PadB
//   3 A->B: HASH('req1',S), HASH('req2',SKEY) xor HASH('req3',S),
//           ENCRYPT(VC, crypto_provide, len(PadC), PadC, len(IA)), ENCRYPT(IA)
//   4 B->A: ENCRYPT(VC, crypto_select, len(PadD), PadD), ENCRYPT2(payload)
//   5 A->B: ENCRYPT2(payload)
//
// Every step is exposed as a []byte so that the caller decides how it is cut
// into writes.  Parsing functions are restartable: they return ErrMSEShort
// while the input is incomplete and do not advance any cipher state until
// they succeed.

import (
	"bytes"
	"crypto/sha1"
	"encoding/binary"
	"errors"
	"fmt"
	"math/big"
)

// ---- RC4 -------------------------------------------------------------------

// RC4 is the alleged-RC4 stream cipher (KSA + PRGA).
type RC4 struct {
	s    [256]byte
	i, j uint8
}

// NewRC4 runs the key schedule.
func NewRC4(key []byte) *RC4 {
	c := &RC4{}
	for k := 0; k < 256; k++ {
		c.s[k] = byte(k)
	}
	var j uint8
	for k := 0; k < 256; k++ {
		j += c.s[k] + key[k%len(key)]
		c.s[k], c.s[j] = c.s[j], c.s[k]
	}
	return c
}

// XOR xors src with the next len(src) keystream bytes into dst.
func (c *RC4) XOR(dst, src []byte) {
	i, j := c.i, c.j
	for k := range src {
		i++
		j += c.s[i]
		c.s[i], c.s[j] = c.s[j], c.s[i]
		dst[k] = src[k] ^ c.s[uint8(c.s[i]+c.s[j])]
	}
	c.i, c.j = i, j
}

// Apply returns a fresh slice: b xor keystream.
func (c *RC4) Apply(b []byte) []byte {
	out := make([]byte, len(b))
	c.XOR(out, b)
	return out
}

// Skip discards n keystream bytes.
func (c *RC4) Skip(n int) {
	var tmp [256]byte
	for n > 0 {
		m := n
		if m > len(tmp) {
			m = len(tmp)
		}
		c.XOR(tmp[:m], tmp[:m])
		n -= m
	}
}

// Clone copies the cipher state.
func (c *RC4) Clone() *RC4 {
	d := *c
	return &d
}

// ---- primitives ------------------------------------------------------------

// MSEKeyLen is the size of a DH public value / shared secret on the wire (768 bits).
const MSEKeyLen = 96

// MSEMaxPad is the largest pad the specification allows.
const MSEMaxPad = 512

// crypto_provide / crypto_select bits.
const (
	CryptoPlaintext uint32 = 1
	CryptoRC4       uint32 = 2
)

var msePrime, mseGen *big.Int

func init() {
	msePrime, _ = new(big.Int).SetString(
		"FFFFFFFFFFFFFFFFC90FDAA22168C234C4C6628B80DC1CD129024E088A67CC74"+
			"020BBEA63B139B22514A08798E3404DDEF9519B3CD3A431B302B0A6DF25F1437"+
			"4FE1356D6D51C245E485B576625E7EC6F44C42E9A63A36210000000000090563", 16)
	mseGen = big.NewInt(2)
}

// ErrMSEShort: the input does not yet contain the whole step.
var ErrMSEShort = errors.New("mse: need more bytes")

// MSEVC is the verification constant (8 zero bytes).
var MSEVC = make([]byte, 8)

// MSEHash is SHA-1 over the concatenation of parts.
func MSEHash(parts ...[]byte) []byte {
	h := sha1.New()
	for _, p := range parts {
		h.Write(p)
	}
	return h.Sum(nil)
}

func mseFixed(x *big.Int) []byte {
	b := x.Bytes()
	if len(b) > MSEKeyLen {
		b = b[len(b)-MSEKeyLen:]
	}
	out := make([]byte, MSEKeyLen)
	copy(out[MSEKeyLen-len(b):], b)
	return out
}

// MSEPublic returns G^priv mod P as 96 big-endian bytes.
func MSEPublic(priv *big.Int) []byte {
	return mseFixed(new(big.Int).Exp(mseGen, priv, msePrime))
}

// MSEShared returns S = peer^priv mod P as 96 big-endian bytes.
func MSEShared(priv *big.Int, peerPub []byte) []byte {
	y := new(big.Int).SetBytes(peerPub)
	return mseFixed(new(big.Int).Exp(y, priv, msePrime))
}

// MSEPrivate turns 20 bytes of entropy into a 160-bit private exponent.
func MSEPrivate(entropy []byte) *big.Int {
	x := new(big.Int).SetBytes(entropy)
	if x.Sign() == 0 {
		x.SetInt64(0x10001)
	}
	return x
}

// MSEStreams returns the two RC4 streams, each with its first 1024 keystream
// bytes discarded: a2b = keyed HASH('keyA',S,SKEY), b2a = HASH('keyB',S,SKEY).
func MSEStreams(s, skey []byte) (a2b, b2a *RC4) {
	a2b = NewRC4(MSEHash([]byte("keyA"), s, skey))
	a2b.Skip(1024)
	b2a = NewRC4(MSEHash([]byte("keyB"), s, skey))
	b2a.Skip(1024)
	return
}

func mseXor(a, b []byte) []byte {
	out := make([]byte, len(a))
	for i := range a {
		out[i] = a[i] ^ b[i]
	}
	return out
}

func mseBE16(n int) []byte { return []byte{byte(n >> 8), byte(n)} }

// ---- plain BitTorrent handshake -------------------------------------------

// BTProtocol is the protocol string of BEP 3.
const BTProtocol = "BitTorrent protocol"

// BTHandshakeLen = 1 + 19 + 8 + 20 + 20.
const BTHandshakeLen = 68

// BTHello is a decoded handshake.
type BTHello struct {
	Reserved [8]byte
	InfoHash []byte
	PeerID   []byte
}

// Dht: BEP 5, last reserved byte bit 0x01.
func (h BTHello) Dht() bool { return h.Reserved[7]&0x01 != 0 }

// Fast: BEP 6, last reserved byte bit 0x04.
func (h BTHello) Fast() bool { return h.Reserved[7]&0x04 != 0 }

// Extended: BEP 10, reserved byte 5 bit 0x10.
func (h BTHello) Extended() bool { return h.Reserved[5]&0x10 != 0 }

// BTHandshake builds the 68-byte handshake.
func BTHandshake(reserved [8]byte, infoHash, peerID []byte) []byte {
	if len(infoHash) != 20 || len(peerID) != 20 {
		panic("refwire: BTHandshake needs 20-byte hash and id")
	}
	b := make([]byte, 0, BTHandshakeLen)
	b = append(b, 19)
	b = append(b, BTProtocol...)
	b = append(b, reserved[:]...)
	b = append(b, infoHash...)
	b = append(b, peerID...)
	return b
}

// ParseBTHandshake decodes the first 68 bytes of b.
func ParseBTHandshake(b []byte) (BTHello, error) {
	var h BTHello
	if len(b) < BTHandshakeLen {
		return h, fmt.Errorf("bt handshake: %d bytes, need %d", len(b), BTHandshakeLen)
	}
	if b[0] != 19 || string(b[1:20]) != BTProtocol {
		return h, errors.New("bt handshake: bad protocol header")
	}
	copy(h.Reserved[:], b[20:28])
	h.InfoHash = append([]byte(nil), b[28:48]...)
	h.PeerID = append([]byte(nil), b[48:68]...)
	return h, nil
}

// ---- initiator (A) ---------------------------------------------------------

// MSEInitiator plays role A.  Fill Priv, SKey, PadA, PadC, Provide, IA, then
// call the steps in order.
type MSEInitiator struct {
	Priv    *big.Int
	SKey    []byte
	PadA    []byte // 0..512 bytes
	PadC    []byte // 0..512 bytes
	Provide uint32
	IA      []byte
	VC      []byte // nil = the specified 8 zero bytes (override only to play a broken peer)

	S   []byte // shared secret, after SetPeerKey
	Out *RC4   // A->B stream (keyA)
	In  *RC4   // B->A stream (keyB)

	// results of ParseStep4
	Select  uint32
	PadDLen int
}

// Step1 returns Ya || PadA.
func (a *MSEInitiator) Step1() []byte {
	return append(MSEPublic(a.Priv), a.PadA...)
}

// SetPeerKey consumes Yb (exactly 96 bytes) and derives S and both streams.
func (a *MSEInitiator) SetPeerKey(yb []byte) error {
	if len(yb) != MSEKeyLen {
		return errors.New("mse: Yb must be 96 bytes")
	}
	a.S = MSEShared(a.Priv, yb)
	a.Out, a.In = MSEStreams(a.S, a.SKey)
	return nil
}

// Step3 returns HASH('req1',S) | HASH('req2',SKEY)^HASH('req3',S) |
// ENCRYPT(VC, provide, len(PadC), PadC, len(IA)) | ENCRYPT(IA).  It advances
// the A->B stream.
func (a *MSEInitiator) Step3() []byte {
	out := MSEHash([]byte("req1"), a.S)
	out = append(out, mseXor(MSEHash([]byte("req2"), a.SKey), MSEHash([]byte("req3"), a.S))...)
	var clear []byte
	if a.VC != nil {
		clear = append(clear, a.VC...)
	} else {
		clear = append(clear, MSEVC...)
	}
	clear = binary.BigEndian.AppendUint32(clear, a.Provide)
	clear = append(clear, mseBE16(len(a.PadC))...)
	clear = append(clear, a.PadC...)
	clear = append(clear, mseBE16(len(a.IA))...)
	clear = append(clear, a.IA...)
	return append(out, a.Out.Apply(clear)...)
}

// Step3Layout returns the offsets inside Step3() of: end of req1 hash, end of
// the req2^req3 hash, end of VC|provide|len(PadC), end of PadC, end of
// len(IA), end of IA.
func (a *MSEInitiator) Step3Layout() [6]int {
	o := [6]int{20, 40, 54, 54 + len(a.PadC), 56 + len(a.PadC), 56 + len(a.PadC) + len(a.IA)}
	return o
}

// ParseStep4 looks at everything received from B after Yb (PadB followed by
// ENCRYPT(VC, crypto_select, len(PadD), PadD)) and returns the number of bytes
// up to the end of PadD.  ErrMSEShort while incomplete.  On success Select and
// PadDLen are set and the B->A stream is positioned at the first payload byte.
func (a *MSEInitiator) ParseStep4(b []byte) (int, error) {
	in := a.In.Clone()
	evc := in.Apply(MSEVC)
	limit := MSEMaxPad + len(evc)
	w := b
	if len(w) > limit {
		w = w[:limit]
	}
	i := bytes.Index(w, evc)
	if i < 0 {
		if len(b) >= limit {
			return 0, errors.New("mse: ENCRYPT(VC) not found within 512+8 bytes after Yb")
		}
		return 0, ErrMSEShort
	}
	p := i + len(evc)
	if len(b) < p+6 {
		return 0, ErrMSEShort
	}
	hdr := in.Apply(b[p : p+6])
	sel := binary.BigEndian.Uint32(hdr)
	padD := int(binary.BigEndian.Uint16(hdr[4:]))
	p += 6
	if padD > MSEMaxPad {
		return 0, fmt.Errorf("mse: len(PadD)=%d > 512", padD)
	}
	if len(b) < p+padD {
		return 0, ErrMSEShort
	}
	in.Skip(padD)
	p += padD
	a.In = in
	a.Select = sel
	a.PadDLen = padD
	return p, nil
}

// ---- responder (B) ---------------------------------------------------------

// MSEResponder plays role B.  Fill Priv, SKeys, PadB, PadD, Select.
type MSEResponder struct {
	Priv   *big.Int
	SKeys  [][]byte
	PadB   []byte
	PadD   []byte
	Select uint32
	VC     []byte // nil = the specified 8 zero bytes (override only to play a broken peer)

	S    []byte
	SKey []byte // identified by ParseStep3
	Out  *RC4   // B->A stream (keyB)
	In   *RC4   // A->B stream (keyA)

	// results of ParseStep3
	PadALen int
	Provide uint32
	PadCLen int
	IA      []byte
}

// Step2 returns Yb || PadB.
func (r *MSEResponder) Step2() []byte {
	return append(MSEPublic(r.Priv), r.PadB...)
}

// SetPeerKey consumes Ya (exactly 96 bytes).
func (r *MSEResponder) SetPeerKey(ya []byte) error {
	if len(ya) != MSEKeyLen {
		return errors.New("mse: Ya must be 96 bytes")
	}
	r.S = MSEShared(r.Priv, ya)
	return nil
}

// ParseStep3 looks at everything received from A after Ya (PadA followed by
// step 3) and returns the number of bytes up to the end of IA.
func (r *MSEResponder) ParseStep3(b []byte) (int, error) {
	req1 := MSEHash([]byte("req1"), r.S)
	limit := MSEMaxPad + len(req1)
	w := b
	if len(w) > limit {
		w = w[:limit]
	}
	i := bytes.Index(w, req1)
	if i < 0 {
		if len(b) >= limit {
			return 0, errors.New("mse: HASH('req1',S) not found within 512+20 bytes after Ya")
		}
		return 0, ErrMSEShort
	}
	p := i + 20
	if len(b) < p+20 {
		return 0, ErrMSEShort
	}
	req2 := mseXor(b[p:p+20], MSEHash([]byte("req3"), r.S))
	p += 20
	var skey []byte
	for _, k := range r.SKeys {
		if bytes.Equal(req2, MSEHash([]byte("req2"), k)) {
			skey = k
			break
		}
	}
	if skey == nil {
		return 0, errors.New("mse: HASH('req2',SKEY) xor HASH('req3',S) matches no known SKEY")
	}
	in, out := MSEStreams(r.S, skey)
	if len(b) < p+14 {
		return 0, ErrMSEShort
	}
	hdr := in.Apply(b[p : p+14])
	p += 14
	if !bytes.Equal(hdr[:8], MSEVC) {
		return 0, fmt.Errorf("mse: VC decrypts to %x (keyA stream not as specified)", hdr[:8])
	}
	provide := binary.BigEndian.Uint32(hdr[8:])
	padC := int(binary.BigEndian.Uint16(hdr[12:]))
	if padC > MSEMaxPad {
		return 0, fmt.Errorf("mse: len(PadC)=%d > 512", padC)
	}
	if len(b) < p+padC+2 {
		return 0, ErrMSEShort
	}
	in.Skip(padC)
	p += padC
	l := in.Apply(b[p : p+2])
	p += 2
	lenIA := int(binary.BigEndian.Uint16(l))
	if len(b) < p+lenIA {
		return 0, ErrMSEShort
	}
	ia := in.Apply(b[p : p+lenIA])
	p += lenIA
	r.SKey = skey
	r.In, r.Out = in, out
	r.PadALen = i
	r.Provide = provide
	r.PadCLen = padC
	r.IA = ia
	return p, nil
}

// Step4 returns ENCRYPT(VC, crypto_select, len(PadD), PadD) and advances the
// B->A stream.
func (r *MSEResponder) Step4() []byte {
	var clear []byte
	if r.VC != nil {
		clear = append(clear, r.VC...)
	} else {
		clear = append(clear, MSEVC...)
	}
	clear = binary.BigEndian.AppendUint32(clear, r.Select)
	clear = append(clear, mseBE16(len(r.PadD))...)
	clear = append(clear, r.PadD...)
	return r.Out.Apply(clear)
}
