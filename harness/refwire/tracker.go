package refwire

// Reference decoding of tracker replies (BEP 3 / BEP 7 / BEP 23 HTTP replies,
// BEP 15 UDP datagrams), written from the BEPs.  Used by the C15 monitor as the
// expected value of "the peers encoded in the reply".

import (
	"encoding/binary"
	"net/netip"
	"strings"
)

// TrkPeer is one peer found in a tracker reply.
type TrkPeer struct {
	AP  netip.AddrPort
	Enc string // "compact", "peers6", "dict-v4", "dict-v6"
}

// TrkHTTP is the reference reading of an HTTP tracker reply body.
type TrkHTTP struct {
	Decoded      bool  // the body starts with a bencoded dictionary
	Trailing     int   // bytes after the dictionary
	DupKeys      bool  // a top-level key occurs twice (strict decoding fails, lenient keeps the first)
	Canonical    bool  // strict decoding succeeds as well
	Failure      bool  // key "failure reason" present (any type)
	FailureEmpty bool  // ... and it is the empty string
	HasInterval  bool  // "interval" present and an integer
	Interval     int64 // its value
	// Peers: every peer a lenient reader finds (compact entries of complete
	// 6/18-byte groups, dictionary entries with an IP literal and a port in range).
	Peers []TrkPeer
	// WellFormed: every known key has the type the BEPs give it, compact
	// strings have whole entries, every dictionary-model entry has a string
	// "ip" and an integer "port" in 0..65535.  Only then are peers demanded.
	WellFormed bool
	Names      int // dictionary-model peers named by something that is not an IP literal
}

// NormAP unmaps 4-in-6 addresses so that sets compare by meaning.
func NormAP(ap netip.AddrPort) netip.AddrPort {
	return netip.AddrPortFrom(ap.Addr().Unmap().WithZone(""), ap.Port())
}

func trkCompact(b []byte, w int, enc string) (out []TrkPeer, whole bool) {
	for i := 0; i+w <= len(b); i += w {
		a, ok := netip.AddrFromSlice(b[i : i+w-2])
		if !ok {
			continue
		}
		out = append(out, TrkPeer{NormAP(netip.AddrPortFrom(a, binary.BigEndian.Uint16(b[i+w-2:]))), enc})
	}
	return out, len(b)%w == 0
}

// ParseTrkHTTP reads an HTTP tracker reply body.
func ParseTrkHTTP(body []byte) (r TrkHTTP) {
	defer func() {
		// Bdec overflows on string lengths near 2^63: such a body is undecodable
		if recover() != nil {
			r = TrkHTTP{}
		}
	}()
	v, n, err := Bdec(body, false)
	if err != nil {
		return r
	}
	d, ok := v.(*Dict)
	if !ok {
		return r
	}
	r.Decoded = true
	r.Trailing = len(body) - n
	if _, _, err := Bdec(body[:n], true); err == nil {
		r.Canonical = true
	} else {
		// find out whether it is a duplicate key (ambiguous) or only order / number format
		r.DupKeys = trkHasDup(body[:n])
	}
	wf := true
	if fr, ok := d.Get("failure reason"); ok {
		r.Failure = true
		if s, ok := fr.([]byte); ok && len(s) == 0 {
			r.FailureEmpty = true
		}
	}
	if iv, ok := d.Get("interval"); ok {
		if i, ok := iv.(int64); ok {
			r.HasInterval = true
			r.Interval = i
		} else {
			wf = false
		}
	}
	if ri, ok := d.Get("retry in"); ok {
		if _, ok := ri.([]byte); !ok {
			wf = false
		}
	}
	if pv, ok := d.Get("peers"); ok {
		switch p := pv.(type) {
		case []byte:
			ps, whole := trkCompact(p, 6, "compact")
			r.Peers = append(r.Peers, ps...)
			if !whole {
				wf = false
			}
		case []any:
			if bs, ok := trkIntList(p); ok && len(p) > 0 {
				// a list of integers 0..255 read as the bytes of a compact
				// string: no BEP says so, a lenient reader may; never demanded
				ps, _ := trkCompact(bs, 6, "compact-intlist")
				r.Peers = append(r.Peers, ps...)
				wf = false
				break
			}
			for _, e := range p {
				ed, ok := e.(*Dict)
				if !ok {
					wf = false
					continue
				}
				ipb, ok1 := ed.Bytes("ip")
				port, ok2 := ed.Int("port")
				if _, has := ed.Get("port"); !has && ok1 {
					// no port at all: a lenient reader may take 0; never demanded
					wf = false
					ok2, port = true, 0
				}
				if !ok1 || !ok2 || port < 0 || port > 65535 {
					wf = false
					continue
				}
				s := string(ipb)
				if strings.Contains(s, "%") {
					// zoned literal: neither demanded nor a plain name
					wf = false
					continue
				}
				a, err := netip.ParseAddr(s)
				if err != nil {
					r.Names++
					continue
				}
				enc := "dict-v6"
				if a.Unmap().Is4() {
					enc = "dict-v4"
				}
				r.Peers = append(r.Peers, TrkPeer{NormAP(netip.AddrPortFrom(a, uint16(port))), enc})
			}
		default:
			wf = false
		}
	}
	if pv, ok := d.Get("peers6"); ok {
		if p, ok := pv.([]byte); ok {
			ps, whole := trkCompact(p, 18, "peers6")
			r.Peers = append(r.Peers, ps...)
			if !whole {
				wf = false
			}
		} else if l, ok := pv.([]any); ok {
			if bs, ok := trkIntList(l); ok {
				ps, _ := trkCompact(bs, 18, "peers6-intlist")
				r.Peers = append(r.Peers, ps...)
			}
			wf = false
		} else {
			wf = false
		}
	}
	r.WellFormed = wf && !r.DupKeys
	return r
}

func trkIntList(l []any) ([]byte, bool) {
	out := make([]byte, 0, len(l))
	for _, e := range l {
		i, ok := e.(int64)
		if !ok || i < 0 || i > 255 {
			return nil, false
		}
		out = append(out, byte(i))
	}
	return out, true
}

// trkHasDup reports whether the top-level dictionary has a repeated key.
func trkHasDup(b []byte) bool {
	if len(b) < 2 || b[0] != 'd' {
		return false
	}
	seen := map[string]bool{}
	i := 1
	for i < len(b) && b[i] != 'e' {
		k, n, err := Bdec(b[i:], false)
		if err != nil {
			return false
		}
		ks, ok := k.([]byte)
		if !ok {
			return false
		}
		i += n
		_, n, err = Bdec(b[i:], false)
		if err != nil {
			return false
		}
		i += n
		if seen[string(ks)] {
			return true
		}
		seen[string(ks)] = true
	}
	return false
}

// TrkUDPHeader reads action and transaction id of a BEP 15 datagram.
func TrkUDPHeader(b []byte) (action, tid uint32, ok bool) {
	if len(b) < 8 {
		return 0, 0, false
	}
	return binary.BigEndian.Uint32(b), binary.BigEndian.Uint32(b[4:]), true
}

// TrkUDPAnnounce reads an announce response: interval and whole peer entries.
func TrkUDPAnnounce(b []byte, v6 bool) (interval uint32, peers []TrkPeer, trailing int, ok bool) {
	if len(b) < 20 {
		return 0, nil, 0, false
	}
	interval = binary.BigEndian.Uint32(b[8:])
	w, enc := 6, "udp4"
	if v6 {
		w, enc = 18, "udp6"
	}
	ps, _ := trkCompact(b[20:], w, enc)
	return interval, ps, (len(b) - 20) % w, true
}

// TrkCompact encodes a peer in 6 or 18 bytes.
func TrkCompact(ap netip.AddrPort) []byte { return compact(ap) }
