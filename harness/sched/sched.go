// Package sched is a deterministic scheduler over the yield points that the
// verif build tag adds to jech/storrent.  Inside a testing/synctest bubble a
// goroutine that reaches a yield point parks on a channel (a durable block);
// the controller waits for quiescence (synctest.Wait), looks at the set of
// parked goroutines and releases exactly one.  The sequence of choices is the
// schedule; it is replayable and enumerable (stateless DFS).
package sched

import (
	"bytes"
	"runtime"
	"sort"
	"strconv"
	"sync"
)

// Ticket is one parked goroutine.
type Ticket struct {
	W    int    // worker id (registered, or >=100 for auto-registered goroutines)
	Name string // yield point name
	ch   chan struct{}
}

// Ctrl is the controller state.  Create it inside the bubble.
type Ctrl struct {
	mu     sync.Mutex
	goid2w map[uint64]int
	parked map[int]*Ticket
	nextW  int
	// Filter, if set, decides whether a yield point parks (true) or is passed through.
	Filter func(w int, name string) bool
	// Auto: park goroutines that were not registered (they get ids from 100).
	Auto bool
	// Seen counts yield point hits by name.
	Seen map[string]int
}

func New() *Ctrl {
	return &Ctrl{goid2w: map[uint64]int{}, parked: map[int]*Ticket{}, nextW: 100, Seen: map[string]int{}}
}

func goid() uint64 {
	var buf [64]byte
	n := runtime.Stack(buf[:], false)
	// "goroutine 123 ["
	b := buf[:n]
	b = b[len("goroutine "):]
	i := bytes.IndexByte(b, ' ')
	id, _ := strconv.ParseUint(string(b[:i]), 10, 64)
	return id
}

// Register binds the calling goroutine to worker id w.
func (c *Ctrl) Register(w int) {
	c.mu.Lock()
	c.goid2w[goid()] = w
	c.mu.Unlock()
}

// Unregister removes the calling goroutine.
func (c *Ctrl) Unregister() {
	c.mu.Lock()
	delete(c.goid2w, goid())
	c.mu.Unlock()
}

// Hook is the verifhook.SetPoint handler.
func (c *Ctrl) Hook(name string) {
	g := goid()
	c.mu.Lock()
	c.Seen[name]++
	w, ok := c.goid2w[g]
	if !ok {
		if !c.Auto {
			c.mu.Unlock()
			return
		}
		w = c.nextW
		c.nextW++
		c.goid2w[g] = w
	}
	if c.Filter != nil && !c.Filter(w, name) {
		c.mu.Unlock()
		return
	}
	t := &Ticket{W: w, Name: name, ch: make(chan struct{})}
	c.parked[w] = t
	c.mu.Unlock()
	<-t.ch
}

// Park parks the calling (registered) goroutine at an explicit point.
func (c *Ctrl) Park(w int, name string) {
	c.mu.Lock()
	c.Seen[name]++
	t := &Ticket{W: w, Name: name, ch: make(chan struct{})}
	c.parked[w] = t
	c.mu.Unlock()
	<-t.ch
}

// Parked returns the parked tickets sorted by worker id.  Call after synctest.Wait().
func (c *Ctrl) Parked() []*Ticket {
	c.mu.Lock()
	defer c.mu.Unlock()
	out := make([]*Ticket, 0, len(c.parked))
	for _, t := range c.parked {
		out = append(out, t)
	}
	sort.Slice(out, func(i, j int) bool { return out[i].W < out[j].W })
	return out
}

// Release lets one parked goroutine continue.
func (c *Ctrl) Release(t *Ticket) {
	c.mu.Lock()
	if c.parked[t.W] == t {
		delete(c.parked, t.W)
	}
	c.mu.Unlock()
	close(t.ch)
}

// ReleaseAll releases everything (end of run).
func (c *Ctrl) ReleaseAll() {
	for _, t := range c.Parked() {
		c.Release(t)
	}
}

// DFS enumerates choice sequences without storing states.
type DFS struct {
	prefix []int // choices to follow
	widths []int // width seen at each decision of the last run
	trace  []int // choices taken in the last run
	pos    int
	Done   bool
	Runs   int
}

// Begin starts a run.
func (d *DFS) Begin() {
	d.pos = 0
	d.widths = d.widths[:0]
	d.trace = d.trace[:0]
}

// Choose returns the choice for a decision with n options.
func (d *DFS) Choose(n int) int {
	ch := 0
	if d.pos < len(d.prefix) {
		ch = d.prefix[d.pos]
		if ch >= n { // the program is not deterministic under this prefix; clamp
			ch = n - 1
		}
	}
	d.pos++
	d.widths = append(d.widths, n)
	d.trace = append(d.trace, ch)
	return ch
}

// End finishes a run and computes the next prefix.
func (d *DFS) End() {
	d.Runs++
	i := len(d.trace) - 1
	for i >= 0 && d.trace[i]+1 >= d.widths[i] {
		i--
	}
	if i < 0 {
		d.Done = true
		return
	}
	d.prefix = append(append([]int(nil), d.trace[:i]...), d.trace[i]+1)
}

// Trace returns the choices of the last run.
func (d *DFS) Trace() []int { return append([]int(nil), d.trace...) }
