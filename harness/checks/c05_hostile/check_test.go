// C05: no message sequence from a remote peer can crash or bloat the client.
// Oracle, evaluated at a quiescent cut after every single message:
//   - the child process is alive (a crash is attributed to the case by the runner);
//   - the cut is reached (handling terminated);
//   - bytes allocated process-wide between the cut before the message and the cut
//     after it <= 256*len(frame) + 1 MiB;
//   - blast radius: a canary peer on the same torrent and a second torrent with its
//     own canary still answer (connection open, event loop replies).
package c05

import (
	"crypto/sha1"
	"encoding/binary"
	"fmt"
	"math/rand/v2"
	"net/netip"
	"os"
	"runtime"
	"testing"
	"time"

	"github.com/jech/storrent/config"
	"github.com/jech/storrent/peer"
	"verifharness/fixture"
	"verifharness/refwire"
	"verifharness/swarm"
	"verifharness/vk"
)

// theInfo is the info dictionary whose hash the torrent under attack was added by: the geometry's own, or
// (some magnet histories) an authentic but unusable one (empty name) that storrent must refuse every time
// it is delivered.
var infoOverride []byte

func theInfo(g *fixture.Geo) []byte {
	if infoOverride != nil {
		return infoOverride
	}
	return g.Info()
}

// sizeVotes: the metadata_size values of class "ext0 metadata_size-*" sent so far in the current history.  The
// buffer for a voted size is allocated when that size becomes the most voted one, which may be at a later
// message (another vote, a departure); an allocation that is such a buffer is reported under the class of the
// vote that asked for it, whatever message happened to tip the count.
type sizeVote struct {
	size int64
	cls  string
}

var sizeVotes []sizeVote

const allocMul = 256
const allocC0 = 1 << 20

var u32s = []uint32{0, 1, 2, 7, 8, 9, 1 << 14, 1<<14 + 1, 1 << 16, 1 << 17, 1 << 20, 1 << 24, 1<<31 - 1, 1 << 31, 1<<32 - 1}

// capIdx bounds indexes in the -race pass, which runs without a memory limit.
var capIdx = os.Getenv("VERIF_CAP_INDEX") != ""

func bval(rng *rand.Rand, n uint32) (uint32, string) {
	switch rng.IntN(4) {
	case 0:
		if n > 0 {
			return uint32(rng.IntN(int(n))), "in-range"
		}
		return 0, "in-range"
	case 1:
		v := []uint32{n - 1, n, n + 1}[rng.IntN(3)]
		if v < n {
			return v, "in-range"
		}
		return v, "at-bound"
	default:
		v := u32s[rng.IntN(len(u32s))]
		if capIdx && v > 1<<20 {
			v = 1 << 20
		}
		switch {
		case v < n:
			return v, "in-range"
		case v >= 1<<24:
			return v, "huge"
		default:
			return v, "out-of-range"
		}
	}
}

type hmsg struct {
	frame []byte
	cls   string
}

func enc(m refwire.Msg, cls string) hmsg { return hmsg{refwire.Encode(m), cls} }

// hostile draws one well-framed message with arbitrary field values.
func hostile(rng *rand.Rand, g *fixture.Geo, r *swarm.Remote) hmsg {
	np := uint32(g.NumPieces())
	ps := g.PieceLen
	extID := func(name string, def byte) byte {
		if e := r.StExt(); e != nil && e.M != nil {
			if v, ok := e.M[name]; ok && v > 0 && v < 256 {
				return byte(v)
			}
		}
		return def
	}
	// half of the time, if storrent has requests outstanding with us, aim at them: answers, rejects and
	// cancels that name blocks it is really waiting for (right or wrong sizes), chokes in between
	if out := r.Outstanding(); len(out) > 0 && rng.IntN(2) == 0 {
		k := out[rng.IntN(len(out))]
		switch rng.IntN(7) {
		case 6:
			// choke, then data for the blocks that follow the ones on the wire: storrent had them queued for
			// us and has just withdrawn them
			b := refwire.Encode(refwire.Msg{Kind: refwire.KChoke})
			// "following" in the torrent's own numbering of 16 KiB blocks, across piece boundaries; some of the
			// outstanding ones as well
			abs := (int64(k.Index)*int64(ps) + int64(k.Begin)) / 16384
			for j := int64(-1); j <= 8; j++ {
				off := (abs + j) * 16384
				if off < 0 || off >= g.Length {
					continue
				}
				n := int64(16384)
				if off+n > g.Length {
					n = g.Length - off
				}
				d := make([]byte, n)
				g.TruthInto(d, off)
				b = append(b, refwire.Encode(refwire.Msg{Kind: refwire.KPiece, Index: uint32(off / int64(ps)), Begin: uint32(off % int64(ps)), Data: d})...)
			}
			if rng.IntN(2) == 0 {
				b = append(b, refwire.Encode(refwire.Msg{Kind: refwire.KUnchoke})...)
			}
			return hmsg{b, "targeted choke+following-blocks"}
		case 0:
			return enc(refwire.Msg{Kind: refwire.KChoke}, "targeted choke")
		case 1:
			n := []int{0, 1, int(k.Length) - 1, int(k.Length), int(k.Length) + 1, 2 * int(k.Length)}[rng.IntN(6)]
			if n < 0 {
				n = 0
			}
			d := make([]byte, n)
			off := int64(k.Index)*int64(ps) + int64(k.Begin)
			if off+int64(n) <= g.Length && rng.IntN(2) == 0 {
				g.TruthInto(d, off)
			}
			return enc(refwire.Msg{Kind: refwire.KPiece, Index: k.Index, Begin: k.Begin, Data: d}, fmt.Sprintf("targeted piece len-%d", n-int(k.Length)))
		case 2:
			return enc(refwire.Msg{Kind: refwire.KReject, Index: k.Index, Begin: k.Begin, Length: k.Length}, "targeted reject")
		case 3:
			return enc(refwire.Msg{Kind: refwire.KPiece, Index: k.Index, Begin: k.Begin + 16384, Data: make([]byte, 16384)}, "targeted piece next-block")
		case 4:
			return enc(refwire.Msg{Kind: refwire.KUnchoke}, "targeted unchoke")
		default:
			return enc(refwire.Msg{Kind: refwire.KHaveNone}, "targeted havenone")
		}
	}
	if !r.Tr.T.InfoComplete() && r.Opt.Fast && rng.IntN(6) == 0 {
		// before the metadata is known nothing can be range-checked: allowed-fast indices at and around the
		// piece count that the torrent will turn out to have, have-all, and then the true metadata
		info := theInfo(g)
		var b []byte
		for _, ix := range []uint32{np, np - 1, np + 1, 0} {
			b = append(b, refwire.Encode(refwire.Msg{Kind: refwire.KAllowedFast, Index: ix})...)
		}
		b = append(b, refwire.Encode(refwire.Msg{Kind: refwire.KHaveAll})...)
		S := int64(len(info))
		e := swarm.StdExt0(0, 0)
		e.MetadataSize = &S
		b = append(b, refwire.Encode(refwire.Msg{Kind: refwire.KExtended, Sub: 0, Data: e.Payload()})...)
		for ix := 0; ix*16384 < len(info); ix++ {
			end := (ix + 1) * 16384
			if end > len(info) {
				end = len(info)
			}
			m := refwire.Meta{Type: 1, Piece: int64(ix), Data: info[ix*16384 : end], TotalSize: &S}
			b = append(b, refwire.Encode(refwire.Msg{Kind: refwire.KExtended, Sub: extID("ut_metadata", 2), Data: m.Payload()})...)
		}
		return hmsg{b, "allowed-fast around the piece count, then true metadata"}
	}
	if !r.Tr.T.InfoComplete() && rng.IntN(10) == 0 {
		// the most voted size goes up and then down again (every extended handshake is a vote, also a repeated
		// one), and blocks follow whose indexes fit the larger size only
		big := int64([]int64{100000, 16384 * 9, 1 << 20}[rng.IntN(3)])
		small := int64([]int64{20000, 16385, 40000}[rng.IntN(3)])
		var b []byte
		vote := func(sz int64, n int) {
			for k := 0; k < n; k++ {
				e := swarm.StdExt0(0, 0)
				e.MetadataSize = &sz
				b = append(b, refwire.Encode(refwire.Msg{Kind: refwire.KExtended, Sub: 0, Data: e.Payload()})...)
			}
		}
		vote(big, 2+rng.IntN(2))
		vote(small, 4+rng.IntN(3))
		for k := 0; k < 2+rng.IntN(3); k++ {
			m := refwire.Meta{Type: 1, Piece: int64(2 + rng.IntN(6)), Data: make([]byte, 16384)}
			if rng.IntN(2) == 0 {
				m.TotalSize = &small
			}
			b = append(b, refwire.Encode(refwire.Msg{Kind: refwire.KExtended, Sub: extID("ut_metadata", 2), Data: m.Payload()})...)
		}
		return hmsg{b, "metadata size votes up then down, then blocks beyond the smaller size"}
	}
	if !r.Tr.T.InfoComplete() && rng.IntN(8) == 0 {
		// while the metadata is unknown: a size vote, a complete set of garbage blocks for it (the hash cannot
		// match), and then stray blocks with and without total_size, for indices inside and beyond that size
		S := []int64{16385, 40000, 49152, 16384 * 5}[rng.IntN(4)]
		n := int((S + 16383) / 16384)
		e := swarm.StdExt0(0, 0)
		e.MetadataSize = &S
		b := refwire.Encode(refwire.Msg{Kind: refwire.KExtended, Sub: 0, Data: e.Payload()})
		blk := func(ix int, ln int, withTotal bool) {
			m := refwire.Meta{Type: 1, Piece: int64(ix), Data: make([]byte, ln)}
			for i := range m.Data {
				m.Data[i] = byte(rng.Uint32())
			}
			if withTotal {
				t64 := S
				m.TotalSize = &t64
			}
			b = append(b, refwire.Encode(refwire.Msg{Kind: refwire.KExtended, Sub: extID("ut_metadata", 2), Data: m.Payload()})...)
		}
		for ix := 0; ix < n; ix++ {
			ln := 16384
			if ix == n-1 {
				ln = int(S) - 16384*(n-1)
			}
			blk(ix, ln, rng.IntN(4) != 0)
		}
		for k := 0; k < 1+rng.IntN(3); k++ {
			blk(rng.IntN(n+1), []int{16384, 16384, 1, int(S) - 16384*(n-1)}[rng.IntN(4)], rng.IntN(2) == 0)
		}
		return hmsg{b, "metadata garbage-set+stray-blocks"}
	}
	switch x := rng.IntN(100); {
	case x < 6:
		k := []refwire.Kind{refwire.KChoke, refwire.KUnchoke, refwire.KInterested, refwire.KNotInterested, refwire.KKeepAlive}[rng.IntN(5)]
		return enc(refwire.Msg{Kind: k}, string(k))
	case x < 14:
		v, c := bval(rng, np)
		return enc(refwire.Msg{Kind: refwire.KHave, Index: v}, "have "+c)
	case x < 20:
		n := []int{0, 1, int(np+7) / 8, int(np+7)/8 + 1, 100, 1 << 14, 1 << 17, 1<<20 - 9}[rng.IntN(8)]
		d := make([]byte, n)
		fill := []string{"zero", "ones", "random", "lastbit"}[rng.IntN(4)]
		switch fill {
		case "ones":
			for i := range d {
				d[i] = 0xff
			}
		case "random":
			for i := range d {
				d[i] = byte(rng.Uint32())
			}
		case "lastbit":
			if n > 0 {
				d[n-1] = 1
			}
		}
		cls := "exact"
		if n > int(np+7)/8 {
			cls = "long"
			if n >= 1<<14 {
				cls = "very-long"
			}
		} else if n < int(np+7)/8 {
			cls = "short"
		}
		return enc(refwire.Msg{Kind: refwire.KBitfield, Data: d}, "bitfield "+cls+" "+fill)
	case x < 30:
		i, c1 := bval(rng, np)
		b, _ := bval(rng, ps)
		l, c3 := bval(rng, 1<<14+1)
		k := []refwire.Kind{refwire.KRequest, refwire.KCancel, refwire.KReject}[rng.IntN(3)]
		return enc(refwire.Msg{Kind: k, Index: i, Begin: b, Length: l}, fmt.Sprintf("%s idx-%s len-%s", k, c1, c3))
	case x < 40:
		i, c1 := bval(rng, np)
		b, c2 := bval(rng, ps)
		n := []int{0, 1, 16383, 16384, 16385, 1 << 15, 1 << 17, 1<<20 - 9}[rng.IntN(8)]
		d := make([]byte, n)
		if int(i) < g.NumPieces() && rng.IntN(2) == 0 {
			off := int64(i)*int64(ps) + int64(b)
			if off+int64(n) <= g.Length {
				g.TruthInto(d, off)
			}
		}
		return enc(refwire.Msg{Kind: refwire.KPiece, Index: i, Begin: b, Data: d}, fmt.Sprintf("piece idx-%s begin-%s len-%d", c1, c2, n))
	case x < 43:
		return enc(refwire.Msg{Kind: refwire.KPort, Port: uint16(rng.Uint32())}, "port")
	case x < 50:
		i, c := bval(rng, np)
		k := []refwire.Kind{refwire.KSuggest, refwire.KAllowedFast}[rng.IntN(2)]
		return enc(refwire.Msg{Kind: k, Index: i}, string(k)+" "+c)
	case x < 54:
		k := []refwire.Kind{refwire.KHaveAll, refwire.KHaveNone}[rng.IntN(2)]
		return enc(refwire.Msg{Kind: k}, string(k))
	case x < 64: // extended handshake (also duplicates)
		e := swarm.StdExt0(0, 0)
		cls := "ext0"
		switch rng.IntN(8) {
		case 0:
			v, c := bval(rng, 1<<20)
			ms := int64(v)
			e.MetadataSize = &ms
			cls += " metadata_size-" + c
			sizeVotes = append(sizeVotes, sizeVote{ms, c})
		case 1:
			v := int64([]int64{0, 1, 2, 250, 1 << 31, 1<<32 - 1}[rng.IntN(6)])
			e.ReqQ = &v
			cls += " reqq"
		case 2:
			e.M = map[string]int64{"ut_pex": int64(rng.IntN(300)), "ut_metadata": int64(rng.IntN(300)), "lt_donthave": 0, "upload_only": 255}
			cls += " odd-ids"
		case 3:
			s := string(make([]byte, []int{0, 1, 1000, 100000}[rng.IntN(4)]))
			e.V = &s
			cls += " long-version"
		case 4:
			e.IPv4 = make([]byte, rng.IntN(8))
			e.IPv6 = make([]byte, rng.IntN(20))
			cls += " odd-ip-lengths"
		case 5:
			p := int64([]int64{0, 1, 65535, 65536, -1}[rng.IntN(5)])
			e.P = &p
			cls += " port"
		case 6:
			ms := int64(len(theInfo(g)))
			e.MetadataSize = &ms
			cls += " true-metadata_size"
		case 7:
			// a size vote from a peer that does not speak ut_metadata (key absent, or number 0 = disabled):
			// nothing may be asked of it
			ms := int64([]int64{int64(len(theInfo(g))), 16384, 40000}[rng.IntN(3)])
			e.MetadataSize = &ms
			if rng.IntN(2) == 0 {
				delete(e.M, "ut_metadata")
			} else {
				e.M["ut_metadata"] = 0
			}
			cls += " metadata_size-without-ut_metadata"
		}
		return enc(refwire.Msg{Kind: refwire.KExtended, Sub: 0, Data: e.Payload()}, cls)
	case x < 72: // PEX
		n := []int{0, 1, 50, 200, 5000}[rng.IntN(5)]
		var p refwire.Pex
		for i := 0; i < n; i++ {
			a4 := netip.AddrPortFrom(netip.AddrFrom4([4]byte{byte(1 + rng.IntN(220)), byte(rng.IntN(256)), byte(rng.IntN(256)), byte(rng.IntN(256))}), uint16(rng.IntN(65536)))
			if rng.IntN(3) == 0 {
				var b [16]byte
				b[0] = 0x20
				b[15] = byte(rng.IntN(256))
				b[14] = byte(rng.IntN(256))
				a6 := netip.AddrPortFrom(netip.AddrFrom16(b), uint16(rng.IntN(65536)))
				if rng.IntN(2) == 0 {
					p.Added6 = append(p.Added6, refwire.PexPeer{Addr: a6, Flags: byte(rng.IntN(256))})
				} else {
					p.Dropped6 = append(p.Dropped6, a6)
				}
			} else if rng.IntN(2) == 0 {
				p.Added4 = append(p.Added4, refwire.PexPeer{Addr: a4, Flags: byte(rng.IntN(256))})
			} else {
				p.Dropped4 = append(p.Dropped4, a4)
			}
		}
		payload := p.Payload()
		cls := fmt.Sprintf("pex n-%d", n)
		if rng.IntN(3) == 0 && len(p.Added4)+len(p.Added6) > 0 {
			// flag strings whose length disagrees with the number of peers
			d := refwire.NewDict()
			pack := func(ps []refwire.PexPeer) []byte {
				var b []byte
				for _, x := range ps {
					a := x.Addr.Addr()
					if a.Is4() {
						v := a.As4()
						b = append(b, v[:]...)
					} else {
						v := a.As16()
						b = append(b, v[:]...)
					}
					b = append(b, byte(x.Addr.Port()>>8), byte(x.Addr.Port()))
				}
				return b
			}
			fl := func(k int) []byte {
				m := []int{0, 1, k - 1, k + 1, 2 * k}[rng.IntN(5)]
				if m < 0 {
					m = 0
				}
				return make([]byte, m)
			}
			if len(p.Added4) > 0 {
				d.Set("added", pack(p.Added4))
				d.Set("added.f", fl(len(p.Added4)))
			}
			if len(p.Added6) > 0 {
				d.Set("added6", pack(p.Added6))
				d.Set("added6.f", fl(len(p.Added6)))
			}
			payload = refwire.Benc(d)
			cls += " flags-mismatch"
		}
		return enc(refwire.Msg{Kind: refwire.KExtended, Sub: extID("ut_pex", 1), Data: payload}, cls)
	case x < 84: // metadata
		tp := int64(rng.IntN(4))
		pc, c := bval(rng, uint32(len(theInfo(g))+16383)/16384)
		m := refwire.Meta{Type: tp, Piece: int64(pc)}
		cls := fmt.Sprintf("metadata type-%d piece-%s", tp, c)
		if rng.IntN(2) == 0 {
			ts, c2 := bval(rng, uint32(len(theInfo(g))))
			if rng.IntN(3) == 0 {
				ts, c2 = uint32(len(theInfo(g))), "true"
			}
			t64 := int64(ts)
			m.TotalSize = &t64
			cls += " total-" + c2
		}
		if tp == 1 {
			n := []int{0, 1, 16383, 16384, 16385, 1 << 17}[rng.IntN(6)]
			m.Data = make([]byte, n)
			info := theInfo(g)
			if int(pc)*16384 < len(info) && rng.IntN(2) == 0 {
				copy(m.Data, info[int(pc)*16384:])
				if int(pc)*16384+n > len(info) && rng.IntN(2) == 0 {
					m.Data = m.Data[:len(info)-int(pc)*16384]
				}
				cls += " true-data"
			}
		}
		return enc(refwire.Msg{Kind: refwire.KExtended, Sub: extID("ut_metadata", 2), Data: m.Payload()}, cls)
	case x < 90:
		v, c := bval(rng, np)
		return enc(refwire.Msg{Kind: refwire.KExtended, Sub: extID("lt_donthave", 3), Data: binary.BigEndian.AppendUint32(nil, v)}, "donthave "+c)
	case x < 93:
		return enc(refwire.Msg{Kind: refwire.KExtended, Sub: extID("upload_only", 4), Data: []byte{byte(rng.IntN(2))}}, "upload_only")
	case x < 96:
		return enc(refwire.Msg{Kind: refwire.KExtended, Sub: byte(5 + rng.IntN(250)), Data: make([]byte, rng.IntN(40))}, "ext-unknown-sub")
	default:
		return enc(refwire.Msg{Kind: refwire.KUnknown, ID: byte([]int{10, 11, 12, 18, 19, 21, 99, 255}[rng.IntN(8)]), Data: make([]byte, rng.IntN(40))}, "unknown-id")
	}
}

func history(t *testing.T, c *vk.C, rng *rand.Rand, i int) map[string]int {
	sizeVotes = nil
	st := map[string]int{}
	swarm.Run(t, c, "C05", func(sw *swarm.Swarm) {
		magnet := i%3 == 2
		if i%4 == 1 {
			// idle prefetch on: the torrent picks pieces by itself (also from what peers told it: allowed-fast sets, availability)
			config.SetIdleRate(64 * 1024)
		}
		g := fixture.RandGeo(rng, 1<<20, []uint32{16 << 10, 32 << 10, 128 << 10})
		infoOverride = nil
		defer func() { infoOverride = nil }()
		var tr *swarm.Tor
		if magnet && i%4 == 3 {
			// added by the hash of a dictionary that is authentic and unusable (no name): every complete
			// delivery of it must be refused, however often peers repeat it
			d := refwire.NewDict()
			d.Set("length", g.Length)
			d.Set("name", []string{"", "/"}[rng.IntN(2)])
			d.Set("piece length", int64(g.PieceLen))
			d.Set("pieces", make([]byte, 20*g.NumPieces()))
			infoOverride = refwire.Benc(d)
			h := sha1.Sum(infoOverride)
			tr = sw.AddMagnet(g, h[:])
			st["magnet_with_unusable_info"]++
		} else {
			tr = sw.AddTorrent(g, swarm.TorOpts{Magnet: magnet})
		}
		// second torrent with its own canary
		g2 := &fixture.Geo{Name: "canary", PieceLen: 16 << 10, Length: 40000, Seed: 5}
		tr2 := sw.AddTorrent(g2, swarm.TorOpts{})
		can2 := tr2.Connect(swarm.RemoteOpts{Fast: true, Ext: true})
		can2.SendExt0(swarm.StdExt0(0, 0))
		can := tr.Connect(swarm.RemoteOpts{Fast: true, Ext: true})
		can.SendExt0(swarm.StdExt0(0, int64(len(theInfo(g)))))
		meta := "known"
		if magnet {
			meta = "unknown"
		} else {
			var pre []int
			for p := 0; p < g.NumPieces(); p++ {
				if rng.IntN(2) == 0 {
					pre = append(pre, p)
				}
			}
			tr.Prefill(pre)
			// demand, so that the torrent sends commands to the hostile peer too (none in the idle-prefetch
			// histories: there the torrent chooses pieces by itself)
			for p := 0; p < g.NumPieces() && i%4 != 1; p++ {
				tr.T.Request(uint32(p), int8(rng.IntN(3)), true, false)
			}
		}
		if i%4 == 1 && !magnet {
			// start the request ticker once (a piece is wanted for a moment while the canary advertises
			// everything), then leave the torrent idle: from now on it prefetches pieces of its own choice
			can.Send(refwire.Msg{Kind: refwire.KHaveAll})
			sw.Cut()
			tr.T.Request(0, 1, true, false)
			sw.Cut()
			tr.T.Request(0, 1, false, false)
			sw.Cut()
			st["idle_histories"]++
		}
		connect := func() *swarm.Remote {
			caps := rng.IntN(4)
			h := tr.Connect(swarm.RemoteOpts{Fast: caps&1 != 0, Ext: caps&2 != 0, Dht: rng.IntN(2) == 0, Incoming: rng.IntN(2) == 0})
			st["connect"]++
			if rng.IntN(2) == 0 && tr.T.InfoComplete() {
				// it starts out like a seed, so that storrent hands it requests before it turns hostile
				all := make([]byte, (g.NumPieces()+7)/8)
				for p := 0; p < g.NumPieces(); p++ {
					all[p/8] |= 0x80 >> uint(p%8)
				}
				h.SendRaw(refwire.Encode(refwire.Msg{Kind: refwire.KBitfield, Data: all}))
				h.SendRaw(refwire.Encode(refwire.Msg{Kind: refwire.KUnchoke}))
				st["seed_like_preamble"]++
			}
			return h
		}
		h := connect()
		sw.Cut()
		steps := 1 + rng.IntN(40)
		var ms0, ms1 runtime.MemStats
		maxFrame := 0 // largest frame sent on the current connection: state it legitimately created may be copied later
		lastKA := time.Now()
		for s := 0; s < steps; s++ {
			if time.Since(lastKA) > 90*time.Second {
				// the canaries are ordinary quiet peers: they send keep-alives (storrent drops a peer that has
				// been silent for five minutes, which is not the hostile peer's doing)
				can.SendRaw(refwire.Encode(refwire.Msg{Kind: refwire.KKeepAlive}))
				can2.SendRaw(refwire.Encode(refwire.Msg{Kind: refwire.KKeepAlive}))
				lastKA = time.Now()
			}
			if h.Closed() {
				st["disconnected_by_storrent"]++
				h = connect()
				maxFrame = 0
				sw.Cut()
			}
			// torrent-side commands in between
			switch rng.IntN(10) {
			case 0:
				time.Sleep([]time.Duration{300 * time.Millisecond, 3 * time.Second, 25 * time.Second}[rng.IntN(3)])
				sw.Act("sleep")
				sw.Cut()
			case 1:
				if tr.T.InfoComplete() {
					tr.T.Pieces.Expire(0, nil, func(ix uint32) { tr.T.Have(ix, false) })
					sw.Act("evict")
					sw.Cut()
				}
			case 2:
				if tr.T.InfoComplete() {
					tr.T.Request(uint32(rng.IntN(g.NumPieces())), 1, rng.IntN(2) == 0, false)
					sw.Cut()
				}
			}
			if !tr.T.InfoComplete() {
				meta = "unknown"
			} else if magnet {
				meta = "arrived"
			}
			hm := hostile(rng, g, h)
			sw.Act("%s => %s (%d bytes) meta=%s fast=%v ext=%v", h.Name, hm.cls, len(hm.frame), meta, h.Opt.Fast, h.Opt.Ext)
			runtime.ReadMemStats(&ms0)
			h.SendRaw(hm.frame)
			sw.Cut()
			runtime.ReadMemStats(&ms1)
			alloc := int64(ms1.TotalAlloc - ms0.TotalAlloc)
			if len(hm.frame) > maxFrame {
				maxFrame = len(hm.frame)
			}
			bound := int64(allocMul)*int64(maxFrame) + allocC0
			c.R.Max("max:alloc_per_message", alloc)
			c.Count("messages", 1)
			st["messages"]++
			st["cls:"+hm.cls]++
			if alloc > bound {
				cls, why := hm.cls, ""
				if meta == "unknown" {
					var best *sizeVote
					for k := range sizeVotes {
						v := &sizeVotes[k]
						if v.size <= alloc && alloc-v.size <= bound && (best == nil || v.size > best.size) {
							best = v
						}
					}
					if best != nil && cls != "ext0 metadata_size-"+best.cls {
						why = fmt.Sprintf("; the allocation is the metadata buffer for the size %d voted earlier in this history by an extended handshake (class metadata_size-%s), which this message made the most voted one", best.size, best.cls)
						cls = "ext0 metadata_size-" + best.cls
					}
				}
				sw.Viol("C05", "alloc-bound", "alloc-bound "+cls+" meta-"+meta, fmt.Sprintf("%d bytes allocated while handling one %d-byte message (%s); bound %d%s", alloc, len(hm.frame), hm.cls, bound, why))
			}
			// blast radius
			if can.Closed() {
				sw.Viol("C05", "blast-radius", "canary-peer-lost after "+hm.cls, "the canary peer on the same torrent was disconnected by a message from another peer")
				return
			}
			if can2.Closed() {
				sw.Viol("C05", "blast-radius", "other-torrent-peer-lost after "+hm.cls, "a peer of another torrent was disconnected")
				return
			}
			if s%4 == 3 {
				if !tr.LoopAlive("C05", "after-hostile-peer") || !tr2.LoopAlive("C05", "other-torrent") {
					return
				}
				c.Count("canary_probes", 1)
			}
			// the peer vanishes while the torrent is busy and its mailbox is full: the loop is held (answering a
			// statistics query nobody collects yet), the mailbox is filled to the brim, the peer says one more
			// thing and closes, timers run, then the loop resumes
			if rng.IntN(14) == 0 {
				hold := make(chan *peer.TorStats)
				posted := false
				select {
				case tr.T.Event <- peer.TorGetStats{Ch: hold}:
					posted = true
				default:
				}
				if posted {
					sw.Cut()
					for k := 0; k < 600; k++ {
						select {
						case tr.T.Event <- peer.TorAnnounce{IPv6: false}:
						default:
							k = 600
						}
					}
					h.SendRaw(hostile(rng, g, h).frame)
					sw.Cut()
					h.Close()
					time.Sleep(time.Duration(rng.IntN(40)) * time.Second)
					sw.Cut()
					go func() {
						select {
						case <-hold:
						case <-tr.T.Done:
						}
					}()
					time.Sleep(2 * time.Second)
					sw.Cut()
					sw.Act("%s closed while the mailbox was full and the loop held", h.Name)
					st["close_under_backpressure"]++
					if !tr.LoopAlive("C05", "after-close-under-backpressure") {
						return
					}
					h = connect()
					sw.Cut()
					maxFrame = 0
				}
			}
			// size votes from a succession of short-lived connections: the most voted size goes up, then down,
			// and then blocks arrive whose indexes only fit the larger size
			if !tr.T.InfoComplete() && rng.IntN(10) == 0 {
				big := int64([]int64{100000, 16384 * 9, 1 << 20}[rng.IntN(3)])
				small := int64([]int64{20000, 16385, 40000}[rng.IntN(3)])
				voteConn := func(sz int64) {
					hx := tr.Connect(swarm.RemoteOpts{Fast: rng.IntN(2) == 0, Ext: true, Incoming: rng.IntN(2) == 0})
					e := swarm.StdExt0(0, 0)
					e.MetadataSize = &sz
					hx.SendRaw(refwire.Encode(refwire.Msg{Kind: refwire.KExtended, Sub: 0, Data: e.Payload()}))
					sw.Cut()
					if rng.IntN(2) == 0 {
						hx.Close()
						sw.Cut()
					}
				}
				for k := 0; k < 2+rng.IntN(2); k++ {
					voteConn(big)
				}
				for k := 0; k < 5+rng.IntN(3); k++ {
					voteConn(small)
				}
				var b []byte
				for k := 0; k < 2+rng.IntN(3); k++ {
					m := refwire.Meta{Type: 1, Piece: int64(2 + rng.IntN(6)), Data: make([]byte, 16384)}
					if rng.IntN(3) != 0 {
						m.TotalSize = &small
					}
					id := byte(2)
					if e := h.StExt(); e != nil && e.M != nil {
						if v, ok := e.M["ut_metadata"]; ok && v > 0 && v < 256 {
							id = byte(v)
						}
					}
					b = append(b, refwire.Encode(refwire.Msg{Kind: refwire.KExtended, Sub: id, Data: m.Payload()})...)
				}
				h.SendRaw(b)
				sw.Cut()
				sw.Act("size votes up to %d then down to %d from short-lived connections, then blocks beyond the smaller size", big, small)
				st["size_votes_up_then_down"]++
				if !tr.LoopAlive("C05", "after-size-votes") {
					return
				}
			}
			// a peer that serves honestly for a while — storrent's rate estimate for it grows, and with it the queue
			// of blocks it keeps for that peer beyond the ones on the wire — then chokes and goes on talking about
			// blocks: the ones on the wire, the ones storrent had only queued, and ones never mentioned
			if tr.T.InfoComplete() && g.Length >= 12*16384 && rng.IntN(9) == 0 {
				hs := tr.Connect(swarm.RemoteOpts{Fast: rng.IntN(3) != 0, Ext: false})
				all := make([]byte, (g.NumPieces()+7)/8)
				for p := 0; p < g.NumPieces(); p++ {
					all[p/8] |= 0x80 >> uint(p%8)
				}
				hs.SendRaw(refwire.Encode(refwire.Msg{Kind: refwire.KBitfield, Data: all}))
				hs.SendRaw(refwire.Encode(refwire.Msg{Kind: refwire.KUnchoke}))
				tr.T.Pieces.Expire(0, nil, func(ix uint32) { tr.T.Have(ix, false) })
				for p := 0; p < g.NumPieces() && p < 24; p++ {
					tr.T.Request(uint32(p), 1, true, false)
				}
				sw.Cut()
				served, deepest := 0, 0
				ps := g.PieceLen
				var last swarm.BlockKey
				for round := 0; round < 40 && !hs.Closed(); round++ {
					out := hs.Outstanding()
					if len(out) > deepest {
						deepest = len(out)
					}
					if len(out) >= 5 || (len(out) > 0 && round >= 30) {
						last = out[len(out)-1]
						break
					}
					for _, k := range out {
						hs.Answer(k, "truth", 0)
						served++
					}
					time.Sleep(150 * time.Millisecond)
					sw.Cut()
				}
				c.R.Max("max:outstanding_at_a_served_peer", int64(deepest))
				if deepest > 0 && !hs.Closed() && last.Length > 0 {
					b := refwire.Encode(refwire.Msg{Kind: refwire.KChoke})
					abs := (int64(last.Index)*int64(ps) + int64(last.Begin)) / 16384
					for j := int64(-4); j <= 16; j++ {
						off := (abs + j) * 16384
						if off < 0 || off >= g.Length {
							continue
						}
						n := int64(16384)
						if off+n > g.Length {
							n = g.Length - off
						}
						ix, bg := uint32(off/int64(ps)), uint32(off%int64(ps))
						switch x := rng.IntN(4); {
						case x == 0 && hs.Opt.Fast:
							b = append(b, refwire.Encode(refwire.Msg{Kind: refwire.KReject, Index: ix, Begin: bg, Length: uint32(n)})...)
						case x == 1:
						default:
							d := make([]byte, n)
							g.TruthInto(d, off)
							b = append(b, refwire.Encode(refwire.Msg{Kind: refwire.KPiece, Index: ix, Begin: bg, Data: d})...)
						}
					}
					if rng.IntN(2) == 0 {
						b = append(b, refwire.Encode(refwire.Msg{Kind: refwire.KUnchoke})...)
					}
					hs.SendRaw(b)
					sw.Cut()
					time.Sleep(time.Second)
					sw.Cut()
					sw.Act("%s served %d blocks honestly (up to %d outstanding), then choked and went on about the blocks around %d/%d", hs.Name, served, deepest, last.Index, last.Begin)
					st["served_then_choked"]++
					if deepest >= 3 {
						st["served_then_choked_with_queue"]++
					}
				}
				if !tr.LoopAlive("C05", "after-served-then-choked") {
					return
				}
				if can.Closed() {
					sw.Viol("C05", "blast-radius", "canary-peer-lost after served-then-choked", "the canary peer on the same torrent was disconnected by a message from another peer")
					return
				}
				hs.Close()
				sw.Cut()
			}
			// abrupt ends: the peer vanishes, possibly in the middle of a frame or right after connecting
			if rng.IntN(12) == 0 {
				switch rng.IntN(3) {
				case 0:
					fr := hostile(rng, g, h).frame
					h.SendRaw(fr[:rng.IntN(len(fr))])
					h.Close()
					sw.Act("%s closes in the middle of a frame", h.Name)
				case 1:
					h.Close()
					sw.Act("%s closes", h.Name)
				case 2:
					h.Close()
					h2 := connect()
					h2.Close() // gone before storrent has finished its own opening messages
					sw.Act("%s connects and closes at once", h2.Name)
				}
				st["abrupt_close"]++
				sw.Cut()
				if !tr.LoopAlive("C05", "after-abrupt-close") {
					return
				}
				h = connect()
				maxFrame = 0
				sw.Cut()
			}
			if sw.C.Violated() {
				return
			}
		}
		if rng.IntN(3) == 0 {
			tr.Kill()
			sw.Cut()
			st["kill"]++
		}
		if tr.T.InfoComplete() && magnet {
			st["metadata_completed"]++
		}
	})
	return st
}

func TestCheck(t *testing.T) {
	r := vk.New("C05")
	defer r.Done()
	r.Note("alloc_bound", fmt.Sprintf("process-wide TotalAlloc between the quiescent cut before a message and the cut after it <= %d*L + %d, L = the largest frame sent so far on that connection (state created by an earlier large message may legitimately be copied when a later small one arrives)", allocMul, allocC0))
	n := r.Env.N(1500, 100000)
	if capIdx {
		n = r.Env.N(500, 10000)
	}
	for i := 0; i < n; i++ {
		if !r.Mine(i) {
			continue
		}
		rng := r.Env.Rng(i)
		d := map[string]any{"family": "hostile-sequence", "magnet": i%3 == 2, "idle_prefetch": i%4 == 1}
		c := r.Begin(i, d)
		st := history(t, c, rng, i)
		for k, v := range st {
			if len(k) < 4 || k[:4] != "cls:" {
				c.Count(k, int64(v))
			}
		}
		var classes []string
		for k := range st {
			if len(k) > 4 && k[:4] == "cls:" {
				classes = append(classes, k)
			}
		}
		c.R.Max("max:message_classes_in_one_history", int64(len(classes)))
		c.FP(vk.Hash64(len(classes), st["disconnected_by_storrent"] > 0, st["metadata_completed"] > 0, st["messages"]/8, i%64), st["messages"] >= 3)
		c.End()
	}
	r.Finish()
}
