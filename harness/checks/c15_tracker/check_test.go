// C15: trackers — hostile replies are harmless, announces are disciplined.
//
// Unit under test: tracker.New(url) -> Announce / GetState, against fake HTTP
// (net/http on 127.0.0.1 and [::1], same port) and fake UDP (BEP 15) trackers
// that answer per a script.  A host name resolving to both families is
// provided by an in-process DNS answerer installed in net.DefaultResolver
// (the sandbox's "localhost" has no ::1 entry).
//
// Refuting events: a crash; peers passed to the callback that the reference
// decoding (refwire.ParseTrkHTTP / TrkUDPAnnounce) does not find in a
// non-error reply; peers taken from an error reply (failure reason, status
// 4xx/5xx, UDP action 3 / wrong action / foreign transaction id); a
// well-formed, fully delivered reply whose compact / IP-literal peers are not
// all learnt; GetState()==Busy once Announce has returned; a request reaching
// the fake tracker at virtual time T < last contact + max(5 min, interval
// validly announced in the replies to that contact).
//
// Every case runs in a worker subprocess (the same test binary) so that a
// crash is attributed to its input class and the run goes on.
package c15

import (
	"bufio"
	"bytes"
	"context"
	"encoding/binary"
	"encoding/json"
	"errors"
	"fmt"
	"io"
	"math/rand/v2"
	"net"
	"net/http"
	"net/netip"
	"os"
	"os/exec"
	"regexp"
	"runtime"
	"runtime/debug"
	"sort"
	"strconv"
	"strings"
	"sync"
	"sync/atomic"
	"testing"
	"testing/synctest"
	"time"

	"github.com/jech/storrent/httpclient"
	"github.com/jech/storrent/tracker"
	"verifharness/refwire"
	"verifharness/vk"
)

var (
	_ = bytes.Equal
	_ = binary.BigEndian
	_ = errors.New
	_ = io.EOF
	_ = rand.New
	_ = http.StatusOK
	_ = netip.Addr{}
	_ = runtime.Gosched
	_ = sort.Strings
	_ = strconv.Itoa
	_ = atomic.AddInt64
	_ = synctest.Wait
	_ = httpclient.Get
	_ = tracker.New
	_ = refwire.Benc
)

const workerEnv = "VERIF_C15_WORKER"

// allocation bound of DESIGN §4 with the whole-cascade constant enlarged for the HTTP client
const allocMul = 256
const allocC0 = 8 << 20

// ---------- results passed from the worker to the parent --------------------

type viol struct {
	Kind   string `json:"kind"`
	Sig    string `json:"sig"`
	Detail string `json:"detail"`
	Replay any    `json:"replay,omitempty"`
}

type result struct {
	Viol     []viol           `json:"viol,omitempty"`
	Counters map[string]int64 `json:"counters,omitempty"`
	Max      map[string]int64 `json:"max,omitempty"`
	FP       string           `json:"fp"`
	NT       bool             `json:"nt"`
	Inconcl  string           `json:"inconcl,omitempty"`
}

func (r *result) count(k string, n int64) {
	if r.Counters == nil {
		r.Counters = map[string]int64{}
	}
	r.Counters[k] += n
}

func (r *result) violation(kind, sig, detail string, replay any) {
	if len(detail) > 3000 {
		detail = detail[:3000] + "…"
	}
	r.Viol = append(r.Viol, viol{kind, sig, detail, replay})
}

// ---------- plan: case index -> family --------------------------------------

const nSeq = 1555 // sequences of <=4 replies over a 6-letter alphabet

type plan struct {
	env  vk.Env
	part string
	fams []famRange
}

type famRange struct {
	name string
	n    int
}

func makePlan(env vk.Env, part string) *plan {
	p := &plan{env: env, part: part}
	if part == "race" {
		p.fams = []famRange{
			{"sched", env.N(120, 6000)},
			{"http", env.N(400, 20000)},
			{"udp-seq", 2 * nSeq},
		}
		return p
	}
	p.fams = []famRange{
		{"udp-seq", 2 * nSeq},
		{"http", env.N(5000, 500000)},
		{"sched", env.N(300, 30000)},
		{"cancel", env.N(40, 400)},
		{"silence", env.N(0, 96)},
	}
	return p
}

func (p *plan) total() int {
	n := 0
	for _, f := range p.fams {
		n += f.n
	}
	return n
}

func (p *plan) locate(i int) (string, int) {
	for _, f := range p.fams {
		if i < f.n {
			return f.name, i
		}
		i -= f.n
	}
	return "", -1
}

// spec is a generated case.
type spec interface {
	desc() map[string]any
	crashClass() string
	run(t *testing.T, res *result)
}

func (p *plan) gen(i int) spec {
	fam, k := p.locate(i)
	rng := p.env.Rng(i)
	race := p.part == "race"
	switch fam {
	case "udp-seq":
		return genUDPSeq(rng, k, false)
	case "silence":
		return genUDPSilence(rng, k)
	case "http":
		return genHTTPCase(rng, k, race)
	case "cancel":
		return genCancel(rng, k)
	case "sched":
		return genSched(rng, k, race)
	}
	panic("bad case index")
}

// ---------- parent side ------------------------------------------------------

type workerProc struct {
	cmd    *exec.Cmd
	in     io.WriteCloser
	out    *bufio.Reader
	outF   *os.File
	stderr *lockedBuf
}

type lockedBuf struct {
	mu sync.Mutex
	b  []byte
}

func (l *lockedBuf) Write(p []byte) (int, error) {
	l.mu.Lock()
	l.b = append(l.b, p...)
	if len(l.b) > 1<<20 {
		l.b = append([]byte(nil), l.b[len(l.b)-(1<<19):]...)
	}
	l.mu.Unlock()
	return len(p), nil
}

func (l *lockedBuf) String() string {
	l.mu.Lock()
	defer l.mu.Unlock()
	return string(l.b)
}

func (w *workerProc) start() error {
	pr, pw, err := os.Pipe()
	if err != nil {
		return err
	}
	cmd := exec.Command(os.Args[0], "-test.run", "^TestCheck$", "-test.timeout", "0")
	cmd.Env = append(os.Environ(), workerEnv+"=1", "VERIF_OUT=", "GOTRACEBACK=all")
	cmd.ExtraFiles = []*os.File{pw}
	w.stderr = &lockedBuf{}
	cmd.Stderr = w.stderr
	cmd.Stdout = w.stderr
	in, err := cmd.StdinPipe()
	if err != nil {
		return err
	}
	if err := cmd.Start(); err != nil {
		return err
	}
	pw.Close()
	w.cmd, w.in, w.out, w.outF = cmd, in, bufio.NewReaderSize(pr, 1<<20), pr
	return nil
}

func (w *workerProc) stop() {
	if w.cmd == nil {
		return
	}
	w.in.Close()
	done := make(chan struct{})
	go func() { w.cmd.Wait(); close(done) }()
	select {
	case <-done:
	case <-time.After(20 * time.Second):
		w.cmd.Process.Kill()
		<-done
	}
	w.outF.Close()
	w.cmd = nil
}

func (w *workerProc) kill() {
	if w.cmd == nil {
		return
	}
	w.cmd.Process.Kill()
	w.cmd.Wait()
	w.in.Close()
	w.outF.Close()
	w.cmd = nil
}

// run executes case i in the worker.  crashed: the worker died in the case;
// hung: the wall-clock guard fired.
func (w *workerProc) run(i int, guard time.Duration) (res *result, crashed bool, hung bool, log string) {
	if w.cmd == nil {
		if err := w.start(); err != nil {
			panic(err)
		}
	}
	fmt.Fprintf(w.in, "%d\n", i)
	type lineT struct {
		b   []byte
		err error
	}
	ch := make(chan lineT, 1)
	go func() {
		b, err := w.out.ReadBytes('\n')
		ch <- lineT{b, err}
	}()
	select {
	case l := <-ch:
		if l.err != nil {
			w.cmd.Wait()
			log = w.stderr.String()
			if w.cmd.ProcessState != nil {
				log += "\n[worker exit: " + w.cmd.ProcessState.String() + "]"
			}
			w.in.Close()
			w.outF.Close()
			w.cmd = nil
			return nil, true, false, log
		}
		res = &result{}
		if err := json.Unmarshal(l.b, res); err != nil {
			res.Inconcl = "worker sent an unreadable result: " + err.Error()
		}
		return res, false, false, ""
	case <-time.After(guard):
		w.cmd.Process.Signal(os.Interrupt)
		log = w.stderr.String()
		w.kill()
		return nil, false, true, log
	}
}

var crashRe = regexp.MustCompile(`(?m)^(panic: .*|fatal error: .*|SIGSEGV.*|signal SIGSEGV.*|unexpected fault address.*|runtime: out of memory.*)$`)
var frameRe = regexp.MustCompile(`(?m)^(github\.com/jech/storrent[^\s(]*)\(`)

func crashSite(log string) (msg, frame, excerpt string) {
	m := crashRe.FindStringIndex(log)
	if m == nil {
		tail := log
		if len(tail) > 2500 {
			tail = tail[len(tail)-2500:]
		}
		return "died", "?", tail
	}
	msg = log[m[0]:m[1]]
	msg = regexp.MustCompile(`0x[0-9a-fA-F]+`).ReplaceAllString(msg, "N")
	msg = regexp.MustCompile(`\d+`).ReplaceAllString(msg, "N")
	msg = regexp.MustCompile(`\[recovered\].*`).ReplaceAllString(msg, "")
	msg = strings.TrimSpace(msg)
	if len(msg) > 100 {
		msg = msg[:100]
	}
	tail := log[m[0]:]
	frame = "no-storrent-frame"
	blocks := strings.SplitN(tail, "\n\ngoroutine ", 4)
	head := blocks[0]
	if len(blocks) > 1 {
		head += "\n\ngoroutine " + blocks[1]
	}
	if len(blocks) > 2 && strings.HasPrefix(msg, "fatal error") {
		head += "\n\ngoroutine " + blocks[2]
	}
	if fm := frameRe.FindStringSubmatch(head); fm != nil {
		frame = strings.TrimPrefix(fm[1], "github.com/jech/storrent/")
	}
	excerpt = tail
	if len(excerpt) > 3000 {
		excerpt = excerpt[:3000]
	}
	return
}

func TestCheck(t *testing.T) {
	if os.Getenv(workerEnv) != "" {
		workerMain(t)
		return
	}
	r := vk.New("C15")
	defer r.Done()
	p := makePlan(r.Env, os.Getenv("VERIF_PART"))
	r.Note("timing_rule", "contact at virtual T is refuted iff T < previous contact + max(5 min, smallest interval validly announced in the replies to that contact, or, when every reply was a bencoded failure with a valid \"retry in\", the smallest of those retry times, \"never\" counted as one day); intervals > 2^33 s excluded")
	r.Note("alloc_bound", fmt.Sprintf("bytes allocated in the worker process during one HTTP Announce (runtime.MemStats.TotalAlloc delta) <= %d*(reply bytes of both families) + %d", allocMul, allocC0))
	r.Note("dual_family_host", "v46.test answered A=127.0.0.1 AAAA=::1 by an in-process DNS answerer (net.DefaultResolver.Dial)")
	w := &workerProc{}
	defer w.stop()
	n := p.total()
	for i := 0; i < n; i++ {
		if !r.Mine(i) {
			continue
		}
		sp := p.gen(i)
		d := sp.desc()
		c := r.Begin(i, d)
		guard := 90 * time.Second
		if d["family"] == "silence" {
			guard = 400 * time.Second
		}
		res, crashed, hung, log := w.run(i, guard)
		switch {
		case crashed && !crashRe.MatchString(log) && strings.Contains(log, "signal: killed"):
			// no Go crash report and SIGKILL: the kernel's OOM killer or an operator, not an observation
			c.Inconclusive("worker process was killed (SIGKILL) without a crash report")
		case crashed:
			msg, frame, excerpt := crashSite(log)
			c.Count("crashes", 1)
			c.Violation("crash", "crash "+sp.crashClass()+" "+msg+" @"+frame, "worker process died in this case; "+excerpt, d)
			c.FP(vk.Hash64("crash", sp.crashClass()), true)
		case hung:
			if len(log) > 1500 {
				log = log[len(log)-1500:]
			}
			c.Inconclusive("wall-clock guard: case did not finish")
			_ = log
		default:
			for k, v := range res.Counters {
				c.Count(k, v)
			}
			for k, v := range res.Max {
				r.Max(k, v)
			}
			for _, v := range res.Viol {
				rep := v.Replay
				if rep == nil {
					rep = d
				}
				c.Violation(v.Kind, v.Sig, v.Detail, rep)
			}
			if res.Inconcl != "" {
				c.Inconclusive(res.Inconcl)
			}
			c.FP(res.FP, res.NT)
		}
		c.End()
	}
	r.Finish()
}

// ---------- worker side ------------------------------------------------------

func workerMain(t *testing.T) {
	env := vk.LoadEnv()
	p := makePlan(env, os.Getenv("VERIF_PART"))
	installDNS()
	debug.SetMemoryLimit(1 << 30)
	// started outside any bubble: httpclient's expiry goroutine, resolver state
	httpclient.Get("", "")
	httpclient.Get("tcp4", "")
	httpclient.Get("tcp6", "")
	net.DefaultResolver.LookupIPAddr(context.Background(), dualHost)
	out := os.NewFile(3, "results")
	if out == nil {
		t.Fatal("worker: no result pipe")
	}
	initServers()
	in := bufio.NewReader(os.Stdin)
	for {
		line, err := in.ReadString('\n')
		if err != nil {
			return
		}
		i, err := strconv.Atoi(strings.TrimSpace(line))
		if err != nil {
			continue
		}
		sp := p.gen(i)
		res := &result{}
		// a subtest: a race report or a failure inside a bubble ends the
		// subtest only, the worker goes on and still reports the case
		t.Run("case", func(t *testing.T) { sp.run(t, res) })
		b, err := json.Marshal(res)
		if err != nil {
			b, _ = json.Marshal(&result{Inconcl: "result not serialisable: " + err.Error()})
		}
		out.Write(append(b, '\n'))
	}
}

// ---------- in-process DNS answerer -----------------------------------------

const dualHost = "v46.test"

func installDNS() {
	net.DefaultResolver.PreferGo = true
	net.DefaultResolver.Dial = func(ctx context.Context, network, address string) (net.Conn, error) {
		return &dnsConn{ch: make(chan []byte, 8), closed: make(chan struct{})}, nil
	}
}

type dnsConn struct {
	ch     chan []byte
	closed chan struct{}
	once   sync.Once
}

type dnsAddr struct{}

func (dnsAddr) Network() string { return "udp" }
func (dnsAddr) String() string  { return "127.0.0.1:53" }

func (c *dnsConn) Write(q []byte) (int, error) {
	if r := dnsAnswer(q); r != nil {
		select {
		case c.ch <- r:
		default:
		}
	}
	return len(q), nil
}
func (c *dnsConn) Read(b []byte) (int, error) {
	select {
	case r := <-c.ch:
		return copy(b, r), nil
	case <-c.closed:
		return 0, net.ErrClosed
	}
}
func (c *dnsConn) ReadFrom(b []byte) (int, net.Addr, error) {
	n, err := c.Read(b)
	return n, dnsAddr{}, err
}
func (c *dnsConn) WriteTo(b []byte, _ net.Addr) (int, error) { return c.Write(b) }
func (c *dnsConn) Close() error                              { c.once.Do(func() { close(c.closed) }); return nil }
func (c *dnsConn) LocalAddr() net.Addr                       { return dnsAddr{} }
func (c *dnsConn) RemoteAddr() net.Addr                      { return dnsAddr{} }
func (c *dnsConn) SetDeadline(time.Time) error               { return nil }
func (c *dnsConn) SetReadDeadline(time.Time) error           { return nil }
func (c *dnsConn) SetWriteDeadline(time.Time) error          { return nil }

func dnsAnswer(q []byte) []byte {
	if len(q) < 12 || binary.BigEndian.Uint16(q[4:]) != 1 {
		return nil
	}
	i := 12
	var labels []string
	for {
		if i >= len(q) {
			return nil
		}
		l := int(q[i])
		i++
		if l == 0 {
			break
		}
		if l > 63 || i+l > len(q) {
			return nil
		}
		labels = append(labels, strings.ToLower(string(q[i:i+l])))
		i += l
	}
	if i+4 > len(q) {
		return nil
	}
	qtype := binary.BigEndian.Uint16(q[i:])
	qend := i + 4
	name := strings.Join(labels, ".")
	var rdata [][]byte
	rcode := uint16(0)
	switch name {
	case dualHost:
		if qtype == 1 {
			rdata = append(rdata, []byte{127, 0, 0, 1})
		} else if qtype == 28 {
			rdata = append(rdata, net.ParseIP("::1").To16())
		}
	default:
		rcode = 3
	}
	r := make([]byte, 0, 128)
	r = append(r, q[0], q[1])
	r = binary.BigEndian.AppendUint16(r, 0x8180|rcode)
	r = binary.BigEndian.AppendUint16(r, 1)
	r = binary.BigEndian.AppendUint16(r, uint16(len(rdata)))
	r = binary.BigEndian.AppendUint16(r, 0)
	r = binary.BigEndian.AppendUint16(r, 0)
	r = append(r, q[12:qend]...)
	for _, rd := range rdata {
		r = append(r, 0xc0, 0x0c)
		r = binary.BigEndian.AppendUint16(r, qtype)
		r = binary.BigEndian.AppendUint16(r, 1)
		r = binary.BigEndian.AppendUint32(r, 60)
		r = binary.BigEndian.AppendUint16(r, uint16(len(rd)))
		r = append(r, rd...)
	}
	return r
}

// ---------- common helpers ---------------------------------------------------

type collector struct {
	mu    sync.Mutex
	got   map[netip.AddrPort]int
	calls int
}

func newCollector() *collector { return &collector{got: map[netip.AddrPort]int{}} }

func (c *collector) f(ap netip.AddrPort) bool {
	c.mu.Lock()
	c.got[refwire.NormAP(ap)]++
	c.calls++
	c.mu.Unlock()
	return true
}

func (c *collector) set() map[netip.AddrPort]bool {
	c.mu.Lock()
	defer c.mu.Unlock()
	m := map[netip.AddrPort]bool{}
	for k := range c.got {
		m[k] = true
	}
	return m
}

func rndPeers4(rng *rand.Rand, n int) []netip.AddrPort {
	out := make([]netip.AddrPort, 0, n)
	for i := 0; i < n; i++ {
		a := netip.AddrFrom4([4]byte{10, byte(rng.IntN(256)), byte(rng.IntN(256)), byte(1 + rng.IntN(254))})
		port := uint16(1 + rng.IntN(65535))
		if rng.IntN(40) == 0 {
			port = 0
		}
		out = append(out, netip.AddrPortFrom(a, port))
	}
	return out
}

func rndPeers6(rng *rand.Rand, n int) []netip.AddrPort {
	out := make([]netip.AddrPort, 0, n)
	for i := 0; i < n; i++ {
		var b [16]byte
		b[0] = 0xfd
		for j := 1; j < 16; j++ {
			b[j] = byte(rng.IntN(256))
		}
		out = append(out, netip.AddrPortFrom(netip.AddrFrom16(b), uint16(1+rng.IntN(65535))))
	}
	return out
}

func compactOf(ps []netip.AddrPort) []byte {
	var b []byte
	for _, p := range ps {
		b = append(b, refwire.TrkCompact(p)...)
	}
	return b
}

func apStrings(m map[netip.AddrPort]bool, max int) []string {
	var s []string
	for k := range m {
		s = append(s, k.String())
	}
	sort.Strings(s)
	if len(s) > max {
		s = append(s[:max], fmt.Sprintf("…(%d)", len(s)))
	}
	return s
}

func errClass(err error) string {
	switch {
	case err == nil:
		return "ok"
	case err == tracker.ErrNotReady:
		return "not-ready"
	case errors.Is(err, context.Canceled):
		return "cancelled"
	}
	return "error"
}

func sortedAPs(m map[netip.AddrPort]bool) []netip.AddrPort {
	var out []netip.AddrPort
	for k := range m {
		out = append(out, k)
	}
	sort.Slice(out, func(i, j int) bool { return out[i].Compare(out[j]) < 0 })
	return out
}

func clip(b []byte, n int) []byte {
	if len(b) > n {
		return b[:n]
	}
	return b
}

var (
	testHash = []byte("\x01\x23\x45\x67\x89\xab\xcd\xef\x01\x23\x45\x67\x89\xab\xcd\xef\x01\x23\x45\x67")
	testID   = []byte("-VK0001-abcdefghijkl")
)

// announceGuarded runs Announce with a wall-clock guard (hang => inconclusive).
func announceGuarded(tr tracker.Tracker, ctx context.Context, col *collector, guard time.Duration) (err error, returned bool) {
	done := make(chan error, 1)
	go func() {
		done <- tr.Announce(ctx, testHash, testID, 50, 1<<30, 6881, 6881, "", col.f)
	}()
	select {
	case err = <-done:
		return err, true
	case <-time.After(guard):
		return nil, false
	}
}

func initServers() {
	initHTTPServers()
}

// ---------- fake UDP tracker (BEP 15) ---------------------------------------

var udpKinds = []string{"valid", "foreign-tid", "wrong-action", "error-action", "short", "garbage"}

func udpTerminal(kind string) bool {
	return kind == "valid" || kind == "wrong-action" || kind == "error-action"
}

type udpSent struct {
	Fam     int              `json:"fam"` // 0 v4, 1 v6
	Phase   int              `json:"phase"`
	N       int              `json:"n"`
	Kind    string           `json:"kind"`
	Len     int              `json:"len"`
	Partial bool             `json:"partial,omitempty"`
	Ival    uint32           `json:"interval,omitempty"`
	VT      int64            `json:"vt,omitempty"`
	peers   []netip.AddrPort // whole entries embedded in the datagram
}

type udpSrv struct {
	conns    [2]net.PacketConn
	port     int
	mu       sync.Mutex
	script   [2][]string // per phase
	fallback string      // after the script: "valid" | "silence"
	rngs     [2]*rand.Rand
	reqs     [2][2]int // [fam][phase]
	sent     []udpSent
	odd      int // datagrams that are not a BEP 15 connect/announce request
	vnow     atomic.Int64
	// for schedules: interval chosen per announce reply, and reply kind per attempt
	ivalFor func(fam, attempt int) (kind string, ival uint32)
	wg      sync.WaitGroup
}

// listenDual opens the same port on 127.0.0.1 and ::1 (only the wanted families).
func listenDualUDP(want4, want6 bool) (c4, c6 net.PacketConn, port int, err error) {
	for try := 0; try < 50; try++ {
		if want4 {
			c4, err = net.ListenPacket("udp4", "127.0.0.1:0")
			if err != nil {
				return nil, nil, 0, err
			}
			port = c4.LocalAddr().(*net.UDPAddr).Port
			if !want6 {
				return c4, nil, port, nil
			}
			c6, err = net.ListenPacket("udp6", fmt.Sprintf("[::1]:%d", port))
			if err == nil {
				return c4, c6, port, nil
			}
			c4.Close()
			continue
		}
		c6, err = net.ListenPacket("udp6", "[::1]:0")
		if err != nil {
			return nil, nil, 0, err
		}
		return nil, c6, c6.LocalAddr().(*net.UDPAddr).Port, nil
	}
	return nil, nil, 0, err
}

func newUDPSrv(netw string, seed uint64) (*udpSrv, error) {
	c4, c6, port, err := listenDualUDP(netw != "v6", netw != "v4")
	if err != nil {
		return nil, err
	}
	s := &udpSrv{port: port, fallback: "valid"}
	s.conns[0], s.conns[1] = c4, c6
	s.rngs[0] = rand.New(rand.NewPCG(seed, 4))
	s.rngs[1] = rand.New(rand.NewPCG(seed, 6))
	return s, nil
}

func (s *udpSrv) start() {
	for fam, c := range s.conns {
		if c == nil {
			continue
		}
		s.wg.Add(1)
		go s.serve(fam, c)
	}
}

func (s *udpSrv) close() {
	for _, c := range s.conns {
		if c != nil {
			c.Close()
		}
	}
	s.wg.Wait()
}

func (s *udpSrv) url(netw string) string {
	switch netw {
	case "v4":
		return fmt.Sprintf("udp://127.0.0.1:%d/announce", s.port)
	case "v6":
		return fmt.Sprintf("udp://[::1]:%d/announce", s.port)
	}
	return fmt.Sprintf("udp://%s:%d/announce", dualHost, s.port)
}

func (s *udpSrv) serve(fam int, c net.PacketConn) {
	defer s.wg.Done()
	buf := make([]byte, 4096)
	for {
		n, from, err := c.ReadFrom(buf)
		if err != nil {
			return
		}
		req := buf[:n]
		phase := -1
		if n == 16 && binary.BigEndian.Uint64(req) == 0x41727101980 && binary.BigEndian.Uint32(req[8:]) == 0 {
			phase = 0
		} else if n >= 98 && binary.BigEndian.Uint32(req[8:]) == 1 {
			phase = 1
		}
		if phase < 0 {
			s.mu.Lock()
			s.odd++
			s.mu.Unlock()
			continue
		}
		tid := binary.BigEndian.Uint32(req[12:])
		s.mu.Lock()
		k := s.reqs[fam][phase]
		s.reqs[fam][phase]++
		kind := s.fallback
		var ival uint32 = 1800
		if s.ivalFor != nil {
			att := k
			if phase == 1 {
				att = s.reqs[fam][0] - 1
			}
			kd, iv := s.ivalFor(fam, att)
			ival = iv
			if phase == 1 {
				kind = kd
			} else {
				kind = "valid"
			}
		} else if k < len(s.script[phase]) {
			kind = s.script[phase][k]
		}
		rng := s.rngs[fam]
		dg, rec := buildUDPReply(rng, fam, phase, kind, tid, ival)
		rec.N = k
		rec.VT = s.vnow.Load()
		s.sent = append(s.sent, rec)
		s.mu.Unlock()
		if dg != nil {
			c.WriteTo(dg, from)
		}
	}
}

// buildUDPReply makes a datagram of the given kind.  Peer-like payloads are
// put into every announce-phase kind so that taking peers from the wrong
// datagram is observable.
func buildUDPReply(rng *rand.Rand, fam, phase int, kind string, tid uint32, ival uint32) ([]byte, udpSent) {
	rec := udpSent{Fam: fam, Phase: phase, Kind: kind}
	min := 16
	if phase == 1 {
		min = 20
	}
	peerBlob := func() []byte {
		var ps []netip.AddrPort
		n := rng.IntN(6)
		if fam == 0 {
			ps = rndPeers4(rng, n)
		} else {
			ps = rndPeers6(rng, n)
		}
		rec.peers = ps
		return compactOf(ps)
	}
	hdr := func(action, t uint32) []byte {
		b := binary.BigEndian.AppendUint32(nil, action)
		return binary.BigEndian.AppendUint32(b, t)
	}
	body := func(b []byte) []byte {
		if phase == 0 {
			return binary.BigEndian.AppendUint64(b, rng.Uint64())
		}
		rec.Ival = ival
		b = binary.BigEndian.AppendUint32(b, ival)
		b = binary.BigEndian.AppendUint32(b, uint32(rng.IntN(100)))
		b = binary.BigEndian.AppendUint32(b, uint32(rng.IntN(100)))
		return append(b, peerBlob()...)
	}
	var dg []byte
	switch kind {
	case "silence":
		return nil, rec
	case "valid":
		dg = body(hdr(uint32(phase), tid))
		if phase == 1 && rng.IntN(8) == 0 {
			rec.Partial = true
			dg = append(dg, make([]byte, 1+rng.IntN(5))...)
		}
	case "foreign-tid":
		dg = body(hdr(uint32(phase), tid^(1+uint32(rng.IntN(1<<31)))))
	case "wrong-action":
		a := []uint32{1, 2}[rng.IntN(2)]
		if phase == 1 {
			a = []uint32{0, 2}[rng.IntN(2)]
		}
		dg = body(hdr(a, tid))
		for len(dg) < min {
			dg = append(dg, 0)
		}
	case "error-action":
		dg = hdr(3, tid)
		if phase == 1 {
			dg = body(dg) // an error datagram shaped like an announce reply
		} else {
			dg = append(dg, []byte("tracker says no")...)
		}
		for len(dg) < min {
			dg = append(dg, '!')
		}
	case "short":
		switch rng.IntN(4) {
		case 0:
			dg = []byte{}
		case 1:
			dg = make([]byte, 1+rng.IntN(7))
			for i := range dg {
				dg[i] = byte(rng.IntN(256))
			}
		case 2:
			dg = hdr(uint32(phase), tid)
			dg = append(dg, make([]byte, rng.IntN(min-8))...)
		default:
			dg = hdr(3, tid)
			dg = append(dg, []byte("no")...)
			if len(dg) >= min {
				dg = dg[:min-1]
			}
		}
	case "garbage":
		dg = make([]byte, min+rng.IntN(200-min))
		for i := range dg {
			dg[i] = byte(rng.IntN(256))
		}
		if binary.BigEndian.Uint32(dg[4:]) == tid {
			dg[4] ^= 0x80
		}
	default:
		panic("unknown udp reply kind " + kind)
	}
	rec.Len = len(dg)
	return dg, rec
}

// ---------- UDP sequence cases ----------------------------------------------

type udpSpec struct {
	Family   string
	Phase    int
	Seq      []string
	Net      string
	Fallback string
	Seed     uint64
}

func seqOf(k int) []string {
	// k in [0,1555): all sequences of length 0..4 in base 6
	l := 0
	sz := 1
	for k >= sz {
		k -= sz
		sz *= 6
		l++
	}
	out := make([]string, l)
	for j := l - 1; j >= 0; j-- {
		out[j] = udpKinds[k%6]
		k /= 6
	}
	return out
}

func genUDPSeq(rng *rand.Rand, k int, _ bool) spec {
	phase := k / nSeq
	seq := seqOf(k % nSeq)
	netw := []string{"v4", "both", "v6"}[rng.IntN(3)]
	return &udpSpec{Family: "udp-seq", Phase: phase, Seq: seq, Net: netw, Fallback: "valid", Seed: rng.Uint64()}
}

var silenceAlphabet = []string{"valid", "foreign-tid", "wrong-action", "error-action", "short", "garbage", "silence"}

// genUDPSilence: sequences that contain silence (thorough only; each silent
// slot costs 5·2^k real seconds).  k enumerates (phase, position of the one
// silent slot in 0..2, what precedes it, what follows it).
func genUDPSilence(rng *rand.Rand, k int) spec {
	phase := k % 2
	k /= 2
	pos := k % 3
	k /= 3
	before := []string{"foreign-tid", "short", "garbage", "foreign-tid"}[k%4]
	k /= 4
	after := []string{"valid", "foreign-tid", "error-action", "silence-to-end"}[k%4]
	var seq []string
	for j := 0; j < pos; j++ {
		seq = append(seq, before)
	}
	seq = append(seq, "silence")
	if after == "silence-to-end" {
		for len(seq) < 4 {
			seq = append(seq, "silence")
		}
	} else {
		seq = append(seq, after)
	}
	netw := []string{"v4", "both"}[rng.IntN(2)]
	return &udpSpec{Family: "silence", Phase: phase, Seq: seq, Net: netw, Fallback: "valid", Seed: rng.Uint64()}
}

// walk gives the reference reading of a script: how many replies the client
// consumes in the scripted phase and how the phase ends.
func (u *udpSpec) walk() (consumed int, end string, last string) {
	for j := 0; j < 4; j++ {
		kind := u.Fallback
		if j < len(u.Seq) {
			kind = u.Seq[j]
		}
		consumed++
		last = kind
		if udpTerminal(kind) {
			return consumed, "terminal=" + kind, last
		}
	}
	return consumed, "exhausted last=" + semKind(last), last
}

// semKind: what the datagram means to a BEP 15 reader.
func semKind(kind string) string {
	if kind == "garbage" {
		return "foreign-tid" // >= minimum length, transaction id differs
	}
	return kind
}

func (u *udpSpec) desc() map[string]any {
	_, end, _ := u.walk()
	return map[string]any{"family": u.Family, "phase": []string{"connect", "announce"}[u.Phase], "seq": u.Seq, "net": u.Net, "fallback_after_script": u.Fallback, "reference_outcome": end}
}

func (u *udpSpec) crashClass() string {
	_, end, _ := u.walk()
	return "udp " + end
}

func (u *udpSpec) run(t *testing.T, res *result) {
	res.count("udp_cases", 1)
	s, err := newUDPSrv(u.Net, u.Seed)
	if err != nil {
		res.Inconcl = "cannot open fake UDP tracker: " + err.Error()
		return
	}
	s.script[u.Phase] = u.Seq
	s.fallback = u.Fallback
	s.start()
	defer s.close()
	tr := tracker.New(s.url(u.Net))
	col := newCollector()
	guard := 40 * time.Second
	if u.Family == "silence" {
		guard = 200 * time.Second
	}
	ctx, cancel := context.WithCancel(context.Background())
	defer cancel()
	aerr, returned := announceGuarded(tr, ctx, col, guard)
	if !returned {
		res.Inconcl = "Announce did not return within the wall-clock guard"
		return
	}
	st, _ := tr.GetState()
	consumed, end, _ := u.walk()
	shape := end
	s.mu.Lock()
	sent := append([]udpSent(nil), s.sent...)
	reqs := s.reqs
	odd := s.odd
	s.mu.Unlock()
	res.count("udp_datagrams_answered", int64(len(sent)))
	res.count("udp_odd_requests", int64(odd))
	if aerr != nil {
		res.count("udp_announce_error", 1)
	} else {
		res.count("udp_announce_ok", 1)
	}
	fams := []int{0, 1}
	if u.Net == "v4" {
		fams = []int{0}
	} else if u.Net == "v6" {
		fams = []int{1}
	}
	allowed := map[netip.AddrPort]bool{}
	demanded := map[netip.AddrPort]bool{}
	forbidden := map[netip.AddrPort]string{}
	for _, fam := range fams {
		// expected request counts from the reference walk
		wantReq := [2]int{}
		if u.Phase == 0 {
			wantReq[0] = consumed
			if end == "terminal=valid" {
				wantReq[1] = 1
			}
		} else {
			wantReq[0] = 1
			wantReq[1] = consumed
		}
		if reqs[fam] != wantReq {
			res.Inconcl = fmt.Sprintf("fake tracker saw %v requests (connect, announce) on family %d, the script explains %v (retransmission under load?)", reqs[fam], fam, wantReq)
			return
		}
	}
	for _, r := range sent {
		isLast := false
		if r.Phase == 1 && r.Kind == "valid" {
			// the terminal valid reply of the announce phase
			isLast = true
		}
		for _, p := range r.peers {
			p = refwire.NormAP(p)
			if isLast {
				allowed[p] = true
				if !r.Partial {
					demanded[p] = true
				}
			} else if r.Phase == 1 {
				forbidden[p] = r.Kind
			}
		}
	}
	learnt := col.set()
	res.count("udp_peers_learnt", int64(len(learnt)))
	rep := map[string]any{"spec": u.desc(), "sent": sent, "learnt": apStrings(learnt, 20), "announce_err": fmt.Sprint(aerr)}
	for p := range learnt {
		if allowed[p] {
			continue
		}
		if k, ok := forbidden[p]; ok {
			res.violation("peers-from-error", "peers-from-error udp "+semKind(k), fmt.Sprintf("peer %v was passed to the callback but only occurs in a %s datagram", p, k), rep)
		} else {
			res.violation("differential", "learnt-not-encoded udp "+shape, fmt.Sprintf("peer %v was passed to the callback but is in no datagram the fake tracker sent", p), rep)
		}
		break
	}
	for p := range demanded {
		if !learnt[p] {
			res.violation("differential", "encoded-not-learnt udp "+shape, fmt.Sprintf("peer %v of the valid announce reply was not passed to the callback (learnt %d of %d)", p, len(learnt), len(demanded)), rep)
			break
		}
	}
	if st == tracker.Busy {
		res.violation("stuck-busy", "stuck-busy udp after="+errClass(aerr), "GetState()==Busy after Announce returned "+fmt.Sprint(aerr), rep)
	}
	if len(demanded) > 0 {
		res.count("udp_valid_with_peers", 1)
	}
	res.FP = vk.Hash64("udp", u.Phase, end, u.Net, len(demanded) > 0)
	res.NT = len(sent) > 0
}

// ---------- fake HTTP tracker -------------------------------------------------

type genReply struct {
	Status   int
	Body     []byte
	Class    string
	Delivery string // full | slow | http10-close | reset-pre | reset-mid | trunc-chunked | hold
	Cut      int
	Embedded []netip.AddrPort // every peer written into the body by the generator
	Mutated  bool             // byte-level mutation after construction: Embedded may be stale
	Ival     int64            // for schedules: what the generator put as interval (informative)
}

type httpLog struct {
	Fam   int    `json:"fam"`
	N     int    `json:"n"`
	VT    int64  `json:"vt"`
	Class string `json:"class"`
	reply *genReply
}

type httpSrv struct {
	ls     [2]net.Listener
	port   int
	mu     sync.Mutex
	nonce  string
	script func(fam, n int) *genReply
	count  [2]int
	log    []httpLog
	vnow   atomic.Int64
	arrive chan int // optional: signalled on each request
	stale  int
}

var srvBoth, srv4, srv6 *httpSrv

func initHTTPServers() {
	var err error
	if srvBoth, err = newHTTPSrv(true, true); err != nil {
		panic(err)
	}
	if srv4, err = newHTTPSrv(true, false); err != nil {
		panic(err)
	}
	if srv6, err = newHTTPSrv(false, true); err != nil {
		panic(err)
	}
}

func newHTTPSrv(want4, want6 bool) (*httpSrv, error) {
	s := &httpSrv{}
	var err error
	for try := 0; try < 50; try++ {
		var l4, l6 net.Listener
		if want4 {
			l4, err = net.Listen("tcp4", "127.0.0.1:0")
			if err != nil {
				return nil, err
			}
			s.port = l4.Addr().(*net.TCPAddr).Port
		}
		if want6 {
			addr := "[::1]:0"
			if want4 {
				addr = fmt.Sprintf("[::1]:%d", s.port)
			}
			l6, err = net.Listen("tcp6", addr)
			if err != nil {
				if l4 != nil {
					l4.Close()
				}
				continue
			}
			s.port = l6.Addr().(*net.TCPAddr).Port
		}
		s.ls[0], s.ls[1] = l4, l6
		break
	}
	if s.ls[0] == nil && s.ls[1] == nil {
		return nil, err
	}
	for fam, l := range s.ls {
		if l == nil {
			continue
		}
		fam := fam
		hs := &http.Server{Handler: http.HandlerFunc(func(w http.ResponseWriter, r *http.Request) { s.handle(fam, w, r) })}
		hs.SetKeepAlivesEnabled(false)
		go hs.Serve(l)
	}
	return s, nil
}

var nonceCtr atomic.Int64

// arm installs the script of a case and returns the announce URL.
func (s *httpSrv) arm(host string, script func(fam, n int) *genReply) string {
	s.mu.Lock()
	defer s.mu.Unlock()
	s.nonce = fmt.Sprintf("c%d", nonceCtr.Add(1))
	s.script = script
	s.count = [2]int{}
	s.log = nil
	s.arrive = nil
	return fmt.Sprintf("http://%s/%s/announce", net.JoinHostPort(host, strconv.Itoa(s.port)), s.nonce)
}

func (s *httpSrv) disarm() []httpLog {
	s.mu.Lock()
	defer s.mu.Unlock()
	s.nonce = ""
	s.script = nil
	l := s.log
	s.log = nil
	return l
}

func (s *httpSrv) contacts() int {
	s.mu.Lock()
	defer s.mu.Unlock()
	return len(s.log)
}

func (s *httpSrv) handle(fam int, w http.ResponseWriter, r *http.Request) {
	s.mu.Lock()
	if s.nonce == "" || !strings.HasPrefix(r.URL.Path, "/"+s.nonce+"/") {
		s.stale++
		s.mu.Unlock()
		http.Error(w, "gone", http.StatusGone)
		return
	}
	n := s.count[fam]
	s.count[fam]++
	rep := s.script(fam, n)
	s.log = append(s.log, httpLog{Fam: fam, N: n, VT: s.vnow.Load(), Class: rep.Class, reply: rep})
	arrive := s.arrive
	s.mu.Unlock()
	if arrive != nil {
		select {
		case arrive <- fam:
		default:
		}
	}
	deliver(w, r, rep)
}

func hijack(w http.ResponseWriter) (net.Conn, *bufio.ReadWriter) {
	hj, ok := w.(http.Hijacker)
	if !ok {
		return nil, nil
	}
	c, rw, err := hj.Hijack()
	if err != nil {
		return nil, nil
	}
	return c, rw
}

func hardClose(c net.Conn, rst bool) {
	if tc, ok := c.(*net.TCPConn); ok && rst {
		tc.SetLinger(0)
	}
	c.Close()
}

func deliver(w http.ResponseWriter, r *http.Request, rep *genReply) {
	switch rep.Delivery {
	case "hold":
		select {
		case <-r.Context().Done():
		case <-time.After(30 * time.Second):
		}
		return
	case "reset-pre":
		if c, _ := hijack(w); c != nil {
			hardClose(c, rep.Cut%2 == 0)
		}
		return
	case "reset-mid":
		if c, rw := hijack(w); c != nil {
			k := rep.Cut
			if k > len(rep.Body) {
				k = len(rep.Body)
			}
			fmt.Fprintf(rw, "HTTP/1.1 %d X\r\nContent-Length: %d\r\nConnection: close\r\n\r\n", rep.Status, len(rep.Body)+1)
			rw.Write(rep.Body[:k])
			rw.Flush()
			hardClose(c, false)
		}
		return
	case "trunc-chunked":
		if c, rw := hijack(w); c != nil {
			k := rep.Cut
			if k > len(rep.Body) {
				k = len(rep.Body)
			}
			fmt.Fprintf(rw, "HTTP/1.1 %d X\r\nTransfer-Encoding: chunked\r\nConnection: close\r\n\r\n", rep.Status)
			if k > 0 {
				fmt.Fprintf(rw, "%x\r\n", k)
				rw.Write(rep.Body[:k])
				rw.WriteString("\r\n")
			}
			rw.Flush()
			hardClose(c, false) // no terminating chunk
		}
		return
	case "http10-close":
		if c, rw := hijack(w); c != nil {
			fmt.Fprintf(rw, "HTTP/1.0 %d X\r\n\r\n", rep.Status)
			rw.Write(rep.Body)
			rw.Flush()
			hardClose(c, false)
		}
		return
	case "slow":
		w.WriteHeader(rep.Status)
		fl, _ := w.(http.Flusher)
		b := rep.Body
		for i := 0; i < 3 && len(b) > 0; i++ {
			k := 1 + len(b)/3
			if k > len(b) {
				k = len(b)
			}
			w.Write(b[:k])
			b = b[k:]
			if fl != nil {
				fl.Flush()
			}
			time.Sleep(time.Millisecond)
		}
		w.Write(b)
		return
	}
	w.Header().Set("Content-Type", "text/plain")
	w.WriteHeader(rep.Status)
	w.Write(rep.Body)
}

func deliveredFully(d string) bool {
	return d == "full" || d == "slow" || d == "http10-close"
}

// ---------- HTTP reply generator ----------------------------------------------

var intervalPool = []int64{-1 << 31, -1, 0, 1, 59, 60, 61, 120, 299, 300, 301, 900, 1800, 3600, 1<<31 - 1, 1 << 31, 1 << 33, 1<<33 + 1, 1 << 62, 1<<63 - 1}

func bstr(s string) string { return fmt.Sprintf("%d:%s", len(s), s) }

var dnsNames = []string{"tracker.example.org", "peer-7.invalid", "localhost", "a", "xn--bcher-kva.example", "1.2.3", "1.2.3.4.5", "::g", "256.1.1.1"}

// dictPeers builds a dictionary-model list; returns the bencoded list and the peers given as literals.
func dictPeers(rng *rand.Rand, n4, n6, names int, withID bool) ([]any, []netip.AddrPort) {
	var l []any
	var emb []netip.AddrPort
	add := func(ip string, port int64) {
		d := refwire.NewDict().Set("ip", []byte(ip)).Set("port", port)
		if withID {
			id := make([]byte, 20)
			for i := range id {
				id[i] = byte(rng.IntN(256))
			}
			d.Set("peer id", id)
		}
		l = append(l, d)
	}
	for _, p := range rndPeers4(rng, n4) {
		add(p.Addr().String(), int64(p.Port()))
		emb = append(emb, p)
	}
	for _, p := range rndPeers6(rng, n6) {
		s := p.Addr().String()
		if rng.IntN(3) == 0 {
			s = strings.ToUpper(s)
		}
		add(s, int64(p.Port()))
		emb = append(emb, p)
	}
	for i := 0; i < names; i++ {
		add(vk.Pick(rng, dnsNames), int64(1+rng.IntN(65535)))
	}
	rng.Shuffle(len(l), func(i, j int) { l[i], l[j] = l[j], l[i] })
	return l, emb
}

var httpClasses = []string{
	"valid-compact", "valid-compact", "valid-dict", "valid-dict", "valid-mixed6", "interval-pool",
	"dict-port-out-of-range", "dict-port-bad-type", "dict-no-port", "dict-ip-bad-type", "dict-entry-not-dict",
	"compact-odd-length", "peers6-odd-length", "peers-int-list", "peers-int-list-overflow",
	"failure", "failure", "failure-retry", "failure-empty", "failure-wrong-type",
	"status-error", "status-error", "status-2xx",
	"strlen>body", "int-boundary", "wrong-type", "dup-keys", "unsorted", "deep-nesting", "trailing", "huge-list",
	"not-dict", "random-bytes", "truncated-valid", "bitflip-valid",
}

func genHTTPReply(rng *rand.Rand, class string) *genReply {
	g := &genReply{Status: 200, Class: class, Delivery: "full"}
	ival := vk.Pick(rng, []int64{1, 120, 300, 900, 1800, 3600})
	g.Ival = ival
	base := func() *refwire.Dict {
		d := refwire.NewDict().Set("interval", ival)
		if rng.IntN(2) == 0 {
			d.Set("complete", int64(rng.IntN(1000))).Set("incomplete", int64(rng.IntN(1000)))
		}
		if rng.IntN(3) == 0 {
			d.Set("min interval", int64(rng.IntN(1000)))
		}
		if rng.IntN(4) == 0 {
			d.Set("tracker id", []byte("tid-xyz"))
		}
		return d
	}
	withCompact := func(d *refwire.Dict, n4, n6 int) {
		p4 := rndPeers4(rng, n4)
		d.Set("peers", compactOf(p4))
		g.Embedded = append(g.Embedded, p4...)
		if n6 >= 0 {
			p6 := rndPeers6(rng, n6)
			d.Set("peers6", compactOf(p6))
			g.Embedded = append(g.Embedded, p6...)
		}
	}
	validBody := func() []byte {
		d := base()
		n6 := -1
		if rng.IntN(2) == 0 {
			n6 = rng.IntN(4)
		}
		withCompact(d, rng.IntN(8), n6)
		return refwire.Benc(d)
	}
	switch class {
	case "valid-compact":
		d := base()
		n := []int{0, 1, 2, 5, 50, 200}[rng.IntN(6)]
		n6 := -1
		if rng.IntN(2) == 0 {
			n6 = rng.IntN(6)
		}
		withCompact(d, n, n6)
		g.Body = refwire.Benc(d)
	case "valid-dict":
		d := base()
		l, emb := dictPeers(rng, rng.IntN(5), rng.IntN(4), rng.IntN(3), rng.IntN(2) == 0)
		d.Set("peers", l)
		g.Embedded = emb
		g.Body = refwire.Benc(d)
	case "valid-mixed6":
		d := base()
		l, emb := dictPeers(rng, 1+rng.IntN(4), 0, rng.IntN(2), false)
		d.Set("peers", l)
		p6 := rndPeers6(rng, 1+rng.IntN(4))
		d.Set("peers6", compactOf(p6))
		g.Embedded = append(emb, p6...)
		g.Body = refwire.Benc(d)
	case "interval-pool":
		d := base()
		g.Ival = vk.Pick(rng, intervalPool)
		d.Set("interval", g.Ival)
		withCompact(d, 1+rng.IntN(4), -1)
		g.Body = refwire.Benc(d)
	case "dict-port-out-of-range", "dict-port-bad-type", "dict-no-port", "dict-ip-bad-type", "dict-entry-not-dict":
		d := base()
		l, emb := dictPeers(rng, 1+rng.IntN(3), rng.IntN(2), 0, false)
		bad := refwire.NewDict().Set("ip", []byte("10.9.8.7"))
		var badv any = bad
		switch class {
		case "dict-port-out-of-range":
			bad.Set("port", vk.Pick(rng, []int64{65536, 65537, 70000, 1 << 20, 1<<32 + 80, -1, -65535}))
		case "dict-port-bad-type":
			bad.Set("port", []byte("6881"))
		case "dict-no-port":
		case "dict-ip-bad-type":
			bad.Set("ip", int64(167772161)).Set("port", int64(6881))
		case "dict-entry-not-dict":
			badv = vk.Pick(rng, []any{int64(5), []byte("10.9.8.7:80"), []any{}})
		}
		l = append(l, badv)
		rng.Shuffle(len(l), func(i, j int) { l[i], l[j] = l[j], l[i] })
		d.Set("peers", l)
		g.Embedded = emb
		g.Body = refwire.Benc(d)
	case "compact-odd-length":
		d := base()
		p4 := rndPeers4(rng, 1+rng.IntN(4))
		b := compactOf(p4)
		b = append(b, make([]byte, 1+rng.IntN(5))...)
		d.Set("peers", b)
		g.Embedded = p4
		g.Body = refwire.Benc(d)
	case "peers6-odd-length":
		d := base()
		withCompact(d, rng.IntN(3), 1+rng.IntN(3))
		b, _ := d.Bytes("peers6")
		d.Set("peers6", append(append([]byte(nil), b...), make([]byte, 1+rng.IntN(17))...))
		g.Body = refwire.Benc(d)
	case "peers-int-list", "peers-int-list-overflow":
		d := base()
		p4 := rndPeers4(rng, 1+rng.IntN(3))
		var l []any
		for _, x := range compactOf(p4) {
			l = append(l, int64(x))
		}
		if class == "peers-int-list-overflow" {
			l[rng.IntN(len(l))] = int64(256 + rng.IntN(1000)) // does not fit a byte
		} else {
			g.Embedded = p4
		}
		d.Set("peers", l)
		g.Body = refwire.Benc(d)
	case "failure", "failure-retry", "failure-empty", "failure-wrong-type":
		d := base()
		withCompact(d, 1+rng.IntN(4), rng.IntN(3))
		if rng.IntN(2) == 0 {
			delete(d.Vals, "interval")
			d.Keys = d.Keys[1:]
		}
		switch class {
		case "failure":
			d.Set("failure reason", []byte(vk.Pick(rng, []string{"torrent not registered", "x", "unauthorised \xff\x00", strings.Repeat("A", 5000)})))
		case "failure-retry":
			d.Set("failure reason", []byte("overloaded"))
			var rv any = []byte(vk.Pick(rng, []string{"never", "0", "1", "2", "5", "15", "60", "-3", "9999999999999999999999", "soon", "", " 5", "5m"}))
			if rng.IntN(6) == 0 {
				rv = int64(5)
			}
			d.Set("retry in", rv)
		case "failure-empty":
			d.Set("failure reason", []byte(""))
		case "failure-wrong-type":
			d.Set("failure reason", vk.Pick(rng, []any{int64(5), []any{[]byte("no")}, refwire.NewDict()}))
		}
		g.Body = refwire.Benc(d)
	case "status-error":
		g.Status = vk.Pick(rng, []int{301, 400, 403, 404, 410, 429, 500, 502, 503})
		g.Body = validBody()
	case "status-2xx":
		g.Status = vk.Pick(rng, []int{201, 202, 203, 206})
		g.Body = validBody()
	case "strlen>body":
		p4 := rndPeers4(rng, 2)
		// zeebo/bencode allocates the declared length before reading: keep the
		// gigabyte sizes rare, 16 children share the machine
		n := vk.Pick(rng, []int64{13, 100, 1 << 16, 1 << 20, 1 << 24, 1 << 26, 1 << 27, 1 << 31, 1 << 40, 1<<63 - 1})
		if rng.IntN(50) == 0 {
			n = vk.Pick(rng, []int64{1 << 30, 1<<31 - 1})
		}
		k := vk.Pick(rng, []string{"peers", "peers6", "failure reason", "zz", "retry in"})
		g.Body = []byte(fmt.Sprintf("d8:intervali1800e%s%d:%se", bstr(k), n, compactOf(p4)))
		g.Embedded = p4
	case "int-boundary":
		p4 := rndPeers4(rng, 2)
		ints := []string{"i0e", "i-0e", "i-1e", "i00e", "i01e", "i+5e", "i4294967295e", "i4294967296e", "i9223372036854775807e", "i9223372036854775808e", "i-9223372036854775808e", "i99999999999999999999999e", "ie", "i-e", "i1", "i1.5e", "i 1e", "i1e3e", "i0x10e"}
		g.Body = []byte("d8:interval" + vk.Pick(rng, ints) + "5:peers" + bstr(string(compactOf(p4))) + "e")
		g.Embedded = p4
	case "wrong-type":
		p4 := rndPeers4(rng, 2)
		anyv := func() string {
			return vk.Pick(rng, []string{"i5e", "le", "de", "l1:ae", "d1:ai1ee", "0:", "li1ei2ee", "lli1eee", "l" + bstr(string(compactOf(p4))) + "e"})
		}
		var b strings.Builder
		b.WriteString("d")
		for _, k := range []string{"complete", "interval", "peers", "peers6", "retry in", "tracker id"} {
			if rng.IntN(2) == 0 {
				b.WriteString(bstr(k) + anyv())
			} else if k == "peers" {
				b.WriteString(bstr(k) + bstr(string(compactOf(p4))))
				g.Embedded = p4
			}
		}
		b.WriteString("e")
		g.Body = []byte(b.String())
		// a list wrapping a compact string is not an encoding of those peers,
		// but a lenient reader might dig them out: tolerated, never demanded
		g.Embedded = p4
	case "dup-keys":
		a, b := rndPeers4(rng, 2), rndPeers4(rng, 2)
		var s string
		switch rng.IntN(3) {
		case 0:
			s = "d8:intervali1800e5:peers" + bstr(string(compactOf(a))) + "5:peers" + bstr(string(compactOf(b))) + "e"
		case 1:
			s = "d8:intervali1800e8:intervali60e5:peers" + bstr(string(compactOf(a))) + "e"
		default:
			s = "d5:peers" + bstr(string(compactOf(a))) + "6:peers6" + bstr(string(compactOf(rndPeers6(rng, 0)))) + "5:peersle" + "e"
		}
		g.Body = []byte(s)
		g.Embedded = append(a, b...)
	case "unsorted":
		p4, p6 := rndPeers4(rng, 3), rndPeers6(rng, 2)
		g.Body = []byte("d6:peers6" + bstr(string(compactOf(p6))) + "5:peers" + bstr(string(compactOf(p4))) + "8:intervali1800e8:completei3ee")
		g.Embedded = append(p4, p6...)
	case "deep-nesting":
		p4 := rndPeers4(rng, 2)
		depth := vk.Pick(rng, []int{10, 100, 1000, 10000, 100000})
		ch := vk.Pick(rng, []string{"l", "d1:a"})
		closed := rng.IntN(2) == 0
		var b strings.Builder
		b.WriteString("d5:peers" + bstr(string(compactOf(p4))) + "1:x")
		b.WriteString(strings.Repeat(ch, depth))
		if closed {
			if ch != "l" {
				b.WriteString("i1e")
			}
			b.WriteString(strings.Repeat("e", depth))
			b.WriteString("e")
		}
		g.Body = []byte(b.String())
		g.Embedded = p4
		g.Class = fmt.Sprintf("deep-nesting-%d", depth)
	case "trailing":
		g.Body = validBody()
		for j := 0; j < 1+rng.IntN(60); j++ {
			g.Body = append(g.Body, byte(rng.IntN(256)))
		}
	case "huge-list":
		d := base()
		n := 2000 + rng.IntN(8000)
		if rng.IntN(2) == 0 {
			withCompact(d, n, -1)
		} else {
			l, emb := dictPeers(rng, n/4, 0, 0, false)
			d.Set("peers", l)
			g.Embedded = emb
		}
		g.Body = refwire.Benc(d)
	case "not-dict":
		g.Body = []byte(vk.Pick(rng, []string{"le", "i5e", "4:spam", "", "e", "d", "l", "<html>404</html>", "d8:intervali5e"}))
	case "random-bytes":
		g.Body = make([]byte, rng.IntN(300))
		for i := range g.Body {
			g.Body[i] = byte(rng.IntN(256))
		}
		g.Mutated = true
	case "truncated-valid":
		b := validBody()
		g.Body = b[:rng.IntN(len(b))]
		g.Mutated = true
	case "bitflip-valid":
		g.Body = validBody()
		g.Body[rng.IntN(len(g.Body))] ^= byte(1 << rng.IntN(8))
		g.Mutated = true
	default:
		panic("unknown http class " + class)
	}
	// delivery faults
	switch x := rng.IntN(20); {
	case x == 0:
		g.Delivery = "reset-pre"
		g.Cut = rng.IntN(2)
	case x == 1:
		g.Delivery = "reset-mid"
		g.Cut = rng.IntN(len(g.Body) + 1)
	case x == 2:
		g.Delivery = "trunc-chunked"
		g.Cut = rng.IntN(len(g.Body) + 1)
	case x == 3:
		g.Delivery = "http10-close"
	case x == 4:
		g.Delivery = "slow"
	}
	return g
}

// judgeReply gives the reference reading of one served reply.
type replyJudgement struct {
	allowed   []netip.AddrPort
	demanded  []refwire.TrkPeer
	forbidden []netip.AddrPort
	errKind   string // "", "failure-reason", "status-4xx", ...
	outcome   string // coarse class for the fingerprint
	validIval int64  // >0: a validly announced interval
	unjudged  bool   // mutated body the reference cannot read: subset clause not applied
}

func judgeReply(g *genReply) replyJudgement {
	var j replyJudgement
	norm := func(ps []netip.AddrPort) []netip.AddrPort {
		out := make([]netip.AddrPort, len(ps))
		for i, p := range ps {
			out[i] = refwire.NormAP(p)
		}
		return out
	}
	if g.Delivery == "reset-pre" || g.Delivery == "hold" {
		j.outcome = "no-reply"
		return j
	}
	ref := refwire.ParseTrkHTTP(g.Body)
	var refPeers []netip.AddrPort
	for _, p := range ref.Peers {
		refPeers = append(refPeers, p.AP)
	}
	full := deliveredFully(g.Delivery)
	switch {
	case g.Status >= 300:
		j.errKind = fmt.Sprintf("status-%dxx", g.Status/100)
		j.forbidden = append(norm(g.Embedded), refPeers...)
		j.outcome = "status-error"
		return j
	case g.Status != 200:
		j.allowed = append(norm(g.Embedded), refPeers...)
		j.outcome = "status-2xx"
		return j
	}
	if !full {
		// a cut body: whatever whole entries it still holds may or may not be read
		j.allowed = append(norm(g.Embedded), refPeers...)
		j.outcome = "cut"
		j.unjudged = g.Mutated
		return j
	}
	if !ref.Decoded {
		j.allowed = norm(g.Embedded)
		j.outcome = "undecodable"
		j.unjudged = g.Mutated
		return j
	}
	if ref.Failure && !ref.FailureEmpty {
		j.errKind = "failure-reason"
		j.forbidden = append(norm(g.Embedded), refPeers...)
		j.outcome = "failure"
		return j
	}
	j.allowed = refPeers
	if ref.DupKeys || !ref.WellFormed {
		j.allowed = append(j.allowed, norm(g.Embedded)...)
	}
	j.outcome = "lenient"
	if ref.WellFormed && !ref.FailureEmpty && ref.Trailing == 0 {
		j.demanded = ref.Peers
		j.outcome = "well-formed"
	}
	if ref.HasInterval && ref.Interval > 0 && ref.WellFormed {
		j.validIval = ref.Interval
	}
	return j
}

// ---------- HTTP reply cases --------------------------------------------------

type httpSpec struct {
	Net  string // v4 | v6 | both | both-v6-refused | both-v4-refused
	R    [2]*genReply
	Race bool
}

func genHTTPCase(rng *rand.Rand, k int, race bool) spec {
	h := &httpSpec{Race: race}
	h.Net = vk.Pick(rng, []string{"v4", "v4", "v6", "both", "both", "both", "both-v6-refused", "both-v4-refused"})
	if race {
		h.Net = "both"
	}
	cls := httpClasses[k%len(httpClasses)]
	if race {
		cls = vk.Pick(rng, []string{"failure", "failure-retry", "valid-compact", "valid-dict", "interval-pool", "huge-list"})
	}
	h.R[0] = genHTTPReply(rng, cls)
	// the other family: same class, another class, or a failure
	switch rng.IntN(3) {
	case 0:
		h.R[1] = genHTTPReply(rng, cls)
	default:
		// a clean or plainly failing reply, so that a made-up peer is
		// attributable to the hostile class of the case
		h.R[1] = genHTTPReply(rng, vk.Pick(rng, []string{"failure", "failure-retry", "status-error", "status-2xx", "valid-compact", "valid-dict", "valid-mixed6", "interval-pool"}))
	}
	if rng.IntN(2) == 0 {
		h.R[0], h.R[1] = h.R[1], h.R[0]
	}
	return h
}

func (h *httpSpec) fams() []int {
	switch h.Net {
	case "v4", "both-v6-refused":
		return []int{0}
	case "v6", "both-v4-refused":
		return []int{1}
	}
	return []int{0, 1}
}

func (h *httpSpec) desc() map[string]any {
	d := map[string]any{"family": "http", "net": h.Net}
	for _, f := range h.fams() {
		g := h.R[f]
		d[fmt.Sprintf("reply%d", 4+2*f)] = map[string]any{"class": g.Class, "status": g.Status, "delivery": g.Delivery, "cut": g.Cut, "len": len(g.Body), "body_prefix": string(clip(g.Body, 120))}
	}
	return d
}

func (h *httpSpec) crashClass() string {
	var cs []string
	for _, f := range h.fams() {
		cs = append(cs, h.R[f].Class)
	}
	sort.Strings(cs)
	if len(cs) == 2 && cs[0] == cs[1] {
		cs = cs[:1]
	}
	return "http " + strings.Join(cs, "+")
}

func (h *httpSpec) server() (*httpSrv, string) {
	switch h.Net {
	case "v4":
		return srvBoth, "127.0.0.1"
	case "v6":
		return srvBoth, "::1"
	case "both-v6-refused":
		return srv4, dualHost
	case "both-v4-refused":
		return srv6, dualHost
	}
	return srvBoth, dualHost
}

// judgeHTTP applies the differential clauses to one Announce call that was
// served the given replies.
func judgeHTTP(res *result, served []*genReply, learnt map[netip.AddrPort]bool, rep any, demand bool) (outcomes []string) {
	allowed := map[netip.AddrPort]bool{}
	forbidden := map[netip.AddrPort]string{}
	type dem struct {
		p   refwire.TrkPeer
		cls string
	}
	var demanded []dem
	unjudged := false
	clsOf := map[netip.AddrPort]string{}
	for _, g := range served {
		j := judgeReply(g)
		outcomes = append(outcomes, j.outcome)
		res.count("http_reply_"+j.outcome, 1)
		for _, p := range j.allowed {
			allowed[p] = true
			clsOf[p] = g.Class
		}
		for _, p := range j.forbidden {
			forbidden[p] = j.errKind
		}
		for _, p := range j.demanded {
			demanded = append(demanded, dem{p, g.Class})
		}
		if j.unjudged {
			unjudged = true
		}
	}
	// blame: the class of the served reply that mentions the address
	blame := func(p netip.AddrPort) string {
		a := p.Addr()
		raw := a.AsSlice()
		for _, g := range served {
			if bytes.Contains(g.Body, []byte(a.String())) || bytes.Contains(g.Body, []byte(strings.ToUpper(a.String()))) || bytes.Contains(g.Body, raw) {
				return g.Class
			}
		}
		// a made-up address: blame the one reply that is neither well-formed nor an error
		var cand, cut []string
		for _, g := range served {
			switch o := judgeReply(g).outcome; {
			case o == "lenient" || o == "undecodable":
				if len(cand) == 0 || cand[0] != g.Class {
					cand = append(cand, g.Class)
				}
			case o == "cut":
				if len(cut) == 0 || cut[0] != g.Class {
					cut = append(cut, g.Class)
				}
			}
		}
		if len(cand) == 1 {
			return cand[0]
		}
		if len(cand) == 0 && len(cut) == 1 {
			return cut[0]
		}
		return "address-in-no-reply"
	}
	for _, p := range sortedAPs(learnt) {
		if allowed[p] {
			continue
		}
		if k, ok := forbidden[p]; ok {
			res.violation("peers-from-error", "peers-from-error http "+k+"+peers", fmt.Sprintf("peer %v was passed to the callback but only occurs in a reply that is an error (%s)", p, k), rep)
			break
		}
		if unjudged {
			res.count("http_unjudged_mutated", 1)
			break
		}
		res.violation("differential", "learnt-not-encoded http "+blame(p), fmt.Sprintf("peer %v was passed to the callback; the reference decoding finds it in no served reply", p), rep)
		break
	}
	if !demand {
		demanded = nil
	}
	for _, d := range demanded {
		if !learnt[d.p.AP] {
			res.violation("differential", "encoded-not-learnt http "+d.cls+" "+d.p.Enc, fmt.Sprintf("peer %v (%s) of a well-formed, fully delivered 200 reply was not passed to the callback", d.p.AP, d.p.Enc), rep)
			break
		}
	}
	res.count("http_peers_demanded", int64(len(demanded)))
	return outcomes
}

func (h *httpSpec) run(t *testing.T, res *result) {
	res.count("http_cases", 1)
	srv, host := h.server()
	url := srv.arm(host, func(fam, n int) *genReply {
		if n == 0 {
			return h.R[fam]
		}
		return &genReply{Status: 500, Class: "unexpected-extra-request", Delivery: "full"}
	})
	defer srv.disarm()
	tr := tracker.New(url)
	col := newCollector()
	var pollStop atomic.Bool
	var pwg sync.WaitGroup
	if h.Race {
		pwg.Add(1)
		go func() {
			defer pwg.Done()
			for !pollStop.Load() {
				// GetState takes the tracker's lock: poll only once the
				// announce is under way, or it would be refused as not ready
				if srv.contacts() > 0 {
					tr.GetState()
				}
				runtime.Gosched()
			}
		}()
	}
	var ms0, ms1 runtime.MemStats
	runtime.ReadMemStats(&ms0)
	aerr, returned := announceGuarded(tr, context.Background(), col, 70*time.Second)
	runtime.ReadMemStats(&ms1)
	pollStop.Store(true)
	pwg.Wait()
	alloc := int64(ms1.TotalAlloc - ms0.TotalAlloc)
	if alloc > 64<<20 {
		debug.FreeOSMemory()
	}
	if !returned {
		res.Inconcl = "Announce did not return within the wall-clock guard"
		return
	}
	st, _ := tr.GetState()
	if aerr == tracker.ErrNotReady && srv.contacts() == 0 {
		res.count("http_refused_not_ready", 1)
		res.FP = vk.Hash64("http", "not-ready")
		return
	}
	log := srv.disarm()
	var served []*genReply
	seen := [2]int{}
	for _, l := range log {
		served = append(served, l.reply)
		seen[l.Fam]++
	}
	for _, f := range h.fams() {
		if seen[f] != 1 {
			res.Inconcl = fmt.Sprintf("fake tracker saw %d requests on family %d for one Announce", seen[f], f)
			return
		}
	}
	res.count("http_requests", int64(len(log)))
	learnt := col.set()
	res.count("http_peers_learnt", int64(len(learnt)))
	if aerr != nil {
		res.count("http_announce_error", 1)
	} else {
		res.count("http_announce_ok", 1)
	}
	rep := map[string]any{"spec": h.desc(), "learnt": apStrings(learnt, 30), "announce_err": fmt.Sprint(aerr)}
	for _, f := range h.fams() {
		rep[fmt.Sprintf("body%d_hex", 4+2*f)] = fmt.Sprintf("%x", clip(h.R[f].Body, 600))
	}
	outcomes := judgeHTTP(res, served, learnt, rep, true)
	// allocation bound (DESIGN §4): bytes allocated during the call <= 256 * reply bytes + C0
	replyBytes := int64(0)
	for _, g := range served {
		replyBytes += int64(len(g.Body))
	}
	bound := allocMul*replyBytes + allocC0
	if res.Max == nil {
		res.Max = map[string]int64{}
	}
	res.Max["max:alloc_bytes_one_announce"] = alloc
	if alloc > bound {
		// C15's statement has no memory clause (errors, exactly the encoded peers, no crash, no stuck
		// busy state, contact discipline), so an attacker-sized allocation in the bencode dependency is
		// only counted here; the per-message bound is judged where the statement has it (C04, C05).
		res.count("announces_above_alloc_bound_observed", 1)
	}
	if st == tracker.Busy {
		res.violation("stuck-busy", "stuck-busy http after="+errClass(aerr), "GetState()==Busy after Announce returned "+fmt.Sprint(aerr), rep)
	}
	sort.Strings(outcomes)
	var cls []string
	for _, g := range served {
		cls = append(cls, g.Class+"/"+g.Delivery)
	}
	sort.Strings(cls)
	res.FP = vk.Hash64("http", h.Net, cls, outcomes, aerr == nil)
	res.NT = len(served) > 0
}

// ---------- cancellation cases -------------------------------------------------

type cancelSpec struct {
	Net   string
	Other string // what the other family gets: "hold" or a class
	Seed  uint64
}

func genCancel(rng *rand.Rand, k int) spec {
	return &cancelSpec{Net: vk.Pick(rng, []string{"v4", "both", "v6"}), Other: vk.Pick(rng, []string{"hold", "valid-compact", "failure"}), Seed: rng.Uint64()}
}

func (c *cancelSpec) desc() map[string]any {
	return map[string]any{"family": "cancel", "net": c.Net, "other_family_reply": c.Other}
}
func (c *cancelSpec) crashClass() string { return "http cancel" }

func (c *cancelSpec) run(t *testing.T, res *result) {
	res.count("cancel_cases", 1)
	rng := rand.New(rand.NewPCG(c.Seed, 1))
	host := map[string]string{"v4": "127.0.0.1", "v6": "::1", "both": dualHost}[c.Net]
	holdFam := 0
	if c.Net == "v6" {
		holdFam = 1
	}
	var other *genReply
	if c.Other != "hold" {
		other = genHTTPReply(rng, c.Other)
		other.Delivery = "full"
	}
	url := srvBoth.arm(host, func(fam, n int) *genReply {
		if fam == holdFam || other == nil || n > 0 {
			return &genReply{Status: 200, Class: "hold", Delivery: "hold"}
		}
		return other
	})
	arrive := make(chan int, 8)
	srvBoth.mu.Lock()
	srvBoth.arrive = arrive
	srvBoth.mu.Unlock()
	defer srvBoth.disarm()
	tr := tracker.New(url)
	col := newCollector()
	ctx, cancel := context.WithCancel(context.Background())
	defer cancel()
	done := make(chan error, 1)
	go func() { done <- tr.Announce(ctx, testHash, testID, 50, 1<<30, 6881, 6881, "", col.f) }()
	want := 1
	if c.Net == "both" {
		want = 2
	}
	for got := 0; got < want; {
		select {
		case <-arrive:
			got++
		case <-time.After(20 * time.Second):
			res.Inconcl = "request did not reach the fake tracker within 20 s wall"
			cancel()
			return
		}
	}
	if st, _ := tr.GetState(); st == tracker.Busy {
		res.count("busy_seen_while_in_progress", 1)
	}
	cancel()
	var aerr error
	select {
	case aerr = <-done:
	case <-time.After(40 * time.Second):
		res.Inconcl = "Announce did not return within 40 s wall after its context was cancelled"
		return
	}
	st, _ := tr.GetState()
	log := srvBoth.disarm()
	var served []*genReply
	for _, l := range log {
		served = append(served, l.reply)
	}
	learnt := col.set()
	rep := map[string]any{"spec": c.desc(), "learnt": apStrings(learnt, 20), "announce_err": fmt.Sprint(aerr)}
	judgeHTTP(res, served, learnt, rep, false)
	if st == tracker.Busy {
		res.violation("stuck-busy", "stuck-busy http after-cancel", "GetState()==Busy after a cancelled Announce returned "+fmt.Sprint(aerr), rep)
	}
	res.count("cancel_returned", 1)
	res.FP = vk.Hash64("cancel", c.Net, c.Other, aerr == nil)
	res.NT = true
}

// ---------- announce schedules on the fake clock (bubble) ----------------------

type replyCfg struct {
	Kind  string   `json:"kind"`     // valid | failure | failure-retry | status | junk | udp-error | udp-wrong-action
	I     [2]int64 `json:"interval"` // per family
	Retry string   `json:"retry,omitempty"`
}

type schedSpec struct {
	Proto      string
	Net        string // v4 | both
	Cfgs       []replyCfg
	NSteps     int
	Concurrent bool
	Seed       uint64
}

var schedIntervals = []int64{-5, 0, 1, 59, 60, 61, 90, 120, 200, 299, 300, 301, 420, 600, 899, 900, 901, 1800, 3600, 86400, 1 << 31, 1 << 33, 1<<33 + 1}
var schedIntervalsUDP = []int64{0, 1, 59, 60, 61, 90, 120, 200, 299, 300, 301, 420, 600, 899, 900, 901, 1800, 3600, 86400, 1 << 31, 1<<32 - 1}

func genSched(rng *rand.Rand, k int, race bool) spec {
	s := &schedSpec{Seed: rng.Uint64()}
	s.Proto = []string{"http", "http", "udp"}[k%3]
	s.Net = []string{"v4", "both"}[rng.IntN(2)]
	s.Concurrent = race || rng.IntN(3) == 0
	if race {
		s.Net = "both"
	}
	n := 2 + rng.IntN(4)
	for j := 0; j < n; j++ {
		var c replyCfg
		pool := schedIntervals
		if s.Proto == "udp" {
			pool = schedIntervalsUDP
		}
		iv := vk.Pick(rng, pool)
		c.I = [2]int64{iv, iv}
		if rng.IntN(3) == 0 {
			c.I[1] = vk.Pick(rng, pool)
		}
		x := rng.IntN(10)
		if race {
			x = rng.IntN(14)
		}
		switch {
		case x < 6:
			c.Kind = "valid"
		case x == 6 && s.Proto == "http":
			c.Kind = "failure"
		case (x == 7 || x >= 10) && s.Proto == "http":
			c.Kind = "failure-retry"
			c.Retry = vk.Pick(rng, []string{"never", "1", "2", "4", "5", "6", "20", "0", "-1", "x", "16", "45", "120", "never"})
		case x == 8 && s.Proto == "http":
			c.Kind = "status"
		case x == 9 && s.Proto == "http":
			c.Kind = "junk"
		case s.Proto == "udp" && x%2 == 0:
			c.Kind = "udp-error"
		default:
			if s.Proto == "udp" {
				c.Kind = "udp-wrong-action"
			} else {
				c.Kind = "valid"
			}
		}
		s.Cfgs = append(s.Cfgs, c)
	}
	s.NSteps = 6 + rng.IntN(10)
	return s
}

func (s *schedSpec) desc() map[string]any {
	return map[string]any{"family": "sched", "proto": s.Proto, "net": s.Net, "reply_cfgs": s.Cfgs, "steps": s.NSteps, "concurrent": s.Concurrent}
}
func (s *schedSpec) crashClass() string { return "sched " + s.Proto }

func (c replyCfg) httpReply(fam int) *genReply {
	g := &genReply{Status: 200, Delivery: "full", Class: "sched-" + c.Kind, Ival: c.I[fam]}
	d := refwire.NewDict().Set("interval", c.I[fam]).Set("peers", []byte{})
	switch c.Kind {
	case "failure":
		d.Set("failure reason", []byte("no"))
	case "failure-retry":
		d.Set("failure reason", []byte("later")).Set("retry in", []byte(c.Retry))
	case "status":
		g.Status = 503
	case "junk":
		g.Body = []byte("d8:intervali")
		return g
	}
	g.Body = refwire.Benc(d)
	return g
}

type contact struct {
	VT    int64  `json:"vt_ns"`
	Fam   int    `json:"fam"`
	Kind  string `json:"reply"`
	Valid int64  `json:"valid_interval"` // >0 when the reply validly announced an interval
	Retry int64  `json:"retry_s"`        // >0 when the reply is a failure that validly says when to retry
}

// retryOf: the seconds a well-formed failure reply asks the client to stay away ("retry in": minutes, or
// "never", which is judged as one day only: far below what it says, far above any retry the client may invent).
func retryOf(g *genReply) int64 {
	if g == nil || g.Status != 200 || !deliveredFully(g.Delivery) {
		return 0
	}
	v, n, err := refwire.Bdec(g.Body, true)
	d, ok := v.(*refwire.Dict)
	if err != nil || !ok || n != len(g.Body) {
		return 0
	}
	if fr, ok := d.Bytes("failure reason"); !ok || len(fr) == 0 {
		return 0
	}
	ri, ok := d.Bytes("retry in")
	if !ok {
		return 0
	}
	if string(ri) == "never" {
		return 86400
	}
	if len(ri) == 0 || len(ri) > 5 {
		return 0
	}
	m := int64(0)
	for _, ch := range ri {
		if ch < '0' || ch > '9' {
			return 0
		}
		m = m*10 + int64(ch-'0')
	}
	return m * 60
}

type stepLog struct {
	Step      int      `json:"step"`
	VT        string   `json:"vt"`
	SinceLast string   `json:"since_last_contact,omitempty"`
	Action    string   `json:"action"`
	Errs      []string `json:"errs"`
	Contacts  int      `json:"contacts"`
	State     string   `json:"state_after"`
}

const maxTimedInterval = int64(1) << 33

func (s *schedSpec) run(t *testing.T, res *result) {
	res.count("sched_cases", 1)
	rng := rand.New(rand.NewPCG(s.Seed, 7))
	host := "127.0.0.1"
	if s.Net == "both" {
		host = dualHost
	}
	var url string
	var usrv *udpSrv
	var contacts func() []contact
	var setNow func(int64)
	cfgAt := func(att int) replyCfg { return s.Cfgs[att%len(s.Cfgs)] }
	if s.Proto == "http" {
		url = srvBoth.arm(host, func(fam, n int) *genReply { return cfgAt(n).httpReply(fam) })
		defer srvBoth.disarm()
		setNow = func(v int64) { srvBoth.vnow.Store(v) }
		contacts = func() []contact {
			srvBoth.mu.Lock()
			defer srvBoth.mu.Unlock()
			var out []contact
			for _, l := range srvBoth.log {
				out = append(out, contact{VT: l.VT, Fam: l.Fam, Kind: l.Class, Valid: judgeReply(l.reply).validIval, Retry: retryOf(l.reply)})
			}
			return out
		}
	} else {
		var err error
		usrv, err = newUDPSrv(s.Net, s.Seed)
		if err != nil {
			res.Inconcl = "cannot open fake UDP tracker: " + err.Error()
			return
		}
		usrv.ivalFor = func(fam, att int) (string, uint32) {
			c := cfgAt(att)
			kind := "valid"
			switch c.Kind {
			case "udp-error":
				kind = "error-action"
			case "udp-wrong-action":
				kind = "wrong-action"
			}
			return kind, uint32(c.I[fam])
		}
		usrv.start()
		defer usrv.close()
		url = usrv.url(s.Net)
		setNow = func(v int64) { usrv.vnow.Store(v) }
		contacts = func() []contact {
			usrv.mu.Lock()
			defer usrv.mu.Unlock()
			var out []contact
			for _, r := range usrv.sent {
				if r.Phase != 0 {
					continue
				}
				c := contact{VT: r.VT, Fam: r.Fam, Kind: "connect"}
				// the announce reply of the same attempt, if any
				for _, a := range usrv.sent {
					if a.Phase == 1 && a.Fam == r.Fam && a.VT == r.VT {
						c.Kind = a.Kind
						if a.Kind == "valid" && a.Ival > 0 {
							c.Valid = int64(a.Ival)
						}
					}
				}
				out = append(out, c)
			}
			return out
		}
	}
	tr := tracker.New(url)
	var steps []stepLog
	var busyViol string
	realNow := time.Now()
	nAnn, nReady, nNotReady := 0, 0, 0
	synctest.Test(t, func(t *testing.T) {
		time.Sleep(time.Until(realNow.Add(time.Hour)))
		col := newCollector()
		var lastContact time.Time
		haveContact := false
		seen := 0
		var lastCfg replyCfg
		for st := 0; st < s.NSteps; st++ {
			// choose the next instant relative to the last contact
			var gap time.Duration
			if !haveContact {
				gap = time.Duration(rng.IntN(3000)) * time.Millisecond
			} else {
				bases := []time.Duration{5 * time.Minute, 15 * time.Minute, 30 * time.Minute}
				for _, iv := range lastCfg.I {
					// the fake clock must stay below year 2262 (int64 ns): do not sleep decades
					if iv > 0 && iv <= 1<<27 {
						bases = append(bases, time.Duration(iv)*time.Second)
					}
				}
				if m, err := strconv.Atoi(lastCfg.Retry); err == nil && m > 0 && m < 10000 {
					bases = append(bases, time.Duration(m)*time.Minute)
				}
				var target time.Duration
				switch x := rng.IntN(10); {
				case x < 6:
					target = vk.Pick(rng, bases) + vk.Pick(rng, []time.Duration{-time.Second, 0, time.Second, -time.Nanosecond, time.Nanosecond})
				case x < 8:
					target = time.Duration(rng.Int64N(int64(vk.Pick(rng, bases)) + 1))
				default:
					target = vk.Pick(rng, bases) + time.Duration(rng.Int64N(int64(10*time.Minute)))
				}
				gap = target - time.Since(lastContact)
				if gap < 0 {
					gap = time.Duration(rng.IntN(120)) * time.Second
				}
			}
			if time.Now().Year() > 2180 {
				break
			}
			time.Sleep(gap)
			now := time.Now()
			setNow(now.UnixNano())
			action := "announce"
			x := rng.IntN(10)
			if s.Concurrent && x < 5 || x == 0 {
				action = "announce×2"
			} else if x == 1 {
				action = "getstate"
			}
			var errs []string
			switch action {
			case "announce", "announce×2":
				k := 1
				if action == "announce×2" {
					k = 2
				}
				var wg sync.WaitGroup
				errv := make([]error, k)
				var stop atomic.Bool
				if s.Concurrent {
					wg.Add(1)
					go func() {
						defer wg.Done()
						c0 := len(contacts())
						for !stop.Load() {
							if len(contacts()) > c0 {
								tr.GetState()
							}
							runtime.Gosched()
						}
					}()
				}
				var awg sync.WaitGroup
				for j := 0; j < k; j++ {
					awg.Add(1)
					go func(j int) {
						defer awg.Done()
						errv[j] = tr.Announce(context.Background(), testHash, testID, 50, 1<<30, 6881, 6881, "", col.f)
					}(j)
				}
				awg.Wait()
				stop.Store(true)
				wg.Wait()
				for _, e := range errv {
					nAnn++
					if e == tracker.ErrNotReady {
						nNotReady++
					}
					errs = append(errs, fmt.Sprint(e))
				}
			}
			state, _ := tr.GetState()
			cs := contacts()
			sl := stepLog{Step: st, VT: now.UTC().Format("2006-01-02T15:04:05.000000000"), Action: action, Errs: errs, Contacts: len(cs) - seen, State: state.String()}
			if haveContact {
				sl.SinceLast = now.Sub(lastContact).String()
			}
			if len(cs) > seen {
				// which reply configuration this contact got (steering only)
				att := 0
				for _, c := range cs[:seen] {
					if c.Fam == cs[seen].Fam {
						att++
					}
				}
				lastCfg = cfgAt(att)
				lastContact = now
				haveContact = true
				seen = len(cs)
				nReady++
			}
			steps = append(steps, sl)
			if state == tracker.Busy && busyViol == "" {
				busyViol = fmt.Sprintf("GetState()==Busy at step %d after %s returned %v, no call in progress", st, action, errs)
			}
		}
	})
	cs := contacts()
	res.count("sched_announce_calls", int64(nAnn))
	res.count("sched_contacting_attempts", int64(nReady))
	res.count("sched_not_ready_returns", int64(nNotReady))
	res.count("sched_requests_seen", int64(len(cs)))
	rep := map[string]any{"spec": s.desc(), "steps": steps, "contacts": cs}
	if busyViol != "" {
		res.violation("stuck-busy", "stuck-busy "+s.Proto+" sched", busyViol, rep)
	}
	// the contact rule, on the fake tracker's own log
	type inst struct {
		vt     int64
		perFam [2]int
		valid  []int64
		retry  []int64
		kinds  []string
	}
	var insts []*inst
	for _, c := range cs {
		if len(insts) == 0 || insts[len(insts)-1].vt != c.VT {
			insts = append(insts, &inst{vt: c.VT})
		}
		in := insts[len(insts)-1]
		in.perFam[c.Fam]++
		in.kinds = append(in.kinds, c.Kind)
		if c.Valid > 0 {
			in.valid = append(in.valid, c.Valid)
		}
		if c.Retry > 0 {
			in.retry = append(in.retry, c.Retry)
		}
	}
	boundary := 0
	for k, in := range insts {
		lastClass := func(p *inst) string {
			if len(p.valid) == 0 {
				if len(p.retry) > 0 && len(p.retry) == len(p.kinds) {
					return "failure-retry-in"
				}
				return "no-valid-interval"
			}
			m := p.valid[0]
			for _, v := range p.valid {
				if v < m {
					m = v
				}
			}
			switch {
			case m <= 60:
				return "valid-interval<=60s"
			case m < 300:
				return "valid-interval<5m"
			default:
				return "valid-interval>=5m"
			}
		}
		if in.perFam[0] > 1 || in.perFam[1] > 1 {
			res.violation("early-contact", "early-contact "+s.Proto+" twice-at-one-instant", fmt.Sprintf("the fake tracker was contacted %v times (per family) at the same virtual instant: two announces ran back to back", in.perFam), rep)
			break
		}
		if k == 0 {
			continue
		}
		p := insts[k-1]
		bound := int64(300)
		excluded := false
		if len(p.valid) > 0 {
			m := p.valid[0]
			for _, v := range p.valid {
				if v < m {
					m = v
				}
			}
			if m > maxTimedInterval {
				excluded = true
			}
			if m > bound {
				bound = m
			}
		}
		if len(p.valid) == 0 && len(p.retry) > 0 && len(p.retry) == len(p.kinds) {
			// every reply to the previous contact was a failure naming a retry time: that is the interval
			// the tracker announced (the smallest, if the two address families disagree)
			m := p.retry[0]
			for _, v := range p.retry {
				if v < m {
					m = v
				}
			}
			if m > bound {
				bound = m
			}
			res.count("sched_gaps_after_retry_in", 1)
		}
		if excluded {
			res.count("sched_gaps_excluded_huge_interval", 1)
			continue
		}
		res.count("sched_gaps_judged", 1)
		elapsed := in.vt - p.vt // ns
		if float64(elapsed) < float64(bound)*1e9 {
			res.violation("early-contact", "early-contact "+s.Proto+" last="+lastClass(p), fmt.Sprintf("contact %s after the previous one, which announced valid intervals %v s / retry times %v s (replies %v): earlier than max(5 min, interval) = %d s", time.Duration(elapsed), p.valid, p.retry, p.kinds, bound), rep)
			break
		}
		if float64(elapsed) < float64(bound)*1e9+2e9+float64(10*time.Minute) {
			boundary++
		}
	}
	res.count("sched_contacts_near_bound", int64(boundary))
	var ks []string
	for _, c := range s.Cfgs {
		ks = append(ks, c.Kind)
	}
	res.FP = vk.Hash64("sched", s.Proto, s.Net, s.Concurrent, ks, len(insts), nNotReady > 0)
	res.NT = len(insts) >= 2 && nNotReady > 0
}
