// C06: emitted messages round-trip and match an independent BitTorrent codec.
//
// Every case takes one abstract message value `am` (the harness' own
// description of a message, independent of storrent's types) and runs the
// real protocol.Write / protocol.Read under four oracles:
//
//	(1) roundtrip        Read(Write(m)) == m field-wise, the frame is consumed
//	                     exactly (the next Read reports io.EOF)
//	(2) ref-decode       refwire.Decode(Write(m)) succeeds strictly, consumes the
//	                     whole output and yields the same id / fields; extended
//	                     payloads are canonical bencode carrying the same values
//	                     (refwire.ParseExt0 / ParsePex / ParseMeta); fixed-format
//	                     messages are byte-identical to refwire.Encode
//	(3) ref-encode-read  Read(refwire.Encode(m')) == m for the refwire-side
//	                     construction m' of the same message
//	(4) stream           1..50 written messages, concatenated and delivered in
//	                     chosen cuts below a bufio.Reader, decode to the same
//	                     sequence and then to io.EOF
//
// Normal forms (documented, not flagged): empty byte strings / maps / peer lists
// compare equal to nil; PEX lists compare as "IPv4 entries in order, then IPv6
// entries in order"; flags of dropped peers are not on the wire; the reader
// reports its own sub-ids (ExtPex/ExtMetadata/ExtDontHave), so oracle (1) writes
// with those and oracle (2) writes with an arbitrary non-zero sub-id.
package c06

import (
	"bufio"
	"bytes"
	"encoding/binary"
	"fmt"
	"io"
	"math/rand/v2"
	"net/netip"
	"reflect"
	"runtime/debug"
	"sort"
	"testing"

	"github.com/jech/storrent/pex"
	"github.com/jech/storrent/protocol"
	"verifharness/refwire"
	"verifharness/vk"
)

const frameCap = 1024 * 1024

type peer struct {
	Addr  netip.AddrPort
	Flags byte
}

// am is the abstract message.
type am struct {
	Kind                 string
	Index, Begin, Length uint32
	Port                 uint16
	Data                 []byte // bitfield, block, metadata payload
	NilForm              bool   // hand empty Data / M / lists to the writer as nil instead of empty

	// Extended0
	Version        string
	ReqQ, MetaSize uint32
	IPv4, IPv6     netip.Addr
	M              map[string]uint8
	UploadOnly     bool
	Encrypt        bool

	// ExtendedMetadata
	MType     uint8
	TotalSize uint32

	// ExtendedPex
	Added, Dropped []peer

	// streams only: written under this sub-id (the number a remote chose for the extension, as storrent
	// does when it sends); storrent's own reader knows no such number and must hand back ExtendedUnknown
	// with exactly this frame skipped
	Foreign uint8
}

var kinds = []string{"KeepAlive", "Choke", "Unchoke", "Interested", "NotInterested", "Have", "Bitfield",
	"Request", "Piece", "Cancel", "Port", "SuggestPiece", "HaveAll", "HaveNone", "RejectRequest",
	"AllowedFast", "Extended0", "ExtendedMetadata", "ExtendedPex", "ExtendedDontHave"}

func ownSub(kind string) uint8 {
	switch kind {
	case "ExtendedPex":
		return protocol.ExtPex
	case "ExtendedMetadata":
		return protocol.ExtMetadata
	case "ExtendedDontHave":
		return protocol.ExtDontHave
	}
	return 0
}

func isExt(kind string) bool { return ownSub(kind) != 0 }

func cp(b []byte, nilForm bool) []byte {
	if len(b) == 0 {
		if nilForm {
			return nil
		}
		return []byte{}
	}
	return append([]byte(nil), b...)
}

func toPex(l []peer, nilForm bool) []pex.Peer {
	if len(l) == 0 && nilForm {
		return nil
	}
	out := make([]pex.Peer, 0, len(l))
	for _, p := range l {
		out = append(out, pex.Peer{Addr: p.Addr, Flags: p.Flags})
	}
	return out
}

// toStorrent builds a fresh storrent message value (fresh buffers: the writer
// keeps / pools what it is given).
func toStorrent(a *am, sub uint8) protocol.Message {
	switch a.Kind {
	case "KeepAlive":
		return protocol.KeepAlive{}
	case "Choke":
		return protocol.Choke{}
	case "Unchoke":
		return protocol.Unchoke{}
	case "Interested":
		return protocol.Interested{}
	case "NotInterested":
		return protocol.NotInterested{}
	case "HaveAll":
		return protocol.HaveAll{}
	case "HaveNone":
		return protocol.HaveNone{}
	case "Have":
		return protocol.Have{Index: a.Index}
	case "SuggestPiece":
		return protocol.SuggestPiece{Index: a.Index}
	case "AllowedFast":
		return protocol.AllowedFast{Index: a.Index}
	case "Bitfield":
		return protocol.Bitfield{Bitfield: cp(a.Data, a.NilForm)}
	case "Request":
		return protocol.Request{Index: a.Index, Begin: a.Begin, Length: a.Length}
	case "Cancel":
		return protocol.Cancel{Index: a.Index, Begin: a.Begin, Length: a.Length}
	case "RejectRequest":
		return protocol.RejectRequest{Index: a.Index, Begin: a.Begin, Length: a.Length}
	case "Piece":
		buf := protocol.GetBuffer(len(a.Data)) // Write hands it to PutBuffer
		copy(buf, a.Data)
		return protocol.Piece{Index: a.Index, Begin: a.Begin, Data: buf}
	case "Port":
		return protocol.Port{Port: a.Port}
	case "Extended0":
		var m map[string]uint8
		if len(a.M) > 0 || !a.NilForm {
			m = make(map[string]uint8, len(a.M))
			for k, v := range a.M {
				m[k] = v
			}
		}
		return protocol.Extended0{Version: a.Version, Port: a.Port, ReqQ: a.ReqQ, IPv4: a.IPv4, IPv6: a.IPv6,
			MetadataSize: a.MetaSize, Messages: m, UploadOnly: a.UploadOnly, Encrypt: a.Encrypt}
	case "ExtendedMetadata":
		return protocol.ExtendedMetadata{Subtype: sub, Type: a.MType, Piece: a.Index, TotalSize: a.TotalSize, Data: cp(a.Data, a.NilForm)}
	case "ExtendedPex":
		return protocol.ExtendedPex{Subtype: sub, Added: toPex(a.Added, a.NilForm), Dropped: toPex(a.Dropped, a.NilForm)}
	case "ExtendedDontHave":
		return protocol.ExtendedDontHave{Subtype: sub, Index: a.Index}
	}
	panic("harness: kind " + a.Kind)
}

// split partitions a peer list in the wire normal form: IPv4 entries in
// order, then IPv6 entries in order.  An entry is "IPv4" iff its address is a
// 4-byte address (an IPv4-mapped IPv6 address is a 16-byte address and BEP 11
// does not forbid it in added6).
func split(l []peer) (v4, v6 []peer) {
	for _, p := range l {
		if p.Addr.Addr().Is4() {
			v4 = append(v4, p)
		} else {
			v6 = append(v6, p)
		}
	}
	return
}

func normal(l []peer) []peer {
	a, b := split(l)
	return append(a, b...)
}

func diffPeers(what string, want []peer, got []pex.Peer, flags bool) string {
	if len(want) != len(got) {
		return fmt.Sprintf("%s: %d peers, want %d", what, len(got), len(want))
	}
	for i := range want {
		if want[i].Addr != got[i].Addr {
			return fmt.Sprintf("%s[%d]: address %v, want %v", what, i, got[i].Addr, want[i].Addr)
		}
		if flags && want[i].Flags != got[i].Flags {
			return fmt.Sprintf("%s[%d] (%v): flags %#x, want %#x", what, i, want[i].Addr, got[i].Flags, want[i].Flags)
		}
	}
	return ""
}

func typeName(m protocol.Message) string {
	if m == nil {
		return "nil"
	}
	return reflect.TypeOf(m).Name()
}

// diffStorrent compares what storrent's reader returned with the abstract
// message; "" means equal modulo the normal forms.
func diffStorrent(a *am, got protocol.Message) string {
	if a.Foreign != 0 {
		if g, ok := got.(protocol.ExtendedUnknown); !ok || g.Subtype != a.Foreign {
			return fmt.Sprintf("%s written under the foreign sub-id %d decoded as %s %+v, want ExtendedUnknown{%d}", a.Kind, a.Foreign, typeName(got), got, a.Foreign)
		}
		return ""
	}
	if typeName(got) != a.Kind {
		return fmt.Sprintf("decoded as %s, want %s", typeName(got), a.Kind)
	}
	three := func(i, b, l uint32) string {
		if i != a.Index || b != a.Begin || l != a.Length {
			return fmt.Sprintf("(index,begin,length)=(%d,%d,%d), want (%d,%d,%d)", i, b, l, a.Index, a.Begin, a.Length)
		}
		return ""
	}
	one := func(i uint32) string {
		if i != a.Index {
			return fmt.Sprintf("index=%d, want %d", i, a.Index)
		}
		return ""
	}
	switch g := got.(type) {
	case protocol.KeepAlive, protocol.Choke, protocol.Unchoke, protocol.Interested, protocol.NotInterested, protocol.HaveAll, protocol.HaveNone:
		return ""
	case protocol.Have:
		return one(g.Index)
	case protocol.SuggestPiece:
		return one(g.Index)
	case protocol.AllowedFast:
		return one(g.Index)
	case protocol.Request:
		return three(g.Index, g.Begin, g.Length)
	case protocol.Cancel:
		return three(g.Index, g.Begin, g.Length)
	case protocol.RejectRequest:
		return three(g.Index, g.Begin, g.Length)
	case protocol.Bitfield:
		if !bytes.Equal(g.Bitfield, a.Data) {
			return fmt.Sprintf("bitfield of %d bytes differs (want %d bytes)", len(g.Bitfield), len(a.Data))
		}
		return ""
	case protocol.Piece:
		if g.Index != a.Index || g.Begin != a.Begin {
			return fmt.Sprintf("(index,begin)=(%d,%d), want (%d,%d)", g.Index, g.Begin, a.Index, a.Begin)
		}
		if !bytes.Equal(g.Data, a.Data) {
			return fmt.Sprintf("block of %d bytes differs (want %d bytes)", len(g.Data), len(a.Data))
		}
		return ""
	case protocol.Port:
		if g.Port != a.Port {
			return fmt.Sprintf("port=%d, want %d", g.Port, a.Port)
		}
		return ""
	case protocol.Extended0:
		if g.Version != a.Version {
			return fmt.Sprintf("v=%q, want %q", g.Version, a.Version)
		}
		if g.Port != a.Port {
			return fmt.Sprintf("p=%d, want %d", g.Port, a.Port)
		}
		if g.ReqQ != a.ReqQ {
			return fmt.Sprintf("reqq=%d, want %d", g.ReqQ, a.ReqQ)
		}
		if g.MetadataSize != a.MetaSize {
			return fmt.Sprintf("metadata_size=%d, want %d", g.MetadataSize, a.MetaSize)
		}
		if g.IPv4 != a.IPv4 {
			return fmt.Sprintf("ipv4=%v, want %v", g.IPv4, a.IPv4)
		}
		if g.IPv6 != a.IPv6 {
			return fmt.Sprintf("ipv6=%v, want %v", g.IPv6, a.IPv6)
		}
		if g.UploadOnly != a.UploadOnly {
			return fmt.Sprintf("upload_only=%v, want %v", g.UploadOnly, a.UploadOnly)
		}
		if g.Encrypt != a.Encrypt {
			return fmt.Sprintf("e=%v, want %v", g.Encrypt, a.Encrypt)
		}
		if len(g.Messages) != len(a.M) {
			return fmt.Sprintf("m has %d entries, want %d", len(g.Messages), len(a.M))
		}
		for k, v := range a.M {
			if gv, ok := g.Messages[k]; !ok || gv != v {
				return fmt.Sprintf("m[%q]=%d (present=%v), want %d", k, gv, ok, v)
			}
		}
		return ""
	case protocol.ExtendedMetadata:
		if g.Subtype != protocol.ExtMetadata {
			return fmt.Sprintf("subtype=%d, want the reader's own id %d", g.Subtype, protocol.ExtMetadata)
		}
		if g.Type != a.MType || g.Piece != a.Index || g.TotalSize != a.TotalSize {
			return fmt.Sprintf("(msg_type,piece,total_size)=(%d,%d,%d), want (%d,%d,%d)", g.Type, g.Piece, g.TotalSize, a.MType, a.Index, a.TotalSize)
		}
		if !bytes.Equal(g.Data, a.Data) {
			return fmt.Sprintf("metadata payload of %d bytes differs (want %d bytes)", len(g.Data), len(a.Data))
		}
		return ""
	case protocol.ExtendedPex:
		if g.Subtype != protocol.ExtPex {
			return fmt.Sprintf("subtype=%d, want the reader's own id %d", g.Subtype, protocol.ExtPex)
		}
		if d := diffPeers("added", normal(a.Added), g.Added, true); d != "" {
			return d
		}
		return diffPeers("dropped", normal(a.Dropped), g.Dropped, false)
	case protocol.ExtendedDontHave:
		if g.Subtype != protocol.ExtDontHave {
			return fmt.Sprintf("subtype=%d, want the reader's own id %d", g.Subtype, protocol.ExtDontHave)
		}
		return one(g.Index)
	}
	return "unexpected type " + typeName(got)
}

func release(m protocol.Message) {
	if p, ok := m.(protocol.Piece); ok && p.Data != nil {
		protocol.PutBuffer(p.Data)
	}
}

// ---- refwire side ----------------------------------------------------------

func i64(v int64) *int64 { return &v }

func b2i(b bool) int64 {
	if b {
		return 1
	}
	return 0
}

func refPeers(l []peer) (out []refwire.PexPeer) {
	for _, p := range l {
		out = append(out, refwire.PexPeer{Addr: p.Addr, Flags: p.Flags})
	}
	return
}

func refAddrs(l []peer) (out []netip.AddrPort) {
	for _, p := range l {
		out = append(out, p.Addr)
	}
	return
}

// refMsg is the refwire-side construction of the same message.  explicit
// additionally spells out zero-valued optional fields (p=0, v="", m={} ...),
// which an independent implementation may legitimately send.
func refMsg(a *am, sub uint8, explicit bool) refwire.Msg {
	switch a.Kind {
	case "KeepAlive":
		return refwire.Msg{Kind: refwire.KKeepAlive}
	case "Choke":
		return refwire.Msg{Kind: refwire.KChoke}
	case "Unchoke":
		return refwire.Msg{Kind: refwire.KUnchoke}
	case "Interested":
		return refwire.Msg{Kind: refwire.KInterested}
	case "NotInterested":
		return refwire.Msg{Kind: refwire.KNotInterested}
	case "HaveAll":
		return refwire.Msg{Kind: refwire.KHaveAll}
	case "HaveNone":
		return refwire.Msg{Kind: refwire.KHaveNone}
	case "Have":
		return refwire.Msg{Kind: refwire.KHave, Index: a.Index}
	case "SuggestPiece":
		return refwire.Msg{Kind: refwire.KSuggest, Index: a.Index}
	case "AllowedFast":
		return refwire.Msg{Kind: refwire.KAllowedFast, Index: a.Index}
	case "Bitfield":
		return refwire.Msg{Kind: refwire.KBitfield, Data: a.Data}
	case "Request":
		return refwire.Msg{Kind: refwire.KRequest, Index: a.Index, Begin: a.Begin, Length: a.Length}
	case "Cancel":
		return refwire.Msg{Kind: refwire.KCancel, Index: a.Index, Begin: a.Begin, Length: a.Length}
	case "RejectRequest":
		return refwire.Msg{Kind: refwire.KReject, Index: a.Index, Begin: a.Begin, Length: a.Length}
	case "Piece":
		return refwire.Msg{Kind: refwire.KPiece, Index: a.Index, Begin: a.Begin, Data: a.Data}
	case "Port":
		return refwire.Msg{Kind: refwire.KPort, Port: a.Port}
	case "Extended0":
		var e refwire.Ext0
		if len(a.M) > 0 || explicit {
			e.M = map[string]int64{}
			for k, v := range a.M {
				e.M[k] = int64(v)
			}
		}
		if a.Version != "" || explicit {
			v := a.Version
			e.V = &v
		}
		if a.Port != 0 || explicit {
			e.P = i64(int64(a.Port))
		}
		if a.ReqQ != 0 || explicit {
			e.ReqQ = i64(int64(a.ReqQ))
		}
		if a.MetaSize != 0 || explicit {
			e.MetadataSize = i64(int64(a.MetaSize))
		}
		if a.IPv4.IsValid() {
			x := a.IPv4.As4()
			e.IPv4 = x[:]
		}
		if a.IPv6.IsValid() {
			x := a.IPv6.As16()
			e.IPv6 = x[:]
		}
		if a.UploadOnly || explicit {
			e.UploadOnly = i64(b2i(a.UploadOnly))
		}
		if a.Encrypt || explicit {
			e.E = i64(b2i(a.Encrypt))
		}
		return refwire.Msg{Kind: refwire.KExtended, Sub: 0, Data: e.Payload()}
	case "ExtendedMetadata":
		m := refwire.Meta{Type: int64(a.MType), Piece: int64(a.Index), Data: a.Data}
		if a.TotalSize != 0 || explicit {
			m.TotalSize = i64(int64(a.TotalSize))
		}
		return refwire.Msg{Kind: refwire.KExtended, Sub: sub, Data: m.Payload()}
	case "ExtendedPex":
		a4, a6 := split(a.Added)
		d4, d6 := split(a.Dropped)
		p := refwire.Pex{Added4: refPeers(a4), Added6: refPeers(a6), Dropped4: refAddrs(d4), Dropped6: refAddrs(d6)}
		return refwire.Msg{Kind: refwire.KExtended, Sub: sub, Data: p.Payload()}
	case "ExtendedDontHave":
		return refwire.Msg{Kind: refwire.KExtended, Sub: sub, Data: binary.BigEndian.AppendUint32(nil, a.Index)}
	}
	panic("harness: kind " + a.Kind)
}

func optEq(p *int64, want int64) bool {
	if p == nil {
		return want == 0
	}
	return *p == want
}

func optStr(p *int64) string {
	if p == nil {
		return "absent"
	}
	return fmt.Sprint(*p)
}

func diffRefPeers(what string, want []peer, got []refwire.PexPeer) string {
	if len(want) != len(got) {
		return fmt.Sprintf("%s: %d peers, want %d", what, len(got), len(want))
	}
	for i := range want {
		if want[i].Addr != got[i].Addr {
			return fmt.Sprintf("%s[%d]: address %v, want %v", what, i, got[i].Addr, want[i].Addr)
		}
		if want[i].Flags != got[i].Flags {
			return fmt.Sprintf("%s[%d] (%v): flags %#x, want %#x", what, i, want[i].Addr, got[i].Flags, want[i].Flags)
		}
	}
	return ""
}

func diffRefAddrs(what string, want []peer, got []netip.AddrPort) string {
	if len(want) != len(got) {
		return fmt.Sprintf("%s: %d peers, want %d", what, len(got), len(want))
	}
	for i := range want {
		if want[i].Addr != got[i] {
			return fmt.Sprintf("%s[%d]: address %v, want %v", what, i, got[i], want[i].Addr)
		}
	}
	return ""
}

// diffRef judges the bytes storrent wrote with the independent codec.
func diffRef(a *am, sub uint8, wire []byte) string {
	rm, n, err := refwire.Decode(wire)
	if err != nil {
		return "refwire.Decode: " + err.Error()
	}
	if n != len(wire) {
		return fmt.Sprintf("frame occupies %d of the %d bytes written", n, len(wire))
	}
	want := refMsg(a, sub, false)
	if rm.Kind != want.Kind {
		return fmt.Sprintf("message id %d decodes as %s, want %s", rm.ID, rm.Kind, want.Kind)
	}
	if rm.Kind != refwire.KExtended {
		if rm.Index != want.Index || rm.Begin != want.Begin || rm.Length != want.Length || rm.Port != want.Port {
			return fmt.Sprintf("fields (index,begin,length,port)=(%d,%d,%d,%d), want (%d,%d,%d,%d)", rm.Index, rm.Begin, rm.Length, rm.Port, want.Index, want.Begin, want.Length, want.Port)
		}
		if !bytes.Equal(rm.Data, want.Data) {
			return fmt.Sprintf("payload of %d bytes differs (want %d bytes)", len(rm.Data), len(want.Data))
		}
		if enc := refwire.Encode(want); !bytes.Equal(enc, wire) {
			return fmt.Sprintf("bytes differ from the reference encoding (%d vs %d bytes)", len(wire), len(enc))
		}
		return ""
	}
	if rm.Sub != sub {
		return fmt.Sprintf("extended sub-id %d on the wire, want %d", rm.Sub, sub)
	}
	switch a.Kind {
	case "ExtendedDontHave":
		if !bytes.Equal(rm.Data, want.Data) {
			return fmt.Sprintf("lt_donthave payload %x, want %x", rm.Data, want.Data)
		}
	case "Extended0":
		e, err := refwire.ParseExt0(rm.Data)
		if err != nil {
			return "extension handshake: " + err.Error()
		}
		if len(e.M) != len(a.M) {
			return fmt.Sprintf("m has %d entries, want %d", len(e.M), len(a.M))
		}
		for k, v := range a.M {
			if gv, ok := e.M[k]; !ok || gv != int64(v) {
				return fmt.Sprintf("m[%q]=%d (present=%v), want %d", k, gv, ok, v)
			}
		}
		if (e.V == nil && a.Version != "") || (e.V != nil && *e.V != a.Version) {
			return fmt.Sprintf("v differs, want %q", a.Version)
		}
		if !optEq(e.P, int64(a.Port)) {
			return fmt.Sprintf("p=%s, want %d", optStr(e.P), a.Port)
		}
		if !optEq(e.ReqQ, int64(a.ReqQ)) {
			return fmt.Sprintf("reqq=%s, want %d", optStr(e.ReqQ), a.ReqQ)
		}
		if !optEq(e.MetadataSize, int64(a.MetaSize)) {
			return fmt.Sprintf("metadata_size=%s, want %d", optStr(e.MetadataSize), a.MetaSize)
		}
		if !optEq(e.UploadOnly, b2i(a.UploadOnly)) {
			return fmt.Sprintf("upload_only=%s, want %d", optStr(e.UploadOnly), b2i(a.UploadOnly))
		}
		if !optEq(e.E, b2i(a.Encrypt)) {
			return fmt.Sprintf("e=%s, want %d", optStr(e.E), b2i(a.Encrypt))
		}
		var w4, w6 []byte
		if a.IPv4.IsValid() {
			x := a.IPv4.As4()
			w4 = x[:]
		}
		if a.IPv6.IsValid() {
			x := a.IPv6.As16()
			w6 = x[:]
		}
		if !bytes.Equal(e.IPv4, w4) || (e.IPv4 == nil) != (w4 == nil) {
			return fmt.Sprintf("ipv4=%x, want %x", e.IPv4, w4)
		}
		if !bytes.Equal(e.IPv6, w6) || (e.IPv6 == nil) != (w6 == nil) {
			return fmt.Sprintf("ipv6=%x, want %x", e.IPv6, w6)
		}
	case "ExtendedMetadata":
		m, err := refwire.ParseMeta(rm.Data)
		if err != nil {
			return "ut_metadata: " + err.Error()
		}
		if m.Type != int64(a.MType) || m.Piece != int64(a.Index) || !optEq(m.TotalSize, int64(a.TotalSize)) {
			return fmt.Sprintf("(msg_type,piece,total_size)=(%d,%d,%s), want (%d,%d,%d)", m.Type, m.Piece, optStr(m.TotalSize), a.MType, a.Index, a.TotalSize)
		}
		if !bytes.Equal(m.Data, a.Data) {
			return fmt.Sprintf("metadata payload of %d bytes differs (want %d bytes)", len(m.Data), len(a.Data))
		}
	case "ExtendedPex":
		p, err := refwire.ParsePex(rm.Data)
		if err != nil {
			return "ut_pex: " + err.Error()
		}
		a4, a6 := split(a.Added)
		d4, d6 := split(a.Dropped)
		if d := diffRefPeers("added", a4, p.Added4); d != "" {
			return d
		}
		if d := diffRefPeers("added6", a6, p.Added6); d != "" {
			return d
		}
		if d := diffRefAddrs("dropped", d4, p.Dropped4); d != "" {
			return d
		}
		if d := diffRefAddrs("dropped6", d6, p.Dropped6); d != "" {
			return d
		}
	}
	return ""
}

// ---- running the real code -------------------------------------------------

// write runs protocol.Write on a fresh bufio.Writer (storrent's default size).
func write(ms ...protocol.Message) ([]byte, error) {
	var buf bytes.Buffer
	w := bufio.NewWriter(&buf)
	for _, m := range ms {
		if err := protocol.Write(w, m, nil); err != nil {
			return nil, err
		}
	}
	if err := w.Flush(); err != nil {
		return nil, err
	}
	return buf.Bytes(), nil
}

// readOne decodes exactly one message from b and demands io.EOF afterwards.
func readOne(b []byte) (protocol.Message, string) {
	r := bufio.NewReader(bytes.NewReader(b))
	m, err := protocol.Read(r, nil)
	if err != nil {
		return nil, "protocol.Read: " + err.Error()
	}
	if m == nil {
		return nil, "protocol.Read returned (nil, nil)"
	}
	m2, err2 := protocol.Read(r, nil)
	if err2 != io.EOF {
		release(m2)
		return m, fmt.Sprintf("after the message the reader did not report io.EOF but (%s, %v): the frame was not consumed exactly", typeName(m2), err2)
	}
	return m, ""
}

func clip(b []byte, n int) []byte {
	if len(b) > n {
		return b[:n]
	}
	return b
}

func sizeClass(n int) string {
	switch {
	case n == 0:
		return "0"
	case n <= 40:
		return "<=40"
	case n < 1<<14:
		return "<16k"
	case n == 1<<14:
		return "16k"
	case n <= 1<<16:
		return "<=64k"
	case n < frameCap-64:
		return "<cap"
	default:
		return "~cap"
	}
}

func payloadLen(a *am) int {
	switch a.Kind {
	case "ExtendedPex":
		return len(a.Added) + len(a.Dropped)
	case "Extended0":
		return len(a.M) + len(a.Version)
	}
	return len(a.Data)
}

type mdesc struct {
	Family  string `json:"family"`
	Kind    string `json:"kind"`
	Index   uint32 `json:"index"`
	Begin   uint32 `json:"begin"`
	Length  uint32 `json:"length"`
	Port    uint16 `json:"port"`
	Payload int    `json:"payload"`
	Sub     uint8  `json:"ref_sub"`
	Extra   string `json:"extra,omitempty"`
}

func describe(family string, a *am, sub uint8) *mdesc {
	d := &mdesc{Family: family, Kind: a.Kind, Index: a.Index, Begin: a.Begin, Length: a.Length, Port: a.Port, Payload: payloadLen(a), Sub: sub}
	switch a.Kind {
	case "Extended0":
		keys := make([]string, 0, len(a.M))
		for k := range a.M {
			keys = append(keys, k)
		}
		sort.Strings(keys)
		if len(keys) > 6 {
			keys = keys[:6]
		}
		d.Extra = fmt.Sprintf("v=%q reqq=%d msize=%d ipv4=%v ipv6=%v uo=%v e=%v m(%d)=%q", clipS(a.Version, 40), a.ReqQ, a.MetaSize, a.IPv4, a.IPv6, a.UploadOnly, a.Encrypt, len(a.M), keys)
	case "ExtendedMetadata":
		d.Extra = fmt.Sprintf("msg_type=%d total_size=%d", a.MType, a.TotalSize)
	case "ExtendedPex":
		a4, a6 := split(a.Added)
		d4, d6 := split(a.Dropped)
		d.Extra = fmt.Sprintf("added4=%d added6=%d dropped4=%d dropped6=%d", len(a4), len(a6), len(d4), len(d6))
	}
	return d
}

func clipS(s string, n int) string {
	if len(s) > n {
		return s[:n]
	}
	return s
}

// checkMessage runs oracles (1)-(3) on one abstract message.
func checkMessage(c *vk.C, a *am, refSub uint8) {
	c.Count("messages", 1)
	c.Count("kind:"+a.Kind, 1)
	c.R.Max("max:payload_bytes", int64(len(a.Data)))
	rep := func(wire []byte) map[string]any {
		return map[string]any{"wire_hex_prefix": fmt.Sprintf("%x", clip(wire, 256)), "wire_len": len(wire), "message": describe("", a, refSub)}
	}
	outcome := "ok"

	// (1) storrent writes with its own sub-ids, storrent reads
	own := ownSub(a.Kind)
	wire, err := write(toStorrent(a, own))
	if err != nil {
		c.Violation("roundtrip", "roundtrip-write "+a.Kind, "protocol.Write failed: "+err.Error(), rep(nil))
		return
	}
	c.Count("bytes_written", int64(len(wire)))
	got, why := readOne(wire)
	if why == "" {
		why = diffStorrent(a, got)
	}
	release(got)
	if why != "" {
		outcome = "roundtrip"
		c.Violation("roundtrip", "roundtrip "+a.Kind, "Read(Write(m)) != m: "+why, rep(wire))
	} else {
		c.Count("roundtrip_ok", 1)
	}

	// (2) the bytes, judged by the independent codec (arbitrary non-zero sub-id for extended messages)
	wire2 := wire
	if isExt(a.Kind) && refSub != own {
		wire2, err = write(toStorrent(a, refSub))
		if err != nil {
			c.Violation("ref-decode", "ref-decode-write "+a.Kind, "protocol.Write failed: "+err.Error(), rep(nil))
			return
		}
	}
	if !isExt(a.Kind) {
		refSub = 0
	}
	if why := diffRef(a, refSub, wire2); why != "" {
		outcome = "ref-decode"
		c.Violation("ref-decode", "ref-decode "+a.Kind, "independent codec disagrees with the bytes written: "+why, rep(wire2))
	} else {
		c.Count("ref_decode_ok", 1)
	}

	// (3) the independent codec writes (two spellings), storrent reads
	for _, explicit := range []bool{false, true} {
		enc := refwire.Encode(refMsg(a, own, explicit))
		if len(enc)-4 > frameCap {
			continue // explicit spelling pushed a near-cap message over the cap
		}
		got, why := readOne(enc)
		if why == "" {
			why = diffStorrent(a, got)
		}
		release(got)
		if why != "" {
			outcome = "ref-encode-read"
			c.Violation("ref-encode-read", "ref-encode-read "+a.Kind, fmt.Sprintf("Read(refwire.Encode(m)) != m (explicit zero fields: %v): %s", explicit, why), rep(enc))
		} else {
			c.Count("ref_encode_read_ok", 1)
		}
		if a.Kind != "Extended0" && a.Kind != "ExtendedMetadata" {
			break // no optional fields: both spellings are the same bytes
		}
	}
	c.FP(vk.Hash64(a.Kind, sizeClass(payloadLen(a)), valueClass(a), outcome), true)
}

func u32Class(v uint32) string {
	switch {
	case v == 0:
		return "0"
	case v < 1<<8:
		return "<2^8"
	case v < 1<<16:
		return "<2^16"
	case v < 1<<24:
		return "<2^24"
	case v < 1<<31:
		return "<2^31"
	case v == 1<<32-1:
		return "max"
	default:
		return ">=2^31"
	}
}

func valueClass(a *am) string {
	switch a.Kind {
	case "Have", "SuggestPiece", "AllowedFast", "ExtendedDontHave":
		return u32Class(a.Index)
	case "Request", "Cancel", "RejectRequest":
		return u32Class(a.Index) + "/" + u32Class(a.Begin) + "/" + u32Class(a.Length)
	case "Piece":
		return u32Class(a.Index) + "/" + u32Class(a.Begin)
	case "Port":
		return u32Class(uint32(a.Port))
	case "Extended0":
		return fmt.Sprint(a.Version == "", a.Port == 0, a.ReqQ == 0, a.MetaSize == 0, a.IPv4.IsValid(), a.IPv6.IsValid(), len(a.M) == 0, a.UploadOnly, a.Encrypt)
	case "ExtendedMetadata":
		return fmt.Sprint(a.MType, u32Class(a.Index), u32Class(a.TotalSize))
	case "ExtendedPex":
		a4, a6 := split(a.Added)
		d4, d6 := split(a.Dropped)
		return fmt.Sprint(len(a4) > 0, len(a6) > 0, len(d4) > 0, len(d6) > 0)
	}
	return ""
}

// ---- streams ---------------------------------------------------------------

// cutReader returns the stream in chosen segments: one Read never crosses a
// cut position.  step>0 additionally limits every Read to step bytes.
type cutReader struct {
	b    []byte
	cuts []int // ascending
	step int
	pos  int
	idx  int
	n    int // Read calls
}

func (r *cutReader) Read(p []byte) (int, error) {
	r.n++
	if r.pos >= len(r.b) {
		return 0, io.EOF
	}
	end := len(r.b)
	for r.idx < len(r.cuts) && r.cuts[r.idx] <= r.pos {
		r.idx++
	}
	if r.idx < len(r.cuts) && r.cuts[r.idx] < end {
		end = r.cuts[r.idx]
	}
	if r.step > 0 && r.pos+r.step < end {
		end = r.pos + r.step
	}
	n := copy(p, r.b[r.pos:end])
	r.pos += n
	return n, nil
}

// decodeStream reads messages until an error; io.EOF at a message boundary is
// the normal end.  The comparison is done on the fly so pooled buffers can be
// released at once.
func decodeStream(src io.Reader, want []*am) string {
	r := bufio.NewReader(src)
	for i := 0; ; i++ {
		m, err := protocol.Read(r, nil)
		if err != nil {
			if err == io.EOF && i == len(want) {
				return ""
			}
			return fmt.Sprintf("message %d of %d: error %v", i, len(want), err)
		}
		if i >= len(want) {
			release(m)
			return fmt.Sprintf("extra message %s after the %d written", typeName(m), len(want))
		}
		why := diffStorrent(want[i], m)
		release(m)
		if why != "" {
			return fmt.Sprintf("message %d of %d (%s): %s", i, len(want), want[i].Kind, why)
		}
	}
}

type sdesc struct {
	Family string   `json:"family"`
	N      int      `json:"messages"`
	Bytes  int      `json:"bytes"`
	Kinds  []string `json:"kinds"`
}

func checkStream(c *vk.C, rng *rand.Rand, msgs []*am, d *sdesc) {
	sm := make([]protocol.Message, len(msgs))
	for i, a := range msgs {
		if a.Foreign != 0 {
			sm[i] = toStorrent(a, a.Foreign)
		} else {
			sm[i] = toStorrent(a, ownSub(a.Kind))
		}
	}
	wire, err := write(sm...)
	if err != nil {
		c.Violation("stream", "stream-write", "protocol.Write failed: "+err.Error(), nil)
		return
	}
	d.Bytes = len(wire)
	for _, a := range msgs {
		if a.Foreign != 0 {
			c.Count("stream_messages_under_foreign_subid", 1)
		}
	}
	c.Count("streams", 1)
	c.Count("stream_messages", int64(len(msgs)))
	c.Count("stream_bytes", int64(len(wire)))
	c.R.Max("max:stream_bytes", int64(len(wire)))

	// the concatenation must be the concatenation of the frames as the independent codec sees them
	off := 0
	for i, a := range msgs {
		_, n, err := refwire.Decode(wire[off:])
		if err != nil {
			c.Violation("stream", "stream-framing", fmt.Sprintf("independent codec cannot frame message %d (%s) of the stream at offset %d: %v", i, a.Kind, off, err), map[string]any{"wire_hex_prefix": fmt.Sprintf("%x", clip(wire, 256))})
			return
		}
		off += n
	}
	if off != len(wire) {
		c.Violation("stream", "stream-framing", fmt.Sprintf("%d bytes written but the %d frames occupy %d", len(wire), len(msgs), off), nil)
		return
	}

	run := func(mode string, cr *cutReader, src io.Reader) bool {
		if src == nil {
			src = cr
		}
		why := decodeStream(src, msgs)
		c.Count("stream_decodes", 1)
		c.Count("stream_decodes:"+mode, 1)
		if cr != nil {
			c.Count("stream_reads", int64(cr.n))
		}
		if why != "" {
			var cuts []int
			if cr != nil {
				cuts = cr.cuts
				if len(cuts) > 32 {
					cuts = cuts[:32]
				}
			}
			c.Violation("stream", "stream "+mode, fmt.Sprintf("stream of %d messages / %d bytes delivered as %s decodes differently: %s", len(msgs), len(wire), mode, why),
				map[string]any{"wire_hex_prefix": fmt.Sprintf("%x", clip(wire, 512)), "wire_len": len(wire), "cuts": cuts, "kinds": d.Kinds})
			return false
		}
		return true
	}

	ok := run("one-read", &cutReader{b: wire}, nil)
	ok = run("1-byte", &cutReader{b: wire, step: 1}, nil) && ok
	// every single cut position (short streams), otherwise frame boundaries +-2 and PRNG positions
	var positions []int
	if len(wire) <= 700 {
		for p := 1; p < len(wire); p++ {
			positions = append(positions, p)
		}
		c.Count("streams_all_cuts", 1)
	} else {
		off := 0
		for range msgs {
			_, n, _ := refwire.Decode(wire[off:])
			off += n
			for _, dlt := range []int{-2, -1, 0, 1, 2, 3, 4, 5} {
				if p := off + dlt; p > 0 && p < len(wire) && rng.IntN(4) == 0 {
					positions = append(positions, p)
				}
			}
		}
		for k := 0; k < 16; k++ {
			positions = append(positions, 1+rng.IntN(len(wire)-1))
		}
	}
	for _, p := range positions {
		if !ok {
			break
		}
		if rng.IntN(2) == 0 {
			ok = run("single-cut", &cutReader{b: wire, cuts: []int{p}}, nil)
		} else {
			// the shape protocol.Reader uses: bytes left over from the handshake, then the connection
			ok = run("single-cut", nil, io.MultiReader(bytes.NewReader(wire[:p]), &cutReader{b: wire[p:]}))
		}
	}
	// PRNG cuts at several densities
	for k := 0; k < 4 && ok; k++ {
		ncuts := 1 + rng.IntN(8)
		switch k {
		case 1:
			ncuts = 1 + len(wire)/(1+rng.IntN(64))
		case 2:
			ncuts = 1 + len(wire)/(1+rng.IntN(4096))
		}
		if ncuts > 20000 {
			ncuts = 20000
		}
		cuts := make([]int, 0, ncuts)
		for j := 0; j < ncuts; j++ {
			cuts = append(cuts, 1+rng.IntN(len(wire)))
		}
		sort.Ints(cuts)
		ok = run("prng-cuts", &cutReader{b: wire, cuts: cuts}, nil)
	}
	// fixed small steps around bufio's internals
	for _, st := range []int{2, 3, 7, 4095, 4096, 4097} {
		if !ok {
			break
		}
		if rng.IntN(3) == 0 {
			ok = run("fixed-step", &cutReader{b: wire, step: st}, nil)
		}
	}
	kinds := map[string]bool{}
	for _, a := range msgs {
		kinds[a.Kind] = true
	}
	c.FP(vk.Hash64("stream", len(msgs) > 10, sizeClass(len(wire)), len(kinds), ok), len(msgs) >= 2)
}

// ---- generators ------------------------------------------------------------

var bounds32 = []uint32{0, 1, 1 << 14, 1 << 16, 1 << 24, 1<<31 - 1, 1 << 31, 1<<32 - 1}

func genU32(rng *rand.Rand) uint32 {
	switch rng.IntN(4) {
	case 0:
		return vk.Pick(rng, bounds32)
	case 1:
		return vk.Pick(rng, bounds32) + uint32(rng.IntN(5)) - 2
	case 2:
		return uint32(1) << rng.IntN(32)
	default:
		return rng.Uint32()
	}
}

func genU16(rng *rand.Rand) uint16 {
	switch rng.IntN(3) {
	case 0:
		return vk.Pick(rng, []uint16{0, 1, 80, 255, 256, 6881, 32767, 32768, 65534, 65535})
	default:
		return uint16(rng.Uint32())
	}
}

// genSize picks a payload size in [0,max].
func genSize(rng *rand.Rand, max int, allowLarge bool) int {
	n := 0
	switch x := rng.IntN(100); {
	case x < 25:
		n = rng.IntN(41)
	case x < 50:
		n = 1<<14 - 2 + rng.IntN(5)
	case x < 60:
		n = 1 << 14
	case x < 85:
		n = rng.IntN(1<<14 + 1)
	case x < 98:
		n = rng.IntN(1<<16 + 1)
	default:
		if !allowLarge {
			n = rng.IntN(1 << 15)
		} else if rng.IntN(2) == 0 {
			n = max - rng.IntN(4)
		} else {
			n = rng.IntN(max + 1)
		}
	}
	if n > max {
		n = max
	}
	return n
}

func fill(rng *rand.Rand, n int) []byte {
	b := make([]byte, n)
	switch rng.IntN(8) {
	case 0: // zeros
	case 1:
		for i := range b {
			b[i] = 0xff
		}
	case 2: // looks like bencode / framing
		pat := []byte("d8:msg_typei1e5:piecei0eee0:li0e4:\x00\x00\x00\x05\x04")
		for i := range b {
			b[i] = pat[i%len(pat)]
		}
	default:
		i := 0
		for ; i+8 <= n; i += 8 {
			binary.LittleEndian.PutUint64(b[i:], rng.Uint64())
		}
		for ; i < n; i++ {
			b[i] = byte(rng.Uint32())
		}
	}
	return b
}

var versions = []string{"", "STorrent 0.0", "\xc2\xb5Torrent 3.5.5", "qBittorrent/4.6.0", "libtorrent/2.0.9.0", "0:", "e", "i0e", "d1:v1:xe", "\x00", "\xff\xfe\xfd", "caf\xe9", "a\nb\r\n", " "}

var extNames = []string{"ut_pex", "ut_metadata", "lt_donthave", "upload_only", "ut_holepunch", "ut_comment", "lt_tex", "share_mode", "", "m", "e", "v", "\xff\x00", "caf\xc3\xa9", "a:b", "ut_pex\x00", "UT_PEX", "zz"}

func genVersion(rng *rand.Rand) string {
	switch rng.IntN(6) {
	case 0:
		return ""
	case 1, 2, 3:
		return vk.Pick(rng, versions)
	case 4:
		return string(fill(rng, rng.IntN(64)))
	default:
		return string(fill(rng, rng.IntN(2000)))
	}
}

func genAddr4(rng *rand.Rand) netip.Addr {
	switch rng.IntN(4) {
	case 0:
		return vk.Pick(rng, []netip.Addr{netip.MustParseAddr("0.0.0.0"), netip.MustParseAddr("255.255.255.255"), netip.MustParseAddr("127.0.0.1"), netip.MustParseAddr("10.0.0.1"), netip.MustParseAddr("1.2.3.4")})
	default:
		var b [4]byte
		binary.BigEndian.PutUint32(b[:], rng.Uint32())
		return netip.AddrFrom4(b)
	}
}

func genAddr6(rng *rand.Rand) netip.Addr {
	switch rng.IntN(6) {
	case 0:
		return vk.Pick(rng, []netip.Addr{netip.MustParseAddr("::"), netip.MustParseAddr("::1"), netip.MustParseAddr("fe80::1"), netip.MustParseAddr("2001:db8::1"), netip.MustParseAddr("ffff:ffff:ffff:ffff:ffff:ffff:ffff:ffff")})
	case 1: // IPv4-mapped IPv6 address: still a 16-byte address
		var b [16]byte
		b[10], b[11] = 0xff, 0xff
		binary.BigEndian.PutUint32(b[12:], rng.Uint32())
		return netip.AddrFrom16(b)
	default:
		var b [16]byte
		binary.BigEndian.PutUint64(b[:], rng.Uint64())
		binary.BigEndian.PutUint64(b[8:], rng.Uint64())
		return netip.AddrFrom16(b)
	}
}

func genPeers(rng *rand.Rand, n int, mix int) []peer {
	out := make([]peer, 0, n)
	for i := 0; i < n; i++ {
		var a netip.Addr
		v6 := false
		switch mix {
		case 0:
			v6 = false
		case 1:
			v6 = true
		case 2:
			v6 = rng.IntN(2) == 0
		case 3:
			v6 = i%2 == 0
		case 4:
			v6 = i < n/2 // v6 block first, then v4: exercises the reordering normal form
		}
		if v6 {
			a = genAddr6(rng)
		} else {
			a = genAddr4(rng)
		}
		var fl byte
		switch rng.IntN(3) {
		case 0:
			fl = vk.Pick(rng, []byte{0, 1, 2, 3, 0x10, 0x13, 0x04, 0x08, 0x80, 0xff})
		case 1:
			fl = byte(rng.Uint32())
		}
		out = append(out, peer{Addr: netip.AddrPortFrom(a, genU16(rng)), Flags: fl})
	}
	return out
}

func genPexCount(rng *rand.Rand) int {
	switch rng.IntN(5) {
	case 0:
		return 0
	case 1:
		return 1 + rng.IntN(3)
	case 2:
		return vk.Pick(rng, []int{50, 199, 200})
	default:
		return rng.IntN(201)
	}
}

// genMessage draws one abstract message of the given kind.
func genMessage(rng *rand.Rand, kind string, allowLarge bool) *am {
	a := &am{Kind: kind, NilForm: rng.IntN(2) == 0}
	switch kind {
	case "Have", "SuggestPiece", "AllowedFast", "ExtendedDontHave":
		a.Index = genU32(rng)
	case "Request", "Cancel", "RejectRequest":
		a.Index, a.Begin, a.Length = genU32(rng), genU32(rng), genU32(rng)
	case "Bitfield":
		a.Data = fill(rng, genSize(rng, frameCap-1, allowLarge))
	case "Piece":
		a.Index, a.Begin = genU32(rng), genU32(rng)
		a.Data = fill(rng, genSize(rng, frameCap-9, allowLarge))
	case "Port":
		a.Port = genU16(rng)
	case "Extended0":
		a.Version = genVersion(rng)
		if rng.IntN(3) > 0 {
			a.Port = genU16(rng)
		}
		if rng.IntN(3) > 0 {
			a.ReqQ = genU32(rng)
		}
		if rng.IntN(3) > 0 {
			a.MetaSize = genU32(rng)
		}
		if rng.IntN(2) == 0 {
			a.IPv4 = genAddr4(rng)
		}
		if rng.IntN(2) == 0 {
			a.IPv6 = genAddr6(rng)
		}
		a.UploadOnly = rng.IntN(2) == 0
		a.Encrypt = rng.IntN(2) == 0
		n := 0
		switch rng.IntN(6) {
		case 0:
		case 1, 2, 3:
			n = 1 + rng.IntN(6)
		case 4:
			n = len(extNames)
		default:
			n = 20 + rng.IntN(280)
		}
		if n > 0 {
			a.M = map[string]uint8{}
			for i := 0; i < n; i++ {
				k := vk.Pick(rng, extNames)
				if n > len(extNames) || rng.IntN(8) == 0 {
					k = string(fill(rng, rng.IntN(12)))
					if rng.IntN(2) == 0 {
						k = fmt.Sprintf("x%d", rng.IntN(1000))
					}
				}
				v := uint8(rng.Uint32())
				if rng.IntN(3) == 0 {
					v = vk.Pick(rng, []uint8{0, 1, 2, 3, 4, 127, 128, 255})
				}
				a.M[k] = v
			}
		}
	case "ExtendedMetadata":
		a.MType = vk.Pick(rng, []uint8{0, 1, 2, 0, 1, 2, 3, 127, 128, 255})
		a.Index = genU32(rng)
		if rng.IntN(4) > 0 {
			a.TotalSize = genU32(rng)
		}
		switch rng.IntN(4) {
		case 0: // request / reject: no payload
		case 1:
			a.Data = fill(rng, 1<<14)
		default:
			a.Data = fill(rng, genSize(rng, frameCap-2-80, allowLarge))
		}
	case "ExtendedPex":
		a.Added = genPeers(rng, genPexCount(rng), rng.IntN(5))
		a.Dropped = genPeers(rng, genPexCount(rng), rng.IntN(5))
	}
	return a
}

func genRefSub(rng *rand.Rand) uint8 {
	switch rng.IntN(3) {
	case 0:
		return vk.Pick(rng, []uint8{1, 2, 3, 4, 5, 127, 128, 254, 255})
	default:
		return uint8(1 + rng.IntN(255))
	}
}

// grid is the seed-independent systematic part: every boundary value in every
// field position of the fixed-format messages, boundary payload sizes, and
// the corner cases of the bencoded payloads.
func grid() []*am {
	var out []*am
	for _, k := range []string{"KeepAlive", "Choke", "Unchoke", "Interested", "NotInterested", "HaveAll", "HaveNone"} {
		out = append(out, &am{Kind: k})
	}
	for _, k := range []string{"Have", "SuggestPiece", "AllowedFast", "ExtendedDontHave"} {
		for _, v := range bounds32 {
			out = append(out, &am{Kind: k, Index: v})
		}
	}
	for _, k := range []string{"Request", "Cancel", "RejectRequest"} {
		for _, i := range bounds32 {
			for _, b := range bounds32 {
				for _, l := range bounds32 {
					out = append(out, &am{Kind: k, Index: i, Begin: b, Length: l})
				}
			}
		}
	}
	for _, p := range []uint16{0, 1, 255, 256, 6881, 32767, 32768, 65535} {
		out = append(out, &am{Kind: "Port", Port: p})
	}
	det := func(n int, salt byte) []byte {
		b := make([]byte, n)
		for i := range b {
			b[i] = byte(i*131+i>>8) ^ salt
		}
		return b
	}
	for _, n := range []int{0, 1, 2, 3, 8, 9, 10, 72, 4091, 4092, 4093, 1<<14 - 1, 1 << 14, 1<<14 + 1, 1 << 16, frameCap - 2, frameCap - 1} {
		out = append(out, &am{Kind: "Bitfield", Data: det(n, 0x5a)}, &am{Kind: "Bitfield", Data: det(n, 0x5a), NilForm: true})
	}
	for _, n := range []int{0, 1, 2, 4082, 4083, 4084, 1<<14 - 1, 1 << 14, 1<<14 + 1, 1 << 15, 1 << 17, frameCap - 10, frameCap - 9} {
		for _, i := range bounds32 {
			for _, b := range bounds32 {
				if n > 1<<15 && (i != 1<<31 || b != 1<<14) {
					continue
				}
				out = append(out, &am{Kind: "Piece", Index: i, Begin: b, Data: det(n, 0xa5)})
			}
		}
	}
	for _, t := range []uint8{0, 1, 2, 3, 255} {
		for _, i := range bounds32 {
			for _, ts := range bounds32 {
				for _, n := range []int{0, 1, 1 << 14} {
					if n == 1 && (i != 1 || ts != 1<<14) {
						continue
					}
					out = append(out, &am{Kind: "ExtendedMetadata", MType: t, Index: i, TotalSize: ts, Data: det(n, 'd'), NilForm: n == 0 && i%2 == 0})
				}
			}
		}
	}
	out = append(out, &am{Kind: "ExtendedMetadata", MType: 1, Index: 63, TotalSize: 1 << 20, Data: det(frameCap-2-60, 0x11)})
	// ut_metadata payloads that look like more bencode
	for _, s := range []string{"e", "ee", "d", "de", "i0e", "0:", "d8:msg_typei0e5:piecei9ee", "4:spam", "l", "\x00\x00\x00\x05\x04\x00\x00\x00\x00"} {
		out = append(out, &am{Kind: "ExtendedMetadata", MType: 1, Index: 0, TotalSize: uint32(len(s)), Data: []byte(s)})
	}
	// extension handshakes: each optional field alone, all together, nothing at all
	a4 := netip.MustParseAddr("192.0.2.7")
	a6 := netip.MustParseAddr("2001:db8::7")
	m4 := netip.MustParseAddr("::ffff:192.0.2.7")
	stor := map[string]uint8{"ut_pex": 1, "ut_metadata": 2, "lt_donthave": 3, "upload_only": 4}
	out = append(out,
		&am{Kind: "Extended0"},
		&am{Kind: "Extended0", NilForm: true},
		&am{Kind: "Extended0", M: map[string]uint8{}},
		&am{Kind: "Extended0", Version: "STorrent 0.0"},
		&am{Kind: "Extended0", Port: 1},
		&am{Kind: "Extended0", Port: 65535},
		&am{Kind: "Extended0", ReqQ: 1},
		&am{Kind: "Extended0", ReqQ: 1<<32 - 1},
		&am{Kind: "Extended0", MetaSize: 1},
		&am{Kind: "Extended0", MetaSize: 1<<32 - 1},
		&am{Kind: "Extended0", IPv4: a4},
		&am{Kind: "Extended0", IPv4: netip.MustParseAddr("0.0.0.0")},
		&am{Kind: "Extended0", IPv6: a6},
		&am{Kind: "Extended0", IPv6: netip.MustParseAddr("::")},
		&am{Kind: "Extended0", IPv6: m4},
		&am{Kind: "Extended0", IPv4: a4, IPv6: a6},
		&am{Kind: "Extended0", UploadOnly: true},
		&am{Kind: "Extended0", Encrypt: true},
		&am{Kind: "Extended0", M: stor},
		&am{Kind: "Extended0", M: map[string]uint8{"ut_pex": 0}},
		&am{Kind: "Extended0", M: map[string]uint8{"": 255}},
		&am{Kind: "Extended0", M: map[string]uint8{"\xff": 1, "\x00": 2, "a": 3, "B": 4, "aa": 5, "a\x00": 6}},
		&am{Kind: "Extended0", Version: "STorrent 0.0", Port: 6881, ReqQ: 128, IPv6: a6, MetaSize: 31337, M: stor, Encrypt: true},
		&am{Kind: "Extended0", Version: "\xff\x00\xfe", Port: 65535, ReqQ: 1<<32 - 1, IPv4: a4, IPv6: m4, MetaSize: 1<<32 - 1, M: stor, UploadOnly: true, Encrypt: true},
	)
	for _, v := range versions {
		out = append(out, &am{Kind: "Extended0", Version: v, M: stor})
	}
	// PEX: sizes x family mixes, flags on the first / last entry of each family only
	mk := func(n int, v6 func(i int) bool, flag func(i int) byte) []peer {
		var l []peer
		for i := 0; i < n; i++ {
			var a netip.Addr
			if v6(i) {
				var b [16]byte
				b[0], b[1], b[15], b[14] = 0x20, 0x01, byte(i), byte(i>>8)
				a = netip.AddrFrom16(b)
			} else {
				a = netip.AddrFrom4([4]byte{10, byte(i >> 8), byte(i), 1})
			}
			l = append(l, peer{Addr: netip.AddrPortFrom(a, uint16(1000+i)), Flags: flag(i)})
		}
		return l
	}
	never := func(int) bool { return false }
	always := func(int) bool { return true }
	alt := func(i int) bool { return i%2 == 1 }
	zero := func(int) byte { return 0 }
	idx := func(i int) byte { return byte(i + 1) }
	for _, n := range []int{0, 1, 2, 3, 50, 199, 200} {
		for fi, fam := range []func(int) bool{never, always, alt, func(i int) bool { return i < n/2 }} {
			for gi, fl := range []func(int) byte{zero, idx, func(i int) byte {
				if i == 0 {
					return 0x13
				}
				return 0
			}, func(i int) byte {
				if i == n-1 {
					return 0xff
				}
				return 0
			}} {
				if n == 0 && (fi > 0 || gi > 0) {
					continue
				}
				out = append(out, &am{Kind: "ExtendedPex", Added: mk(n, fam, fl)})
				out = append(out, &am{Kind: "ExtendedPex", Added: mk(n, fam, fl), Dropped: mk((n+1)/2, fam, zero), NilForm: gi%2 == 0})
				if gi == 0 {
					out = append(out, &am{Kind: "ExtendedPex", Dropped: mk(n, fam, zero)})
				}
			}
		}
	}
	out = append(out, &am{Kind: "ExtendedPex", Added: []peer{{Addr: netip.AddrPortFrom(m4, 6881), Flags: 1}, {Addr: netip.AddrPortFrom(a4, 6882), Flags: 2}}})
	return out
}

func TestCheck(t *testing.T) {
	r := vk.New("C06")
	defer r.Done()
	debug.SetGCPercent(400) // many short-lived buffers of up to 1 MiB; the live heap stays small
	r.Note("normal_forms", "empty == nil for byte strings, maps and peer lists; PEX lists compare as IPv4 entries in order then IPv6 entries in order (IPv4-mapped IPv6 addresses are 16-byte entries); flags of dropped peers are not on the wire; reader reports its own sub-ids")
	r.Note("frame_cap", fmt.Sprintf("largest frame generated = %d bytes after the length prefix (the reader's cap)", frameCap))

	idx := 0
	// (a) systematic grid, each value once with storrent's own sub-ids and once with a foreign one
	g := grid()
	r.Count("grid_cells", 0)
	for gi, a := range g {
		i := idx
		idx++
		if !r.Mine(i) {
			continue
		}
		sub := ownSub(a.Kind)
		if isExt(a.Kind) {
			sub = []uint8{1, 2, 3, 4, 5, 9, 127, 128, 255}[gi%9]
		}
		c := r.Begin(i, describe("grid", a, sub))
		checkMessage(c, a, sub)
		c.Count("grid_cells", 1)
		c.End()
	}
	// (b) PRNG values
	n := r.Env.N(30000, 3000000) - len(g)
	if n < 1000 {
		n = 1000
	}
	base := idx
	for k := 0; k < n; k++ {
		i := base + k
		if !r.Mine(i) {
			continue
		}
		rng := r.Env.Rng(i)
		kind := kinds[(k/4)%len(kinds)]
		if k%4 != 0 { // three quarters of the budget on the types with content
			kind = vk.Pick(rng, []string{"Have", "Bitfield", "Request", "Piece", "Cancel", "Port", "SuggestPiece", "RejectRequest", "AllowedFast",
				"Extended0", "Extended0", "ExtendedMetadata", "ExtendedMetadata", "ExtendedPex", "ExtendedPex", "ExtendedDontHave"})
		}
		a := genMessage(rng, kind, true)
		sub := genRefSub(rng)
		c := r.Begin(i, describe("prng", a, sub))
		checkMessage(c, a, sub)
		c.End()
	}
	idx = base + n
	// (c) streams
	ns := r.Env.N(2000, 200000)
	base = idx
	for k := 0; k < ns; k++ {
		i := base + k
		if !r.Mine(i) {
			continue
		}
		rng := r.Env.Rng(i)
		var cnt int
		switch k % 4 {
		case 0:
			cnt = 1 + rng.IntN(4)
		case 1:
			cnt = 50
		default:
			cnt = 1 + rng.IntN(50)
		}
		short := k%3 == 0 // short streams get every single cut position
		large := k%200 == 7
		var msgs []*am
		d := &sdesc{Family: "stream"}
		for j := 0; j < cnt; j++ {
			kind := vk.Pick(rng, kinds)
			var a *am
			if short {
				a = genMessage(rng, kind, false)
				if len(a.Data) > 40 {
					a.Data = a.Data[:rng.IntN(41)]
				}
				if len(a.Added) > 3 {
					a.Added = a.Added[:rng.IntN(4)]
				}
				if len(a.Dropped) > 3 {
					a.Dropped = a.Dropped[:rng.IntN(4)]
				}
				if len(a.Version) > 30 {
					a.Version = a.Version[:30]
				}
				if len(a.M) > 4 {
					a.M = map[string]uint8{"ut_pex": 1, "ut_metadata": uint8(rng.Uint32())}
				}
			} else {
				a = genMessage(rng, kind, large && j == cnt/2)
			}
			if k%5 == 2 && rng.IntN(3) == 0 {
				switch a.Kind {
				case "ExtendedPex", "ExtendedDontHave", "ExtendedMetadata":
					a.Foreign = uint8(5 + rng.IntN(251))
				}
			}
			msgs = append(msgs, a)
			if len(d.Kinds) < 50 {
				d.Kinds = append(d.Kinds, a.Kind)
			}
		}
		if short && cnt > 12 {
			msgs = msgs[:12]
			d.Kinds = d.Kinds[:12]
		}
		d.N = len(msgs)
		c := r.Begin(i, d)
		checkStream(c, rng, msgs, d)
		c.End()
	}
	r.Finish()
}
