// Package e1 is the piece-store engine: the real tor/piece.Pieces driven by
// generated operation programs, either under the deterministic yield-point
// scheduler inside a synctest bubble ("sched") or free-running under the race
// detector ("stress").  It serves C01 (content / visibility) and C03
// (accounting / eviction / release); VERIF_PROP selects whose oracles report.
package e1

import (
	"bytes"
	"errors"
	"fmt"
	"io"
	"math/rand/v2"
	"reflect"
	"sort"
	"sync"
	"sync/atomic"
	"time"
	"unsafe"

	"github.com/anishathalye/porcupine"
	"github.com/jech/storrent/alloc"
	"github.com/jech/storrent/hash"
	"github.com/jech/storrent/tor/piece"
	"verifharness/fixture"
	"verifharness/vk"
)

type opKind string

const (
	opAdd    opKind = "add"
	opFin    opKind = "fin"
	opRead   opKind = "read"
	opExpire opKind = "expire"
	opUpd    opKind = "upd"
	opDel    opKind = "del"
	opQuery  opKind = "query"
)

// op is one operation of a program.
type op struct {
	K      opKind `json:"k"`
	P      int    `json:"p,omitempty"`
	B      int    `json:"b,omitempty"`
	Var    string `json:"v,omitempty"`
	Off    int64  `json:"off,omitempty"`
	Len    int    `json:"len,omitempty"`
	Target int64  `json:"target,omitempty"`
}

func (o op) String() string {
	switch o.K {
	case opAdd:
		return fmt.Sprintf("add(p%d,b%d,%s)", o.P, o.B, o.Var)
	case opFin:
		return fmt.Sprintf("fin(p%d,%s)", o.P, o.Var)
	case opRead:
		return fmt.Sprintf("read(%d,%d)", o.Off, o.Len)
	case opExpire:
		return fmt.Sprintf("expire(%d)", o.Target)
	case opUpd:
		return fmt.Sprintf("upd(p%d)", o.P)
	case opDel:
		return "del"
	}
	return string(o.K) + "(" + o.Var + ")"
}

// ev is one history event.
type ev struct {
	W         int
	Op        op
	Call, Ret int64
	N         int
	Err       string
	Done      bool     // finalise: done
	Complete  bool     // add: complete / upd: complete
	Evicted   []uint32 // expire: complete pieces reported through the callback
	Count     uint32
	Pieces    []int // pieces a read touched (first)
}

// store is one Pieces under test plus its truth.
type store struct {
	ps    *piece.Pieces
	geo   *fixture.Geo
	hist  []ev
	hmu   sync.Mutex
	clk   *int64
	c     *vk.C
	prop  string
	kills int64 // Expire/Del calls in flight
}

func atomicLoad(p *int64) int64 { return atomic.LoadInt64(p) }

func newStore(c *vk.C, prop string, geo *fixture.Geo, clk *int64) *store {
	s := &store{ps: new(piece.Pieces), geo: geo, clk: clk, c: c, prop: prop}
	s.ps.MetadataComplete(geo.PieceLen, geo.Length)
	return s
}

func (s *store) stamp() int64 { return atomic.AddInt64(s.clk, 1) }

func (s *store) record(e ev) {
	s.hmu.Lock()
	s.hist = append(s.hist, e)
	s.hmu.Unlock()
}

func flip(b []byte, r uint64) {
	if len(b) == 0 {
		return
	}
	b[int(r%uint64(len(b)))] ^= byte(1 << (r >> 40 % 8))
}

// exec runs one op against the real store and applies the immediate oracles.
func (s *store) exec(w int, o op, salt uint64) {
	g := s.geo
	e := ev{W: w, Op: o}
	switch o.K {
	case opAdd:
		begin := uint32(o.B * fixture.Block)
		var data []byte
		plen := g.PieceSize(o.P)
		base := int64(o.P) * int64(g.PieceLen)
		blen := 0
		if o.B*fixture.Block < plen {
			blen = g.BlockLen(o.P, o.B)
		}
		switch o.Var {
		case "valid", "dup":
			data = g.Truth(base+int64(begin), blen)
		case "corrupt":
			data = g.Truth(base+int64(begin), blen)
			flip(data, salt)
		case "misplaced": // truth of another offset
			data = g.Truth((base+int64(begin)+fixture.Block)%max64(g.Length-int64(blen), 1), blen)
		case "overlong": // several blocks, possibly running past the piece end (truth where it exists)
			n := blen + fixture.Block*int(1+salt%4)
			data = make([]byte, n)
			g.TruthInto(data, base+int64(begin))
		case "misaligned":
			begin++
			data = g.Truth(base+int64(begin), blen)
		case "short":
			if blen > 1 {
				data = g.Truth(base+int64(begin), blen-1-int(salt%uint64(blen-1)))
			}
		case "empty":
			data = nil
		case "beyond":
			begin = uint32(((plen + fixture.Block - 1) / fixture.Block) * fixture.Block)
			data = g.Truth(0, fixture.Block)
		}
		e.Call = s.stamp()
		cnt, complete, err := s.ps.AddData(uint32(o.P), begin, data, uint32(w+1))
		e.Ret = s.stamp()
		e.Count, e.Complete = cnt, complete
		if err != nil {
			e.Err = err.Error()
		}
		// immediate sanity (both properties: a wrong count corrupts bookkeeping)
		if int(cnt) > len(data) {
			s.viol("C01", "add-count", "add-count>len "+o.Var, fmt.Sprintf("AddData returned count %d > len(data) %d", cnt, len(data)), o)
		}
		if err != nil && cnt != 0 {
			s.viol("C01", "add-count", "add-count-with-error "+o.Var, fmt.Sprintf("AddData returned count %d with error %v", cnt, err), o)
		}
		if cnt > 0 {
			end := int(begin) + int(cnt)
			if begin%fixture.Block != 0 || end > plen || (end%fixture.Block != 0 && end != plen) {
				s.viol("C01", "add-count", "add-count-not-whole-blocks "+o.Var, fmt.Sprintf("AddData(p%d, begin %d, %d bytes) returned count %d: not whole blocks inside the piece (piece length %d)", o.P, begin, len(data), cnt, plen), o)
			}
		}
	case opFin:
		h := hash.Hash(g.PieceHash(o.P))
		if o.Var == "wrong" {
			h = append(hash.Hash(nil), h...)
			h[3] ^= 0x40
		}
		e.Call = s.stamp()
		done, _, err := s.ps.Finalise(uint32(o.P), h)
		e.Ret = s.stamp()
		e.Done = done
		if err != nil {
			e.Err = err.Error()
		}
		if done && o.Var == "wrong" {
			s.viol("C01", "content", "finalise-accepted-wrong-hash", fmt.Sprintf("Finalise(p%d) reported done against a hash that differs from SHA-1 of the truth", o.P), o)
		}
		if done && err != nil {
			s.viol("C01", "content", "finalise-done-with-error", fmt.Sprintf("Finalise done with error %v", err), o)
		}
	case opRead:
		buf := make([]byte, o.Len)
		for i := range buf {
			buf[i] = 0xA5
		}
		e.Call = s.stamp()
		n, err := s.ps.ReadAt(buf, o.Off)
		e.Ret = s.stamp()
		e.N = n
		if err != nil {
			e.Err = err.Error()
		}
		s.c.Count("reads", 1)
		if n > 0 {
			s.c.Count("reads_with_data", 1)
		}
		if n < 0 || n > len(buf) {
			s.viol("C01", "content", "read-n-out-of-range", fmt.Sprintf("ReadAt returned n=%d for a buffer of %d", n, len(buf)), o)
			break
		}
		if o.Off >= g.Length {
			if n != 0 || !errors.Is(err, io.EOF) {
				s.viol("C01", "content", "read-past-end", fmt.Sprintf("ReadAt at %d >= length %d returned (%d,%v)", o.Off, g.Length, n, err), o)
			}
			break
		}
		p := int(o.Off / int64(g.PieceLen))
		left := g.PieceSize(p) - int(o.Off%int64(g.PieceLen))
		if n > left {
			s.viol("C01", "content", "read-beyond-piece", fmt.Sprintf("ReadAt(%d) returned %d bytes, only %d left in piece %d", o.Off, n, left, p), o)
		}
		if n > 0 && !bytes.Equal(buf[:n], g.Truth(o.Off, n)) {
			bad := 0
			tr := g.Truth(o.Off, n)
			for i := range tr {
				if tr[i] != buf[i] {
					bad = i
					break
				}
			}
			s.viol("C01", "content", "read-content", fmt.Sprintf("ReadAt(off %d, n %d) returned bytes that differ from the truth at +%d (piece %d)", o.Off, n, bad, p), o)
		}
		e.Pieces = []int{p}
	case opExpire:
		var mu sync.Mutex
		avail := make([]uint16, g.NumPieces())
		for i := range avail {
			avail[i] = uint16((uint64(i)*7 + salt) % 5)
		}
		atomic.AddInt64(&s.kills, 1)
		e.Call = s.stamp()
		cnt := s.ps.Expire(o.Target, avail, func(index uint32) {
			mu.Lock()
			e.Evicted = append(e.Evicted, index)
			mu.Unlock()
		})
		e.Ret = s.stamp()
		e.N = cnt
		s.record(e)
		atomic.AddInt64(&s.kills, -1)
		s.c.Count("ops", 1)
		s.c.Count("op:expire", 1)
		return
	case opUpd:
		e.Call = s.stamp()
		e.Complete = s.ps.UpdateTime(uint32(o.P))
		e.Ret = s.stamp()
	case opDel:
		atomic.AddInt64(&s.kills, 1)
		e.Call = s.stamp()
		// Del waits for pieces that are being hashed. If it is still waiting after two minutes (virtual in
		// a bubble, real otherwise; a hash takes milliseconds) nobody is going to release that piece: reported,
		// and the busy marks are cleared by force so that the run can go on to the next case.
		delDone := make(chan struct{})
		go func() {
			select {
			case <-delDone:
				return
			case <-time.After(2 * time.Minute):
			}
			sn := s.snap()
			var busy []int
			for i, b := range sn.busy {
				if b {
					busy = append(busy, i)
				}
			}
			for _, pr := range []string{"C03", "C01"} {
				s.viol(pr, "hang", "del-never-returns", fmt.Sprintf("Pieces.Del() has not returned after two minutes; pieces still marked busy: %v", busy), o)
			}
			s.forceUnbusy()
		}()
		s.ps.Del()
		close(delDone)
		e.Ret = s.stamp()
		s.record(e)
		atomic.AddInt64(&s.kills, -1)
		s.c.Count("ops", 1)
		s.c.Count("op:del", 1)
		return
	case opQuery:
		e.Call = s.stamp()
		switch o.Var {
		case "hole":
			a, b := s.ps.Hole(uint32(o.P), uint32(o.B*fixture.Block))
			if a != ^uint32(0) {
				plen := uint32(g.PieceSize(o.P))
				if a%fixture.Block != 0 || a >= plen || a+b > plen || b == 0 {
					s.viol("C01", "query", "hole-out-of-range", fmt.Sprintf("Hole(p%d,%d) = (%d,%d), piece length %d", o.P, o.B*fixture.Block, a, b, plen), o)
				}
			}
		case "piecebitmap":
			n, bm := s.ps.PieceBitmap(uint32(o.P))
			if n != g.BlocksIn(o.P) || bm.Count() > n {
				s.viol("C01", "query", "piecebitmap", fmt.Sprintf("PieceBitmap(p%d) = %d blocks, %d set; geometry says %d", o.P, n, bm.Count(), g.BlocksIn(o.P)), o)
			}
		case "bitmap":
			bm := s.ps.Bitmap()
			if bm.Len() > g.NumPieces() {
				s.viol("C01", "query", "bitmap-len", fmt.Sprintf("Bitmap has bit %d set, %d pieces", bm.Len()-1, g.NumPieces()), o)
			}
		case "count":
			n := s.ps.Count()
			if n < 0 || n > g.NumPieces() {
				s.viol("C03", "accounting", "count-out-of-range", fmt.Sprintf("Count() = %d with %d pieces", n, g.NumPieces()), o)
			}
		case "bytes":
			n := s.ps.Bytes()
			if n < 0 || n > int64(g.NumPieces())*int64(g.PieceLen) {
				s.viol("C03", "accounting", "bytes-out-of-range", fmt.Sprintf("Bytes() = %d", n), o)
			}
		case "all":
			s.ps.All()
		case "empty":
			s.ps.PieceEmpty(uint32(o.P))
		}
		e.Ret = s.stamp()
	}
	s.c.Count("ops", 1)
	s.c.Count("op:"+string(o.K), 1)
	s.record(e)
}

func max64(a, b int64) int64 {
	if a > b {
		return a
	}
	return b
}

// viol reports only if the violation belongs to the property being checked.
func (s *store) viol(prop, kind, sig, detail string, o any) {
	if prop != s.prop {
		s.c.Count("other_property_observations", 1)
		return
	}
	s.c.Violation(kind, sig, detail, map[string]any{"op": o, "geo": s.geo.Desc()})
}

// ---- reflect access to the unexported store state (read at quiescent cuts) ----

type snapshot struct {
	bufBytes int64 // sum of cap(data)
	nonNil   int
	count    int
	deleted  bool
	complete []bool
	busy     []bool
	has      []bool
	missing  string
}

// forceUnbusy clears every busy mark (only after a hang has been reported).
func (s *store) forceUnbusy() {
	pieces := reflect.ValueOf(s.ps).Elem().FieldByName("pieces")
	if !pieces.IsValid() {
		return
	}
	for i := 0; i < pieces.Len(); i++ {
		st := pieces.Index(i).FieldByName("state")
		if st.IsValid() && st.CanAddr() && st.Kind() == reflect.Uint32 {
			p := (*uint32)(unsafe.Pointer(st.UnsafeAddr()))
			atomic.CompareAndSwapUint32(p, 2, 0)
		}
	}
}

func (s *store) snap() snapshot {
	var sn snapshot
	v := reflect.ValueOf(s.ps).Elem()
	pieces := v.FieldByName("pieces")
	cnt := v.FieldByName("count")
	del := v.FieldByName("deleted")
	if !pieces.IsValid() || !cnt.IsValid() || !del.IsValid() {
		sn.missing = "Pieces.pieces/count/deleted"
		return sn
	}
	sn.count = int(cnt.Int())
	sn.deleted = del.Bool()
	for i := 0; i < pieces.Len(); i++ {
		p := pieces.Index(i)
		d := p.FieldByName("data")
		st := p.FieldByName("state")
		if !d.IsValid() || !st.IsValid() {
			sn.missing = "Piece.data/state"
			return sn
		}
		sn.has = append(sn.has, !d.IsNil())
		if !d.IsNil() {
			sn.nonNil++
			sn.bufBytes += int64(d.Cap())
		}
		sn.complete = append(sn.complete, st.Uint() == 1)
		sn.busy = append(sn.busy, st.Uint() == 2)
	}
	return sn
}

// checkAccounting is the C03 invariant at a quiescent cut, over all stores of the case.
func checkAccounting(c *vk.C, prop string, stores []*store, base int64, where string) {
	if prop != "C03" {
		return
	}
	var sum int64
	for _, s := range stores {
		sn := s.snap()
		if sn.missing != "" {
			c.Inconclusive("reflect field missing: " + sn.missing)
			return
		}
		sum += sn.bufBytes
		if sn.count != sn.nonNil {
			c.Violation("accounting", "count-vs-buffers "+where, fmt.Sprintf("Pieces.count=%d but %d pieces hold a buffer", sn.count, sn.nonNil), map[string]any{"geo": s.geo.Desc(), "hist": tail(s.hist, 12)})
		}
		if sn.count < 0 {
			c.Violation("accounting", "negative-count "+where, fmt.Sprintf("Pieces.count=%d", sn.count), nil)
		}
	}
	got := alloc.Bytes() - base
	c.Count("cuts_checked", 1)
	if got != sum {
		var h []string
		for _, s := range stores {
			h = append(h, tail(s.hist, 12)...)
		}
		c.Violation("accounting", "alloc-vs-buffers "+where, fmt.Sprintf("alloc.Bytes() reports %d bytes for these stores, their buffers hold %d", got, sum), map[string]any{"hist": h})
	}
}

func tail(h []ev, n int) []string {
	if len(h) > n {
		h = h[len(h)-n:]
	}
	var out []string
	for _, e := range h {
		out = append(out, fmt.Sprintf("w%d %s [%d,%d] n=%d cnt=%d done=%v cmpl=%v ev=%v err=%s", e.W, e.Op, e.Call, e.Ret, e.N, e.Count, e.Done, e.Complete, e.Evicted, e.Err))
	}
	return out
}

// ---- visibility model (porcupine), per piece ----

type vin struct {
	Kind string // fin_done, read_pos, read_zero, evict, del, upd_true, upd_false
	Desc string
}

var visModel = porcupine.Model{
	Init: func() any { return 0 },
	Step: func(st, in, out any) (bool, any) {
		s := st.(int)
		switch in.(vin).Kind {
		case "fin_done":
			return s == 0, 1
		case "read_pos", "upd_true":
			return s == 1, s
		case "read_zero", "upd_false":
			return s == 0 || s == 2, s
		case "evict":
			return s == 1, 0
		case "del":
			// deleted is for good: no Finalise may succeed after the deletion took effect (state 2), so a
			// piece filled and verified while Del was waiting for a hasher must be gone when Del returns
			return true, 2
		}
		return true, s
	},
	DescribeOperation: func(in, out any) string { return in.(vin).Kind + " " + in.(vin).Desc },
}

// checkVisibility checks the recorded history of a store against the model.
func (s *store) checkVisibility() {
	np := s.geo.NumPieces()
	per := make([][]porcupine.Operation, np)
	add := func(p int, e ev, kind string) {
		per[p] = append(per[p], porcupine.Operation{ClientId: e.W, Input: vin{kind, e.Op.String()}, Call: e.Call, Output: nil, Return: e.Ret})
	}
	for _, e := range s.hist {
		switch e.Op.K {
		case opFin:
			if e.Done {
				add(e.Op.P, e, "fin_done")
			}
		case opRead:
			if e.Op.Len == 0 || e.Op.Off >= s.geo.Length || e.Err != "" {
				continue
			}
			p := int(e.Op.Off / int64(s.geo.PieceLen))
			if e.N > 0 {
				add(p, e, "read_pos")
			} else {
				add(p, e, "read_zero")
			}
		case opUpd:
			if e.Complete {
				add(e.Op.P, e, "upd_true")
			} else {
				add(e.Op.P, e, "upd_false")
			}
		case opExpire:
			for _, p := range e.Evicted {
				if int(p) < np {
					add(int(p), e, "evict")
				}
			}
		case opDel:
			for p := 0; p < np; p++ {
				add(p, e, "del")
			}
		}
	}
	for p := 0; p < np; p++ {
		ops := per[p]
		if len(ops) == 0 {
			continue
		}
		// porcupine wants distinct client ids for overlapping ops; a worker is sequential, so W works.
		res, _ := porcupine.CheckOperationsVerbose(visModel, ops, 20*time.Second)
		s.c.Count("visibility_histories", 1)
		s.c.Count("visibility_ops", int64(len(ops)))
		switch res {
		case porcupine.Illegal:
			kinds := map[string]bool{}
			for _, o := range ops {
				kinds[o.Input.(vin).Kind] = true
			}
			var ks []string
			for k := range kinds {
				ks = append(ks, k)
			}
			sort.Strings(ks)
			var hs []string
			for _, e := range s.hist {
				hs = append(hs, tail([]ev{e}, 1)...)
			}
			if len(hs) > 60 {
				hs = hs[len(hs)-60:]
			}
			s.viol("C01", "visibility", "visibility-not-linearizable", fmt.Sprintf("history of piece %d is not linearizable against the visibility model (complete only between a successful Finalise and a reported eviction/Del); op kinds %v", p, ks), map[string]any{"piece": p, "hist": hs})
		case porcupine.Unknown:
			s.c.Inconclusive("porcupine timeout")
		}
	}
}

// ---- program generation ----

var addVars = []string{"valid", "valid", "valid", "valid", "corrupt", "dup", "overlong", "misaligned", "short", "empty", "beyond", "misplaced"}
var queryVars = []string{"hole", "piecebitmap", "bitmap", "count", "bytes", "all", "empty"}

func randOp(r *rand.Rand, g *fixture.Geo, hot []int) op {
	p := hot[r.IntN(len(hot))]
	switch x := r.IntN(100); {
	case x < 40:
		return op{K: opAdd, P: p, B: r.IntN(g.BlocksIn(p)), Var: addVars[r.IntN(len(addVars))]}
	case x < 55:
		v := "right"
		if r.IntN(4) == 0 {
			v = "wrong"
		}
		return op{K: opFin, P: p, Var: v}
	case x < 80:
		base := int64(p) * int64(g.PieceLen)
		off := base + int64(r.IntN(g.PieceSize(p)))
		if r.IntN(10) == 0 {
			off = g.Length - int64(r.IntN(3)) + 1
		}
		ln := []int{1, 7, 100, fixture.Block, fixture.Block + 1, 3 * fixture.Block, int(g.PieceLen) + 5}[r.IntN(7)]
		return op{K: opRead, Off: off, Len: ln}
	case x < 86:
		return op{K: opExpire, Target: int64(r.IntN(g.NumPieces()+1)) * int64(g.PieceLen) / 2}
	case x < 92:
		return op{K: opUpd, P: p}
	default:
		return op{K: opQuery, P: p, B: r.IntN(g.BlocksIn(p)), Var: queryVars[r.IntN(len(queryVars))]}
	}
}

// fillOps returns the ops that deliver every block of piece p (valid), in order.
func fillOps(g *fixture.Geo, p int) []op {
	var out []op
	for b := 0; b < g.BlocksIn(p); b++ {
		out = append(out, op{K: opAdd, P: p, B: b, Var: "valid"})
	}
	return out
}
