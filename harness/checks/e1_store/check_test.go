package e1

import (
	"fmt"
	"math/rand/v2"
	"os"
	"runtime"
	"strings"
	"sync"
	"sync/atomic"
	"testing"
	"testing/synctest"
	"time"

	"github.com/jech/storrent/alloc"
	"github.com/jech/storrent/verifhook"
	"verifharness/fixture"
	"verifharness/sched"
	"verifharness/vk"
)

var realNow = time.Now()

func enterBubble() {
	// the bubble clock starts in 2000; storrent's mono package needs "now" after its origin
	time.Sleep(time.Until(realNow.Add(time.Hour)))
}

// scenario: per-worker programs on one store, after a sequential setup.
type scenario struct {
	Name     string
	Geo      *fixture.Geo
	Setup    []op
	Workers  [][]op
	FinalDel bool
}

func (sc *scenario) desc(extra map[string]any) map[string]any {
	d := map[string]any{"scenario": sc.Name, "geo": sc.Geo.Desc()}
	var ws []string
	for _, w := range sc.Workers {
		var s []string
		for _, o := range w {
			s = append(s, o.String())
		}
		ws = append(ws, strings.Join(s, " "))
	}
	d["workers"] = ws
	for k, v := range extra {
		d[k] = v
	}
	return d
}

func smallGeo(psize uint32, npieces int, lastShort int, seed uint64) *fixture.Geo {
	l := int64(psize)*int64(npieces) - int64(lastShort)
	return &fixture.Geo{Name: "s", PieceLen: psize, Length: l, Seed: seed}
}

// templated scenarios around the windows named in the property
func templates(variant int, r *rand.Rand) *scenario {
	sizes := []uint32{32 << 10, 128 << 10}
	ps := sizes[variant%2]
	lastShort := []int{0, 100, fixture.Block + 7}[(variant/2)%3]
	g := smallGeo(ps, 3, lastShort, uint64(variant)*977+13)
	kind := (variant / 6) % 9
	p := 0
	if (variant/54)%2 == 1 {
		p = 2 // the short last piece
	}
	other := (p + 1) % 3
	fill := fillOps(g, p)
	rd := op{K: opRead, Off: int64(p)*int64(ps) + 5, Len: 1000}
	rd2 := op{K: opRead, Off: int64(p) * int64(ps), Len: int(ps) + 9}
	lastB := g.BlocksIn(p) - 1
	switch kind {
	case 0: // Finalise || AddData same piece (corrupt dup) || Read
		return &scenario{Name: "fin||add-same", Geo: g, Setup: fill,
			Workers: [][]op{{{K: opFin, P: p, Var: "right"}, rd}, {{K: opAdd, P: p, B: lastB, Var: "corrupt"}, rd2}}, FinalDel: true}
	case 1: // last block arrives while another goroutine finalises/reads
		return &scenario{Name: "lastblock||fin||read", Geo: g, Setup: fill[:len(fill)-1],
			Workers: [][]op{{fill[len(fill)-1], {K: opFin, P: p, Var: "right"}, rd}, {{K: opFin, P: p, Var: "right"}, rd}, {rd2}}, FinalDel: true}
	case 2: // Finalise || Expire(0) || Read
		return &scenario{Name: "fin||expire||read", Geo: g, Setup: fill,
			Workers: [][]op{{{K: opFin, P: p, Var: "right"}, rd}, {{K: opExpire, Target: 0}, rd}, {rd, rd2}}, FinalDel: true}
	case 3: // Finalise || Del || AddData other piece
		return &scenario{Name: "fin||del||add-other", Geo: g, Setup: fill,
			Workers: [][]op{{{K: opFin, P: p, Var: "right"}, rd}, {{K: opDel}}, {{K: opAdd, P: other, B: 0, Var: "valid"}, {K: opAdd, P: p, B: 0, Var: "valid"}, rd}}}
	case 8: // Finalise || Del || another piece is filled, verified and read meanwhile (Del waits for the hasher)
		w := append(append([]op(nil), fillOps(g, other)...), op{K: opFin, P: other, Var: "right"},
			op{K: opRead, Off: int64(other)*int64(ps) + 5, Len: 1000})
		return &scenario{Name: "fin||del||fill-other+fin+read", Geo: g, Setup: fill,
			Workers: [][]op{{{K: opFin, P: p, Var: "right"}, rd}, {{K: opDel}, {K: opRead, Off: int64(other)*int64(ps) + 5, Len: 1000}}, w}}
	case 4: // Finalise(wrong) || Read || AddData
		return &scenario{Name: "finwrong||read||add", Geo: g, Setup: fill,
			Workers: [][]op{{{K: opFin, P: p, Var: "wrong"}, rd}, {rd, rd2}, {{K: opAdd, P: p, B: 0, Var: "valid"}, {K: opFin, P: p, Var: "right"}}}, FinalDel: true}
	case 5: // two Finalise
		return &scenario{Name: "fin||fin", Geo: g, Setup: fill,
			Workers: [][]op{{{K: opFin, P: p, Var: "right"}, rd}, {{K: opFin, P: p, Var: "right"}, rd}, {{K: opExpire, Target: 0}}}, FinalDel: true}
	case 6: // corrupt piece: finalise must discard, re-download, complete
		c := append([]op(nil), fill...)
		c[0].Var = "corrupt"
		return &scenario{Name: "corrupt||refill", Geo: g, Setup: c,
			Workers: [][]op{{{K: opFin, P: p, Var: "right"}, rd}, {{K: opAdd, P: p, B: 0, Var: "valid"}, rd2}}, FinalDel: true}
	default: // complete piece: evict || read || re-add
		s := append(append([]op(nil), fill...), op{K: opFin, P: p, Var: "right"})
		return &scenario{Name: "complete:expire||read||readd", Geo: g, Setup: s,
			Workers: [][]op{{{K: opExpire, Target: 0}, rd}, {rd, rd2}, {{K: opAdd, P: p, B: 0, Var: []string{"valid", "corrupt"}[(variant/2)%2]}, {K: opUpd, P: p}}}, FinalDel: true}
	}
}

// random program on one store
func randomScenario(r *rand.Rand) *scenario {
	sizes := []uint32{16 << 10, 32 << 10, 128 << 10, 256 << 10}
	g := fixture.RandGeo(r, 4*256<<10, sizes)
	np := g.NumPieces()
	hot := []int{r.IntN(np)}
	if np > 1 && r.IntN(2) == 0 {
		hot = append(hot, np-1)
	}
	var setup []op
	for _, p := range hot {
		f := fillOps(g, p)
		switch r.IntN(3) {
		case 0:
		case 1:
			setup = append(setup, f[:len(f)-1]...)
		case 2:
			setup = append(setup, f...)
			if r.IntN(2) == 0 {
				setup = append(setup, op{K: opFin, P: p, Var: "right"})
			}
		}
	}
	nw := 2 + r.IntN(3)
	var ws [][]op
	for w := 0; w < nw; w++ {
		var prog []op
		for k := 0; k < 2+r.IntN(3); k++ {
			prog = append(prog, randOp(r, g, hot))
		}
		ws = append(ws, prog)
	}
	if r.IntN(3) == 0 {
		ws = append(ws, []op{{K: opDel}})
	}
	return &scenario{Name: "random", Geo: g, Setup: setup, Workers: ws, FinalDel: true}
}

type chooser interface {
	Choose(n int) int
}

type rndChooser struct{ r *rand.Rand }

func (c rndChooser) Choose(n int) int { return c.r.IntN(n) }

// runSched executes one schedule of a scenario in a fresh bubble.
// It returns the number of decisions with more than one option and the trace.
func runSched(t *testing.T, c *vk.C, prop string, sc *scenario, ch chooser) (decisions int, trace []string) {
	synctest.Test(t, func(t *testing.T) {
		enterBubble()
		base := alloc.Bytes()
		var clk int64
		s := newStore(c, prop, sc.Geo, &clk)
		for i, o := range sc.Setup {
			s.exec(99, o, uint64(i)*31+7)
		}
		ctrl := sched.New()
		verifhook.SetPoint(ctrl.Hook)
		defer verifhook.SetPoint(nil)
		done := make([]bool, len(sc.Workers))
		var dmu sync.Mutex
		for w := range sc.Workers {
			go func(w int) {
				ctrl.Register(w)
				for k, o := range sc.Workers[w] {
					ctrl.Park(w, "op.begin")
					s.exec(w, o, uint64(w*131+k*17+3))
				}
				ctrl.Unregister()
				dmu.Lock()
				done[w] = true
				dmu.Unlock()
			}(w)
		}
		spins := map[int]int{}
		for steps := 0; steps < 2000; steps++ {
			synctest.Wait()
			checkAccounting(c, prop, []*store{s}, base, "at-cut")
			checkBitmapModel(c, prop, s)
			tk := ctrl.Parked()
			dmu.Lock()
			alld := true
			for _, d := range done {
				alld = alld && d
			}
			dmu.Unlock()
			if len(tk) == 0 {
				if alld {
					break
				}
				time.Sleep(time.Millisecond) // sleepers (forced wait in del) need virtual time
				continue
			}
			// a goroutine spinning at del.wait is only offered while it can make progress elsewhere rarely
			opts := tk[:0:0]
			for _, x := range tk {
				if x.Name == "piece.del.wait" && spins[x.W] >= 2 && len(tk) > 1 {
					continue
				}
				opts = append(opts, x)
			}
			if len(opts) == 0 {
				opts = tk
			}
			i := 0
			if len(opts) > 1 {
				i = ch.Choose(len(opts))
				decisions++
			}
			x := opts[i]
			if x.Name == "piece.del.wait" {
				spins[x.W]++
			} else {
				for k := range spins {
					spins[k] = 0
				}
			}
			trace = append(trace, fmt.Sprintf("w%d@%s", x.W, strings.TrimPrefix(x.Name, "piece.")))
			ctrl.Release(x)
		}
		synctest.Wait()
		if tk := ctrl.Parked(); len(tk) > 0 {
			c.Inconclusive("schedule did not terminate within the step bound")
			ctrl.ReleaseAll()
			synctest.Wait()
		}
		for name, n := range ctrl.Seen {
			c.Count("yield:"+name, int64(n))
		}
		verifhook.SetPoint(nil)
		finish(c, prop, s, base, sc.FinalDel)
	})
	return
}

// finish: final oracles of a store history.
func finish(c *vk.C, prop string, s *store, base int64, finalDel bool) {
	checkAccounting(c, prop, []*store{s}, base, "at-end")
	checkBitmapModel(c, prop, s)
	deleted := false
	for _, e := range s.hist {
		if e.Op.K == opDel {
			deleted = true
		}
	}
	if !deleted && finalDel {
		s.exec(98, op{K: opDel}, 0)
		deleted = true
	}
	if deleted {
		// after Del returned: nothing readable (C01), everything released and nothing allocated afterwards (C03)
		for p := 0; p < s.geo.NumPieces(); p++ {
			s.exec(98, op{K: opRead, Off: int64(p) * int64(s.geo.PieceLen), Len: 64}, 0)
		}
		s.exec(98, op{K: opAdd, P: 0, B: 0, Var: "valid"}, 0)
		last := s.hist[len(s.hist)-1]
		if prop == "C03" && (last.Err == "" || last.Count != 0) {
			c.Violation("release", "add-after-del-accepted", fmt.Sprintf("AddData after Del returned (count=%d, err=%q)", last.Count, last.Err), map[string]any{"geo": s.geo.Desc()})
		}
		sn := s.snap()
		if prop == "C03" {
			c.Count("release_checks", 1)
			if sn.nonNil != 0 || sn.bufBytes != 0 {
				c.Violation("release", "buffers-after-del", fmt.Sprintf("after Del returned and all operations ended the store still owns %d buffers (%d bytes)", sn.nonNil, sn.bufBytes), map[string]any{"geo": s.geo.Desc(), "hist": tail(s.hist, 40)})
			}
			if alloc.Bytes() != base {
				c.Violation("release", "alloc-after-del", fmt.Sprintf("alloc.Bytes() is %d above the level before the store existed", alloc.Bytes()-base), map[string]any{"geo": s.geo.Desc(), "hist": tail(s.hist, 40)})
			}
		}
	}
	if prop == "C01" {
		s.checkVisibility()
	}
}

// checkBitmapModel (C03): a complete piece may disappear only through a reported
// eviction or Del.  "definitely complete" = a successful Finalise returned and no
// eviction report / Del / op has begun for it since.
func checkBitmapModel(c *vk.C, prop string, s *store) {
	if prop != "C03" {
		return
	}
	s.hmu.Lock()
	h := append([]ev(nil), s.hist...)
	s.hmu.Unlock()
	np := s.geo.NumPieces()
	lastFin := make([]int64, np)     // return stamp of the last successful finalise
	lastFinCall := make([]int64, np) // its call stamp
	lastKill := make([]int64, np)    // latest return stamp of an eviction report / Del touching the piece
	for _, e := range h {
		switch e.Op.K {
		case opFin:
			if e.Done && e.Ret > lastFin[e.Op.P] {
				lastFin[e.Op.P] = e.Ret
				lastFinCall[e.Op.P] = e.Call
			}
		case opExpire:
			for _, p := range e.Evicted {
				if e.Ret > lastKill[p] {
					lastKill[p] = e.Ret
				}
			}
		case opDel:
			for p := 0; p < np; p++ {
				if e.Ret > lastKill[p] {
					lastKill[p] = e.Ret
				}
			}
		}
	}
	// Stamps are taken by the caller before the call and after it returned, they are not
	// linearization points: a Del that waited for the hasher and freed the piece may stamp its
	// return before the Finalise goroutine stamps its own.  "Must still be complete" is therefore
	// only concluded when every kill had returned before the successful Finalise was even called.
	for p := 0; p < np; p++ {
		if lastKill[p] >= lastFinCall[p] {
			lastFin[p] = 0
		}
	}
	// ops in flight are not in the history yet; a conservative rule: only judge pieces when no
	// expire/del is in flight is not knowable here, so the caller invokes this only at cuts and we
	// only demand: finalised (returned) and never reported/deleted afterwards (by call stamp) => still complete.
	bm := s.ps.Bitmap()
	inflight := s.inflightKills()
	for p := 0; p < np; p++ {
		if lastFin[p] > 0 && lastKill[p] < lastFin[p] && !inflight {
			// any eviction that STARTED after the finalise and has not returned is in flight => skip (handled by inflight)
			if !bm.Get(p) {
				c.Violation("eviction-report", "complete-piece-dropped-unreported", fmt.Sprintf("piece %d was finalised successfully and no eviction was reported nor Del called, yet it is no longer complete", p), map[string]any{"geo": s.geo.Desc(), "hist": tail(h, 30)})
			} else {
				c.Count("bitmap_model_agree", 1)
			}
		}
	}
}

// inflightKills is true while an Expire or Del call has begun and not returned.
func (s *store) inflightKills() bool { return atomicLoad(&s.kills) > 0 }

func TestCheck(t *testing.T) {
	prop := os.Getenv("VERIF_PROP")
	if prop == "" {
		prop = "C01"
	}
	part := os.Getenv("VERIF_PART")
	r := vk.New(prop)
	defer r.Done()
	switch {
	case strings.HasPrefix(part, "stress"):
		stress(t, r, prop)
	case strings.HasPrefix(part, "lru"):
		lru(t, r, prop)
	case strings.HasPrefix(part, "uaf"):
		uaf(t, r, prop)
	default:
		schedPart(t, r, prop)
	}
	r.Finish()
}

func schedPart(t *testing.T, r *vk.Run, prop string) {
	nTemplates := 108
	budget := r.Env.N(25, 3000) // schedules per templated scenario (DFS, may exhaust earlier)
	nRandom := r.Env.N(400, 20000)
	perRandom := r.Env.N(3, 8)
	idx := 0
	for v := 0; v < nTemplates; v++ {
		i := idx
		idx++
		if !r.Mine(i) {
			continue
		}
		sc := templates(v, r.Env.Rng(i))
		c := r.Begin(i, sc.desc(map[string]any{"mode": "dfs", "budget": budget}))
		var d sched.DFS
		nontriv := false
		for !d.Done && d.Runs < budget && !c.Violated() {
			d.Begin()
			dec, tr := runSched(t, c, prop, sc, &d)
			d.End()
			c.Count("schedules", 1)
			if dec >= 2 {
				nontriv = true
			}
			markSchedule(c, sc.Name, v, tr, dec)
		}
		if d.Done {
			c.Count("dfs_exhausted_scenarios", 1)
		} else {
			// depth-first order spends a small budget on the last decisions only: add as many PRNG-chosen schedules
			rng := r.Env.Rng(i)
			for j := 0; j < 2*budget && !c.Violated(); j++ {
				dec, tr := runSched(t, c, prop, sc, rndChooser{rng})
				c.Count("schedules", 1)
				if dec >= 2 {
					nontriv = true
				}
				markSchedule(c, sc.Name, v, tr, dec)
			}
		}
		c.FP(vk.Hash64("tmpl", v), nontriv)
		c.End()
	}
	for k := 0; k < nRandom; k++ {
		i := idx
		idx++
		if !r.Mine(i) {
			continue
		}
		rng := r.Env.Rng(i)
		sc := randomScenario(rng)
		c := r.Begin(i, sc.desc(map[string]any{"mode": "random", "schedules": perRandom}))
		nontriv := false
		for j := 0; j < perRandom && !c.Violated(); j++ {
			dec, tr := runSched(t, c, prop, sc, rndChooser{rng})
			c.Count("schedules", 1)
			if dec >= 2 {
				nontriv = true
			}
			markSchedule(c, sc.Name, i, tr, dec)
		}
		c.FP(vk.Hash64("rand", i), nontriv)
		c.End()
	}
}

var schedSeen = map[string]bool{}

func markSchedule(c *vk.C, name string, v int, tr []string, dec int) {
	k := vk.Hash64(name, v, strings.Join(tr, ","))
	if !schedSeen[k] {
		schedSeen[k] = true
		c.Count("distinct_schedules", 1)
		if dec >= 2 {
			c.Count("distinct_schedules_with_interleaving", 1)
		}
	}
}

// ---- stress: free running, race detector, barriers ----

func stress(t *testing.T, r *vk.Run, prop string) {
	batches := r.Env.N(48, 1200)
	for i := 0; i < batches; i++ {
		if !r.Mine(i) {
			continue
		}
		rng := r.Env.Rng(i)
		sizes := []uint32{16 << 10, 64 << 10, 128 << 10, 256 << 10}
		nst := 1 + rng.IntN(3)
		var geos []*fixture.Geo
		for k := 0; k < nst; k++ {
			geos = append(geos, fixture.RandGeo(rng, 6*256<<10, sizes))
		}
		nw := 4 + rng.IntN(9)
		rounds := 6
		opsPer := 12
		d := map[string]any{"mode": "stress", "stores": nst, "workers": nw, "rounds": rounds, "ops_per_round": opsPer, "geo0": geos[0].Desc()}
		c := r.Begin(i, d)
		base := alloc.Bytes()
		var clk int64
		var stores []*store
		for _, g := range geos {
			stores = append(stores, newStore(c, prop, g, &clk))
		}
		// yield points inject scheduling noise
		var hseed uint64 = uint64(i)*7919 + 1
		var hmu sync.Mutex
		verifhook.SetPoint(func(name string) {
			hmu.Lock()
			hseed = hseed*6364136223846793005 + 1442695040888963407
			x := hseed >> 33
			hmu.Unlock()
			switch x % 8 {
			case 0, 1, 2:
				runtime.Gosched()
			case 3:
				time.Sleep(time.Duration(x%50) * time.Microsecond)
			}
		})
		overlapFin := false
		for round := 0; round < rounds; round++ {
			var wg sync.WaitGroup
			progs := make([][]struct {
				s int
				o op
			}, nw)
			for w := 0; w < nw; w++ {
				for k := 0; k < opsPer; k++ {
					si := rng.IntN(nst)
					g := geos[si]
					hot := []int{rng.IntN(g.NumPieces()), g.NumPieces() - 1}
					o := randOp(rng, g, hot[:1+rng.IntN(2)])
					if rng.IntN(6) == 0 { // make completion likely: deliver whole pieces
						for _, f := range fillOps(g, hot[0]) {
							progs[w] = append(progs[w], struct {
								s int
								o op
							}{si, f})
						}
						o = op{K: opFin, P: hot[0], Var: "right"}
					}
					progs[w] = append(progs[w], struct {
						s int
						o op
					}{si, o})
				}
			}
			delStore := -1
			if round == rounds-1 {
				delStore = rng.IntN(nst) // a final Del racing everything
			}
			for w := 0; w < nw; w++ {
				wg.Add(1)
				go func(w int) {
					defer wg.Done()
					for k, x := range progs[w] {
						stores[x.s].exec(w, x.o, uint64(w*1009+k*31+round))
					}
				}(w)
			}
			if delStore >= 0 {
				wg.Add(1)
				go func() {
					defer wg.Done()
					time.Sleep(time.Duration(rng.IntN(300)) * time.Microsecond)
					stores[delStore].exec(97, op{K: opDel}, 0)
				}()
			}
			wg.Wait()
			// barrier: every worker has returned => quiescent cut
			checkAccounting(c, prop, stores, base, "at-barrier")
			for _, s := range stores {
				checkBitmapModel(c, prop, s)
			}
		}
		verifhook.SetPoint(nil)
		for _, s := range stores {
			for _, e := range s.hist {
				if e.Op.K == opFin && e.Done {
					overlapFin = true
				}
			}
			finish(c, prop, s, alloc.Bytes()-s.snap().bufBytes, true)
		}
		if alloc.Bytes() != base && prop == "C03" {
			c.Violation("release", "alloc-after-all-del", fmt.Sprintf("alloc.Bytes() is %d above the baseline after every store was deleted", alloc.Bytes()-base), d)
		}
		c.FP(vk.Hash64("stress", i), overlapFin)
		c.End()
	}
}

// ---- uaf: long copies out of mmap'd pieces racing eviction ----
// Pieces of 1-4 MiB live in mmap'd memory; a reader that still touches the buffer after
// the store let go of it faults (SIGSEGV kills the child, the runner attributes it) or
// returns bytes that are not the truth.  Readers copy whole pieces in a loop while a
// mutator fills, finalises and evicts the same pieces.
func uaf(t *testing.T, r *vk.Run, prop string) {
	n := r.Env.N(48, 2000)
	for i := 0; i < n; i++ {
		if !r.Mine(i) {
			continue
		}
		rng := r.Env.Rng(i)
		ps := []uint32{1 << 20, 2 << 20, 4 << 20}[rng.IntN(3)]
		g := smallGeo(ps, 2, []int{0, 5, fixture.Block + 1}[rng.IntN(3)], rng.Uint64())
		d := map[string]any{"mode": "uaf", "geo": g.Desc()}
		c := r.Begin(i, d)
		base := alloc.Bytes()
		var clk int64
		s := newStore(c, prop, g, &clk)
		stop := make(chan struct{})
		var wg sync.WaitGroup
		nr := 2 + rng.IntN(5)
		// every 16th ReadAt lingers between its look at the piece and taking the lock (yield point
		// piece.readat.prelock), long enough for an eviction and the start of a refill
		var tick atomic.Int64
		verifhook.SetPoint(func(name string) {
			if name == "piece.readat.prelock" && tick.Add(1)%16 == 0 {
				time.Sleep(time.Duration(20+tick.Load()%200) * time.Microsecond)
			}
		})
		var reads, withData int64
		var cmu sync.Mutex
		for w := 0; w < nr; w++ {
			wg.Add(1)
			go func(w int) {
				defer wg.Done()
				buf := make([]byte, int(ps))
				k := 0
				for {
					select {
					case <-stop:
						return
					default:
					}
					p := k % g.NumPieces()
					k++
					off := int64(p) * int64(ps)
					n, _ := s.ps.ReadAt(buf, off)
					cmu.Lock()
					reads++
					if n > 0 {
						withData++
					}
					cmu.Unlock()
					if n > 0 && prop == "C01" {
						tr := g.Truth(off, n)
						for j := 0; j < n; j += 4099 {
							if tr[j] != buf[j] {
								c.Violation("content", "read-content uaf", fmt.Sprintf("ReadAt of a %d-byte piece returned a byte that differs from the truth at +%d while the piece was being evicted and refilled", n, j), d)
								return
							}
						}
					}
				}
			}(w)
		}
		rounds := 12
		for round := 0; round < rounds && !c.Violated(); round++ {
			for p := 0; p < g.NumPieces(); p++ {
				for _, o := range fillOps(g, p) {
					s.exec(90, o, 0)
				}
				s.exec(90, op{K: opFin, P: p, Var: "right"}, 0)
			}
			time.Sleep(time.Duration(50+rng.IntN(300)) * time.Microsecond)
			s.exec(90, op{K: opExpire, Target: 0}, 0)
		}
		close(stop)
		wg.Wait()
		verifhook.SetPoint(nil)
		c.Count("uaf_reads", reads)
		c.Count("uaf_reads_with_data", withData)
		s.exec(90, op{K: opDel}, 0)
		if prop == "C03" && alloc.Bytes() != base {
			c.Violation("release", "alloc-after-del uaf", fmt.Sprintf("alloc.Bytes() is %d above the baseline", alloc.Bytes()-base), d)
		}
		c.FP(vk.Hash64("uaf", ps, nr), withData > 0)
		c.End()
	}
}
