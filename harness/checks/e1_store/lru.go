package e1

import (
	"fmt"
	"sort"
	"syscall"
	"testing"
	"testing/synctest"
	"time"

	"github.com/jech/storrent/alloc"
	"github.com/jech/storrent/mono"
	"github.com/jech/storrent/verifhook"
	"verifharness/fixture"
	"verifharness/vk"
)

// lru: sequential eviction passes with ages produced by virtual sleeps.
// Oracles (C03): pass reaches the target unless nothing evictable remains;
// no survivor is strictly older (in the code's documented order: least
// recently accessed first; beyond 2 h commonest first) than an evicted piece;
// exactly the complete pieces that were dropped are reported.
func lru(t *testing.T, r *vk.Run, prop string) {
	n := r.Env.N(300, 20000)
	for i := 0; i < n; i++ {
		if !r.Mine(i) {
			continue
		}
		rng := r.Env.Rng(i)
		ps := []uint32{16 << 10, 32 << 10, 128 << 10, 256 << 10}[rng.IntN(4)]
		g := smallGeo(ps, 4+rng.IntN(10), []int{0, 1, fixture.Block + 3}[rng.IntN(3)], rng.Uint64())
		np := g.NumPieces()
		d := map[string]any{"mode": "lru", "geo": g.Desc()}
		c := r.Begin(i, d)
		synctest.Test(t, func(t *testing.T) {
			enterBubble()
			base := alloc.Bytes()
			var clk int64
			s := newStore(c, prop, g, &clk)
			if ps >= 128<<10 && rng.IntN(2) == 0 {
				// fault: mapping the buffer of a piece fails (ENOMEM at the fault point before alloc's mmap call).
				// AddData must report it, and nothing may be accounted for the buffer that does not exist.
				p := rng.IntN(np)
				if g.PieceSize(p) < 128<<10 {
					p = 0 // a short last piece is not mapped, its buffer comes from the Go heap
				}
				fails := 1 + rng.IntN(3)
				n := 0
				verifhook.SetFault(func(name string) error {
					if name == "alloc.mmap" && n < fails {
						n++
						return syscall.ENOMEM
					}
					return nil
				})
				for k := 0; k < fails; k++ {
					_, _, err := s.ps.AddData(uint32(p), 0, g.Truth(int64(p)*int64(ps), fixture.Block), 0)
					if err == nil {
						c.Violation("accounting", "alloc-failure-not-reported", fmt.Sprintf("AddData for piece %d returned no error although the buffer could not be mapped", p), d)
					}
				}
				verifhook.SetFault(nil)
				c.Count("alloc_failures_injected", int64(n))
				checkAccounting(c, prop, []*store{s}, base, "after-failed-alloc")
				if got := s.ps.Bytes(); got != 0 {
					c.Violation("accounting", "bytes-after-failed-alloc", fmt.Sprintf("Pieces.Bytes() is %d after %d failed allocations and nothing else", got, n), d)
				}
			}
			state := make([]string, np)
			for p := 0; p < np; p++ {
				f := fillOps(g, p)
				switch rng.IntN(6) {
				case 0:
					state[p] = "empty"
				case 5:
					// a buffer with nothing in it yet: the first bytes of a block arrived (a web-seed transfer cut
					// short, a peer's truncated block); the piece holds memory although no 16 KiB chunk is stored
					state[p] = "buffer-only"
					n := 1 + rng.IntN(fixture.Block-1)
					if n > g.PieceSize(p) {
						n = g.PieceSize(p)
					}
					s.ps.AddData(uint32(p), 0, g.Truth(int64(p)*int64(ps), n), 0)
					if _, bm := s.ps.PieceBitmap(uint32(p)); bm.Count() != 0 {
						state[p] = "partial"
					}
				case 1:
					state[p] = "partial"
					for _, o := range f[:1+rng.IntN(len(f))] {
						s.exec(0, o, 0)
					}
					if s.ps.PieceEmpty(uint32(p)) {
						state[p] = "empty"
					}
					_, bm := s.ps.PieceBitmap(uint32(p))
					if bm.Count() == g.BlocksIn(p) {
						state[p] = "full"
					}
				case 2:
					state[p] = "full"
					for _, o := range f {
						s.exec(0, o, 0)
					}
				default:
					state[p] = "complete"
					for _, o := range f {
						s.exec(0, o, 0)
					}
					s.exec(0, op{K: opFin, P: p, Var: "right"}, 0)
				}
			}
			// ages
			tm := make([]mono.Time, np) // 0 = never accessed
			order := rng.Perm(np)
			gaps := []time.Duration{0, 0, time.Second, 3 * time.Second, time.Minute, time.Hour, 2 * time.Hour, 3 * time.Hour}
			for _, p := range order {
				if rng.IntN(6) == 0 {
					continue // never accessed
				}
				tm[p] = mono.Now()
				s.ps.UpdateTime(uint32(p))
				time.Sleep(gaps[rng.IntN(len(gaps))])
			}
			avail := make([]uint16, np)
			for p := range avail {
				avail[p] = uint16(rng.IntN(4))
			}
			if rng.IntN(4) == 0 {
				avail = avail[:rng.IntN(np)] // shorter table: missing entries count as 0
			}
			av := func(p int) uint16 {
				if p < len(avail) {
					return avail[p]
				}
				return 0
			}
			before := s.snap()
			bytesBefore := s.ps.Bytes()
			target := []int64{0, int64(ps), bytesBefore / 2, bytesBefore - int64(ps), bytesBefore, bytesBefore + 5}[rng.IntN(6)]
			if target < 0 {
				target = 0
			}
			now := mono.Now()
			var reported []uint32
			e := ev{W: 0, Op: op{K: opExpire, Target: target}, Call: s.stamp()}
			s.ps.Expire(target, avail, func(ix uint32) { reported = append(reported, ix) })
			e.Ret = s.stamp()
			e.Evicted = append([]uint32(nil), reported...)
			s.record(e)
			synctest.Wait()
			after := s.snap()
			if before.missing != "" || after.missing != "" {
				c.Inconclusive("reflect field missing")
				return
			}
			hb := before.has
			ha := after.has
			var evicted, survivors []int
			for p := 0; p < np; p++ {
				if hb[p] && !ha[p] {
					evicted = append(evicted, p)
				} else if hb[p] && ha[p] {
					survivors = append(survivors, p)
				}
			}
			c.Count("lru_passes", 1)
			c.Count("lru_evicted", int64(len(evicted)))
			rep := map[string]any{"geo": g.Desc(), "states": state, "target": target, "bytes_before": bytesBefore, "evicted": evicted, "survivors": survivors, "avail": avail}
			if prop == "C03" {
				if s.ps.Bytes() > target && len(survivors) > 0 {
					c.Violation("low-mark", "expire-stops-above-target", fmt.Sprintf("after an eviction pass with nothing busy Bytes()=%d > target %d while %d evictable pieces remain", s.ps.Bytes(), target, len(survivors)), rep)
				}
				age := func(p int) uint32 { return now.Sub(tm[p]) }
				before2 := func(a, b int) bool { // a strictly before b in the documented eviction order
					ta, tb := age(a), age(b)
					if ta >= 7200 && tb >= 7200 {
						if av(a) != av(b) {
							return av(a) > av(b)
						}
					}
					return ta > tb
				}
				for _, e := range evicted {
					for _, sv := range survivors {
						if before2(sv, e) {
							rep["ages"] = ages(np, age)
							c.Violation("lru", "survivor-older-than-evicted", fmt.Sprintf("piece %d (age %d s, avail %d) was evicted while piece %d (age %d s, avail %d) survived", e, age(e), av(e), sv, age(sv), av(sv)), rep)
							return
						}
					}
				}
				// reports: exactly the complete pieces that were dropped
				want := map[int]bool{}
				for _, e := range evicted {
					if before.complete[e] {
						want[e] = true
					}
				}
				got := map[int]bool{}
				for _, x := range reported {
					if got[int(x)] {
						c.Violation("eviction-report", "reported-twice", fmt.Sprintf("piece %d reported twice", x), rep)
					}
					got[int(x)] = true
				}
				for p := range want {
					if !got[p] {
						c.Violation("eviction-report", "complete-piece-dropped-unreported", fmt.Sprintf("complete piece %d was evicted without a callback", p), rep)
					}
				}
				for p := range got {
					if !want[p] {
						c.Violation("eviction-report", "reported-but-not-complete-evicted", fmt.Sprintf("callback for piece %d which was not a complete piece evicted by this pass", p), rep)
					}
				}
			}
			checkAccounting(c, prop, []*store{s}, base, "after-expire")
			finish(c, prop, s, base, true)
			cls := []string{}
			for _, e := range evicted {
				cls = append(cls, state[e])
			}
			sort.Strings(cls)
			c.FP(vk.Hash64("lru", len(evicted), len(survivors), cls, target == 0), len(evicted) > 0 && len(survivors) > 0)
		})
		c.End()
	}
}

func ages(np int, age func(int) uint32) []uint32 {
	out := make([]uint32, np)
	for p := range out {
		out[p] = age(p)
	}
	return out
}
