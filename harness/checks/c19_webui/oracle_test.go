package c19

import (
	"bytes"
	"fmt"
	"net/url"
	"regexp"
	"sort"
	"strings"

	"golang.org/x/net/html"

	"verifharness/vk"
)

type htok struct {
	typ        html.TokenType
	name       string
	attrs      []string
	start, end int
}

func tokenize(body []byte) []htok {
	var out []htok
	z := html.NewTokenizer(bytes.NewReader(body))
	off := 0
	for {
		tt := z.Next()
		raw := z.Raw()
		if tt == html.ErrorToken {
			return out
		}
		t := htok{typ: tt, start: off, end: off + len(raw)}
		off += len(raw)
		switch tt {
		case html.StartTagToken, html.EndTagToken, html.SelfClosingTagToken:
			tok := z.Token()
			t.name = tok.Data
			for _, a := range tok.Attr {
				t.attrs = append(t.attrs, a.Key)
			}
		case html.CommentToken:
			t.name = "#comment"
		case html.DoctypeToken:
			t.name = "#doctype"
		}
		out = append(out, t)
	}
}

var markerRE = regexp.MustCompile(`(?i)zq([A-O])q`)

func letterOf(s string) byte {
	m := markerRE.FindStringSubmatch(s)
	if m == nil {
		return 0
	}
	return strings.ToUpper(m[1])[0]
}

func around(body []byte, a, b int) string {
	a -= 60
	b += 60
	if a < 0 {
		a = 0
	}
	if b > len(body) {
		b = len(body)
	}
	return fmt.Sprintf("%q", body[a:b])
}

// judgeHTML flags markup made from taint.  For every verbatim copy of a taint
// string in the page (a string with metacharacters that occurs verbatim is by
// definition not escaped) it asks whether the copy had an effect on the token
// stream: (a) a "<" of the copy starts a markup token, lies in a markup token
// that began inside the same copy, or was swallowed by an unterminated tag at
// the end of the page; (b) the copy sits inside a tag emitted by the template
// and the marker ended up in an attribute name (quote break-out).  Tokens
// opened by another site's copy are that site's business.  Returns true if
// anything was flagged.
func judgeHTML(c *vk.C, w *world2, p page, rep any) bool {
	toks := tokenize(p.body)
	consumed := 0
	if len(toks) > 0 {
		consumed = toks[len(toks)-1].end
	}
	flagged := map[byte]bool{}
	flag := func(l byte, why string, a, b int) {
		if flagged[l] {
			return
		}
		flagged[l] = true
		viol(c, "inject", "inject-html src="+sources[l]+" page="+p.kind,
			fmt.Sprintf("GET %q: %s; taint %q (site %c) near %s", p.target, why, w.eff[l], l, around(p.body, a, b)), rep)
	}
	lower := strings.ToLower(string(p.body))
	type span struct {
		l    byte
		a, b int
	}
	var occ []span
	for l, s := range w.eff {
		if strings.Contains(lower, strings.ToLower(marker(l))) {
			c.Count("seen:"+sources[l]+"@"+p.kind, 1)
		}
		// the string itself and, if it carries percent escapes, what they stand for: a page that shows the
		// decoded form of an escaped "<" shows a "<"
		cands := []string{s}
		if dec, err := url.PathUnescape(s); err == nil && dec != s {
			cands = append(cands, dec)
		}
		for _, cs := range cands {
			if !strings.ContainsAny(cs, "<\"'") {
				continue
			}
			from := 0
			for {
				i := bytes.Index(p.body[from:], []byte(cs))
				if i < 0 {
					break
				}
				occ = append(occ, span{l, from + i, from + i + len(cs)})
				from += i + 1
			}
		}
	}
	inOcc := func(pos int) (byte, bool) { // position inside some verbatim copy
		for _, o := range occ {
			if pos >= o.a && pos < o.b {
				return o.l, true
			}
		}
		return 0, false
	}
	cover := func(pos int) *htok {
		for i := range toks {
			if pos >= toks[i].start && pos < toks[i].end {
				return &toks[i]
			}
		}
		return nil
	}
	for _, o := range occ {
		// (a) the copy's own "<" characters
		for pos := o.a; pos < o.b; pos++ {
			if p.body[pos] != '<' {
				continue
			}
			t := cover(pos)
			switch {
			case t == nil && pos >= consumed:
				// swallowed by an unterminated construct: whose?
				if consumed >= o.a {
					flag(o.l, "the taint opens a tag that is never closed and swallows the rest of the page", o.a, o.b)
				}
			case t == nil || t.typ == html.TextToken:
			case t.start == pos:
				flag(o.l, fmt.Sprintf("a \"<\" of the taint starts markup token <%s> (%v)", t.name, t.typ), o.a, o.b)
			case t.start >= o.a:
				flag(o.l, fmt.Sprintf("markup token <%s> (%v) begins inside the taint", t.name, t.typ), o.a, o.b)
			}
		}
		// (b) the copy sits inside a tag of the template
		t := cover(o.a)
		if t != nil && t.typ != html.TextToken && t.start < o.a {
			if _, foreign := inOcc(t.start); !foreign {
				for _, an := range t.attrs {
					if letterOf(an) == o.l {
						flag(o.l, fmt.Sprintf("attribute name %q of the template's <%s> comes from the taint (quote break-out)", an, t.name), o.a, o.b)
					}
				}
			}
		}
	}
	return len(flagged) > 0
}

func shape(t htok) string {
	return fmt.Sprintf("%v %s %v", t.typ, t.name, t.attrs)
}

// judgeTwin: catch-all.  The page rendered from the taint strings must have
// the same markup skeleton as the page rendered from same-length alphanumerics.
func judgeTwin(c *vk.C, pt, pb page, rep any) {
	var a, b []htok
	for _, t := range tokenize(pt.body) {
		if t.typ != html.TextToken {
			a = append(a, t)
		}
	}
	for _, t := range tokenize(pb.body) {
		if t.typ != html.TextToken {
			b = append(b, t)
		}
	}
	c.Count("twin_pages_compared", 1)
	// Compared as multisets: rows are sorted by name, so the order of rows may
	// legitimately differ between the two renderings.
	cnt := map[string]int{}
	first := map[string]int{}
	for _, t := range a {
		k := shape(t)
		cnt[k]++
		if _, ok := first[k]; !ok {
			first[k] = t.start
		}
	}
	for _, t := range b {
		cnt[shape(t)]--
	}
	var keys []string
	for k, n := range cnt {
		if n != 0 {
			keys = append(keys, fmt.Sprintf("%s x%+d", k, n))
		}
	}
	if len(keys) == 0 {
		return
	}
	sort.Strings(keys)
	at := len(pt.body)
	for k, n := range cnt {
		if n > 0 && first[k] < at {
			at = first[k]
		}
	}
	viol(c, "inject", "inject-html-structure page="+pt.kind,
		fmt.Sprintf("GET %q: markup tokens differ from the benign twin (token shape, surplus in tainted page): %v; first surplus token near %s", pt.target, keys, around(pt.body, at, at)), rep)
}

// judgePlaylist: 1 + 2*files lines, each produced by the template.
func judgePlaylist(c *vk.C, w *world2, p page, rep any) {
	if p.code != 200 {
		c.Inconclusive(fmt.Sprintf("playlist answered %d", p.code))
		return
	}
	body := string(p.body)
	lines := strings.Split(strings.TrimSuffix(body, "\n"), "\n")
	c.Count("playlist_lines", int64(len(lines)))
	want := 1 + 2*p.nfiles
	bad := -1
	for i, ln := range lines {
		ok := false
		switch {
		case i == 0:
			ok = ln == "#EXTM3U"
		case i%2 == 1:
			ok = strings.HasPrefix(ln, "#EXTINF:-1,")
		default:
			ok = strings.HasPrefix(ln, "http://"+bhost+"/") && !strings.ContainsAny(ln, " \t\r")
		}
		if !ok || i >= want {
			bad = i
			break
		}
	}
	if bad < 0 && len(lines) == want {
		return
	}
	// attribute to the taint whose marker is on the offending line or just before it
	src := "unknown"
	lo := bad - 1
	if bad < 0 {
		lo = len(lines) - 1
		bad = len(lines) - 1
	}
	if lo < 0 {
		lo = 0
	}
	// the marker survives URL escaping, so the entry's own URL line names it at the latest
	for i := lo; i < len(lines); i++ {
		if l := letterOf(lines[i]); l != 0 {
			src = sources[l]
			break
		}
	}
	viol(c, "inject", "playlist-lines src="+src,
		fmt.Sprintf("GET %q: %d lines for %d files (want %d); first line not produced by the template: #%d %q; body %q", p.target, len(lines), p.nfiles, want, bad, lines[min(bad, len(lines)-1)], clip(p.body, 400)), rep)
}

// viol records at most one violation per signature and case.
var sigSeen = map[string]bool{}

func viol(c *vk.C, kind, sig, detail string, rep any) {
	k := fmt.Sprintf("%d\x00%s", c.Index, sig)
	if sigSeen[k] {
		return
	}
	if len(sigSeen) > 4096 {
		sigSeen = map[string]bool{}
	}
	sigSeen[k] = true
	c.Violation(kind, sig, detail, rep)
}
