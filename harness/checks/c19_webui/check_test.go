// C19: the web UI is local-only and injection-free.
//
// Part A (this file): every route x method is sent with Host headers of
// several classes.  For a Host that is a DNS name other than "localhost" the
// answer must not be 2xx, must be byte-identical to the answer the same
// request got while the torrent table was empty (non-interference: nothing
// was read), must not contain a state-derived string absent from the request,
// and the torrent set, every torrent's configuration and the global rates
// must be unchanged.  Allowed hosts are driven too and counted, so that
// "refused" and "unchanged" are not vacuous.
//
// Part B (inject_test.go): taint strings through every output site.
package c19

import (
	"bytes"
	"encoding/base32"
	"encoding/hex"
	"fmt"
	"math/rand/v2"
	"mime/multipart"
	"net"
	"net/netip"
	"net/url"
	"sort"
	"strings"
	"testing"

	"github.com/jech/storrent/config"
	"github.com/jech/storrent/tor"
	"verifharness/fixture"
	"verifharness/vk"
)

// ---- reference host classification -----------------------------------------

// hostPart is the host as net/http sees it (port stripped when the value
// splits, the whole value otherwise).
func hostPart(h string) string {
	if !strings.Contains(h, ":") {
		return h
	}
	hp, _, err := net.SplitHostPort(h)
	if err != nil {
		return h
	}
	return hp
}

func isDNSName(s string) bool {
	s = strings.TrimSuffix(s, ".")
	if len(s) == 0 || len(s) > 253 {
		return false
	}
	labels := strings.Split(s, ".")
	for _, l := range labels {
		if len(l) == 0 || len(l) > 63 {
			return false
		}
		for i := 0; i < len(l); i++ {
			ch := l[i]
			ok := ch >= 'a' && ch <= 'z' || ch >= 'A' && ch <= 'Z' || ch >= '0' && ch <= '9' || ch == '-' || ch == '_'
			if !ok {
				return false
			}
		}
	}
	last := strings.ToLower(labels[len(labels)-1])
	numeric := true
	for i := 0; i < len(last); i++ {
		if last[i] < '0' || last[i] > '9' {
			numeric = false
		}
	}
	if numeric || strings.HasPrefix(last, "0x") {
		return false // a URL parser reads such a host as an IPv4 address
	}
	return true
}

// classify: "must-refuse" only for a syntactically valid DNS name that is not
// localhost under DNS comparison; "allowed" for exactly localhost or an IP
// literal; everything else is not judged (the statement does not speak of it).
func classify(h string) string {
	if h == "" {
		return "unjudged-empty"
	}
	hp := hostPart(h)
	if hp == "localhost" {
		return "allowed-localhost"
	}
	if _, err := netip.ParseAddr(hp); err == nil {
		return "allowed-ip"
	}
	if strings.EqualFold(strings.TrimSuffix(hp, "."), "localhost") {
		return "unjudged-localhost-variant"
	}
	if isDNSName(hp) {
		return "must-refuse"
	}
	return "unjudged-malformed"
}

func hostClass(h string) string {
	hp := hostPart(h)
	port := "port"
	if hp == h {
		port = "no-port"
	}
	switch {
	case strings.Contains(strings.ToLower(hp), "localhost"):
		return "localhost-lookalike/" + port
	case hp != "" && hp[0] >= '0' && hp[0] <= '9':
		return "ip-lookalike/" + port
	default:
		return "plain-dns/" + port
	}
}

var fixedHosts = []string{
	// allowed
	"localhost:8088", "127.0.0.1:8088", "[::1]:8088",
	// DNS names other than localhost
	"evil.com:8088", "evil.com", "localhost.evil.com:80", "127.0.0.1.evil.com:80", "evil.localhost:80",
	"xlocalhost:80", "localhostx:80", "local-host:8088", "a.b.example.org.:443", "EVIL.COM:80",
	"localhost.localdomain:80", "storrent:8088", "1.2.3.4.nip.io:80", "localhos:80", "ocalhost:8088",
	"evil.com:", "localhost.evil.com", "127.0.0.1.evil.com", "localhost.localhost:80", "www.localhost.:80",
	// not judged
	"", "LOCALHOST:80", "localhost.:80", "localhost:80.evil.com", "evil.com:80:80", "localhost",
	"LocalHost.:8088", "127.1:80", "::1", "localhost:", ":80", "[::1", "127.0.0.1",
}

func randHost(rng *rand.Rand) string {
	labels := []string{"evil", "com", "localhost", "LOCALHOST", "Localhost", "127", "0", "1", "example", "org", "local", "host", "xn--80ak6aa92e", "a-b", "_srv", "0x7f", "localdomain", "lan"}
	n := 1 + rng.IntN(4)
	var l []string
	for i := 0; i < n; i++ {
		l = append(l, vk.Pick(rng, labels))
	}
	h := strings.Join(l, ".")
	if rng.IntN(5) == 0 {
		h += "."
	}
	switch rng.IntN(8) {
	case 0:
	case 1:
		h += ":"
	case 2:
		h += ":80:80"
	case 3:
		h += ":http"
	default:
		h += fmt.Sprintf(":%d", []int{80, 443, 8088, 0, 65535}[rng.IntN(5)])
	}
	return h
}

// ---- state -------------------------------------------------------------------

type snapshot struct {
	Hashes []string
	Confs  []string
	Up     float64
	Idle   uint32
}

func snap() snapshot {
	var s snapshot
	for _, t := range fixture.LiveTorrents() {
		s.Hashes = append(s.Hashes, hex.EncodeToString(t.Hash))
		cf, err := t.GetConf()
		s.Confs = append(s.Confs, fmt.Sprintf("%+v/%v", cf, err))
	}
	s.Up = config.UploadRate()
	s.Idle = config.IdleRate()
	return s
}

func (s snapshot) String() string {
	return fmt.Sprintf("torrents=%v confs=%v upload=%v idle=%v", s.Hashes, s.Confs, s.Up, s.Idle)
}

const (
	defUpload = 512 * 1024
	defIdle   = 64 * 1024
)

type world struct {
	g1, g3  *fixture.Geo
	h, m    string // T1 (complete), T2 (magnet, incomplete)
	x, y    string // T3 (added by upload), T4 (added by magnet)
	magnet2 string
	magnet4 string
	leaks   []string
}

func newWorld(rng *rand.Rand) *world {
	w := &world{}
	w.g1 = &fixture.Geo{Name: "zqNameA", PieceLen: 16 << 10, Seed: rng.Uint64(),
		Files: []fixture.File{
			{Path: []string{"zqDirC", "zqFileD.bin"}, Length: 3000},
			{Path: []string{"zqDirC", "zqFileE.bin"}, Length: 0},
			{Path: []string{"zqFileF.bin"}, Length: 20000},
		},
		Trackers: [][]string{{"http://zqtrackerG.invalid/announce"}},
		URLList:  []string{"http://zqseedH.invalid/data/"},
	}
	w.g1.Length = 23000
	w.g3 = &fixture.Geo{Name: "zqNameJ", PieceLen: 16 << 10, Length: 5000, Seed: rng.Uint64()}
	w.h = hex.EncodeToString(w.g1.InfoHash())
	w.x = hex.EncodeToString(w.g3.InfoHash())
	var b [20]byte
	for i := range b {
		b[i] = byte(rng.UintN(256))
	}
	w.m = hex.EncodeToString(b[:])
	for i := range b {
		b[i] = byte(rng.UintN(256))
	}
	w.y = hex.EncodeToString(b[:])
	w.magnet2 = "magnet:?xt=urn:btih:" + w.m + "&dn=zqMagnetK&tr=" + url.QueryEscape("http://zqtrackerL.invalid/announce")
	w.magnet4 = "magnet:?xt=urn:btih:" + w.y + "&dn=zqMagnetM"
	w.leaks = []string{"zqNameA", "zqDirC", "zqFileD", "zqFileE", "zqFileF", "zqtrackerG", "zqseedH", "zqNameJ", "zqMagnetK", "zqtrackerL", "zqMagnetM",
		w.h, strings.ToUpper(w.h), w.m, strings.ToUpper(w.m), w.x, w.y,
		string(w.g1.Truth(0, 16)), string(w.g1.Truth(3000, 16))}
	return w
}

func (w *world) start() error {
	t1, err := w.g1.NewTorrent("")
	if err != nil {
		return err
	}
	if err := fixture.StartTorrent(t1, w.g1); err != nil {
		return err
	}
	t2, err := tor.ReadMagnet("", w.magnet2)
	if err != nil || t2 == nil {
		return fmt.Errorf("ReadMagnet: %v", err)
	}
	return fixture.StartTorrent(t2, nil)
}

type route struct {
	class   string // handler-level class for signatures
	target  string
	ctype   string
	body    []byte
	mutates bool
}

func multipartBody(fields map[string]string, fileField string, file []byte) (string, []byte) {
	var b bytes.Buffer
	mw := multipart.NewWriter(&b)
	mw.SetBoundary("zzboundaryzz")
	for k, v := range fields {
		mw.WriteField(k, v)
	}
	if fileField != "" {
		fw, _ := mw.CreateFormFile(fileField, "t.torrent")
		fw.Write(file)
	}
	mw.Close()
	return mw.FormDataContentType(), b.Bytes()
}

func (w *world) routes() []route {
	ue := "application/x-www-form-urlencoded"
	mpU, mpUb := multipartBody(map[string]string{"url": w.magnet4}, "", nil)
	mpF, mpFb := multipartBody(nil, "file", w.g3.Metainfo())
	st := "hash=" + w.h + "&dht-mode=passive&use-trackers=1&use-webseeds=1"
	hb, _ := hex.DecodeString(w.h)
	return []route{
		{"root /", "/", "", nil, false},
		{"root q=peers", "/?q=peers&hash=" + w.h, "", nil, false},
		{"root q=peers", "/?q=peers&hash=" + w.m, "", nil, false},
		{"root q=bogus", "/?q=bogus", "", nil, false},
		{"root q=add", "/?q=add&url=" + url.QueryEscape(w.magnet4), "", nil, true},
		{"root q=add", "/?q=add", ue, []byte("url=" + url.QueryEscape(w.magnet4)), true},
		{"root q=add", "/?q=add", mpU, mpUb, true},
		{"root q=add", "/?q=add", mpF, mpFb, true},
		{"root q=set", "/?q=set&upload=12345&idle=2345", "", nil, true},
		{"root q=set", "/?q=set", ue, []byte("upload=12345&idle=2345"), true},
		{"root q=set-torrent", "/?q=set-torrent&" + st, "", nil, true},
		{"root q=set-torrent", "/?q=set-torrent", ue, []byte(st), true},
		{"torroot hash", "/" + w.h, "", nil, false},
		{"torroot hash", "/" + w.m, "", nil, false},
		{"torroot .torrent", "/" + w.h + ".torrent", "", nil, false},
		{"torroot .m3u", "/" + w.h + ".m3u", "", nil, false},
		{"torroot .bogus", "/" + w.h + ".bogus", "", nil, false},
		{"tor dir", "/" + w.h + "/", "", nil, false},
		{"tor dir", "/" + w.m + "/", "", nil, false},
		{"tor dir", "/" + strings.ToUpper(w.h) + "/", "", nil, false},
		{"tor dir", "/" + base32.StdEncoding.EncodeToString(hb) + "/", "", nil, false},
		{"tor dir", "/" + w.h + "/zqDirC/", "", nil, false},
		{"tor file", "/" + w.h + "/zqDirC/zqFileD.bin", "", nil, false},
		{"tor file", "/" + w.h + "/zqFileF.bin", "", nil, false},
		{"tor playlist", "/" + w.h + "/?playlist", "", nil, false},
		{"tor playlist", "/" + w.h + "/zqDirC/?playlist", "", nil, false},
		// paths storrent declares nothing special for: whatever else is registered on the server's mux (debug
		// endpoints a library registers by being imported, metrics) sits behind the same Host check or nowhere
		{"other path", "/debug/pprof/", "", nil, false},
		{"other path", "/debug/pprof/cmdline", "", nil, false},
		{"other path", "/debug/pprof/goroutine?debug=1", "", nil, false},
		{"other path", "/debug/pprof/heap", "", nil, false},
		{"other path", "/debug/vars", "", nil, false},
		{"other path", "/debug/requests", "", nil, false},
		{"other path", "/debug/events", "", nil, false},
		{"other path", "/metrics", "", nil, false},
		{"other path", "/favicon.ico", "", nil, false},
		{"other path", "/robots.txt", "", nil, false},
		{"other path", "/index.html", "", nil, false},
		{"other path", "/.well-known/security.txt", "", nil, false},
		{"other path", "/a/b/c/d/e", "", nil, false},
		// destructive ones last (for the allowed hosts)
		{"root q=delete", "/?q=delete", ue, []byte("hash=" + w.h), true},
		{"root q=delete", "/?q=delete&hash=" + w.h, "", nil, true},
	}
}

var methods = []string{"GET", "HEAD", "POST", "PUT", "DELETE"}

type answer struct {
	code int
	hdr  string
	body []byte
}

func answerOf(r *fixture.Resp) answer {
	var ks []string
	for k := range r.Header {
		ks = append(ks, k)
	}
	sort.Strings(ks)
	var b strings.Builder
	for _, k := range ks {
		fmt.Fprintf(&b, "%s=%q;", k, r.Header[k])
	}
	return answer{r.Code, b.String(), append([]byte(nil), r.Body...)}
}

func clip(b []byte, n int) string {
	if len(b) > n {
		return string(b[:n]) + "…"
	}
	return string(b)
}

// restore puts the world back when a request that had to be refused changed it.
func (w *world) restore(want snapshot) {
	keep := map[string]bool{}
	for _, h := range want.Hashes {
		keep[h] = true
	}
	have := map[string]bool{}
	for _, t := range fixture.LiveTorrents() {
		hx := hex.EncodeToString(t.Hash)
		have[hx] = true
		if !keep[hx] {
			fixture.StopTorrent(t)
		}
	}
	config.SetUploadRate(want.Up)
	config.SetIdleRate(want.Idle)
	missing := false
	for h := range keep {
		if !have[h] {
			missing = true
		}
	}
	if missing || fmt.Sprint(snap()) != fmt.Sprint(want) {
		fixture.StopAll()
		if len(want.Hashes) > 0 {
			w.start()
		}
	}
}

func hostCase(c *vk.C, rng *rand.Rand, h string) {
	defer func() {
		if err := fixture.StopAll(); err != nil {
			c.Inconclusive("cleanup: " + err.Error())
		}
		config.SetUploadRate(defUpload)
		config.SetIdleRate(defIdle)
	}()
	config.SetUploadRate(defUpload)
	config.SetIdleRate(defIdle)
	w := newWorld(rng)
	cls := classify(h)
	routes := w.routes()
	c.Count("hosts:"+cls, 1)
	rep := map[string]any{"host": h}

	do := func(rt route, method string) (*fixture.Resp, string) {
		q := fixture.Req{Method: method, Target: rt.target, Host: h}
		if method == "POST" || method == "PUT" {
			q.ContentType, q.Body = rt.ctype, rt.body
		}
		r := fixture.Do(q)
		c.Count("requests", 1)
		what := fmt.Sprintf("%s %s Host=%q", method, rt.target, h)
		if r.Panic != "" {
			viol(c, "panic", "panic "+rt.class+" at "+r.PanicSite, what+": handler panic: "+r.Panic, rep)
		}
		return r, what
	}

	judgeRefused := func(rt route, method string, phase string, base *answer) answer {
		before := snap()
		r, what := do(rt, method)
		after := snap()
		a := answerOf(r)
		if r.BadTarget != "" || r.Panic != "" {
			return a
		}
		c.Count("refused_checked", 1)
		sfx := rt.class + " host=" + hostClass(h)
		if r.Code >= 200 && r.Code <= 299 {
			viol(c, "nonlocal", "nonlocal-2xx "+sfx, fmt.Sprintf("%s (%s): answered %d: %q", what, phase, r.Code, clip(r.Body, 200)), rep)
		}
		if fmt.Sprint(before) != fmt.Sprint(after) {
			viol(c, "nonlocal", "nonlocal-state-change "+sfx, fmt.Sprintf("%s (%s): state before {%v} after {%v}", what, phase, before, after), rep)
			w.restore(before)
		}
		reqText := rt.target + "\x00" + string(rt.body) + "\x00" + h
		all := a.hdr + "\x00" + string(a.body)
		for _, l := range w.leaks {
			if strings.Contains(all, l) && !strings.Contains(reqText, l) {
				viol(c, "nonlocal", "nonlocal-leak "+sfx, fmt.Sprintf("%s (%s): response contains state-derived %q: %d %q", what, phase, l, r.Code, clip(r.Body, 200)), rep)
				break
			}
		}
		if base != nil && (base.code != a.code || base.hdr != a.hdr || !bytes.Equal(base.body, a.body)) {
			viol(c, "nonlocal", "nonlocal-reads-state "+sfx, fmt.Sprintf("%s: answer depends on the torrent table: empty table -> %d %q; with torrents -> %d %q", what, base.code, clip(base.body, 120), a.code, clip(a.body, 120)), rep)
		}
		return a
	}

	if cls == "must-refuse" {
		// phase 0: empty table
		base := map[string]answer{}
		for _, rt := range routes {
			for _, m := range methods {
				base[m+" "+rt.target+" "+rt.ctype] = judgeRefused(rt, m, "empty table", nil)
			}
		}
		if err := w.start(); err != nil {
			c.Inconclusive("start: " + err.Error())
			return
		}
		for _, rt := range routes {
			for _, m := range methods {
				b := base[m+" "+rt.target+" "+rt.ctype]
				judgeRefused(rt, m, "with torrents", &b)
			}
		}
		c.FP(vk.Hash64("refuse", hostClass(h)), true)
		return
	}
	// allowed or not judged: drive and count
	if err := w.start(); err != nil {
		c.Inconclusive("start: " + err.Error())
		return
	}
	for _, rt := range routes {
		for _, m := range methods {
			before := snap()
			r, _ := do(rt, m)
			after := snap()
			if r.BadTarget != "" {
				continue
			}
			grp := "other"
			if strings.HasPrefix(cls, "allowed") {
				grp = "allowed"
			}
			if r.Code < 400 {
				c.Count(grp+"_answered", 1)
				if r.Code >= 200 && r.Code <= 299 {
					c.Count(grp+"_2xx:"+rt.class, 1)
				}
			} else {
				c.Count(grp+"_refused", 1)
			}
			if fmt.Sprint(before) != fmt.Sprint(after) {
				c.Count(grp+"_mutations", 1)
				c.Count(grp+"_mutations:"+rt.class, 1)
			}
		}
	}
	c.FP(vk.Hash64("drive", cls, hostClass(h)), strings.HasPrefix(cls, "allowed"))
}

func TestCheck(t *testing.T) {
	r := vk.New("C19")
	defer r.Done()
	fixture.FrontendInit()
	// Part A
	nRand := r.Env.N(0, 3000)
	nA := len(fixedHosts) + nRand
	for i := 0; i < nA; i++ {
		if !r.Mine(i) {
			continue
		}
		rng := r.Env.Rng(i)
		var h string
		if i < len(fixedHosts) {
			h = fixedHosts[i]
		} else {
			h = randHost(rng)
		}
		c := r.Begin(i, map[string]any{"part": "A", "host": h, "class": classify(h)})
		if fixture.Poisoned {
			c.Inconclusive("an earlier cleanup in this process failed")
			c.End()
			continue
		}
		hostCase(c, rng, h)
		c.End()
	}
	// Part B
	nB := r.Env.N(4*len(templates), 8000)
	for k := 0; k < nB; k++ {
		i := nA + k
		if !r.Mine(i) {
			continue
		}
		rng := r.Env.Rng(i)
		ts := makeTaints(rng, k, r.Env.Tier == "thorough" && k >= 4*len(templates))
		c := r.Begin(i, map[string]any{"part": "B", "single_file": (k/len(templates))%4 == 3, "taints": ts.describe()})
		if fixture.Poisoned {
			c.Inconclusive("an earlier cleanup in this process failed")
			c.End()
			continue
		}
		injectCase(c, rng, k, ts)
		c.End()
	}
	r.Finish()
}
