package c19

import (
	"crypto/sha1"
	"encoding/hex"
	"errors"
	"fmt"
	"io"
	"math/rand/v2"
	"net"
	"net/http"
	"net/netip"
	"net/url"
	"strings"
	"time"

	"context"

	"github.com/jech/storrent/hash"
	"github.com/jech/storrent/known"
	"github.com/jech/storrent/protocol"
	"github.com/jech/storrent/tor"
	"github.com/jech/storrent/tracker"
	"github.com/jech/storrent/webseed"
	"verifharness/fixture"
	"verifharness/refwire"
	"verifharness/vk"
)

const bhost = "localhost:8088"

// ---- taint strings -----------------------------------------------------------

var templates = []func(m string) string{
	func(m string) string { return "<b>" + m + "</b>" },
	func(m string) string { return `"` + m + `'` },
	func(m string) string { return m + "&x" },
	func(m string) string { return m + "\r\nINJECTED" },
	func(m string) string { return "</td><script>" + m + "</script>" },
	func(m string) string { return "<" + m + ">" },
	func(m string) string { return `" ` + m + `="1` },
	func(m string) string { return `' ` + m + `='1` },
	func(m string) string { return "<!--" + m },
	func(m string) string { return "</a></p></table><img src=x onerror=" + m + ">" },
	func(m string) string { return "&lt;" + m + "&gt;" },
	func(m string) string { return m + "<" },
	func(m string) string { return "<" + m },
	func(m string) string { return m + "\nhttp://evil.example/" + m },
	func(m string) string { return "</title></script></style></textarea><" + m + ">" }, // leaves RCDATA / raw-text contexts
	// the same with what real names end in: code that treats "the extension" separately sees these
	func(m string) string { return m + "\nhttp://evil.example/" + m + ".mp3" },
	func(m string) string { return m + "\r\n#EXTVLCOPT:" + m + ".ts" },
	func(m string) string { return "<b>" + m + "</b>.mkv" },
	func(m string) string { return m + ",\n" + m + ".m3u8" },
	// metacharacters behind percent escapes (harmless as they stand; markup once something decodes them)
	func(m string) string { return m + "%3Cscript%3E" + m + "%3C/script%3E" },
	func(m string) string { return "%22%3E%3Cimg%20src=x%20onerror=" + m + "%3E" },
	// a name that is nothing once commas and line breaks are taken out of it
	func(m string) string { return ",\n," },
	func(m string) string { return "\r\n" },
}

var idTemplates = []func(m string) string{ // six bytes
	func(m string) string { return "<" + m + ">" },
	func(m string) string { return `"` + m + `'` },
	func(m string) string { return m + "&x" },
	func(m string) string { return "<" + m + " " },
	func(m string) string { return `'` + m + `=` },
}

var frags = []string{"<", ">", `"`, "'", "&", "</", "<b>", "</td>", "<script>", "</script>", "<!--", "-->", "\r\n", "\n", " ", "=", "&lt;", "&#60;", ",", "\t", "<img src=x onerror=", "javascript:", ";", "</a>", "<a href=", "\x00", "\\", "</title>", "</script>", "</textarea>"}

// site letters and the input source they stand for
var sources = map[byte]string{
	'A': "torrent-name", 'B': "magnet-dn", 'C': "file-path", 'D': "file-path", 'E': "file-path",
	'F': "tracker-url", 'G': "tracker-url", 'H': "tracker-error", 'I': "webseed-url", 'J': "webseed-url",
	'K': "peer-version", 'L': "peer-id", 'M': "tracker-url", 'N': "webseed-url",
	'O': "tracker-peer-address",
}

const letters = "ABCDEFGHIJKLMNO"

func marker(l byte) string { return "zq" + string(l) + "q" }

type taints struct {
	raw map[byte]string
}

func makeTaints(rng *rand.Rand, k int, random bool) *taints {
	ts := &taints{raw: map[byte]string{}}
	for si := 0; si < len(letters); si++ {
		l := letters[si]
		m := marker(l)
		switch {
		case l == 'L':
			if random {
				ts.raw[l] = idTemplates[rng.IntN(len(idTemplates))](m)
			} else {
				ts.raw[l] = idTemplates[(k+si)%len(idTemplates)](m)
			}
		case random:
			var b strings.Builder
			for j := rng.IntN(4); j > 0; j-- {
				b.WriteString(vk.Pick(rng, frags))
			}
			b.WriteString(m)
			for j := rng.IntN(4); j > 0; j-- {
				b.WriteString(vk.Pick(rng, frags))
			}
			ts.raw[l] = b.String()
		default:
			ts.raw[l] = templates[(k+3*si)%len(templates)](m)
		}
	}
	return ts
}

func (ts *taints) describe() map[string]string {
	m := map[string]string{}
	for l, s := range ts.raw {
		m[string(l)+":"+sources[l]] = fmt.Sprintf("%q", s)
	}
	return m
}

func benign(s string) string {
	b := []byte(s)
	for i, ch := range b {
		if !(ch >= 'a' && ch <= 'z' || ch >= 'A' && ch <= 'Z' || ch >= '0' && ch <= '9') {
			b[i] = 'x'
		}
	}
	return string(b)
}

func noCtl(s string) string {
	var b strings.Builder
	isHex := func(c byte) bool { return c >= '0' && c <= '9' || c >= 'a' && c <= 'f' || c >= 'A' && c <= 'F' }
	for i := 0; i < len(s); i++ {
		if s[i] == '%' && i+2 < len(s)+0 && i+2 <= len(s)-1 && isHex(s[i+1]) && isHex(s[i+2]) {
			b.WriteByte(s[i]) // a well-formed percent escape stays (a stray '%' would make the URL unparseable)
			continue
		}
		if s[i] >= 0x20 && s[i] != 0x7f && s[i] != '%' && s[i] != '#' {
			b.WriteByte(s[i])
		}
	}
	return b.String()
}

func comp(s string) string {
	s = strings.ReplaceAll(s, "/", "")
	s = strings.ReplaceAll(s, "\x00", "")
	if s == "" || s == "." || s == ".." {
		s = "x" + s
	}
	return s
}

// ---- the world ---------------------------------------------------------------

type fakeTracker struct {
	url string
	err error
}

func (f *fakeTracker) URL() string { return f.url }
func (f *fakeTracker) GetState() (tracker.State, error) {
	return tracker.Error, f.err
}
func (f *fakeTracker) Announce(ctx context.Context, hash []byte, myid []byte, want int, size int64, port4, port6 int, proxy string, fn func(netip.AddrPort) bool) error {
	return f.err
}

type page struct {
	kind   string // root | dir | peers | playlist
	target string
	body   []byte
	nfiles int // playlists: files listed
	code   int
}

// eff holds, per site, the string actually handed to storrent.
type world2 struct {
	eff           map[byte]string
	single        bool
	pages         []page
	peersUnstable bool
	notes         []string
}

func connectPeer(t *tor.Torrent, id []byte, addr netip.AddrPort, ext refwire.Ext0) (net.Conn, error) {
	a, b := net.Pipe()
	go io.Copy(io.Discard, b)
	err := t.NewPeer("", a, addr, false, protocol.HandshakeResult{Hash: t.Hash, Id: hash.Hash(id), Extended: true, Fast: true}, nil)
	if err != nil {
		b.Close()
		return nil, err
	}
	b.SetWriteDeadline(time.Now().Add(10 * time.Second))
	if _, err := b.Write(refwire.Encode(refwire.Msg{Kind: refwire.KHaveNone})); err != nil {
		return b, err
	}
	if _, err := b.Write(refwire.Encode(refwire.Msg{Kind: refwire.KExtended, Sub: 0, Data: ext.Payload()})); err != nil {
		return b, err
	}
	return b, nil
}

func fetch(w *world2, kind, target string, nfiles int) *fixture.Resp {
	r := fixture.Get(target, bhost)
	w.pages = append(w.pages, page{kind: kind, target: target, body: append([]byte(nil), r.Body...), nfiles: nfiles, code: r.Code})
	return r
}

var errPanic = errors.New("handler panic")

// run builds the torrents from get(letter), renders every page and tears down.
func runWorld(c *vk.C, get func(byte) string, single bool, seed uint64, tainted bool, rep any) (*world2, error) {
	w := &world2{eff: map[byte]string{}, single: single}
	set := func(l byte, s string) string { w.eff[l] = s; return s }
	g := &fixture.Geo{Name: set('A', strings.ReplaceAll(get('A'), "\x00", "")), PieceLen: 16 << 10, Seed: seed}
	if g.Name == "" {
		g.Name = "x"
	}
	if single {
		g.Length = 1000
	} else {
		g.Files = []fixture.File{
			{Path: []string{set('C', comp(get('C'))), set('D', comp(get('D')))}, Length: 100},
			{Path: []string{w.eff['C'], "plain.bin"}, Length: 50},
			{Path: []string{set('E', comp(get('E')))}, Length: 70},
		}
		if w.eff['E'] == w.eff['C'] {
			g.Files[2].Path[0] += "2"
			w.eff['E'] += "2"
		}
		if w.eff['D'] == "plain.bin" {
			g.Files[0].Path[1] += "2"
			w.eff['D'] += "2"
		}
		g.Length = 220
	}
	info := g.Info()
	hs := sha1.Sum(info)
	var ann [][]tracker.Tracker
	for _, u := range []string{"http://t.example/ann?x=" + set('F', noCtl(get('F'))), "udp://t.example:6969/" + set('G', noCtl(get('G')))} {
		if tr := tracker.New(u); tr != nil {
			ann = append(ann, []tracker.Tracker{tr})
		} else {
			w.notes = append(w.notes, "tracker.New rejected "+u)
		}
	}
	ann = append(ann, []tracker.Tracker{&fakeTracker{url: "http://fake.example/ann", err: errors.New(set('H', get('H')))}})
	var wss []webseed.Webseed
	if ws := webseed.New("http://ws.example/d/"+set('I', noCtl(get('I'))), true); ws != nil {
		wss = append(wss, ws)
	}
	if ws := webseed.New("https://ws.example/h?x="+set('J', noCtl(get('J'))), false); ws != nil {
		wss = append(wss, ws)
	}
	t1, err := tor.New("", hash.Hash(hs[:]), "", info, 0, ann, wss)
	if err != nil {
		return w, err
	}
	if err := t1.MetadataComplete(); err != nil {
		return w, fmt.Errorf("MetadataComplete: %v", err)
	}
	if err := fixture.StartTorrent(t1, g); err != nil {
		return w, err
	}
	hx := hex.EncodeToString(hs[:])
	// peers
	var conns []net.Conn
	defer func() {
		for _, cn := range conns {
			cn.Close()
		}
	}()
	ver := set('K', get('K'))
	p1, p2 := int64(7001), int64(7002)
	id1 := append([]byte("-VF0001-"), []byte("abcdefghijkl")...)
	id2 := append([]byte("-"+set('L', get('L'))+"-"), []byte("mnopqrstuvwx")...)
	if len(id2) != 20 {
		return w, fmt.Errorf("peer id taint has %d bytes", len(id2)-14)
	}
	cn, err := connectPeer(t1, id1, netip.MustParseAddrPort("192.0.2.1:7001"), refwire.Ext0{V: &ver, P: &p1, M: map[string]int64{"ut_pex": 1}})
	if cn != nil {
		conns = append(conns, cn)
	}
	if err != nil {
		return w, fmt.Errorf("peer 1: %v", err)
	}
	cn, err = connectPeer(t1, id2, netip.MustParseAddrPort("192.0.2.2:7002"), refwire.Ext0{P: &p2, M: map[string]int64{"ut_pex": 1}})
	if cn != nil {
		conns = append(conns, cn)
	}
	if err != nil {
		return w, fmt.Errorf("peer 2: %v", err)
	}
	// a peer address as a tracker supplies it: the original (non-compact) reply format carries addresses as text,
	// and the text of an IPv6 address may end in a zone.  The reply goes through the real HTTP tracker client; what it
	// yields is added the way tor's announce callback adds it (AddKnown, kind Tracker).
	zone := set('O', get('O'))
	ipText := "2001:db8::7003%" + zone
	trackerPeers := 0
	{
		reply := fmt.Sprintf("d8:intervali1800e5:peersld2:ip%d:%s4:porti7003eeee", len(ipText), ipText)
		ln, err := net.Listen("tcp", "127.0.0.1:0")
		if err != nil {
			return w, fmt.Errorf("tracker listener: %v", err)
		}
		srv := &http.Server{Handler: http.HandlerFunc(func(rw http.ResponseWriter, r *http.Request) { rw.Write([]byte(reply)) })}
		go srv.Serve(ln)
		tr := tracker.New("http://" + ln.Addr().String() + "/announce")
		ctx, cancel := context.WithTimeout(context.Background(), 10*time.Second)
		err = tr.Announce(ctx, t1.Hash, t1.MyId, 50, g.Length, 0, 0, "", func(a netip.AddrPort) bool {
			if t1.AddKnown(a, nil, "", known.Tracker) == nil {
				trackerPeers++
			}
			return true
		})
		cancel()
		srv.Close()
		if err != nil {
			return w, fmt.Errorf("announce to the local tracker: %v", err)
		}
		if trackerPeers == 0 {
			w.notes = append(w.notes, "tracker client dropped the peer address "+fmt.Sprintf("%q", ipText))
			delete(w.eff, 'O')
		}
	}
	deadline := time.Now().Add(10 * time.Second)
	for {
		ks, _ := t1.GetKnowns()
		ps, _ := t1.GetPeers()
		gotV, got2 := ver == "", false
		got3 := trackerPeers == 0
		for _, k := range ks {
			if k.Version == ver && ver != "" {
				gotV = true
			}
			if k.Addr.Port() == 7002 && !k.SeenTime.IsZero() {
				got2 = true
			}
			if k.Addr.Port() == 7003 {
				got3 = true
			}
		}
		if gotV && got2 && got3 && len(ps) == 2 {
			for _, p := range ps {
				p.Log.SetOutput(io.Discard)
			}
			break
		}
		if time.Now().After(deadline) {
			return w, errors.New("scripted peers did not reach the known-peers table within 10 s")
		}
		time.Sleep(200 * time.Microsecond)
	}
	chk := func(r *fixture.Resp, what string) bool {
		if r.Panic != "" {
			viol(c, "panic", "panic "+what+" at "+r.PanicSite, fmt.Sprintf("GET %q: handler panic: %s", w.pages[len(w.pages)-1].target, r.Panic), rep)
			return false
		}
		return true
	}
	base := "/" + hx + "/"
	ok := chk(fetch(w, "root", "/", 0), "root")
	ok = chk(fetch(w, "dir", base, 0), "dir") && ok
	n := 3
	if single {
		n = 1
	}
	ok = chk(fetch(w, "playlist", "/"+hx+".m3u", n), "playlist") && ok
	ok = chk(fetch(w, "playlist", base+"?playlist", n), "playlist") && ok
	if !single {
		sub := base + url.PathEscape(w.eff['C']) + "/"
		ok = chk(fetch(w, "dir", sub, 0), "dir") && ok
		ok = chk(fetch(w, "playlist", sub+"?playlist", 2), "playlist") && ok
	}
	ok = chk(fetch(w, "peers", "/?q=peers&hash="+hx, 0), "peers") && ok
	ps, _ := t1.GetPeers()
	if len(ps) != 2 {
		w.peersUnstable = true
	}
	for _, p := range ps {
		if p.GetStats() == nil {
			w.peersUnstable = true
		}
	}
	if err := fixture.StopTorrent(t1); err != nil {
		return w, err
	}
	// the metadata-less torrent
	var mh [20]byte
	for i := range mh {
		mh[i] = byte(seed >> (uint(i%8) * 8))
	}
	mh[0] ^= 0x5a
	mx := hex.EncodeToString(mh[:])
	magnet := "magnet:?xt=urn:btih:" + mx + "&dn=" + url.QueryEscape(set('B', get('B'))) +
		"&tr=" + url.QueryEscape("http://mt.example/a?x="+set('M', noCtl(get('M')))) +
		"&ws=" + url.QueryEscape("http://mw.example/"+set('N', noCtl(get('N'))))
	t2, err := tor.ReadMagnet("", magnet)
	if err != nil || t2 == nil {
		return w, fmt.Errorf("ReadMagnet: %v", err)
	}
	if err := fixture.StartTorrent(t2, nil); err != nil {
		return w, err
	}
	ok = chk(fetch(w, "root", "/", 0), "root") && ok
	ok = chk(fetch(w, "dir", "/"+mx+"/", 0), "dir") && ok
	ok = chk(fetch(w, "peers", "/?q=peers&hash="+mx, 0), "peers") && ok
	if err := fixture.StopTorrent(t2); err != nil {
		return w, err
	}
	if !ok {
		return w, errPanic
	}
	return w, nil
}

func injectCase(c *vk.C, rng *rand.Rand, k int, ts *taints) {
	defer func() {
		if err := fixture.StopAll(); err != nil {
			c.Inconclusive("cleanup: " + err.Error())
		}
	}()
	single := (k/len(templates))%4 == 3
	seed := rng.Uint64()
	rep := map[string]any{"taints": ts.describe(), "single_file": single}
	wt, err := runWorld(c, func(l byte) string { return ts.raw[l] }, single, seed, true, rep)
	if err != nil {
		if err != errPanic {
			c.Inconclusive("tainted world: " + err.Error())
		}
		return
	}
	wb, err := runWorld(c, func(l byte) string { return benign(ts.raw[l]) }, single, seed, false, rep)
	if err != nil {
		if err != errPanic {
			c.Inconclusive("benign twin: " + err.Error())
		}
		return
	}
	if len(wt.pages) != len(wb.pages) {
		c.Inconclusive("page lists differ")
		return
	}
	nontrivial := false
	for i := range wt.pages {
		pt, pb := wt.pages[i], wb.pages[i]
		c.Count("requests", 2)
		c.Count("pages:"+pt.kind, 1)
		if pt.kind == "playlist" {
			judgePlaylist(c, wt, pt, rep)
			continue
		}
		if pt.code != 200 || pb.code != 200 {
			c.Inconclusive(fmt.Sprintf("page %s answered %d/%d", pt.kind, pt.code, pb.code))
			continue
		}
		hit := judgeHTML(c, wt, pt, rep)
		nontrivial = true
		if !hit {
			if pt.kind == "peers" && (wt.peersUnstable || wb.peersUnstable) {
				c.Inconclusive("a scripted peer died before the peers page was rendered")
				continue
			}
			judgeTwin(c, pt, pb, rep)
		}
	}
	var feat []string
	for si := 0; si < len(letters); si++ {
		t := ts.raw[letters[si]]
		feat = append(feat, fmt.Sprintf("%c%v%v%v", letters[si], strings.Contains(t, "<"), strings.ContainsAny(t, "\"'"), strings.Contains(t, "\n")))
	}
	c.FP(vk.Hash64("inject", single, feat), nontrivial)
}
