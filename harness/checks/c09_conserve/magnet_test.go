package c09

// Advertisements made before the torrent's metadata is known.  A torrent added by hash learns its geometry from
// its peers; until then a peer's have-all / have-none / have / bitfield cannot be laid out, only remembered.  When
// the metadata completes, what each peer is taken to have must be what it last said — the per-piece availability
// equals the number of peers advertising the piece (C09), and no request goes to a peer for a piece it has not
// advertised (C11).

import (
	"fmt"
	"math/rand/v2"
	"testing"
	"time"

	"verifharness/fixture"
	"verifharness/refwire"
	"verifharness/swarm"
	"verifharness/vk"
)

func magnetAdverts(t *testing.T, c *vk.C, prop string, rng *rand.Rand) map[string]int {
	st := map[string]int{}
	swarm.Run(t, c, prop, func(sw *swarm.Swarm) {
		g := fixture.RandGeo(rng, 1<<20, []uint32{16 << 10, 32 << 10, 64 << 10})
		if g.NumPieces() < 3 {
			g = &fixture.Geo{Name: "ma", PieceLen: 16 << 10, Length: 5*(16<<10) - 11, Seed: rng.Uint64()}
		}
		np := g.NumPieces()
		info := g.Info()
		tr := sw.AddTorrent(g, swarm.TorOpts{Magnet: true})
		bf := func(have func(int) bool) []byte {
			b := make([]byte, (np+7)/8)
			for p := 0; p < np; p++ {
				if have(p) {
					b[p/8] |= 0x80 >> uint(p%8)
				}
			}
			return b
		}
		x, y := uint32(rng.IntN(np)), uint32(rng.IntN(np))
		seqs := [][]refwire.Msg{
			{{Kind: refwire.KHaveAll}, {Kind: refwire.KHaveNone}},
			{{Kind: refwire.KHaveNone}, {Kind: refwire.KHaveAll}},
			{{Kind: refwire.KHaveAll}},
			{{Kind: refwire.KHaveNone}},
			{{Kind: refwire.KHaveAll}, {Kind: refwire.KHaveNone}, {Kind: refwire.KHave, Index: x}},
			{{Kind: refwire.KHaveNone}, {Kind: refwire.KHave, Index: x}, {Kind: refwire.KHave, Index: y}},
			{{Kind: refwire.KBitfield, Data: bf(func(p int) bool { return p%2 == 0 })}},
			{{Kind: refwire.KHaveAll}, {Kind: refwire.KBitfield, Data: bf(func(p int) bool { return p == int(x) })}},
			{{Kind: refwire.KBitfield, Data: bf(func(p int) bool { return true })}, {Kind: refwire.KHaveNone}},
		}
		nrem := 2 + rng.IntN(3)
		var rs []*swarm.Remote
		for k := 0; k < nrem; k++ {
			r := tr.Connect(swarm.RemoteOpts{Fast: true, Ext: true})
			r.SendExt0(swarm.StdExt0(0, int64(len(info))))
			var seq []refwire.Msg
			if k == 0 {
				seq = seqs[0] // every history has the peer that takes back a have-all
			} else {
				seq = seqs[rng.IntN(len(seqs))]
			}
			for _, m := range seq {
				r.Send(m)
				st["advert:"+string(m.Kind)]++
			}
			r.HonestAdvert = true
			rs = append(rs, r)
			sw.Cut()
		}
		if tr.T.InfoComplete() {
			c.Inconclusive("metadata known before anybody served it")
			return
		}
		time.Sleep(7 * time.Second) // the metadata tick sizes the buffer for the voted size
		sw.Cut()
		srv := rs[rng.IntN(len(rs))]
		id := byte(2)
		if e := srv.StExt(); e != nil && e.M != nil {
			if v, ok := e.M["ut_metadata"]; ok && v > 0 && v < 256 {
				id = byte(v)
			}
		}
		ts := int64(len(info))
		for ix := 0; ix*16384 < len(info); ix++ {
			end := (ix + 1) * 16384
			if end > len(info) {
				end = len(info)
			}
			m := refwire.Meta{Type: 1, Piece: int64(ix), TotalSize: &ts, Data: info[ix*16384 : end]}
			srv.SendRaw(refwire.Encode(refwire.Msg{Kind: refwire.KExtended, Sub: id, Data: m.Payload()}))
		}
		sw.Act("%s serves the metadata (%d bytes)", srv.Name, len(info))
		sw.Cut()
		for w := 0; w < 6 && !tr.T.InfoComplete(); w++ {
			time.Sleep(6 * time.Second)
			sw.Cut()
		}
		if !tr.T.InfoComplete() {
			c.Inconclusive("metadata did not complete after an honest pass")
			return
		}
		st["metadata_completed_after_adverts"]++
		tr.CheckConservation("after-metadata")
		// now everybody unchokes and somebody wants everything
		for _, r := range rs {
			if !r.Closed() {
				r.Send(refwire.Msg{Kind: refwire.KUnchoke})
			}
		}
		for p := 0; p < np; p++ {
			tr.T.Request(uint32(p), 1, true, false)
		}
		sw.Cut()
		for round := 0; round < 12; round++ {
			for _, r := range rs {
				if r.Closed() {
					continue
				}
				for _, k := range r.Outstanding() {
					r.Answer(k, "truth", 0)
					st["answer:truth"]++
				}
			}
			time.Sleep(300 * time.Millisecond)
			sw.Cut()
			tr.CheckConservation("magnet-download")
			if sw.C.Violated() {
				return
			}
		}
		for _, r := range rs {
			st["recv:request"] += r.Count(string(refwire.KRequest))
		}
		_ = fmt.Sprint
	})
	return st
}
