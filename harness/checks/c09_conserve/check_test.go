// C09 (scheduler bookkeeping is conserved) and C11 (everything storrent sends
// is protocol-conformant) share one swarm workload; VERIF_PROP selects whose
// monitors report.
package c09

import (
	"os"
	"testing"

	"verifharness/swarm"
	"verifharness/vk"
)

func TestCheck(t *testing.T) {
	prop := os.Getenv("VERIF_PROP")
	if prop == "" {
		prop = "C09"
	}
	r := vk.New(prop)
	defer r.Done()
	if prop == "C11" && os.Getenv("VERIF_PART") == "pex" {
		pexPart(t, r)
		r.Finish()
		return
	}
	if os.Getenv("VERIF_PART") == "large" {
		largePart(t, r, prop)
		r.Finish()
		return
	}
	n := r.Env.N(2000, 50000)
	if os.Getenv("VERIF_RACE_SUBSET") != "" {
		n = r.Env.N(400, 5000) // the -race part repeats a prefix of the same case list
	}
	for i := 0; i < n; i++ {
		if !r.Mine(i) {
			continue
		}
		rng := r.Env.Rng(i)
		o := swarm.DownloadOpts{MaxLen: 2 << 20, Steps: 40 + rng.IntN(40), Hostile: i%3 != 0, ManyPieces: i%10 == 9, InjectCommands: prop == "C11" && i%2 == 1}
		d := map[string]any{"workload": "download", "steps": o.Steps, "hostile": o.Hostile, "many_pieces": o.ManyPieces}
		c := r.Begin(i, d)
		var stats map[string]int
		swarm.Run(t, c, prop, func(sw *swarm.Swarm) {
			var tr *swarm.Tor
			tr, stats = swarm.RunDownload(sw, rng, o)
			d["geo"] = tr.Geo.Desc()
		})
		for k, v := range stats {
			c.Count(k, int64(v))
		}
		answered := stats["answer:truth"] > 0
		dropped := stats["choke"]+stats["disconnect"]+stats["answer:reject"] > 0
		c.FP(swarm.ClassOf(stats, "answer:truth", "answer:corrupt", "answer:short", "answer:empty", "answer:overlong", "answer:misplaced", "answer:duplicate", "answer:reject", "choke", "disconnect", "donthave", "bitfield-change", "evict", "recv:request", "recv:cancel"), answered && dropped && stats["recv:request"] > 0)
		c.End()
	}
	if os.Getenv("VERIF_RACE_SUBSET") == "" {
		nm := r.Env.N(96, 3000)
		for k := 0; k < nm; k++ {
			i := n + k
			if !r.Mine(i) {
				continue
			}
			c := r.Begin(i, map[string]any{"workload": "adverts-before-metadata"})
			st := magnetAdverts(t, c, prop, r.Env.Rng(i))
			for kk, v := range st {
				c.Count(kk, int64(v))
			}
			c.FP(swarm.ClassOf(st, "advert:haveall", "advert:havenone", "advert:have", "advert:bitfield", "recv:request"), st["metadata_completed_after_adverts"] > 0 && st["recv:request"] > 0)
			c.End()
		}
	}
	r.Finish()
}

func pexPart(t *testing.T, r *vk.Run) {
	n := r.Env.N(1000, 30000)
	for i := 0; i < n; i++ {
		if !r.Mine(i) {
			continue
		}
		rng := r.Env.Rng(i)
		d := map[string]any{"workload": "pex"}
		c := r.Begin(i, d)
		var stats map[string]int
		swarm.Run(t, c, "C11", func(sw *swarm.Swarm) {
			_, stats = swarm.RunPex(sw, rng)
		})
		for k, v := range stats {
			c.Count(k, int64(v))
		}
		c.FP(swarm.ClassOf(stats, "join", "leave", "rejoin", "bigpool", "congest", "pex_rounds_seen"), stats["leave"] > 0 && stats["pex_final_checks"] > 0)
		c.End()
	}
}
