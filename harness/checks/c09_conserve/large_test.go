package c09

// Torrents beyond 4 GiB: block numbers times 16 KiB no longer fit 32 bits, and piece lengths that are
// not powers of two make wrapped arithmetic visible. A seed advertises everything; pieces around the
// 4 GiB boundary and at the end are demanded; the remote's conformance monitors (C11) and the
// conservation monitors (C09) watch, and every demanded piece must arrive and verify (only those
// pieces carry real hashes).

import (
	"context"
	"fmt"
	"io"
	"testing"
	"time"

	"verifharness/fixture"
	"verifharness/refwire"
	"verifharness/swarm"
	"verifharness/vk"
)

type largeCase struct {
	PieceLen uint32 `json:"piece_length"`
	Length   int64  `json:"length"`
	Fast     bool   `json:"fast"`
}

func largePart(t *testing.T, r *vk.Run, prop string) {
	var cases []largeCase
	const G = int64(1) << 30
	for _, pl := range []uint32{48 << 10, 80 << 10, 768 << 10, 3 << 20, 64 << 10, 4 << 20} {
		for _, ln := range []int64{4*G + 5*16384 + 777, 5*G + 123457, 9*G + 1} {
			cases = append(cases, largeCase{pl, ln, len(cases)%2 == 0})
		}
	}
	reps := r.Env.N(1, 6)
	idx := 0
	for rep := 0; rep < reps; rep++ {
		for _, lc := range cases {
			i := idx
			idx++
			if !r.Mine(i) {
				continue
			}
			rng := r.Env.Rng(i)
			g := &fixture.Geo{Name: fmt.Sprintf("large%d", i), PieceLen: lc.PieceLen, Length: lc.Length, Seed: rng.Uint64() | 1, HashOnly: map[int]bool{}}
			np := g.NumPieces()
			b4 := int((4 * G) / int64(lc.PieceLen)) // the piece holding byte 2^32
			var targets []int
			hi := np - 1
			if np-b4-2 > 0 {
				hi = b4 + 2 + rng.IntN(np-b4-2)
			}
			// pieces 0..2 too: that is where offsets beyond 4 GiB land if they are wrapped to 32 bits, and wrapped
			// arithmetic only shows as wrong content if something is there
			for _, p := range []int{b4 - 1, b4, b4 + 1, hi, np - 1, rng.IntN(b4), 0, 1, 2} {
				if p >= 0 && p < np && !g.HashOnly[p] {
					g.HashOnly[p] = true
					targets = append(targets, p)
				}
			}
			d := map[string]any{"workload": "large", "case": lc, "pieces": np, "demanded": targets}
			c := r.Begin(i, d)
			done := 0
			swarm.Run(t, c, prop, func(sw *swarm.Swarm) {
				tr := sw.AddTorrent(g, swarm.TorOpts{})
				var seeds []*swarm.Remote
				for k := 0; k < 1+rng.IntN(2); k++ {
					s := tr.Connect(swarm.RemoteOpts{Fast: lc.Fast, Ext: true})
					s.SendExt0(swarm.StdExt0(250, 0))
					s.AutoSeed(swarm.SeedMode{})
					seeds = append(seeds, s)
				}
				sw.Cut()
				for _, p := range targets {
					if _, _, err := tr.T.Request(uint32(p), 1, true, false); err != nil {
						c.Inconclusive("Request: " + err.Error())
						return
					}
					sw.Act("request piece %d", p)
					ok := false
					for w := 0; w < 240; w++ {
						sw.Cut()
						if tr.T.Pieces.Complete(uint32(p)) {
							ok = true
							break
						}
						time.Sleep(500 * time.Millisecond)
					}
					tr.CheckConservation("at-cut")
					if c.Violated() {
						return
					}
					if !ok {
						sw.Viol(prop, "progress", "large-torrent piece-never-arrives "+boundaryClass(p, b4, np), fmt.Sprintf("piece %d of %d (piece length %d, torrent length %d) was demanded from an honest unchoking seed and is not complete after two virtual minutes", p, np, lc.PieceLen, lc.Length))
						return
					}
					// what arrived is what the seed holds
					buf := make([]byte, g.PieceSize(p))
					n, _ := tr.T.Pieces.ReadAt(buf, int64(p)*int64(lc.PieceLen))
					tru := g.Piece(p)
					if n != len(buf) || string(buf) != string(tru) {
						sw.Viol("C01", "content", "large-torrent piece-content", fmt.Sprintf("piece %d reads back %d bytes that differ from the true content", p, n))
						return
					}
					c.Count("large_pieces_completed", 1)
					c.Count("large_pieces_completed:"+boundaryClass(p, b4, np), 1)
					done++
					tr.T.Request(uint32(p), 1, false, false)
				}
				// a reader across byte 2^32 (both pieces are complete now) and one at the very end
				for _, w := range [][2]int64{{4*G - 1000, 2000}, {lc.Length - 777, 777}} {
					if !tr.T.Pieces.Complete(uint32(w[0]/int64(lc.PieceLen))) || !tr.T.Pieces.Complete(uint32((w[0]+w[1]-1)/int64(lc.PieceLen))) {
						continue
					}
					rd := tr.T.NewReader(context.Background(), w[0], w[1])
					got, err := io.ReadAll(rd)
					rd.Close()
					if err != nil || string(got) != string(g.Truth(w[0], int(w[1]))) {
						sw.Viol("C02", "model", "large-torrent reader-content", fmt.Sprintf("Reader over [%d,+%d) of a %d-byte torrent returned %d bytes, err %v, differing from the true content", w[0], w[1], lc.Length, len(got), err))
						return
					}
					c.Count("large_reader_windows_compared", 1)
				}
				// upload from beyond 4 GiB: a leech asks for blocks of the demanded pieces; the remote's own
				// monitors compare every payload with the truth
				lee := tr.Connect(swarm.RemoteOpts{Fast: lc.Fast, Ext: false})
				lee.HonestAdvert = true
				if lc.Fast {
					lee.Send(refwire.Msg{Kind: refwire.KHaveNone})
				}
				lee.Send(refwire.Msg{Kind: refwire.KInterested})
				for w := 0; w < 120 && lee.StChoking(); w++ {
					time.Sleep(time.Second)
					sw.Cut()
				}
				if !lee.StChoking() {
					asked := 0
					for _, p := range targets {
						if !tr.T.Pieces.Complete(uint32(p)) {
							continue
						}
						for b := 0; b < g.BlocksIn(p) && b < 3; b++ {
							lee.Send(refwire.Msg{Kind: refwire.KRequest, Index: uint32(p), Begin: uint32(b * fixture.Block), Length: uint32(g.BlockLen(p, b))})
							asked++
						}
					}
					for w := 0; w < 60 && lee.Count("piece") < asked; w++ {
						time.Sleep(500 * time.Millisecond)
						sw.Cut()
					}
					c.Count("large_blocks_uploaded", int64(lee.Count("piece")))
					if lee.Count("piece") < asked {
						// no clause of C16 demands service within a bound: observed, not judged
						c.Count("large_requests_unserved_after_30s", int64(asked-lee.Count("piece")))
					}
				} else {
					c.Count("large_leech_never_unchoked", 1)
				}
				for _, s := range seeds {
					for k, v := range s.Counts {
						c.Count("recv:"+k, int64(v))
					}
				}
			})
			c.FP(vk.Hash64("large", lc.PieceLen, lc.Length>>30, lc.Fast, done), done > 1)
			c.End()
		}
	}
}

func boundaryClass(p, b4, np int) string {
	switch {
	case p == np-1:
		return "last-piece"
	case p < b4:
		return "below-4GiB"
	case p == b4:
		return "spans-4GiB"
	default:
		return "above-4GiB"
	}
}
