// C08: encryption policy is honoured and the encrypted stream is transparent.
//
// Parts (selected by VERIF_PART, all of them when unset):
//
//	direct       64x64 crypto.Options pairs x both handshake kinds forced,
//	             protocol.ClientHandshake vs protocol.ServerHandshake over a tapped
//	             net.Pipe (in a synctest bubble); and storrent vs the independent
//	             refwire MSE in both roles with crypto_provide / crypto_select swept
//	dial         64x64 pairs through the real tor.DialClient (proxied torrent, harness
//	             SOCKS5 listener, protocol.ServerHandshake behind it; real sockets)
//	stream       crypto.Conn transparency for write/read size patterns and the
//	             keystream-never-ahead-of-the-wire rule under injected write faults
//	stream-race  the concurrent subset of "stream", meant for a -race build
//
// Reference policy (from the property statement and the Options field names):
// RC4 is forbidden if an end has AllowEncryption=false; plaintext is forbidden
// if an end has ForceEncryption=true; a crypto handshake is forbidden for an
// end with AllowCryptoHandshake=false; a plain handshake is forbidden for a
// server with ForceCryptoHandshake=true.  Only established connections are
// judged; refusals are counted per cell class.
package c08

import (
	"bytes"
	"context"
	"crypto/sha1"
	"encoding/binary"
	"errors"
	"fmt"
	"io"
	"log"
	"math/rand/v2"
	"net"
	"net/netip"
	"os"
	"reflect"
	"sort"
	"strings"
	"sync"
	"sync/atomic"
	"testing"
	"testing/synctest"
	"time"

	"github.com/jech/storrent/crypto"
	"github.com/jech/storrent/hash"
	"github.com/jech/storrent/protocol"
	"github.com/jech/storrent/tor"
	"verifharness/refwire"
	"verifharness/vk"
)

var realNow = time.Now()

func h20(label string) []byte {
	s := sha1.Sum([]byte(label))
	return s[:]
}

var (
	infoHash  = h20("C08 info-hash")
	otherHash = h20("C08 another torrent")
	clID      = []byte("-ST0000-client-side-")
	svID      = []byte("-ST0000-server-side-")
	hnID      = []byte("-RW0000-harness-side")
	markerC   = []byte("C08-MARKER-client-to-server:0123456789abcdefghijklmnopqrstuvwxyz")
	markerS   = []byte("C08-MARKER-server-to-client:ZYXWVUTSRQPONMLKJIHGFEDCBA9876543210")
)

// ---- options and the reference policy ---------------------------------------

func optsOf(i int) crypto.Options {
	return crypto.Options{
		AllowCryptoHandshake:  i&1 != 0,
		PreferCryptoHandshake: i&2 != 0,
		ForceCryptoHandshake:  i&4 != 0,
		AllowEncryption:       i&8 != 0,
		PreferEncryption:      i&16 != 0,
		ForceEncryption:       i&32 != 0,
	}
}

func optsName(o crypto.Options) string {
	var p []string
	f := func(b bool, s string) {
		if b {
			p = append(p, s)
		}
	}
	f(o.AllowCryptoHandshake, "AllowCH")
	f(o.PreferCryptoHandshake, "PreferCH")
	f(o.ForceCryptoHandshake, "ForceCH")
	f(o.AllowEncryption, "AllowEnc")
	f(o.PreferEncryption, "PreferEnc")
	f(o.ForceEncryption, "ForceEnc")
	if len(p) == 0 {
		return "none"
	}
	return strings.Join(p, "+")
}

func modeName(rc4 bool) string {
	if rc4 {
		return "rc4"
	}
	return "plaintext"
}

func kindName(cryptoHS bool) string {
	if cryptoHS {
		return "crypto-handshake"
	}
	return "plain-handshake"
}

// modeForbidden: why policy o forbids the payload mode ("" = permitted).
func modeForbidden(o crypto.Options, rc4 bool) string {
	if rc4 && !o.AllowEncryption {
		return "forbids-encryption"
	}
	if !rc4 && o.ForceEncryption {
		return "forces-encryption"
	}
	return ""
}

// common: the payload modes both policies permit.
func common(a, b crypto.Options) string {
	rc4 := modeForbidden(a, true) == "" && modeForbidden(b, true) == ""
	pl := modeForbidden(a, false) == "" && modeForbidden(b, false) == ""
	switch {
	case rc4 && pl:
		return "rc4+plaintext"
	case rc4:
		return "rc4"
	case pl:
		return "plaintext"
	}
	return "none"
}

// judgeModes reports the mode clauses for an established connection.
// table: "direct" | "dial" | "refwire-client" | "refwire-server".
func judgeModes(c *vk.C, seen map[string]bool, table string, co, so *crypto.Options, rc4, cryptoHS bool, judgeClientKind bool, rep any) {
	emit := func(sig, detail string) {
		c.Count("violating_cells", 1)
		if seen[sig] {
			return
		}
		seen[sig] = true
		c.Violation("forbidden-mode", sig, detail, rep)
	}
	if co != nil {
		if why := modeForbidden(*co, rc4); why != "" {
			emit(fmt.Sprintf("forbidden-mode %s %s client-%s %s", table, modeName(rc4), why, kindName(cryptoHS)),
				fmt.Sprintf("connection established with %s payload after a %s although the client's policy %s (client options %s)", modeName(rc4), kindName(cryptoHS), why, optsName(*co)))
		}
		if judgeClientKind && cryptoHS && !co.AllowCryptoHandshake {
			emit(fmt.Sprintf("forbidden-handshake %s crypto-handshake client-forbids-crypto-handshake", table),
				fmt.Sprintf("the dialler used a crypto handshake although AllowCryptoHandshake=false (client options %s)", optsName(*co)))
		}
		if judgeClientKind && !cryptoHS && co.ForceCryptoHandshake {
			// not in the statement's mode clauses: recorded, not flagged
			c.Count("note:dial_plain_handshake_despite_ForceCryptoHandshake", 1)
		}
	}
	if so != nil {
		if why := modeForbidden(*so, rc4); why != "" {
			emit(fmt.Sprintf("forbidden-mode %s %s server-%s %s", table, modeName(rc4), why, kindName(cryptoHS)),
				fmt.Sprintf("connection established with %s payload after a %s although the server's policy %s (server options %s)", modeName(rc4), kindName(cryptoHS), why, optsName(*so)))
		}
		if cryptoHS && !so.AllowCryptoHandshake {
			emit(fmt.Sprintf("forbidden-handshake %s crypto-handshake server-forbids-crypto-handshake", table),
				fmt.Sprintf("server accepted a crypto handshake although AllowCryptoHandshake=false (server options %s)", optsName(*so)))
		}
		if !cryptoHS && so.ForceCryptoHandshake {
			emit(fmt.Sprintf("forbidden-handshake %s plain-handshake server-forces-crypto-handshake", table),
				fmt.Sprintf("server accepted a plain handshake although ForceCryptoHandshake=true (server options %s)", optsName(*so)))
		}
	}
}

// ---- wire tap ---------------------------------------------------------------

type tapConn struct {
	net.Conn
	mu   sync.Mutex
	w, r []byte
}

func (t *tapConn) Write(b []byte) (int, error) {
	n, err := t.Conn.Write(b)
	t.mu.Lock()
	t.w = append(t.w, b[:n]...)
	t.mu.Unlock()
	return n, err
}

func (t *tapConn) Read(b []byte) (int, error) {
	n, err := t.Conn.Read(b)
	t.mu.Lock()
	t.r = append(t.r, b[:n]...)
	t.mu.Unlock()
	return n, err
}

func (t *tapConn) written() []byte {
	t.mu.Lock()
	defer t.mu.Unlock()
	return append([]byte(nil), t.w...)
}

func (t *tapConn) readBytes() []byte {
	t.mu.Lock()
	defer t.mu.Unlock()
	return append([]byte(nil), t.r...)
}

func bubble(t *testing.T, f func()) {
	synctest.Test(t, func(t *testing.T) {
		time.Sleep(time.Until(realNow.Add(time.Hour)))
		f()
	})
}

// ---- (a) direct table: storrent client x storrent server ---------------------

type endRes struct {
	OK     bool
	Err    string
	Cipher bool
	Got    []byte // marker read through io.MultiReader(init, conn)
	GotErr string
}

type cellDesc struct {
	Table  string `json:"table"`
	Kind   string `json:"handshake_kind"`
	Client string `json:"client_options"`
	Server string `json:"server_options"`
	A      int    `json:"client_index"`
	B      int    `json:"server_index"`
}

func exchangeMarker(r *endRes, c net.Conn, init []byte, out []byte, wg *sync.WaitGroup) {
	c.SetDeadline(time.Time{})
	wg.Add(1)
	go func() {
		defer wg.Done()
		c.Write(out)
	}()
	buf := make([]byte, len(out))
	_, err := io.ReadFull(io.MultiReader(bytes.NewReader(init), c), buf)
	r.Got = buf
	if err != nil {
		r.GotErr = err.Error()
	}
}

func directCell(c *vk.C, seen map[string]bool, a, b int, cryptoHS bool) {
	co, so := optsOf(a), optsOf(b)
	c1, c2 := net.Pipe()
	tc, ts := &tapConn{Conn: c1}, &tapConn{Conn: c2}
	cl, sv := &endRes{}, &endRes{}
	var hs, wr sync.WaitGroup
	var cconn, sconn net.Conn
	var cinit, sinit []byte
	hs.Add(2)
	go func() {
		defer hs.Done()
		conn, _, init, err := protocol.ClientHandshake(tc, cryptoHS, hash.Hash(infoHash), hash.Hash(clID), &co)
		if err != nil {
			cl.Err = err.Error()
			tc.Close()
			return
		}
		cl.OK = true
		_, cl.Cipher = conn.(*crypto.Conn)
		cconn, cinit = conn, init
	}()
	go func() {
		defer hs.Done()
		conn, _, init, err := protocol.ServerHandshake(ts, []hash.HashPair{{First: hash.Hash(infoHash), Second: hash.Hash(svID)}}, &so)
		if err != nil {
			sv.Err = err.Error()
			ts.Close()
			return
		}
		sv.OK = true
		_, sv.Cipher = conn.(*crypto.Conn)
		sconn, sinit = conn, init
	}()
	hs.Wait()
	kind := kindName(cryptoHS)
	class := "direct " + kind + " common=" + common(co, so)
	c.Count("direct_cells", 1)
	d := cellDesc{"direct", kind, optsName(co), optsName(so), a, b}
	if !(cl.OK && sv.OK) {
		c.Count("refused: "+class, 1)
		if cl.OK != sv.OK {
			c.Count("direct_one_sided", 1)
		}
		tc.Close()
		ts.Close()
		return
	}
	c.Count("established: "+class, 1)
	var ex sync.WaitGroup
	ex.Add(2)
	go func() { defer ex.Done(); exchangeMarker(cl, cconn, cinit, markerC, &wr) }()
	go func() { defer ex.Done(); exchangeMarker(sv, sconn, sinit, markerS, &wr) }()
	ex.Wait()
	wr.Wait()
	tc.Close()
	ts.Close()
	rep := map[string]any{"cell": d, "client_err": cl.Err, "server_err": sv.Err}
	emit := func(kind, sig, detail string) {
		c.Count("violating_cells", 1)
		if seen[sig] {
			return
		}
		seen[sig] = true
		c.Violation(kind, sig, detail, rep)
	}
	if cl.Cipher != sv.Cipher {
		emit("mode-disagree", "mode-disagree direct "+kind,
			fmt.Sprintf("client's conn encrypted: %v, server's conn encrypted: %v (client %s, server %s)", cl.Cipher, sv.Cipher, optsName(co), optsName(so)))
		return
	}
	rc4 := sv.Cipher
	c.Count("established_"+modeName(rc4), 1)
	if !bytes.Equal(cl.Got, markerS) || !bytes.Equal(sv.Got, markerC) {
		emit("stream", "marker-garbled direct "+modeName(rc4)+" "+kind,
			fmt.Sprintf("marker payload not received as sent: client got %q (%s), server got %q (%s)", cl.Got, cl.GotErr, sv.Got, sv.GotErr))
	}
	visC := bytes.Contains(tc.written(), markerC)
	visS := bytes.Contains(ts.written(), markerS)
	if visC == rc4 || visS == rc4 {
		emit("tap", fmt.Sprintf("tap-disagree direct %s marker-visible=%v/%v %s", modeName(rc4), visC, visS, kind),
			fmt.Sprintf("both conns report %s but the marker is visible on the wire: client->server %v, server->client %v", modeName(rc4), visC, visS))
	}
	judgeModes(c, seen, "direct", &co, &so, rc4, cryptoHS, false, rep)
}

// ---- refwire vs storrent (the harness is one end and knows the DH secret) ----

type hrun struct {
	conn  net.Conn
	mu    sync.Mutex
	cond  *sync.Cond
	rbuf  []byte
	rdone bool
	sent  []byte
}

func newHrun(c net.Conn) *hrun {
	h := &hrun{conn: c}
	h.cond = sync.NewCond(&h.mu)
	return h
}

func (h *hrun) drain() {
	buf := make([]byte, 1<<16)
	for {
		n, err := h.conn.Read(buf)
		h.mu.Lock()
		h.rbuf = append(h.rbuf, buf[:n]...)
		if err != nil {
			h.rdone = true
		}
		h.cond.Broadcast()
		h.mu.Unlock()
		if err != nil {
			return
		}
	}
}

// waitFor waits until the bytes received so far satisfy pred, the stream ends, or nothing has satisfied it
// for 30 s (real seconds outside a bubble; inside one the timer fires once every goroutine is blocked, that
// is, when both ends wait for each other). Without the bound a storrent that derives other keys than the
// specification leaves both handshakes waiting for ever on the in-memory pipe.
func (h *hrun) waitFor(pred func(b []byte) bool) bool {
	h.mu.Lock()
	defer h.mu.Unlock()
	timedOut := false
	tm := time.AfterFunc(30*time.Second, func() {
		h.mu.Lock()
		timedOut = true
		h.cond.Broadcast()
		h.mu.Unlock()
	})
	defer tm.Stop()
	for {
		if pred(h.rbuf) {
			return true
		}
		if h.rdone || timedOut {
			return false
		}
		h.cond.Wait()
	}
}

func (h *hrun) slice(from, to int) []byte {
	h.mu.Lock()
	defer h.mu.Unlock()
	return append([]byte(nil), h.rbuf[from:to]...)
}

func (h *hrun) write(b []byte) error {
	_, err := h.conn.Write(b)
	if err == nil {
		h.sent = append(h.sent, b...)
	}
	return err
}

// refPeer: the harness's side of an MSE + BT handshake with storrent.
type refPeer struct {
	h       *hrun
	Err     string // why the harness could not complete ("" = completed)
	Done    bool
	Sel     uint32 // crypto_select on the wire
	Provide uint32 // crypto_provide on the wire
	RC4     bool   // payload mode as announced on the wire
	enc     *refwire.RC4
	dec     *refwire.RC4
	pos     int // first unconsumed byte of h.rbuf
	PeerID  []byte
	IAShort bool // the harness, as initiator, put less than the whole BT handshake in IA and sent the rest as payload
}

func randBytes(rng *rand.Rand, n int) []byte {
	b := make([]byte, n)
	for i := range b {
		b[i] = byte(rng.Uint32())
	}
	return b
}

// shortSecret asks refHandshake for a Diffie-Hellman secret S whose first byte(s) are zero (one handshake in
// 256 by chance): S enters every hash as a 96-byte string, leading zeros included. When storrent is the
// client the harness has storrent's public key before it chooses its own private one and searches for a
// suitable one; when storrent is the server the harness cannot choose, so it gives up a handshake whose
// secret is not short (Err = errNotShort) and the caller tries again on a fresh connection.
var shortSecret = false

const errNotShort = "secret not short"

// refHandshake plays refwire against storrent.  role = storrent's role.
// val = crypto_provide (storrent is the server) or crypto_select (client).
func refHandshake(h *hrun, role string, val uint32, rng *rand.Rand) *refPeer {
	p := &refPeer{h: h}
	priv := refwire.MSEPrivate(randBytes(rng, 20))
	var rsv [8]byte
	rsv[5], rsv[7] = 0x10, 0x04
	myHS := refwire.BTHandshake(rsv, infoHash, hnID)
	checkHS := func(b []byte) bool {
		hello, err := refwire.ParseBTHandshake(b)
		if err != nil {
			p.Err = "storrent's BT handshake: " + err.Error()
			return false
		}
		if !bytes.Equal(hello.InfoHash, infoHash) {
			p.Err = "storrent's BT handshake names another torrent"
			return false
		}
		p.PeerID = hello.PeerID
		return true
	}
	if role == "server" {
		// The initial payload may be all of the BT handshake (what storrent's own client sends), a prefix of it, or
		// empty: the rest then follows as ordinary payload in the selected mode once step 4 has been read.
		iaLen := []int{68, 68, 68, 0, 1, 19, 20, 48}[rng.IntN(8)]
		ini := &refwire.MSEInitiator{Priv: priv, SKey: infoHash, PadA: randBytes(rng, rng.IntN(513)), PadC: randBytes(rng, rng.IntN(513)), Provide: val, IA: myHS[:iaLen]}
		if h.write(ini.Step1()) != nil {
			p.Err = "closed during step 1"
			return p
		}
		if !h.waitFor(func(b []byte) bool { return len(b) >= 96 }) {
			p.Err = "closed before Yb"
			return p
		}
		if shortSecret && refwire.MSEShared(priv, h.slice(0, 96))[0] != 0 {
			p.Err = errNotShort
			return p
		}
		ini.SetPeerKey(h.slice(0, 96))
		if h.write(ini.Step3()) != nil {
			p.Err = "closed during step 3"
			return p
		}
		var n int
		var perr error
		if !h.waitFor(func(b []byte) bool {
			m, err := ini.ParseStep4(b[96:])
			if err == refwire.ErrMSEShort {
				return false
			}
			n, perr = m, err
			return true
		}) {
			p.Err = "closed before step 4"
			return p
		}
		if perr != nil {
			p.Err = "storrent's step 4: " + perr.Error()
			return p
		}
		p.Sel, p.Provide = ini.Select, val
		p.pos = 96 + n
		switch ini.Select {
		case refwire.CryptoRC4:
			p.RC4, p.enc, p.dec = true, ini.Out, ini.In
		case refwire.CryptoPlaintext:
		default:
			p.Err = fmt.Sprintf("storrent's crypto_select = %#x", ini.Select)
			return p
		}
		if iaLen < len(myHS) {
			if p.send(append([]byte(nil), myHS[iaLen:]...)) != nil {
				p.Err = "closed during the BT handshake"
				return p
			}
			p.IAShort = true
		}
		reply, ok := p.recv(68)
		if !ok {
			p.Err = "closed before storrent's BT handshake"
			return p
		}
		if !checkHS(reply) {
			return p
		}
		p.Done = true
		return p
	}
	// storrent is the client
	rsp := &refwire.MSEResponder{Priv: priv, SKeys: [][]byte{otherHash, infoHash}, PadB: randBytes(rng, rng.IntN(513)), PadD: randBytes(rng, rng.IntN(513)), Select: val}
	if !h.waitFor(func(b []byte) bool { return len(b) >= 96 }) {
		p.Err = "closed before Ya"
		return p
	}
	if shortSecret {
		ya := h.slice(0, 96)
		found := false
		for try := 0; try < 20000 && !found; try++ {
			cand := refwire.MSEPrivate(randBytes(rng, 20))
			if refwire.MSEShared(cand, ya)[0] == 0 {
				rsp.Priv, found = cand, true
			}
		}
		if !found {
			p.Err = errNotShort
			return p
		}
	}
	rsp.SetPeerKey(h.slice(0, 96))
	if h.write(rsp.Step2()) != nil {
		p.Err = "closed during step 2"
		return p
	}
	var perr error
	var n3 int
	if !h.waitFor(func(b []byte) bool {
		m, err := rsp.ParseStep3(b[96:])
		if err == refwire.ErrMSEShort {
			return false
		}
		n3, perr = m, err
		return true
	}) {
		p.Err = "closed before step 3"
		return p
	}
	if perr != nil {
		p.Err = "storrent's step 3: " + perr.Error()
		return p
	}
	p.Provide, p.Sel = rsp.Provide, val
	if !checkHS(rsp.IA) {
		return p
	}
	p.pos = 96 + n3
	if val&refwire.CryptoRC4 != 0 && !(ambiguousGoesPlain && val&3 == 3) {
		p.RC4, p.enc, p.dec = true, rsp.Out, rsp.In
	}
	s4 := rsp.Step4()
	if rng.IntN(2) == 0 {
		// as a real network does half of the time: the answer and the first payload bytes (all of the BT
		// handshake, or only its first k bytes) arrive in one read
		pay := myHS
		if p.enc != nil {
			pay = p.enc.Apply(append([]byte(nil), myHS...))
		}
		k := []int{len(pay), 1, 5, 20, 48, 67}[rng.IntN(6)]
		if h.write(append(append([]byte(nil), s4...), pay[:k]...)) != nil {
			p.Err = "closed during step 4"
			return p
		}
		if k < len(pay) && h.write(pay[k:]) != nil {
			p.Err = "closed during the BT handshake"
			return p
		}
		p.Done = true
		return p
	}
	if h.write(s4) != nil {
		p.Err = "closed during step 4"
		return p
	}
	if p.send(myHS) != nil {
		p.Err = "closed during the BT handshake"
		return p
	}
	p.Done = true
	return p
}

// send writes payload in the negotiated mode, with the spec-derived keystream.
func (p *refPeer) send(b []byte) error {
	if p.enc != nil {
		b = p.enc.Apply(b)
	}
	return p.h.write(b)
}

// recv takes the next n payload bytes off the wire and decodes them.
func (p *refPeer) recv(n int) ([]byte, bool) {
	if !p.h.waitFor(func(b []byte) bool { return len(b) >= p.pos+n }) {
		return nil, false
	}
	raw := p.h.slice(p.pos, p.pos+n)
	p.pos += n
	if p.dec != nil {
		return p.dec.Apply(raw), true
	}
	return raw, true
}

type stEnd struct {
	OK     bool
	Err    string
	Cipher bool
	Conn   net.Conn
	Init   []byte
	ID     []byte
}

func startStorrent(sc net.Conn, role string, o *crypto.Options, cryptoHS bool) (*stEnd, chan struct{}) {
	st := &stEnd{}
	done := make(chan struct{})
	go func() {
		defer close(done)
		var conn net.Conn
		var init []byte
		var err error
		var res protocol.HandshakeResult
		if role == "server" {
			conn, res, init, err = protocol.ServerHandshake(sc, []hash.HashPair{{First: hash.Hash(otherHash), Second: hash.Hash(clID)}, {First: hash.Hash(infoHash), Second: hash.Hash(svID)}}, o)
		} else {
			conn, res, init, err = protocol.ClientHandshake(sc, cryptoHS, hash.Hash(infoHash), hash.Hash(clID), o)
		}
		if err != nil {
			st.Err = err.Error()
			sc.Close()
			return
		}
		st.OK, st.Conn, st.Init, st.ID = true, conn, init, res.Id
		_, st.Cipher = conn.(*crypto.Conn)
		conn.SetDeadline(time.Time{})
	}()
	return st, done
}

// A responder whose crypto_select has both method bits set may carry on either way.  By default the
// reference responder then encrypts; with this set it carries on in plaintext (the policy clauses judge
// whatever storrent establishes; a storrent that refuses such a word, as the specification's "single
// method" wording suggests, is never judged).  Only touched between bubbles of one process.
var ambiguousGoesPlain bool

var provideVals = []uint32{0, 1, 2, 3, 4, 0x80000000, 0x80000001, 0x80000002, 0x80000003, 0xfffffffc, 0xfffffffd, 0xfffffffe, 0xffffffff, 0x00000102}
var selectVals = []uint32{0, 1, 2, 3, 4, 0x80000000, 0x80000001, 0x80000002, 0x00010001, 0x00010002, 0xffffffff}

func refCell(c *vk.C, seen map[string]bool, role string, oi int, val uint32, rng *rand.Rand) {
	o := optsOf(oi)
	sc, hc := net.Pipe()
	h := newHrun(hc)
	var wg sync.WaitGroup
	wg.Add(1)
	go func() { defer wg.Done(); h.drain() }()
	st, done := startStorrent(sc, role, &o, true)
	p := refHandshake(h, role, val, rng)
	<-done
	table := "refwire-client"
	if role == "client" {
		table = "refwire-server"
	}
	c.Count(table+"_cells", 1)
	if p.IAShort {
		c.Count("initiator_ia_prefix_handshakes", 1)
	}
	rep := map[string]any{"table": table, "storrent_role": role, "storrent_options": optsName(o), "options_index": oi,
		"value_hex": fmt.Sprintf("%#x", val), "storrent_error": st.Err, "harness": p.Err}
	emit := func(kind, sig, detail string) {
		c.Count("violating_cells", 1)
		if seen[sig] {
			return
		}
		seen[sig] = true
		c.Violation(kind, sig, detail, rep)
	}
	// what must interoperate: a crypto handshake is allowed and the single value on offer is acceptable to storrent's policy
	must := false
	if o.AllowCryptoHandshake {
		if role == "server" {
			must = (val&refwire.CryptoRC4 != 0 && modeForbidden(o, true) == "") || (val&refwire.CryptoPlaintext != 0 && modeForbidden(o, false) == "")
		} else {
			must = (val == refwire.CryptoRC4 && modeForbidden(o, true) == "") || (val == refwire.CryptoPlaintext && modeForbidden(o, false) == "")
		}
	}
	valClass := "known-bits-only"
	if val&^3 != 0 {
		valClass = "reserved-bits-set"
	}
	if !st.OK || !p.Done {
		c.Count("refused: "+table, 1)
		if must {
			emit("interop", fmt.Sprintf("interop-fail %s %s", table, valClass),
				fmt.Sprintf("storrent (%s, options %s) and the specification-derived MSE peer did not establish although crypto_%s=%#x is acceptable to storrent's policy: storrent error %q, harness: %q",
					role, optsName(o), map[string]string{"server": "provide", "client": "select"}[role], val, st.Err, p.Err))
		}
		if st.OK {
			st.Conn.Close()
		}
		hc.Close()
		sc.Close()
		wg.Wait()
		return
	}
	c.Count("established: "+table, 1)
	// marker exchange: storrent writes markerS-like payload, the harness its own
	var mine, theirs []byte
	if role == "server" {
		mine, theirs = markerC, markerS
	} else {
		mine, theirs = markerS, markerC
	}
	got := make([]byte, len(mine))
	var gotErr error
	var sw sync.WaitGroup
	sw.Add(2)
	go func() { defer sw.Done(); st.Conn.Write(theirs) }()
	go func() {
		defer sw.Done()
		_, gotErr = io.ReadFull(io.MultiReader(bytes.NewReader(st.Init), st.Conn), got)
	}()
	sendErr := p.send(mine)
	raw0 := p.pos
	dec, ok := p.recv(len(theirs))
	sw.Wait()
	st.Conn.Close()
	hc.Close()
	wg.Wait()
	// 1. conn type vs what the wire said
	if st.Cipher != p.RC4 {
		emit("mode-disagree", "mode-disagree "+table+" wire-vs-conn-type",
			fmt.Sprintf("crypto_select on the wire %#x (rc4=%v) but storrent's conn is *crypto.Conn: %v", p.Sel, p.RC4, st.Cipher))
		return
	}
	c.Count("established_"+modeName(p.RC4), 1)
	// 2. select must be a single offered method
	if p.Sel&p.Provide&3 == 0 || (role == "server" && p.Sel != 1 && p.Sel != 2) {
		who := "selected"
		if role == "client" {
			who = "accepted"
		}
		emit("select", "unoffered-select "+table+" "+valClass,
			fmt.Sprintf("storrent %s crypto_select=%#x, crypto_provide was %#x", who, p.Sel, p.Provide))
	}
	// 3. independent keystream: payload decodes to the marker, both ways
	if sendErr != nil || gotErr != nil || !ok || !bytes.Equal(got, mine) || !bytes.Equal(dec, theirs) {
		emit("interop", "interop-payload "+table+" "+modeName(p.RC4),
			fmt.Sprintf("after the handshake (%s) storrent read %q (err %v) where %q was sent with the specified keystream; its own payload decodes to %q (want %q)", modeName(p.RC4), got, gotErr, mine, dec, theirs))
	}
	// 4. tap: marker verbatim on the wire iff plaintext
	if ok {
		raw := h.slice(raw0, raw0+len(theirs))
		if bytes.Equal(raw, theirs) == p.RC4 {
			emit("tap", "tap-disagree "+table+" "+modeName(p.RC4),
				fmt.Sprintf("negotiated %s but storrent's marker on the wire verbatim: %v", modeName(p.RC4), bytes.Equal(raw, theirs)))
		}
	}
	// 5. policy
	if role == "server" {
		judgeModes(c, seen, table, nil, &o, p.RC4, true, false, rep)
	} else {
		judgeModes(c, seen, table, &o, nil, p.RC4, true, false, rep)
	}
}

func runDirect(t *testing.T, r *vk.Run, base int) {
	r.Note("policy", "rc4 forbidden if an end has AllowEncryption=false; plaintext forbidden if an end has ForceEncryption=true; crypto handshake forbidden for an end with AllowCryptoHandshake=false; plain handshake forbidden for a server with ForceCryptoHandshake=true; direct-table client judged on the mode clauses only")
	idx := base
	reps := r.Env.N(1, 3)
	for rep := 0; rep < reps; rep++ {
		for _, cryptoHS := range []bool{false, true} {
			for a := 0; a < 64; a++ {
				i := idx
				idx++
				if !r.Mine(i) {
					continue
				}
				co := optsOf(a)
				c := r.Begin(i, map[string]any{"part": "direct", "table": "direct", "handshake_kind": kindName(cryptoHS), "client_options": optsName(co), "client_index": a, "server_options": "all 64"})
				seen := map[string]bool{}
				bubble(t, func() {
					for b := 0; b < 64; b++ {
						directCell(c, seen, a, b, cryptoHS)
					}
				})
				c.FP(vk.Hash64("direct", cryptoHS, a), true)
				c.End()
			}
		}
		for _, role := range []string{"server", "client"} {
			for oi := 0; oi < 64; oi++ {
				i := idx
				idx++
				if !r.Mine(i) {
					continue
				}
				o := optsOf(oi)
				vals := provideVals
				if role == "client" {
					vals = selectVals
				}
				c := r.Begin(i, map[string]any{"part": "direct", "table": "refwire", "storrent_role": role, "storrent_options": optsName(o), "options_index": oi})
				seen := map[string]bool{}
				rng := r.Env.Rng(i)
				bubble(t, func() {
					for _, v := range vals {
						refCell(c, seen, role, oi, v, rng)
					}
					if role == "client" {
						ambiguousGoesPlain = true
						for _, v := range vals {
							if v&3 == 3 {
								c.Count("ambiguous_select_plain_cells", 1)
								refCell(c, seen, role, oi, v, rng)
							}
						}
						ambiguousGoesPlain = false
					}
				})
				c.FP(vk.Hash64("refwire", role, oi), true)
				c.End()
			}
		}
	}
}

// ---- (b) dial table through tor.DialClient -----------------------------------

type attempt struct {
	Seq      int
	CryptoHS bool
	OK       bool
	Err      string
	Cipher   bool
	Conn     net.Conn
	Init     []byte
	Tap      *tapConn
}

type socksSrv struct {
	ln       net.Listener
	accepted atomic.Int64
	mu       sync.Mutex
	opts     crypto.Options
	hash     []byte
	id       []byte
	junk     bool // answer the first attempt of the cell with a non-BitTorrent reply
	seq      int  // attempts seen in the current cell
	ch       chan *attempt
}

// junkReply plays a peer whose answer is not a BitTorrent handshake: to a plain
// handshake it replies 68 junk bytes; to an MSE handshake it completes MSE
// (refwire responder) and then sends 68 junk bytes.  protocol.ClientHandshake
// reports ErrBadHandshake for both, which is what DialClient's fallback keys on.
func (s *socksSrv) junkReply(conn net.Conn, a *attempt, hsh []byte) {
	linger := false
	defer func() {
		if linger {
			io.Copy(io.Discard, conn) // junk delivered: let the dialler close first
		}
		conn.Close()
		s.ch <- a
	}()
	a.Err = "junk reply"
	conn.SetDeadline(time.Now().Add(20 * time.Second))
	junk := bytes.Repeat([]byte{0x55}, 68)
	buf := make([]byte, 0, 4096)
	tmp := make([]byte, 4096)
	more := func() bool {
		n, err := conn.Read(tmp)
		buf = append(buf, tmp[:n]...)
		return n > 0 || err == nil
	}
	for len(buf) < 20 {
		if !more() {
			return
		}
	}
	if buf[0] == 19 && string(buf[1:20]) == refwire.BTProtocol {
		for len(buf) < 68 {
			if !more() {
				return
			}
		}
		conn.Write(junk)
		linger = true
		return
	}
	a.CryptoHS = true
	for len(buf) < 96 {
		if !more() {
			return
		}
	}
	rsp := &refwire.MSEResponder{Priv: refwire.MSEPrivate(h20(fmt.Sprint("junk", len(buf), time.Now().UnixNano()))), SKeys: [][]byte{hsh}}
	rsp.SetPeerKey(buf[:96])
	if _, err := conn.Write(rsp.Step2()); err != nil {
		return
	}
	for {
		_, err := rsp.ParseStep3(buf[96:])
		if err == nil {
			break
		}
		if err != refwire.ErrMSEShort || !more() {
			return
		}
	}
	rsp.Select = refwire.CryptoPlaintext
	if rsp.Provide&refwire.CryptoRC4 != 0 {
		rsp.Select = refwire.CryptoRC4
	}
	conn.Write(append(rsp.Step4(), junk...))
	linger = true
}

func (s *socksSrv) serve() {
	for {
		conn, err := s.ln.Accept()
		if err != nil {
			return
		}
		go s.handle(conn)
	}
}

// handle: SOCKS5 (RFC 1928) no-auth CONNECT, then the BitTorrent server side.
func (s *socksSrv) handle(conn net.Conn) {
	a := &attempt{}
	s.accepted.Add(1)
	fail := func(why string) {
		a.Err = "socks: " + why
		conn.Close()
		s.ch <- a
	}
	conn.SetDeadline(time.Now().Add(20 * time.Second))
	hdr := make([]byte, 2)
	if _, err := io.ReadFull(conn, hdr); err != nil || hdr[0] != 5 {
		fail("greeting")
		return
	}
	methods := make([]byte, hdr[1])
	if _, err := io.ReadFull(conn, methods); err != nil {
		fail("methods")
		return
	}
	conn.Write([]byte{5, 0})
	req := make([]byte, 4)
	if _, err := io.ReadFull(conn, req); err != nil || req[1] != 1 {
		fail("request")
		return
	}
	var alen int
	switch req[3] {
	case 1:
		alen = 4
	case 4:
		alen = 16
	case 3:
		l := make([]byte, 1)
		io.ReadFull(conn, l)
		alen = int(l[0])
	}
	rest := make([]byte, alen+2)
	if _, err := io.ReadFull(conn, rest); err != nil {
		fail("address")
		return
	}
	conn.Write([]byte{5, 0, 0, 1, 0, 0, 0, 0, 0, 0})
	conn.SetDeadline(time.Time{})
	s.mu.Lock()
	o, hsh, id := s.opts, s.hash, s.id
	junk := s.junk && s.seq == 0
	a.Seq = s.seq
	s.seq++
	s.mu.Unlock()
	if junk {
		s.junkReply(conn, a, hsh)
		return
	}
	tap := &tapConn{Conn: conn}
	a.Tap = tap
	c, _, init, err := protocol.ServerHandshake(tap, []hash.HashPair{{First: hash.Hash(hsh), Second: hash.Hash(id)}}, &o)
	first := tap.readBytes()
	a.CryptoHS = !(len(first) >= 20 && first[0] == 19 && string(first[1:20]) == refwire.BTProtocol)
	if err != nil {
		a.Err = err.Error()
		conn.Close()
		s.ch <- a
		return
	}
	c.SetDeadline(time.Time{})
	a.OK, a.Conn, a.Init = true, c, init
	_, a.Cipher = c.(*crypto.Conn)
	s.ch <- a
}

func connTypeOfPeer(t *tor.Torrent, id []byte) (string, error) {
	p, err := t.GetPeer(hash.Hash(id))
	if err != nil {
		return "", err
	}
	if p == nil {
		return "", errors.New("peer not attached")
	}
	v := reflect.ValueOf(p)
	if v.Kind() != reflect.Pointer || v.IsNil() {
		return "", errors.New("unexpected peer value")
	}
	f := v.Elem().FieldByName("conn")
	if !f.IsValid() || f.Kind() != reflect.Interface || f.IsNil() {
		return "", errors.New("peer.conn not readable")
	}
	return f.Elem().Type().String(), nil
}

func dialCell(c *vk.C, seen map[string]bool, s *socksSrv, a, b int, salt string, fallback bool) {
	co, so := optsOf(a), optsOf(b)
	hsh := h20(fmt.Sprintf("C08 dial %s %d %d %v", salt, a, b, fallback))
	sid := h20(fmt.Sprintf("C08 dial server id %s %d %d", salt, a, b))
	// nothing of an earlier cell may be left in the channel
	for drained := false; !drained; {
		select {
		case old := <-s.ch:
			if old.Conn != nil {
				old.Conn.Close()
			}
		default:
			drained = true
		}
	}
	s.mu.Lock()
	s.opts, s.hash, s.id = so, hsh, sid
	s.junk, s.seq = fallback, 0
	s.mu.Unlock()
	table := "dial"
	if fallback {
		table = "dial-fallback"
	}
	d := cellDesc{table, "as-DialClient-chooses", optsName(co), optsName(so), a, b}
	c.Count(table+"_cells", 1)
	var est *attempt

	t, err := tor.New("socks5://"+s.ln.Addr().String(), hash.Hash(hsh), "c08", nil, 0, nil, nil)
	if err != nil {
		c.Inconclusive("tor.New: " + err.Error())
		return
	}
	t.Log = log.New(io.Discard, "", 0)
	ctx, cancel := context.WithTimeout(context.Background(), 60*time.Second)
	defer cancel()
	if _, err := tor.AddTorrent(ctx, t); err != nil {
		c.Inconclusive("tor.AddTorrent: " + err.Error())
		return
	}
	defer func() {
		// the torrent goes first, so that its peer actor closes the connection, not the harness
		if err := t.Kill(ctx); err != nil {
			c.Inconclusive("Torrent.Kill: " + err.Error())
		}
		if est != nil {
			est.Conn.Close()
		}
	}()
	addr := netip.MustParseAddrPort("8.8.8.8:6881")
	acc0 := s.accepted.Load()
	derr := tor.DialClient(ctx, t, addr, &co)

	// collect the attempts this dial produced: one per SOCKS connection; each server-side
	// handshake ends with success or with EOF once the dialler has closed its end
	var atts []*attempt
	nAtt := int(s.accepted.Load() - acc0)
	for len(atts) < nAtt {
		select {
		case got := <-s.ch:
			atts = append(atts, got)
		case <-time.After(30 * time.Second):
			c.Inconclusive("a server-side handshake did not end within 30 s of DialClient returning")
			return
		}
	}
	sort.Slice(atts, func(i, j int) bool { return atts[i].Seq < atts[j].Seq })
	kinds := ""
	for _, at := range atts {
		if at.CryptoHS {
			kinds += "C"
		} else {
			kinds += "P"
		}
	}
	c.Count(table+"_attempt_sequence:"+kinds, 1)
	if len(atts) > 1 {
		c.Count("dial_fallbacks", 1)
	}
	for _, at := range atts {
		if at.OK {
			if est != nil {
				est.Conn.Close()
			}
			est = at
		}
	}
	class := table + " common=" + common(co, so)
	if derr != nil || est == nil {
		c.Count("refused: "+class, 1)
		if derr == nil && len(atts) == 0 {
			c.Inconclusive("DialClient returned nil without contacting the proxy")
		}
		return
	}
	c.Count("established: "+class, 1)
	rep := map[string]any{"cell": d, "attempts": kinds}
	emit := func(kind, sig, detail string) {
		c.Count("violating_cells", 1)
		if seen[sig] {
			return
		}
		seen[sig] = true
		c.Violation(kind, sig, detail, rep)
	}
	hk := kindName(est.CryptoHS)
	// client's own view of the mode: the conn it attached to the torrent
	ctype, terr := connTypeOfPeer(t, sid)
	if terr != nil {
		c.Inconclusive("client conn type: " + terr.Error())
		return
	}
	clCipher := ctype == "*crypto.Conn"
	if clCipher != est.Cipher {
		emit("mode-disagree", "mode-disagree "+table+" "+hk,
			fmt.Sprintf("dialler attached a %s, server's conn encrypted: %v", ctype, est.Cipher))
		return
	}
	rc4 := est.Cipher
	c.Count("established_"+modeName(rc4), 1)
	// first message of the real peer actor: the extension handshake (the harness advertises BEP 10)
	est.Conn.SetDeadline(time.Now().Add(20 * time.Second))
	mr := io.MultiReader(bytes.NewReader(est.Init), est.Conn)
	lenb := make([]byte, 4)
	var body []byte
	_, rerr := io.ReadFull(mr, lenb)
	if rerr == nil {
		l := binary.BigEndian.Uint32(lenb)
		if l > 4096 {
			rerr = fmt.Errorf("first frame announces %d bytes", l)
		} else {
			body = make([]byte, l)
			_, rerr = io.ReadFull(mr, body)
		}
	}
	if rerr != nil && errors.Is(rerr, os.ErrDeadlineExceeded) {
		c.Inconclusive("no message from the dialled peer within 20 s")
		return
	}
	if rerr != nil || len(body) < 3 || body[0] != refwire.IDExtended || body[1] != 0 || !bytes.Contains(body, []byte("11:ut_metadata")) {
		emit("stream", "first-message-garbled "+table+" "+modeName(rc4)+" "+hk,
			fmt.Sprintf("server could not read the dialler's extension handshake through its %s conn: err=%v frame=% x", modeName(rc4), rerr, clip(body, 48)))
		return
	}
	c.Count("dial_first_message_decoded", 1)
	visible := bytes.Contains(est.Tap.readBytes(), body)
	if visible == rc4 {
		emit("tap", fmt.Sprintf("tap-disagree %s %s payload-visible=%v %s", table, modeName(rc4), visible, hk),
			fmt.Sprintf("mode %s but the dialler's extension handshake appears verbatim on the wire: %v", modeName(rc4), visible))
	}
	// server -> client: an extension handshake carrying the marker as client version; the real peer actor
	// must decode it (it then shows up in the torrent's known-peer table)
	ver := string(markerS)
	port := int64(6881)
	msg := refwire.Encode(refwire.Msg{Kind: refwire.KExtended, Sub: 0, Data: refwire.Ext0{M: map[string]int64{}, V: &ver, P: &port}.Payload()})
	if _, werr := est.Conn.Write(msg); werr != nil {
		c.Inconclusive("server write: " + werr.Error())
		return
	}
	if bytes.Contains(est.Tap.written(), markerS) == rc4 {
		emit("tap", fmt.Sprintf("tap-disagree %s %s server-payload-visible=%v %s", table, modeName(rc4), !rc4, hk),
			fmt.Sprintf("mode %s but the server's payload appears verbatim on the wire: %v", modeName(rc4), !rc4))
	}
	deadline := time.Now().Add(15 * time.Second)
	decoded := false
	for !decoded && time.Now().Before(deadline) {
		kn, kerr := t.GetKnowns()
		if kerr != nil {
			break
		}
		for _, k := range kn {
			if k.Version == ver {
				decoded = true
			}
		}
		if !decoded {
			time.Sleep(200 * time.Microsecond)
		}
	}
	if decoded {
		c.Count("dial_server_message_decoded", 1)
	} else {
		c.Inconclusive("dialled peer did not report the server's extension handshake within 15 s")
	}
	judgeModes(c, seen, table, &co, &so, rc4, est.CryptoHS, true, rep)
}

func clip(b []byte, n int) []byte {
	if len(b) > n {
		return b[:n]
	}
	return b
}

func runDial(t *testing.T, r *vk.Run, base int) {
	ln, err := net.Listen("tcp", "127.0.0.1:0")
	if err != nil {
		c := r.Begin(base, "listen")
		c.Inconclusive("cannot listen on loopback: " + err.Error())
		c.End()
		return
	}
	defer ln.Close()
	s := &socksSrv{ln: ln, ch: make(chan *attempt, 16)}
	go s.serve()
	reps := r.Env.N(1, 3)
	idx := base
	for rep := 0; rep < reps; rep++ {
		for a := 0; a < 64; a++ {
			for b0 := 0; b0 < 64; b0 += 16 {
				i := idx
				idx++
				if !r.Mine(i) {
					continue
				}
				co := optsOf(a)
				c := r.Begin(i, map[string]any{"part": "dial", "client_options": optsName(co), "client_index": a, "server_indices": fmt.Sprintf("%d..%d", b0, b0+15)})
				seen := map[string]bool{}
				for b := b0; b < b0+16; b++ {
					salt := fmt.Sprintf("%d/%d/%d", r.Env.Seed, rep, os.Getpid())
					dialCell(c, seen, s, a, b, salt, false)
					dialCell(c, seen, s, a, b, salt, true)
				}
				c.FP(vk.Hash64("dial", a, b0), true)
				c.End()
			}
		}
	}
}

// ---- (c) stream transparency -------------------------------------------------

// halfPipe is one direction of a buffered in-memory duplex.
type halfPipe struct {
	mu     sync.Mutex
	cond   *sync.Cond
	buf    []byte
	off    int
	closed bool
	max    int
}

func newHalf(max int) *halfPipe {
	h := &halfPipe{max: max}
	h.cond = sync.NewCond(&h.mu)
	return h
}

func (h *halfPipe) write(p []byte) (int, error) {
	total := 0
	for len(p) > 0 {
		h.mu.Lock()
		for len(h.buf)-h.off >= h.max && !h.closed {
			h.cond.Wait()
		}
		if h.closed {
			h.mu.Unlock()
			return total, io.ErrClosedPipe
		}
		if h.off > 0 && h.off == len(h.buf) {
			h.buf, h.off = h.buf[:0], 0
		} else if h.off > 1<<16 {
			n := copy(h.buf, h.buf[h.off:])
			h.buf, h.off = h.buf[:n], 0
		}
		n := h.max - (len(h.buf) - h.off)
		if n > len(p) {
			n = len(p)
		}
		h.buf = append(h.buf, p[:n]...)
		h.cond.Broadcast()
		h.mu.Unlock()
		p = p[n:]
		total += n
	}
	return total, nil
}

func (h *halfPipe) read(p []byte) (int, error) {
	h.mu.Lock()
	defer h.mu.Unlock()
	for len(h.buf)-h.off == 0 && !h.closed {
		h.cond.Wait()
	}
	if len(h.buf)-h.off == 0 {
		return 0, io.EOF
	}
	n := copy(p, h.buf[h.off:])
	h.off += n
	h.cond.Broadcast()
	return n, nil
}

func (h *halfPipe) close() {
	h.mu.Lock()
	h.closed = true
	h.cond.Broadcast()
	h.mu.Unlock()
}

type duplexEnd struct{ r, w *halfPipe }

type dummyAddr struct{}

func (dummyAddr) Network() string { return "mem" }
func (dummyAddr) String() string  { return "mem" }

func (d *duplexEnd) Read(p []byte) (int, error)       { return d.r.read(p) }
func (d *duplexEnd) Write(p []byte) (int, error)      { return d.w.write(p) }
func (d *duplexEnd) Close() error                     { d.r.close(); d.w.close(); return nil }
func (d *duplexEnd) LocalAddr() net.Addr              { return dummyAddr{} }
func (d *duplexEnd) RemoteAddr() net.Addr             { return dummyAddr{} }
func (d *duplexEnd) SetDeadline(time.Time) error      { return nil }
func (d *duplexEnd) SetReadDeadline(time.Time) error  { return nil }
func (d *duplexEnd) SetWriteDeadline(time.Time) error { return nil }

func memPipe() (net.Conn, net.Conn) {
	a, b := newHalf(256*1024), newHalf(256*1024)
	return &duplexEnd{r: a, w: b}, &duplexEnd{r: b, w: a}
}

// sizePattern yields the sizes of successive writes (or read buffers).
type sizePattern struct {
	Name string
	Size int // >0 fixed; 0 = PRNG mixture
}

var gridPatterns = []sizePattern{{"1", 1}, {"7", 7}, {"32767", 32767}, {"32768", 32768}, {"32769", 32769}, {"100000", 100000}, {"prng", 0}}

func (sp sizePattern) next(rng *rand.Rand) int {
	if sp.Size > 0 {
		return sp.Size
	}
	switch rng.IntN(6) {
	case 0:
		return 1 + rng.IntN(16)
	case 1:
		return 1 + rng.IntN(1000)
	case 2:
		return 32760 + rng.IntN(17)
	case 3:
		return 65530 + rng.IntN(12)
	case 4:
		return 1 + rng.IntN(100000)
	}
	return 1 + rng.IntN(40000)
}

// content: position-dependent bytes, different per stream id.
func content(id uint64, n int) []byte {
	b := make([]byte, n+8)
	x := id*0x9E3779B97F4A7C15 + 0x1234567
	for i := 0; i < n; i += 8 {
		x ^= x << 13
		x ^= x >> 7
		x ^= x << 17
		binary.LittleEndian.PutUint64(b[i:], x+uint64(i))
	}
	return b[:n]
}

func writeAll(w io.Writer, data []byte, sp sizePattern, rng *rand.Rand) error {
	for len(data) > 0 {
		n := sp.next(rng)
		if n > len(data) {
			n = len(data)
		}
		m, err := w.Write(data[:n])
		if err != nil {
			return err
		}
		if m != n {
			return fmt.Errorf("Write returned %d for %d bytes without error", m, n)
		}
		data = data[n:]
	}
	return nil
}

func readN(r io.Reader, total int, sp sizePattern, rng *rand.Rand) ([]byte, error) {
	out := make([]byte, 0, total)
	buf := make([]byte, 100000)
	for len(out) < total {
		n := sp.next(rng)
		if n > len(buf) {
			n = len(buf)
		}
		m, err := r.Read(buf[:n])
		out = append(out, buf[:m]...)
		if err != nil {
			return out, err
		}
	}
	return out, nil
}

func firstDiff(a, b []byte) int {
	i := 0
	for i < len(a) && i < len(b) && a[i] == b[i] {
		i++
	}
	return i
}

var preferOpts = crypto.Options{AllowCryptoHandshake: true, PreferCryptoHandshake: true, AllowEncryption: true, PreferEncryption: true}

// pairCase: two *crypto.Conn from a real storrent<->storrent MSE handshake;
// both directions stream concurrently.
func pairCase(c *vk.C, wp, rp sizePattern, total int, rng *rand.Rand) {
	a, b := memPipe()
	var cc, sc net.Conn
	var ci, si []byte
	var cerr, serr error
	var hs sync.WaitGroup
	hs.Add(2)
	co, so := preferOpts, preferOpts
	go func() {
		defer hs.Done()
		cc, _, ci, cerr = protocol.ClientHandshake(a, true, hash.Hash(infoHash), hash.Hash(clID), &co)
		if cerr != nil {
			a.Close()
		}
	}()
	go func() {
		defer hs.Done()
		sc, _, si, serr = protocol.ServerHandshake(b, []hash.HashPair{{First: hash.Hash(infoHash), Second: hash.Hash(svID)}}, &so)
		if serr != nil {
			b.Close()
		}
	}()
	hs.Wait()
	defer a.Close()
	defer b.Close()
	if cerr != nil || serr != nil {
		c.Inconclusive(fmt.Sprintf("handshake for the stream test failed: %v / %v", cerr, serr))
		return
	}
	_, ok1 := cc.(*crypto.Conn)
	_, ok2 := sc.(*crypto.Conn)
	if !ok1 || !ok2 {
		c.Inconclusive("stream test did not obtain two *crypto.Conn")
		return
	}
	d1, d2 := content(rng.Uint64(), total), content(rng.Uint64(), total)
	seeds := [4]uint64{rng.Uint64(), rng.Uint64(), rng.Uint64(), rng.Uint64()}
	var got1, got2 []byte
	var e [4]error
	var wg sync.WaitGroup
	wg.Add(4)
	go func() { defer wg.Done(); e[0] = writeAll(cc, d1, wp, rand.New(rand.NewPCG(seeds[0], 1))) }()
	go func() {
		defer wg.Done()
		got1, e[1] = readN(io.MultiReader(bytes.NewReader(si), sc), total, rp, rand.New(rand.NewPCG(seeds[1], 1)))
	}()
	go func() { defer wg.Done(); e[2] = writeAll(sc, d2, rp, rand.New(rand.NewPCG(seeds[2], 1))) }()
	go func() {
		defer wg.Done()
		got2, e[3] = readN(io.MultiReader(bytes.NewReader(ci), cc), total, wp, rand.New(rand.NewPCG(seeds[3], 1)))
	}()
	wg.Wait()
	c.Count("stream_bytes", int64(len(got1)+len(got2)))
	c.Count("stream_pair_runs", 1)
	rep := map[string]any{"write_pattern": wp.Name, "read_pattern": rp.Name, "bytes": total}
	for k, err := range e {
		if err != nil {
			c.Violation("stream", "stream-error pair", fmt.Sprintf("operation %d on the encrypted connection failed: %v", k, err), rep)
			return
		}
	}
	if !bytes.Equal(got1, d1) {
		i := firstDiff(got1, d1)
		c.Violation("stream", "stream-corrupt pair", fmt.Sprintf("client->server: %d bytes read, %d written, first difference at offset %d (write sizes %s, read sizes %s)", len(got1), len(d1), i, wp.Name, rp.Name), rep)
	}
	if !bytes.Equal(got2, d2) {
		i := firstDiff(got2, d2)
		c.Violation("stream", "stream-corrupt pair", fmt.Sprintf("server->client: %d bytes read, %d written, first difference at offset %d (write sizes %s, read sizes %s)", len(got2), len(d2), i, rp.Name, wp.Name), rep)
	}
}

// refStream: storrent's *crypto.Conn on one end, the harness with the
// independent RC4 on the raw wire on the other.
type refStream struct {
	st   *stEnd
	p    *refPeer
	h    *hrun
	hc   net.Conn
	sc   net.Conn
	fc   *faultConn
	wg   sync.WaitGroup
	role string
}

var errInjected = errors.New("injected write failure")

// errTimeout is what a net.Conn returns when its write deadline expires: a
// net.Error with Timeout() true (callers of a plain connection may extend the
// deadline and retry; on a stream cipher the keystream has already advanced)
var errTimeout error = &net.OpError{Op: "write", Net: "mem", Err: os.ErrDeadlineExceeded}

// faultConn injects one write fault at payload byte failAt once armed.
type faultConn struct {
	net.Conn
	mu     sync.Mutex
	armed  bool
	fired  bool
	failAt int
	kind   string // one of faultKinds
	wire   []byte // bytes handed to the wire since arming
	calls  int
	// concurrent-writer cases: the failing underlying Write announces itself and lingers, so that a second
	// writer is waiting for the connection's write lock when the failure is reported
	atFault chan struct{}
	hold    time.Duration
}

func (f *faultConn) Write(b []byte) (int, error) {
	f.mu.Lock()
	if !f.armed {
		f.mu.Unlock()
		return f.Conn.Write(b)
	}
	f.calls++
	if !f.fired && len(f.wire)+len(b) > f.failAt {
		f.fired = true
		k := f.failAt - len(f.wire)
		kind := f.kind
		if f.atFault != nil {
			close(f.atFault)
			f.atFault = nil
			hold := f.hold
			f.mu.Unlock()
			time.Sleep(hold)
			f.mu.Lock()
		}
		if kind == "err-nothing" {
			f.mu.Unlock()
			return 0, errInjected
		}
		if kind == "timeout-nothing" {
			f.mu.Unlock()
			return 0, errTimeout
		}
		f.wire = append(f.wire, b[:k]...)
		f.mu.Unlock()
		n, err := f.Conn.Write(b[:k])
		if err != nil {
			return n, err
		}
		if kind == "short-nil" {
			return k, nil
		}
		if kind == "timeout-partial" {
			return k, errTimeout
		}
		return k, errInjected
	}
	f.wire = append(f.wire, b...)
	f.mu.Unlock()
	return f.Conn.Write(b)
}

func openRef(role string, rng *rand.Rand) (*refStream, string) {
	sc, hc := memPipe()
	fc := &faultConn{Conn: sc}
	h := newHrun(hc)
	rs := &refStream{h: h, hc: hc, sc: sc, fc: fc, role: role}
	rs.wg.Add(1)
	go func() { defer rs.wg.Done(); h.drain() }()
	o := preferOpts
	st, done := startStorrent(fc, role, &o, true)
	p := refHandshake(h, role, refwire.CryptoRC4, rng)
	if !p.Done {
		// no deadlines on the in-memory duplex: release storrent's side
		hc.Close()
		sc.Close()
	}
	<-done
	rs.st, rs.p = st, p
	if !st.OK || !p.Done || !st.Cipher || !p.RC4 {
		rs.close()
		return nil, fmt.Sprintf("handshake for the stream test failed: storrent %q harness %q", st.Err, p.Err)
	}
	return rs, ""
}

func (rs *refStream) close() {
	rs.hc.Close()
	rs.sc.Close()
	rs.wg.Wait()
}

func refCase(c *vk.C, role string, wp, rp sizePattern, total int, rng *rand.Rand) {
	rs, why := openRef(role, rng)
	if rs == nil {
		c.Inconclusive(why)
		return
	}
	defer rs.close()
	d1, d2 := content(rng.Uint64(), total), content(rng.Uint64(), total)
	seeds := [3]uint64{rng.Uint64(), rng.Uint64(), rng.Uint64()}
	var e [3]error
	var got2 []byte
	var wg sync.WaitGroup
	wg.Add(3)
	// storrent writes d1 through its crypto.Conn
	go func() { defer wg.Done(); e[0] = writeAll(rs.st.Conn, d1, wp, rand.New(rand.NewPCG(seeds[0], 2))) }()
	// the harness writes ENCRYPT(d2) on the raw wire in its own chunks
	go func() {
		defer wg.Done()
		e[1] = writeAll(rs.hc, rs.p.enc.Apply(d2), wp, rand.New(rand.NewPCG(seeds[1], 2)))
	}()
	// storrent reads through its crypto.Conn
	go func() {
		defer wg.Done()
		got2, e[2] = readN(io.MultiReader(bytes.NewReader(rs.st.Init), rs.st.Conn), total, rp, rand.New(rand.NewPCG(seeds[2], 2)))
	}()
	dec, ok := rs.p.recv(total)
	wg.Wait()
	c.Count("stream_bytes", int64(len(dec)+len(got2)))
	c.Count("stream_ref_runs", 1)
	rep := map[string]any{"storrent_role": role, "write_pattern": wp.Name, "read_pattern": rp.Name, "bytes": total}
	for k, err := range e {
		if err != nil {
			c.Violation("stream", "stream-error refwire", fmt.Sprintf("operation %d failed: %v", k, err), rep)
			return
		}
	}
	if !ok || !bytes.Equal(dec, d1) {
		i := firstDiff(dec, d1)
		c.Violation("stream", "stream-corrupt storrent-writes", fmt.Sprintf("wire bytes decrypted with the specified keystream differ from what storrent (%s) wrote: first difference at offset %d of %d (write sizes %s)", role, i, total, wp.Name), rep)
	}
	if !bytes.Equal(got2, d2) {
		i := firstDiff(got2, d2)
		c.Violation("stream", "stream-corrupt storrent-reads", fmt.Sprintf("storrent (%s) read bytes that differ from what was encrypted with the specified keystream: first difference at offset %d of %d (wire chunks %s, read sizes %s)", role, i, total, wp.Name, rp.Name), rep)
	}
}

// faultCase: after a failed or short underlying write every later Write must
// fail, and whatever reached the wire decrypts to a prefix of what was written.
func faultCase(c *vk.C, role string, wp sizePattern, failAt int, kind string, rng *rand.Rand) {
	rs, why := openRef(role, rng)
	if rs == nil {
		c.Inconclusive(why)
		return
	}
	defer rs.close()
	fc := rs.fc
	fc.mu.Lock()
	fc.armed, fc.failAt, fc.kind = true, failAt, kind
	fc.mu.Unlock()
	total := failAt + 70000
	data := content(rng.Uint64(), total)
	wrng := rand.New(rand.NewPCG(rng.Uint64(), 3))
	rep := map[string]any{"storrent_role": role, "write_pattern": wp.Name, "fail_at": failAt, "fault": kind}
	failedAt := -1 // index of the first Write that reported a problem
	off := 0
	var sizes []int
	writesAfter := 0
	lateOK := false
	var lateDetail string
	for w := 0; off < len(data); w++ {
		n := wp.next(wrng)
		if n > len(data)-off {
			n = len(data) - off
		}
		if len(sizes) < 64 {
			sizes = append(sizes, n)
		}
		m, err := rs.st.Conn.Write(data[off : off+n])
		off += n
		if failedAt >= 0 {
			writesAfter++
			if err == nil {
				lateOK = true
				if lateDetail == "" {
					lateDetail = fmt.Sprintf("Write #%d (%d bytes, stream offset %d) returned (%d, nil) although Write #%d had failed", w, n, off-n, m, failedAt)
				}
			}
			if writesAfter >= 40 {
				break
			}
		} else if err != nil || m < n {
			failedAt = w
		}
	}
	c.Count("fault_runs", 1)
	fc.mu.Lock()
	wire := append([]byte(nil), fc.wire...)
	fired := fc.fired
	fc.mu.Unlock()
	if !fired || failedAt < 0 {
		if fired {
			c.Violation("fault", "fault-unreported "+kind, fmt.Sprintf("the underlying write failed (%s at byte %d) but no Write on the crypto.Conn reported it", kind, failAt), rep)
		} else {
			c.Inconclusive("fault did not fire")
		}
		return
	}
	c.Count("fault_fired", 1)
	c.Count("writes_after_fault", int64(writesAfter))
	rep["write_sizes_prefix"] = sizes
	if lateOK {
		c.Violation("fault", "write-after-failure-succeeds "+kind, lateDetail, rep)
	}
	plain := rs.p.dec.Apply(wire)
	if len(plain) > len(data) || !bytes.Equal(plain, data[:len(plain)]) {
		i := firstDiff(plain, data)
		c.Violation("fault", "keystream-ahead-of-wire "+kind,
			fmt.Sprintf("%d bytes reached the wire; decrypted with the specified keystream they match the plaintext only up to offset %d (fault %s at byte %d, write sizes %s)", len(wire), i, kind, failAt, wp.Name), rep)
	}
}

// aftermathCase: a write fails on one encrypted connection; afterwards three other, healthy pairs move data
// at the same time, with slow readers so that writes are pending in the transport most of the time. What one
// connection went through must not show on another (they share nothing but the process).
func aftermathCase(c *vk.C, rng *rand.Rand) {
	for k := 0; k < 1+rng.IntN(3); k++ {
		faultCase(c, []string{"server", "client"}[rng.IntN(2)], sizePattern{"32768", 32768}, []int{0, 1, 100, 32768, 40000}[rng.IntN(5)], faultKinds[rng.IntN(len(faultKinds))], rng)
	}
	if c.Violated() {
		return
	}
	var wg sync.WaitGroup
	for k := 0; k < 3; k++ {
		wg.Add(1)
		sub := rand.New(rand.NewPCG(rng.Uint64(), uint64(k)))
		go func() {
			defer wg.Done()
			pairCase(c, sizePattern{"32768", 32768}, []sizePattern{{"7", 7}, {"100", 100}, {"4096", 4096}}[sub.IntN(3)], 384<<10, sub)
		}()
	}
	wg.Wait()
	c.Count("aftermath_runs", 1)
}

// shortSecretCase: a complete MSE + BT handshake and a data exchange in both directions with a secret that
// starts with a zero byte.
func shortSecretCase(c *vk.C, role string, rng *rand.Rand) {
	shortSecret = true
	defer func() { shortSecret = false }()
	var rs *refStream
	var why string
	tries := 0
	for ; tries < 6000; tries++ {
		rs, why = openRef(role, rng)
		if rs != nil || !strings.Contains(why, errNotShort) {
			break
		}
	}
	c.Count("short_secret_attempts", int64(tries+1))
	rep := map[string]any{"storrent_role": role, "attempts": tries + 1}
	if rs == nil {
		if strings.Contains(why, errNotShort) {
			c.Inconclusive("no short secret in 6000 attempts")
			return
		}
		c.Violation("interop", "interop-fail short-secret "+role, "with a Diffie-Hellman secret whose first byte is zero the handshake against the independent implementation fails: "+why, rep)
		return
	}
	defer rs.close()
	c.Count("short_secret_handshakes", 1)
	d1, d2 := content(rng.Uint64(), 5000), content(rng.Uint64(), 5000)
	var e1, e2 error
	var got2 []byte
	var wg sync.WaitGroup
	wg.Add(3)
	go func() { defer wg.Done(); _, e1 = rs.st.Conn.Write(d1) }()
	go func() { defer wg.Done(); _, e2 = rs.hc.Write(rs.p.enc.Apply(d2)) }()
	go func() {
		defer wg.Done()
		got2, _ = readN(io.MultiReader(bytes.NewReader(rs.st.Init), rs.st.Conn), len(d2), sizePattern{"prng", 0}, rand.New(rand.NewPCG(1, 2)))
	}()
	dec, ok := rs.p.recv(len(d1))
	wg.Wait()
	if e1 != nil || e2 != nil || !ok || !bytes.Equal(dec, d1) || !bytes.Equal(got2, d2) {
		c.Violation("interop", "stream-corrupt short-secret "+role, fmt.Sprintf("after a handshake with a short secret the streams do not carry what was written (write errors %v %v)", e1, e2), rep)
	}
}

// concurrentFaultCase: a second writer calls Write while the first one is inside the underlying write that
// fails. The second writer's call begins after the failure has begun, so it must not succeed, and the wire
// must still decrypt to a prefix of what the first writer wrote.
func concurrentFaultCase(c *vk.C, role string, failAt int, kind string, rng *rand.Rand) {
	rs, why := openRef(role, rng)
	if rs == nil {
		c.Inconclusive(why)
		return
	}
	defer rs.close()
	fc := rs.fc
	at := make(chan struct{})
	fc.mu.Lock()
	fc.armed, fc.failAt, fc.kind, fc.atFault, fc.hold = true, failAt, kind, at, 30*time.Millisecond
	fc.mu.Unlock()
	data := content(rng.Uint64(), failAt+40000)
	other := content(rng.Uint64(), 3200)
	rep := map[string]any{"storrent_role": role, "fail_at": failAt, "fault": kind, "writers": 2}
	var bN int
	var bErr error
	bDone := make(chan struct{})
	go func() {
		defer close(bDone)
		select {
		case <-at:
		case <-time.After(20 * time.Second):
			bErr = errors.New("fault never fired")
			return
		}
		bN, bErr = rs.st.Conn.Write(other)
	}()
	aFailed := false
	for off := 0; off < len(data); {
		n := 1 + rng.IntN(9000)
		if n > len(data)-off {
			n = len(data) - off
		}
		m, err := rs.st.Conn.Write(data[off : off+n])
		off += n
		if err != nil || m < n {
			aFailed = true
			break
		}
	}
	<-bDone
	c.Count("fault_runs_two_writers", 1)
	fc.mu.Lock()
	wire := append([]byte(nil), fc.wire...)
	fired := fc.fired
	fc.mu.Unlock()
	if !fired || !aFailed {
		c.Inconclusive("two-writer fault did not fire")
		return
	}
	if bErr == nil {
		c.Violation("fault", "write-after-failure-succeeds second-writer "+kind, fmt.Sprintf("a Write of %d bytes that was called while another writer's underlying write was failing (%s at byte %d) returned (%d, nil)", len(other), kind, failAt, bN), rep)
	}
	plain := rs.p.dec.Apply(wire)
	if len(plain) > len(data) || !bytes.Equal(plain, data[:len(plain)]) {
		c.Violation("fault", "keystream-ahead-of-wire second-writer "+kind, fmt.Sprintf("%d bytes reached the wire; decrypted with the specified keystream they match the first writer's plaintext only up to offset %d", len(wire), firstDiff(plain, data)), rep)
	}
}

var faultKinds = []string{"err-partial", "err-nothing", "short-nil", "timeout-partial", "timeout-nothing"}

func runStream(t *testing.T, r *vk.Run, race bool, base int) {
	idx := base
	full := 1 << 20
	// under the race detector a million one-byte operations cost a minute; the interleavings
	// that matter are reached long before, so byte-sized patterns move 128 KiB there
	vol := func(wp, rp sizePattern) int {
		if race && (wp.Size == 1 || wp.Size == 7 || rp.Size == 1 || rp.Size == 7) {
			return 128 << 10
		}
		return full
	}
	// grid: write pattern x read pattern, storrent<->storrent
	for _, wp := range gridPatterns {
		for _, rp := range gridPatterns {
			i := idx
			idx++
			if !r.Mine(i) {
				continue
			}
			total := vol(wp, rp)
			c := r.Begin(i, map[string]any{"part": "stream", "mode": "pair", "write": wp.Name, "read": rp.Name, "bytes": total})
			pairCase(c, wp, rp, total, r.Env.Rng(i))
			c.FP(vk.Hash64("pair", wp.Name, rp.Name), true)
			c.End()
		}
	}
	// grid against the independent cipher, both roles
	for _, role := range []string{"server", "client"} {
		for _, wp := range gridPatterns {
			for _, rp := range gridPatterns {
				i := idx
				idx++
				if !r.Mine(i) {
					continue
				}
				total := vol(wp, rp)
				c := r.Begin(i, map[string]any{"part": "stream", "mode": "refwire", "storrent_role": role, "write": wp.Name, "read": rp.Name, "bytes": total})
				refCase(c, role, wp, rp, total, r.Env.Rng(i))
				c.FP(vk.Hash64("ref", role, wp.Name, rp.Name), true)
				c.End()
			}
		}
	}
	// PRNG patterns
	n := r.Env.N(60, 6000)
	if race {
		n = r.Env.N(40, 1500)
	}
	prng := sizePattern{"prng", 0}
	for k := 0; k < n; k++ {
		i := idx
		idx++
		if !r.Mine(i) {
			continue
		}
		rng := r.Env.Rng(i)
		c := r.Begin(i, map[string]any{"part": "stream", "mode": "prng", "k": k})
		if k%2 == 0 {
			pairCase(c, prng, prng, full, rng)
		} else {
			refCase(c, []string{"server", "client"}[k/2%2], prng, prng, full, rng)
		}
		c.FP(vk.Hash64("prng", k%4, k), true)
		c.End()
	}
	// healthy connections after a failed write elsewhere
	for k := 0; k < r.Env.N(16, 400); k++ {
		i := idx
		idx++
		if !r.Mine(i) {
			continue
		}
		c := r.Begin(i, map[string]any{"part": "stream", "mode": "aftermath", "k": k})
		aftermathCase(c, r.Env.Rng(i))
		c.FP(vk.Hash64("aftermath", k), true)
		c.End()
	}
	// Diffie-Hellman secrets with a leading zero byte, both roles
	for k := 0; k < r.Env.N(6, 60); k++ {
		i := idx
		idx++
		if !r.Mine(i) {
			continue
		}
		role := []string{"client", "server"}[k%2]
		c := r.Begin(i, map[string]any{"part": "stream", "mode": "short-secret", "storrent_role": role})
		shortSecretCase(c, role, r.Env.Rng(i))
		c.FP(vk.Hash64("short-secret", role, k), true)
		c.End()
	}
	if race {
		return
	}
	// write faults: position swept
	var ks []int
	for k := 0; k <= 40; k++ {
		ks = append(ks, k)
	}
	for _, base := range []int{32768, 65536, 98304, 100000} {
		for d := -3; d <= 3; d++ {
			ks = append(ks, base+d)
		}
	}
	ks = append(ks, 1000, 16384, 50000, 70000)
	if r.Env.Tier == "thorough" {
		for k := 41; k < 70000; k += 13 {
			ks = append(ks, k)
		}
		for k := 32768 - 300; k < 32768+300; k++ {
			ks = append(ks, k)
		}
	}
	fpat := []sizePattern{{"1", 1}, {"7", 7}, {"32768", 32768}, {"100000", 100000}, {"prng", 0}}
	for _, k := range ks {
		for _, role := range []string{"server", "client"} {
			i := idx
			idx++
			if !r.Mine(i) {
				continue
			}
			rng := r.Env.Rng(i)
			c := r.Begin(i, map[string]any{"part": "stream", "mode": "fault", "fail_at": k, "storrent_role": role})
			for _, kind := range faultKinds {
				for _, wp := range fpat {
					if wp.Size == 1 && k > 5000 {
						continue // a million one-byte writes add nothing here
					}
					faultCase(c, role, wp, k, kind, rng)
				}
			}
			if k%4 == 1 {
				concurrentFaultCase(c, role, k, []string{"err-partial", "timeout-partial", "err-nothing"}[k/4%3], rng)
			}
			c.FP(vk.Hash64("fault", role, k), true)
			c.End()
		}
	}
}

// ---- main -------------------------------------------------------------------

func TestCheck(t *testing.T) {
	part := os.Getenv("VERIF_PART")
	r := vk.New("C08")
	defer r.Done()
	switch part {
	case "direct":
		runDirect(t, r, 0)
	case "dial":
		runDial(t, r, 0)
	case "stream":
		runStream(t, r, false, 0)
	case "stream-race":
		runStream(t, r, true, 0)
	default: // by hand, everything in one process
		runDirect(t, r, 0)
		runDial(t, r, 1000000)
		runStream(t, r, false, 2000000)
	}
	r.Finish()
}
