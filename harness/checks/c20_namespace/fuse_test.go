package c20

import (
	"bytes"
	"context"
	"errors"
	"fmt"
	"math/rand/v2"
	"runtime/debug"
	"strings"
	"sync"
	"syscall"

	bfuse "bazil.org/fuse"
	"bazil.org/fuse/fs"

	storfuse "github.com/jech/storrent/fuse"
	"verifharness/fixture"
	"verifharness/vk"
)

type fnode struct {
	comps []string
	node  fs.Node
}

// guard runs f and converts a panic into (site, value).
func guard(f func()) (site, val string) {
	defer func() {
		if p := recover(); p != nil {
			val = fmt.Sprint(p)
			site = fixture.PanicSite(debug.Stack())
		}
	}()
	f()
	return
}

func isENOENT(err error) bool {
	if err == nil {
		return false
	}
	var en bfuse.ErrorNumber
	if errors.As(err, &en) {
		return syscall.Errno(en.Errno()) == syscall.ENOENT
	}
	return errors.Is(err, syscall.ENOENT)
}

func lookup(n fs.Node, name string) (fs.Node, error) {
	l, ok := n.(fs.NodeStringLookuper)
	if !ok {
		return nil, errors.New("node has no Lookup")
	}
	return l.Lookup(context.Background(), name)
}

func readdir(n fs.Node) ([]bfuse.Dirent, error) {
	d, ok := n.(fs.HandleReadDirAller)
	if !ok {
		return nil, errors.New("node has no ReadDirAll")
	}
	return d.ReadDirAll(context.Background())
}

func isDirNode(n fs.Node) bool {
	_, ok := n.(fs.HandleReadDirAller)
	return ok
}

type walkResult struct {
	files    []fnode
	dirs     []fnode
	dirents  int
	problems []string // "kind\x00detail"
}

// walk descends from a directory node through ReadDirAll + Lookup.
func walk(n fs.Node, comps []string, depth int, out *walkResult, budget *int) {
	if depth > 12 || *budget <= 0 {
		return
	}
	out.dirs = append(out.dirs, fnode{comps, n})
	ents, err := readdir(n)
	if err != nil {
		out.problems = append(out.problems, "fuse-readdir-error\x00"+fmt.Sprintf("ReadDirAll(%q): %v", comps, err))
		return
	}
	seenName := map[string]bool{}
	for _, e := range ents {
		out.dirents++
		if e.Name == "." || e.Name == ".." {
			continue
		}
		if seenName[e.Name] {
			// a directory listing names each entry once (a second dirent of the same name shows every file
			// below it twice to whoever walks the tree)
			out.problems = append(out.problems, "fuse-duplicate-entry\x00"+fmt.Sprintf("ReadDirAll(%q) lists %q more than once", comps, e.Name))
			continue
		}
		seenName[e.Name] = true
		*budget--
		if *budget <= 0 {
			return
		}
		child, err := lookup(n, e.Name)
		p := append(append([]string(nil), comps...), e.Name)
		if err != nil || child == nil {
			out.problems = append(out.problems, "fuse-listed-unresolved\x00"+fmt.Sprintf("ReadDirAll(%q) lists %q but Lookup returns %v", comps, e.Name, err))
			continue
		}
		if isDirNode(child) {
			walk(child, p, depth+1, out, budget)
		} else {
			out.files = append(out.files, fnode{p, child})
		}
	}
}

func fuseRead(h fs.Handle, off int64, size int) ([]byte, error) {
	hr, ok := h.(fs.HandleReader)
	if !ok {
		return nil, errors.New("handle has no Read")
	}
	resp := &bfuse.ReadResponse{Data: make([]byte, 0, size)}
	err := hr.Read(context.Background(), &bfuse.ReadRequest{Offset: off, Size: size}, resp)
	return resp.Data, err
}

func clipTruth(g *fixture.Geo, f fent, off int64, size int) []byte {
	if off >= f.ln {
		return []byte{}
	}
	n := int64(size)
	if off+n > f.ln {
		n = f.ln - off
	}
	return g.Truth(f.off+off, int(n))
}

// checkFuseFile: Attr.Size, Open, Reads (sequential and concurrent), Release.
func checkFuseFile(c *vk.C, rng *rand.Rand, g *fixture.Geo, f fent, n fs.Node, rep any) {
	var a bfuse.Attr
	if err := n.Attr(context.Background(), &a); err != nil {
		viol(c, "fuse-attr", "fuse-attr-error", fmt.Sprintf("Attr(%q): %v", f.comps, err), rep)
		return
	}
	if a.Size != uint64(f.ln) || a.Mode.IsDir() {
		viol(c, "fuse-attr", "fuse-attr-size", fmt.Sprintf("Attr(%q): size %d mode %v, file length %d", f.comps, a.Size, a.Mode, f.ln), rep)
	}
	op, ok := n.(fs.NodeOpener)
	if !ok {
		viol(c, "fuse-open", "fuse-open-missing", fmt.Sprintf("node of %q has no Open", f.comps), rep)
		return
	}
	h, err := op.Open(context.Background(), &bfuse.OpenRequest{Flags: bfuse.OpenReadOnly}, &bfuse.OpenResponse{})
	if err != nil || h == nil {
		viol(c, "fuse-open", "fuse-open-error", fmt.Sprintf("Open(%q): %v", f.comps, err), rep)
		return
	}
	type rd struct {
		off  int64
		size int
	}
	mk := func() rd {
		switch rng.IntN(6) {
		case 0:
			return rd{0, 4096}
		case 1:
			return rd{f.ln, 100}
		case 2:
			return rd{f.ln + int64(rng.IntN(5000)), 100}
		case 3:
			return rd{0, 128 << 10}
		default:
			o := int64(0)
			if f.ln > 0 {
				o = rng.Int64N(f.ln)
			}
			return rd{o, 1 + rng.IntN(20000)}
		}
	}
	one := func(r rd) string {
		got, err := fuseRead(h, r.off, r.size)
		want := clipTruth(g, f, r.off, r.size)
		if err != nil {
			return fmt.Sprintf("Read(%q, off=%d, size=%d): %v", f.comps, r.off, r.size, err)
		}
		if !bytes.Equal(got, want) {
			return fmt.Sprintf("Read(%q, off=%d, size=%d) returned %d bytes != truth (%d bytes) of file at torrent offset %d length %d", f.comps, r.off, r.size, len(got), len(want), f.off, f.ln)
		}
		return ""
	}
	seq := []rd{{0, 4096}, mk(), mk(), {f.ln, 64}}
	for _, r := range seq {
		c.Count("fuse_reads", 1)
		if m := one(r); m != "" {
			viol(c, "fuse-read", "fuse-read-content", m, rep)
			break
		}
	}
	// concurrent reads on one handle
	var wg sync.WaitGroup
	var mu sync.Mutex
	var bad string
	for gi := 0; gi < 4; gi++ {
		rs := []rd{mk(), mk(), mk()}
		wg.Add(1)
		go func(rs []rd) {
			defer wg.Done()
			for _, r := range rs {
				if m := one(r); m != "" {
					mu.Lock()
					bad = m
					mu.Unlock()
				}
			}
		}(rs)
	}
	wg.Wait()
	c.Count("fuse_concurrent_reads", 12)
	if bad != "" {
		viol(c, "fuse-read", "fuse-read-content concurrent", bad, rep)
	}
	if rl, ok := h.(fs.HandleReleaser); ok {
		rl.Release(context.Background(), &bfuse.ReleaseRequest{})
	}
}

func swapCase(s string) string {
	b := []byte(s)
	ch := false
	for i, x := range b {
		if x >= 'a' && x <= 'z' {
			b[i] = x - 32
			ch = true
		} else if x >= 'A' && x <= 'Z' {
			b[i] = x + 32
			ch = true
		}
	}
	if !ch {
		return ""
	}
	return string(b)
}

// checkFuse walks the tree of the torrent that name resolves to and judges it
// against the reference table of g (the torrent GetByName must select).
func checkFuse(c *vk.C, rng *rand.Rand, g *fixture.Geo, rep any) {
	root := storfuse.VerifRoot()
	tab := table(g)
	node, err := lookup(root, g.Name)
	c.Count("fuse_lookups_pos", 1)
	if err != nil || node == nil {
		viol(c, "fuse-lookup", "fuse-root-unresolved", fmt.Sprintf("root Lookup(%q): %v", g.Name, err), rep)
		return
	}
	if g.Files == nil {
		if isDirNode(node) {
			viol(c, "fuse-tree", "fuse-single-file-is-dir", fmt.Sprintf("root Lookup(%q) of a single-file torrent returned a directory", g.Name), rep)
			return
		}
		checkFuseFile(c, rng, g, tab[0], node, rep)
		return
	}
	if !isDirNode(node) {
		viol(c, "fuse-tree", "fuse-multi-file-is-file", fmt.Sprintf("root Lookup(%q) of a multi-file torrent returned a file", g.Name), rep)
		return
	}
	var res walkResult
	budget := 500
	walk(node, nil, 0, &res, &budget)
	c.Count("fuse_dirents", int64(res.dirents))
	for _, p := range res.problems {
		k, d, _ := strings.Cut(p, "\x00")
		viol(c, "fuse-tree", k, d, rep)
	}
	want := map[string]fent{}
	level := map[string]map[string]bool{} // dir key -> all component names at that level (incl. padding)
	for _, f := range tab {
		for i := range f.comps {
			dk := key(f.comps[:i])
			if level[dk] == nil {
				level[dk] = map[string]bool{}
			}
			level[dk][f.comps[i]] = true
		}
		if !f.pad {
			want[key(f.comps)] = f
		}
	}
	got := map[string]fnode{}
	for _, f := range res.files {
		got[key(f.comps)] = f
		if _, ok := want[key(f.comps)]; !ok {
			viol(c, "fuse-tree", "fuse-names-nonfile", fmt.Sprintf("FUSE walk names %q which is not a (non-padding) file of the torrent", f.comps), rep)
		}
	}
	for k, f := range want {
		if _, ok := got[k]; !ok {
			viol(c, "fuse-tree", "fuse-misses-file", fmt.Sprintf("FUSE walk does not name file %q", f.comps), rep)
		}
	}
	// resolve files
	nf := 0
	for _, f := range res.files {
		w, ok := want[key(f.comps)]
		if !ok {
			continue
		}
		if nf++; nf > 6 {
			break
		}
		c.Count("fuse_lookups_pos", int64(len(f.comps)))
		checkFuseFile(c, rng, g, w, f.node, rep)
	}
	// negative lookups in (up to 4) directories
	nd := 0
	for _, d := range res.dirs {
		if nd++; nd > 4 {
			break
		}
		names := level[key(d.comps)]
		var ents []string
		for n := range names {
			ents = append(ents, n)
		}
		if len(ents) == 0 {
			continue
		}
		// deterministic order
		for i := 1; i < len(ents); i++ {
			for j := i; j > 0 && ents[j] < ents[j-1]; j-- {
				ents[j], ents[j-1] = ents[j-1], ents[j]
			}
		}
		e := ents[rng.IntN(len(ents))]
		type neg struct{ class, name string }
		cands := []neg{
			{"absent", "zz-absent-zz"},
			{"suffix-extended", e + "x"},
			{"suffix-space", e + " "},
			{"slash-appended", e + "/"},
			{"case-changed", swapCase(e)},
			{"doubled", e + e},
		}
		if len(e) > 1 {
			cands = append(cands, neg{"strict-prefix", e[:len(e)-1]}, neg{"strict-suffix", e[1:]})
		}
		// grandchild name and joined child path
		for _, f := range tab {
			if len(f.comps) > len(d.comps)+1 && isPrefix(d.comps, f.comps) {
				cands = append(cands, neg{"grandchild", f.comps[len(d.comps)+1]},
					neg{"joined-path", f.comps[len(d.comps)] + "/" + f.comps[len(d.comps)+1]})
				break
			}
		}
		if len(d.comps) > 0 {
			cands = append(cands, neg{"own-name", d.comps[len(d.comps)-1]})
		}
		for _, ng := range cands {
			if ng.name == "" || ng.name == "." || ng.name == ".." || names[ng.name] {
				continue
			}
			c.Count("fuse_lookups_neg", 1)
			n2, err := lookup(d.node, ng.name)
			if err == nil {
				viol(c, "fuse-lookup", "fuse-lookup-resolves-absent "+ng.class, fmt.Sprintf("Lookup(%q) in directory %q (entries %q) returned node %v instead of ENOENT", ng.name, d.comps, ents, n2), rep)
			} else if !isENOENT(err) {
				viol(c, "fuse-lookup", "fuse-lookup-wrong-errno "+ng.class, fmt.Sprintf("Lookup(%q) in directory %q returned %v, want ENOENT", ng.name, d.comps, err), rep)
			}
		}
	}
}
