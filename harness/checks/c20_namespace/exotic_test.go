package c20

import (
	"context"
	"encoding/hex"
	"fmt"
	"sort"

	bfuse "bazil.org/fuse"
	"bazil.org/fuse/fs"

	storfuse "github.com/jech/storrent/fuse"
	"verifharness/fixture"
	"verifharness/vk"
)

// checkFuseRoot: the root directory names exactly the live torrents; names
// no torrent has do not resolve.
func checkFuseRoot(c *vk.C, us []*torrentUnderTest, rep any) {
	root := storfuse.VerifRoot()
	ents, err := readdir(root)
	if err != nil {
		viol(c, "fuse-tree", "fuse-root-readdir-error", fmt.Sprintf("root ReadDirAll: %v", err), rep)
		return
	}
	want := map[string]bool{}
	for _, u := range us {
		want[u.g.Name] = true
	}
	got := map[string]bool{}
	for _, e := range ents {
		if e.Name == "." || e.Name == ".." {
			continue
		}
		got[e.Name] = true
		if !want[e.Name] {
			viol(c, "fuse-tree", "fuse-root-names-nontorrent", fmt.Sprintf("root ReadDirAll names %q, no such torrent", e.Name), rep)
		}
	}
	var names []string
	for n := range want {
		names = append(names, n)
		if !got[n] {
			viol(c, "fuse-tree", "fuse-root-misses-torrent", fmt.Sprintf("root ReadDirAll does not name torrent %q", n), rep)
		}
	}
	sort.Strings(names)
	for _, n := range names {
		type neg struct{ class, name string }
		cands := []neg{{"absent", "zz-absent-zz"}, {"suffix-extended", n + "x"}, {"case-changed", swapCase(n)}, {"slash-appended", n + "/"}}
		if len(n) > 1 {
			cands = append(cands, neg{"strict-prefix", n[:len(n)-1]}, neg{"strict-suffix", n[1:]})
		}
		for _, ng := range cands {
			if ng.name == "" || want[ng.name] {
				continue
			}
			c.Count("fuse_lookups_neg", 1)
			n2, err := lookup(root, ng.name)
			if err == nil {
				viol(c, "fuse-lookup", "fuse-root-lookup-resolves-absent "+ng.class, fmt.Sprintf("root Lookup(%q) returned node %v; torrents are %q", ng.name, n2, names), rep)
			} else if !isENOENT(err) {
				viol(c, "fuse-lookup", "fuse-root-lookup-wrong-errno "+ng.class, fmt.Sprintf("root Lookup(%q) returned %v, want ENOENT", ng.name, err), rep)
			}
		}
	}
}

// exoticCase drives every front-end over a BEP 3-invalid layout and reports
// panics only.
func exoticCase(c *vk.C, e exotic, rep any) {
	defer func() {
		if err := fixture.StopAll(); err != nil {
			c.Inconclusive("cleanup: " + err.Error())
		}
	}()
	g := e.geo
	t, err := g.NewTorrent("")
	if err != nil {
		c.Count("exotic_rejected_by_parser", 1)
		return
	}
	if err := fixture.StartTorrent(t, g); err != nil {
		c.Inconclusive("start: " + err.Error())
		return
	}
	hx := hex.EncodeToString(g.InfoHash())
	seenSig := map[string]bool{}
	flag := func(front, site, val, what string) {
		sig := "panic exotic=" + e.class + " " + front + " at " + site
		if seenSig[sig] {
			return
		}
		seenSig[sig] = true
		viol(c, "panic", sig, fmt.Sprintf("%s: panic: %s", what, val), rep)
	}
	visited := map[string]bool{}
	var queue []string
	push := func(tg string) {
		if !visited[tg] && len(visited) < 60 {
			visited[tg] = true
			queue = append(queue, tg)
		}
	}
	base := "/" + hx + "/"
	push("/")
	push(base)
	push("/" + hx + ".m3u")
	push("/" + hx + ".torrent")
	push(base + "?playlist")
	for _, f := range table(g) {
		push(base + esc(f.comps))
		if len(f.comps) > 1 {
			push(base + esc(f.comps[:len(f.comps)-1]) + "/")
			push(base + esc(f.comps[:len(f.comps)-1]) + "/?playlist")
		}
	}
	for len(queue) > 0 {
		tg := queue[0]
		queue = queue[1:]
		r := fixture.Get(tg, host)
		if r.BadTarget != "" {
			continue
		}
		c.Count("http_requests", 1)
		c.Count("exotic_http_requests", 1)
		if r.Panic != "" {
			flag("http", r.PanicSite, r.Panic, fmt.Sprintf("GET %q", tg))
			continue
		}
		if r.Code == 200 && len(r.Body) > 0 && r.Body[0] == '<' {
			l := parseHTML(r.Body, hx)
			for _, x := range l.files {
				push(x.href)
			}
			for _, x := range l.dirs {
				push(x.href)
			}
			for _, x := range l.playlists {
				push(x.href)
			}
		}
	}
	// FUSE
	root := storfuse.VerifRoot()
	fz := func(what string, f func()) {
		if site, val := guard(f); val != "" {
			flag("fuse", site, val, what)
		}
	}
	fz("root ReadDirAll", func() { readdir(root) })
	var top fs.Node
	fz(fmt.Sprintf("root Lookup(%q)", g.Name), func() { top, _ = lookup(root, g.Name) })
	// the kernel would look the name up component by component
	if top == nil {
		return
	}
	var res walkResult
	budget := 300
	fz("walk", func() {
		if isDirNode(top) {
			walk(top, nil, 0, &res, &budget)
		} else {
			res.files = append(res.files, fnode{[]string{g.Name}, top})
		}
	})
	c.Count("exotic_fuse_nodes", int64(len(res.files)+len(res.dirs)))
	nodes := append(append([]fnode(nil), res.files...), res.dirs...)
	// plus the direct Lookup chain of every file of the table
	for _, f := range table(g) {
		if g.Files == nil {
			break
		}
		n := top
		for _, comp := range f.comps {
			var next fs.Node
			cur := n
			fz(fmt.Sprintf("Lookup(%q) on the way to %q", comp, f.comps), func() { next, _ = lookup(cur, comp) })
			if next == nil {
				n = nil
				break
			}
			n = next
		}
		if n != nil {
			nodes = append(nodes, fnode{f.comps, n})
		}
	}
	if len(nodes) > 40 {
		nodes = nodes[:40]
	}
	for _, fn := range nodes {
		fn := fn
		fz(fmt.Sprintf("Attr(%q)", fn.comps), func() {
			var a bfuse.Attr
			fn.node.Attr(context.Background(), &a)
		})
		if isDirNode(fn.node) {
			fz(fmt.Sprintf("ReadDirAll(%q)", fn.comps), func() { readdir(fn.node) })
			for _, nm := range []string{"", ".", "..", "/", "a/b", "zz"} {
				fz(fmt.Sprintf("Lookup(%q) in %q", nm, fn.comps), func() { lookup(fn.node, nm) })
			}
			continue
		}
		op, ok := fn.node.(fs.NodeOpener)
		if !ok {
			continue
		}
		fz(fmt.Sprintf("Open/Read(%q)", fn.comps), func() {
			h, err := op.Open(context.Background(), &bfuse.OpenRequest{Flags: bfuse.OpenReadOnly}, &bfuse.OpenResponse{})
			if err != nil || h == nil {
				return
			}
			fuseRead(h, 0, 4096)
			if rl, ok := h.(fs.HandleReleaser); ok {
				rl.Release(context.Background(), &bfuse.ReleaseRequest{})
			}
		})
	}
}
