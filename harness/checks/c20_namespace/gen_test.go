package c20

import (
	"fmt"
	"math/rand/v2"
	"strings"

	"verifharness/fixture"
	"verifharness/vk"
)

// Name atoms of the main family: non-empty, no "/", not "." or "..".
var atoms = []string{
	"a", "ab", "a b", "b", "A", "B", "aB", "a.b", "a+b", "a%b", "a?b", "a#b", "a&b=c;d",
	"%41", "%2F", "%252F", "%2f", "a%2Fb", "%", "%%", "%zz", "+", "é", "日本語", "ä b",
	"..a", "a..", "...", ".a", "a.", " a", "a ", " ", "~", "-", "_", "a,b", "a:b", "a\\b",
	"a'b", "a\"b", "a<b>", "<a>", "[a]", "{a}", "a|b", "a^b", "`a`", "a*b", "@", "$", "!",
	"(a)", "index.html", "a.m3u", "a.torrent", "playlist", "?playlist", "a\tb", "\xff\xfe",
	"x.mp4", "y.txt", "readme", "CON", "a=b", "a;b", "&amp;", "&#47;", "&copy", "x&lt", "&amp", "0", "-1",
}

type fent struct {
	comps []string
	off   int64
	ln    int64
	pad   bool
}

// table is the reference file table of a geometry (from the generator, not
// from storrent).
func table(g *fixture.Geo) []fent {
	if g.Files == nil {
		return []fent{{comps: []string{g.Name}, off: 0, ln: g.Length}}
	}
	var out []fent
	var off int64
	for _, f := range g.Files {
		out = append(out, fent{comps: f.Path, off: off, ln: f.Length, pad: f.Pad})
		off += f.Length
	}
	return out
}

func key(comps []string) string {
	return strings.Join(comps, "\x00/") + fmt.Sprintf("\x00#%d", len(comps))
}

func isPrefix(p, q []string) bool {
	if len(p) > len(q) {
		return false
	}
	for i := range p {
		if p[i] != q[i] {
			return false
		}
	}
	return true
}

var fileLens = []int64{0, 0, 1, 2, 100, 4095, 16383, 16384, 16385, 20000, 40000}
var pieceLens = []uint32{16 << 10, 32 << 10, 64 << 10}

func genPool(rng *rand.Rand) []string {
	var pool []string
	k := 3 + rng.IntN(4)
	for i := 0; i < k; i++ {
		pool = append(pool, vk.Pick(rng, atoms))
	}
	if rng.IntN(2) == 0 {
		pool = append(pool, "a", "ab", "a b", "b")
	}
	pool = append(pool, pool[0]+pool[1], pool[0]+" "+pool[1])
	if len(pool[0]) > 1 && pool[0][:1] != "." {
		pool = append(pool, pool[0][:1])
	}
	return pool
}

// genMulti draws a multi-file layout without file/directory conflicts.
func genMulti(rng *rand.Rand, name string) *fixture.Geo {
	pool := genPool(rng)
	n := 1 + rng.IntN(9)
	var files []fixture.File
	conflict := func(p []string) bool {
		for _, f := range files {
			if isPrefix(p, f.Path) || isPrefix(f.Path, p) {
				return true
			}
		}
		return false
	}
	for i := 0; i < n; i++ {
		for try := 0; try < 20; try++ {
			d := []int{0, 0, 1, 1, 2, 3}[rng.IntN(6)]
			var p []string
			for j := 0; j < d; j++ {
				p = append(p, vk.Pick(rng, pool))
			}
			fn := vk.Pick(rng, pool)
			if rng.IntN(4) == 0 {
				fn += vk.Pick(rng, []string{".bin", ".mp4", " ", "x"})
			}
			p = append(p, fn)
			if conflict(p) {
				continue
			}
			files = append(files, fixture.File{Path: p, Length: vk.Pick(rng, fileLens)})
			break
		}
	}
	if len(files) == 0 {
		files = append(files, fixture.File{Path: []string{"a"}, Length: 1})
	}
	if rng.IntN(3) == 0 { // padding files (BEP 47 style and free-form)
		var out []fixture.File
		for i, f := range files {
			if rng.IntN(2) != 0 {
				out = append(out, f)
				continue
			}
			p := []string{".pad", fmt.Sprint(i)}
			before := false
			switch rng.IntN(5) {
			case 0:
				p = []string{fmt.Sprintf("_____padding_file_%d", i)}
			case 1, 2:
				// some torrent makers put the padding next to the file it pads, after it or before the next one:
				// the padding file can be the first entry of a directory that also holds real files
				p = append(append([]string(nil), f.Path[:len(f.Path)-1]...), fmt.Sprintf(".pad%d", i))
				before = rng.IntN(2) == 0
			}
			pf := fixture.File{Path: p, Length: int64(1 + rng.IntN(5000)), Pad: true}
			if conflict(p) {
				out = append(out, f)
			} else if before {
				out = append(out, pf, f)
			} else {
				out = append(out, f, pf)
			}
		}
		files = out
	}
	var total int64
	for _, f := range files {
		total += f.Length
	}
	if total == 0 && rng.IntN(4) != 0 {
		files[len(files)-1].Length = 1
		total = 1
	}
	return &fixture.Geo{Name: name, PieceLen: vk.Pick(rng, pieceLens), Length: total, Files: files, Seed: rng.Uint64()}
}

func genSingle(rng *rand.Rand, name string) *fixture.Geo {
	ln := []int64{1, 2, 100, 16383, 16384, 16385, 40000, 100000}[rng.IntN(8)]
	return &fixture.Geo{Name: name, PieceLen: vk.Pick(rng, pieceLens), Length: ln, Seed: rng.Uint64()}
}

type layout struct {
	class string
	geos  []*fixture.Geo
}

func genLayout(rng *rand.Rand) *layout {
	name := vk.Pick(rng, atoms)
	one := func(n string) *fixture.Geo {
		if rng.IntN(4) == 0 {
			return genSingle(rng, n)
		}
		return genMulti(rng, n)
	}
	l := &layout{}
	switch rng.IntN(10) {
	case 0, 1: // two torrents, same name
		l.class = "same-name"
		l.geos = []*fixture.Geo{one(name), one(name)}
	case 2: // two torrents, different names
		other := vk.Pick(rng, atoms)
		if other == name {
			other = name + "2"
		}
		l.class = "two"
		l.geos = []*fixture.Geo{one(name), one(other)}
	default:
		l.class = "one"
		l.geos = []*fixture.Geo{one(name)}
	}
	return l
}

func describe(g *fixture.Geo) map[string]any {
	var fl []string
	for _, f := range g.Files {
		s := fmt.Sprintf("%q:%d", f.Path, f.Length)
		if f.Pad {
			s += ":pad"
		}
		fl = append(fl, s)
	}
	return map[string]any{"name": fmt.Sprintf("%q", g.Name), "piece_len": g.PieceLen, "length": g.Length, "files": fl, "seed": g.Seed}
}

// ---- exotic family (crash-freedom only) -------------------------------------

type exotic struct {
	class string
	geo   *fixture.Geo
}

func mf(name string, paths ...[]string) *fixture.Geo {
	g := &fixture.Geo{Name: name, PieceLen: 16 << 10, Seed: 77}
	for i, p := range paths {
		g.Files = append(g.Files, fixture.File{Path: p, Length: int64(10 + 7*i)})
		g.Length += int64(10 + 7*i)
	}
	return g
}

func sf(name string) *fixture.Geo {
	return &fixture.Geo{Name: name, PieceLen: 16 << 10, Length: 1000, Seed: 78}
}

// exotics is a fixed enumeration: each entry has exactly one exotic feature.
func exotics() []exotic {
	long := strings.Repeat("L", 5000)
	var deep []string
	for i := 0; i < 200; i++ {
		deep = append(deep, "d")
	}
	deep = append(deep, "f")
	return []exotic{
		{"empty-component-mid", mf("t", []string{"a", "", "b"}, []string{"c"})},
		{"empty-component-first", mf("t", []string{"", "a"}, []string{"c"})},
		{"empty-component-last", mf("t", []string{"a", ""}, []string{"c"})},
		{"empty-component-only", mf("t", []string{""}, []string{"c"})},
		{"empty-path", mf("t", []string{}, []string{"c"})},
		{"empty-path-only", mf("t", []string{})},
		{"slash-in-component", mf("t", []string{"a/b"}, []string{"c"})},
		{"slash-in-component-vs-real", mf("t", []string{"a/b"}, []string{"a", "c"})},
		{"slash-leading", mf("t", []string{"/a"}, []string{"c"})},
		{"slash-trailing", mf("t", []string{"a/"}, []string{"c"})},
		{"slash-only", mf("t", []string{"/"}, []string{"c"})},
		{"dot-only", mf("t", []string{"."}, []string{"c"})},
		{"dot-mid", mf("t", []string{"a", ".", "b"}, []string{"c"})},
		{"dotdot-only", mf("t", []string{".."}, []string{"c"})},
		{"dotdot-first", mf("t", []string{"..", "a"}, []string{"c"})},
		{"dotdot-mid", mf("t", []string{"a", "..", "c"}, []string{"c"})},
		{"name-only-slashes-single", sf("/")},
		{"name-only-slashes-single", sf("//")},
		{"name-slash-only-multi", mf("/", []string{"a"})},
		{"name-contains-slash-single", sf("a/b")},
		{"name-contains-slash-multi", mf("a/b", []string{"c"})},
		{"name-leading-slash-single", sf("/a")},
		{"name-trailing-slash-single", sf("a/")},
		{"name-dot-single", sf(".")},
		{"name-dotdot-single", sf("..")},
		{"name-dot-multi", mf(".", []string{"a"})},
		{"name-dotdot-multi", mf("..", []string{"a"})},
		{"name-newline-single", sf("a\nb")},
		{"name-newline-multi", mf("a\nb", []string{"c"})},
		{"component-newline", mf("t", []string{"a\nb"}, []string{"d\r\ne", "f"})},
		{"component-nul", mf("t", []string{"a\x00b"}, []string{"c"})},
		{"name-nul-single", sf("a\x00b")},
		{"file-dir-conflict-file-first", mf("t", []string{"a"}, []string{"a", "b"})},
		{"file-dir-conflict-dir-first", mf("t", []string{"a", "b"}, []string{"a"})},
		{"duplicate-path", mf("t", []string{"a", "b"}, []string{"a", "b"})},
		{"long-component", mf("t", []string{long}, []string{"c"})},
		{"long-name-single", sf(long)},
		{"deep-nesting", mf("t", deep, []string{"c"})},
		{"question-name-single", sf("?")},
		{"percent-name-single", sf("%")},
	}
}

// viol records at most one violation per signature and case (a single cause
// usually shows on every page of the layout).
var sigSeen = map[string]bool{}

func viol(c *vk.C, kind, sig, detail string, rep any) {
	k := fmt.Sprintf("%d\x00%s", c.Index, sig)
	if sigSeen[k] {
		return
	}
	if len(sigSeen) > 4096 {
		sigSeen = map[string]bool{}
	}
	sigSeen[k] = true
	c.Violation(kind, sig, detail, rep)
}
