// C20: front-ends expose exactly the torrent's files.
//
// For generated layouts the monitor compares the set of paths named by the
// HTTP directory pages, the playlists and the FUSE ReadDirAll walk with the
// generator's own file table; resolves every named path (status, length,
// etag offset, bytes against PRF truth; FUSE Attr/Open/Read incl. concurrent
// reads on one handle); and sends crafted paths, judged by a reference that
// decodes the request path per net/http rules and splits it on "/": a 2xx
// answer on a file route is allowed only for the file whose component list
// equals the decoded path.  An "exotic" family (BEP 3-invalid components) is
// run for crash-freedom only.
package c20

import (
	"bytes"
	"encoding/hex"
	"fmt"
	"math/rand/v2"
	"net/url"
	"sort"
	"strings"
	"testing"

	"golang.org/x/net/html"

	"github.com/jech/storrent/tor"
	"verifharness/fixture"
	"verifharness/vk"
)

const host = "localhost:8088"

type link struct {
	href  string
	comps []string
}

type links struct {
	files, dirs, playlists []link
	bad                    []string
}

// splitEsc decodes an escaped path component-wise.
func splitEsc(esc string) ([]string, bool) {
	if esc == "" {
		return nil, true
	}
	var out []string
	for _, s := range strings.Split(esc, "/") {
		u, err := url.PathUnescape(s)
		if err != nil {
			return nil, false
		}
		out = append(out, u)
	}
	return out, true
}

// classify sorts an absolute URL path (+query) under /<hx>/ into file, dir or playlist.
func (l *links) classify(href, hx string) {
	u, err := url.Parse(href)
	if err != nil {
		l.bad = append(l.bad, href)
		return
	}
	p := u.EscapedPath()
	if !strings.HasPrefix(p, "/"+hx+"/") {
		return
	}
	rest := p[len(hx)+2:]
	if u.RawQuery == "playlist" || u.ForceQuery {
		if !strings.HasSuffix(rest, "/") && rest != "" {
			l.bad = append(l.bad, href)
			return
		}
		c, ok := splitEsc(strings.TrimSuffix(rest, "/"))
		if !ok {
			l.bad = append(l.bad, href)
			return
		}
		l.playlists = append(l.playlists, link{href, c})
		return
	}
	if rest == "" {
		return // link to the torrent itself
	}
	if strings.HasSuffix(rest, "/") {
		c, ok := splitEsc(strings.TrimSuffix(rest, "/"))
		if !ok {
			l.bad = append(l.bad, href)
			return
		}
		l.dirs = append(l.dirs, link{href, c})
		return
	}
	c, ok := splitEsc(rest)
	if !ok {
		l.bad = append(l.bad, href)
		return
	}
	l.files = append(l.files, link{href, c})
}

func parseHTML(body []byte, hx string) *links {
	l := &links{}
	z := html.NewTokenizer(bytes.NewReader(body))
	for {
		tt := z.Next()
		if tt == html.ErrorToken {
			return l
		}
		if tt != html.StartTagToken && tt != html.SelfClosingTagToken {
			continue
		}
		tok := z.Token()
		if tok.Data != "a" {
			continue
		}
		for _, a := range tok.Attr {
			if a.Key == "href" {
				l.classify(a.Val, hx)
			}
		}
	}
}

func parseM3U(body []byte, hx string) *links {
	l := &links{}
	for _, ln := range strings.Split(string(body), "\n") {
		if strings.HasPrefix(ln, "http://"+host+"/") {
			l.classify(strings.TrimPrefix(ln, "http://"+host), hx)
		}
	}
	return l
}

type torrentUnderTest struct {
	g   *fixture.Geo
	t   *tor.Torrent
	hx  string
	tab []fent
}

func (u *torrentUnderTest) within(dir []string, withPad bool) map[string]fent {
	m := map[string]fent{}
	for _, f := range u.tab {
		if len(f.comps) > len(dir) && isPrefix(dir, f.comps) && (withPad || !f.pad) {
			m[key(f.comps)] = f
		}
	}
	return m
}

func (u *torrentUnderTest) allDirs() map[string][]string {
	m := map[string][]string{}
	if u.g.Files == nil {
		return m
	}
	for _, f := range u.tab {
		for i := 1; i < len(f.comps); i++ {
			m[key(f.comps[:i])] = f.comps[:i]
		}
	}
	return m
}

// mangled reports whether an HTML parser changes the escaped form of comps
// when it appears in an attribute value (character references such as
// "&amp" survive url.PathEscape).
func mangled(comps []string) bool {
	e := esc(comps)
	return attrDecode(e) != e
}

// attrDecode returns what an HTML parser reads from href="<e>" (e holds no
// double quote: url.PathEscape encodes it).
func attrDecode(e string) string {
	z := html.NewTokenizer(strings.NewReader(`<a href="` + e + `">`))
	if z.Next() != html.StartTagToken {
		return e
	}
	for _, a := range z.Token().Attr {
		if a.Key == "href" {
			return a.Val
		}
	}
	return e
}

// mangledFrom reports whether comps is what an HTML parser makes of the
// escaped form of some path (prefix) of the table.
func (u *torrentUnderTest) mangledFrom(comps []string) bool {
	for _, f := range u.tab {
		for i := 1; i <= len(f.comps); i++ {
			e := esc(f.comps[:i])
			if h := attrDecode(e); h != e {
				if d, ok := splitEsc(h); ok && key(d) == key(comps) {
					return true
				}
			}
		}
	}
	return false
}

// compareSet: the set of file links of a view must be exactly want.
func compareSet(c *vk.C, u *torrentUnderTest, view, site string, got []link, want map[string]fent, where string, rep any) {
	seen := map[string]bool{}
	for _, l := range got {
		seen[key(l.comps)] = true
		if _, ok := want[key(l.comps)]; !ok {
			sig := view + "-names-nonfile"
			if site != "url" && u.mangledFrom(l.comps) {
				sig = "href-entity " + site
			}
			viol(c, "names", sig, fmt.Sprintf("%s names %q (href %q), not a file of the torrent there", where, l.comps, l.href), rep)
		}
	}
	for k, f := range want {
		if !seen[k] {
			sig := view + "-misses-file"
			if site != "url" && mangled(f.comps) {
				// only if the view names the entity-decoded twin instead
				if d, ok := splitEsc(attrDecode(esc(f.comps))); ok && seen[key(d)] {
					sig = "href-entity " + site
				}
			}
			viol(c, "names", sig, fmt.Sprintf("%s does not name file %q", where, f.comps), rep)
		}
	}
}

func panicked(c *vk.C, r *fixture.Resp, what string, rep any) bool {
	if r.Panic != "" {
		viol(c, "panic", "panic "+what+" at "+r.PanicSite, fmt.Sprintf("handler panic: %s", r.Panic), rep)
		return true
	}
	return false
}

// judgeFile checks that a 2xx response is exactly file f.
func judgeFile(c *vk.C, u *torrentUnderTest, r *fixture.Resp, f fent, sigsfx, target string, rep any) {
	wantTag := fmt.Sprintf("\"%s-%d\"", u.hx, f.off)
	if r.Code != 200 {
		viol(c, "resolve", "http-unresolved "+sigsfx, fmt.Sprintf("GET %q: status %d, path equals file %q", target, r.Code, f.comps), rep)
		return
	}
	if et := r.Header.Get("Etag"); et != wantTag {
		viol(c, "resolve", "http-wrong-etag "+sigsfx, fmt.Sprintf("GET %q: etag %s, want %s (file %q)", target, et, wantTag, f.comps), rep)
	}
	if cl := r.Header.Get("Content-Length"); cl != fmt.Sprint(f.ln) {
		viol(c, "resolve", "http-wrong-length "+sigsfx, fmt.Sprintf("GET %q: Content-Length %q, file %q has length %d", target, cl, f.comps, f.ln), rep)
	}
	if !bytes.Equal(r.Body, u.g.Truth(f.off, int(f.ln))) {
		viol(c, "resolve", "http-wrong-bytes "+sigsfx, fmt.Sprintf("GET %q: %d body bytes differ from truth of file %q (offset %d length %d)", target, len(r.Body), f.comps, f.off, f.ln), rep)
	}
}

// looksLikeFile: a response that carries file content.
func looksLikeFile(u *torrentUnderTest, r *fixture.Resp) string {
	if r.Code < 200 || r.Code > 299 {
		return ""
	}
	if et := r.Header.Get("Etag"); et != "" {
		return "etag " + et
	}
	for _, f := range u.tab {
		if f.ln >= 8 && bytes.Equal(r.Body, u.g.Truth(f.off, int(f.ln))) {
			return fmt.Sprintf("body equals file %q", f.comps)
		}
	}
	return ""
}

// refRoute is the reference reading of "/<hash>/<rest>?<query>".
func refRoute(rest, rawQuery string) (kind string, comps []string, ok bool) {
	dec, err := url.PathUnescape(rest)
	if err != nil {
		return "", nil, false
	}
	q, err := url.ParseQuery(rawQuery)
	if err != nil {
		return "", nil, false
	}
	pth := "/" + dec
	parts := strings.Split(pth, "/")
	for len(parts) > 0 && parts[0] == "" {
		parts = parts[1:]
	}
	for len(parts) > 0 && parts[len(parts)-1] == "" {
		parts = parts[:len(parts)-1]
	}
	switch {
	case q["playlist"] != nil:
		kind = "playlist"
	case strings.HasSuffix(pth, "/"):
		kind = "dir"
	default:
		kind = "file"
	}
	return kind, parts, true
}

func esc(comps []string) string {
	var s []string
	for _, c := range comps {
		s = append(s, url.PathEscape(c))
	}
	return strings.Join(s, "/")
}

func escAll(s string) string {
	var b strings.Builder
	for i := 0; i < len(s); i++ {
		fmt.Fprintf(&b, "%%%02X", s[i])
	}
	return b.String()
}

type craft struct{ class, rest, query string }

func crafts(rng *rand.Rand, u *torrentUnderTest, other *torrentUnderTest) []craft {
	f := u.tab[rng.IntN(len(u.tab))]
	p := f.comps
	last := p[len(p)-1]
	with := func(c []string, l string) string { return esc(append(append([]string(nil), c[:len(c)-1]...), l)) }
	var out []craft
	add := func(class, rest string) { out = append(out, craft{class, rest, ""}) }
	add("absent", with(p, "zz-absent-zz"))
	if len(p) > 1 {
		add("strict-prefix-dir", esc(p[:len(p)-1]))
		add("strict-prefix-dir", esc(p[:1]))
		rev := append([]string(nil), p...)
		for i, j := 0, len(rev)-1; i < j; i, j = i+1, j-1 {
			rev[i], rev[j] = rev[j], rev[i]
		}
		add("siblings-swapped", esc(rev))
		for _, j := range []string{" ", "", "%2F", "%252F", "%5C", "+", "%00"} {
			add("joined", esc(p[:len(p)-2])+ifs(len(p) > 2, "/", "")+url.PathEscape(p[len(p)-2])+j+url.PathEscape(last))
		}
		add("dot-segment-encoded", esc(p[:len(p)-1])+"/%2e/"+url.PathEscape(last))
		add("dot-segment-encoded", esc(p[:len(p)-1])+"/x/%2e%2e/"+url.PathEscape(last))
		add("dot-segment", esc(p[:len(p)-1])+"/./"+url.PathEscape(last))
		add("dot-segment", esc(p[:len(p)-1])+"/x/../"+url.PathEscape(last))
		add("empty-component", esc(p[:len(p)-1])+"//"+url.PathEscape(last))
		add("empty-component-encoded", esc(p[:len(p)-1])+"/%2F/"+url.PathEscape(last))
	}
	if len(last) > 1 {
		add("strict-prefix-name", with(p, last[:len(last)-1]))
		add("strict-suffix-name", with(p, last[1:]))
		for i := 1; i < len(last); i++ {
			if last[i] == ' ' || rng.IntN(len(last)) == 0 {
				add("split", with(p, last[:i])+"/"+url.PathEscape(last[i:]))
				if last[i] == ' ' && i+1 < len(last) {
					add("split", with(p, last[:i])+"/"+url.PathEscape(last[i+1:]))
				}
				break
			}
		}
	}
	add("extended-component", esc(p)+"/x")
	add("extended-component", esc(p)+"/"+url.PathEscape(last))
	add("extended-name", with(p, last+"x"))
	add("extended-name", with(p, last+" "))
	add("extended-name", esc(p)+"%00")
	add("extended-name", esc(p)+"%20")
	if s := swapCase(last); s != "" {
		add("case-changed", with(p, s))
	}
	if len(p) > 1 {
		if s := swapCase(p[0]); s != "" {
			add("case-changed", esc(append([]string{s}, p[1:]...)))
		}
	}
	add("fully-encoded", func() string {
		var s []string
		for _, c := range p {
			s = append(s, escAll(c))
		}
		return strings.Join(s, "/")
	}())
	add("doubly-encoded", strings.ReplaceAll(esc(p), "%", "%25"))
	add("doubly-encoded", url.PathEscape(escAll(last)))
	add("encoded-dotdot", "%2e%2e/"+esc(p))
	add("encoded-dotdot", "%2e%2e")
	add("encoded-dot", "%2e")
	add("dot-segment", "../"+esc(p))
	add("dot-segment", "./"+esc(p))
	add("trailing-slash", esc(p)+"/")
	add("trailing-slash-encoded", esc(p)+"%2F")
	add("leading-slash-encoded", "%2F"+esc(p))
	out = append(out, craft{"query-playlist", esc(p), "playlist"})
	out = append(out, craft{"query-other", esc(p), "x=1"})
	out = append(out, craft{"query-playlist-absent-dir", with(p, "zz-absent-zz") + "/", "playlist"})
	add("dir-absent", with(p, "zz-absent-zz")+"/")
	add("plus-for-space", strings.ReplaceAll(esc(p), "%20", "+"))
	if other != nil {
		of := other.tab[rng.IntN(len(other.tab))]
		add("other-torrent-path", esc(of.comps))
	}
	// a sample of them, deterministic
	rng.Shuffle(len(out), func(i, j int) { out[i], out[j] = out[j], out[i] })
	if len(out) > 18 {
		out = out[:18]
	}
	return out
}

func ifs(b bool, x, y string) string {
	if b {
		return x
	}
	return y
}

func (u *torrentUnderTest) fileByComps(comps []string) int {
	for i, f := range u.tab {
		if len(f.comps) == len(comps) && isPrefix(f.comps, comps) {
			return i
		}
	}
	return -1
}

// checkListing fetches one directory page and judges its links.
func checkListing(c *vk.C, u *torrentUnderTest, dir []string, target, view string, rep any) *links {
	r := fixture.Get(target, host)
	c.Count("http_requests", 1)
	if panicked(c, r, view, rep) {
		return nil
	}
	if r.Code != 200 {
		viol(c, "resolve", view+"-unresolved", fmt.Sprintf("GET %q: status %d", target, r.Code), rep)
		return nil
	}
	l := parseHTML(r.Body, u.hx)
	c.Count("listing_links", int64(len(l.files)+len(l.dirs)))
	for _, b := range l.bad {
		viol(c, "names", view+"-bad-href", fmt.Sprintf("GET %q: unusable href %q", target, b), rep)
	}
	compareSet(c, u, view, "file-link", l.files, u.within(dir, true), fmt.Sprintf("page %q", target), rep)
	all := u.allDirs()
	seen := map[string]bool{}
	for _, d := range l.dirs {
		seen[key(d.comps)] = true
		if _, ok := all[key(d.comps)]; !ok {
			sig := view + "-names-nondir"
			if u.mangledFrom(d.comps) {
				sig = "href-entity dir-link"
			}
			viol(c, "names", sig, fmt.Sprintf("page %q links directory %q (href %q) which holds no file", target, d.comps, d.href), rep)
		}
	}
	for _, d := range l.playlists {
		if _, ok := all[key(d.comps)]; !ok && len(d.comps) > 0 {
			sig := view + "-names-nondir-playlist"
			if u.mangledFrom(d.comps) {
				sig = "href-entity dir-playlist-link"
			}
			viol(c, "names", sig, fmt.Sprintf("page %q links the playlist of directory %q (href %q) which holds no file", target, d.comps, d.href), rep)
		}
	}
	// (which sub-directories a page links is navigation, not part of the
	// statement: counted only)
	for k, d := range all {
		if len(d) > len(dir) && isPrefix(dir, d) && !seen[k] {
			c.Count("listing_subdirs_not_linked", 1)
		}
	}
	return l
}

func checkPlaylist(c *vk.C, u *torrentUnderTest, dir []string, target, view string, rep any) {
	r := fixture.Get(target, host)
	c.Count("http_requests", 1)
	if panicked(c, r, view, rep) {
		return
	}
	if r.Code != 200 {
		viol(c, "resolve", view+"-unresolved", fmt.Sprintf("GET %q: status %d", target, r.Code), rep)
		return
	}
	l := parseM3U(r.Body, u.hx)
	c.Count("playlist_urls", int64(len(l.files)))
	for _, b := range l.bad {
		viol(c, "names", view+"-bad-url", fmt.Sprintf("GET %q: unusable URL %q", target, b), rep)
	}
	if len(l.dirs)+len(l.playlists) > 0 {
		viol(c, "names", view+"-names-nonfile", fmt.Sprintf("GET %q: playlist names directories %v %v", target, l.dirs, l.playlists), rep)
	}
	compareSet(c, u, view, "url", l.files, u.within(dir, true), fmt.Sprintf("playlist %q", target), rep)
}

func checkHTTP(c *vk.C, rng *rand.Rand, u, other *torrentUnderTest, rep any) {
	base := "/" + u.hx + "/"
	top := checkListing(c, u, nil, base, "listing", rep)
	checkPlaylist(c, u, nil, "/"+u.hx+".m3u", "playlist", rep)
	checkPlaylist(c, u, nil, base+"?playlist", "playlist", rep)
	if top == nil {
		return
	}
	// sub-directory pages and their playlists, through the hrefs the page names
	nd := 0
	all := u.allDirs()
	for _, d := range top.dirs {
		if _, ok := all[key(d.comps)]; !ok {
			continue // reported by checkListing
		}
		if nd++; nd > 5 {
			break
		}
		checkListing(c, u, d.comps, d.href, "listing-subdir", rep)
	}
	np := 0
	for _, p := range top.playlists {
		if _, ok := all[key(p.comps)]; !ok {
			continue
		}
		if np++; np > 3 {
			break
		}
		checkPlaylist(c, u, p.comps, p.href, "playlist-subdir", rep)
	}
	// every named file resolves to itself
	for _, l := range top.files {
		k := u.fileByComps(l.comps)
		if k < 0 {
			continue
		}
		r := fixture.Get(l.href, host)
		c.Count("http_requests", 1)
		if panicked(c, r, "file", rep) {
			continue
		}
		if r.BadTarget != "" {
			viol(c, "names", "listing-bad-href", fmt.Sprintf("href %q is not a usable request target: %s", l.href, r.BadTarget), rep)
			continue
		}
		c.Count("files_resolved_http", 1)
		judgeFile(c, u, r, u.tab[k], "named", l.href, rep)
	}
	// one ranged request
	for try := 0; try < 4; try++ {
		f := u.tab[rng.IntN(len(u.tab))]
		if f.ln < 2 {
			continue
		}
		a := rng.Int64N(f.ln - 1)
		b := a + rng.Int64N(f.ln-a)
		tg := base + esc(f.comps)
		r := fixture.Do(fixture.Req{Method: "GET", Target: tg, Host: host, Header: map[string]string{"Range": fmt.Sprintf("bytes=%d-%d", a, b)}})
		c.Count("http_requests", 1)
		if panicked(c, r, "file", rep) {
			break
		}
		wantCR := fmt.Sprintf("bytes %d-%d/%d", a, b, f.ln)
		if r.Code != 206 || r.Header.Get("Content-Range") != wantCR || !bytes.Equal(r.Body, u.g.Truth(f.off+a, int(b-a+1))) {
			viol(c, "resolve", "http-range-wrong", fmt.Sprintf("GET %q Range %d-%d: status %d Content-Range %q, %d bytes; want 206 %q and truth at torrent offset %d", tg, a, b, r.Code, r.Header.Get("Content-Range"), len(r.Body), wantCR, f.off+a), rep)
		}
		c.Count("range_requests", 1)
		break
	}
	// crafted paths
	for _, cr := range crafts(rng, u, other) {
		tg := base + cr.rest
		if cr.query != "" {
			tg += "?" + cr.query
		}
		kind, comps, ok := refRoute(cr.rest, cr.query)
		if !ok {
			continue
		}
		r := fixture.Get(tg, host)
		if r.BadTarget != "" {
			continue
		}
		c.Count("http_requests", 1)
		c.Count("crafted_lookups", 1)
		if panicked(c, r, "crafted "+cr.class, rep) {
			continue
		}
		want := -1
		if kind == "file" {
			want = u.fileByComps(comps)
		}
		is2xx := r.Code >= 200 && r.Code <= 299
		if r.Code >= 300 && r.Code <= 399 {
			c.Count("crafted_redirected_by_mux", 1)
			continue
		}
		switch {
		case kind == "file" && want >= 0:
			c.Count("crafted_resolving", 1)
			judgeFile(c, u, r, u.tab[want], "craft="+cr.class, tg, rep)
		case kind == "file":
			if is2xx {
				viol(c, "resolve", "http-resolves-nonfile craft="+cr.class, fmt.Sprintf("GET %q: status %d (%s) although decoded path %q equals no file of the torrent", tg, r.Code, looksLikeFile(u, r), comps), rep)
			} else {
				c.Count("crafted_refused", 1)
			}
		default:
			if w := looksLikeFile(u, r); w != "" {
				viol(c, "resolve", "http-file-content-on-"+kind+"-route craft="+cr.class, fmt.Sprintf("GET %q: %s", tg, w), rep)
			} else if is2xx && kind == "dir" {
				l := parseHTML(r.Body, u.hx)
				compareSet(c, u, "listing-crafted", "file-link", l.files, u.within(comps, true), fmt.Sprintf("page %q", tg), rep)
				c.Count("crafted_dir_pages", 1)
			} else if is2xx && kind == "playlist" {
				l := parseM3U(r.Body, u.hx)
				compareSet(c, u, "playlist-crafted", "url", l.files, u.within(comps, true), fmt.Sprintf("playlist %q", tg), rep)
			} else {
				c.Count("crafted_refused", 1)
			}
		}
	}
}

// checkRootPage: the torrent list names, per torrent, exactly its files.
func checkRootPage(c *vk.C, us []*torrentUnderTest, rep any) {
	r := fixture.Get("/", host)
	c.Count("http_requests", 1)
	if panicked(c, r, "root", rep) {
		return
	}
	if r.Code != 200 {
		viol(c, "resolve", "root-unresolved", fmt.Sprintf("GET /: status %d", r.Code), rep)
		return
	}
	for _, u := range us {
		l := parseHTML(r.Body, u.hx)
		compareSet(c, u, "rootpage", "file-link", l.files, u.within(nil, true), "page \"/\"", rep)
	}
}

func checkGetByName(c *vk.C, us []*torrentUnderTest, rep any) {
	byName := map[string][]*torrentUnderTest{}
	for _, u := range us {
		byName[u.g.Name] = append(byName[u.g.Name], u)
	}
	for name, l := range byName {
		if len(l) < 2 {
			continue
		}
		c.Count("samename_groups", 1)
		sort.Slice(l, func(i, j int) bool { return l[i].hx < l[j].hx })
		var first *tor.Torrent
		for k := 0; k < 16; k++ {
			t := tor.GetByName(name)
			if t == nil {
				viol(c, "getbyname", "getbyname-nil", fmt.Sprintf("GetByName(%q) = nil with %d torrents of that name", name, len(l)), rep)
				return
			}
			if first == nil {
				first = t
			} else if t != first {
				viol(c, "getbyname", "getbyname-nondeterministic", fmt.Sprintf("GetByName(%q) returned %v then %v", name, first.Hash, t.Hash), rep)
				return
			}
		}
		if hex.EncodeToString(first.Hash) != l[0].hx {
			viol(c, "getbyname", "getbyname-not-min-hash", fmt.Sprintf("GetByName(%q) = %v, smallest hash of that name is %s", name, first.Hash, l[0].hx), rep)
		}
	}
}

func startAll(c *vk.C, geos []*fixture.Geo) ([]*torrentUnderTest, bool) {
	var us []*torrentUnderTest
	for gi, g := range geos {
		t, err := g.NewTorrent("")
		if err == nil && gi%3 == 1 {
			// the same torrent as it looks after arriving by magnet link: created by hash with another display
			// name (dn=), then its info dictionary is delivered. Its names are the dictionary's from then on.
			var t2 *tor.Torrent
			t2, err = tor.New("", g.InfoHash(), "Display Name "+g.Name+".jpg", g.Info(), 0, nil, nil)
			if err == nil {
				err = t2.MetadataComplete()
				t = t2
			}
			c.Count("torrents_added_by_hash_with_display_name", 1)
		}
		if err != nil {
			c.Inconclusive("generator produced a torrent storrent rejects: " + err.Error())
			return us, false
		}
		if err := fixture.StartTorrent(t, g); err != nil {
			if strings.Contains(err.Error(), "exist") {
				continue // identical info dictionary twice
			}
			c.Inconclusive("start: " + err.Error())
			return us, false
		}
		us = append(us, &torrentUnderTest{g: g, t: t, hx: hex.EncodeToString(g.InfoHash()), tab: table(g)})
	}
	return us, true
}

func mainCase(c *vk.C, rng *rand.Rand, l *layout, rep any) {
	us, ok := startAll(c, l.geos)
	defer func() {
		if err := fixture.StopAll(); err != nil {
			c.Inconclusive("cleanup: " + err.Error())
		}
	}()
	if !ok {
		return
	}
	checkRootPage(c, us, rep)
	checkGetByName(c, us, rep)
	for i, u := range us {
		var other *torrentUnderTest
		if len(us) > 1 {
			other = us[1-i]
		}
		checkHTTP(c, rng, u, other, rep)
	}
	// FUSE: per distinct name, the torrent with the smallest hash
	sel := map[string]*torrentUnderTest{}
	for _, u := range us {
		if s, ok := sel[u.g.Name]; !ok || u.hx < s.hx {
			sel[u.g.Name] = u
		}
	}
	var names []string
	for n := range sel {
		names = append(names, n)
	}
	sort.Strings(names)
	for _, n := range names {
		site, val := guard(func() { checkFuse(c, rng, sel[n].g, rep) })
		if val != "" {
			viol(c, "panic", "panic fuse at "+site, "FUSE node method panicked: "+val, rep)
		}
	}
	// root directory: entries = live torrents; absent names do not resolve
	site, val := guard(func() { checkFuseRoot(c, us, rep) })
	if val != "" {
		viol(c, "panic", "panic fuse-root at "+site, "FUSE root method panicked: "+val, rep)
	}
}

func TestCheck(t *testing.T) {
	r := vk.New("C20")
	defer r.Done()
	fixture.FrontendInit()
	n := r.Env.N(1000, 30000)
	for i := 0; i < n; i++ {
		if !r.Mine(i) {
			continue
		}
		rng := r.Env.Rng(i)
		l := genLayout(rng)
		var ds []any
		for _, g := range l.geos {
			ds = append(ds, describe(g))
		}
		desc := map[string]any{"family": "main", "class": l.class, "torrents": ds}
		c := r.Begin(i, desc)
		if fixture.Poisoned {
			c.Inconclusive("an earlier cleanup in this process failed")
			c.End()
			continue
		}
		mainCase(c, rng, l, map[string]any{"case": i})
		nf, depth, pad, empty, single := 0, 0, false, false, false
		for _, g := range l.geos {
			if g.Files == nil {
				single = true
			}
			for _, f := range g.Files {
				nf++
				if len(f.Path) > depth {
					depth = len(f.Path)
				}
				pad = pad || f.Pad
				empty = empty || f.Length == 0
			}
		}
		c.FP(vk.Hash64(l.class, nf, depth, pad, empty, single), nf > 1)
		c.Count("layouts", 1)
		c.End()
	}
	// exotic family: fixed enumeration, crash-freedom only
	ex := exotics()
	reps := r.Env.N(1, 4)
	for k := 0; k < len(ex)*reps; k++ {
		i := n + k
		if !r.Mine(i) {
			continue
		}
		e := ex[k%len(ex)]
		desc := map[string]any{"family": "exotic", "class": e.class, "torrent": describe(e.geo)}
		c := r.Begin(i, desc)
		if fixture.Poisoned {
			c.Inconclusive("an earlier cleanup in this process failed")
			c.End()
			continue
		}
		exoticCase(c, e, map[string]any{"case": i})
		c.FP(vk.Hash64("exotic", e.class), false)
		c.Count("exotic_cases", 1)
		c.End()
	}
	r.Finish()
}
