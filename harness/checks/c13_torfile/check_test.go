// C13: torrent files — total parsing, consistent geometry, identity preserved.
//
// Every case hands one byte string to the real tor.ReadTorrent (or one string
// to tor.ReadMagnet) and judges the outcome:
//
//	panic / child death                          -> violation (crash freedom)
//	accepted torrent (err==nil, InfoComplete):
//	  geometry   piece length >0 and a multiple of 16 KiB; no negative file
//	             length; offsets contiguous from 0; sum of file lengths (big
//	             integers, also from the harness' own decode of the input) ==
//	             Pieces.Length(); len(inFlight) == ceil(length/16 KiB);
//	             Pieces.Num() == ceil(length/piece length); len(PieceHashes) == Num()
//	  hash       Hash == SHA-1 of the byte span of a top-level "info" value as
//	             located by refwire.Bdec
//	  url-lost   every clean http/https/udp tracker and http/https web seed of
//	             the input is present (same tier / same kind)
//	  roundtrip  WriteTorrent(t): the bytes, read by refwire and re-read by
//	             ReadTorrent, carry the same info-hash, tracker tiers and web seeds
//	magnets: Hash is one of the btih values present in the string; clean tr / ws kept;
//	         (nil,nil) is ReadMagnet's documented "not a magnet" answer.
//
// Parts (VERIF_PART): "parse" (default; bounded geometries), "deep" (nesting
// depth family, expected to overflow the goroutine stack inside the bencode
// dependency), "huge" (claimed lengths that make storrent allocate per-block /
// per-piece tables of attacker-chosen size; run under ulimit -v).
package c13

import (
	"bytes"
	"crypto/sha1"
	"encoding/base32"
	"encoding/hex"
	"fmt"
	"math/big"
	"math/rand/v2"
	"os"
	"reflect"
	"runtime"
	"runtime/debug"
	"runtime/metrics"
	"sort"
	"strings"
	"testing"

	"github.com/jech/storrent/tor"
	"github.com/jech/storrent/webseed"
	"verifharness/refwire"
	"verifharness/vk"
)

const chunk = 16384

// ---- the harness' own view of the input -------------------------------------

type entry struct {
	key    string
	vs, ve int // span of the value in the input
	val    any
}

// dictEntries scans the dictionary starting at b[off] element by element with
// refwire.Bdec, keeping duplicates.
func dictEntries(b []byte, off int) (ents []entry, end int, ok bool) {
	if off >= len(b) || b[off] != 'd' {
		return nil, 0, false
	}
	i := off + 1
	for {
		if i >= len(b) {
			return nil, 0, false
		}
		if b[i] == 'e' {
			return ents, i + 1, true
		}
		if b[i] < '0' || b[i] > '9' {
			return nil, 0, false
		}
		k, n, err := refwire.Bdec(b[i:], false)
		if err != nil {
			return nil, 0, false
		}
		kb, isStr := k.([]byte)
		if !isStr {
			return nil, 0, false
		}
		i += n
		v, m, err := refwire.Bdec(b[i:], false)
		if err != nil {
			return nil, 0, false
		}
		ents = append(ents, entry{string(kb), i, i + m, v})
		i += m
	}
}

func hasDup(ents []entry) bool {
	seen := map[string]bool{}
	for _, e := range ents {
		if seen[e.key] {
			return true
		}
		seen[e.key] = true
	}
	return false
}

func find(ents []entry, key string) *entry {
	for i := range ents {
		if ents[i].key == key {
			return &ents[i]
		}
	}
	return nil
}

type view struct {
	ok        bool // the reference scanner read the top-level dictionary
	dup       bool // duplicate keys at the top level, in info or in a file entry
	infoSpans [][2]int
	infoDict  bool

	typed     bool // geometry fields present with the bencode types of BEP 3
	pl        int64
	hasPL     bool
	piecesLen int
	hasPieces bool
	length    int64
	hasLength bool
	hasFiles  bool
	files     []int64

	urlsTyped bool
	tiers     [][]string // BEP 12 reading: announce-list if present, else announce
	urlList   []string
	httpSeeds []string
}

func strList(v any) ([]string, bool) {
	switch x := v.(type) {
	case []byte:
		return []string{string(x)}, true
	case []any:
		var out []string
		for _, e := range x {
			s, ok := e.([]byte)
			if !ok {
				return nil, false
			}
			out = append(out, string(s))
		}
		return out, true
	}
	return nil, false
}

func scan(b []byte) *view {
	v := &view{}
	top, _, ok := dictEntries(b, 0)
	if !ok {
		return v
	}
	v.ok = true
	v.dup = hasDup(top)
	v.urlsTyped = true
	for _, e := range top {
		if e.key == "info" {
			v.infoSpans = append(v.infoSpans, [2]int{e.vs, e.ve})
		}
	}
	if e := find(top, "announce-list"); e != nil {
		l, isList := e.val.([]any)
		if !isList {
			v.urlsTyped = false
		}
		for _, tv := range l {
			tl, isList := tv.([]any)
			if !isList {
				v.urlsTyped = false
				break
			}
			tier := []string{}
			for _, u := range tl {
				s, isStr := u.([]byte)
				if !isStr {
					v.urlsTyped = false
					break
				}
				tier = append(tier, string(s))
			}
			v.tiers = append(v.tiers, tier)
		}
		if len(l) == 0 {
			// an empty announce-list: BEP 12 says use it, common practice falls back to announce; require nothing
			v.tiers = nil
		}
	} else if e := find(top, "announce"); e != nil {
		s, isStr := e.val.([]byte)
		if !isStr {
			v.urlsTyped = false
		} else {
			v.tiers = [][]string{{string(s)}}
		}
	}
	if e := find(top, "url-list"); e != nil {
		l, ok := strList(e.val)
		if !ok {
			v.urlsTyped = false
		}
		v.urlList = l
	}
	if e := find(top, "httpseeds"); e != nil {
		l, ok := strList(e.val)
		if !ok {
			v.urlsTyped = false
		}
		v.httpSeeds = l
	}
	if len(v.infoSpans) == 0 {
		return v
	}
	info, _, ok := dictEntries(b, v.infoSpans[0][0])
	if !ok {
		return v
	}
	v.infoDict = true
	if hasDup(info) {
		v.dup = true
	}
	v.typed = true
	if e := find(info, "piece length"); e != nil {
		n, isInt := e.val.(int64)
		v.pl, v.hasPL = n, true
		if !isInt {
			v.typed = false
		}
	}
	if e := find(info, "pieces"); e != nil {
		s, isStr := e.val.([]byte)
		v.piecesLen, v.hasPieces = len(s), true
		if !isStr {
			v.typed = false
		}
	}
	if e := find(info, "length"); e != nil {
		n, isInt := e.val.(int64)
		v.length, v.hasLength = n, true
		if !isInt {
			v.typed = false
		}
	}
	if e := find(info, "files"); e != nil {
		v.hasFiles = true
		l, isList := e.val.([]any)
		if !isList {
			v.typed = false
		}
		// re-scan the list element by element to see duplicate keys inside file entries
		i := e.vs + 1
		for range l {
			fe, end, ok := dictEntries(b, i)
			if !ok {
				v.typed = false
				break
			}
			if hasDup(fe) {
				v.dup = true
			}
			var fl int64
			if le := find(fe, "length"); le != nil {
				n, isInt := le.val.(int64)
				if !isInt {
					v.typed = false
				}
				fl = n
			}
			v.files = append(v.files, fl)
			i = end
		}
	}
	return v
}

// total of the input as big integer; defined only when exactly one of
// length / files is present and everything is well typed and unambiguous.
func (v *view) total() (*big.Int, bool) {
	if !v.ok || v.dup || !v.infoDict || !v.typed || v.hasLength == v.hasFiles {
		return nil, false
	}
	if v.hasLength {
		return big.NewInt(v.length), true
	}
	s := new(big.Int)
	for _, f := range v.files {
		s.Add(s, big.NewInt(f))
	}
	return s, true
}

// wrapped is the total as any 64-bit implementation would compute it.
func (v *view) wrapped() int64 {
	var s int64
	if v.hasLength && v.length > 0 {
		return v.length
	}
	for _, f := range v.files {
		s += f
	}
	return s
}

func (v *view) plClass() string {
	if !v.ok || !v.infoDict || v.dup {
		return "piece-length-unknown"
	}
	if !v.hasPL || uint32(v.pl) == 0 {
		return "piece-length-zero"
	}
	return "piece-length-nonzero"
}

// safeForParsePart: the geometry the input claims cannot make storrent allocate
// more than a few hundred MB (see the part "huge" for the others).
func (v *view) safeForParsePart() bool {
	if !v.ok || !v.infoDict {
		return true
	}
	t := v.wrapped()
	if t <= 0 || t >= 1<<46 {
		return true
	}
	if t > 1<<36 {
		return false
	}
	pl := int64(uint32(v.pl))
	if !v.hasPL || pl == 0 {
		return true // divides by zero before allocating
	}
	// deliberately not relying on storrent refusing unaligned piece lengths
	return (t+pl-1)/pl <= 1<<19
}

func ceilDiv(a *big.Int, b int64) *big.Int {
	q, m := new(big.Int).DivMod(a, big.NewInt(b), new(big.Int))
	if m.Sign() != 0 {
		q.Add(q, big.NewInt(1))
	}
	return q
}

// ---- running the real code ---------------------------------------------------

func readTorrent(b []byte) (t *tor.Torrent, err error, pan any) {
	defer func() {
		if p := recover(); p != nil {
			pan = p
		}
	}()
	t, err = tor.ReadTorrent("", bytes.NewReader(b))
	return
}

func writeTorrent(t *tor.Torrent) (out []byte, err error, pan any) {
	defer func() {
		if p := recover(); p != nil {
			pan = p
		}
	}()
	var buf bytes.Buffer
	err = tor.WriteTorrent(&buf, t)
	out = buf.Bytes()
	return
}

func readMagnet(s string) (t *tor.Torrent, err error, pan any) {
	defer func() {
		if p := recover(); p != nil {
			pan = p
		}
	}()
	t, err = tor.ReadMagnet("", s)
	return
}

func panicClass(p any) string {
	s := fmt.Sprint(p)
	switch {
	case strings.Contains(s, "divide by zero"):
		return "divide-by-zero"
	case strings.Contains(s, "index out of range"):
		return "index-out-of-range"
	case strings.Contains(s, "slice bounds"):
		return "slice-bounds"
	case strings.Contains(s, "nil pointer"):
		return "nil-deref"
	case strings.Contains(s, "makeslice"):
		return "makeslice"
	case strings.Contains(s, "Hash has bad length"):
		return "hash-length"
	}
	return "other"
}

func clip(b []byte, n int) []byte {
	if len(b) > n {
		return b[:n]
	}
	return b
}

func replay(in []byte) map[string]any {
	m := map[string]any{"input_len": len(in), "input_hex_prefix": fmt.Sprintf("%x", clip(in, 1500))}
	if len(in) <= 3000 {
		m["input_quoted"] = fmt.Sprintf("%q", in)
	}
	return m
}

func trackerTiers(t *tor.Torrent) [][]string {
	var out [][]string
	for _, tier := range t.Trackers() {
		l := []string{}
		for _, tr := range tier {
			l = append(l, tr.URL())
		}
		out = append(out, l)
	}
	return out
}

// normTiers: an empty string is no tracker URL and an empty tier no tier.
func normTiers(in [][]string) [][]string {
	var out [][]string
	for _, tier := range in {
		var l []string
		for _, u := range tier {
			if u != "" {
				l = append(l, u)
			}
		}
		if len(l) > 0 {
			out = append(out, l)
		}
	}
	return out
}

func sameTiers(a, b [][]string) bool {
	if len(a) != len(b) {
		return false
	}
	for i := range a {
		if len(a[i]) != len(b[i]) {
			return false
		}
		for j := range a[i] {
			if a[i][j] != b[i][j] {
				return false
			}
		}
	}
	return true
}

type wsEntry struct {
	URL  string
	Kind string // getright | hoffman
}

func webseeds(t *tor.Torrent) []wsEntry {
	var out []wsEntry
	for _, ws := range t.Webseeds() {
		k := "other"
		switch ws.(type) {
		case *webseed.GetRight:
			k = "getright"
		case *webseed.Hoffman:
			k = "hoffman"
		}
		out = append(out, wsEntry{ws.URL(), k})
	}
	return out
}

func sameWS(a, b []wsEntry) bool {
	if len(a) != len(b) {
		return false
	}
	for i := range a {
		if a[i] != b[i] {
			return false
		}
	}
	return true
}

func contains(l []string, s string) bool {
	for _, x := range l {
		if x == s {
			return true
		}
	}
	return false
}

// ---- URL pools ---------------------------------------------------------------

// Clean URLs: syntactically unremarkable, supported scheme.  Only these are
// *required* to survive; everything else may be kept or dropped.
var cleanTrackers = []string{
	"http://tracker.example.com:6969/announce",
	"https://t.example.org/announce?passkey=0123456789abcdef",
	"udp://tracker.example.net:1337",
	"udp://10.0.0.1:80/announce",
	"http://[2001:db8::1]:8080/announce",
	"http://tracker.example.com/a/b/announce.php",
	"https://example.com:443/announce",
	"udp://tracker.opentrackr.example:1337/announce",
}

var hostileTrackers = []string{
	"", "wss://tracker.example/announce", "ftp://x.example/y", "http://bad host/", "http://h.example/%zz",
	"://", "\x00", "http://a\nb/", "HTTP://UPPER.example/announce", "udp://", "tracker.example.com:6969",
	"http://\xff\xfe/", "dht://0123456789abcdef0123456789abcdef01234567", "http://h.example:99999999/a", " http://sp.example/",
	"magnet:?xt=urn:btih:0123456789abcdef0123456789abcdef01234567",
}

var cleanSeeds = []string{
	"http://seed.example.com/files/",
	"https://cdn.example.org/t/file.iso",
	"http://10.1.2.3:8080/x",
	"https://mirror.example.net/pub/dist/",
	"http://[2001:db8::2]/f",
}

var hostileSeeds = []string{
	"", "ftp://seed.example.com/", "file:///etc/passwd", "http://%/", "seed.example.com/f", "udp://seed.example/", "\x00\x01",
	"HTTPS://UPPER.example/f", "http://a b/", "javascript:alert(1)",
}

var cleanTrackerSet, cleanSeedSet = map[string]bool{}, map[string]bool{}

func init() {
	for _, u := range cleanTrackers {
		cleanTrackerSet[u] = true
	}
	for _, u := range cleanSeeds {
		cleanSeedSet[u] = true
	}
}

// ---- oracle for ReadTorrent ----------------------------------------------------

type outcome struct {
	class    string // panic | rejected | accepted | nil-nil
	accepted bool
}

// judgeTorrent runs ReadTorrent on in and applies every clause.  cls is the
// input class of the generator (used in fingerprints only).
func judgeTorrent(c *vk.C, in []byte, cls string) outcome {
	return judgeTorrentV(c, in, scan(in))
}

// judgeTorrentV: same with the harness' view of the input already computed.
func judgeTorrentV(c *vk.C, in []byte, v *view) outcome {
	o := judgeTorrent0(c, in, v)
	relieve(c)
	return o
}

var heapSample = []metrics.Sample{{Name: "/memory/classes/heap/objects:bytes"}, {Name: "/memory/classes/total:bytes"}}

// relieve: the bencode dependency allocates a string's announced length before
// reading it (up to 2 GiB from a mutated length prefix).  That is not judged
// here (C04 has the allocation bound), but two such blocks in a row must not
// push the harness over its own ulimit, so garbage of that size is collected
// at once.
func relieve(c *vk.C) {
	metrics.Read(heapSample)
	if heapSample[1].Value.Kind() == metrics.KindUint64 {
		c.R.Max("max:go_runtime_mapped_mb", int64(heapSample[1].Value.Uint64()>>20))
	}
	if heapSample[0].Value.Kind() == metrics.KindUint64 && heapSample[0].Value.Uint64() > 256<<20 {
		c.Count("forced_gc_after_big_allocation", 1)
		runtime.GC()
		debug.FreeOSMemory()
	}
}

func judgeTorrent0(c *vk.C, in []byte, v *view) outcome {
	c.Count("inputs", 1)
	c.Count("torrent_inputs", 1)
	t, err, pan := readTorrent(in)
	if pan != nil {
		c.Count("panics", 1)
		c.Violation("panic", "panic ReadTorrent "+panicClass(pan),
			fmt.Sprintf("tor.ReadTorrent panicked: %v (%s: the reference decode of the input sees piece length %d, present=%v)", pan, v.plClass(), v.pl, v.hasPL), replay(in))
		return outcome{class: "panic"}
	}
	if err != nil {
		c.Count("rejected", 1)
		if v.ok && len(v.infoSpans) > 0 {
			metadataRetry(c, in, in[v.infoSpans[0][0]:v.infoSpans[0][1]])
		}
		return outcome{class: "rejected"}
	}
	if t == nil {
		c.Violation("nil-nil", "nil-nil ReadTorrent", "tor.ReadTorrent returned (nil, nil)", replay(in))
		return outcome{class: "nil-nil"}
	}
	c.Count("accepted", 1)
	if !t.InfoComplete() {
		c.Count("accepted_info_incomplete", 1)
		return outcome{class: "accepted-incomplete", accepted: true}
	}
	if t.Files != nil {
		c.Count("accepted_multifile", 1)
	} else {
		c.Count("accepted_singlefile", 1)
	}
	geometry(c, t, v, in)
	// hash
	if v.ok && len(v.infoSpans) > 0 {
		match := false
		for _, sp := range v.infoSpans {
			h := sha1.Sum(in[sp[0]:sp[1]])
			if len(t.Hash) == 20 && bytes.Equal(h[:], t.Hash) {
				match = true
			}
		}
		if !match {
			sp := v.infoSpans[0]
			h := sha1.Sum(in[sp[0]:sp[1]])
			c.Violation("hash", "hash info-span", fmt.Sprintf("Hash=%x but SHA-1 of the info value as it appears in the input (bytes %d..%d) is %x", []byte(t.Hash), sp[0], sp[1], h), replay(in))
		} else {
			c.Count("hash_ok", 1)
		}
	} else {
		c.Count("hash_unjudged", 1)
	}
	// URLs of the input kept
	if v.ok && !v.dup && v.urlsTyped {
		tiers := trackerTiers(t)
		for i, tier := range v.tiers {
			for _, u := range tier {
				if !cleanTrackerSet[u] {
					continue
				}
				c.Count("urls_required", 1)
				if i >= len(tiers) || !contains(tiers[i], u) {
					c.Violation("url-lost", "url-lost tracker", fmt.Sprintf("tracker %q (tier %d of the input) is not in tier %d of the torrent: %q", u, i, i, tiers), replay(in))
				}
			}
		}
		ws := webseeds(t)
		req := func(l []string, kind string) {
			for _, u := range l {
				if !cleanSeedSet[u] {
					continue
				}
				c.Count("urls_required", 1)
				found := false
				for _, w := range ws {
					if w.URL == u && w.Kind == kind {
						found = true
					}
				}
				if !found {
					c.Violation("url-lost", "url-lost webseed-"+kind, fmt.Sprintf("web seed %q (%s) of the input is not in the torrent: %v", u, kind, ws), replay(in))
				}
			}
		}
		req(v.urlList, "getright")
		req(v.httpSeeds, "hoffman")
	}
	roundtrip(c, t, in, v.ok)
	return outcome{class: "accepted", accepted: true}
}

// metadataRetry: the same info dictionary arriving over the magnet path (tor.New with the bytes, then
// MetadataComplete, as after a complete ut_metadata transfer). A dictionary that ReadTorrent refused is
// offered three times, as the torrent's loop does every few seconds while peers keep delivering it: each
// attempt must fail with an error, none may panic, none may suddenly succeed.
func metadataRetry(c *vk.C, in, info []byte) {
	h := sha1.Sum(info)
	t, err := tor.New("", h[:], "", append([]byte(nil), info...), 0, nil, nil)
	if err != nil || t == nil {
		return
	}
	c.Count("metadata_retry_inputs", 1)
	for attempt := 1; attempt <= 3; attempt++ {
		var pan any
		var merr error
		func() {
			defer func() {
				if p := recover(); p != nil {
					pan = p
				}
			}()
			merr = t.MetadataComplete()
		}()
		if pan != nil {
			c.Violation("panic", "panic MetadataComplete attempt-"+fmt.Sprint(attempt)+" "+panicClass(pan), fmt.Sprintf("MetadataComplete panicked on attempt %d with an info dictionary that ReadTorrent refuses: %v", attempt, pan), replay(in))
			return
		}
		if merr == nil {
			if attempt > 1 {
				c.Violation("geometry", "metadata-accepted-on-retry", fmt.Sprintf("an info dictionary refused on the first attempt was accepted on attempt %d", attempt), replay(in))
			} else {
				// ReadTorrent refused for a reason outside the info dictionary
				c.Count("metadata_retry_accepted_first", 1)
			}
			return
		}
		if t.InfoComplete() {
			c.Violation("geometry", "info-complete-after-refusal", "InfoComplete() is true after MetadataComplete returned an error", replay(in))
			return
		}
	}
	c.Count("metadata_retry_refused_thrice", 1)
}

func geometry(c *vk.C, t *tor.Torrent, v *view, in []byte) {
	bad := func(clause, detail string) {
		c.Violation("geometry", "geometry "+clause, detail, replay(in))
	}
	ps := t.Pieces.PieceSize()
	L := t.Pieces.Length()
	num := t.Pieces.Num()
	nh := len(t.PieceHashes)
	bl := big.NewInt(L)
	c.R.Max("max:accepted_length", L)
	c.R.Max("max:accepted_pieces", int64(num))
	c.R.Max("max:accepted_files", int64(len(t.Files)))
	if ps == 0 {
		bad("piece-length-zero", "accepted torrent has piece length 0")
	} else if ps%chunk != 0 {
		bad("piece-length-unaligned", fmt.Sprintf("accepted torrent has piece length %d, not a multiple of 16384", ps))
	}
	if t.Files != nil {
		sum := new(big.Int)
		negSeen, offSeen := false, false
		for i, f := range t.Files {
			if f.Length < 0 && !negSeen {
				negSeen = true
				bad("neg-file-length", fmt.Sprintf("file %d (%q) has length %d", i, f.Path, f.Length))
			}
			if big.NewInt(f.Offset).Cmp(sum) != 0 && !offSeen {
				offSeen = true
				bad("offsets", fmt.Sprintf("file %d starts at offset %d, the files before it sum to %s", i, f.Offset, sum))
			}
			sum.Add(sum, big.NewInt(f.Length))
		}
		if sum.Cmp(bl) != 0 {
			bad("sum", fmt.Sprintf("file lengths sum to %s, total length is %d", sum, L))
		}
		if vt, ok := v.total(); ok && v.hasFiles {
			if len(v.files) != len(t.Files) {
				bad("file-count", fmt.Sprintf("%d files in the torrent, %d in the input", len(t.Files), len(v.files)))
			} else if vt.Cmp(bl) != 0 && sum.Cmp(bl) == 0 {
				bad("sum", fmt.Sprintf("file lengths of the input sum to %s, total length is %d", vt, L))
			}
		}
	} else if vt, ok := v.total(); ok && v.hasLength && vt.Cmp(bl) != 0 {
		bad("sum", fmt.Sprintf("input says length %s, total length is %d", vt, L))
	}
	inF := reflect.ValueOf(t).Elem().FieldByName("inFlight")
	if !inF.IsValid() || inF.Kind() != reflect.Slice {
		c.Inconclusive("Torrent.inFlight not found by reflection")
		return
	}
	if L < 0 {
		// for a multi-file torrent a negative total only arises from a negative file length or a wrapped
		// sum, both reported above; a single-file torrent has its length straight from the input. No piece
		// table or slot count matches a negative length, so the geometry is not self-consistent.
		c.Count("accepted_negative_total", 1)
		if t.Files == nil {
			bad("negative-total", fmt.Sprintf("accepted single-file torrent has total length %d (%d piece hashes, piece length %d)", L, nh, ps))
		}
		return
	}
	if want := ceilDiv(bl, chunk); big.NewInt(int64(inF.Len())).Cmp(want) != 0 {
		bad("inflight", fmt.Sprintf("%d in-flight slots for length %d, want %s", inF.Len(), L, want))
	}
	if ps != 0 {
		if want := ceilDiv(bl, int64(ps)); big.NewInt(int64(num)).Cmp(want) != 0 {
			bad("piece-count", fmt.Sprintf("Pieces.Num()=%d for length %d and piece length %d, want %s", num, L, ps, want))
		}
	}
	if ps != 0 && num > 0 && L > 0 {
		// the pieces' own lengths: all but the last are a piece length, the last takes what remains
		lastWant := L - int64(num-1)*int64(ps)
		if got := int64(t.Pieces.PieceLength(uint32(num - 1))); lastWant > 0 && lastWant <= int64(ps) && got != lastWant {
			bad("last-piece-length", fmt.Sprintf("PieceLength(last=%d)=%d for length %d and piece length %d, want %d", num-1, got, L, ps, lastWant))
		}
		if num > 1 {
			if got := t.Pieces.PieceLength(0); got != ps {
				bad("piece-length", fmt.Sprintf("PieceLength(0)=%d, piece length is %d", got, ps))
			}
		}
		if got := t.Pieces.PieceLength(uint32(num)); got != 0 {
			bad("piece-length", fmt.Sprintf("PieceLength(%d)=%d beyond the last piece", num, got))
		}
		c.Count("piece_lengths_checked", 1)
	}
	if nh < num {
		bad("piece-table short", fmt.Sprintf("%d piece hashes for %d pieces (length %d, piece length %d; the input's pieces string has %d bytes)", nh, num, L, ps, v.piecesLen))
	} else if nh > num {
		bad("piece-table long", fmt.Sprintf("%d piece hashes for %d pieces (length %d, piece length %d; the input's pieces string has %d bytes)", nh, num, L, ps, v.piecesLen))
	}
	if !c.Violated() {
		c.Count("geometry_ok", 1)
	}
}

func tierShape(a [][]string) string {
	if len(a) == 1 && len(a[0]) == 1 {
		return "single"
	}
	if len(a) == 0 {
		return "none"
	}
	return "tiers"
}

// roundtrip judges the .torrent storrent serves back for t.
func roundtrip(c *vk.C, t *tor.Torrent, in []byte, refReadable bool) {
	out, err, pan := writeTorrent(t)
	if pan != nil {
		c.Violation("panic", "panic WriteTorrent "+panicClass(pan), fmt.Sprintf("tor.WriteTorrent panicked: %v", pan), replay(in))
		return
	}
	if err != nil {
		c.Violation("roundtrip", "roundtrip write-error", "tor.WriteTorrent failed on a torrent ReadTorrent accepted: "+err.Error(), replay(in))
		return
	}
	c.Count("written", 1)
	want := normTiers(trackerTiers(t))
	wantWS := webseeds(t)
	rep := func() map[string]any {
		m := replay(in)
		m["written_hex_prefix"] = fmt.Sprintf("%x", clip(out, 600))
		return m
	}
	// (a) the bytes as an independent reader sees them
	ov := scan(out)
	switch {
	case !refReadable:
		// the info value is re-emitted verbatim: if the reference scanner could not read the input
		// (integer forms such as i+5e that the dependency tolerates) it cannot read the output either
		c.Count("roundtrip_ref_unjudged", 1)
	case !ov.ok || len(ov.infoSpans) != 1:
		c.Violation("roundtrip", "roundtrip unreadable via=ref", fmt.Sprintf("the reference bencode scanner cannot read the written torrent (ok=%v, %d info keys)", ov.ok, len(ov.infoSpans)), rep())
	default:
		sp := ov.infoSpans[0]
		h := sha1.Sum(out[sp[0]:sp[1]])
		if !bytes.Equal(h[:], t.Hash) {
			c.Violation("roundtrip", "roundtrip hash via=ref", fmt.Sprintf("info value of the written torrent hashes to %x, torrent hash is %x", h, []byte(t.Hash)), rep())
		}
		if !ov.urlsTyped {
			c.Violation("roundtrip", "roundtrip url-types via=ref", "announce / announce-list / url-list / httpseeds of the written torrent have the wrong bencode types", rep())
		} else {
			if got := normTiers(ov.tiers); !sameTiers(got, want) {
				c.Violation("roundtrip", "roundtrip trackers via=ref shape="+tierShape(want), fmt.Sprintf("written torrent lists trackers %q, torrent has %q", got, want), rep())
			}
			var got []wsEntry
			for _, u := range ov.urlList {
				got = append(got, wsEntry{u, "getright"})
			}
			for _, u := range ov.httpSeeds {
				got = append(got, wsEntry{u, "hoffman"})
			}
			if !sameWS(got, wantWS) {
				c.Violation("roundtrip", "roundtrip webseeds via=ref", fmt.Sprintf("written torrent lists web seeds %v, torrent has %v", got, wantWS), rep())
			}
		}
	}
	// (b) storrent re-reads its own output
	t2, err, pan := readTorrent(out)
	if pan != nil {
		// the same panic would have hit the first read; report separately anyway
		c.Violation("panic", "panic reread "+panicClass(pan), fmt.Sprintf("ReadTorrent(WriteTorrent(t)) panicked: %v", pan), rep())
		return
	}
	if err != nil || t2 == nil {
		c.Violation("roundtrip", "roundtrip reread-rejected", fmt.Sprintf("ReadTorrent(WriteTorrent(t)) failed: %v", err), rep())
		return
	}
	if !bytes.Equal(t2.Hash, t.Hash) {
		c.Violation("roundtrip", "roundtrip hash via=storrent", fmt.Sprintf("re-read hash %x, original %x", []byte(t2.Hash), []byte(t.Hash)), rep())
	}
	if got := normTiers(trackerTiers(t2)); !sameTiers(got, want) {
		c.Violation("roundtrip", "roundtrip trackers via=storrent shape="+tierShape(want), fmt.Sprintf("re-read trackers %q, original %q", got, want), rep())
	}
	if got := webseeds(t2); !sameWS(got, wantWS) {
		c.Violation("roundtrip", "roundtrip webseeds via=storrent", fmt.Sprintf("re-read web seeds %v, original %v", got, wantWS), rep())
	}
	if len(want) > 0 {
		c.Count("roundtrip_with_trackers", 1)
	}
	if len(wantWS) > 0 {
		c.Count("roundtrip_with_webseeds", 1)
	}
	c.Count("roundtrip_done", 1)
}

// ---- metainfo builder ----------------------------------------------------------

func del(d *refwire.Dict, k string) {
	if _, ok := d.Vals[k]; !ok {
		return
	}
	delete(d.Vals, k)
	for i, x := range d.Keys {
		if x == k {
			d.Keys = append(d.Keys[:i:i], d.Keys[i+1:]...)
			break
		}
	}
}

// order fixes the key order of every dictionary below v: sorted (canonical) or shuffled.
func order(v any, rng *rand.Rand, shuffle bool) {
	switch x := v.(type) {
	case *refwire.Dict:
		if shuffle {
			rng.Shuffle(len(x.Keys), func(i, j int) { x.Keys[i], x.Keys[j] = x.Keys[j], x.Keys[i] })
		} else {
			sort.Strings(x.Keys)
		}
		for _, k := range x.Keys {
			order(x.Vals[k], rng, shuffle)
		}
	case []any:
		for _, e := range x {
			order(e, rng, shuffle)
		}
	}
}

type tspec struct {
	top, info *refwire.Dict
	files     []*refwire.Dict // nil: single-file
	shuffle   bool
	noInfo    bool
}

func (s *tspec) encode(rng *rand.Rand) []byte {
	if s.files != nil {
		l := make([]any, 0, len(s.files))
		for _, f := range s.files {
			l = append(l, f)
		}
		s.info.Set("files", l)
	}
	if !s.noInfo {
		s.top.Set("info", s.info)
	}
	order(s.top, rng, s.shuffle)
	return refwire.BencOrdered(s.top)
}

func randBytes(rng *rand.Rand, n int) []byte {
	b := make([]byte, n)
	i := 0
	for ; i+8 <= n; i += 8 {
		x := rng.Uint64()
		for k := 0; k < 8; k++ {
			b[i+k] = byte(x >> (8 * k))
		}
	}
	for ; i < n; i++ {
		b[i] = byte(rng.Uint32())
	}
	return b
}

type geom struct {
	pl    int64
	total int64
	n     int64
}

func piecesFor(total, pl int64) int64 {
	if total <= 0 {
		return 0
	}
	return (total + pl - 1) / pl
}

// genGeom draws a valid geometry with total <= maxTotal, <= 2^22 blocks, and a
// pieces string the harness can afford.
func genGeom(rng *rand.Rand, maxTotal int64) geom {
	pls := []int64{1 << 14, 1 << 14, 1 << 15, 1 << 15, 1 << 16, 1 << 17, 1 << 18, 1 << 18, 1 << 20, 1 << 22, 1 << 24, 3 << 14, 5 << 14, 1 << 31, 1<<32 - chunk}
	pl := vk.Pick(rng, pls)
	var n int64
	switch rng.IntN(10) {
	case 0:
		n = 1
	case 1, 2:
		n = vk.Pick(rng, []int64{1, 2, 3, 7, 8, 9, 16, 64, 72, 73})
	case 3:
		n = 1 + rng.Int64N(3000)
	default:
		n = 1 + rng.Int64N(200)
	}
	if rng.IntN(400) == 0 {
		n = 20000 + rng.Int64N(30000)
	}
	for (n-1)*pl+1 > maxTotal && n > 1 {
		n = (n + 1) / 2
	}
	if pl > maxTotal {
		pl = 1 << 14
		if n*pl > maxTotal {
			n = maxTotal / pl
			if n < 1 {
				n = 1
			}
		}
	}
	var last int64
	switch rng.IntN(6) {
	case 0:
		last = pl
	case 1:
		last = 1
	case 2:
		last = chunk
	case 3:
		last = chunk + 1
	case 4:
		last = pl - 1
	default:
		last = 1 + rng.Int64N(pl)
	}
	if last > pl {
		last = pl
	}
	total := (n-1)*pl + last
	if total > maxTotal {
		total = maxTotal
		n = piecesFor(total, pl)
	}
	return geom{pl: pl, total: total, n: n}
}

var nameParts = []string{"a", "b.txt", "dir", "sub dir", "caf\xc3\xa9", "\xff\xfe", "..", ".", "con", "x/y", "\x00", "<b>z</b>", "a\nb", strings.Repeat("L", 300), "file.iso", "README", ".pad"}

func genPath(rng *rand.Rand) []any {
	n := 1 + rng.IntN(3)
	if rng.IntN(20) == 0 {
		n = 1 + rng.IntN(12)
	}
	p := make([]any, 0, n)
	for i := 0; i < n; i++ {
		p = append(p, vk.Pick(rng, nameParts))
	}
	return p
}

// splitFiles cuts total into k file lengths (zero-length files included).
func splitFiles(rng *rand.Rand, total int64, k int) []int64 {
	if k <= 1 {
		return []int64{total}
	}
	cuts := make([]int64, 0, k-1)
	for i := 0; i < k-1; i++ {
		switch rng.IntN(4) {
		case 0:
			if len(cuts) > 0 {
				cuts = append(cuts, cuts[rng.IntN(len(cuts))]) // zero-length file
				continue
			}
			fallthrough
		default:
			cuts = append(cuts, rng.Int64N(total+1))
		}
	}
	sort.Slice(cuts, func(i, j int) bool { return cuts[i] < cuts[j] })
	out := make([]int64, 0, k)
	prev := int64(0)
	for _, c := range cuts {
		out = append(out, c-prev)
		prev = c
	}
	return append(out, total-prev)
}

type bopts struct {
	multi    bool
	nfiles   int
	trackers int // 0 none, 1 announce, 2 announce-list, 3 both
	hostile  bool
	shuffle  bool
	extra    bool
	utf8     bool
}

func pickURL(rng *rand.Rand, clean, hostile []string, allowHostile bool) string {
	if allowHostile && rng.IntN(3) == 0 {
		return vk.Pick(rng, hostile)
	}
	return vk.Pick(rng, clean)
}

// build makes well-formed metainfo for geometry g.
func build(rng *rand.Rand, g geom, o bopts) *tspec {
	s := &tspec{top: refwire.NewDict(), info: refwire.NewDict(), shuffle: o.shuffle}
	s.info.Set("name", vk.Pick(rng, []string{"t", "name", "caf\xe9", "dir name", "x.iso", "<b>zq1</b>", "..", "a/b"}))
	if o.utf8 {
		s.info.Set("name.utf-8", vk.Pick(rng, []string{"caf\xc3\xa9", "n8", "\xe2\x98\x83"}))
	}
	s.info.Set("piece length", g.pl)
	s.info.Set("pieces", randBytes(rng, int(g.n)*20))
	if !o.multi {
		s.info.Set("length", g.total)
	} else {
		k := o.nfiles
		if k < 1 {
			k = 1
		}
		for _, fl := range splitFiles(rng, g.total, k) {
			f := refwire.NewDict()
			f.Set("length", fl)
			f.Set("path", genPath(rng))
			if o.utf8 && rng.IntN(2) == 0 {
				f.Set("path.utf-8", genPath(rng))
			}
			if rng.IntN(5) == 0 {
				f.Set("attr", vk.Pick(rng, []string{"p", "p", "x", "hp", "l", ""}))
				if rng.IntN(2) == 0 {
					f.Set("path", []any{".pad", fmt.Sprint(fl)})
				}
			}
			if o.extra && rng.IntN(4) == 0 {
				f.Set("md5sum", "0123456789abcdef0123456789abcdef")
				f.Set("mtime", int64(1700000000))
			}
			s.files = append(s.files, f)
		}
	}
	if o.trackers&1 != 0 {
		s.top.Set("announce", pickURL(rng, cleanTrackers, hostileTrackers, o.hostile))
	}
	if o.trackers&2 != 0 {
		nt := 1 + rng.IntN(4)
		if o.hostile && rng.IntN(6) == 0 {
			nt = 0
		}
		al := make([]any, 0, nt)
		for i := 0; i < nt; i++ {
			nu := 1 + rng.IntN(3)
			if o.hostile && rng.IntN(6) == 0 {
				nu = 0
			}
			tier := make([]any, 0, nu)
			for j := 0; j < nu; j++ {
				tier = append(tier, pickURL(rng, cleanTrackers, hostileTrackers, o.hostile))
			}
			al = append(al, tier)
		}
		s.top.Set("announce-list", al)
	}
	if rng.IntN(5) < 2 {
		if rng.IntN(3) == 0 {
			s.top.Set("url-list", pickURL(rng, cleanSeeds, hostileSeeds, o.hostile))
		} else {
			l := []any{}
			for i := rng.IntN(4); i > 0; i-- {
				l = append(l, pickURL(rng, cleanSeeds, hostileSeeds, o.hostile))
			}
			s.top.Set("url-list", l)
		}
	}
	if rng.IntN(5) == 0 {
		l := []any{}
		for i := 1 + rng.IntN(3); i > 0; i-- {
			l = append(l, pickURL(rng, cleanSeeds, hostileSeeds, o.hostile))
		}
		s.top.Set("httpseeds", l)
	}
	if rng.IntN(2) == 0 {
		s.top.Set("creation date", vk.Pick(rng, []int64{0, 1, 1700000000, -1, 1<<63 - 1}))
	}
	if o.extra {
		s.top.Set("comment", "generated \x00\xff")
		s.top.Set("created by", "verif")
		s.top.Set("encoding", "UTF-8")
		s.top.Set("zz", []any{int64(1), "two", refwire.NewDict().Set("k", []any{}).Set("a", int64(-7))})
		s.top.Set("azureus_properties", refwire.NewDict().Set("dht_backup_enable", int64(1)))
		s.info.Set("private", int64(rng.IntN(2)))
		s.info.Set("source", "SRC")
		s.info.Set("meta version", int64(2))
		s.info.Set("file tree", refwire.NewDict().Set("f", refwire.NewDict().Set("", refwire.NewDict().Set("length", int64(5)))))
		s.info.Set("Name", "case matters")
		s.info.Set("piece_length", int64(7))
	}
	return s
}

func genOpts(rng *rand.Rand) bopts {
	o := bopts{multi: rng.IntN(2) == 0, trackers: rng.IntN(4), hostile: rng.IntN(3) == 0, shuffle: rng.IntN(2) == 0, extra: rng.IntN(2) == 0, utf8: rng.IntN(3) == 0}
	switch rng.IntN(8) {
	case 0:
		o.nfiles = 1
	case 1:
		o.nfiles = 50 + rng.IntN(300)
	default:
		o.nfiles = 2 + rng.IntN(12)
	}
	return o
}

// ---- systematic degenerate fields (seed-independent) ---------------------------

type sysCase struct {
	name string
	in   []byte
}

func fixedRng(i int) *rand.Rand { return rand.New(rand.NewPCG(0xC13, uint64(i)+1)) }

func setSingle(s *tspec, pl, total int64) {
	s.info.Set("piece length", pl)
	s.info.Set("length", total)
	s.info.Set("pieces", bytes.Repeat([]byte("0123456789abcdefghij"), int(piecesFor(total, pl))))
}

func baseS() *tspec {
	s := &tspec{top: refwire.NewDict(), info: refwire.NewDict()}
	s.top.Set("announce", cleanTrackers[0])
	s.info.Set("name", "base")
	setSingle(s, 32768, 2*32768+5)
	return s
}

func mkFile(length any, path ...string) *refwire.Dict {
	p := make([]any, 0, len(path))
	for _, x := range path {
		p = append(p, x)
	}
	return refwire.NewDict().Set("length", length).Set("path", p)
}

// baseM: files given, piece length 16384, pieces consistent with the wrapped 64-bit sum when that is >= 0.
func baseM(files ...*refwire.Dict) *tspec {
	s := &tspec{top: refwire.NewDict(), info: refwire.NewDict()}
	s.top.Set("announce", cleanTrackers[1])
	s.info.Set("name", "basem")
	s.info.Set("piece length", int64(chunk))
	s.files = files
	var sum int64
	for _, f := range files {
		if n, ok := f.Vals["length"].(int64); ok {
			sum += n
		}
	}
	np := int64(1)
	if sum <= 1<<36 {
		np = piecesFor(sum, chunk)
	}
	s.info.Set("pieces", bytes.Repeat([]byte("0123456789abcdefghij"), int(np)))
	return s
}

func stdFiles() []*refwire.Dict {
	pad := mkFile(int64(12768), ".pad", "12768").Set("attr", "p")
	return []*refwire.Dict{mkFile(int64(20000), "a"), mkFile(int64(0), "b"), pad, mkFile(int64(16385), "c", "d")}
}

func systematic() []sysCase {
	var out []sysCase
	add := func(name string, s *tspec) {
		out = append(out, sysCase{name, s.encode(fixedRng(len(out)))})
	}
	raw := func(name string, b []byte) { out = append(out, sysCase{name, b}) }
	const maxI = int64(1<<63 - 1)

	add("base single", baseS())
	add("base multi", baseM(stdFiles()...))

	// piece length; pieces string kept consistent with the piece length the input claims
	for _, pl := range []int64{0, 1, 16383, 16384, 16385, 32768, 49152, 1 << 31, 1<<32 - chunk, 1<<32 - 1, 1 << 32, 1<<32 + chunk, 1<<32 + 32768, -16384, -1, maxI} {
		s := baseS()
		s.info.Set("piece length", pl)
		if pl > 0 {
			s.info.Set("pieces", bytes.Repeat([]byte("0123456789abcdefghij"), int(piecesFor(2*32768+5, pl))))
		}
		add(fmt.Sprintf("single piece-length=%d", pl), s)
		m := baseM(stdFiles()...)
		m.info.Set("piece length", pl)
		if pl > 0 {
			m.info.Set("pieces", bytes.Repeat([]byte("0123456789abcdefghij"), int(piecesFor(49153, pl))))
		}
		add(fmt.Sprintf("multi piece-length=%d", pl), m)
	}
	{
		s := baseS()
		del(s.info, "piece length")
		add("single piece-length absent", s)
		s = baseS()
		s.info.Set("piece length", "32768")
		add("single piece-length string", s)
		s = baseS()
		s.info.Set("piece length", refwire.Raw("i032768e"))
		add("single piece-length leading-zero", s)
		s = baseS()
		s.info.Set("piece length", refwire.Raw("i+32768e"))
		add("single piece-length plus-sign", s)
		s = baseS()
		s.info.Set("piece length", refwire.Raw("i9223372036854775808e"))
		add("single piece-length=2^63", s)
		s = baseS()
		s.info.Set("piece length", refwire.Raw("i18446744073709551616e"))
		add("single piece-length=2^64", s)
		s = baseS()
		s.info.Set("piece length", refwire.Raw("i18446744073709535232e"))
		s.info.Set("pieces", "0123456789abcdefghij")
		add("single piece-length=2^64-16384", s)
	}
	// single-file length, consistent pieces
	for _, l := range []int64{0, -1, 1, 16383, 16384, 16385, 32768, 32769, 1 << 31, 1 << 32, 1 << 46, 1 << 62, maxI, -1 << 63} {
		s := baseS()
		if l > 0 && l <= 1<<32 {
			setSingle(s, 32768, l)
		} else {
			s.info.Set("length", l)
		}
		add(fmt.Sprintf("single length=%d", l), s)
	}
	// negative single-file lengths next to exactly one (or no) piece hash: with truncating division
	// "length / piece length, plus one if there is a remainder" is 1 for every length in (-piece length, 0)
	for _, pl := range []int64{16384, 32768} {
		for _, l := range []int64{-1, -5, -16383, -pl + 1, -pl, -pl - 1} {
			for _, nh := range []int{0, 1} {
				s := baseS()
				s.info.Set("piece length", pl)
				s.info.Set("length", l)
				s.info.Set("pieces", bytes.Repeat([]byte("0123456789abcdefghij"), nh))
				add(fmt.Sprintf("single length=%d piece-length=%d hashes=%d", l, pl, nh), s)
			}
		}
	}
	// lengths beyond 2^32 with piece lengths that are not powers of two: 32-bit remainders go wrong here
	for _, pl := range []int64{48 << 10, 80 << 10, 3 << 20} {
		for _, l := range []int64{1<<32 + 100000, 3<<32 + 1, 1<<32 + pl, 1<<33 - 1} {
			s := baseS()
			setSingle(s, pl, l)
			add(fmt.Sprintf("single length=%d piece-length=%d", l, pl), s)
		}
	}
	{
		s := baseS()
		setSingle(s, 1<<24, 1<<36)
		add("single length=2^36 piece-length=2^24", s)
		s = baseS()
		s.info.Set("length", refwire.Raw("i9223372036854775808e"))
		add("single length=2^63", s)
		s = baseS()
		s.info.Set("length", "65541")
		add("single length string", s)
		s = baseS()
		s.info.Set("length", refwire.Raw("i-0e"))
		add("single length=-0", s)
	}
	// pieces string length relative to the geometry
	for _, d := range []int{-60, -40, -20, -1, 1, 20, 40, 20000} {
		for _, multi := range []bool{false, true} {
			s := baseS()
			if multi {
				s = baseM(stdFiles()...)
			}
			p := s.info.Vals["pieces"].([]byte)
			n := len(p) + d
			if n < 0 {
				continue
			}
			s.info.Set("pieces", bytes.Repeat([]byte("x"), n))
			add(fmt.Sprintf("multi=%v pieces%+d", multi, d), s)
		}
	}
	{
		s := baseS()
		del(s.info, "pieces")
		add("single pieces absent", s)
		s = baseS()
		s.info.Set("pieces", int64(60))
		add("single pieces int", s)
		s = baseS()
		s.info.Set("pieces", []any{"0123456789abcdefghij"})
		add("single pieces list", s)
	}
	// file lengths
	add("multi neg-compensated", baseM(mkFile(int64(-5), "a"), mkFile(int64(49158), "b")))
	add("multi neg-only", baseM(mkFile(int64(-5), "a")))
	add("multi neg-last", baseM(mkFile(int64(32768), "a"), mkFile(int64(-16384), "b")))
	add("multi neg-large", baseM(mkFile(int64(-1<<40), "a"), mkFile(int64(5), "b")))
	add("multi min-int64", baseM(mkFile(int64(-1<<63), "a"), mkFile(int64(5), "b")))
	add("multi wrap-to-positive", baseM(mkFile(maxI, "a"), mkFile(maxI, "b"), mkFile(int64(2+49153), "c")))
	add("multi wrap-to-small-negative", baseM(mkFile(maxI, "a"), mkFile(maxI, "b")))
	add("multi wrap-to-zero", baseM(mkFile(maxI, "a"), mkFile(maxI, "b"), mkFile(int64(2), "c")))
	add("multi wrap-to-min", baseM(mkFile(maxI, "a"), mkFile(int64(1), "b")))
	add("multi wrap-4x2^62", baseM(mkFile(int64(1<<62), "a"), mkFile(int64(1<<62), "b"), mkFile(int64(1<<62), "c"), mkFile(int64(1<<62), "d"), mkFile(int64(16384), "e")))
	add("multi one max-int64", baseM(mkFile(maxI, "a")))
	add("multi one 2^46", baseM(mkFile(int64(1<<46), "a")))
	add("multi all zero-length", baseM(mkFile(int64(0), "a"), mkFile(int64(0), "b")))
	add("multi single zero-length", baseM(mkFile(int64(0), "a")))
	add("multi length absent in file", baseM(refwire.NewDict().Set("path", []any{"a"}), mkFile(int64(16384), "b")))
	add("multi file length string", baseM(mkFile("16384", "a")))
	add("multi file length 2^63", baseM(mkFile(refwire.Raw("i9223372036854775808e"), "a")))
	// length / files exclusivity
	{
		m := baseM(stdFiles()...)
		m.info.Set("length", int64(49153))
		add("both length and files", m)
		m = baseM(stdFiles()...)
		m.info.Set("length", int64(0))
		add("length=0 and files", m)
		m = baseM(stdFiles()...)
		m.info.Set("length", int64(-1))
		add("length=-1 and files", m)
		m = baseM(stdFiles()...)
		m.info.Set("length", int64(1))
		add("length=1 and files", m)
		s := baseS()
		del(s.info, "length")
		add("neither length nor files", s)
		s = baseS()
		del(s.info, "length")
		s.info.Set("files", []any{})
		add("files empty list", s)
		s = baseS()
		s.info.Set("files", []any{})
		add("length and empty files list", s)
		s = baseS()
		del(s.info, "length")
		s.info.Set("files", refwire.NewDict())
		add("files is a dict", s)
		s = baseS()
		del(s.info, "length")
		s.info.Set("files", []any{int64(1), "x"})
		add("files of non-dicts", s)
	}
	// paths and names
	{
		add("file without path", baseM(refwire.NewDict().Set("length", int64(16384))))
		add("file path empty list", baseM(refwire.NewDict().Set("length", int64(16384)).Set("path", []any{})))
		add("file path empty component", baseM(mkFile(int64(16384), "")))
		add("file path a//", baseM(mkFile(int64(16384), "a", "", "")))
		add("file path dotdot", baseM(mkFile(int64(16384), "..", "..", "etc", "passwd")))
		add("file path is a string", baseM(refwire.NewDict().Set("length", int64(16384)).Set("path", "a/b")))
		add("file path of ints", baseM(refwire.NewDict().Set("length", int64(16384)).Set("path", []any{int64(1)})))
		add("file path.utf-8 only", baseM(refwire.NewDict().Set("length", int64(16384)).Set("path.utf-8", []any{"caf\xc3\xa9"})))
		add("file both paths", baseM(mkFile(int64(16384), "caf\xe9").Set("path.utf-8", []any{"caf\xc3\xa9"})))
		add("file path.utf-8 empty list", baseM(mkFile(int64(16384), "a").Set("path.utf-8", []any{})))
		add("file attr p", baseM(mkFile(int64(16384), "a").Set("attr", "p")))
		add("file attr int", baseM(mkFile(int64(16384), "a").Set("attr", int64(1))))
		add("two files same path", baseM(mkFile(int64(16384), "a"), mkFile(int64(1), "a")))
		for _, nm := range []string{"", "\x00", "..", "a/b", "caf\xe9", strings.Repeat("n", 70000)} {
			s := baseS()
			s.info.Set("name", nm)
			add(fmt.Sprintf("name %q", clipS(nm, 12)), s)
		}
		s := baseS()
		del(s.info, "name")
		add("name absent", s)
		s = baseS()
		del(s.info, "name")
		s.info.Set("name.utf-8", "n8")
		add("name.utf-8 only", s)
		s = baseS()
		s.info.Set("name", "")
		s.info.Set("name.utf-8", "n8")
		add("name empty name.utf-8 set", s)
		s = baseS()
		s.info.Set("name.utf-8", "")
		add("name set name.utf-8 empty", s)
		s = baseS()
		s.info.Set("name", int64(5))
		add("name int", s)
	}
	// top level
	{
		s := baseS()
		s.noInfo = true
		add("no info", s)
		for _, iv := range []any{"str", int64(5), []any{}, refwire.NewDict()} {
			s := baseS()
			s.noInfo = true
			s.top.Set("info", iv)
			add(fmt.Sprintf("info is %T", iv), s)
		}
		raw("empty input", nil)
		raw("de", []byte("de"))
		raw("top-level list", []byte("l4:infod4:name1:xee"))
		raw("top-level int", []byte("i5e"))
		raw("top-level string", []byte("4:info"))
		raw("unterminated", []byte("d4:infod4:name1:x"))
		b := baseS().encode(fixedRng(0))
		raw("trailing garbage", append(append([]byte(nil), b...), "garbage\x00d4:infodee"...))
		raw("leading space", append([]byte(" "), b...))
		raw("truncated by 1", b[:len(b)-1])
		// duplicate keys
		other := baseS()
		other.info.Set("name", "other")
		ob := other.encode(fixedRng(1))
		ov := scan(ob)
		dupTop := append(append([]byte(nil), b[:len(b)-1]...), "4:info"...)
		dupTop = append(dupTop, ob[ov.infoSpans[0][0]:ov.infoSpans[0][1]]...)
		raw("duplicate info key", append(dupTop, 'e'))
		s = baseS()
		ib := refwire.Benc(s.info)
		s.noInfo = true
		s.top.Set("info", refwire.Raw(append(append([]byte(nil), ib[:len(ib)-1]...), "6:lengthi16384ee"...)))
		add("duplicate length key in info", s)
		m := baseM(stdFiles()...)
		m.info.Set("files", []any{mkFile(int64(49153), "a")})
		mb := refwire.Benc(m.info)
		m.files = nil
		m.noInfo = true
		m.top.Set("info", refwire.Raw(append(append([]byte(nil), mb[:len(mb)-1]...), "5:filesld6:lengthi1e4:pathl1:beeee"...)))
		add("duplicate files key in info", m)
		// unsorted / unusual but decodable
		s = baseS()
		s.shuffle = true
		add("shuffled keys", s)
		s = baseS()
		s.top.Set("creation date", "yesterday")
		add("creation date string", s)
		s = baseS()
		s.top.Set("Info", refwire.NewDict().Set("name", "decoy"))
		s.top.Set("INFO", "x")
		add("case decoys", s)
		s = baseS()
		s.top.Set("info ", int64(1))
		s.top.Set("inf", int64(1))
		s.top.Set("", refwire.NewDict())
		add("near-miss keys", s)
	}
	// tracker and web-seed shapes
	{
		c0, c1, c2 := cleanTrackers[0], cleanTrackers[2], cleanTrackers[3]
		tl := func(tiers ...[]any) []any {
			var l []any
			for _, t := range tiers {
				l = append(l, t)
			}
			if l == nil {
				l = []any{}
			}
			return l
		}
		shapes := map[string]func(s *tspec){
			"no trackers":             func(s *tspec) { del(s.top, "announce") },
			"announce only":           func(s *tspec) {},
			"announce empty":          func(s *tspec) { s.top.Set("announce", "") },
			"announce unsupported":    func(s *tspec) { s.top.Set("announce", "wss://t.example/a") },
			"announce unparsable":     func(s *tspec) { s.top.Set("announce", "http://a\nb/") },
			"announce int":            func(s *tspec) { s.top.Set("announce", int64(1)) },
			"list single":             func(s *tspec) { del(s.top, "announce"); s.top.Set("announce-list", tl([]any{c1})) },
			"list single + announce":  func(s *tspec) { s.top.Set("announce-list", tl([]any{c1})) },
			"list 2x2":                func(s *tspec) { s.top.Set("announce-list", tl([]any{c0, c1}, []any{c2, cleanTrackers[4]})) },
			"list one tier of three":  func(s *tspec) { s.top.Set("announce-list", tl([]any{c0, c1, c2})) },
			"list three tiers of one": func(s *tspec) { s.top.Set("announce-list", tl([]any{c0}, []any{c1}, []any{c2})) },
			"list empty + announce":   func(s *tspec) { s.top.Set("announce-list", tl()) },
			"list empty":              func(s *tspec) { del(s.top, "announce"); s.top.Set("announce-list", tl()) },
			"list one empty tier":     func(s *tspec) { del(s.top, "announce"); s.top.Set("announce-list", tl([]any{})) },
			"list [[\"\"]]":           func(s *tspec) { del(s.top, "announce"); s.top.Set("announce-list", tl([]any{""})) },
			"list empty tier first":   func(s *tspec) { s.top.Set("announce-list", tl([]any{}, []any{c1})) },
			"list bad first":          func(s *tspec) { s.top.Set("announce-list", tl([]any{"http://a\nb/"}, []any{c1})) },
			"list bad in tier":        func(s *tspec) { s.top.Set("announce-list", tl([]any{"", "wss://x/", c1, "\x00"}, []any{c2})) },
			"list unsupported only":   func(s *tspec) { s.top.Set("announce-list", tl([]any{"wss://x/"})) },
			"list of strings":         func(s *tspec) { s.top.Set("announce-list", []any{c1}) },
			"list is a string":        func(s *tspec) { s.top.Set("announce-list", c1) },
			"list duplicates":         func(s *tspec) { s.top.Set("announce-list", tl([]any{c1, c1}, []any{c1})) },
			"url-list string":         func(s *tspec) { s.top.Set("url-list", cleanSeeds[0]) },
			"url-list list":           func(s *tspec) { s.top.Set("url-list", []any{cleanSeeds[0], cleanSeeds[1]}) },
			"url-list empty list":     func(s *tspec) { s.top.Set("url-list", []any{}) },
			"url-list empty string":   func(s *tspec) { s.top.Set("url-list", "") },
			"url-list mixed":          func(s *tspec) { s.top.Set("url-list", []any{"ftp://x/", cleanSeeds[2], "", "http://%/"}) },
			"url-list int":            func(s *tspec) { s.top.Set("url-list", int64(1)) },
			"url-list list of ints":   func(s *tspec) { s.top.Set("url-list", []any{int64(1)}) },
			"httpseeds list":          func(s *tspec) { s.top.Set("httpseeds", []any{cleanSeeds[3]}) },
			"httpseeds string":        func(s *tspec) { s.top.Set("httpseeds", cleanSeeds[3]) },
			"url-list + httpseeds": func(s *tspec) {
				s.top.Set("url-list", []any{cleanSeeds[0]})
				s.top.Set("httpseeds", []any{cleanSeeds[0], cleanSeeds[4]})
			},
			"httpseeds unsupported": func(s *tspec) { s.top.Set("httpseeds", []any{"ftp://x/"}) },
			"everything": func(s *tspec) {
				s.top.Set("announce-list", tl([]any{c0, c1}, []any{c2}))
				s.top.Set("url-list", []any{cleanSeeds[0], cleanSeeds[1]})
				s.top.Set("httpseeds", []any{cleanSeeds[2]})
				s.top.Set("creation date", int64(1700000000))
			},
		}
		names := make([]string, 0, len(shapes))
		for k := range shapes {
			names = append(names, k)
		}
		sort.Strings(names)
		for _, k := range names {
			s := baseS()
			shapes[k](s)
			add("urls "+k, s)
			m := baseM(stdFiles()...)
			m.shuffle = true
			shapes[k](m)
			add("urls multi shuffled "+k, m)
		}
	}
	// many files
	{
		var fs []*refwire.Dict
		for i := 0; i < 10000; i++ {
			fs = append(fs, mkFile(int64(i%3*7000), "d", fmt.Sprint(i)))
		}
		add("10^4 files", baseM(fs...))
		fs = nil
		for i := 0; i < 10000; i++ {
			fs = append(fs, mkFile(int64(0), fmt.Sprint(i)))
		}
		add("10^4 zero-length files", baseM(fs...))
	}
	return out
}

func clipS(s string, n int) string {
	if len(s) > n {
		return s[:n]
	}
	return s
}

// ---- PRNG families ----------------------------------------------------------------

var degLengths = []int64{0, -1, 1, 16383, 16384, 16385, -16384, 1 << 31, 1 << 46, 1 << 62, 1<<63 - 1, -1 << 63}
var degPLs = []int64{0, 1, 16383, 16384, 16385, 32768, 1<<32 - chunk, 1<<32 - 1, 1 << 32, 1<<32 + chunk, -16384, 1<<63 - 1}

// degenerate applies 1..3 faults to well-formed metainfo; returns the class.
func degenerate(rng *rand.Rand, s *tspec) string {
	var cls []string
	for k := 1 + rng.IntN(3); k > 0; k-- {
		switch op := rng.IntN(14); op {
		case 0:
			s.info.Set("piece length", vk.Pick(rng, degPLs))
			cls = append(cls, "pl")
		case 1:
			if s.files == nil {
				s.info.Set("length", vk.Pick(rng, degLengths))
			} else {
				s.files[rng.IntN(len(s.files))].Set("length", vk.Pick(rng, degLengths))
			}
			cls = append(cls, "len")
		case 2:
			p, _ := s.info.Vals["pieces"].([]byte)
			n := len(p) + vk.Pick(rng, []int{-40, -20, -1, 1, 20, 40, 200})
			if rng.IntN(6) == 0 {
				n = 0
			}
			if n < 0 {
				n = 0
			}
			s.info.Set("pieces", randBytes(rng, n))
			cls = append(cls, "pieces")
		case 3:
			del(s.info, vk.Pick(rng, []string{"name", "piece length", "pieces", "length", "files"}))
			if rng.IntN(2) == 0 && s.files != nil {
				s.files = nil
			}
			cls = append(cls, "del")
		case 4:
			if s.files != nil {
				del(s.files[rng.IntN(len(s.files))], vk.Pick(rng, []string{"path", "length"}))
			}
			cls = append(cls, "fdel")
		case 5:
			if s.files != nil {
				s.info.Set("length", vk.Pick(rng, []int64{0, -1, 1, 16384}))
			} else {
				s.files = []*refwire.Dict{mkFile(vk.Pick(rng, degLengths), "f")}
			}
			cls = append(cls, "both")
		case 6:
			s.info.Set("name", vk.Pick(rng, []string{"", "\x00", "..", "/"}))
			if rng.IntN(2) == 0 {
				del(s.info, "name.utf-8")
			}
			cls = append(cls, "name")
		case 7:
			if s.files != nil {
				s.files[rng.IntN(len(s.files))].Set("path", vk.Pick(rng, []any{[]any{}, []any{""}, []any{"a", ""}, "str", []any{int64(1)}, []any{"..", ".."}}))
			}
			cls = append(cls, "path")
		case 8:
			k := vk.Pick(rng, []string{"name", "piece length", "pieces", "length", "files", "name.utf-8"})
			s.info.Set(k, vk.Pick(rng, []any{int64(5), "str", []any{}, refwire.NewDict(), []any{refwire.NewDict()}}))
			if k == "files" {
				s.files = nil
			}
			cls = append(cls, "type")
		case 9:
			k := vk.Pick(rng, []string{"announce", "announce-list", "url-list", "httpseeds", "creation date"})
			s.top.Set(k, vk.Pick(rng, []any{int64(5), "str", []any{}, []any{"x"}, []any{[]any{}}, []any{[]any{""}}, refwire.NewDict()}))
			cls = append(cls, "toptype")
		case 10:
			if s.files != nil && len(s.files) >= 2 {
				// two lengths whose 64-bit sum wraps
				i, j := rng.IntN(len(s.files)), rng.IntN(len(s.files))
				s.files[i].Set("length", int64(1<<63-1))
				if i != j {
					s.files[j].Set("length", vk.Pick(rng, []int64{1<<63 - 1, 1, 1 << 62}))
				}
			}
			cls = append(cls, "wrap")
		case 11:
			k := vk.Pick(rng, []string{"piece length", "length"})
			s.info.Set(k, refwire.Raw(vk.Pick(rng, []string{"i-0e", "i016384e", "i+16384e", "i16384", "ie", "i1.5e", "i 16384e", "i0x4000e", "i9223372036854775808e", "i-9223372036854775809e"})))
			cls = append(cls, "intform")
		case 12:
			if s.files != nil {
				s.files[rng.IntN(len(s.files))].Set("length", int64(-1-rng.IntN(40000)))
			}
			cls = append(cls, "neg")
		case 13:
			s.noInfo = rng.IntN(2) == 0
			if !s.noInfo {
				s.noInfo = true
				s.top.Set("info", vk.Pick(rng, []any{"str", int64(1), []any{}, refwire.NewDict()}))
			}
			cls = append(cls, "info")
		}
	}
	sort.Strings(cls)
	return strings.Join(cls, "+")
}

// mutate applies 1..3 byte-level mutations.
func mutate(rng *rand.Rand, b []byte) ([]byte, string) {
	b = append([]byte(nil), b...)
	var cls []string
	for k := 1 + rng.IntN(3); k > 0 && len(b) > 0; k-- {
		p := rng.IntN(len(b))
		// prefer the structural part over the pieces string
		if rng.IntN(2) == 0 && len(b) > 200 {
			if rng.IntN(2) == 0 {
				p = rng.IntN(200)
			} else {
				p = len(b) - 1 - rng.IntN(200)
			}
		}
		switch rng.IntN(7) {
		case 0:
			b[p] ^= 1 << rng.IntN(8)
			cls = append(cls, "flip")
		case 1:
			b[p] = vk.Pick(rng, []byte("dlie0123456789:-"))
			cls = append(cls, "set")
		case 2:
			b = append(b[:p], b[p+1:]...)
			cls = append(cls, "del")
		case 3:
			b = append(b[:p], append([]byte{vk.Pick(rng, []byte("dlie019:-\x00"))}, b[p:]...)...)
			cls = append(cls, "ins")
		case 4:
			b = b[:p]
			cls = append(cls, "trunc")
		case 5:
			q := rng.IntN(len(b))
			n := rng.IntN(24)
			if q+n > len(b) {
				n = len(b) - q
			}
			seg := append([]byte(nil), b[q:q+n]...)
			// never splice digit runs: they could inflate a length beyond what the harness can afford
			for i := range seg {
				if seg[i] >= '0' && seg[i] <= '9' {
					seg[i] = 'x'
				}
			}
			b = append(b[:p], append(seg, b[p:]...)...)
			cls = append(cls, "splice")
		case 6:
			n := rng.IntN(16)
			if p+n > len(b) {
				n = len(b) - p
			}
			b = append(b[:p], b[p+n:]...)
			cls = append(cls, "cut")
		}
	}
	sort.Strings(cls)
	return b, strings.Join(cls, "+")
}

// randomInput: bytes that are not derived from well-formed metainfo.
func randomInput(rng *rand.Rand) ([]byte, string) {
	switch rng.IntN(4) {
	case 0:
		return randBytes(rng, rng.IntN(300)), "uniform"
	case 1:
		n := rng.IntN(200)
		b := make([]byte, n)
		for i := range b {
			b[i] = vk.Pick(rng, []byte("ddlleeeii0123456789::-4:info6:length5:files4:name12:piece length6:pieces"))
		}
		return b, "alphabet"
	default:
		// random bencode tree over the metainfo vocabulary, small integers only
		var gen func(depth int) any
		keys := []string{"info", "name", "name.utf-8", "piece length", "pieces", "length", "files", "path", "path.utf-8", "attr", "announce", "announce-list", "url-list", "httpseeds", "creation date", "x"}
		gen = func(depth int) any {
			switch x := rng.IntN(10); {
			case x < 3 && depth < 5:
				d := refwire.NewDict()
				for i := rng.IntN(6); i > 0; i-- {
					d.Set(vk.Pick(rng, keys), gen(depth+1))
				}
				return d
			case x < 5 && depth < 5:
				l := []any{}
				for i := rng.IntN(4); i > 0; i-- {
					l = append(l, gen(depth+1))
				}
				return l
			case x < 7:
				return vk.Pick(rng, []int64{0, 1, -1, 16384, 32768, 20, 40, 65536, 1 << 31, 1 << 46, 1<<63 - 1, -1 << 63})
			case x < 8:
				return randBytes(rng, 20*rng.IntN(4))
			default:
				return vk.Pick(rng, []string{"", "a", "p", cleanTrackers[0], cleanSeeds[0], "\x00"})
			}
		}
		d := refwire.NewDict()
		for i := rng.IntN(6); i > 0; i-- {
			d.Set(vk.Pick(rng, keys), gen(1))
		}
		if rng.IntN(2) == 0 {
			info := refwire.NewDict()
			info.Set("name", "r")
			info.Set("piece length", vk.Pick(rng, []int64{0, 16384, 32768, 1 << 32}))
			info.Set("pieces", randBytes(rng, 20*rng.IntN(4)))
			for i := rng.IntN(4); i > 0; i-- {
				info.Set(vk.Pick(rng, keys), gen(2))
			}
			d.Set("info", info)
		}
		order(d, rng, true)
		return refwire.BencOrdered(d), "tree"
	}
}

// ---- magnets -------------------------------------------------------------------------

const b32alpha = "ABCDEFGHIJKLMNOPQRSTUVWXYZ234567"

func b32(h []byte) string { // RFC 4648 base32 of 20 bytes = 32 characters, no padding needed
	var sb strings.Builder
	var acc uint64
	bits := 0
	for _, x := range h {
		acc = acc<<8 | uint64(x)
		bits += 8
		for bits >= 5 {
			sb.WriteByte(b32alpha[(acc>>(bits-5))&31])
			bits -= 5
		}
	}
	return sb.String()
}

func unb32(s string) ([]byte, bool) {
	if len(s) != 32 {
		return nil, false
	}
	var out []byte
	var acc uint64
	bits := 0
	for i := 0; i < len(s); i++ {
		c := s[i]
		if c >= 'a' && c <= 'z' {
			c -= 32
		}
		j := strings.IndexByte(b32alpha, c)
		if j < 0 {
			return nil, false
		}
		acc = acc<<5 | uint64(j)
		bits += 5
		if bits >= 8 {
			out = append(out, byte(acc>>(bits-8)))
			bits -= 8
		}
	}
	return out, len(out) == 20
}

func pctEncode(s string, all bool) string {
	var sb strings.Builder
	for i := 0; i < len(s); i++ {
		c := s[i]
		unres := c >= 'a' && c <= 'z' || c >= 'A' && c <= 'Z' || c >= '0' && c <= '9' || c == '-' || c == '.' || c == '_' || c == '~'
		if unres && !all {
			sb.WriteByte(c)
		} else {
			fmt.Fprintf(&sb, "%%%02X", c)
		}
	}
	return sb.String()
}

// lenient percent-decoding (invalid escapes stay as they are)
func pctDecode(s string) string {
	var sb strings.Builder
	for i := 0; i < len(s); i++ {
		if s[i] == '%' && i+3 <= len(s) {
			if b, err := hex.DecodeString(s[i+1 : i+3]); err == nil {
				sb.WriteByte(b[0])
				i += 2
				continue
			}
		}
		sb.WriteByte(s[i])
	}
	return sb.String()
}

// hashCandidates: every 20-byte value the string could denote as a btih
// (over-approximation: any hex/base32 run after "btih:" in the raw or
// percent-decoded string, and the whole string itself).
func hashCandidates(s string) [][]byte {
	var out [][]byte
	try := func(x string) {
		x = strings.NewReplacer("\r", "", "\n", "").Replace(x) // Go's base32 decoder skips line breaks
		if h, err := hex.DecodeString(x); err == nil && len(h) == 20 {
			out = append(out, h)
		}
		if h, ok := unb32(x); ok {
			out = append(out, h)
		}
	}
	try(s)
	for _, str := range []string{s, pctDecode(s), pctDecode(pctDecode(s))} {
		low := asciiLower(str)
		for i := 0; ; {
			j := strings.Index(low[i:], "btih:")
			if j < 0 {
				break
			}
			st := i + j + 5
			e := st
			for e < len(str) && str[e] != '&' && str[e] != ';' && str[e] != '#' {
				e++
			}
			v := str[st:e]
			try(v)
			if len(v) >= 40 {
				try(v[:40])
			}
			if len(v) >= 32 {
				try(v[:32])
			}
			i = st
		}
	}
	return out
}

type magnetCase struct {
	s       string
	class   string
	clean   bool     // built with standard encoding: tr / ws below are required to survive
	tr, ws  []string // clean supported URLs in order
	wantAny bool     // a valid btih is present under the key "xt"
}

// nearHash: an encoding of a byte string that is not 20 bytes long, in the shapes hash.Parse looks at
// (hex; base-32 with its padding, truncated to 32 characters, or without padding).
func nearHash(rng *rand.Rand) string {
	n := []int{0, 1, 10, 15, 16, 17, 18, 19, 21, 22, 24, 25, 32, 40}[rng.IntN(14)]
	b := randBytes(rng, n)
	switch rng.IntN(4) {
	case 0:
		return hex.EncodeToString(b)
	case 1:
		return base32.StdEncoding.EncodeToString(b) // padded: 16..19 bytes give exactly 32 characters
	case 2:
		return base32.StdEncoding.WithPadding(base32.NoPadding).EncodeToString(b)
	default:
		s := base32.StdEncoding.EncodeToString(append(b, make([]byte, 20)...))
		return s[:32-rng.IntN(8)] + strings.Repeat("=", rng.IntN(8))
	}
}

func genMagnet(rng *rand.Rand) magnetCase {
	h := randBytes(rng, 20)
	hexl := hex.EncodeToString(h)
	forms := []string{hexl, strings.ToUpper(hexl), b32(h)}
	mc := magnetCase{}
	switch rng.IntN(10) {
	case 0: // bare hash strings
		mc.s = vk.Pick(rng, forms)
		mc.class = "bare-hash"
		mc.wantAny = true
		if rng.IntN(4) == 0 {
			mc.s = vk.Pick(rng, []string{mc.s[:len(mc.s)-1], mc.s + "0", strings.ToLower(b32(h)), " " + mc.s, mc.s + "\n", "", nearHash(rng), nearHash(rng), nearHash(rng)})
			mc.class = "bare-near-hash"
			mc.wantAny = false
		}
		return mc
	case 1: // not a magnet at all
		mc.s = vk.Pick(rng, []string{"http://example.com/x.torrent", "magnet", "magnet:", "magnet:?", "magnet:?&&&", "MAGNET:?xt=urn:btih:" + hexl, "magnet://?xt=urn:btih:" + hexl,
			"magnet:xt=urn:btih:" + hexl, "magnet:?xt=urn:btih:", "magnet:?xt=" + hexl, "magnet:?xt=urn:sha1:" + b32(h), "magnet:?xt=urn:btmh:1220" + hexl + hexl[:24],
			"magnet:?xt.1=urn:btih:" + hexl, "magnet:?XT=urn:btih:" + hexl, "magnet:?xt=URN:BTIH:" + hexl, "magnet:?xt=urn:btih:" + strings.ToLower(b32(h)), ":", "%zz", "\x00", "magnet:?xt=urn:btih:" + hexl + "#frag",
			"magnet:?dn=x#xt=urn:btih:" + hexl, "magnet:?xt=urn:btih:" + hexl[:39], "magnet:?xt=urn:btih:" + hexl + "00", "magnet:?%zz=1&xt=urn:btih:" + hexl, "magnet:?xt=urn:btih:" + hexl + ";dn=x", " magnet:?xt=urn:btih:" + hexl})
		mc.class = "odd-shape"
		return mc
	}
	// regular magnets
	mc.clean = rng.IntN(3) > 0
	mc.class = "regular"
	var params []string
	enc := func(v string) string {
		switch rng.IntN(3) {
		case 0:
			return pctEncode(v, false)
		case 1:
			if mc.clean {
				return pctEncode(v, true)
			}
		}
		if mc.clean {
			return pctEncode(v, false)
		}
		return v // raw
	}
	// xt
	nxt := 1
	if rng.IntN(4) == 0 {
		nxt = 2 + rng.IntN(2)
	}
	for i := 0; i < nxt; i++ {
		switch rng.IntN(8) {
		case 0:
			if rng.IntN(2) == 0 {
				params = append(params, "xt="+enc("urn:btih:"+nearHash(rng)))
			} else {
				params = append(params, "xt="+enc("urn:btih:"+hexl[:rng.IntN(40)]))
			}
		case 1:
			params = append(params, "xt="+enc("urn:sha1:"+b32(h)))
		default:
			hh := randBytes(rng, 20)
			if i == 0 || rng.IntN(2) == 0 {
				hh = h
			}
			f := []string{hex.EncodeToString(hh), strings.ToUpper(hex.EncodeToString(hh)), b32(hh)}[rng.IntN(3)]
			params = append(params, "xt="+enc("urn:btih:"+f))
			mc.wantAny = true
		}
	}
	// dn
	if rng.IntN(3) > 0 {
		params = append(params, "dn="+enc(vk.Pick(rng, []string{"name", "a b", "caf\xc3\xa9", "caf\xe9", "../..", "<b>x</b>", "a\nb", "", "%", "a&b=c", "a+b", strings.Repeat("n", 5000), "\x00"})))
	}
	for i := rng.IntN(4); i > 0; i-- {
		if rng.IntN(3) == 0 {
			u := vk.Pick(rng, hostileTrackers)
			if mc.clean {
				params = append(params, "tr="+pctEncode(u, false))
			} else {
				params = append(params, "tr="+u)
			}
		} else {
			u := vk.Pick(rng, cleanTrackers)
			params = append(params, "tr="+enc(u))
			mc.tr = append(mc.tr, u)
		}
	}
	for i := rng.IntN(3); i > 0; i-- {
		if rng.IntN(3) == 0 {
			u := vk.Pick(rng, hostileSeeds)
			if mc.clean {
				params = append(params, "ws="+pctEncode(u, false))
			} else {
				params = append(params, "ws="+u)
			}
		} else {
			u := vk.Pick(rng, cleanSeeds)
			params = append(params, "ws="+enc(u))
			mc.ws = append(mc.ws, u)
		}
	}
	if rng.IntN(3) == 0 {
		params = append(params, vk.Pick(rng, []string{"xl=12345", "kt=a+b", "so=0,2,4-6", "x.pe=1.2.3.4:6881", "as=" + pctEncode(cleanSeeds[0], false), "tr", "=", "xt", "tr.1=" + pctEncode(cleanTrackers[0], false)}))
	}
	rng.Shuffle(len(params), func(i, j int) { params[i], params[j] = params[j], params[i] })
	mc.s = "magnet:?" + strings.Join(params, "&")
	if !mc.clean {
		switch rng.IntN(5) {
		case 0:
			mc.s = strings.ReplaceAll(mc.s, "&", ";")
		case 1:
			mc.s += "&"
		case 2:
			b, _ := mutate(rng, []byte(mc.s))
			mc.s = string(b)
			mc.class = "mutated"
		case 3:
			mc.s += "#" + vk.Pick(rng, []string{"", "x", "tr=" + cleanTrackers[0]})
		}
	}
	if !mc.clean {
		mc.tr, mc.ws = nil, nil
	}
	return mc
}

func judgeMagnet(c *vk.C, mc magnetCase) string {
	c.Count("inputs", 1)
	c.Count("magnet_inputs", 1)
	rep := map[string]any{"magnet": clipS(mc.s, 3000), "quoted": fmt.Sprintf("%q", clipS(mc.s, 3000))}
	t, err, pan := readMagnet(mc.s)
	if pan != nil {
		c.Violation("panic", "panic ReadMagnet "+panicClass(pan), fmt.Sprintf("tor.ReadMagnet panicked: %v", pan), rep)
		return "panic"
	}
	if err != nil {
		c.Count("magnet_rejected", 1)
		return "rejected"
	}
	if t == nil {
		c.Count("magnet_not_a_magnet", 1)
		return "not-a-magnet"
	}
	c.Count("magnet_accepted", 1)
	if len(t.Hash) != 20 {
		c.Violation("magnet", "magnet hash-length", fmt.Sprintf("torrent with a %d-byte hash", len(t.Hash)), rep)
		return "accepted"
	}
	ok := false
	for _, h := range hashCandidates(mc.s) {
		if bytes.Equal(h, t.Hash) {
			ok = true
		}
	}
	if !ok {
		c.Violation("magnet", "magnet hash", fmt.Sprintf("torrent hash %x is not a btih value of the link", []byte(t.Hash)), rep)
	} else {
		c.Count("magnet_hash_ok", 1)
	}
	if t.InfoComplete() {
		c.Violation("magnet", "magnet info-complete", "a torrent made from a magnet link claims complete metadata", rep)
	}
	if mc.clean {
		var flat []string
		for _, tier := range trackerTiers(t) {
			flat = append(flat, tier...)
		}
		for _, u := range mc.tr {
			c.Count("urls_required", 1)
			if !contains(flat, u) {
				c.Violation("url-lost", "url-lost magnet-tr", fmt.Sprintf("tracker %q of the link is not in the torrent: %q", u, flat), rep)
			}
		}
		ws := webseeds(t)
		for _, u := range mc.ws {
			c.Count("urls_required", 1)
			found := false
			for _, w := range ws {
				if w.URL == u && w.Kind == "getright" {
					found = true
				}
			}
			if !found {
				c.Violation("url-lost", "url-lost magnet-ws", fmt.Sprintf("web seed %q of the link is not in the torrent: %v", u, ws), rep)
			}
		}
	}
	return "accepted"
}

// ---- part "deep": nesting depth ---------------------------------------------------------

type deepCase struct {
	shape string
	depth int
}

func deepCases() []deepCase {
	var out []deepCase
	for _, d := range []int{1000, 10000, 100000, 1000000, 2000000, 3000000, 5000000} {
		for _, sh := range []string{"unknown-key-lists", "unknown-key-dicts", "info-extra-lists", "url-list-lists", "unterminated-lists"} {
			out = append(out, deepCase{sh, d})
		}
	}
	return out
}

func buildDeep(dc deepCase) []byte {
	s := baseS()
	info := refwire.Benc(s.info)
	var b bytes.Buffer
	n := dc.depth
	switch dc.shape {
	case "unknown-key-lists":
		b.WriteString("d1:a")
		b.Write(bytes.Repeat([]byte("l"), n))
		b.Write(bytes.Repeat([]byte("e"), n))
		b.WriteString("4:info")
		b.Write(info)
		b.WriteString("e")
	case "unknown-key-dicts":
		b.WriteString("d1:a")
		b.Write(bytes.Repeat([]byte("d1:a"), n))
		b.WriteString("i0e")
		b.Write(bytes.Repeat([]byte("e"), n))
		b.WriteString("4:info")
		b.Write(info)
		b.WriteString("e")
	case "info-extra-lists":
		b.WriteString("d4:info")
		b.Write(info[:len(info)-1])
		b.WriteString("2:zz")
		b.Write(bytes.Repeat([]byte("l"), n))
		b.Write(bytes.Repeat([]byte("e"), n))
		b.WriteString("ee")
	case "url-list-lists":
		b.WriteString("d4:info")
		b.Write(info)
		b.WriteString("8:url-list")
		b.Write(bytes.Repeat([]byte("l"), n))
		b.Write(bytes.Repeat([]byte("e"), n))
		b.WriteString("e")
	case "unterminated-lists":
		b.WriteString("d1:a")
		b.Write(bytes.Repeat([]byte("l"), n))
	}
	return b.Bytes()
}

type ddesc struct {
	Part  string `json:"part"`
	Class string `json:"class"`
	Shape string `json:"shape,omitempty"`
	Depth int    `json:"depth,omitempty"`
	Len   int    `json:"input_len,omitempty"`
	Note  string `json:"note,omitempty"`
}

func runDeep(r *vk.Run) {
	for i, dc := range deepCases() {
		if !r.Mine(i) {
			continue
		}
		in := buildDeep(dc)
		d := &ddesc{Part: "deep", Class: "nesting-depth", Shape: dc.shape, Depth: dc.depth, Len: len(in),
			Note: "well-formed metainfo plus one value nested this deep; the child is expected to die of a goroutine stack overflow inside the bencode decoder for large depths"}
		c := r.Begin(i, d)
		o := judgeTorrent(c, in, "deep")
		c.Count("deep_cases", 1)
		r.Max("max:deep_depth_survived", int64(dc.depth))
		c.FP(vk.Hash64("deep", dc.shape, dc.depth, o.class), true)
		c.End()
		r.Flush(false) // a later case may kill the child: keep the counts
	}
}

// ---- part "huge": claimed sizes that drive storrent's table allocations -----------------

type hugeCase struct {
	name string
	in   func() []byte
}

func hugeCases() []hugeCase {
	single := func(pl, total int64, npieces int) func() []byte {
		return func() []byte {
			s := baseS()
			s.info.Set("piece length", pl)
			s.info.Set("length", total)
			s.info.Set("pieces", bytes.Repeat([]byte("0123456789abcdefghij"), npieces))
			return s.encode(fixedRng(0))
		}
	}
	multi := func(pl int64, npieces int, lens ...int64) func() []byte {
		return func() []byte {
			var fs []*refwire.Dict
			for i, l := range lens {
				fs = append(fs, mkFile(l, fmt.Sprint(i)))
			}
			s := baseM(fs...)
			s.info.Set("piece length", pl)
			s.info.Set("pieces", bytes.Repeat([]byte("0123456789abcdefghij"), npieces))
			return s.encode(fixedRng(0))
		}
	}
	big := int64(1<<32 - chunk)
	return []hugeCase{
		// valid geometries whose tables are legitimately large (pieces string as long as it has to be)
		{"valid 2^36 piece-length=2^32-16384", single(big, 1<<36, int(piecesFor(1<<36, big)))},
		{"valid 2^40 piece-length=2^32-16384", single(big, 1<<40, int(piecesFor(1<<40, big)))},
		{"valid 2^36 piece-length=2^20", single(1<<20, 1<<36, 1<<16)},
		{"valid multi 2^38 piece-length=2^31", multi(1<<31, 128, 1<<37, 1<<37)},
		// a short pieces string with a huge claimed length: tables sized by the claim
		{"claimed 2^38 piece-length=16384 one-hash", single(chunk, 1<<38, 1)},
		{"claimed 2^42 piece-length=16384 one-hash", single(chunk, 1<<42, 1)},
		{"claimed 2^45 piece-length=16384 one-hash", single(chunk, 1<<45, 1)},
		{"claimed 2^46-16384 piece-length=16384 no-hash", single(chunk, 1<<46-chunk, 0)},
		{"claimed 2^46-2^20 piece-length=2^32-16384 one-hash", single(big, 1<<46-1<<20, 1)},
		{"claimed multi 2^42 piece-length=16384 one-hash", multi(chunk, 1, 1<<41, 1<<41)},
		{"claimed multi wrap-to-2^42 piece-length=16384", multi(chunk, 1, 1<<63-1, 1<<63-1, 2+1<<42)},
		// bencode string length prefix far beyond the input (dependency allocates it up front)
		{"string prefix 2^31-1 at top level", func() []byte { return []byte("d4:info2147483647:abc") }},
		{"string prefix 2^31-1 in info", func() []byte { return []byte("d4:infod6:pieces2147483647:abcee") }},
	}
}

func runHuge(r *vk.Run) {
	for i, hc := range hugeCases() {
		if !r.Mine(i) {
			continue
		}
		in := hc.in()
		d := &ddesc{Part: "huge", Class: "huge-claim", Shape: hc.name, Len: len(in),
			Note: "run under ulimit -v: an allocation sized by the claimed length ends the child with a Go out-of-memory fatal error"}
		c := r.Begin(i, d)
		o := judgeTorrent(c, in, "huge")
		c.Count("huge_cases", 1)
		c.FP(vk.Hash64("huge", hc.name, o.class), true)
		c.End()
		r.Flush(false) // a later case may kill the child: keep the counts
	}
}

// ---- part "parse" -----------------------------------------------------------------------

type pdesc struct {
	Part   string `json:"part"`
	Family string `json:"family"`
	Class  string `json:"class"`
	Len    int    `json:"input_len"`
	Head   string `json:"input_head"`
}

func head(b []byte) string { return fmt.Sprintf("%q", clip(b, 120)) }

func runParse(r *vk.Run) {
	r.Note("geometry_cap", "generated valid geometries: total length <= 2^36, <= 2^22 blocks, <= 2^19 pieces; inputs whose claimed geometry is larger are run in the part 'huge' only")
	idx := 0
	sys := systematic()
	for _, sc := range sys {
		i := idx
		idx++
		if !r.Mine(i) {
			continue
		}
		d := &pdesc{Part: "parse", Family: "systematic", Class: sc.name, Len: len(sc.in), Head: head(sc.in)}
		c := r.Begin(i, d)
		v := scan(sc.in)
		if !v.safeForParsePart() {
			c.Count("skipped_unsafe_geometry", 1)
			c.End()
			continue
		}
		o := judgeTorrentV(c, sc.in, v)
		c.Count("systematic_cases", 1)
		c.FP(vk.Hash64("sys", sc.name, o.class), true)
		c.End()
	}
	n := r.Env.N(40000, 4000000) - len(sys)
	base := idx
	for k := 0; k < n; k++ {
		i := base + k
		if !r.Mine(i) {
			continue
		}
		rng := r.Env.Rng(i)
		fam := []string{"valid", "valid", "degenerate", "degenerate", "degenerate", "mutated", "mutated", "random", "magnet", "magnet"}[k%10]
		if fam == "magnet" {
			mc := genMagnet(rng)
			d := &pdesc{Part: "parse", Family: "magnet", Class: mc.class, Len: len(mc.s), Head: fmt.Sprintf("%q", clipS(mc.s, 160))}
			c := r.Begin(i, d)
			oc := judgeMagnet(c, mc)
			c.FP(vk.Hash64("magnet", mc.class, mc.clean, mc.wantAny, len(mc.tr) > 0, len(mc.ws) > 0, oc), oc == "accepted")
			c.End()
			continue
		}
		var in []byte
		cls := ""
		switch fam {
		case "valid":
			o := genOpts(rng)
			max := int64(1 << 36)
			if rng.IntN(8) > 0 {
				max = 1 << 31
			}
			if k%2000 == 11 {
				o.multi, o.nfiles = true, 10000
			}
			g := genGeom(rng, max)
			in = build(rng, g, o).encode(rng)
			cls = fmt.Sprintf("multi=%v shuffle=%v extra=%v trackers=%d", o.multi, o.shuffle, o.extra, o.trackers)
		case "degenerate":
			o := genOpts(rng)
			s := build(rng, genGeom(rng, 1<<31), o)
			cls = degenerate(rng, s)
			in = s.encode(rng)
		case "mutated":
			o := genOpts(rng)
			if o.nfiles > 20 {
				o.nfiles = 20
			}
			b := build(rng, genGeom(rng, 1<<26), o).encode(rng)
			in, cls = mutate(rng, b)
		case "random":
			in, cls = randomInput(rng)
		}
		d := &pdesc{Part: "parse", Family: fam, Class: cls, Len: len(in), Head: head(in)}
		c := r.Begin(i, d)
		v := scan(in)
		if !v.safeForParsePart() {
			c.Count("skipped_unsafe_geometry", 1)
			c.End()
			continue
		}
		o := judgeTorrentV(c, in, v)
		c.Count("family:"+fam, 1)
		if fam == "valid" && !o.accepted {
			c.Count("valid_not_accepted", 1)
		}
		fpcls := cls
		if fam == "mutated" || fam == "random" {
			fpcls = cls + fmt.Sprint(len(in) > 400)
		}
		c.FP(vk.Hash64(fam, fpcls, o.class, c.Violated()), o.accepted || fam == "degenerate")
		c.End()
	}
}

func TestCheck(t *testing.T) {
	r := vk.New("C13")
	defer r.Done()
	switch os.Getenv("VERIF_PART") {
	case "deep":
		runDeep(r)
	case "huge":
		runHuge(r)
	default:
		runParse(r)
	}
	r.Finish()
}

func asciiLower(s string) string {
	b := []byte(s)
	for i, c := range b {
		if c >= 'A' && c <= 'Z' {
			b[i] = c + 32
		}
	}
	return string(b)
}
