// C12: magnet metadata is accepted only if authentic, whatever peers send.
// Refuting events: InfoComplete() with SHA-1(Info) != info-hash; a crash; no
// completion although, after the last forged block, honest blocks for every
// index were delivered (bounded: three honest passes, each followed by a
// request tick, while the true size holds a strict plurality of size votes).
package c12

import (
	"bytes"
	"crypto/sha1"
	"fmt"
	"math/rand/v2"
	"os"
	"testing"
	"time"

	"github.com/jech/storrent/peer"
	"verifharness/fixture"
	"verifharness/refwire"
	"verifharness/swarm"
	"verifharness/vk"
)

var sizes = []int{0, 100, 16383, 16384, 16385, 3 * 16384, 3*16384 + 1, 100000}

// geoWithInfoSize builds a geometry whose bencoded info dictionary has exactly `target` bytes
// (0 = whatever a tiny torrent gives), by stretching the name.
func geoWithInfoSize(rng *rand.Rand, target int) *fixture.Geo {
	g := &fixture.Geo{Name: "m", PieceLen: 16 << 10, Length: int64(1+rng.IntN(5))*(16<<10) - int64(rng.IntN(3)), Seed: rng.Uint64()}
	if target == 0 {
		return g
	}
	base := len(g.Info())
	if base >= target {
		return g
	}
	// name is encoded as <len>:<bytes>; the length prefix grows with the digits
	for n := target - base; n > 0; n-- {
		g.Name = string(bytes.Repeat([]byte{'n'}, n+1))
		if len(g.Info()) == target {
			return g
		}
		if len(g.Info()) < target {
			break
		}
	}
	for len(g.Info()) < target {
		g.Name += "n"
	}
	return g
}

type voter struct {
	r    *swarm.Remote
	vote int64
}

func metaFrame(r *swarm.Remote, m refwire.Meta) []byte {
	id := byte(2)
	if e := r.StExt(); e != nil && e.M != nil {
		if v, ok := e.M["ut_metadata"]; ok && v > 0 && v < 256 {
			id = byte(v)
		}
	}
	return refwire.Encode(refwire.Msg{Kind: refwire.KExtended, Sub: id, Data: m.Payload()})
}

func history(t *testing.T, c *vk.C, rng *rand.Rand, i int) map[string]int {
	st := map[string]int{}
	swarm.Run(t, c, "C12", func(sw *swarm.Swarm) {
		target := sizes[i%len(sizes)]
		g := geoWithInfoSize(rng, target)
		info := g.Info()
		degenerate := ""
		if i%11 == 10 {
			// authentic (hash matches) but unusable dictionaries: must be refused without a crash
			d := refwire.NewDict()
			degenerate = []string{"piece-length-0", "no-name", "pieces-odd-size", "no-length-no-files", "pieces-too-few", "negative-length"}[rng.IntN(6)]
			d.Set("name", "deg")
			d.Set("piece length", int64(16384))
			d.Set("pieces", make([]byte, 20))
			d.Set("length", int64(16384))
			switch degenerate {
			case "piece-length-0":
				d.Set("piece length", int64(0))
			case "no-name":
				d.Set("name", "")
			case "pieces-odd-size":
				d.Set("pieces", make([]byte, 21))
			case "no-length-no-files":
				delete(d.Vals, "length")
				d.Keys = []string{"name", "piece length", "pieces"}
			case "pieces-too-few":
				d.Set("length", int64(5*16384))
			case "negative-length":
				// truncating division makes "-k / piece length, plus one for the remainder" equal to the one hash present
				d.Set("length", []int64{-1, -5, -8192, -16383}[rng.IntN(4)])
			}
			info = refwire.Benc(d)
		}
		size := len(info)
		nblk := (size + 16383) / 16384
		h := sha1.Sum(info)
		tr := sw.AddMagnet(g, h[:])
		blk := func(ix int) []byte {
			if ix < 0 || ix >= nblk {
				return nil
			}
			e := (ix + 1) * 16384
			if e > size {
				e = size
			}
			return info[ix*16384 : e]
		}
		votes := map[int64]int{}
		var vs []*voter
		join := func(vote int64) *voter {
			r := tr.Connect(swarm.RemoteOpts{Fast: rng.IntN(2) == 0, Ext: true})
			e := swarm.StdExt0(0, 0)
			if vote != 0 {
				v := vote
				e.MetadataSize = &v
			}
			if rng.IntN(6) == 0 {
				// a voter that does not speak ut_metadata (key absent, or number 0): its vote counts or not,
				// but nothing may be asked of it
				if rng.IntN(2) == 0 {
					delete(e.M, "ut_metadata")
				} else {
					e.M["ut_metadata"] = 0
				}
				st["voters-without-ut_metadata"]++
			}
			r.SendExt0(e)
			if vote > 0 && vote <= 128*1024*1024 {
				votes[vote]++
			}
			v := &voter{r, vote}
			vs = append(vs, v)
			st["voters"]++
			return v
		}
		if i%7 == 3 && degenerate == "" {
			// directed: the most voted size moves from a wrong one, for which a block has already been taken, to
			// the true one; from then on only honest blocks arrive. Nothing forged was ever offered for the
			// true size, so one honest block per index has to be enough.
			A := int64(size) + 16384*int64(1+rng.IntN(2))
			liar := join(A)
			sw.Cut()
			time.Sleep(7 * time.Second) // the request tick sizes the buffer for A
			sw.Cut()
			for k := 0; k < 1+rng.IntN(2); k++ {
				ix := rng.IntN(int((A + 16383) / 16384))
				ln := 16384
				if rem := int(A) - ix*16384; rem < ln {
					ln = rem
				}
				liar.r.SendRaw(metaFrame(liar.r, refwire.Meta{Type: 1, Piece: int64(ix), TotalSize: &A, Data: make([]byte, ln)}))
				sw.Act("%s block %d for the wrong size %d", liar.r.Name, ix, A)
			}
			sw.Cut()
			if rng.IntN(2) == 0 {
				liar.r.Close()
			}
			h1 := join(int64(size))
			join(int64(size))
			sw.Cut()
			time.Sleep(7 * time.Second) // the tick after the vote moved re-makes the buffer for the true size
			sw.Cut()
			ts := int64(size)
			for _, ix := range rng.Perm(nblk) {
				h1.r.SendRaw(metaFrame(h1.r, refwire.Meta{Type: 1, Piece: int64(ix), TotalSize: &ts, Data: blk(ix)}))
			}
			sw.Act("one honest pass (%d blocks) after the vote moved to the true size", nblk)
			sw.Cut()
			time.Sleep(7 * time.Second)
			sw.Cut()
			st["vote_flip_histories"]++
			if !tr.T.InfoComplete() {
				sw.Viol("C12", "completion", "incomplete-after-one-honest-pass vote-flip", fmt.Sprintf("metadata of %d bytes: the most voted size moved from %d (one block taken) to the true size, then an honest block for every index was delivered and a request tick passed; still incomplete although nothing forged was offered for the true size", size, A))
				return
			}
			st["completed"]++
			return
		}
		lieSizes := []int64{1, int64(size) - 1, int64(size) + 1, int64(size) + 16384, 16384, 1 << 20, 128 * 1024 * 1024, 128*1024*1024 + 1, 1 << 31, 0}
		for k := 0; k < 1+rng.IntN(3); k++ {
			join(int64(size))
		}
		for k := 0; k < rng.IntN(4); k++ {
			join(lieSizes[rng.IntN(len(lieSizes))])
		}
		sw.Cut()
		check := func(where string) bool {
			if tr.T.InfoComplete() {
				got := sha1.Sum(tr.T.Info)
				if !bytes.Equal(got[:], h[:]) {
					sw.Viol("C12", "authenticity", "forged-metadata-accepted", fmt.Sprintf("InfoComplete() is true but SHA-1(Info) = %x, info-hash %x (%s)", got, h, where))
					return false
				}
				if degenerate != "" {
					sw.Viol("C12", "authenticity", "degenerate-metadata-accepted "+degenerate, "a dictionary that MetadataComplete must refuse made the torrent usable")
					return false
				}
				st["completed"]++
				return false
			}
			return true
		}
		live := func() []*voter {
			var out []*voter
			for _, v := range vs {
				if !v.r.Closed() {
					out = append(out, v)
				}
			}
			return out
		}
		steps := 10 + rng.IntN(50)
		for s := 0; s < steps && check("mid-history"); s++ {
			lv := live()
			if len(lv) == 0 {
				join(int64(size))
				sw.Cut()
				continue
			}
			v := lv[rng.IntN(len(lv))]
			switch x := rng.IntN(100); {
			case x < 30: // honest block
				ix := rng.IntN(nblk)
				ts := int64(size)
				v.r.SendRaw(metaFrame(v.r, refwire.Meta{Type: 1, Piece: int64(ix), TotalSize: &ts, Data: blk(ix)}))
				sw.Act("%s honest block %d/%d", v.r.Name, ix, nblk)
				st["honest"]++
			case x < 65: // forged block
				ixs := []int64{0, int64(nblk) - 1, int64(nblk), int64(nblk) + 1, int64(rng.IntN(nblk + 1)), 1 << 31, 1<<32 - 1}
				ix := ixs[rng.IntN(len(ixs))]
				tss := []int64{int64(size), int64(size), int64(size) - 1, int64(size) + 1, 0, 128*1024*1024 + 1, 16384}
				ts := tss[rng.IntN(len(tss))]
				lens := []int{0, 1, 16383, 16384, 16385, 1<<20 - 50, -1}
				ln := lens[rng.IntN(len(lens))]
				var data []byte
				if ln < 0 { // right length for the index, wrong content
					data = append([]byte(nil), blk(int(ix%int64(nblk+1)))...)
				} else {
					data = make([]byte, ln)
				}
				if ln < 0 && len(data) > 0 && rng.IntN(2) == 0 {
					// a forgery that stays a well-formed dictionary: flip bytes inside the piece hashes
					// (the last 20 bytes before the closing 'e'), if this block holds them
					bi := int(ix % int64(nblk+1))
					lo, hi := size-21-bi*16384, size-1-bi*16384
					if lo < 0 {
						lo = 0
					}
					if hi > len(data) {
						hi = len(data)
					}
					if lo < hi {
						data[lo+rng.IntN(hi-lo)] ^= byte(1 + rng.IntN(255))
						st["forged-wellformed"]++
					} else {
						data[len(data)-1] ^= 1
					}
				} else {
					for k := 0; k < len(data); k += 1 + rng.IntN(997) {
						data[k] ^= byte(1 + rng.IntN(255))
					}
				}
				m := refwire.Meta{Type: 1, Piece: ix, Data: data}
				if rng.IntN(6) != 0 {
					m.TotalSize = &ts
				}
				cls := fmt.Sprintf("idx=%d/%d total=%d len=%d", ix, nblk, ts, len(data))
				if rng.IntN(4) == 0 {
					// the same values straight into the torrent's mailbox, as a (buggy) peer actor could post them
					ps, err := tr.T.GetPeers()
					if err == nil && len(ps) > 0 {
						tr.T.Event <- peer.TorMetaData{Peer: ps[rng.IntN(len(ps))], Size: uint32(ts), Index: uint32(ix), Data: data}
						sw.Act("mailbox forged block %s", cls)
						st["forged-mailbox"]++
					}
				} else {
					v.r.SendRaw(metaFrame(v.r, m))
					sw.Act("%s forged block %s", v.r.Name, cls)
					st["forged-wire"]++
				}
			case x < 72: // other metadata message types
				tp := int64([]int{0, 2, 3, 255}[rng.IntN(4)])
				if rng.IntN(3) == 0 {
					// a data message whose length prefix disagrees with its own contents: shorter than the
					// dictionary it starts with, cutting the dictionary, or leaving room for less / more data than follows.
					// Whatever storrent makes of the bytes that follow, it drops this peer at worst.
					ts := int64(size)
					fr := metaFrame(v.r, refwire.Meta{Type: 1, Piece: int64(rng.IntN(nblk + 1)), TotalSize: &ts, Data: make([]byte, []int{0, 1, 100, 16384}[rng.IntN(4)])})
					body := len(fr) - 4
					nl := []int{2, 3, 4, 12, 20, body - 16384, body - 1, body + 1, body + 16384}[rng.IntN(9)]
					if nl < 2 {
						nl = 2
					}
					fr[0], fr[1], fr[2], fr[3] = byte(nl>>24), byte(nl>>16), byte(nl>>8), byte(nl)
					v.r.SendRaw(fr)
					sw.Act("%s misframed metadata message: length prefix %d for a body of %d", v.r.Name, nl, body)
					st["misframed-metadata"]++
					sw.Cut()
					v.r.Close()
					break
				}
				v.r.SendRaw(metaFrame(v.r, refwire.Meta{Type: tp, Piece: int64(rng.IntN(nblk + 2))}))
			case x < 80:
				join([]int64{int64(size), lieSizes[rng.IntN(len(lieSizes))]}[rng.IntN(2)])
			case x < 86:
				v.r.Close()
				sw.Act("%s leaves", v.r.Name)
			default:
				time.Sleep([]time.Duration{300 * time.Millisecond, 6 * time.Second, 6 * time.Second, 31 * time.Second}[rng.IntN(4)])
				sw.Act("sleep")
			}
			sw.Cut()
		}
		if !check("after-hostile-phase") {
			return
		}
		// ---- bounded completion ----
		// make the true size the strict plurality
		best := 0
		for sz, n := range votes {
			if sz != int64(size) && n > best {
				best = n
			}
		}
		for votes[int64(size)] <= best {
			join(int64(size))
		}
		honest := join(int64(size))
		sw.Cut()
		time.Sleep(7 * time.Second) // a request tick re-sizes the buffer after a discarded attempt
		sw.Cut()
		for pass := 0; pass < 3 && !tr.T.InfoComplete(); pass++ {
			ts := int64(size)
			order := rng.Perm(nblk)
			for _, ix := range order {
				honest.r.SendRaw(metaFrame(honest.r, refwire.Meta{Type: 1, Piece: int64(ix), TotalSize: &ts, Data: blk(ix)}))
				if rng.IntN(3) == 0 { // duplicates are harmless
					honest.r.SendRaw(metaFrame(honest.r, refwire.Meta{Type: 1, Piece: int64(ix), TotalSize: &ts, Data: blk(ix)}))
				}
			}
			sw.Act("honest pass %d (%d blocks)", pass, nblk)
			sw.Cut()
			st["honest_passes"]++
			if honest.r.Closed() {
				honest = join(int64(size))
				sw.Cut()
			}
			time.Sleep(7 * time.Second)
			sw.Cut()
		}
		if !check("after-honest-passes") {
			return
		}
		if degenerate != "" {
			st["degenerate_refused"]++
			return
		}
		sw.Viol("C12", "completion", "never-completes-after-honest-blocks", fmt.Sprintf("metadata of %d bytes (%d blocks) still incomplete after three honest passes, each followed by a request tick, with the true size holding a strict plurality of votes %v", size, nblk, votes))
	})
	return st
}

func TestCheck(t *testing.T) {
	r := vk.New("C12")
	defer r.Done()
	n := r.Env.N(3000, 300000)
	if os.Getenv("VERIF_RACE_SUBSET") != "" {
		n = r.Env.N(600, 20000)
	}
	for i := 0; i < n; i++ {
		if !r.Mine(i) {
			continue
		}
		rng := r.Env.Rng(i)
		d := map[string]any{"family": "magnet-metadata", "info_size_target": sizes[i%len(sizes)], "degenerate": i%11 == 10}
		c := r.Begin(i, d)
		st := history(t, c, rng, i)
		for k, v := range st {
			c.Count(k, int64(v))
		}
		c.FP(swarm.ClassOf(st, "honest", "forged-wire", "forged-mailbox", "voters", "honest_passes", "completed", "degenerate_refused")+fmt.Sprint(sizes[i%len(sizes)]), st["forged-wire"]+st["forged-mailbox"] > 0 && st["completed"]+st["degenerate_refused"] > 0)
		c.End()
	}
	r.Finish()
}
