package c14

// Torrents beyond 4 GiB: piece index times piece length no longer fits 32 bits. A local GetRight
// seed serves PRF content for any range of any file without materialising it; pieces around the
// 4 GiB boundary, at file boundaries beyond it and at the end are demanded, and (1) every request
// the server sees must lie inside the demanded piece, in the right file, (2) the requests must tile
// the piece exactly once over the non-padding files, (3) the piece must verify (only demanded pieces
// carry real hashes) and read back as the truth.

import (
	"bytes"
	"context"
	"crypto/sha1"
	"fmt"
	"log"
	"math/rand/v2"
	"net"
	"net/http"
	"sort"
	"strconv"
	"strings"
	"sync"
	"time"

	"github.com/jech/storrent/tor"
	"verifharness/refwire"
	"verifharness/vk"
)

type largeLay struct {
	Name      string
	PieceSize int64
	Files     []fileEnt
	Length    int64
	Seed      uint64
}

func (l *largeLay) truth(off int64, n int) []byte {
	b := make([]byte, n)
	prfFill(b, l.Seed, off)
	for _, f := range l.Files {
		if !f.Pad {
			continue
		}
		lo, hi := f.Offset, f.Offset+f.Length
		if lo < off {
			lo = off
		}
		if hi > off+int64(n) {
			hi = off + int64(n)
		}
		for j := lo; j < hi; j++ {
			b[j-off] = 0
		}
	}
	return b
}

func (l *largeLay) numPieces() int { return int((l.Length + l.PieceSize - 1) / l.PieceSize) }
func (l *largeLay) pieceLen(i int) int {
	n := l.Length - int64(i)*l.PieceSize
	if n > l.PieceSize {
		n = l.PieceSize
	}
	return int(n)
}

func (l *largeLay) metainfo(url string, real map[int]bool) []byte {
	info := refwire.NewDict().Set("name", []byte(l.Name)).Set("piece length", l.PieceSize)
	np := l.numPieces()
	hashes := make([]byte, 20*np)
	for p := range real {
		h := sha1.Sum(l.truth(int64(p)*l.PieceSize, l.pieceLen(p)))
		copy(hashes[20*p:], h[:])
	}
	info.Set("pieces", hashes)
	var fl []any
	for _, f := range l.Files {
		d := refwire.NewDict().Set("length", f.Length)
		var p []any
		for _, c := range f.Path {
			p = append(p, []byte(c))
		}
		d.Set("path", p)
		if f.Pad {
			d.Set("attr", []byte("p"))
		}
		fl = append(fl, d)
	}
	info.Set("files", fl)
	return refwire.Benc(refwire.NewDict().Set("info", info).Set("url-list", []any{[]byte(url)}))
}

type largeReq struct {
	Path   string `json:"path"`
	File   int    `json:"file"`
	A      int64  `json:"from"`
	B      int64  `json:"to"`
	TorOff int64  `json:"torrent_offset"`
}

type largeSrv struct {
	mu   sync.Mutex
	port int
	lay  *largeLay
	log  []largeReq
}

var lsrv *largeSrv

func getLargeSrv() *largeSrv {
	if lsrv != nil {
		return lsrv
	}
	l, err := net.Listen("tcp4", "127.0.0.1:0")
	if err != nil {
		panic(err)
	}
	s := &largeSrv{port: l.Addr().(*net.TCPAddr).Port}
	hs := &http.Server{Handler: http.HandlerFunc(s.handle)}
	hs.SetKeepAlivesEnabled(false)
	go hs.Serve(l)
	lsrv = s
	return s
}

func (s *largeSrv) handle(w http.ResponseWriter, r *http.Request) {
	s.mu.Lock()
	lay := s.lay
	s.mu.Unlock()
	if lay == nil {
		http.Error(w, "gone", http.StatusGone)
		return
	}
	p := strings.TrimPrefix(r.URL.Path, "/gr/"+lay.Name+"/")
	rec := largeReq{Path: p, File: -1}
	for i, f := range lay.Files {
		if strings.Join(f.Path, "/") == p {
			rec.File = i
		}
	}
	a, b, ok := parseRange(r.Header.Get("Range"))
	if rec.File < 0 || !ok {
		s.mu.Lock()
		s.log = append(s.log, rec)
		s.mu.Unlock()
		http.Error(w, "no such file or no range", http.StatusNotFound)
		return
	}
	f := lay.Files[rec.File]
	rec.A, rec.B, rec.TorOff = a, b, f.Offset+a
	s.mu.Lock()
	s.log = append(s.log, rec)
	s.mu.Unlock()
	if a < 0 || a >= f.Length || b < a {
		w.Header().Set("Content-Range", fmt.Sprintf("bytes */%d", f.Length))
		w.WriteHeader(http.StatusRequestedRangeNotSatisfiable)
		return
	}
	if b >= f.Length {
		b = f.Length - 1
	}
	if b-a+1 > 64<<20 {
		b = a + 64<<20 - 1 // never materialise more than 64 MiB, whatever is asked
	}
	w.Header().Set("Content-Range", fmt.Sprintf("bytes %d-%d/%d", a, b, f.Length))
	w.Header().Set("Content-Length", strconv.FormatInt(b-a+1, 10))
	w.WriteHeader(http.StatusPartialContent)
	w.Write(lay.truth(f.Offset+a, int(b-a+1)))
}

type largeSpec struct {
	K     int
	Lay   *largeLay
	Piece []int
}

func genLarge(rng *rand.Rand, k int) *largeSpec {
	const G = int64(1) << 30
	ps := []int64{256 << 10, 1 << 20, 4 << 20, 768 << 10, 48 << 10, 16 << 10}[k%6]
	l := &largeLay{Name: fmt.Sprintf("big%d-%x", k, rng.Uint32()), PieceSize: ps, Seed: rng.Uint64() | 1}
	// a first file that ends a little beyond 4 GiB, not on a piece boundary; then small files, some padding
	first := 4*G + int64(rng.IntN(3))*ps + 1 + rng.Int64N(ps)
	if k%5 == 4 {
		first = 4*G - 1 - rng.Int64N(ps) // ends just below
	}
	l.Files = append(l.Files, fileEnt{Path: []string{"a.bin"}, Length: first})
	total := first
	nf := 1 + rng.IntN(4)
	for i := 0; i < nf; i++ {
		if rng.IntN(2) == 0 {
			if pad := (ps - total%ps) % ps; pad > 0 {
				l.Files = append(l.Files, fileEnt{Path: []string{".pad", fmt.Sprintf("%d-%d", pad, i)}, Length: pad, Pad: true})
				total += pad
			}
		}
		n := []int64{1, 5000, ps - 1, ps, 3*ps + 777, G + 12345, 2*G + 1}[rng.IntN(7)]
		l.Files = append(l.Files, fileEnt{Path: []string{"d", fmt.Sprintf("f%d.bin", i)}, Length: n})
		total += n
	}
	off := int64(0)
	for i := range l.Files {
		l.Files[i].Offset = off
		off += l.Files[i].Length
	}
	l.Length = total
	s := &largeSpec{K: k, Lay: l}
	np := l.numPieces()
	b4 := int(4 * G / ps)
	seen := map[int]bool{}
	add := func(p int) {
		if p >= 0 && p < np && !seen[p] {
			seen[p] = true
			s.Piece = append(s.Piece, p)
		}
	}
	add(b4 - 1)
	add(b4)
	add(int(first / ps)) // the piece where the big file ends and the next begins
	add(int(first/ps) + 1)
	add(np - 1)
	if np > b4 {
		add(b4 + rng.IntN(np-b4))
	}
	add(rng.IntN(np))
	return s
}

func (s *largeSpec) desc() map[string]any {
	var files []string
	for _, x := range s.Lay.Files {
		f := fmt.Sprintf("%s:%d", strings.Join(x.Path, "/"), x.Length)
		if x.Pad {
			f += ":pad"
		}
		files = append(files, f)
	}
	return map[string]any{"engine": "large", "piece_size": s.Lay.PieceSize, "torrent_length": s.Lay.Length, "files": files, "pieces_demanded": s.Piece}
}

func runLarge(c *vk.C, s *largeSpec) {
	globalInit()
	c.Count("large_cases", 1)
	lay := s.Lay
	srv := getLargeSrv()
	srv.mu.Lock()
	srv.lay = lay
	srv.log = nil
	srv.mu.Unlock()
	defer func() {
		srv.mu.Lock()
		srv.lay = nil
		srv.mu.Unlock()
	}()
	real := map[int]bool{}
	for _, p := range s.Piece {
		real[p] = true
	}
	t, err := tor.ReadTorrent("", bytes.NewReader(lay.metainfo(fmt.Sprintf("http://127.0.0.1:%d/gr/", srv.port), real)))
	if err != nil {
		c.Inconclusive("ReadTorrent: " + err.Error())
		return
	}
	lb := &logBuf{}
	t.Log = log.New(lb, "", 0)
	ctx, cancel := context.WithCancel(context.Background())
	defer cancel()
	if _, err := tor.AddTorrent(ctx, t); err != nil {
		c.Inconclusive("AddTorrent: " + err.Error())
		return
	}
	defer func() {
		kctx, kc := context.WithTimeout(context.Background(), 30*time.Second)
		t.Kill(kctx)
		kc()
		select {
		case <-t.Deleted:
		case <-time.After(30 * time.Second):
		}
	}()
	done := 0
	for _, p := range s.Piece {
		srv.mu.Lock()
		start := len(srv.log)
		srv.mu.Unlock()
		pOff := int64(p) * lay.PieceSize
		pEnd := pOff + int64(lay.pieceLen(p))
		rep := func() map[string]any {
			srv.mu.Lock()
			defer srv.mu.Unlock()
			return map[string]any{"spec": s.desc(), "piece": p, "piece_range": []int64{pOff, pEnd}, "requests": append([]largeReq(nil), srv.log[start:]...), "storrent_log": lb.String()}
		}
		if _, _, err := t.Request(uint32(p), 1, true, true); err != nil {
			c.Inconclusive("Request: " + err.Error())
			return
		}
		// all of the piece is padding? then nothing needs fetching and storrent cannot complete it from a seed
		needs := false
		for _, f := range lay.Files {
			if !f.Pad && f.Length > 0 && f.Offset < pEnd && f.Offset+f.Length > pOff {
				needs = true
			}
		}
		deadline := time.Now().Add(60 * time.Second)
		bad := false
		for !t.Pieces.Complete(uint32(p)) && time.Now().Before(deadline) {
			time.Sleep(5 * time.Millisecond)
			// judge requests as they come: nothing outside the piece, nothing in the wrong file
			srv.mu.Lock()
			reqs := append([]largeReq(nil), srv.log[start:]...)
			srv.mu.Unlock()
			for _, q := range reqs {
				if q.File < 0 {
					c.Violation("tiling", "large unknown-file-or-no-range", fmt.Sprintf("request for %q does not name a file of the torrent with a byte range", q.Path), rep())
					bad = true
					break
				}
				if lay.Files[q.File].Pad {
					c.Violation("tiling", "large padding-file-requested", fmt.Sprintf("request asks for padding file %q", q.Path), rep())
					bad = true
					break
				}
				if q.TorOff < pOff || q.TorOff >= pEnd || lay.Files[q.File].Offset+q.B >= pEnd+16384 {
					cls := "above-4GiB"
					if pEnd <= 1<<32 {
						cls = "below-4GiB"
					}
					c.Violation("tiling", "large request-outside-piece "+cls, fmt.Sprintf("piece %d is torrent range [%d,%d); the seed was asked for %q bytes %d-%d = torrent offset %d", p, pOff, pEnd, q.Path, q.A, q.B, q.TorOff), rep())
					bad = true
					break
				}
			}
			if bad {
				break
			}
		}
		t.Request(uint32(p), 1, false, false)
		if bad {
			return
		}
		if !t.Pieces.Complete(uint32(p)) {
			if !needs {
				c.Count("large_pieces_all_padding", 1)
				continue
			}
			if lb.Count("Hash mismatch") > 0 || lb.Count("hash mismatch") > 0 {
				c.Violation("content", "large piece-fails-hash", fmt.Sprintf("piece %d fetched from a seed that only serves the truth failed its hash check", p), rep())
			} else {
				c.Inconclusive(fmt.Sprintf("piece %d not complete within 60 s wall", p))
			}
			return
		}
		// exact tiling over the non-padding files
		srv.mu.Lock()
		reqs := append([]largeReq(nil), srv.log[start:]...)
		srv.mu.Unlock()
		type iv struct{ a, b int64 }
		var ivs []iv
		for _, q := range reqs {
			e := lay.Files[q.File].Offset + q.B + 1
			if fe := lay.Files[q.File].Offset + lay.Files[q.File].Length; e > fe {
				e = fe
			}
			ivs = append(ivs, iv{q.TorOff, e})
		}
		sort.Slice(ivs, func(i, j int) bool { return ivs[i].a < ivs[j].a })
		cur := pOff
		skip := func(x int64) int64 {
			for _, f := range lay.Files {
				if (f.Pad || f.Length == 0) && f.Offset <= x && x < f.Offset+f.Length {
					x = f.Offset + f.Length
				}
			}
			return x
		}
		okTile := true
		for _, v := range ivs {
			cur = skip(cur)
			if v.a != cur {
				okTile = false
				break
			}
			cur = v.b
		}
		cur = skip(cur)
		if !okTile || cur < pEnd {
			c.Violation("tiling", "large range-not-tiled", fmt.Sprintf("the requests for piece %d = [%d,%d) do not cover it exactly once over the non-padding files (covered up to %d)", p, pOff, pEnd, cur), rep())
			return
		}
		buf := make([]byte, lay.pieceLen(p))
		n, _ := t.Pieces.ReadAt(buf, pOff)
		if n != len(buf) || !bytes.Equal(buf, lay.truth(pOff, len(buf))) {
			c.Violation("content", "large piece-content", fmt.Sprintf("piece %d reads back %d bytes that differ from the truth", p, n), rep())
			return
		}
		done++
		c.Count("large_pieces_fetched", 1)
		c.Count("large_requests", int64(len(reqs)))
		if pEnd > 1<<32 {
			c.Count("large_pieces_fetched_beyond_4GiB", 1)
		}
		if len(reqs) > 1 {
			c.Count("large_pieces_spanning_files", 1)
		}
	}
	c.FP(vk.Hash64("large", lay.PieceSize, len(lay.Files), done), done > 1)
}
