// C14: web-seed data lands exactly where it belongs.
//
// Sub-engine "split": the exported tor.NewWriter is driven directly with every
// split of a byte stream into Write / ReadFrom calls on a torrent whose Event
// and Done channels the harness owns; the TorData / TorDrop events it emits,
// the piece store and the return values are judged.  How many in-flight slots
// the real event loop releases for each emitted event is *measured* on a second,
// running torrent of the same geometry (an event for a block that is not in
// flight makes the real handler log one "InFlight underflow" line per slot it
// releases).
//
// Sub-engine "fetch": real torrents with url-list / httpseeds pointing at a
// local hostile HTTP server; the real event loop reserves, the real fetch path
// runs over loopback, and at quiescent points (no fetch goroutine alive, then a
// GetStats round trip) the harness reads the piece store and, by reflection,
// Torrent.inFlight.
package c14

import (
	"bufio"
	"bytes"
	"context"
	"crypto/sha1"
	"errors"
	"fmt"
	"io"
	"log"
	"math/rand/v2"
	"net"
	"net/http"
	"net/url"
	"os"
	"reflect"
	"runtime"
	"sort"
	"strconv"
	"strings"
	"sync"
	"testing"
	"time"

	"github.com/jech/storrent/config"
	"github.com/jech/storrent/httpclient"
	"github.com/jech/storrent/peer"
	"github.com/jech/storrent/tor"
	"verifharness/refwire"
	"verifharness/vk"
)

var (
	_ = bufio.NewReader
	_ = errors.New
	_ = net.Listen
	_ = http.StatusOK
	_ = url.Parse
	_ = reflect.ValueOf
	_ = runtime.Stack
	_ = sort.Ints
	_ = strconv.Itoa
	_ = strings.Join
	_ = httpclient.Get
	_ = context.Background
)

const CS = 16384

// ---------- truth content and metainfo ----------------------------------------

func mix64(x uint64) uint64 {
	x ^= x >> 30
	x *= 0xbf58476d1ce4e5b9
	x ^= x >> 27
	x *= 0x94d049bb133111eb
	x ^= x >> 31
	return x
}

// prfFill writes PRF(seed, offset) bytes for [off, off+len(b)).
func prfFill(b []byte, seed uint64, off int64) {
	for i := range b {
		o := uint64(off + int64(i))
		w := mix64(seed*0x9e3779b97f4a7c15 + o/8 + 1)
		b[i] = byte(w >> (8 * (o % 8)))
	}
}

type fileEnt struct {
	Path   []string
	Length int64
	Pad    bool
	Offset int64
}

type layout struct {
	Name      string
	PieceSize int
	Length    int64
	Files     []fileEnt // nil: single file
	Seed      uint64
	truth     []byte
}

func (l *layout) numPieces() int {
	return int((l.Length + int64(l.PieceSize) - 1) / int64(l.PieceSize))
}
func (l *layout) pieceLen(i int) int {
	o := int64(i) * int64(l.PieceSize)
	n := l.Length - o
	if n > int64(l.PieceSize) {
		n = int64(l.PieceSize)
	}
	return int(n)
}
func (l *layout) pieceBlocks(i int) int { return (l.pieceLen(i) + CS - 1) / CS }
func (l *layout) blockLen(piece, b int) int {
	n := l.pieceLen(piece) - b*CS
	if n > CS {
		n = CS
	}
	return n
}

func (l *layout) build() {
	l.truth = make([]byte, l.Length)
	prfFill(l.truth, l.Seed, 0)
	off := int64(0)
	for i := range l.Files {
		l.Files[i].Offset = off
		if l.Files[i].Pad {
			for j := off; j < off+l.Files[i].Length; j++ {
				l.truth[j] = 0
			}
		}
		off += l.Files[i].Length
	}
}

func (l *layout) metainfo(urlList, httpseeds []string) []byte {
	info := refwire.NewDict().Set("name", []byte(l.Name)).Set("piece length", int64(l.PieceSize))
	var hashes []byte
	for i := 0; i < l.numPieces(); i++ {
		o := int64(i) * int64(l.PieceSize)
		h := sha1.Sum(l.truth[o : o+int64(l.pieceLen(i))])
		hashes = append(hashes, h[:]...)
	}
	info.Set("pieces", hashes)
	if l.Files == nil {
		info.Set("length", l.Length)
	} else {
		var fl []any
		for _, f := range l.Files {
			d := refwire.NewDict().Set("length", f.Length)
			var p []any
			for _, c := range f.Path {
				p = append(p, []byte(c))
			}
			d.Set("path", p)
			if f.Pad {
				d.Set("attr", []byte("p"))
			}
			fl = append(fl, d)
		}
		info.Set("files", fl)
	}
	top := refwire.NewDict().Set("info", info)
	if len(urlList) > 0 {
		var u []any
		for _, s := range urlList {
			u = append(u, []byte(s))
		}
		top.Set("url-list", u)
	}
	if len(httpseeds) > 0 {
		var u []any
		for _, s := range httpseeds {
			u = append(u, []byte(s))
		}
		top.Set("httpseeds", u)
	}
	return refwire.Benc(top)
}

var initOnce sync.Once

func globalInit() {
	initOnce.Do(func() {
		config.DefaultUseWebseeds = true
		config.DefaultDhtMode = config.DhtNone
		config.DefaultUseTrackers = false
		config.PrefetchRate = 768 * 1024
		config.SetIdleRate(0)
		config.MemoryMark = 1 << 32
		peer.DownloadEstimator.Init(3 * time.Second)
		peer.DownloadEstimator.Start()
		peer.UploadEstimator.Init(3 * time.Second)
		peer.UploadEstimator.Start()
		httpclient.Get("", "")
	})
}

type logBuf struct {
	mu sync.Mutex
	b  bytes.Buffer
}

func (l *logBuf) Write(p []byte) (int, error) {
	l.mu.Lock()
	defer l.mu.Unlock()
	if l.b.Len() < 1<<20 {
		l.b.Write(p)
	}
	return len(p), nil
}
func (l *logBuf) String() string { l.mu.Lock(); defer l.mu.Unlock(); return l.b.String() }
func (l *logBuf) Count(s string) int {
	l.mu.Lock()
	defer l.mu.Unlock()
	return bytes.Count(l.b.Bytes(), []byte(s))
}

func bitsOf(t *tor.Torrent, piece int) []bool {
	n, bm := t.Pieces.PieceBitmap(uint32(piece))
	out := make([]bool, n)
	for i := range out {
		out[i] = bm.Get(i)
	}
	return out
}

// ---------- sub-engine "split": the writer driven directly ---------------------

type geom struct {
	PieceSize int
	Length    int64
	Class     string
}

func splitGeoms() []geom {
	var gs []geom
	for _, ps := range []int{16 << 10, 32 << 10, 64 << 10, 128 << 10, 256 << 10, 1 << 20} {
		p := int64(ps)
		gs = append(gs,
			geom{ps, 2 * p, "full-pieces"},
			geom{ps, p + CS, "last-piece-one-full-block"},
			geom{ps, p + 5000, "last-piece-one-short-block"},
			geom{ps, 2*p + 1, "last-block-1-byte"},
			geom{ps, 2*p - 1, "last-block-16383"},
		)
		if ps > CS {
			gs = append(gs, geom{ps, p + int64(ps)/2 + 777, "last-piece-short-last-block-short"},
				geom{ps, p + int64(ps)/2, "last-piece-short-last-block-full"})
		}
	}
	gs = append(gs, geom{16 << 10, 1, "single-block-1-byte"}, geom{16 << 10, 9999, "single-block-short"},
		geom{16 << 10, CS, "single-block-full"}, geom{64 << 10, 20000, "single-piece-2-blocks-short"},
		geom{256 << 10, 100000, "single-piece-short"})
	return gs
}

type splitSpec struct {
	G        geom
	Piece    int
	Off, Len int // the writer's range within the piece
	Prefill  []int
	Stream   string // truth | overrun | short | empty | corrupt
	StreamN  int    // bytes in the stream
	FlipAt   int    // corrupt: stream offset of the flipped bit
	Chunking string // 1 | 16383 | 16384 | 16385 | 32768 | prng | whole
	Method   string // write | readfrom | mixed
	Seed     uint64
}

func genSplit(rng *rand.Rand, k int) *splitSpec {
	gs := splitGeoms()
	g := gs[k%len(gs)]
	l := &layout{PieceSize: g.PieceSize, Length: g.Length}
	s := &splitSpec{G: g, Seed: rng.Uint64()}
	np := l.numPieces()
	// prefer the last piece: that is where the geometry differs
	s.Piece = np - 1
	if rng.IntN(3) == 0 {
		s.Piece = rng.IntN(np)
	}
	nb := l.pieceBlocks(s.Piece)
	pl := l.pieceLen(s.Piece)
	first := rng.IntN(nb)
	if rng.IntN(2) == 0 {
		first = 0
	}
	last := first + rng.IntN(nb-first)
	if rng.IntN(2) == 0 {
		last = nb - 1
	}
	s.Off = first * CS
	end := (last + 1) * CS
	if end > pl {
		end = pl
	}
	s.Len = end - s.Off
	for b := 0; b < nb; b++ {
		if (b < first || b > last) && rng.IntN(2) == 0 {
			s.Prefill = append(s.Prefill, b)
		}
	}
	s.Stream = []string{"truth", "truth", "truth", "overrun", "overrun", "short", "short", "empty", "corrupt"}[rng.IntN(9)]
	switch s.Stream {
	case "truth", "corrupt":
		s.StreamN = s.Len
		s.FlipAt = rng.IntN(s.Len)
	case "overrun":
		s.StreamN = s.Len + []int{1, 100, CS - 1, CS, CS + 1, 3 * CS}[rng.IntN(6)]
	case "short":
		s.StreamN = rng.IntN(s.Len)
		if rng.IntN(3) == 0 && s.Len > CS {
			s.StreamN = (1 + rng.IntN(s.Len/CS)) * CS * []int{1, 1}[rng.IntN(2)]
			if s.StreamN >= s.Len {
				s.StreamN = s.Len - 1
			}
		}
	case "empty":
		s.StreamN = 0
	}
	chunkings := []string{"16383", "16384", "16385", "32768", "prng", "prng", "whole"}
	if s.StreamN <= 40000 {
		chunkings = append(chunkings, "1")
	}
	s.Chunking = chunkings[k/len(gs)%len(chunkings)]
	s.Method = []string{"write", "readfrom", "mixed"}[rng.IntN(3)]
	return s
}

func (s *splitSpec) desc() map[string]any {
	return map[string]any{"engine": "split", "piece_size": s.G.PieceSize, "torrent_length": s.G.Length, "geometry": s.G.Class,
		"piece": s.Piece, "range_offset": s.Off, "range_length": s.Len, "prefilled_blocks": s.Prefill,
		"stream": s.Stream, "stream_bytes": s.StreamN, "chunking": s.Chunking, "method": s.Method}
}

type evRec struct {
	Kind     string `json:"kind"`
	Begin    uint32 `json:"begin"`
	Length   uint32 `json:"length"`
	Complete bool   `json:"complete,omitempty"`
	Released int    `json:"slots_released_by_real_handler"`
	After    int    `json:"after_bytes_accepted"`
}

// countingReader yields the stream in given chunk sizes and counts consumption.
type chunkReader struct {
	data   []byte
	sizes  []int
	pos    int
	calls  int
	zeroOK bool
}

func (c *chunkReader) Read(p []byte) (int, error) {
	c.calls++
	if c.pos >= len(c.data) {
		return 0, io.EOF
	}
	n := len(p)
	if len(c.sizes) > 0 {
		if c.sizes[0] < n {
			n = c.sizes[0]
		}
	}
	if n > len(c.data)-c.pos {
		n = len(c.data) - c.pos
	}
	copy(p, c.data[c.pos:c.pos+n])
	c.pos += n
	if len(c.sizes) > 0 {
		c.sizes[0] -= n
		if c.sizes[0] <= 0 {
			c.sizes = c.sizes[1:]
		}
	}
	return n, nil
}

// probe: a running torrent of the same geometry on which the real handler's
// arithmetic is measured.
type probeT struct {
	t   *tor.Torrent
	log *logBuf
	ok  bool
	why string
}

var probes = map[[2]int64]*probeT{}

const underflowMsg = "InFlight underflow"

func getProbe(g geom) *probeT {
	key := [2]int64{int64(g.PieceSize), g.Length}
	if p, ok := probes[key]; ok {
		return p
	}
	p := &probeT{log: &logBuf{}}
	probes[key] = p
	l := &layout{Name: fmt.Sprintf("probe-%d-%d", g.PieceSize, g.Length), PieceSize: g.PieceSize, Length: g.Length, Seed: 77}
	l.build()
	t, err := tor.ReadTorrent("", bytes.NewReader(l.metainfo(nil, nil)))
	if err != nil {
		p.why = "probe torrent: " + err.Error()
		return p
	}
	t.Log = log.New(p.log, "", 0)
	if _, err := tor.AddTorrent(context.Background(), t); err != nil {
		p.why = "probe torrent: " + err.Error()
		return p
	}
	p.t = t
	if !calibrate() {
		p.why = "calibration failed: a full-block TorDrop on an idle torrent did not make the real handler log exactly one \"" + underflowMsg + "\" line"
		return p
	}
	p.ok = true
	return p
}

var calOnce sync.Once
var calOK bool

// calibrate checks, once, on a plain two-piece torrent, that releasing a slot
// that is not in flight is observable as exactly one log line.
func calibrate() bool {
	calOnce.Do(func() {
		l := &layout{Name: "calibration", PieceSize: 32 << 10, Length: 64 << 10, Seed: 78}
		l.build()
		t, err := tor.ReadTorrent("", bytes.NewReader(l.metainfo(nil, nil)))
		if err != nil {
			return
		}
		lb := &logBuf{}
		t.Log = log.New(lb, "", 0)
		if _, err := tor.AddTorrent(context.Background(), t); err != nil {
			return
		}
		defer t.Kill(context.Background())
		t.Event <- peer.TorDrop{Index: 1, Begin: 0, Length: CS}
		t.GetStats()
		n1 := lb.Count(underflowMsg)
		t.Event <- peer.TorData{Index: 0, Begin: CS, Length: CS}
		t.GetStats()
		n2 := lb.Count(underflowMsg)
		t.Event <- peer.TorDrop{Index: 0, Begin: 0, Length: 2 * CS}
		t.GetStats()
		n3 := lb.Count(underflowMsg)
		calOK = n1 == 1 && n2 == 2 && n3 == 4
	})
	return calOK
}

// released measures how many in-flight slots the real handler releases for an event.
func (p *probeT) released(e peer.TorEvent) int {
	n0 := p.log.Count(underflowMsg)
	p.t.Event <- e
	p.t.GetStats()
	return p.log.Count(underflowMsg) - n0
}

type wIface interface {
	io.Writer
	io.ReaderFrom
	io.Closer
}

func runSplit(c *vk.C, s *splitSpec) {
	globalInit()
	c.Count("split_cases", 1)
	l := &layout{Name: "split", PieceSize: s.G.PieceSize, Length: s.G.Length, Seed: s.Seed | 1}
	l.build()
	t, err := tor.ReadTorrent("", bytes.NewReader(l.metainfo(nil, nil)))
	if err != nil {
		c.Inconclusive("ReadTorrent: " + err.Error())
		return
	}
	t.Event = make(chan peer.TorEvent, 4096)
	t.Done = make(chan struct{})
	t.Log = log.New(io.Discard, "", 0)
	defer t.Pieces.Del()
	rng := rand.New(rand.NewPCG(s.Seed, 99))
	pieceOff := int64(s.Piece) * int64(s.G.PieceSize)
	nb := l.pieceBlocks(s.Piece)
	for _, b := range s.Prefill {
		o := pieceOff + int64(b*CS)
		t.Pieces.AddData(uint32(s.Piece), uint32(b*CS), l.truth[o:o+int64(l.blockLen(s.Piece, b))], ^uint32(0))
	}
	before := bitsOf(t, s.Piece)
	// the stream
	stream := make([]byte, s.StreamN)
	rs := pieceOff + int64(s.Off)
	n := s.StreamN
	if n > s.Len {
		n = s.Len
	}
	copy(stream, l.truth[rs:rs+int64(n)])
	for i := n; i < s.StreamN; i++ {
		stream[i] = byte(rng.IntN(256)) | 1
	}
	if s.Stream == "corrupt" {
		stream[s.FlipAt] ^= 1 << rng.IntN(8)
	}
	// chunk sizes
	var sizes []int
	for rem := s.StreamN; rem > 0; {
		var k int
		switch s.Chunking {
		case "1":
			k = 1
		case "whole":
			k = rem
		case "prng":
			k = []int{1, 7, 100, 4096, CS - 1, CS, CS + 1, 20000, 2 * CS, 2*CS + 1, 50000, 1 + rng.IntN(70000)}[rng.IntN(12)]
		default:
			k, _ = strconv.Atoi(s.Chunking)
		}
		if k > rem {
			k = rem
		}
		sizes = append(sizes, k)
		rem -= k
	}
	w := wIface(tor.NewWriter(t, uint32(s.Piece), uint32(s.Off), uint32(s.Len)))
	var events []evRec
	accepted := 0
	pos := 0
	reported := map[int]bool{} // block -> reported by TorData
	var dropped []int
	drops := 0
	rep := func() map[string]any {
		return map[string]any{"spec": s.desc(), "events": events, "bytes_accepted": accepted, "chunk_sizes_prefix": sizes[:min(len(sizes), 40)]}
	}
	_ = s.G.Class
	drain := func(afterClose bool) bool {
		for {
			select {
			case e := <-t.Event:
				switch e := e.(type) {
				case peer.TorData:
					c.Count("split_tordata", 1)
					events = append(events, evRec{Kind: "TorData", Begin: e.Begin, Length: e.Length, Complete: e.Complete, After: accepted})
					if e.Index != uint32(s.Piece) || e.Peer != nil {
						c.Violation("event", "split event wrong-piece", fmt.Sprintf("TorData for piece %d (writer is on piece %d)", e.Index, s.Piece), rep())
						return false
					}
					if e.Begin%CS != 0 {
						c.Violation("event", "split event unaligned-begin", fmt.Sprintf("TorData begin %d is not block aligned", e.Begin), rep())
						return false
					}
					if int(e.Begin) < s.Off || int(e.Begin)+int(e.Length) > s.Off+s.Len || e.Length == 0 {
						c.Violation("event", "split event outside-range", fmt.Sprintf("TorData [%d,+%d) outside the writer's range [%d,+%d)", e.Begin, e.Length, s.Off, s.Len), rep())
						return false
					}
					if int(e.Begin)+int(e.Length) > s.Off+accepted {
						c.Violation("event", "split event beyond-written", fmt.Sprintf("TorData [%d,+%d) reported after only %d bytes were accepted", e.Begin, e.Length, accepted), rep())
						return false
					}
					for b := int(e.Begin) / CS; b*CS < int(e.Begin)+int(e.Length); b++ {
						if reported[b] {
							c.Violation("event", "split event block-reported-twice", fmt.Sprintf("block %d reported twice", b), rep())
							return false
						}
						reported[b] = true
					}
				case peer.TorDrop:
					c.Count("split_tordrop", 1)
					drops++
					events = append(events, evRec{Kind: "TorDrop", Begin: e.Begin, Length: e.Length, After: accepted})
					if !afterClose {
						c.Violation("event", "split event drop-before-close", "TorDrop emitted before Close", rep())
						return false
					}
					if e.Index != uint32(s.Piece) || e.Begin%CS != 0 || int(e.Begin) < s.Off || int(e.Begin)+int(e.Length) > s.Off+s.Len || e.Length == 0 {
						c.Violation("event", "split event bad-drop", fmt.Sprintf("TorDrop{%d,%d,%d} does not lie block-aligned inside the writer's range [%d,+%d) of piece %d", e.Index, e.Begin, e.Length, s.Off, s.Len, s.Piece), rep())
						return false
					}
					for b := int(e.Begin) / CS; b*CS < int(e.Begin)+int(e.Length); b++ {
						dropped = append(dropped, b)
					}
				default:
					c.Violation("event", "split event unexpected-type", fmt.Sprintf("unexpected event %T", e), rep())
					return false
				}
			default:
				return true
			}
		}
	}
	for ci := 0; ci < len(sizes); {
		useRF := s.Method == "readfrom" || (s.Method == "mixed" && rng.IntN(2) == 0)
		if useRF {
			// hand ReadFrom a reader that yields the next 1..4 chunks
			k := 1 + rng.IntN(4)
			if ci+k > len(sizes) {
				k = len(sizes) - ci
			}
			tot := 0
			for _, z := range sizes[ci : ci+k] {
				tot += z
			}
			cr := &chunkReader{data: stream[pos : pos+tot], sizes: append([]int(nil), sizes[ci:ci+k]...)}
			nn, err := w.ReadFrom(cr)
			c.Count("split_readfrom_calls", 1)
			if int(nn) != cr.pos {
				c.Violation("retval", "split retval readfrom-count", fmt.Sprintf("ReadFrom returned %d but consumed %d bytes of its reader", nn, cr.pos), rep())
				return
			}
			accepted += cr.pos
			_ = err
			if !drain(false) {
				return
			}
			if cr.pos < tot {
				// the writer stopped reading: legitimate only when its range is full
				if accepted < s.Len {
					c.Violation("retval", "split retval readfrom-stopped-early", fmt.Sprintf("ReadFrom stopped after %d of %d offered bytes although only %d of %d range bytes were accepted (err=%v)", cr.pos, tot, accepted, s.Len, err), rep())
					return
				}
				break
			}
			pos += tot
			ci += k
		} else {
			p := stream[pos : pos+sizes[ci]]
			nn, err := w.Write(p)
			c.Count("split_write_calls", 1)
			if nn < 0 || nn > len(p) {
				c.Violation("retval", "split retval write-count", fmt.Sprintf("Write(%d bytes) returned n=%d", len(p), nn), rep())
				return
			}
			accepted += nn
			if nn < len(p) && err == nil {
				c.Violation("retval", "split retval short-write-without-error", fmt.Sprintf("Write accepted %d of %d bytes and returned a nil error", nn, len(p)), rep())
				return
			}
			if !drain(false) {
				return
			}
			if nn < len(p) {
				if accepted < s.Len {
					c.Violation("retval", "split retval write-refused-early", fmt.Sprintf("Write refused bytes (n=%d of %d, err=%v) although only %d of %d range bytes were accepted", nn, len(p), err, accepted, s.Len), rep())
					return
				}
				break
			}
			pos += sizes[ci]
			ci++
		}
		if accepted > s.Len {
			c.Violation("overrun", "split overrun accepted>length", fmt.Sprintf("%d bytes accepted by a writer of length %d", accepted, s.Len), rep())
			return
		}
	}
	w.Close()
	if !drain(true) {
		return
	}
	if drops > 1 {
		c.Violation("event", "split event several-drops", fmt.Sprintf("%d TorDrop events", drops), rep())
		return
	}
	// tiling as the property intends
	firstB, lastB := s.Off/CS, (s.Off+s.Len-1)/CS
	cover := map[int]int{}
	for b := range reported {
		cover[b]++
	}
	for _, b := range dropped {
		cover[b]++
	}
	for b := firstB; b <= lastB; b++ {
		if cover[b] != 1 {
			kind := "block-neither-reported-nor-dropped"
			if cover[b] > 1 {
				kind = "block-covered-twice"
			}
			c.Violation("tiling", "split tiling "+kind, fmt.Sprintf("reserved block %d of piece %d is covered %d times by the writer's TorData/TorDrop events (reserved blocks %d..%d)", b, s.Piece, cover[b], firstB, lastB), rep())
			return
		}
	}
	// store vs events
	after := bitsOf(t, s.Piece)
	for b := 0; b < nb; b++ {
		in := b >= firstB && b <= lastB
		switch {
		case !in && after[b] != before[b]:
			c.Violation("store", "split store outside-range-changed", fmt.Sprintf("block %d outside the writer's range changed presence %v -> %v", b, before[b], after[b]), rep())
			return
		case in && after[b] && !reported[b] && !before[b]:
			c.Violation("store", "split store present-unreported", fmt.Sprintf("block %d became present but no TorData reported it", b), rep())
			return
		case in && !after[b] && reported[b]:
			c.Violation("store", "split store reported-absent", fmt.Sprintf("block %d reported by TorData but absent from the store", b), rep())
			return
		}
	}
	// content: complete the rest with truth, storrent's own hash check decides
	expectOK := true
	for b := range reported {
		lo := b*CS - s.Off
		hi := lo + l.blockLen(s.Piece, b)
		o := pieceOff + int64(b*CS)
		if !bytes.Equal(stream[lo:hi], l.truth[o:o+int64(hi-lo)]) {
			expectOK = false
		}
	}
	for b := 0; b < nb; b++ {
		if !after[b] {
			o := pieceOff + int64(b*CS)
			t.Pieces.AddData(uint32(s.Piece), uint32(b*CS), l.truth[o:o+int64(l.blockLen(s.Piece, b))], ^uint32(0))
		}
	}
	done, _, ferr := t.Pieces.Finalise(uint32(s.Piece), t.PieceHashes[s.Piece])
	if done != expectOK {
		c.Violation("content", fmt.Sprintf("split content hash-ok=%v-expected=%v", done, expectOK), fmt.Sprintf("after completing the piece with truth, Finalise returned done=%v err=%v; the bytes fed for the committed blocks were truth: %v", done, ferr, expectOK), rep())
		return
	}
	c.Count("split_hash_checks", 1)
	if !expectOK {
		c.Count("split_hash_mismatch_expected", 1)
	}
	// what the real event loop releases for these events
	pr := getProbe(s.G)
	if !pr.ok {
		if pr.why != "" {
			c.Inconclusive(pr.why)
			return
		}
	} else {
		leak := 0
		over := 0
		shape := ""
		for i := range events {
			e := &events[i]
			var ev peer.TorEvent
			if e.Kind == "TorData" {
				ev = peer.TorData{Peer: nil, Index: uint32(s.Piece), Begin: e.Begin, Length: e.Length, Complete: false}
			} else {
				ev = peer.TorDrop{Index: uint32(s.Piece), Begin: e.Begin, Length: e.Length}
			}
			e.Released = pr.released(ev)
			want := (int(e.Begin)+int(e.Length)+CS-1)/CS - int(e.Begin)/CS
			c.Count("split_events_measured", 1)
			if e.Released < want {
				leak += want - e.Released
				endsAtTorrentEnd := pieceOff+int64(e.Begin)+int64(e.Length) == s.G.Length
				if endsAtTorrentEnd && e.Length%CS != 0 && want-e.Released == 1 {
					shape = "final-short-block"
				} else if shape == "" {
					shape = "other-" + e.Kind
				}
			} else if e.Released > want {
				over += e.Released - want
			}
		}
		if leak > 0 {
			c.Violation("leak-inflight", "leak-inflight "+shape, fmt.Sprintf("the caller reserves %d blocks for this range; fed with the writer's events the real handler releases %d fewer (measured on a running torrent of the same geometry)", lastB-firstB+1, leak), rep())
			return
		}
		if over > 0 {
			c.Violation("over-release", "over-release split", fmt.Sprintf("the real handler releases %d more slots than the events' blocks", over), rep())
			return
		}
	}
	c.FP(vk.Hash64("split", s.G.Class, s.Stream, s.Chunking, s.Method, len(reported) > 0, drops, s.Off > 0, s.Off+s.Len == l.pieceLen(s.Piece)), len(events) > 0)
}

// ---------- sub-engine "fetch": the real fetch path ------------------------------

var grBehaviours = []string{
	"206-ok", "206-ok-chunked", "206-shifted+1", "206-shifted-block", "206-longer", "206-shorter",
	"206-star-total", "206-wrong-total", "206-malformed-cr", "206-missing-cr",
	"200-cl", "200-nocl", "200-cl-wrong", "416-cr", "416-nocr", "404", "500",
	"206-chunked-truncated", "206-cl-truncated", "206-overlong-body", "206-reset-at-k",
	"206-garbage", "206-garbage-tail", "206-zero-body",
}

var hBehaviours = []string{"h-ok", "h-chunked", "h-nocl-overlong", "h-wrong-cl", "h-short-cl", "h-404", "h-500", "h-206", "h-truncated", "h-garbage", "h-reset-at-k"}

func refusedBehaviour(b string) bool {
	switch b {
	case "206-shifted+1", "206-shifted-block", "206-wrong-total", "206-malformed-cr", "206-missing-cr", "200-cl-wrong",
		"416-cr", "416-nocr", "404", "500", "h-wrong-cl", "h-short-cl", "h-404", "h-500", "h-206":
		return true
	}
	return false
}

type reqRec struct {
	Seq      int        `json:"seq"`
	Path     string     `json:"path"`
	File     int        `json:"file"` // index into layout.Files, 0 for single-file, -1 unknown, -2 hoffman
	A        int64      `json:"range_first"`
	B        int64      `json:"range_last"`
	HasRange bool       `json:"has_range"`
	TorOff   int64      `json:"torrent_offset"`
	Beh      string     `json:"behaviour"`
	Refused  bool       `json:"must_be_refused"`
	Sent     int64      `json:"body_bytes_sent"`          // upper bound on what the client could use
	Garbage  [][2]int64 `json:"garbage_ranges,omitempty"` // torrent byte ranges served with wrong content
	Complete bool       `json:"complete"`                 // the full wanted range was served and must be accepted
	Over     int64      `json:"body_bytes_beyond_requested_range,omitempty"`
	Round    int        `json:"round"`
}

type fetchSrv struct {
	l       net.Listener
	port    int
	mu      sync.Mutex
	nonce   string
	lay     *layout
	plan    func(seq int) string // behaviour for the seq-th request of the round
	rng     *rand.Rand
	log     []reqRec
	seq     int
	round   int
	gate    chan struct{}
	arrived chan struct{}
	stale   int
}

var fsrv *fetchSrv

func getFetchSrv() *fetchSrv {
	if fsrv != nil {
		return fsrv
	}
	l, err := net.Listen("tcp4", "127.0.0.1:0")
	if err != nil {
		panic(err)
	}
	s := &fetchSrv{l: l, port: l.Addr().(*net.TCPAddr).Port}
	hs := &http.Server{Handler: http.HandlerFunc(s.handle)}
	hs.SetKeepAlivesEnabled(false)
	go hs.Serve(l)
	fsrv = s
	return s
}

func (s *fetchSrv) base() string { return fmt.Sprintf("http://127.0.0.1:%d/%s", s.port, s.nonce) }

func parseRange(h string) (a, b int64, ok bool) {
	if !strings.HasPrefix(h, "bytes=") {
		return 0, 0, false
	}
	x, y, found := strings.Cut(h[6:], "-")
	if !found {
		return 0, 0, false
	}
	a, e1 := strconv.ParseInt(x, 10, 64)
	b, e2 := strconv.ParseInt(y, 10, 64)
	return a, b, e1 == nil && e2 == nil
}

func (s *fetchSrv) handle(w http.ResponseWriter, r *http.Request) {
	s.mu.Lock()
	if s.nonce == "" || !strings.HasPrefix(r.URL.Path, "/"+s.nonce+"/") {
		s.stale++
		s.mu.Unlock()
		http.Error(w, "gone", http.StatusGone)
		return
	}
	lay := s.lay
	rest := strings.TrimPrefix(r.URL.Path, "/"+s.nonce+"/")
	rec := reqRec{Seq: s.seq, Path: rest, File: -1, Round: s.round}
	beh := s.plan(s.seq)
	s.seq++
	rng := s.rng
	var F []byte // the file (GetRight) or the whole torrent (Hoffman)
	var fileOff int64
	hoff := false
	switch {
	case strings.HasPrefix(rest, "h"):
		hoff = true
		rec.File = -2
		q := r.URL.Query()
		pi, e1 := strconv.ParseInt(q.Get("piece"), 10, 64)
		x, y, _ := strings.Cut(q.Get("ranges"), "-")
		st, e2 := strconv.ParseInt(x, 10, 64)
		en, e3 := strconv.ParseInt(y, 10, 64)
		if e1 == nil && e2 == nil && e3 == nil && en >= st {
			rec.HasRange = true
			rec.A = pi*int64(lay.PieceSize) + st
			rec.B = pi*int64(lay.PieceSize) + en - 1
			rec.TorOff = rec.A
		}
		F = lay.truth
		if !strings.HasPrefix(beh, "h-") {
			beh = "h-ok"
		}
	default:
		// GetRight: gr/<name>[/<path>...] or grd (the URL is the file itself)
		var fpath string
		if rest == "grd" {
			fpath = ""
		} else {
			p := strings.TrimPrefix(rest, "gr/")
			if p == lay.Name {
				fpath = ""
			} else {
				fpath = strings.TrimPrefix(p, lay.Name+"/")
			}
		}
		if lay.Files == nil {
			if fpath == "" {
				rec.File = 0
				F = lay.truth
			}
		} else {
			for i, f := range lay.Files {
				if strings.Join(f.Path, "/") == fpath && fpath != "" {
					rec.File = i
					fileOff = f.Offset
					F = lay.truth[f.Offset : f.Offset+f.Length]
					break
				}
			}
		}
		a, b, ok := parseRange(r.Header.Get("Range"))
		rec.HasRange = ok
		rec.A, rec.B = a, b
		rec.TorOff = fileOff + a
		if strings.HasPrefix(beh, "h-") {
			beh = "206-ok"
		}
	}
	gate := s.gate
	s.gate = nil
	arrived := s.arrived
	s.mu.Unlock()
	if gate != nil {
		arrived <- struct{}{}
		<-gate
	}
	resp := buildResponse(rng, beh, hoff, F, &rec)
	s.mu.Lock()
	s.log = append(s.log, rec)
	s.mu.Unlock()
	resp.send(w)
}

type rawResp struct {
	status  int
	headers []string
	body    []byte
	chunked bool
	chunkSz []int
	declCL  int64 // -1: none
	sendN   int   // body bytes to send before closing
	noTerm  bool  // chunked: omit the terminating chunk
	rst     bool
}

func (rr *rawResp) send(w http.ResponseWriter) {
	hj, ok := w.(http.Hijacker)
	if !ok {
		return
	}
	c, rw, err := hj.Hijack()
	if err != nil {
		return
	}
	defer c.Close()
	fmt.Fprintf(rw, "HTTP/1.1 %d X\r\nConnection: close\r\n", rr.status)
	for _, h := range rr.headers {
		rw.WriteString(h + "\r\n")
	}
	body := rr.body
	if rr.sendN < len(body) {
		body = body[:rr.sendN]
	}
	if rr.chunked {
		rw.WriteString("Transfer-Encoding: chunked\r\n\r\n")
		sz := rr.chunkSz
		for len(body) > 0 {
			k := 16384
			if len(sz) > 0 {
				k, sz = sz[0], sz[1:]
			}
			if k > len(body) {
				k = len(body)
			}
			fmt.Fprintf(rw, "%x\r\n", k)
			rw.Write(body[:k])
			rw.WriteString("\r\n")
			rw.Flush()
			body = body[k:]
		}
		if !rr.noTerm {
			rw.WriteString("0\r\n\r\n")
		}
	} else {
		if rr.declCL >= 0 {
			fmt.Fprintf(rw, "Content-Length: %d\r\n", rr.declCL)
		}
		rw.WriteString("\r\n")
		rw.Write(body)
	}
	rw.Flush()
	if rr.rst {
		if tc, ok := c.(*net.TCPConn); ok {
			tc.SetLinger(0)
		}
	}
}

func garbageBytes(rng *rand.Rand, truth []byte) []byte {
	g := make([]byte, len(truth))
	for i := range g {
		g[i] = truth[i] ^ byte(1+rng.IntN(255))
	}
	return g
}

func prngChunks(rng *rand.Rand, n int) []int {
	var out []int
	for n > 0 {
		k := []int{1, 100, 4096, CS - 1, CS, CS + 1, 2 * CS, 32768, 40000, 1 + rng.IntN(70000)}[rng.IntN(10)]
		if k > n {
			k = n
		}
		out = append(out, k)
		n -= k
		if len(out) > 64 {
			out = append(out, n)
			break
		}
	}
	return out
}

// buildResponse fills rec with what the oracle needs and returns the bytes to send.
func buildResponse(rng *rand.Rand, beh string, hoff bool, F []byte, rec *reqRec) *rawResp {
	rr := &rawResp{status: 206, declCL: -1}
	fl := int64(len(F))
	a, b := rec.A, rec.B
	if F == nil || !rec.HasRange || a < 0 || b < a || b >= fl {
		// a request the layout cannot explain: answer 416, the tiling clause reports it
		rec.Beh = beh + "→unanswerable"
		rec.Refused = true
		rr.status = 416
		rr.declCL = 0
		return rr
	}
	want := b - a + 1
	full := F[a : b+1]
	cr := func(x, y int64, tot string) string { return fmt.Sprintf("Content-Range: bytes %d-%d/%s", x, y, tot) }
	tot := strconv.FormatInt(fl, 10)
	setBody := func(body []byte) {
		rr.body = body
		rr.declCL = int64(len(body))
		rr.sendN = len(body)
	}
	na := func() { // behaviour not applicable to this request: honour it
		beh = beh + "→206-ok"
		rr.headers = []string{cr(a, b, tot)}
		setBody(full)
		rec.Sent = want
		rec.Complete = true
	}
	switch beh {
	case "206-ok":
		rr.headers = []string{cr(a, b, tot)}
		setBody(full)
		rec.Sent, rec.Complete = want, true
	case "206-ok-chunked":
		rr.headers = []string{cr(a, b, tot)}
		rr.body, rr.sendN, rr.chunked, rr.chunkSz = full, len(full), true, prngChunks(rng, len(full))
		rec.Sent, rec.Complete = want, true
	case "206-shifted+1", "206-shifted-block":
		d := int64(1)
		if beh == "206-shifted-block" {
			d = CS
		}
		switch {
		case b+d < fl:
			rr.headers = []string{cr(a+d, b+d, tot)}
			setBody(F[a+d : b+d+1])
		case a-d >= 0:
			rr.headers = []string{cr(a-d, b-d, tot)}
			setBody(F[a-d : b-d+1])
		default:
			na()
			break
		}
		if !strings.Contains(beh, "→") {
			rec.Refused = true
			rec.Sent = int64(len(rr.body))
		}
	case "206-longer":
		if b+1 >= fl {
			na()
			break
		}
		k := 1 + rng.Int64N(min(fl-1-b, 40000))
		rr.headers = []string{cr(a, b+k, tot)}
		setBody(F[a : b+k+1])
		rec.Sent, rec.Complete = want, true
	case "206-shorter":
		if want < 2 {
			na()
			break
		}
		k := 1 + rng.Int64N(want-1)
		rr.headers = []string{cr(a, b-k, tot)}
		setBody(F[a : b-k+1])
		rec.Sent = want - k
	case "206-star-total":
		rr.headers = []string{cr(a, b, "*")}
		setBody(full)
		rec.Sent, rec.Complete = want, true
	case "206-wrong-total":
		rr.headers = []string{cr(a, b, strconv.FormatInt(fl+1+rng.Int64N(1000), 10))}
		setBody(full)
		rec.Refused, rec.Sent = true, want
	case "206-malformed-cr":
		forms := []string{
			fmt.Sprintf("Content-Range: bytes %d-%d", a, b),
			fmt.Sprintf("Content-Range: bytes=%d-%d/%d", a, b, fl),
			fmt.Sprintf("Content-Range: %d-%d/%d", a, b, fl),
			fmt.Sprintf("Content-Range: octets %d-%d/%d", a, b, fl),
			fmt.Sprintf("Content-Range: bytes %d-/%d", a, fl),
			fmt.Sprintf("Content-Range: bytes -%d/%d", b, fl),
			fmt.Sprintf("Content-Range: bytes */%d", fl),
			fmt.Sprintf("Content-Range: bytes %d-%d/%d", a, b, b), // last >= total
			"Content-Range: bytes x-y/z",
		}
		if b > a {
			forms = append(forms, fmt.Sprintf("Content-Range: bytes %d-%d/%d", b, a, fl))
		}
		rr.headers = []string{vk.Pick(rng, forms)}
		setBody(full)
		rec.Refused, rec.Sent = true, want
	case "206-missing-cr":
		setBody(full)
		rec.Refused, rec.Sent = true, want
	case "200-cl", "200-nocl":
		rr.status = 200
		if beh == "200-cl" {
			setBody(F)
		} else {
			rr.body, rr.sendN, rr.chunked, rr.chunkSz = F, len(F), true, prngChunks(rng, len(F))
		}
		if a == 0 {
			rec.Sent, rec.Complete = want, true
		} else {
			rec.Refused, rec.Sent = true, fl
		}
	case "200-cl-wrong":
		rr.status = 200
		setBody(append(append([]byte(nil), F...), 1, 2, 3, 4, 5))
		rec.Refused, rec.Sent = true, fl+5
	case "416-cr":
		rr.status = 416
		rr.headers = []string{"Content-Range: bytes */" + tot}
		setBody(full)
		rec.Refused, rec.Sent = true, want
	case "416-nocr":
		rr.status = 416
		setBody(full)
		rec.Refused, rec.Sent = true, want
	case "404", "500", "h-404", "h-500", "h-206":
		rr.status, _ = strconv.Atoi(strings.TrimPrefix(beh, "h-"))
		if !hoff {
			rr.headers = []string{cr(a, b, tot)}
		}
		setBody(full)
		rec.Refused, rec.Sent = true, want
	case "206-chunked-truncated", "206-cl-truncated", "206-reset-at-k", "h-truncated", "h-reset-at-k":
		k := rng.Int64N(want)
		if want > CS && rng.IntN(2) == 0 {
			k = (1 + rng.Int64N(want/CS)) * CS // cut exactly at a block boundary
			if k >= want {
				k = want - 1
			}
		}
		if hoff {
			rr.status = 200
		} else {
			rr.headers = []string{cr(a, b, tot)}
		}
		rr.body = full
		rr.sendN = int(k)
		if beh == "206-chunked-truncated" {
			rr.chunked, rr.noTerm, rr.chunkSz = true, true, prngChunks(rng, int(k))
		} else {
			rr.declCL = want
		}
		rr.rst = strings.HasSuffix(beh, "reset-at-k")
		rec.Sent = k
	case "206-overlong-body", "h-nocl-overlong":
		extra := make([]byte, 1+rng.IntN(40000))
		for i := range extra {
			extra[i] = 0xEE
		}
		if hoff {
			rr.status = 200
		} else {
			rr.headers = []string{cr(a, b, tot)}
		}
		rr.body = append(append([]byte(nil), full...), extra...)
		rr.sendN, rr.chunked, rr.chunkSz = len(rr.body), true, prngChunks(rng, len(rr.body))
		rec.Sent, rec.Complete = want, true
		if !hoff {
			rec.Over = int64(len(extra))
		}
	case "206-garbage", "h-garbage":
		if hoff {
			rr.status = 200
		} else {
			rr.headers = []string{cr(a, b, tot)}
		}
		setBody(garbageBytes(rng, full))
		rec.Sent, rec.Complete = want, true
		rec.Garbage = [][2]int64{{rec.TorOff, rec.TorOff + want}}
	case "206-garbage-tail":
		rr.headers = []string{cr(a, b, tot)}
		g := append([]byte(nil), full...)
		g[len(g)-1] ^= 0x40
		setBody(g)
		rec.Sent, rec.Complete = want, true
		rec.Garbage = [][2]int64{{rec.TorOff + want - 1, rec.TorOff + want}}
	case "206-zero-body":
		rr.headers = []string{cr(a, b, tot)}
		setBody(nil)
		rec.Sent = 0
	case "h-ok":
		rr.status = 200
		setBody(full)
		rec.Sent, rec.Complete = want, true
	case "h-chunked":
		rr.status = 200
		rr.body, rr.sendN, rr.chunked, rr.chunkSz = full, len(full), true, prngChunks(rng, len(full))
		rec.Sent, rec.Complete = want, true
	case "h-wrong-cl":
		rr.status = 200
		setBody(append(append([]byte(nil), full...), 0xEE))
		rec.Refused, rec.Sent = true, want+1
	case "h-short-cl":
		rr.status = 200
		setBody(full[:len(full)-1])
		rec.Refused, rec.Sent = true, want-1
	default:
		panic("unknown behaviour " + beh)
	}
	rec.Beh = beh
	return rr
}

// ---------- fetch cases -------------------------------------------------------------

type fetchSpec struct {
	Lay     *layout
	Style   string // gr | grd | h
	Piece   int
	Prefill []int
	Rounds  []string // behaviour of each round
	BadAt   int      // which request of the round gets the behaviour (others honoured)
	Seed    uint64
	K       int
}

var fileLens = []int64{0, 1, 100, CS - 1, CS, CS + 1, 20000, 3*CS + 5, 40000, 65536, 65537, 100000, 131072, 200000}

func genLayout(rng *rand.Rand, k int) *layout {
	ps := []int{16 << 10, 32 << 10, 64 << 10, 128 << 10, 256 << 10, 1 << 20}[rng.IntN(6)]
	l := &layout{PieceSize: ps, Seed: rng.Uint64() | 1, Name: fmt.Sprintf("t%d-%x", k, rng.Uint32())}
	if rng.IntN(3) == 0 {
		// single file
		np := 1 + rng.IntN(3)
		l.Length = int64(np-1)*int64(ps) + []int64{1, 5000, CS, CS + 1, int64(ps) - 1, int64(ps), int64(ps)/2 + 777}[rng.IntN(7)]
		if rng.IntN(4) == 0 {
			l.Name = "name with space-ü"
			l.Name += fmt.Sprintf("-%x", rng.Uint32())
		}
		l.build()
		return l
	}
	nf := 2 + rng.IntN(7)
	total := int64(0)
	names := []string{"a.bin", "b b.bin", "c", "d.dat", "é.bin", "f", "g.iso", "h", "i", "j", "k", "l", "m", "n", "o", "p", "q", "r"}
	ni := 0
	for i := 0; i < nf; i++ {
		n := vk.Pick(rng, fileLens)
		if n > int64(2*ps) {
			n = int64(ps) + n%int64(ps)
		}
		p := []string{names[ni%len(names)]}
		ni++
		if rng.IntN(3) == 0 {
			p = []string{"dir" + strconv.Itoa(rng.IntN(3)), p[0]}
		}
		l.Files = append(l.Files, fileEnt{Path: p, Length: n})
		total += n
		// optional padding file up to the next piece or block boundary
		if rng.IntN(3) == 0 {
			al := int64(ps)
			if rng.IntN(2) == 0 {
				al = CS
			}
			if pad := (al - total%al) % al; pad > 0 {
				l.Files = append(l.Files, fileEnt{Path: []string{".pad", strconv.FormatInt(pad, 10) + "-" + strconv.Itoa(i)}, Length: pad, Pad: true})
				total += pad
			}
		}
	}
	if total == 0 {
		l.Files = append(l.Files, fileEnt{Path: []string{"z.bin"}, Length: 12345})
		total = 12345
	}
	l.Length = total
	l.build()
	return l
}

func genFetch(rng *rand.Rand, k int) *fetchSpec {
	nb := len(grBehaviours) + len(hBehaviours)
	bi := k % nb
	f := &fetchSpec{K: k, Seed: rng.Uint64()}
	f.Lay = genLayout(rng, k)
	var first string
	if bi < len(grBehaviours) {
		first = grBehaviours[bi]
		f.Style = "gr"
		if f.Lay.Files == nil && rng.IntN(2) == 0 {
			f.Style = "grd"
		}
	} else {
		first = hBehaviours[bi-len(grBehaviours)]
		f.Style = "h"
	}
	np := f.Lay.numPieces()
	f.Piece = np - 1
	if rng.IntN(2) == 0 {
		f.Piece = rng.IntN(np)
	}
	n := f.Lay.pieceBlocks(f.Piece)
	switch rng.IntN(4) {
	case 0: // empty piece
	case 1: // a prefix present: the hole does not start at 0
		for b := 0; b < rng.IntN(n); b++ {
			f.Prefill = append(f.Prefill, b)
		}
	default:
		for b := 0; b < n; b++ {
			if rng.IntN(3) == 0 {
				f.Prefill = append(f.Prefill, b)
			}
		}
	}
	if len(f.Prefill) == n {
		f.Prefill = f.Prefill[:n-1]
	}
	f.Rounds = []string{first}
	pool := grBehaviours
	if f.Style == "h" {
		pool = hBehaviours
	}
	for r := 0; r < rng.IntN(3); r++ {
		f.Rounds = append(f.Rounds, vk.Pick(rng, pool))
	}
	f.BadAt = []int{0, 0, 1, 2}[rng.IntN(4)]
	return f
}

func (f *fetchSpec) desc() map[string]any {
	var files []string
	for _, x := range f.Lay.Files {
		s := fmt.Sprintf("%s:%d", strings.Join(x.Path, "/"), x.Length)
		if x.Pad {
			s += ":pad"
		}
		files = append(files, s)
	}
	return map[string]any{"engine": "fetch", "style": f.Style, "piece_size": f.Lay.PieceSize, "torrent_length": f.Lay.Length, "files": files,
		"piece": f.Piece, "prefilled_blocks": f.Prefill, "round_behaviours": f.Rounds, "behaviour_applies_to_request": f.BadAt, "name": f.Lay.Name}
}

func activeGoroutines() (fetch, fin int) {
	buf := make([]byte, 1<<20)
	n := runtime.Stack(buf, true)
	s := string(buf[:n])
	fetch = strings.Count(s, "created by github.com/jech/storrent/tor.maybeWebseed")
	fin = strings.Count(s, "created by github.com/jech/storrent/tor.finalisePiece")
	return
}

func readInFlight(t *tor.Torrent) ([]int, bool) {
	v := reflect.ValueOf(t).Elem().FieldByName("inFlight")
	if !v.IsValid() || v.Kind() != reflect.Slice {
		return nil, false
	}
	out := make([]int, v.Len())
	for i := range out {
		out[i] = int(v.Index(i).Uint())
	}
	return out, true
}

type roundRec struct {
	Round         int      `json:"round"`
	Beh           string   `json:"behaviour"`
	Reserved      []int    `json:"reserved_blocks"`
	Requests      []reqRec `json:"requests"`
	NewBlocks     []int    `json:"newly_present_blocks"`
	InFlightAfter []int    `json:"in_flight_nonzero_after"`
	Discarded     bool     `json:"piece_discarded"`
	Complete      bool     `json:"piece_complete"`
}

func runFetch(c *vk.C, f *fetchSpec) {
	globalInit()
	c.Count("fetch_cases", 1)
	srv := getFetchSrv()
	lay := f.Lay
	rng := rand.New(rand.NewPCG(f.Seed, 5))
	srv.mu.Lock()
	srv.nonce = fmt.Sprintf("n%d-%x", f.K, f.Seed&0xffffff)
	srv.lay = lay
	srv.rng = rng
	srv.log = nil
	srv.mu.Unlock()
	defer func() {
		srv.mu.Lock()
		srv.nonce = ""
		srv.mu.Unlock()
	}()
	var urlList, seeds []string
	switch f.Style {
	case "gr":
		urlList = []string{srv.base() + "/gr/"}
	case "grd":
		urlList = []string{srv.base() + "/grd"}
	case "h":
		seeds = []string{srv.base() + "/h"}
	}
	t, err := tor.ReadTorrent("", bytes.NewReader(lay.metainfo(urlList, seeds)))
	if err != nil {
		c.Inconclusive("ReadTorrent: " + err.Error())
		return
	}
	if len(t.Webseeds()) != 1 {
		c.Inconclusive(fmt.Sprintf("torrent has %d web seeds, expected 1", len(t.Webseeds())))
		return
	}
	lb := &logBuf{}
	t.Log = log.New(lb, "", 0)
	pieceOff := int64(f.Piece) * int64(lay.PieceSize)
	nb := lay.pieceBlocks(f.Piece)
	for _, b := range f.Prefill {
		o := pieceOff + int64(b*CS)
		t.Pieces.AddData(uint32(f.Piece), uint32(b*CS), lay.truth[o:o+int64(lay.blockLen(f.Piece, b))], ^uint32(0))
	}
	ctx, cancel := context.WithCancel(context.Background())
	defer cancel()
	if _, err := tor.AddTorrent(ctx, t); err != nil {
		c.Inconclusive("AddTorrent: " + err.Error())
		return
	}
	defer func() {
		kctx, kc := context.WithTimeout(context.Background(), 30*time.Second)
		t.Kill(kctx)
		kc()
		select {
		case <-t.Deleted:
		case <-time.After(30 * time.Second):
		}
	}()
	cpp := lay.PieceSize / CS
	chunk0 := f.Piece * cpp
	var rounds []roundRec
	rep := func() map[string]any {
		return map[string]any{"spec": f.desc(), "rounds": rounds, "storrent_log": lb.String()}
	}
	garbageStored := false
	everStored := map[int]bool{}
	errorsSoFar := 0
	prevIF, ok := readInFlight(t)
	if !ok {
		c.Inconclusive("cannot read Torrent.inFlight by reflection")
		return
	}
	behClasses := []string{}
	mismatches := 0
	for ri, beh := range f.Rounds {
		if errorsSoFar >= 2 {
			break // the web seed backs off for real seconds after two errors
		}
		if t.Pieces.Complete(uint32(f.Piece)) {
			break
		}
		before := bitsOf(t, f.Piece)
		rr := roundRec{Round: ri, Beh: beh}
		gate := make(chan struct{})
		arrived := make(chan struct{}, 1)
		srv.mu.Lock()
		srv.round = ri
		srv.seq = 0
		srv.gate = gate
		srv.arrived = arrived
		logStart := len(srv.log)
		bad := f.BadAt
		srv.plan = func(seq int) string {
			if seq == bad {
				return beh
			}
			if f.Style == "h" {
				return "h-ok"
			}
			return "206-ok"
		}
		srv.mu.Unlock()
		gateOpen := false
		openGate := func() {
			if !gateOpen {
				gateOpen = true
				close(gate)
			}
		}
		// demand, then withdraw it at once: exactly one fetch is started
		if _, _, err := t.Request(uint32(f.Piece), 1, true, true); err != nil {
			openGate()
			c.Inconclusive("Request: " + err.Error())
			return
		}
		t.Request(uint32(f.Piece), 1, false, false)
		t.GetStats()
		// wait for the first HTTP request, or for the fetch to end without one (padding only)
		sawFetch := false
		deadline := time.Now().Add(20 * time.Second)
		gotArrival := false
	waitArrive:
		for {
			select {
			case <-arrived:
				gotArrival = true
				break waitArrive
			case <-time.After(2 * time.Millisecond):
				nf, nfin := activeGoroutines()
				if nf > 0 {
					sawFetch = true
				}
				if nf == 0 && nfin == 0 {
					select {
					case <-arrived:
						gotArrival = true
					default:
					}
					break waitArrive
				}
				if time.Now().After(deadline) {
					openGate()
					c.Inconclusive("fetch neither reached the server nor ended within 20 s wall")
					return
				}
			}
		}
		var reserved []int
		t.GetStats()
		cur, _ := readInFlight(t)
		mid := bitsOf(t, f.Piece)
		if gotArrival {
			nf, _ := activeGoroutines()
			if nf == 0 {
				openGate()
				c.Inconclusive("a request is held by the server but no goroutine created by tor.maybeWebseed is visible: fetch end cannot be observed")
				return
			}
			sawFetch = true
		}
		for b := 0; b < nb; b++ {
			if cur[chunk0+b] > prevIF[chunk0+b] || (mid[b] && !before[b]) {
				reserved = append(reserved, b)
			}
		}
		for i := range cur {
			if (i < chunk0 || i >= chunk0+nb) && cur[i] != prevIF[i] {
				openGate()
				c.Violation("reserve", "fetch reserve other-piece", fmt.Sprintf("in-flight slot %d outside the requested piece changed %d -> %d", i, prevIF[i], cur[i]), rep())
				return
			}
		}
		rr.Reserved = reserved
		openGate()
		// wait for the end of the fetch and of any hash check it triggered
		deadline = time.Now().Add(30 * time.Second)
		for {
			nf, nfin := activeGoroutines()
			if nf == 0 && nfin == 0 {
				break
			}
			if time.Now().After(deadline) {
				c.Inconclusive("fetch did not end within 30 s wall")
				return
			}
			time.Sleep(time.Millisecond)
		}
		t.GetStats()
		t.GetStats()
		// a hash check started by the TorData handler after the barrier?
		for k := 0; k < 3; k++ {
			if _, nfin := activeGoroutines(); nfin > 0 {
				time.Sleep(2 * time.Millisecond)
				k = -1
				if time.Now().After(deadline) {
					c.Inconclusive("hash check did not end within 30 s wall")
					return
				}
				continue
			}
			t.GetStats()
		}
		after := bitsOf(t, f.Piece)
		fin, _ := readInFlight(t)
		srv.mu.Lock()
		reqs := append([]reqRec(nil), srv.log[logStart:]...)
		srv.mu.Unlock()
		rr.Requests = reqs
		rr.Complete = t.Pieces.Complete(uint32(f.Piece))
		for b := 0; b < nb; b++ {
			if before[b] && !after[b] {
				rr.Discarded = true
			}
		}
		for b := 0; b < nb; b++ {
			if after[b] && !before[b] {
				rr.NewBlocks = append(rr.NewBlocks, b)
			}
		}
		if n := lb.Count("Hash mismatch"); n > mismatches {
			mismatches = n
			rr.Discarded = true
		}
		for i, v := range fin {
			if v != 0 {
				rr.InFlightAfter = append(rr.InFlightAfter, i)
			}
		}
		rounds = append(rounds, rr)
		if len(reserved) == 0 && len(reqs) == 0 && !sawFetch {
			c.Count("fetch_rounds_without_fetch", 1)
			prevIF = fin
			if rr.Discarded {
				// a fetch too quick to be seen (padding only) completed the piece and it failed its hash
				if !garbageStored {
					c.Violation("content", "fetch content discarded-though-truth "+f.Style, "the piece completed and failed storrent's hash check although the server only sent truth", rep())
					return
				}
				c.Count("fetch_hash_mismatch_expected", 1)
				garbageStored = false
				everStored = map[int]bool{}
			}
			continue
		}
		c.Count("fetch_rounds", 1)
		c.Count("fetch_requests", int64(len(reqs)))
		c.Count("fetch_blocks_reserved", int64(len(reserved)))
		c.Count("fetch_blocks_stored", int64(len(rr.NewBlocks)))
		effBeh := beh + "→not-reached"
		for _, q := range reqs {
			if q.Seq == bad {
				effBeh = q.Beh
			}
			if q.Refused {
				c.Count("fetch_responses_must_refuse", 1)
			}
		}
		behClasses = append(behClasses, effBeh)
		for _, q := range reqs {
			if q.Refused || (!q.Complete && q.Sent == 0) {
				errorsSoFar++
				break
			}
		}
		// --- reservation shape
		for i := 1; i < len(reserved); i++ {
			if reserved[i] != reserved[i-1]+1 {
				c.Inconclusive("reservation is not one contiguous run of blocks")
				return
			}
		}
		if len(reserved) == 0 {
			c.Violation("reserve", "fetch reserve nothing-reserved "+f.Style, "a fetch ran but no block of the piece was reserved for it", rep())
			return
		}
		rStart := pieceOff + int64(reserved[0]*CS)
		rEnd := pieceOff + int64((reserved[len(reserved)-1]+1)*CS)
		if pe := pieceOff + int64(lay.pieceLen(f.Piece)); rEnd > pe {
			rEnd = pe
		}
		inR := map[int]bool{}
		for _, b := range reserved {
			inR[b] = true
			if before[b] {
				c.Violation("reserve", "fetch reserve present-block-reserved", fmt.Sprintf("block %d was already present and was reserved for a fetch", b), rep())
				return
			}
		}
		// --- (1) the requests tile the reserved range (GetRight)
		extent := rStart                     // bytes [rStart, extent) may have been received
		overAt := int64(-1)                  // torrent offset where the surplus of an over-long body would land
		skipLocal := func(cur int64) int64 { // padding and empty files are supplied locally
			for _, fe := range lay.Files {
				if fe.Offset <= cur && cur < fe.Offset+fe.Length && fe.Pad {
					cur = fe.Offset + fe.Length
				}
			}
			return cur
		}
		if f.Style != "h" {
			cur := rStart
			broken := false
			for qi, q := range reqs {
				// storrent may give up after an over-long body; if it goes on, the walk goes on
				overAt = -1
				if broken {
					c.Violation("tiling", "fetch tiling request-after-failed-response "+f.Style, fmt.Sprintf("request %d follows a response that was refused or short", qi), rep())
					return
				}
				cur = skipLocal(cur)
				if cur > rEnd {
					cur = rEnd
				}
				if q.File < 0 || !q.HasRange {
					c.Violation("tiling", "fetch tiling unknown-file-or-no-range "+f.Style, fmt.Sprintf("request %d: path %q range ok=%v does not name a file of the torrent", qi, q.Path, q.HasRange), rep())
					return
				}
				var fe fileEnt
				if lay.Files == nil {
					fe = fileEnt{Length: lay.Length}
				} else {
					fe = lay.Files[q.File]
				}
				if fe.Pad {
					c.Violation("tiling", "fetch tiling padding-file-requested", fmt.Sprintf("request %d asks for padding file %v", qi, fe.Path), rep())
					return
				}
				wantLen := min(fe.Offset+fe.Length, rEnd) - cur
				if fe.Offset+q.A != cur || !(fe.Offset <= cur && cur < fe.Offset+fe.Length) {
					c.Violation("tiling", "fetch tiling wrong-offset "+f.Style, fmt.Sprintf("request %d asks file %v from byte %d = torrent offset %d; the next uncovered byte of the reserved range [%d,%d) is %d", qi, fe.Path, q.A, fe.Offset+q.A, rStart, rEnd, cur), rep())
					return
				}
				if q.B-q.A+1 != wantLen {
					c.Violation("tiling", "fetch tiling wrong-length "+f.Style, fmt.Sprintf("request %d asks %d bytes of file %v from %d; the reserved range [%d,%d) needs %d bytes of it", qi, q.B-q.A+1, fe.Path, q.A, rStart, rEnd, wantLen), rep())
					return
				}
				if q.Refused {
					broken = true
				} else {
					s := q.Sent
					if s > wantLen {
						s = wantLen
					}
					cur += s
					if !q.Complete {
						broken = true
					}
					if q.Over > 0 {
						overAt = cur
					}
				}
			}
			if !broken && overAt >= 0 && cur < rEnd {
				// The statement lets storrent either abandon the fetch after an over-long body or clip
				// the surplus and go on.  If only locally generated padding follows, going on covers the
				// rest of the range without another request; otherwise the fetch stopped here and
				// nothing after this point may be stored.
				if c2 := skipLocal(cur); c2 >= rEnd {
					cur = c2
				} else {
					broken = true
				}
			} else {
				overAt = -1
			}
			if !broken {
				cur = skipLocal(cur)
				if cur < rEnd {
					c.Violation("tiling", "fetch tiling range-not-covered "+f.Style, fmt.Sprintf("every response was complete, yet bytes [%d,%d) of the reserved range [%d,%d) were never requested", cur, rEnd, rStart, rEnd), rep())
					return
				}
			}
			extent = min(cur, rEnd)
			if !broken {
				extent = rEnd
			}
			c.Count("fetch_tilings_judged", 1)
		} else {
			if len(reqs) > 0 {
				q := reqs[0]
				if !q.Refused {
					extent = rStart + q.Sent
				}
				if q.HasRange && (q.A != rStart || q.B+1 != rEnd) {
					c.Count("hoffman_range_differs_from_reservation", 1)
				}
			}
			if extent > rEnd {
				extent = rEnd
			}
		}
		// --- (2) storage
		if !rr.Discarded {
			for b := 0; b < nb; b++ {
				if !inR[b] && after[b] != before[b] {
					c.Violation("store", "fetch store outside-reserved-range "+f.Style, fmt.Sprintf("block %d is outside the reserved blocks %v and changed presence %v -> %v", b, reserved, before[b], after[b]), rep())
					return
				}
			}
			for _, b := range rr.NewBlocks {
				bs := pieceOff + int64(b*CS)
				be := bs + int64(lay.blockLen(f.Piece, b))
				if be > extent {
					cls := "beyond-received"
					if overAt >= 0 {
						cls = "overlong-body-spills-past-file-chunk"
					}
					for _, q := range reqs {
						if q.Refused && q.TorOff < be && bs < q.TorOff+(q.B-q.A+1) {
							cls = "from-refused-response " + strings.SplitN(q.Beh, "→", 2)[0]
						}
					}
					c.Violation("store", "fetch store "+cls+" "+f.Style, fmt.Sprintf("block %d (torrent bytes [%d,%d)) became present although usable data was received only up to torrent offset %d", b, bs, be, extent), rep())
					return
				}
				everStored[b] = true
				for _, q := range reqs {
					for _, g := range q.Garbage {
						if g[0] < be && bs < g[1] {
							garbageStored = true
						}
					}
				}
			}
		} else {
			// the piece was hashed and thrown away: legitimate only if wrong bytes went in
			wrong := garbageStored
			for _, q := range reqs {
				if len(q.Garbage) > 0 {
					wrong = true
				}
			}
			if !wrong && overAt >= 0 {
				c.Violation("store", "fetch store overlong-body-spills-past-file-chunk "+f.Style, fmt.Sprintf("a response carried more bytes than its file chunk needed; the surplus was written at torrent offset %d, in the byte range of the following file(s): the piece completed and failed storrent's hash check although every requested range was served with truth", overAt), rep())
				return
			}
			if !wrong {
				c.Violation("content", "fetch content discarded-though-truth "+f.Style, "the piece completed and failed storrent's hash check although the server only sent truth", rep())
				return
			}
			c.Count("fetch_hash_mismatch_expected", 1)
			garbageStored = false
			everStored = map[int]bool{}
		}
		if rr.Complete && garbageStored {
			c.Violation("content", "fetch content complete-with-garbage "+f.Style, "the piece passed the hash check although wrong bytes were served for a stored block", rep())
			return
		}
		// --- (3) conservation
		for i, v := range fin {
			if v == 0 {
				continue
			}
			shape := "other"
			lastChunk := len(fin) - 1
			if i == lastChunk && lay.Length%CS != 0 && v == 1 {
				shape = "final-short-block"
				nonzero := 0
				for _, x := range fin {
					if x != 0 {
						nonzero++
					}
				}
				if nonzero > 1 {
					shape = "other"
				}
			}
			c.Violation("leak-inflight", "leak-inflight "+shape, fmt.Sprintf("no fetch is active and there are no peers, yet in-flight slot %d (piece %d block %d) is %d; reserved blocks of the last fetch: %v", i, i/cpp, i%cpp, v, reserved), rep())
			return
		}
		prevIF = fin
	}
	// --- content: complete with truth, storrent's hash check decides
	if !t.Pieces.Complete(uint32(f.Piece)) && len(everStored) > 0 {
		now := bitsOf(t, f.Piece)
		for b := 0; b < nb; b++ {
			if !now[b] {
				o := pieceOff + int64(b*CS)
				t.Pieces.AddData(uint32(f.Piece), uint32(b*CS), lay.truth[o:o+int64(lay.blockLen(f.Piece, b))], ^uint32(0))
			}
		}
		done, _, ferr := t.Pieces.Finalise(uint32(f.Piece), t.PieceHashes[f.Piece])
		c.Count("fetch_hash_checks", 1)
		if done == garbageStored {
			c.Violation("content", fmt.Sprintf("fetch content hash-ok=%v-expected=%v %s", done, !garbageStored, f.Style), fmt.Sprintf("after completing the piece with truth Finalise returned done=%v err=%v; wrong bytes served for a stored block: %v", done, ferr, garbageStored), rep())
			return
		}
	} else if t.Pieces.Complete(uint32(f.Piece)) {
		c.Count("fetch_pieces_completed_by_fetch", 1)
	}
	sort.Strings(behClasses)
	c.FP(vk.Hash64("fetch", f.Style, behClasses, lay.Files != nil, lay.Length%CS != 0, len(f.Prefill) > 0), len(rounds) > 0 && len(rounds[0].Requests) > 0)
}

// ---------- main -----------------------------------------------------------------------

func TestCheck(t *testing.T) {
	// C09's clause "the in-flight count equals the requests outstanding at some peer or web seed" is
	// decided for web seeds by this workload: run with VERIF_PROP=C09 it reports only what that clause
	// forbids (a reserved block never released, or released more often than reserved).
	prop := os.Getenv("VERIF_PROP")
	if prop == "" {
		prop = "C14"
	}
	r := vk.New(prop)
	defer r.Done()
	if prop == "C09" {
		r.KindFilter = func(kind string) bool { return kind == "leak-inflight" || kind == "over-release" }
	}
	r.Note("handler_release_measure", "slots released per TorData/TorDrop are counted as \""+underflowMsg+"\" lines logged by the real event loop of an idle torrent of the same geometry (calibrated: 1 full block -> 1 line)")
	r.Note("hoffman", "fake Hoffman seed serves end-start bytes for ranges=start-end as storrent means it; only storage-side clauses judged")
	nSplit := r.Env.N(3000, 300000)
	nb := len(grBehaviours) + len(hBehaviours)
	nFetch := nb * r.Env.N(30, 1000)
	nLarge := r.Env.N(24, 240)
	if prop == "C09" {
		nLarge = 0 // the large part judges request placement only
	}
	for i := 0; i < nSplit+nFetch+nLarge; i++ {
		if !r.Mine(i) {
			continue
		}
		rng := r.Env.Rng(i)
		if i >= nSplit+nFetch {
			s := genLarge(rng, i-nSplit-nFetch)
			c := r.Begin(i, s.desc())
			runLarge(c, s)
			c.End()
			continue
		}
		if i < nSplit {
			s := genSplit(rng, i)
			c := r.Begin(i, s.desc())
			runSplit(c, s)
			c.End()
		} else {
			f := genFetch(rng, i-nSplit)
			c := r.Begin(i, f.desc())
			runFetch(c, f)
			c.End()
		}
	}
	r.Finish()
}
