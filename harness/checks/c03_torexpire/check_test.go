// C03, global memory manager: tor.Expire() over several live torrents, with
// torrents deleted (or shrunk) exactly between its sampling of alloc.Bytes()
// and its walks of the torrent table (yield points tor.expire.sampled /
// tor.expire.walked), and sequentially under memory marks swept around the
// current allocation.  Oracles: no crash (divide by zero), accounting
// invariant at the cut after the round, and "brought down to the low mark"
// when nothing was busy.
package c03t

import (
	"fmt"
	"math/rand/v2"
	"reflect"
	"sync"
	"testing"
	"testing/synctest"
	"time"

	"github.com/jech/storrent/alloc"
	"github.com/jech/storrent/config"
	"github.com/jech/storrent/hash"
	"github.com/jech/storrent/tor"
	"github.com/jech/storrent/verifhook"
	"verifharness/fixture"
	"verifharness/sched"
	"verifharness/swarm"
	"verifharness/vk"
)

func bufBytes(tr *swarm.Tor) (int64, bool) {
	v := reflect.ValueOf(&tr.T.Pieces).Elem().FieldByName("pieces")
	if !v.IsValid() {
		return 0, false
	}
	var sum int64
	for i := 0; i < v.Len(); i++ {
		d := v.Index(i).FieldByName("data")
		if !d.IsValid() {
			return 0, false
		}
		if !d.IsNil() {
			sum += int64(d.Cap())
		}
	}
	return sum, true
}

type scen struct {
	Torrents int    `json:"torrents"`
	Mark     string `json:"memory_mark"`
	Hook     string `json:"fault_at"`
	Victims  string `json:"victims"`
}

func run(t *testing.T, c *vk.C, sc scen, rng *rand.Rand) {
	swarm.Run(t, c, "C03", func(sw *swarm.Swarm) {
		base := alloc.Bytes()
		var trs []*swarm.Tor
		for k := 0; k < sc.Torrents; k++ {
			g := fixture.RandGeo(rng, 1<<20, []uint32{16 << 10, 64 << 10, 128 << 10, 256 << 10})
			g.Name = fmt.Sprintf("x%d", k)
			tr := sw.AddTorrent(g, swarm.TorOpts{})
			var pre []int
			for p := 0; p < g.NumPieces(); p++ {
				if k == 0 || rng.IntN(3) != 0 { // torrent 0 is big
					pre = append(pre, p)
				}
			}
			if k > 0 && rng.IntN(2) == 0 && len(pre) > 1 {
				pre = pre[:1] // a small one
			}
			tr.Prefill(pre)
			for _, p := range pre {
				tr.T.Pieces.UpdateTime(uint32(p))
			}
			trs = append(trs, tr)
			time.Sleep(time.Duration(rng.IntN(3)) * time.Second)
		}
		sw.Cut()
		used := alloc.Bytes() - base
		switch sc.Mark {
		case "zero":
			config.MemoryMark = 0
		case "tiny":
			config.MemoryMark = 1
		case "half":
			config.MemoryMark = base + used/2
		case "just-below":
			config.MemoryMark = base + used - 1
		case "equal":
			config.MemoryMark = base + used
		case "above":
			config.MemoryMark = base + used*2 + 1
		}
		defer func() { config.MemoryMark = 1 << 40 }()
		ctrl := sched.New()
		ctrl.Filter = func(w int, name string) bool { return name == sc.Hook }
		verifhook.SetPoint(ctrl.Hook)
		defer verifhook.SetPoint(nil)
		var mu sync.Mutex
		done := false
		rc := 0
		go func() {
			ctrl.Register(1)
			rc = tor.Expire()
			ctrl.Unregister()
			mu.Lock()
			done = true
			mu.Unlock()
		}()
		synctest.Wait()
		parked := ctrl.Parked()
		if len(parked) > 0 {
			c.Count("parked_at:"+sc.Hook, 1)
			// the fault: torrents disappear between the sample and the walk
			switch sc.Victims {
			case "all":
				for _, tr := range trs {
					tr.Kill()
				}
			case "big":
				trs[0].Kill()
			case "all-but-one":
				for _, tr := range trs[1:] {
					tr.Kill()
				}
			case "evict-big":
				trs[0].T.Pieces.Expire(0, nil, func(ix uint32) { trs[0].T.Have(ix, false) })
			case "none":
			}
			sw.Act("at %s: victims %s", sc.Hook, sc.Victims)
			synctest.Wait()
			ctrl.ReleaseAll()
		} else {
			c.Count("expire_returned_before_hook", 1)
		}
		for i := 0; i < 100; i++ {
			synctest.Wait()
			mu.Lock()
			d := done
			mu.Unlock()
			if d {
				break
			}
			ctrl.ReleaseAll()
			time.Sleep(10 * time.Millisecond)
		}
		sw.Cut()
		time.Sleep(time.Second) // per-torrent passes launched by tor.Expire and their Have(false) reports
		sw.Cut()
		c.Count("expire_rounds", 1)
		c.Count(fmt.Sprintf("expire_rc:%d", rc), 1)
		// accounting over the torrents that still exist
		var sum int64
		for _, tr := range trs {
			b, ok := bufBytes(tr)
			if !ok {
				c.Inconclusive("reflect: Pieces.pieces missing")
				return
			}
			sum += b
		}
		if got := alloc.Bytes() - base; got != sum {
			sw.Viol("C03", "accounting", "alloc-vs-buffers after-tor-expire", fmt.Sprintf("alloc.Bytes() reports %d bytes, the stores of the torrents hold %d", got, sum))
		}
		if rc < 0 && sc.Victims == "none" && alloc.Bytes() > config.MemoryLowMark() && config.MemoryMark > 0 {
			// nothing was busy: the pass must have brought the allocation down to the low mark
			evictable := false
			for _, tr := range trs {
				if tr.T.Pieces.Count() > 0 {
					evictable = true
				}
			}
			if evictable {
				sw.Viol("C03", "low-mark", "tor-expire-stops-above-low-mark", fmt.Sprintf("after an eviction round with nothing busy %d bytes are allocated, low mark %d, and evictable pieces remain", alloc.Bytes(), config.MemoryLowMark()))
			}
		}
	})
}

// runLRU: access times made the way consumers make them (Torrent.Request on pieces that are already
// complete: a re-read), then one global eviction round that has to drop about half. Within a torrent no
// piece accessed later may be dropped while one accessed earlier stays (all accesses lie within the hour,
// where the documented order is plain least-recently-accessed first).
func runLRU(t *testing.T, c *vk.C, rng *rand.Rand) {
	swarm.Run(t, c, "C03", func(sw *swarm.Swarm) {
		base := alloc.Bytes()
		type tstate struct {
			tr     *swarm.Tor
			access []time.Time
		}
		var ts []*tstate
		for k := 0; k < 1+rng.IntN(2); k++ {
			g := fixture.RandGeo(rng, 1<<20, []uint32{32 << 10, 64 << 10, 128 << 10})
			g.Name = fmt.Sprintf("lru%d", k)
			tr := sw.AddTorrent(g, swarm.TorOpts{})
			st := &tstate{tr: tr, access: make([]time.Time, g.NumPieces())}
			for p := 0; p < g.NumPieces(); p++ {
				// first access: demanded while missing, then it arrives
				tr.T.Request(uint32(p), 1, true, false)
				st.access[p] = time.Now()
				tr.Prefill([]int{p})
				tr.T.Have(uint32(p), true)
				tr.T.Request(uint32(p), 1, false, false)
				time.Sleep(time.Duration(1+rng.IntN(20)) * time.Second)
			}
			ts = append(ts, st)
		}
		sw.Cut()
		// re-reads
		for k := 0; k < 2+rng.IntN(8); k++ {
			st := ts[rng.IntN(len(ts))]
			p := rng.IntN(len(st.access))
			if !st.tr.T.Pieces.Complete(uint32(p)) {
				continue
			}
			st.tr.T.Request(uint32(p), 1, true, false)
			st.tr.T.Request(uint32(p), 1, false, false)
			st.access[p] = time.Now()
			sw.Act("re-read piece %d of %s", p, st.tr.Geo.Name)
			c.Count("rereads_of_complete_pieces", 1)
			time.Sleep(time.Duration(1+rng.IntN(60)) * time.Second)
		}
		sw.Cut()
		before := map[*tstate][]bool{}
		for _, st := range ts {
			b := make([]bool, len(st.access))
			for p := range b {
				b[p] = st.tr.T.Pieces.Complete(uint32(p))
			}
			before[st] = b
		}
		used := alloc.Bytes() - base
		config.MemoryMark = base + used*int64(1+rng.IntN(3))/4
		defer func() { config.MemoryMark = 1 << 40 }()
		rc := tor.Expire()
		sw.Cut()
		time.Sleep(time.Second)
		sw.Cut()
		c.Count("lru_rounds", 1)
		c.Count(fmt.Sprintf("expire_rc:%d", rc), 1)
		for _, st := range ts {
			for e := range st.access {
				if !before[st][e] || st.tr.T.Pieces.Complete(uint32(e)) {
					continue // not evicted
				}
				c.Count("lru_evictions_judged", 1)
				for s := range st.access {
					if s != e && before[st][s] && st.tr.T.Pieces.Complete(uint32(s)) && st.access[s].Before(st.access[e]) {
						sw.Viol("C03", "order", "survivor-older-than-evicted through-request", fmt.Sprintf("%s: piece %d (last asked for %v ago) was evicted while piece %d (last asked for %v ago) stays", st.tr.Geo.Name, e, time.Since(st.access[e]), s, time.Since(st.access[s])))
						return
					}
				}
			}
		}
	})
}

// runDying: one torrent is in the middle of its deletion when the global pass runs: its loop has stopped
// (every call on it fails), it is still in the table, and it still holds memory because Pieces.Del waits for
// a piece that is being hashed. The pass must still do its work on the torrents that live: together they
// end up at or below the low mark (they hold nothing busy).
func runDying(t *testing.T, c *vk.C, rng *rand.Rand) {
	swarm.Run(t, c, "C03", func(sw *swarm.Swarm) {
		base := alloc.Bytes()
		var live []*swarm.Tor
		n := 2 + rng.IntN(4)
		for k := 0; k < n; k++ {
			g := fixture.RandGeo(rng, 1<<20, []uint32{64 << 10, 128 << 10, 256 << 10})
			g.Name = fmt.Sprintf("live%d", k)
			tr := sw.AddTorrent(g, swarm.TorOpts{})
			var all []int
			for p := 0; p < g.NumPieces(); p++ {
				all = append(all, p)
			}
			tr.Prefill(all)
			for _, p := range all {
				tr.T.Pieces.UpdateTime(uint32(p))
			}
			live = append(live, tr)
		}
		ga := &fixture.Geo{Name: "dying", PieceLen: 128 << 10, Length: 128 << 10, Seed: rng.Uint64() | 1}
		a := sw.AddTorrent(ga, swarm.TorOpts{})
		for b := 0; b < ga.BlocksIn(0); b++ {
			a.T.Pieces.AddData(0, uint32(b*fixture.Block), ga.Truth(int64(b*fixture.Block), ga.BlockLen(0, b)), 0)
		}
		rel := make(chan struct{})
		verifhook.SetPoint(func(name string) {
			if name == "piece.finalise.hash.begin" {
				<-rel
			}
		})
		defer verifhook.SetPoint(nil)
		finDone := make(chan struct{})
		go func() {
			defer close(finDone)
			a.T.Pieces.Finalise(0, hash.Hash(ga.PieceHash(0)))
		}()
		sw.Cut()
		killDone := make(chan struct{})
		go func() { defer close(killDone); a.Kill() }()
		sw.Cut()
		time.Sleep(100 * time.Millisecond)
		sw.Cut()
		select {
		case <-a.T.Done:
		default:
			close(rel)
			<-finDone
			<-killDone
			c.Inconclusive("the dying torrent's loop has not stopped")
			return
		}
		used := alloc.Bytes() - base
		config.MemoryMark = base + used/2
		low := config.MemoryLowMark()
		rc := tor.Expire()
		sw.Cut()
		time.Sleep(time.Second)
		sw.Cut()
		config.MemoryMark = 1 << 40
		c.Count("dying_rounds", 1)
		c.Count(fmt.Sprintf("expire_rc:%d", rc), 1)
		var sum int64
		evictable := false
		for _, tr := range live {
			sum += tr.T.Pieces.Bytes()
			if tr.T.Pieces.Count() > 0 {
				evictable = true
			}
		}
		stillDying := tor.Get(a.T.Hash) != nil
		if stillDying {
			c.Count("dying_torrent_still_listed_during_pass", 1)
		}
		if rc < 0 && base+sum > low && evictable {
			sw.Viol("C03", "low-mark", "tor-expire-skips-live-torrents dying-torrent-in-table", fmt.Sprintf("after an eviction round the %d live torrents hold %d bytes (low mark %d above a baseline of %d) and have evictable pieces; a torrent in the middle of its deletion was in the table", len(live), sum, low-base, base))
		}
		close(rel)
		<-finDone
		<-killDone
		sw.Cut()
	})
}

func TestCheck(t *testing.T) {
	r := vk.New("C03")
	defer r.Done()
	var cases []scen
	for _, n := range []int{1, 2, 3, 4} {
		for _, mark := range []string{"zero", "tiny", "half", "just-below", "equal", "above"} {
			for _, hook := range []string{"tor.expire.sampled", "tor.expire.walked"} {
				for _, v := range []string{"none", "all", "big", "all-but-one", "evict-big"} {
					cases = append(cases, scen{n, mark, hook, v})
				}
			}
		}
	}
	reps := r.Env.N(2, 40)
	idx := 0
	for rep := 0; rep < reps; rep++ {
		for _, sc := range cases {
			i := idx
			idx++
			if !r.Mine(i) {
				continue
			}
			c := r.Begin(i, sc)
			run(t, c, sc, r.Env.Rng(i))
			c.FP(vk.Hash64(sc.Torrents, sc.Mark, sc.Hook, sc.Victims), sc.Victims != "none")
			c.End()
		}
	}
	// least-recently-accessed order with access times made through Torrent.Request
	for k := 0; k < r.Env.N(150, 5000); k++ {
		i := idx
		idx++
		if !r.Mine(i) {
			continue
		}
		c := r.Begin(i, map[string]any{"family": "lru-through-request", "k": k})
		runLRU(t, c, r.Env.Rng(i))
		c.FP(vk.Hash64("lru-through-request", k%50), true)
		c.End()
	}
	// a torrent in the middle of its deletion during the global pass
	for k := 0; k < r.Env.N(120, 3000); k++ {
		i := idx
		idx++
		if !r.Mine(i) {
			continue
		}
		c := r.Begin(i, map[string]any{"family": "dying-torrent-during-pass", "k": k})
		runDying(t, c, r.Env.Rng(i))
		c.FP(vk.Hash64("dying", k%40), true)
		c.End()
	}
	// zero torrents at all
	{
		i := idx
		if r.Mine(i) {
			c := r.Begin(i, map[string]any{"torrents": 0})
			for _, mark := range []int64{0, 1, 1 << 20} {
				config.MemoryMark = mark
				tor.Expire()
			}
			config.MemoryMark = 1 << 40
			c.FP("zero-torrents", true)
			c.End()
		}
	}
	r.Finish()
}
