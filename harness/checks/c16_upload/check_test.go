// C16: upload and choking discipline.
package c16

import (
	"os"
	"testing"

	"verifharness/swarm"
	"verifharness/vk"
)

func TestCheck(t *testing.T) {
	prop := os.Getenv("VERIF_PROP")
	if prop == "" {
		prop = "C16"
	}
	r := vk.New(prop)
	defer r.Done()
	n := r.Env.N(1200, 30000)
	if os.Getenv("VERIF_RACE_SUBSET") != "" {
		n = r.Env.N(300, 3000)
	}
	for i := 0; i < n; i++ {
		if !r.Mine(i) {
			continue
		}
		rng := r.Env.Rng(i)
		d := map[string]any{"workload": "upload"}
		c := r.Begin(i, d)
		var stats map[string]int
		swarm.Run(t, c, prop, func(sw *swarm.Swarm) {
			var tr *swarm.Tor
			tr, stats = swarm.RunUpload(sw, rng)
			d["geo"] = tr.Geo.Desc()
		})
		for k, v := range stats {
			c.Count(k, int64(v))
		}
		c.FP(swarm.ClassOf(stats, "request", "flood", "cancel", "dup-request", "congest", "disconnect", "evict", "interest-flap", "unchoked_at_kill", "recv:piece", "recv:reject", "recv:choke"), stats["recv:piece"] > 0 && stats["request"] > 0)
		c.End()
	}
	r.Finish()
}
