// C07: handshakes agree and do not depend on TCP segmentation.
//
// Engine E4: storrent's protocol.ServerHandshake / protocol.ClientHandshake on
// one end of a net.Pipe, the independent refwire handshake (plain BT and MSE)
// on the other.  Every Write of the harness is delivered to storrent's Reads
// as one segment (a Read returns at most the rest of the current Write), so
// the cut positions chosen here are exactly the segmentation storrent sees.
// Each handshake runs in a testing/synctest bubble: storrent's own 30 s / 90 s
// deadlines run on the fake clock, so a handshake that waits for bytes that
// never come ends at its virtual deadline.
//
// Oracle, per logical exchange (role, kind, options, hash, ids, reserved bits,
// pads, IA length, early data): the outcome tuple
//
//	(ok | fail, info-hash, peer id, dht/fast/extended, cipher mode,
//	 bytes readable through io.MultiReader(bytes.NewReader(init), conn))
//
// must equal the tuple the specification prescribes for the exchange, for
// every segmentation; what storrent sent must decode (by refwire) to the hash
// and id storrent was given; storrent<->storrent through a re-segmenting relay
// must agree end to end.
package c07

import (
	"bytes"
	"crypto/sha1"
	"encoding/binary"
	"fmt"
	"io"
	"math/rand/v2"
	"net"
	"os"
	"sort"
	"strings"
	"sync"
	"testing"
	"testing/synctest"
	"time"

	"github.com/jech/storrent/crypto"
	"github.com/jech/storrent/hash"
	"github.com/jech/storrent/protocol"
	"verifharness/refwire"
	"verifharness/vk"
)

var realNow = time.Now()

// VERIF_C07_TRACE=1 prints one line per run (debugging aid for replays).
var trace = os.Getenv("VERIF_C07_TRACE") != ""

func h20(label string) []byte {
	s := sha1.Sum([]byte(label))
	return s[:]
}

var (
	infoHash  = h20("C07 info-hash")
	otherHash = h20("C07 some other torrent")
	stID      = []byte("-ST0000-storrentside")
	hnID      = []byte("-RW0000-harness-side")
)

// ---- logical exchange -------------------------------------------------------

const (
	roleServer = "server" // storrent is the server, refwire the client
	roleClient = "client" // storrent is the client, refwire the server
	kindPlain  = "plain"
	kindMSE    = "mse"
)

// optSets: storrent option sets under which a handshake can succeed.
var optSets = []struct {
	Name string
	O    crypto.Options
}{
	{"allow", crypto.Options{AllowCryptoHandshake: true, AllowEncryption: true}},
	{"prefer", crypto.Options{AllowCryptoHandshake: true, PreferCryptoHandshake: true, AllowEncryption: true, PreferEncryption: true}},
	{"force", crypto.Options{AllowCryptoHandshake: true, PreferCryptoHandshake: true, ForceCryptoHandshake: true, AllowEncryption: true, PreferEncryption: true, ForceEncryption: true}},
	{"noenc", crypto.Options{AllowCryptoHandshake: true}},
}

type exch struct {
	Role    string `json:"role"`
	Kind    string `json:"kind"`
	Opt     int    `json:"storrent_options"`
	Pad1    int    `json:"pad1"` // PadA (role server) / PadB (role client)
	Pad2    int    `json:"pad2"` // PadC (role server) / PadD (role client)
	IA      int    `json:"ia_len"`
	Early   int    `json:"early_bytes"`
	Provide uint32 `json:"crypto_provide"` // sent by the harness (role server)
	Select  uint32 `json:"crypto_select"`  // sent by the harness (role client)
	Rsv     string `json:"reserved_hex"`
	Neg     string `json:"negative,omitempty"` // "" = the exchange must succeed
	Salt    uint64 `json:"salt"`
}

func (e *exch) label() string { return e.Kind + "-" + e.Role }

func (e *exch) rsv() [8]byte {
	var r [8]byte
	fmt.Sscanf(e.Rsv, "%02x%02x%02x%02x%02x%02x%02x%02x", &r[0], &r[1], &r[2], &r[3], &r[4], &r[5], &r[6], &r[7])
	return r
}

// early returns n bytes of a counter pattern: big-endian 32-bit words
// 0xC7000000+j, so loss, duplication and reordering all show.
func early(n int) []byte {
	b := make([]byte, 0, n+4)
	for j := uint32(0); len(b) < n; j++ {
		b = binary.BigEndian.AppendUint32(b, 0xC7000000+j)
	}
	return b[:n]
}

// stepLens: lengths of the harness->storrent steps (a step boundary is a point
// where the harness has to wait for storrent's bytes before it can continue).
func (e *exch) stepLens() []int {
	switch {
	case e.Kind == kindPlain:
		return []int{68 + e.Early}
	case e.Role == roleServer:
		return []int{96 + e.Pad1, 56 + e.Pad2 + e.IA, 68 + e.Early - e.IA}
	default:
		return []int{96 + e.Pad1, 14 + e.Pad2 + 68 + e.Early}
	}
}

func (e *exch) total() int {
	t := 0
	for _, l := range e.stepLens() {
		t += l
	}
	return t
}

// hsEnd: offset in the stream at which the handshake proper ends (early data after it).
func (e *exch) hsEnd() int { return e.total() - e.Early }

func (e *exch) boundary(pos int) bool {
	o := 0
	for _, l := range e.stepLens() {
		o += l
		if pos == o {
			return true
		}
	}
	return pos <= 0 || pos >= e.total()
}

// ---- one run ----------------------------------------------------------------

type result struct {
	OK            bool
	Err           string
	Hash, ID      []byte
	Dht, Fast, Ex bool
	Cipher        bool
	Data          []byte
	ReadErr       string
	Peer          string // what the harness, as the remote peer, found wrong in storrent's bytes
	Select        uint32
	Provide       uint32
	Writes        int
	Virt          time.Duration
}

type hrun struct {
	conn  net.Conn
	mu    sync.Mutex
	cond  *sync.Cond
	rbuf  []byte
	rdone bool
	// segmented writer
	cuts   []int
	ci     int
	off    int
	writes int
	gate   int // offset of the harness's stream at which it waits for storrent's BT handshake before going on
	gated  bool
}

func (h *hrun) drain() {
	buf := make([]byte, 1<<16)
	for {
		n, err := h.conn.Read(buf)
		h.mu.Lock()
		h.rbuf = append(h.rbuf, buf[:n]...)
		if err != nil {
			h.rdone = true
		}
		h.cond.Broadcast()
		h.mu.Unlock()
		if err != nil {
			return
		}
	}
}

// waitFor blocks until pred holds on everything received so far, or the
// connection is finished.
func (h *hrun) waitFor(pred func(b []byte) bool) bool {
	h.mu.Lock()
	defer h.mu.Unlock()
	for {
		if pred(h.rbuf) {
			return true
		}
		if h.rdone {
			return false
		}
		h.cond.Wait()
	}
}

func (h *hrun) received() []byte {
	h.mu.Lock()
	defer h.mu.Unlock()
	return append([]byte(nil), h.rbuf...)
}

// write sends b cut at the global cut positions.
func (h *hrun) write(b []byte) error {
	for len(b) > 0 {
		n := len(b)
		if h.gate > 0 && h.off == h.gate && !h.gated {
			// a peer that keeps its id to itself until it has seen the other side's answer to the info-hash
			h.gated = true
			if !h.waitFor(func(r []byte) bool { return len(r) >= 68 }) {
				return io.ErrClosedPipe
			}
		}
		if h.gate > 0 && h.off < h.gate && h.off+n > h.gate {
			n = h.gate - h.off
		}
		for h.ci < len(h.cuts) && h.cuts[h.ci] <= h.off {
			h.ci++
		}
		if h.ci < len(h.cuts) && h.cuts[h.ci] < h.off+n {
			n = h.cuts[h.ci] - h.off
		}
		_, err := h.conn.Write(b[:n])
		h.writes++
		if err != nil {
			return err
		}
		h.off += n
		b = b[n:]
	}
	return nil
}

func randBytes(rng *rand.Rand, n int) []byte {
	b := make([]byte, n)
	for i := range b {
		b[i] = byte(rng.Uint32())
	}
	return b
}

type eofConn struct {
	net.Conn
	total, got int
}

func (c *eofConn) Read(p []byte) (int, error) {
	n, err := c.Conn.Read(p)
	c.got += n
	if err == nil && n > 0 && c.got >= c.total {
		return n, io.EOF
	}
	return n, err
}

// runOne plays one logical exchange with one segmentation.  Must be called
// inside a bubble.
func runOne(e *exch, cuts []int, eofWithData ...bool) *result {
	gate := len(eofWithData) > 1 && eofWithData[1]
	res := &result{}
	rng := rand.New(rand.NewPCG(e.Salt, 0xC07))
	t0 := time.Now()
	sc0, hc := net.Pipe() // storrent end, harness end
	var sc net.Conn = sc0
	if len(eofWithData) > 0 && eofWithData[0] {
		// the transport reports the end of the stream together with its last bytes (a Read may return n > 0 and
		// io.EOF at once; kernel TCP does not, wrapped and in-memory transports do)
		sc = &eofConn{Conn: sc0, total: e.total()}
	}
	h := &hrun{conn: hc, cuts: cuts}
	if gate {
		h.gate = 48
	}
	h.cond = sync.NewCond(&h.mu)
	opts := optSets[e.Opt].O

	var wg sync.WaitGroup
	hsDone := make(chan struct{})
	wg.Add(2)
	go func() { defer wg.Done(); h.drain() }()
	go func() {
		defer wg.Done()
		var c net.Conn
		var r protocol.HandshakeResult
		var init []byte
		var err error
		if e.Role == roleServer {
			c, r, init, err = protocol.ServerHandshake(sc, []hash.HashPair{{First: hash.Hash(infoHash), Second: hash.Hash(stID)}}, &opts)
		} else {
			c, r, init, err = protocol.ClientHandshake(sc, e.Kind == kindMSE, hash.Hash(infoHash), hash.Hash(stID), &opts)
		}
		if err != nil {
			res.Err = err.Error()
			sc.Close()
			close(hsDone)
			return
		}
		res.OK = true
		res.Hash, res.ID = r.Hash, r.Id
		res.Dht, res.Fast, res.Ex = r.Dht, r.Fast, r.Extended
		_, res.Cipher = c.(*crypto.Conn)
		close(hsDone)
		c.SetDeadline(time.Time{})
		// exactly what protocol.Reader does with init
		data, rerr := io.ReadAll(io.MultiReader(bytes.NewReader(init), c))
		res.Data = data
		if rerr != nil {
			res.ReadErr = rerr.Error()
		}
		sc.Close()
	}()

	post := script(e, h, res, rng)

	<-hsDone
	synctest.Wait()
	hc.Close()
	wg.Wait()
	if post != nil && res.OK && res.Peer == "" {
		post()
	}
	res.Writes = h.writes
	res.Virt = time.Since(t0)
	return res
}

// script is the harness side of the exchange.  The returned function (if any)
// inspects what storrent sent, once everything has stopped.
func script(e *exch, h *hrun, res *result, rng *rand.Rand) (post func()) {
	E := early(e.Early)
	useHash := infoHash
	if e.Neg == "unknown-hash" || e.Neg == "wrong-hash" {
		useHash = otherHash
	}
	myHS := refwire.BTHandshake(e.rsv(), useHash, hnID)
	if e.Neg == "bad-proto" {
		myHS[5] ^= 0x20
	}
	checkPeerHS := func(b []byte) {
		hello, err := refwire.ParseBTHandshake(b)
		if err != nil {
			res.Peer = "storrent's handshake: " + err.Error()
		} else if !bytes.Equal(hello.InfoHash, infoHash) {
			res.Peer = fmt.Sprintf("storrent's handshake carries info-hash %x", hello.InfoHash)
		} else if !bytes.Equal(hello.PeerID, stID) {
			res.Peer = fmt.Sprintf("storrent's handshake carries peer id %x", hello.PeerID)
		} else if len(b) != 68 {
			res.Peer = fmt.Sprintf("storrent sent %d bytes where its 68-byte handshake was expected", len(b))
		}
	}
	priv := refwire.MSEPrivate(randBytes(rng, 20))

	switch {
	case e.Role == roleServer && e.Kind == kindPlain:
		// storrent replies after it has seen the hash; inspected at the end
		post = func() { checkPeerHS(h.received()) }
		if h.write(append(append([]byte(nil), myHS...), E...)) != nil {
			return
		}

	case e.Role == roleServer && e.Kind == kindMSE:
		A := append(append([]byte(nil), myHS...), E...)
		ini := &refwire.MSEInitiator{
			Priv: priv, SKey: infoHash,
			PadA: randBytes(rng, e.Pad1), PadC: randBytes(rng, e.Pad2),
			Provide: e.Provide, IA: A[:e.IA],
		}
		if e.Neg == "unknown-skey" {
			ini.SKey = otherHash
		}
		if e.Neg == "bad-vc" {
			ini.VC = []byte{0, 0, 0, 0, 0, 0, 0, 1}
		}
		if h.write(ini.Step1()) != nil {
			return
		}
		if !h.waitFor(func(b []byte) bool { return len(b) >= 96 }) {
			return
		}
		ini.SetPeerKey(h.received()[:96])
		if h.write(ini.Step3()) != nil {
			return
		}
		var p int
		var perr error
		if !h.waitFor(func(b []byte) bool {
			if len(b) < 96 {
				return false
			}
			n, err := ini.ParseStep4(b[96:])
			if err == refwire.ErrMSEShort {
				return false
			}
			p, perr = n, err
			return true
		}) {
			return
		}
		if perr != nil {
			res.Peer = "storrent's step 4: " + perr.Error()
			return
		}
		res.Select = ini.Select
		if ini.Select != refwire.CryptoPlaintext && ini.Select != refwire.CryptoRC4 {
			res.Peer = fmt.Sprintf("storrent's crypto_select = %#x", ini.Select)
			return
		}
		if ini.Select&e.Provide == 0 {
			res.Peer = fmt.Sprintf("storrent selected %#x, offered %#x", ini.Select, e.Provide)
			return
		}
		rc4 := ini.Select == refwire.CryptoRC4
		P := A[e.IA:]
		if rc4 {
			P = ini.Out.Apply(P)
		}
		post = func() {
			pay := h.received()[96+p:]
			if rc4 {
				pay = ini.In.Apply(pay)
			}
			checkPeerHS(pay)
		}
		if h.write(P) != nil {
			return
		}

	case e.Role == roleClient && e.Kind == kindPlain:
		if !h.waitFor(func(b []byte) bool { return len(b) >= 68 }) {
			return
		}
		checkPeerHS(h.received())
		if res.Peer != "" {
			return
		}
		h.write(append(append([]byte(nil), myHS...), E...))

	case e.Role == roleClient && e.Kind == kindMSE:
		rsp := &refwire.MSEResponder{
			Priv: priv, SKeys: [][]byte{otherHash, infoHash},
			PadB: randBytes(rng, e.Pad1), PadD: randBytes(rng, e.Pad2),
			Select: e.Select,
		}
		if e.Neg == "bad-vc" {
			rsp.VC = []byte{0, 0, 0, 0, 0, 0, 0, 1}
		}
		if !h.waitFor(func(b []byte) bool { return len(b) >= 96 }) {
			return
		}
		rsp.SetPeerKey(h.received()[:96])
		if h.write(rsp.Step2()) != nil {
			return
		}
		var perr error
		if !h.waitFor(func(b []byte) bool {
			if len(b) < 96 {
				return false
			}
			_, err := rsp.ParseStep3(b[96:])
			if err == refwire.ErrMSEShort {
				return false
			}
			perr = err
			return true
		}) {
			return
		}
		if perr != nil {
			res.Peer = "storrent's step 3: " + perr.Error()
			return
		}
		res.Provide = rsp.Provide
		if !bytes.Equal(rsp.SKey, infoHash) {
			res.Peer = "storrent's step 3 names another SKEY"
			return
		}
		checkPeerHS(rsp.IA)
		if res.Peer != "" {
			return
		}
		s4 := rsp.Step4()
		pay := append(append([]byte(nil), myHS...), E...)
		if e.Select&refwire.CryptoRC4 != 0 {
			pay = rsp.Out.Apply(pay)
		}
		h.write(append(s4, pay...))
	}
	return
}

// ---- oracle -----------------------------------------------------------------

// diff compares a run with what the specification prescribes for the
// exchange; "" = as prescribed.
func diff(e *exch, g *result) (class, detail string) {
	wantOK := e.Neg == ""
	if !wantOK {
		if g.OK {
			return "fail->ok", fmt.Sprintf("exchange with %q must be refused, storrent reported success", e.Neg)
		}
		return "", ""
	}
	if g.Peer != "" {
		return "peer-view", g.Peer
	}
	if !g.OK {
		return "ok->fail", "conformant exchange must succeed, storrent returned: " + g.Err
	}
	if !bytes.Equal(g.Hash, infoHash) {
		return "hash", fmt.Sprintf("result.Hash=%x want %x", g.Hash, infoHash)
	}
	if !bytes.Equal(g.ID, hnID) {
		return "peer-id", fmt.Sprintf("result.Id=%x want %x", g.ID, hnID)
	}
	r := refwire.BTHello{Reserved: e.rsv()}
	if g.Dht != r.Dht() || g.Fast != r.Fast() || g.Ex != r.Extended() {
		return "bits", fmt.Sprintf("dht/fast/extended=%v/%v/%v, reserved bytes %s prescribe %v/%v/%v", g.Dht, g.Fast, g.Ex, e.Rsv, r.Dht(), r.Fast(), r.Extended())
	}
	wantCipher := false
	if e.Kind == kindMSE {
		if e.Role == roleServer {
			wantCipher = g.Select == refwire.CryptoRC4
			if e.Provide&3 == refwire.CryptoRC4 && !wantCipher || e.Provide&3 == refwire.CryptoPlaintext && wantCipher {
				return "cipher-mode", fmt.Sprintf("crypto_provide=%#x, storrent selected %#x", e.Provide, g.Select)
			}
		} else {
			wantCipher = e.Select == refwire.CryptoRC4
		}
	}
	if g.Cipher != wantCipher {
		return "cipher-mode", fmt.Sprintf("returned conn is *crypto.Conn: %v, negotiated RC4: %v", g.Cipher, wantCipher)
	}
	want := early(e.Early)
	if !bytes.Equal(g.Data, want) {
		i := 0
		for i < len(g.Data) && i < len(want) && g.Data[i] == want[i] {
			i++
		}
		return "early-data", fmt.Sprintf("message layer would read %d bytes, %d were sent; first difference at offset %d (got % x, sent % x); read error %q",
			len(g.Data), len(want), i, clip(g.Data[min(i, len(g.Data)):], 12), clip(want[min(i, len(want)):], 12), g.ReadErr)
	}
	return "", ""
}

func clip(b []byte, n int) []byte {
	if len(b) > n {
		return b[:n]
	}
	return b
}

func cutsDesc(cuts []int) any {
	if len(cuts) > 40 {
		return fmt.Sprintf("%d cuts: %v ... %v", len(cuts), cuts[:10], cuts[len(cuts)-3:])
	}
	return cuts
}

// errClass keeps the stable part of storrent's error text.
func errClass(s string) string {
	switch {
	case s == "":
		return "none"
	case strings.Contains(s, "timeout") || strings.Contains(s, "deadline"):
		return "timeout"
	case strings.Contains(s, "EOF"):
		return "eof"
	case strings.Contains(s, "closed pipe"):
		return "closed"
	}
	return s
}

// judge runs a family of segmentations of one exchange against the baseline
// (one write per step) and reports.
type seg struct {
	Family string
	Cuts   []int
	EOF    bool // the last bytes of the stream and its end are reported by one Read
	Gate   bool // plain handshake, storrent is the server: the peer sends its id only after it has read storrent's handshake
}

func judge(c *vk.C, e *exch, segs []seg) {
	base := runOne(e, nil)
	account(c, e, "one-write", base)
	bclass, bdetail := diff(e, base)
	reported := map[string]bool{}
	if bclass != "" {
		sig := "spec-mismatch " + e.label() + " " + bclass
		reported[sig] = true
		c.Violation("spec-mismatch", sig, fmt.Sprintf("one write per step: %s", bdetail),
			map[string]any{"cuts": []int{}, "storrent_error": base.Err, "steps": e.stepLens()})
	}
	for _, s := range segs {
		g := runOne(e, s.Cuts, s.EOF, s.Gate)
		account(c, e, s.Family, g)
		class, detail := diff(e, g)
		if trace {
			fmt.Fprintf(os.Stderr, "TRACE case=%d %s pads=%d/%d ia=%d early=%d cuts=%v -> ok=%v err=%q diff=%q\n", c.Index, e.label(), e.Pad1, e.Pad2, e.IA, e.Early, cutsDesc(s.Cuts), g.OK, g.Err, class)
		}
		if class == "" {
			if splitsStep3(e, s.Cuts) {
				c.Count("step3_split_runs_as_prescribed", 1)
			}
			continue
		}
		c.Count("violating_runs", 1)
		if class == bclass {
			continue // same departure from the specification as the baseline: already reported
		}
		kind := "seg-dependent"
		sig := kind + " " + e.label() + " " + class
		if splitsStep3(e, s.Cuts) {
			// input class: the client's step 3 does not reach the MSE server in one piece
			sig = kind + " mse-server step3-split"
			c.Count("violating_runs:step3-split", 1)
		}
		if reported[sig] {
			continue
		}
		reported[sig] = true
		bs := "as prescribed"
		if bclass != "" {
			bs = bclass
		}
		c.Violation(kind, sig,
			fmt.Sprintf("same byte streams, different outcome: one write per step -> %s; cut at %v (%s) -> %s [storrent error class %q]. Stream layout: steps %v, handshake ends at %d.",
				bs, cutsDesc(s.Cuts), s.Family, detail, errClass(g.Err), e.stepLens(), e.hsEnd()),
			map[string]any{"cuts": cutsDesc(s.Cuts), "family": s.Family, "storrent_error": g.Err, "baseline_error": base.Err, "steps": e.stepLens()})
	}
}

// splitsStep3: the storrent MSE server receives the part of the client's step 3
// that lies between the end of HASH('req1',S) and the end of len(IA) in more
// than one segment (a segment boundary at step-3 offset 20 .. 55+len(PadC)).
func splitsStep3(e *exch, cuts []int) bool {
	if e.Role != roleServer || e.Kind != kindMSE {
		return false
	}
	s3 := 96 + e.Pad1
	for _, p := range cuts {
		if p >= s3+20 && p <= s3+55+e.Pad2 {
			return true
		}
	}
	return false
}

func account(c *vk.C, e *exch, family string, g *result) {
	c.Count("handshakes", 1)
	c.Count("handshakes:"+e.label(), 1)
	c.Count("seg:"+family, 1)
	if g.OK {
		c.Count("ok", 1)
		c.Count("early_bytes_compared", int64(len(g.Data)))
		if g.Cipher {
			c.Count("ok_rc4", 1)
		}
	} else {
		c.Count("refused", 1)
	}
	c.R.Max("max:writes_in_one_handshake", int64(g.Writes))
	c.R.Max("max:virtual_ms_one_handshake", g.Virt.Milliseconds())
}

// ---- segmentation families --------------------------------------------------

func bytewise(e *exch) []int {
	lim := e.total()
	if lim > e.hsEnd()+300 {
		lim = e.hsEnd() + 300
	}
	cuts := make([]int, 0, lim)
	for p := 1; p < lim; p++ {
		cuts = append(cuts, p)
	}
	return cuts
}

func multicut(rng *rand.Rand, e *exch) []int {
	n := 2 + rng.IntN(11)
	set := map[int]bool{}
	tot := e.total()
	near := e.hsEnd() + 64
	if near > tot {
		near = tot
	}
	for k := 0; k < n; k++ {
		var p int
		if rng.IntN(5) != 0 {
			p = 1 + rng.IntN(max(1, near-1))
		} else {
			p = 1 + rng.IntN(max(1, tot-1))
		}
		set[p] = true
	}
	cuts := make([]int, 0, len(set))
	for p := range set {
		cuts = append(cuts, p)
	}
	sort.Ints(cuts)
	return cuts
}

// singleCuts: the cut positions worth a run of their own (all of them, except
// in the bulk of a very long early-data tail where a sample is taken).
func singleCuts(e *exch) []int {
	var out []int
	tot := e.total()
	dense := e.hsEnd() + 300
	for p := 1; p < tot; p++ {
		if e.boundary(p) {
			continue
		}
		if p > dense && p < tot-8 && p%4099 != 0 {
			continue
		}
		out = append(out, p)
	}
	return out
}

// ---- case lists -------------------------------------------------------------

var padVals = []int{0, 1, 2, 255, 511, 512}

func rsvFor(k int) string {
	// cycle through the eight combinations of the three capability bits, with noise in unrelated bits
	var r [8]byte
	if k&1 != 0 {
		r[7] |= 0x01
	}
	if k&2 != 0 {
		r[7] |= 0x04
	}
	if k&4 != 0 {
		r[5] |= 0x10
	}
	if k&8 != 0 {
		r[0] |= 0x80
		r[7] |= 0x02
		r[5] |= 0x01
	}
	return fmt.Sprintf("%x", r[:])
}

type job struct {
	E      exch
	Family string // "base" (one-write + byte-at-a-time + PRNG multicuts) | "cuts"
	Cuts   []int  // for "cuts": the single-cut positions of this block
}

const block = 32

func addSweep(jobs *[]job, e exch) {
	e.Salt = uint64(len(*jobs))*0x9E3779B97F4A7C15 + 1
	*jobs = append(*jobs, job{E: e, Family: "base"})
	sc := singleCuts(&e)
	for i := 0; i < len(sc); i += block {
		j := i + block
		if j > len(sc) {
			j = len(sc)
		}
		*jobs = append(*jobs, job{E: e, Family: "cuts", Cuts: sc[i:j]})
	}
}

func sweepJobs(tier string) []job {
	var jobs []job
	k := 0
	next := func() string { k++; return rsvFor(k) }
	if tier != "thorough" {
		for _, role := range []string{roleServer, roleClient} {
			for _, ed := range []int{0, 1, 100, 300} {
				addSweep(&jobs, exch{Role: role, Kind: kindPlain, Early: ed, Rsv: next()})
			}
		}
		// every pair of the listed pad lengths, IA = handshake + 32 early bytes, RC4
		for _, p1 := range padVals {
			for _, p2 := range padVals {
				addSweep(&jobs, exch{Role: roleServer, Kind: kindMSE, Pad1: p1, Pad2: p2, IA: 68 + 32, Early: 100, Provide: 2, Rsv: next()})
				addSweep(&jobs, exch{Role: roleClient, Kind: kindMSE, Pad1: p1, Pad2: p2, Early: 100, Select: 2, Rsv: next()})
			}
		}
		// IA lengths (none, partial handshake, exactly the handshake, handshake + early bytes), both payload modes
		for _, mode := range []uint32{1, 2} {
			for _, ia := range []int{0, 1, 19, 20, 47, 48, 67, 68, 69, 68 + 100} {
				addSweep(&jobs, exch{Role: roleServer, Kind: kindMSE, Pad1: 1, Pad2: 2, IA: ia, Early: 100, Provide: mode, Rsv: next()})
			}
			for _, ed := range []int{0, 1, 100} {
				addSweep(&jobs, exch{Role: roleServer, Kind: kindMSE, Pad1: 2, Pad2: 0, IA: 68, Early: ed, Provide: mode, Rsv: next()})
				addSweep(&jobs, exch{Role: roleClient, Kind: kindMSE, Pad1: 2, Pad2: 1, Early: ed, Select: mode, Rsv: next()})
			}
		}
		// 70 000 early bytes: dense cuts around the handshake, sampled in the bulk
		addSweep(&jobs, exch{Role: roleServer, Kind: kindPlain, Early: 70000, Rsv: next()})
		addSweep(&jobs, exch{Role: roleClient, Kind: kindPlain, Early: 70000, Rsv: next()})
		addSweep(&jobs, exch{Role: roleServer, Kind: kindMSE, Pad1: 1, Pad2: 1, IA: 68 + 1000, Early: 70000, Provide: 2, Rsv: next()})
		addSweep(&jobs, exch{Role: roleClient, Kind: kindMSE, Pad1: 1, Pad2: 1, Early: 70000, Select: 2, Rsv: next()})
		// reserved bits in crypto_provide, other option sets
		addSweep(&jobs, exch{Role: roleServer, Kind: kindMSE, Pad1: 2, Pad2: 0, IA: 68, Early: 1, Provide: 0x80000003, Opt: 1, Rsv: next()})
		addSweep(&jobs, exch{Role: roleServer, Kind: kindMSE, Pad1: 0, Pad2: 2, IA: 68, Early: 1, Provide: 0xfffffffd, Opt: 3, Rsv: next()})
		addSweep(&jobs, exch{Role: roleServer, Kind: kindMSE, Pad1: 0, Pad2: 1, IA: 68, Early: 1, Provide: 3, Opt: 2, Rsv: next()})
		addSweep(&jobs, exch{Role: roleClient, Kind: kindMSE, Pad1: 0, Pad2: 2, Early: 1, Select: 2, Opt: 2, Rsv: next()})
		addSweep(&jobs, exch{Role: roleClient, Kind: kindMSE, Pad1: 0, Pad2: 2, Early: 1, Select: 1, Opt: 3, Rsv: next()})
		return jobs
	}
	// thorough
	for _, role := range []string{roleServer, roleClient} {
		for _, ed := range []int{0, 1, 2, 19, 20, 67, 68, 100, 300, 70000} {
			for _, opt := range []int{0, 3} {
				addSweep(&jobs, exch{Role: role, Kind: kindPlain, Early: ed, Opt: opt, Rsv: next()})
			}
		}
	}
	// every pad pair, IA = handshake + 32, early 100, RC4
	for _, p1 := range padVals {
		for _, p2 := range padVals {
			addSweep(&jobs, exch{Role: roleServer, Kind: kindMSE, Pad1: p1, Pad2: p2, IA: 68 + 32, Early: 100, Provide: 2, Rsv: next()})
			addSweep(&jobs, exch{Role: roleClient, Kind: kindMSE, Pad1: p1, Pad2: p2, Early: 100, Select: 2, Rsv: next()})
		}
	}
	// IA x early sweep (role server), early sweep (role client), both cipher modes, three pad pairs
	for _, pp := range [][2]int{{0, 0}, {1, 2}, {2, 255}, {511, 1}} {
		for _, ed := range []int{0, 1, 100, 70000} {
			for _, mode := range []uint32{1, 2, 3} {
				for _, ia := range []int{0, 1, 19, 20, 47, 48, 67, 68, 69, 68 + 100, 68 + 1000} {
					if ia > 68+ed {
						continue
					}
					if ed == 70000 && !(ia == 0 || ia == 68 || ia == 68+1000) {
						continue
					}
					opt := 0
					if mode == 3 {
						opt = 1
					}
					addSweep(&jobs, exch{Role: roleServer, Kind: kindMSE, Pad1: pp[0], Pad2: pp[1], IA: ia, Early: ed, Provide: mode, Opt: opt, Rsv: next()})
				}
				if mode != 3 {
					addSweep(&jobs, exch{Role: roleClient, Kind: kindMSE, Pad1: pp[0], Pad2: pp[1], Early: ed, Select: mode, Rsv: next()})
				}
			}
		}
	}
	// crypto_provide with reserved high bits; forced options
	for _, pv := range []uint32{0x80000001, 0x80000002, 0xfffffffe, 0x00010003, 0x7ffffffd} {
		for _, opt := range []int{0, 1} {
			addSweep(&jobs, exch{Role: roleServer, Kind: kindMSE, Pad1: 2, Pad2: 1, IA: 68, Early: 100, Provide: pv, Opt: opt, Rsv: next()})
		}
	}
	addSweep(&jobs, exch{Role: roleServer, Kind: kindMSE, Pad1: 1, Pad2: 1, IA: 68, Early: 100, Provide: 3, Opt: 2, Rsv: next()})
	addSweep(&jobs, exch{Role: roleServer, Kind: kindMSE, Pad1: 1, Pad2: 1, IA: 68, Early: 100, Provide: 3, Opt: 3, Rsv: next()})
	addSweep(&jobs, exch{Role: roleClient, Kind: kindMSE, Pad1: 1, Pad2: 1, Early: 100, Select: 2, Opt: 2, Rsv: next()})
	addSweep(&jobs, exch{Role: roleClient, Kind: kindMSE, Pad1: 1, Pad2: 1, Early: 100, Select: 1, Opt: 3, Rsv: next()})
	return jobs
}

var negs = map[string][]string{
	kindPlain + roleServer: {"unknown-hash", "bad-proto"},
	kindPlain + roleClient: {"wrong-hash", "bad-proto"},
	kindMSE + roleServer:   {"unknown-skey", "bad-vc", "provide-none"},
	kindMSE + roleClient:   {"bad-vc", "select-none", "select-unoffered", "wrong-hash"},
}

// randomExch: a PRNG-chosen logical exchange.
func randomExch(rng *rand.Rand) exch {
	e := exch{Salt: rng.Uint64() | 1}
	e.Role = vk.Pick(rng, []string{roleServer, roleClient})
	e.Kind = vk.Pick(rng, []string{kindPlain, kindMSE, kindMSE})
	pad := func() int {
		if rng.IntN(2) == 0 {
			return vk.Pick(rng, padVals)
		}
		return rng.IntN(513)
	}
	e.Rsv = rsvFor(rng.IntN(16))
	e.Early = vk.Pick(rng, []int{0, 1, 100, 100, 1000, rng.IntN(400)})
	if rng.IntN(25) == 0 {
		e.Early = 70000
	}
	if e.Kind == kindPlain {
		e.Opt = vk.Pick(rng, []int{0, 1, 3})
	} else {
		e.Pad1, e.Pad2 = pad(), pad()
		if e.Role == roleServer {
			ias := []int{0, 1, 19, 20, 47, 48, 67, 68, 68 + e.Early, 68 + rng.IntN(e.Early+1), rng.IntN(68)}
			e.IA = vk.Pick(rng, ias)
			if e.IA > 68+e.Early {
				e.IA = 68
			}
			if e.IA > 65535 {
				e.IA = 65535
			}
			e.Opt = rng.IntN(len(optSets))
			var low uint32
			switch e.Opt {
			case 2:
				low = vk.Pick(rng, []uint32{2, 3})
			case 3:
				low = vk.Pick(rng, []uint32{1, 3})
			default:
				low = vk.Pick(rng, []uint32{1, 2, 3})
			}
			e.Provide = low
			if rng.IntN(4) == 0 {
				e.Provide |= rng.Uint32() &^ 3
			}
		} else {
			e.Opt = rng.IntN(len(optSets))
			switch e.Opt {
			case 2:
				e.Select = 2
			case 3:
				e.Select = 1
			default:
				e.Select = vk.Pick(rng, []uint32{1, 2})
			}
		}
	}
	if rng.IntN(8) == 0 {
		e.Neg = vk.Pick(rng, negs[e.Kind+e.Role])
		switch e.Neg {
		case "provide-none":
			e.Provide = vk.Pick(rng, []uint32{0, 4, 0x80000000, 0xfffffffc})
		case "select-none":
			e.Select = vk.Pick(rng, []uint32{0, 4, 0x80000000})
		case "select-unoffered":
			if rng.IntN(2) == 0 {
				e.Opt, e.Select = 2, 1 // storrent forces encryption, offers RC4 only
			} else {
				e.Opt, e.Select = 3, 2 // storrent forbids encryption, offers plaintext only
			}
		}
	}
	return e
}

// ---- storrent <-> storrent through a re-segmenting relay --------------------

type chunkPol struct {
	Name     string
	Coalesce bool // gather everything the source writes until the whole bubble is idle, then forward
	Size     int  // >0 fixed chunk size; 0 = as gathered; <0 = PRNG sizes 1..-Size
}

type relayDir struct {
	mu      sync.Mutex
	cond    *sync.Cond
	q       []byte
	eof     bool
	busy    bool
	tap     []byte
	srcOffs []int // stream offset after each read from the source (= the source's own writes)
	dstOffs []int // stream offset after each forwarded chunk
	sent    int
	chunks  int
	pol     chunkPol
	rng     *rand.Rand
	src     net.Conn
	dst     net.Conn
}

func (d *relayDir) reader() {
	buf := make([]byte, 1<<16)
	for {
		n, err := d.src.Read(buf)
		d.mu.Lock()
		d.q = append(d.q, buf[:n]...)
		d.tap = append(d.tap, buf[:n]...)
		if n > 0 {
			d.srcOffs = append(d.srcOffs, len(d.tap))
		}
		if err != nil {
			d.eof = true
		}
		d.cond.Broadcast()
		d.mu.Unlock()
		if err != nil {
			return
		}
	}
}

func (d *relayDir) writer() {
	for {
		d.mu.Lock()
		for len(d.q) == 0 && !d.eof {
			d.cond.Wait()
		}
		if len(d.q) == 0 {
			d.mu.Unlock()
			d.dst.Close()
			return
		}
		d.busy = true
		d.mu.Unlock()
		if d.pol.Coalesce {
			time.Sleep(time.Millisecond) // virtual: elapses only when every goroutine is blocked
		}
		d.mu.Lock()
		data := d.q
		d.q = nil
		d.mu.Unlock()
		for len(data) > 0 {
			n := len(data)
			switch {
			case d.pol.Size > 0 && d.pol.Size < n:
				n = d.pol.Size
			case d.pol.Size < 0:
				n = 1 + d.rng.IntN(min(n, -d.pol.Size))
			}
			_, err := d.dst.Write(data[:n])
			d.chunks++
			d.sent += n
			d.dstOffs = append(d.dstOffs, d.sent)
			if err != nil {
				d.mu.Lock()
				d.busy = false
				d.mu.Unlock()
				return
			}
			data = data[n:]
		}
		d.mu.Lock()
		d.busy = false
		d.mu.Unlock()
	}
}

func (d *relayDir) idle() bool {
	d.mu.Lock()
	defer d.mu.Unlock()
	return len(d.q) == 0 && !d.busy
}

type endResult struct {
	OK            bool
	Err           string
	Hash, ID      []byte
	Dht, Fast, Ex bool
	Cipher        bool
	Data          []byte
}

type relayCase struct {
	Kind   string `json:"kind"`
	OptC   int    `json:"client_options"`
	OptS   int    `json:"server_options"`
	EarlyC int    `json:"client_early_bytes"`
	EarlyS int    `json:"server_early_bytes"`
}

func earlyTagged(n int, tag uint32) []byte {
	b := make([]byte, 0, n+4)
	for j := uint32(0); len(b) < n; j++ {
		b = binary.BigEndian.AppendUint32(b, tag+j)
	}
	return b[:n]
}

func runRelay(rc *relayCase, cs, sc chunkPol, seed uint64) (cl, sv *endResult, tapCS, tapSC []byte, chunks int, split3 bool) {
	c1, c2 := net.Pipe()
	s1, s2 := net.Pipe()
	dcs := &relayDir{pol: cs, src: c2, dst: s2, rng: rand.New(rand.NewPCG(seed, 1))}
	dsc := &relayDir{pol: sc, src: s2, dst: c2, rng: rand.New(rand.NewPCG(seed, 2))}
	dcs.cond = sync.NewCond(&dcs.mu)
	dsc.cond = sync.NewCond(&dsc.mu)
	var rw sync.WaitGroup
	for _, d := range []*relayDir{dcs, dsc} {
		rw.Add(2)
		go func() { defer rw.Done(); d.reader() }()
		go func() { defer rw.Done(); d.writer() }()
	}
	cl, sv = &endResult{}, &endResult{}
	optC, optS := optSets[rc.OptC].O, optSets[rc.OptS].O
	clID, svID := []byte("-ST0000-client-side-"), []byte("-ST0000-server-side-")
	var ew, rd sync.WaitGroup // handshakes + early writes; readers
	after := func(r *endResult, raw net.Conn, c net.Conn, hr protocol.HandshakeResult, init []byte, err error, out []byte) {
		if err != nil {
			r.Err = err.Error()
			raw.Close()
			return
		}
		r.OK = true
		r.Hash, r.ID = hr.Hash, hr.Id
		r.Dht, r.Fast, r.Ex = hr.Dht, hr.Fast, hr.Extended
		_, r.Cipher = c.(*crypto.Conn)
		c.SetDeadline(time.Time{})
		rd.Add(1)
		go func() {
			defer rd.Done()
			r.Data, _ = io.ReadAll(io.MultiReader(bytes.NewReader(init), c))
		}()
		if len(out) > 0 {
			c.Write(out)
		}
	}
	ew.Add(2)
	go func() {
		defer ew.Done()
		c, hr, init, err := protocol.ClientHandshake(c1, rc.Kind == kindMSE, hash.Hash(infoHash), hash.Hash(clID), &optC)
		after(cl, c1, c, hr, init, err, earlyTagged(rc.EarlyC, 0xC1000000))
	}()
	go func() {
		defer ew.Done()
		c, hr, init, err := protocol.ServerHandshake(s1, []hash.HashPair{{First: hash.Hash(otherHash), Second: hash.Hash(hnID)}, {First: hash.Hash(infoHash), Second: hash.Hash(svID)}}, &optS)
		after(sv, s1, c, hr, init, err, earlyTagged(rc.EarlyS, 0x5E000000))
	}()
	ew.Wait()
	for spins := 0; ; spins++ {
		synctest.Wait()
		if dcs.idle() && dsc.idle() {
			break
		}
		if spins > 300000 {
			// five virtual minutes: an end that returned from its handshake and never reads what the relay
			// still holds for it would keep this loop going for ever; the ends are closed below either way
			break
		}
		time.Sleep(time.Millisecond)
	}
	c1.Close()
	s1.Close()
	c2.Close()
	s2.Close()
	rd.Wait()
	rw.Wait()
	if rc.Kind == kindMSE && len(dcs.srcOffs) >= 2 && dcs.srcOffs[0] >= 96 {
		// the storrent client writes step 1 and step 3 with one Write each; its len(PadC) is 0
		s3 := dcs.srcOffs[0]
		for _, o := range dcs.dstOffs {
			if o >= s3+20 && o <= s3+55 {
				split3 = true
			}
		}
	}
	return cl, sv, dcs.tap, dsc.tap, dcs.chunks + dsc.chunks, split3
}

var relayPols = []chunkPol{
	{Name: "as-written"},
	{Name: "1", Size: 1},
	{Name: "2", Size: 2},
	{Name: "7", Size: 7},
	{Name: "19", Size: 19},
	{Name: "20", Size: 20},
	{Name: "48", Size: 48},
	{Name: "67", Size: 67},
	{Name: "69", Size: 69},
	{Name: "96", Size: 96},
	{Name: "prng16", Size: -16},
	{Name: "prng700", Size: -700},
	{Name: "coalesce", Coalesce: true},
	{Name: "coalesce/1", Coalesce: true, Size: 1},
	{Name: "coalesce/68", Coalesce: true, Size: 68},
	{Name: "coalesce/prng300", Coalesce: true, Size: -300},
}

func relayDiff(rc *relayCase, cl, sv *endResult, tapCS, tapSC []byte) (class, detail string) {
	if !cl.OK || !sv.OK {
		return "ok->fail", fmt.Sprintf("client: ok=%v err=%q; server: ok=%v err=%q", cl.OK, cl.Err, sv.OK, sv.Err)
	}
	if !bytes.Equal(cl.Hash, infoHash) || !bytes.Equal(sv.Hash, infoHash) {
		return "hash", fmt.Sprintf("client sees %x, server sees %x, torrent is %x", cl.Hash, sv.Hash, infoHash)
	}
	if string(cl.ID) != "-ST0000-server-side-" || string(sv.ID) != "-ST0000-client-side-" {
		return "peer-id", fmt.Sprintf("client sees id %q, server sees id %q", cl.ID, sv.ID)
	}
	if cl.Cipher != sv.Cipher {
		return "cipher-mode", fmt.Sprintf("client conn encrypted: %v, server conn encrypted: %v", cl.Cipher, sv.Cipher)
	}
	if rc.Kind == kindPlain {
		// the reserved bytes are visible on the tap
		if hc, err := refwire.ParseBTHandshake(tapCS); err == nil {
			if sv.Dht != hc.Dht() || sv.Fast != hc.Fast() || sv.Ex != hc.Extended() {
				return "bits", fmt.Sprintf("server reports %v/%v/%v, client sent reserved %x", sv.Dht, sv.Fast, sv.Ex, hc.Reserved)
			}
		}
		if hs, err := refwire.ParseBTHandshake(tapSC); err == nil {
			if cl.Dht != hs.Dht() || cl.Fast != hs.Fast() || cl.Ex != hs.Extended() {
				return "bits", fmt.Sprintf("client reports %v/%v/%v, server sent reserved %x", cl.Dht, cl.Fast, cl.Ex, hs.Reserved)
			}
		}
	}
	if cl.Dht != sv.Dht || cl.Fast != sv.Fast || cl.Ex != sv.Ex {
		return "bits", fmt.Sprintf("client reports %v/%v/%v, server %v/%v/%v although both advertise the same reserved bytes", cl.Dht, cl.Fast, cl.Ex, sv.Dht, sv.Fast, sv.Ex)
	}
	if !bytes.Equal(cl.Data, earlyTagged(rc.EarlyS, 0x5E000000)) {
		return "early-data", fmt.Sprintf("client's message layer would read %d bytes, server wrote %d", len(cl.Data), rc.EarlyS)
	}
	if !bytes.Equal(sv.Data, earlyTagged(rc.EarlyC, 0xC1000000)) {
		return "early-data", fmt.Sprintf("server's message layer would read %d bytes, client wrote %d", len(sv.Data), rc.EarlyC)
	}
	return "", ""
}

func relayCases(tier string) []relayCase {
	var out []relayCase
	type oo struct{ c, s int }
	plainOpts := []oo{{0, 0}, {3, 0}, {0, 3}}
	mseOpts := []oo{{0, 0}, {1, 1}, {2, 2}, {0, 2}, {2, 0}, {3, 3}, {1, 3}}
	earlies := [][2]int{{100, 100}}
	if tier == "thorough" {
		earlies = [][2]int{{0, 0}, {1, 1}, {100, 100}, {70000, 70000}, {0, 300}, {300, 0}}
	}
	for _, ed := range earlies {
		for _, o := range plainOpts {
			out = append(out, relayCase{Kind: kindPlain, OptC: o.c, OptS: o.s, EarlyC: ed[0], EarlyS: ed[1]})
		}
		for _, o := range mseOpts {
			out = append(out, relayCase{Kind: kindMSE, OptC: o.c, OptS: o.s, EarlyC: ed[0], EarlyS: ed[1]})
		}
	}
	return out
}

func judgeRelay(c *vk.C, rc *relayCase, seed uint64) {
	bcl, bsv, btcs, btsc, _, _ := runRelay(rc, relayPols[0], relayPols[0], seed)
	c.Count("relay_runs", 1)
	bclass, bdetail := relayDiff(rc, bcl, bsv, btcs, btsc)
	label := rc.Kind + "-relay"
	reported := map[string]bool{}
	if bclass != "" {
		sig := "spec-mismatch " + label + " " + bclass
		reported[sig] = true
		c.Violation("spec-mismatch", sig, "storrent<->storrent, streams forwarded as written: "+bdetail, map[string]any{"relay": rc})
	} else {
		c.Count("relay_ok", 1)
	}
	for pi, pcs := range relayPols {
		for pj, psc := range relayPols {
			if pi == 0 && pj == 0 {
				continue
			}
			// full square only on the diagonal and against as-written/coalesce; keeps the count bounded
			if !(pi == pj || pi == 0 || pj == 0 || pi == 12 || pj == 12) {
				continue
			}
			cl, sv, tcs, tsc, chunks, split3 := runRelay(rc, pcs, psc, seed+uint64(pi*100+pj))
			c.Count("relay_runs", 1)
			c.R.Max("max:relay_chunks", int64(chunks))
			class, detail := relayDiff(rc, cl, sv, tcs, tsc)
			if class == "" {
				c.Count("relay_ok", 1)
				c.Count("early_bytes_compared", int64(len(cl.Data)+len(sv.Data)))
				if split3 {
					c.Count("step3_split_runs_as_prescribed", 1)
				}
				continue
			}
			c.Count("violating_runs", 1)
			if class == bclass {
				continue
			}
			sig := "seg-dependent " + label + " " + class
			if split3 {
				sig = "seg-dependent mse-server step3-split"
				c.Count("violating_runs:step3-split", 1)
			}
			if reported[sig] {
				continue
			}
			reported[sig] = true
			c.Violation("seg-dependent", sig,
				fmt.Sprintf("storrent<->storrent through the relay: forwarded as written -> %s; client->server chunks %q, server->client chunks %q -> %s",
					map[bool]string{true: "agreement", false: bclass}[bclass == ""], pcs.Name, psc.Name, detail),
				map[string]any{"relay": rc, "client_to_server": pcs, "server_to_client": psc})
		}
	}
}

// ---- main -------------------------------------------------------------------

func bubble(t *testing.T, f func()) {
	synctest.Test(t, func(t *testing.T) {
		time.Sleep(time.Until(realNow.Add(time.Hour)))
		f()
	})
}

func padClass(p int) string {
	switch {
	case p <= 2:
		return fmt.Sprint(p)
	case p >= 511:
		return fmt.Sprint(p)
	}
	return "mid"
}

func TestCheck(t *testing.T) {
	r := vk.New("C07")
	defer r.Done()
	r.Note("segmentation", "harness->storrent direction over net.Pipe: one Write = one segment; cut positions are offsets in the concatenation of the harness's protocol steps (a step boundary is always a cut because the next step depends on storrent's bytes)")
	r.Note("tuple", "ok|fail, result.Hash, result.Id, Dht/Fast/Extended, conn is *crypto.Conn, io.ReadAll(io.MultiReader(bytes.NewReader(init), conn)); error classes are reported but only ok/fail is compared")

	idx := 0
	// (1) sweeps: baseline, byte-at-a-time, PRNG multi-cuts, every single cut
	jobs := sweepJobs(r.Env.Tier)
	for ji := range jobs {
		i := idx
		idx++
		if !r.Mine(i) {
			continue
		}
		j := &jobs[ji]
		e := j.E
		d := map[string]any{"part": "sweep", "exchange": &e, "family": j.Family}
		if j.Family == "cuts" {
			d["single_cuts"] = fmt.Sprintf("%d..%d", j.Cuts[0], j.Cuts[len(j.Cuts)-1])
		}
		c := r.Begin(i, d)
		var segs []seg
		if j.Family == "base" {
			segs = append(segs, seg{Family: "byte-at-a-time", Cuts: bytewise(&e)})
			rng := r.Env.Rng(i)
			for k := 0; k < 12; k++ {
				segs = append(segs, seg{Family: "prng-multicut", Cuts: multicut(rng, &e)})
			}
			segs = append(segs, seg{Family: "end-with-last-bytes", EOF: true}, seg{Family: "end-with-last-bytes", Cuts: multicut(rng, &e), EOF: true})
			if e.Role == roleServer && e.Kind == kindPlain {
				segs = append(segs, seg{Family: "id-after-reply", Gate: true}, seg{Family: "id-after-reply", Cuts: multicut(rng, &e), Gate: true})
			}
		} else {
			for _, p := range j.Cuts {
				segs = append(segs, seg{Family: "single-cut", Cuts: []int{p}})
			}
		}
		bubble(t, func() { judge(c, &e, segs) })
		c.FP(vk.Hash64(e.Role, e.Kind, e.Opt, padClass(e.Pad1), padClass(e.Pad2), e.IA, e.Early, e.Provide, e.Select, j.Family, len(j.Cuts) > 0 && j.Cuts[0] < e.hsEnd()), true)
		c.End()
	}
	if r.Env.Shard == 0 {
		r.Count("sweep_exchanges", int64(countBase(jobs)))
	}

	// (2) storrent <-> storrent through the relay
	for _, rc := range relayCases(r.Env.Tier) {
		i := idx
		idx++
		if !r.Mine(i) {
			continue
		}
		rc := rc
		c := r.Begin(i, map[string]any{"part": "relay", "relay": &rc})
		bubble(t, func() { judgeRelay(c, &rc, uint64(r.Env.Seed)*1000003+uint64(i)) })
		c.FP(vk.Hash64("relay", rc.Kind, rc.OptC, rc.OptS, rc.EarlyC, rc.EarlyS), true)
		c.End()
	}

	// (3) PRNG exchanges x PRNG segmentations
	n := r.Env.N(4000, 200000)
	base := idx
	for k := 0; k < n; k++ {
		i := base + k
		if !r.Mine(i) {
			continue
		}
		rng := r.Env.Rng(i)
		e := randomExch(rng)
		c := r.Begin(i, map[string]any{"part": "prng", "exchange": &e})
		var segs []seg
		if e.Early <= 1000 && rng.IntN(3) == 0 {
			segs = append(segs, seg{Family: "byte-at-a-time", Cuts: bytewise(&e)})
		}
		for m := 0; m < 5; m++ {
			segs = append(segs, seg{Family: "prng-multicut", Cuts: multicut(rng, &e)})
		}
		sc := singleCuts(&e)
		for m := 0; m < 3 && len(sc) > 0; m++ {
			segs = append(segs, seg{Family: "single-cut", Cuts: []int{sc[rng.IntN(len(sc))]}})
		}
		segs = append(segs, seg{Family: "end-with-last-bytes", Cuts: multicut(rng, &e), EOF: true})
		if e.Role == roleServer && e.Kind == kindPlain {
			segs = append(segs, seg{Family: "id-after-reply", Cuts: multicut(rng, &e), Gate: true})
		}
		bubble(t, func() { judge(c, &e, segs) })
		c.FP(vk.Hash64("prng", e.Role, e.Kind, e.Opt, padClass(e.Pad1), padClass(e.Pad2), iaClass(e.IA), e.Early, e.Provide&3, e.Provide>>2 != 0, e.Select, e.Neg), e.Neg == "")
		c.End()
	}
	r.Finish()
}

func iaClass(ia int) string {
	switch {
	case ia == 0:
		return "0"
	case ia < 68:
		return "<68"
	case ia == 68:
		return "68"
	}
	return ">68"
}

func countBase(jobs []job) int {
	n := 0
	for _, j := range jobs {
		if j.Family == "base" {
			n++
		}
	}
	return n
}
