// C10: piece requests — no lost wake-ups, no leaked priorities.
// Reference model (per piece): multiset of registered priorities + set of
// open waiters; stepped by the harness for every call it makes and every
// completion it causes; compared with Torrent.requested (reflect) and with the
// state of every wait channel at each quiescent cut.
package c10

import (
	"context"
	"errors"
	"fmt"
	"io"
	"math/rand/v2"
	"os"
	"runtime"
	"sort"
	"sync"
	"testing"
	"time"

	"github.com/jech/storrent/config"
	"github.com/jech/storrent/hash"
	"github.com/jech/storrent/peer"
	"github.com/jech/storrent/tor"
	"verifharness/fixture"
	"verifharness/refwire"
	"verifharness/swarm"
	"verifharness/vk"
)

type waiter struct {
	ch           <-chan struct{}
	piece        uint32
	id           int
	expectClosed bool
	why          string
}

type model struct {
	sw                *swarm.Swarm
	tr                *swarm.Tor
	prios             map[uint32][]int8 // direct consumers' registrations
	waiters           []*waiter
	nextW             int
	readers           []*rd
	stats             map[string]int
	mu                sync.Mutex // model state (events may be issued from two goroutines)
	pendingReports    []uint32
	endedInFirstPiece bool // some reader was closed / ended / cancelled while positioned in piece 0
}

func (m *model) stat(k string) {
	m.mu.Lock()
	m.stats[k]++
	m.mu.Unlock()
}

// rd is a real tor.Reader driven by the harness.
type rd struct {
	r       *tor.Reader
	off, ln int64
	pos     int64
	ctx     context.Context
	cancel  context.CancelFunc
	open    bool // may hold priorities
	closed  bool // Close was called
	busy    bool // a Read call is in flight
	mu      sync.Mutex
	id      int
}

func (m *model) complete(p uint32) bool { return m.tr.T.Pieces.Complete(p) }

// directRequest: Torrent.Request(index, prio, true, want) by a direct consumer.
func (m *model) directRequest(p uint32, prio int8, want bool) {
	wasComplete := m.complete(p)
	ok, ch, err := m.tr.T.Request(p, prio, true, want)
	m.sw.Act("request p%d prio %d want=%v -> ok=%v ch=%v err=%v (complete before: %v)", p, prio, want, ok, ch != nil, err, wasComplete)
	m.mu.Lock()
	defer m.mu.Unlock()
	m.stats["request"]++
	if err != nil {
		m.sw.Viol("C10", "requests", "request-error", fmt.Sprintf("Request(p%d) on a live torrent returned %v", p, err))
		return
	}
	if ok {
		m.prios[p] = append(m.prios[p], prio)
	}
	if !ok && !wasComplete && !m.complete(p) {
		m.sw.Viol("C10", "requests", "request-refused-incomplete-piece", fmt.Sprintf("Request(p%d) returned not-registered although the piece is not complete", p))
	}
	if want && ok {
		if ch == nil {
			if !wasComplete && !m.complete(p) {
				m.sw.Viol("C10", "requests", "lost-wakeup nil-channel", fmt.Sprintf("Request(p%d, want) returned a nil channel (= already complete) although the piece is not complete: the consumer would never be woken", p))
			}
		} else {
			m.waiters = append(m.waiters, &waiter{ch: ch, piece: p, id: m.nextW})
			m.nextW++
			m.stats["waiters"]++
		}
	}
}

func (m *model) directWithdraw(p uint32, prio int8) {
	m.mu.Lock()
	defer m.mu.Unlock()
	ps := m.prios[p]
	found := -1
	for i, x := range ps {
		if x == prio {
			found = i
		}
	}
	if found < 0 {
		return
	}
	m.tr.T.Request(p, prio, false, false)
	m.sw.Act("withdraw p%d prio %d", p, prio)
	m.stats["withdraw"]++
	m.prios[p] = append(ps[:found], ps[found+1:]...)
	if len(m.prios[p]) == 0 {
		delete(m.prios, p)
		// last priority gone: if no reader holds the piece either the entry is deleted and
		// its channel closed (the wait is abandoned).  With readers around we cannot know, so
		// waiters of this piece become "either".
		for _, w := range m.waiters {
			if w.piece == p && !w.expectClosed {
				if len(m.openReaders()) == 0 {
					w.expectClosed = true
					w.why = "abandoned (last priority withdrawn)"
				} else {
					w.why = "either"
				}
			}
		}
	}
}

func (m *model) openReaders() []*rd {
	var out []*rd
	for _, r := range m.readers {
		if r.open {
			out = append(out, r)
		}
	}
	return out
}

// fill stores all blocks of p (truth or with one corrupt block) and posts the completion event a peer would post.
func (m *model) fill(p uint32, corrupt bool) {
	g := m.tr.Geo
	if m.complete(p) {
		return
	}
	base := int64(p) * int64(g.PieceLen)
	for b := 0; b < g.BlocksIn(int(p)); b++ {
		d := g.Truth(base+int64(b*fixture.Block), g.BlockLen(int(p), b))
		if corrupt && b == 0 {
			d[0] ^= 1
		}
		m.tr.T.Pieces.AddData(p, uint32(b*fixture.Block), d, 0)
	}
	m.tr.T.Event <- peer.TorData{Peer: nil, Index: p, Begin: 0, Length: 0, Complete: true}
	if m.nextW%2 == 0 {
		// the completion is reported twice (the last block arrived from two peers in the end-game): the second
		// report finds the piece being hashed, verified, or already discarded, and has nothing to announce
		m.tr.T.Event <- peer.TorData{Peer: nil, Index: p, Begin: 0, Length: 0, Complete: true}
		m.stat("completion-reported-twice")
	}
	if corrupt {
		m.sw.Act("fail p%d (corrupt data, finalise)", p)
		m.stat("fail")
	} else {
		m.sw.Act("complete p%d", p)
		m.stat("complete")
	}
}

// afterCompletion updates the model once a cut has shown the piece verified.
func (m *model) noteVerified(p uint32) {
	for _, w := range m.waiters {
		if w.piece == p && !w.expectClosed {
			w.expectClosed = true
			w.why = "verified"
		}
	}
}

// evict. If the eviction finds the piece complete although the model has not seen a cut since it was filled
// (completion and eviction issued together), the piece was verified at a moment the model did not see; by the next
// cut it is gone again and check() cannot tell. Waiters registered before that moment may rightly have been woken:
// they are no longer judged either way.
func (m *model) evict(p uint32) {
	m.mu.Lock()
	var before []*waiter
	for _, w := range m.waiters {
		if w.piece == p && !w.expectClosed {
			before = append(before, w)
		}
	}
	m.mu.Unlock()
	if !m.complete(p) {
		return
	}
	m.mu.Lock()
	for _, w := range before {
		if !w.expectClosed {
			w.why = "either"
		}
	}
	m.mu.Unlock()
	// exactly what tor.Expire does for one torrent
	m.tr.T.Pieces.Expire(0, nil, func(ix uint32) { m.tr.T.Have(ix, false) })
	m.sw.Act("evict all (p%d was complete)", p)
	m.stat("evict")
}

// check compares model and implementation at a cut.
func (m *model) check(pre map[uint32]bool) {
	sw := m.sw
	// pieces that became complete since the previous cut were verified
	for p := 0; p < m.tr.Geo.NumPieces(); p++ {
		if m.complete(uint32(p)) && !pre[uint32(p)] {
			m.noteVerified(uint32(p))
		}
	}
	if swarm.RaceEnabled {
		return
	}
	rv := m.tr.Requested()
	if rv.Missing {
		sw.C.Inconclusive("reflect: Torrent.requested missing")
		return
	}
	sw.C.Count("model_cuts", 1)
	open := m.openReaders()
	// 1. every direct registration is stored
	for p, want := range m.prios {
		got := append([]int8(nil), rv.Prio[p]...)
		rest, ok := subtract(got, want)
		if !ok {
			sw.Viol("C10", "requests", "priority-lost", fmt.Sprintf("piece %d: registered priorities %v, stored %v", p, sorted(want), sorted(rv.Prio[p])))
			return
		}
		if len(rest) > 0 && !m.readerMayHold(open, p) {
			sw.Viol("C10", "requests", m.leakClass(), fmt.Sprintf("piece %d: stored priorities %v, only %v are registered and no open reader is near this piece", p, sorted(rv.Prio[p]), sorted(want)))
			return
		}
	}
	// 2. nothing else is stored unless an open reader may hold it (or idle interest without priorities)
	for p, got := range rv.Prio {
		if _, ok := m.prios[p]; ok {
			continue
		}
		if len(got) == 0 {
			if config.IdleRate() == 0 {
				sw.Viol("C10", "requests", "entry-without-priority", fmt.Sprintf("piece %d has an entry without priorities although idle prefetch is off", p))
				return
			}
			if m.complete(p) && pre[p] {
				// the idle prefetcher's own entry: it wants the piece until it is verified, not beyond
				// (the piece has been complete since before the previous cut; idle picks skip complete pieces)
				sw.Viol("C10", "requests", "idle-entry-for-complete-piece", fmt.Sprintf("piece %d has been verified for two cuts and still has the idle prefetcher's entry (no priorities)", p))
				return
			}
			sw.C.Count("idle_entries_seen", 1)
			continue
		}
		if !m.readerMayHold(open, p) {
			sw.Viol("C10", "requests", m.leakClass(), fmt.Sprintf("piece %d: stored priorities %v but no consumer holds a registration (open readers: %d)", p, sorted(got), len(open)))
			return
		}
	}
	// 3. waiters
	for _, w := range m.waiters {
		closed := false
		select {
		case <-w.ch:
			closed = true
		default:
		}
		if w.why == "either" {
			continue
		}
		if closed && !w.expectClosed {
			sw.Viol("C10", "requests", "spurious-wakeup", fmt.Sprintf("wait channel for piece %d is closed although the piece was not verified since the request and the waiter did not withdraw", w.piece))
			return
		}
		if !closed && w.expectClosed {
			sw.Viol("C10", "requests", "lost-wakeup open-channel "+w.why, fmt.Sprintf("wait channel for piece %d is still open at a quiescent cut although: %s", w.piece, w.why))
			return
		}
		if closed {
			sw.C.Count("waiters_woken_as_expected", 1)
		}
	}
}

func (m *model) leakClass() string {
	m.mu.Lock()
	defer m.mu.Unlock()
	switch {
	case m.endedInFirstPiece:
		return "priority-leaked reader-ended-in-first-piece"
	case len(m.readers) > 0:
		return "priority-leaked after-reader"
	}
	return "priority-leaked"
}

// readerMayHold: an open reader whose position is at or shortly before piece p may have it registered.
func (m *model) readerMayHold(open []*rd, p uint32) bool {
	ps := int64(m.tr.Geo.PieceLen)
	for _, r := range open {
		r.mu.Lock()
		pos := r.pos
		r.mu.Unlock()
		// a reader registers its current piece and prefetches ahead, up to the end of its range
		// (five seconds at the prefetch rate); while a Read is in flight the position is that of the call
		cur := (r.off + pos) / ps
		if int64(p) >= cur-1 && int64(p) <= (r.off+r.ln)/ps+1 {
			return true
		}
	}
	return false
}

func subtract(got, want []int8) ([]int8, bool) {
	g := append([]int8(nil), got...)
	for _, w := range want {
		f := -1
		for i, x := range g {
			if x == w {
				f = i
				break
			}
		}
		if f < 0 {
			return nil, false
		}
		g = append(g[:f], g[f+1:]...)
	}
	return g, true
}

func sorted(a []int8) []int8 {
	b := append([]int8(nil), a...)
	sort.Slice(b, func(i, j int) bool { return b[i] < b[j] })
	return b
}

func (m *model) snapshotComplete() map[uint32]bool {
	pre := map[uint32]bool{}
	for p := 0; p < m.tr.Geo.NumPieces(); p++ {
		pre[uint32(p)] = m.complete(uint32(p))
	}
	return pre
}

// ---- readers ----

func (m *model) openReader(rng *rand.Rand) {
	g := m.tr.Geo
	off := rng.Int64N(g.Length)
	if rng.IntN(3) == 0 {
		off = 0 // readers positioned in the first piece
	}
	ln := 1 + rng.Int64N(g.Length-off)
	ctx, cancel := context.WithCancel(context.Background())
	r := &rd{r: m.tr.T.NewReader(ctx, off, ln), off: off, ln: ln, ctx: ctx, cancel: cancel, open: true, id: len(m.readers)}
	m.readers = append(m.readers, r)
	m.sw.Act("reader%d open off=%d len=%d (piece %d)", r.id, off, ln, off/int64(g.PieceLen))
	m.stats["reader-open"]++
}

// read starts a Read in a goroutine; content is checked against truth (C02's business, counted here).
func (m *model) read(r *rd, n int) {
	r.mu.Lock()
	if r.busy || !r.open {
		r.mu.Unlock()
		return
	}
	r.busy = true
	r.mu.Unlock()
	m.sw.Act("reader%d read %d at pos %d", r.id, n, r.pos)
	m.stats["reader-read"]++
	go func() {
		buf := make([]byte, n)
		k, err := r.r.Read(buf)
		r.mu.Lock()
		r.pos += int64(k)
		r.busy = false
		if err != nil {
			// EOF, error, cancellation: the reader withdrew everything
			r.open = false
			if (r.off+r.pos-int64(k))/int64(m.tr.Geo.PieceLen) == 0 {
				m.mu.Lock()
				m.endedInFirstPiece = true
				m.mu.Unlock()
			}
		}
		r.mu.Unlock()
		if k > 0 {
			tr := m.tr.Geo.Truth(r.off+r.pos-int64(k), k)
			for i := range tr {
				if tr[i] != buf[i] {
					m.sw.Viol("C02", "content", "reader-content", "reader returned bytes that differ from the truth")
					break
				}
			}
		}
		if err != nil && !errors.Is(err, io.EOF) && !errors.Is(err, context.Canceled) && !errors.Is(err, tor.ErrTorrentDead) {
			m.sw.Act("reader%d error %v", r.id, err)
		}
	}()
}

func (m *model) closeReader(r *rd) {
	r.mu.Lock()
	busy := r.busy
	r.mu.Unlock()
	if busy {
		// Close is not safe concurrently with Read; abandon the wait through the context instead
		m.sw.Act("reader%d cancel (blocked in Read)", r.id)
		r.cancel()
		m.stats["reader-cancel"]++
		return
	}
	if r.closed {
		return
	}
	m.sw.Act("reader%d close at pos %d", r.id, r.pos)
	if (r.off+r.pos)/int64(m.tr.Geo.PieceLen) == 0 {
		m.endedInFirstPiece = true
	}
	r.r.Close()
	r.closed = true
	r.cancel()
	r.open = false
	m.stats["reader-close"]++
}

func (m *model) closeAll() {
	for _, r := range m.readers {
		r.cancel()
	}
	m.sw.Cut()
	for _, r := range m.readers {
		r.mu.Lock()
		busy := r.busy
		r.mu.Unlock()
		if !busy && !r.closed {
			if r.open && (r.off+r.pos)/int64(m.tr.Geo.PieceLen) == 0 {
				m.endedInFirstPiece = true
			}
			r.r.Close()
			r.closed = true
			r.open = false
		}
	}
}

// ---- workloads ----

func newModel(sw *swarm.Swarm, g *fixture.Geo) *model {
	tr := sw.AddTorrent(g, swarm.TorOpts{})
	return &model{sw: sw, tr: tr, prios: map[uint32][]int8{}, stats: map[string]int{}}
}

var alphabet = []string{"reqA", "reqB", "wdA", "complete", "fail", "evict", "evictSilent", "reportEvict"}

// the first six letters are enumerated up to length 5, all eight up to length 4
const baseLetters = 6

// exhaustive: all orderings of up to 5 events on one piece.
func exhaustive(t *testing.T, r *vk.Run, idx *int) {
	var seqs [][]int
	var gen func(prefix []int, n int)
	gen = func(prefix []int, n int) {
		if len(prefix) == n {
			seqs = append(seqs, append([]int(nil), prefix...))
			return
		}
		for a := range alphabet {
			gen(append(prefix, a), n)
		}
	}
	var gen2 func(prefix []int, n int, letters int, needNew bool)
	gen2 = func(prefix []int, n int, letters int, needNew bool) {
		if len(prefix) == n {
			if needNew {
				has := false
				for _, a := range prefix {
					if a >= baseLetters {
						has = true
					}
				}
				if !has {
					return
				}
			}
			seqs = append(seqs, append([]int(nil), prefix...))
			return
		}
		for a := 0; a < letters; a++ {
			gen2(append(prefix, a), n, letters, needNew)
		}
	}
	_ = gen
	for n := 1; n <= 5; n++ {
		gen2(nil, n, baseLetters, false)
	}
	for n := 2; n <= 4; n++ {
		gen2(nil, n, len(alphabet), true) // orderings that use the delayed eviction report
	}
	// group sequences into cases of 64 to amortise bubble start-up
	const group = 64
	for s := 0; s < len(seqs); s += group {
		i := *idx
		*idx++
		if !r.Mine(i) {
			continue
		}
		end := s + group
		if end > len(seqs) {
			end = len(seqs)
		}
		d := map[string]any{"family": "exhaustive", "first": names(seqs[s]), "count": end - s}
		c := r.Begin(i, d)
		for _, seq := range seqs[s:end] {
			for variant := 0; variant < 3; variant++ {
				if variant == 2 {
					// only sequences that contain a request directly followed by a completion
					has := false
					for k := 0; k+1 < len(seq); k++ {
						if (alphabet[seq[k]] == "reqA" || alphabet[seq[k]] == "reqB") && alphabet[seq[k+1]] == "complete" {
							has = true
						}
					}
					if !has {
						continue
					}
				}
				runSeq(t, c, seq, variant)
				c.Count("exhaustive_orderings", 1)
				if c.Violated() {
					break
				}
			}
			if c.Violated() {
				break
			}
		}
		c.FP(vk.Hash64("exh", s), true)
		c.End()
	}
	r.Count("exhaustive_sequences_total", 0)
}

func names(seq []int) []string {
	var out []string
	for _, a := range seq {
		out = append(out, alphabet[a])
	}
	return out
}

// runSeq: variant 0 = a cut after every event (strictly ordered); variant 1 = consecutive
// event pairs are issued from two goroutines with no cut in between ("simultaneous").
func runSeq(t *testing.T, c *vk.C, seq []int, variant int) {
	swarm.Run(t, c, "C10", func(sw *swarm.Swarm) {
		ps := []uint32{16 << 10, 32 << 10}[len(seq)%2]
		g := &fixture.Geo{Name: "x", PieceLen: ps, Length: 3*int64(ps) - 5, Seed: uint64(len(seq))*7 + 1}
		m := newModel(sw, g)
		const P = 1
		sw.Cut()
		do := func(a int) {
			switch alphabet[a] {
			case "reqA":
				m.directRequest(P, 1, true)
			case "reqB":
				m.directRequest(P, 0, true)
			case "wdA":
				m.directWithdraw(P, 1)
			case "complete":
				m.fill(P, false)
			case "fail":
				m.fill(P, true)
			case "evict":
				m.evict(P)
			case "evictSilent":
				// the eviction pass has dropped the piece but its report (Have false) is still on its way
				m.mu.Lock()
				var before []*waiter
				for _, w := range m.waiters {
					if w.piece == P && !w.expectClosed {
						before = append(before, w)
					}
				}
				m.mu.Unlock()
				if m.complete(P) {
					m.mu.Lock()
					for _, w := range before {
						if !w.expectClosed {
							w.why = "either" // verified at a moment the model may not have seen (see evict)
						}
					}
					m.mu.Unlock()
					m.tr.T.Pieces.Expire(0, nil, func(ix uint32) { m.pendingReports = append(m.pendingReports, ix) })
					m.sw.Act("evict (report delayed)")
					m.stat("evict")
				}
			case "reportEvict":
				for _, ix := range m.pendingReports {
					m.tr.T.Have(ix, false)
					m.sw.Act("eviction of p%d reported", ix)
				}
				m.pendingReports = nil
			}
		}
		for k := 0; k < len(seq); k++ {
			pre := m.snapshotComplete()
			if variant == 2 && k+1 < len(seq) && (alphabet[seq[k]] == "reqA" || alphabet[seq[k]] == "reqB") && alphabet[seq[k+1]] == "complete" && !m.complete(P) {
				// crossing: the consumer has looked (piece incomplete) and its request is in the mailbox; the
				// piece arrives and is verified before the loop gets to the request. The consumer is told
				// "registered", so the registration must exist.
				hold := make(chan *peer.TorStats)
				m.tr.T.Event <- peer.TorGetStats{Ch: hold}
				sw.Cut()
				done := make(chan struct{})
				a := seq[k]
				go func() { defer close(done); do(a) }()
				sw.Cut()
				m.tr.Prefill([]int{P})
				m.tr.T.Have(P, true)
				m.sw.Act("p%d verified while the request waits in the mailbox", P)
				m.stat("complete")
				<-hold
				<-done
				k++
				sw.C.Count("requests_crossing_completion", 1)
			} else if variant == 1 && k+1 < len(seq) && isCompletion(seq[k]) != isCompletion(seq[k+1]) {
				// simultaneous: the completion-side event from another goroutine
				var wg sync.WaitGroup
				a, b := seq[k], seq[k+1]
				if isCompletion(a) {
					a, b = b, a
				}
				wg.Add(1)
				go func() { defer wg.Done(); do(b) }()
				do(a)
				wg.Wait()
				k++
				sw.C.Count("simultaneous_pairs", 1)
			} else {
				do(seq[k])
			}
			sw.Cut()
			m.check(pre)
			if sw.C.Violated() {
				return
			}
		}
	})
}

func isCompletion(a int) bool { return a >= 3 && a < 6 }

// random histories with several pieces, direct consumers and real Readers.
func randomHistory(t *testing.T, c *vk.C, rng *rand.Rand, i int) map[string]int {
	var st map[string]int
	swarm.Run(t, c, "C10", func(sw *swarm.Swarm) {
		if i%4 == 3 {
			config.SetIdleRate(64 * 1024)
		}
		g := fixture.RandGeo(rng, 1<<20, []uint32{16 << 10, 32 << 10, 64 << 10})
		m := newModel(sw, g)
		st = m.stats
		np := g.NumPieces()
		if i%4 == 3 {
			// something for the idle prefetcher to want: a peer that has everything and never unchokes
			idler := m.tr.Connect(swarm.RemoteOpts{Fast: true, Ext: false})
			idler.Send(refwire.Msg{Kind: refwire.KHaveAll})
			idler.HonestAdvert = true
		}
		sw.Cut()
		steps := 30 + rng.IntN(50)
		type held struct {
			p    uint32
			prio int8
		}
		var hs []held
		for s := 0; s < steps; s++ {
			pre := m.snapshotComplete()
			p := uint32(rng.IntN(np))
			switch x := rng.IntN(100); {
			case x < 25:
				prio := int8(rng.IntN(5) - 1)
				m.directRequest(p, prio, rng.IntN(2) == 0)
				hs = append(hs, held{p, prio})
			case x < 40 && len(hs) > 0:
				k := rng.IntN(len(hs))
				m.directWithdraw(hs[k].p, hs[k].prio)
				hs = append(hs[:k], hs[k+1:]...)
			case x < 52:
				m.fill(p, false)
			case x < 58:
				m.fill(p, true)
			case x < 64:
				m.evict(p)
			case x < 72:
				if len(m.readers) < 6 {
					m.openReader(rng)
				}
			case x < 86 && len(m.readers) > 0:
				r := m.readers[rng.IntN(len(m.readers))]
				m.read(r, []int{1, 100, 16384, 40000, 200000}[rng.IntN(5)])
			case x < 92 && len(m.readers) > 0:
				m.closeReader(m.readers[rng.IntN(len(m.readers))])
			case x < 95:
				conf, err := m.tr.T.GetConf()
				if err == nil {
					m.tr.T.SetConf(conf)
					sw.Act("setconf")
				}
			default:
				d := []time.Duration{300 * time.Millisecond, 2 * time.Second, 5 * time.Second}[rng.IntN(3)]
				time.Sleep(d)
				sw.Act("sleep %v", d)
			}
			sw.Cut()
			m.check(pre)
			if sw.C.Violated() {
				m.closeAll()
				return
			}
		}
		// all readers go away: only the direct registrations may remain
		pre := m.snapshotComplete()
		sw.Act("close all readers")
		m.closeAll()
		sw.Cut()
		for _, r := range m.readers {
			if r.open {
				r.mu.Lock()
				r.open = false
				r.mu.Unlock()
			}
		}
		m.check(pre)
		m.stats["final_checks"]++
	})
	return st
}

// hammer: several consumers call Torrent.Request(want) in tight loops from their own goroutines
// while the piece is being completed; real parallelism finds the windows between the consumer's
// own completeness test and the event loop's.  At the cut after the piece was verified every
// channel any consumer obtained in the round must be closed.
func hammer(t *testing.T, c *vk.C, rng *rand.Rand) map[string]int {
	st := map[string]int{}
	swarm.Run(t, c, "C10", func(sw *swarm.Swarm) {
		g := &fixture.Geo{Name: "h", PieceLen: 16 << 10, Length: 4*(16<<10) - 3, Seed: rng.Uint64()}
		m := newModel(sw, g)
		sw.Cut()
		const P = 1
		rounds := 40
		for round := 0; round < rounds; round++ {
			nc := 2 + rng.IntN(7)
			type got struct {
				ch   <-chan struct{}
				prio int8
			}
			res := make([][]got, nc)
			var wg sync.WaitGroup
			start := make(chan struct{})
			for k := 0; k < nc; k++ {
				wg.Add(1)
				go func(k int) {
					defer wg.Done()
					<-start
					for it := 0; it < 30; it++ {
						prio := int8(k % 3)
						ok, ch, err := m.tr.T.Request(P, prio, true, true)
						if err != nil {
							return
						}
						if ok {
							res[k] = append(res[k], got{ch, prio})
						}
						if it%4 == 3 {
							runtime.Gosched()
						}
					}
				}(k)
			}
			close(start)
			if rng.IntN(2) == 0 {
				runtime.Gosched()
			}
			m.fill(P, false)
			wg.Wait()
			sw.Cut()
			if !m.complete(P) {
				c.Inconclusive("piece did not complete in a hammer round")
				return
			}
			nch := 0
			for k := range res {
				for _, x := range res[k] {
					if x.ch == nil {
						continue
					}
					nch++
					select {
					case <-x.ch:
					default:
						sw.Viol("C10", "requests", "lost-wakeup open-channel verified hammer", fmt.Sprintf("a wait channel obtained by consumer %d is still open at the quiescent cut after piece %d was verified (round %d, %d consumers)", k, P, round, nc))
						return
					}
				}
			}
			st["hammer_rounds"]++
			st["hammer_channels"] += nch
			// withdraw everything that was registered, then the stored multiset must be empty
			for k := range res {
				for _, x := range res[k] {
					m.tr.T.Request(P, x.prio, false, false)
				}
			}
			sw.Cut()
			if !swarm.RaceEnabled {
				rv := m.tr.Requested()
				if len(rv.Prio[P]) != 0 {
					sw.Viol("C10", "requests", "priority-leaked hammer", fmt.Sprintf("after every registration of the round was withdrawn piece %d still holds priorities %v", P, rv.Prio[P]))
					return
				}
			}
			m.evict(P)
			sw.Cut()
		}
	})
	return st
}

func TestCheck(t *testing.T) {
	r := vk.New("C10")
	defer r.Done()
	idx := 0
	if os.Getenv("VERIF_RACE_SUBSET") == "" {
		exhaustive(t, r, &idx)
	}
	n := r.Env.N(1500, 100000)
	if os.Getenv("VERIF_RACE_SUBSET") != "" {
		n = r.Env.N(150, 5000)
	}
	base := idx
	for k := 0; k < n; k++ {
		i := base + k
		if !r.Mine(i) {
			continue
		}
		rng := r.Env.Rng(i)
		d := map[string]any{"family": "random"}
		c := r.Begin(i, d)
		st := randomHistory(t, c, rng, i)
		for k, v := range st {
			c.Count(k, int64(v))
		}
		c.FP(swarm.ClassOf(st, "request", "withdraw", "complete", "fail", "evict", "reader-open", "reader-read", "reader-close", "reader-cancel", "waiters"), st["waiters"] > 0 && st["withdraw"] > 0 && st["complete"] > 0)
		c.End()
	}
	// hammer family
	nh := r.Env.N(64, 3000)
	hb := base + n
	for k := 0; k < nh; k++ {
		i := hb + k
		if !r.Mine(i) {
			continue
		}
		c := r.Begin(i, map[string]any{"family": "hammer"})
		st := hammer(t, c, r.Env.Rng(i))
		for kk, v := range st {
			c.Count(kk, int64(v))
		}
		c.FP(vk.Hash64("hammer", i%8), st["hammer_channels"] > 0)
		c.End()
	}
	// withdrawal while a peer is busy
	nc := r.Env.N(48, 2000)
	cb := hb + nh
	for k := 0; k < nc; k++ {
		i := cb + k
		if !r.Mine(i) {
			continue
		}
		c := r.Begin(i, map[string]any{"family": "congested-withdraw"})
		st := congestedWithdraw(t, c, r.Env.Rng(i), k)
		for kk, v := range st {
			c.Count(kk, int64(v))
		}
		c.FP(vk.Hash64("cw", st["mailbox_fill"], st["blocks_outstanding_before_withdraw"] > 1, st["withdraw_with_full_mailbox"]), st["cancelled_after_withdraw"] > 0)
		c.End()
	}
	_ = hash.Hash(nil)
	r.Finish()
}
