package c10

import (
	"fmt"
	"math/rand/v2"
	"testing"
	"testing/synctest"
	"time"

	"github.com/jech/storrent/peer"
	"verifharness/fixture"
	"verifharness/swarm"
	"verifharness/vk"
)

// congestedWithdraw: the point where "nobody wants the piece any more" leaves the torrent.
// A direct consumer wants piece p; silent seeds are asked for its blocks and hold the requests.
// One peer actor is then parked (a GetStats event whose unbuffered reply nobody reads yet) and its
// mailbox filled with harmless events up to `fill` of its capacity; the consumer withdraws from
// its own goroutine; the actor is released.  At the next cut no seed may still hold a request for
// a block of p: the piece stopped being requested when its last consumer left, whether or not a
// peer happened to be busy at that instant.  (Nothing else wants p: no reader, no idle prefetch.)
func congestedWithdraw(t *testing.T, c *vk.C, rng *rand.Rand, i int) map[string]int {
	st := map[string]int{}
	swarm.Run(t, c, "C10", func(sw *swarm.Swarm) {
		ps := []uint32{16 << 10, 32 << 10, 64 << 10}[rng.IntN(3)]
		g := &fixture.Geo{Name: "cw", PieceLen: ps, Length: int64(ps)*int64(4+rng.IntN(5)) - int64(rng.IntN(2))*777, Seed: rng.Uint64()}
		m := newModel(sw, g)
		nseeds := 1 + rng.IntN(2)
		var seeds []*swarm.Remote
		for k := 0; k < nseeds; k++ {
			s := m.tr.Connect(swarm.RemoteOpts{Fast: rng.IntN(2) == 0, Ext: false})
			s.AutoSeed(swarm.SeedMode{Silent: true})
			seeds = append(seeds, s)
		}
		sw.Cut()
		p := uint32(rng.IntN(g.NumPieces()))
		prio := int8(rng.IntN(3))
		m.directRequest(p, prio, true)
		time.Sleep(2 * time.Second)
		sw.Cut()
		held := func() (n int, who []string) {
			for _, s := range seeds {
				for _, k := range s.Outstanding() {
					if k.Index == p {
						n++
						who = append(who, fmt.Sprintf("%s:%d+%d", s.Name, k.Begin, k.Length))
					}
				}
			}
			return
		}
		n0, _ := held()
		if n0 == 0 {
			c.Inconclusive("no block of the wanted piece was requested from the silent seeds")
			return
		}
		st["blocks_outstanding_before_withdraw"] = n0
		peers, err := m.tr.T.GetPeers()
		if err != nil || len(peers) != nseeds {
			c.Inconclusive(fmt.Sprintf("GetPeers: %d peers, %v", len(peers), err))
			return
		}
		victim := peers[rng.IntN(len(peers))]
		fill := []int{0, cap(victim.Event) - 1, cap(victim.Event), cap(victim.Event)}[i%4]
		park := make(chan peer.PeerStats) // unbuffered: the actor blocks in its reply
		select {
		case victim.Event <- peer.PeerGetStats{Ch: park}:
		case <-victim.Done:
			c.Inconclusive("peer gone")
			return
		}
		synctest.Wait()
		filled := 0
		for ; filled < fill; filled++ {
			select {
			case victim.Event <- peer.PeerGetStats{Ch: make(chan peer.PeerStats, 1)}: // the handler closes its reply channel: one each
				continue
			default:
			}
			break
		}
		sw.Act("peer actor parked, %d/%d events in its mailbox", filled, cap(victim.Event))
		st["mailbox_fill"] = filled
		if filled == cap(victim.Event) {
			st["withdraw_with_full_mailbox"] = 1
		}
		done := make(chan struct{})
		go func() {
			m.directWithdraw(p, prio)
			close(done)
		}()
		synctest.Wait() // the withdrawal is queued (Request without a wait channel does not wait for the loop); the loop is now handling it
		<-park // release the actor
		tm := time.NewTimer(30 * time.Second)
		select {
		case <-done:
			tm.Stop()
		case <-tm.C:
			sw.Viol("C10", "requests", "withdraw-hangs congested-peer", "Request(p, withdraw) did not return within 30 virtual seconds after the busy peer was released")
			return
		}
		sw.Cut()
		if n, who := held(); n > 0 {
			sw.Viol("C10", "requests", fmt.Sprintf("withdrawn-piece-still-requested-at-peer mailbox-full=%v", filled == cap(victim.Event)),
				fmt.Sprintf("piece %d lost its last consumer while one peer actor was busy with %d/%d events queued; after the actor was released and everything in transit was processed, %d request(s) for blocks of that piece are still outstanding and uncancelled at the seeds: %v", p, filled, cap(victim.Event), n, who))
			return
		}
		st["cancelled_after_withdraw"] = n0
		m.check(m.snapshotComplete())
	})
	return st
}
