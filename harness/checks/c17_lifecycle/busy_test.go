package c17

// Two histories in which something is busy at the wrong moment.
//
// readerCancelledWhileQueued: a consumer's request sits in the torrent's mailbox (the loop is busy with something
// else) when the consumer gives up.  Whatever the consumer does, the loop must get past that request: afterwards
// every operation returns and the torrent can be deleted.
//
// stalledPeerAtDeletion: a remote peer stops reading.  storrent's writer to it congests, the peer actor spends
// 200 ms on every further message it is told to send, and the torrent's own questions to that actor (status, for
// the request scheduler and the unchoker) queue behind those.  Then the torrent is deleted: the connection to
// the stalled peer is closed like any other and nothing stays behind.

import (
	"context"
	"fmt"
	"reflect"
	"runtime"
	"testing"
	"testing/synctest"
	"time"

	"github.com/jech/storrent/alloc"
	"github.com/jech/storrent/peer"
	"github.com/jech/storrent/tor"
	"verifharness/fixture"
	"verifharness/refwire"
	"verifharness/swarm"
	"verifharness/vk"
)

func readerCancelledWhileQueued(t *testing.T, c *vk.C, variant int) {
	swarm.Run(t, c, "C17", func(sw *swarm.Swarm) {
		base := alloc.Bytes()
		g := &fixture.Geo{Name: "rq", PieceLen: 32 << 10, Length: 6*(32<<10) - 9, Seed: uint64(100 + variant)}
		tr := sw.AddTorrent(g, swarm.TorOpts{})
		var seed *swarm.Remote
		if variant%2 == 0 {
			seed = tr.Connect(swarm.RemoteOpts{Fast: true})
			seed.AutoSeed(swarm.SeedMode{Delay: 50 * time.Millisecond})
			seed.Honest = true
		}
		sw.Cut()
		ctx, cancel := context.WithCancel(context.Background())
		off := int64(variant%5) * 20000
		rd := tr.T.NewReader(ctx, off, 50000)
		defer runtime.SetFinalizer(rd, nil)
		release := tr.ParkLoop()
		if release == nil {
			c.Inconclusive("could not park the loop")
			return
		}
		type rres struct {
			n   int
			err error
		}
		done := make(chan rres, 1)
		go func() {
			n, err := rd.Read(make([]byte, 1000))
			done <- rres{n, err}
		}()
		synctest.Wait() // the reader's request is in the mailbox, the reader waits for the answer
		queued := len(tr.T.Event)
		cancel()
		synctest.Wait()
		if variant%4 >= 2 {
			time.Sleep(3 * time.Second) // the consumer has been gone for a while when the loop comes back
		}
		release()
		sw.Act("reader cancelled while its request was queued behind a busy loop (%d events queued)", queued)
		c.Count("reader_cancelled_while_request_queued", int64(b2i(queued > 0)))
		tm := time.NewTimer(bound)
		select {
		case r := <-done:
			tm.Stop()
			if r.n == 0 && r.err == nil {
				sw.Viol("C17", "result", "cancelled-read-returns-nothing", "Read of a cancelled reader returned (0, nil)")
			}
		case <-tm.C:
			sw.Viol("C17", "hang", "hang ReaderRead cancelled-while-request-queued", fmt.Sprintf("Read has not returned %v (virtual) after its context was cancelled", bound))
			tr.Killed = true
			return
		}
		rd.Close()
		// every operation still returns
		e := &env{sw: sw, tr: tr, t: tr.T}
		for _, op := range []string{"GetStats", "Request", "GetPeers", "Kill"} {
			res := &result{}
			go e.call(op, res)
			sw.Cut()
			if ret, _, _, _ := res.get(); !ret {
				time.Sleep(bound)
				sw.Cut()
			}
			if ret, _, _, _ := res.get(); !ret {
				sw.Viol("C17", "hang", "hang "+op+" after-reader-cancelled-while-request-queued", fmt.Sprintf("%s has not returned after %v (virtual): the torrent's loop never got past the request of a consumer that had left", op, bound))
				tr.Killed = true
				return
			}
			c.Count("calls_checked", 1)
		}
		tr.Killed = true
		sw.Cut()
		if tor.Get(tr.T.Hash) != nil {
			sw.Viol("C17", "deletion", "still-listed", "tor.Get(hash) still finds the torrent after Kill returned")
		}
		if seed != nil && !seed.Closed() {
			sw.Viol("C17", "deletion", "peer-connection-not-closed", "the seed has not seen its connection closed at the cut after the torrent stopped")
		}
		if !swarm.RaceEnabled && alloc.Bytes() != base {
			sw.Viol("C17", "deletion", "memory-not-released", fmt.Sprintf("alloc.Bytes() is %d above the pre-torrent level", alloc.Bytes()-base))
		}
	})
}

func stalledPeerAtDeletion(t *testing.T, c *vk.C, variant int) {
	swarm.Run(t, c, "C17", func(sw *swarm.Swarm) {
		base := alloc.Bytes()
		np := 90
		g := &fixture.Geo{Name: "sp", PieceLen: 32 << 10, Length: int64(np)*(32<<10) - 5, Seed: uint64(200 + variant)}
		tr := sw.AddTorrent(g, swarm.TorOpts{})
		// the peer that will stall: no extension protocol (pieces storrent loses are not announced to it), it has
		// nothing yet, it has unchoked us
		st := tr.Connect(swarm.RemoteOpts{Fast: variant%2 == 0, Ext: false})
		st.Send(refwire.Msg{Kind: refwire.KBitfield, Data: make([]byte, (np+7)/8)})
		st.Send(refwire.Msg{Kind: refwire.KUnchoke})
		other := tr.Connect(swarm.RemoteOpts{Fast: true})
		other.AutoSeed(swarm.SeedMode{Silent: true})
		sw.Cut()
		// somebody wants the end of the torrent: storrent is interested in whoever has something
		tr.T.Request(uint32(np-1), 1, true, false)
		sw.Cut()
		peers, err := tr.T.GetPeers()
		if err != nil || len(peers) != 2 {
			c.Inconclusive("GetPeers")
			return
		}
		var sp *peer.Peer
		for _, p := range peers {
			if p.GetAddr() == st.Addr {
				sp = p
			}
		}
		if sp == nil {
			c.Inconclusive("the stalling peer's actor was not found")
			return
		}
		wr := reflect.ValueOf(sp).Elem().FieldByName("writer")
		if !wr.IsValid() || wr.Kind() != reflect.Chan {
			c.Inconclusive("reflect: Peer.writer missing")
			return
		}
		st.PauseReading(90 * time.Second)
		time.Sleep(300 * time.Millisecond)
		// pieces complete one after the other and are announced to every peer, until the writer's queue to the
		// stalled peer is exactly full (one more announcement would fail and cost the peer its connection)
		filled := 0
		for p := 0; p < np-10 && wr.Len() < wr.Cap(); p++ {
			tr.Prefill([]int{p})
			tr.T.Have(uint32(p), true)
			synctest.Wait()
			filled++
		}
		if wr.Len() < wr.Cap() {
			c.Inconclusive(fmt.Sprintf("writer queue %d/%d after %d announcements", wr.Len(), wr.Cap(), filled))
			return
		}
		// the stalled peer can still talk: it announces a piece storrent wants.  storrent cannot tell it "interested"
		// now (the write waits 200 ms for room and gives up); it tries again on every later occasion.
		st.Send(refwire.Msg{Kind: refwire.KHave, Index: uint32(np - 1)})
		time.Sleep(500 * time.Millisecond)
		synctest.Wait()
		if sp.GetStats() == nil {
			c.Inconclusive("the stalled peer was dropped before the scenario began")
			return
		}
		// memory pressure: every complete piece is dropped; each is one event for each peer actor, and one such
		// occasion.  Right behind them the scheduler asks the peers for their status (a consumer asks for a piece).
		nev := 0
		tr.T.Pieces.Expire(0, nil, func(ix uint32) { tr.T.Have(ix, false); nev++ })
		tr.T.Request(uint32(np-2), 1, true, false)
		sw.Act("writer queue to %s full (%d announcements); %d pieces dropped at once, then a request", st.Name, filled, nev)
		wait := []time.Duration{1500 * time.Millisecond, 5 * time.Second, 25 * time.Second}[variant%3]
		for w := time.Duration(0); w < wait; w += 500 * time.Millisecond {
			time.Sleep(500 * time.Millisecond)
			synctest.Wait()
		}
		c.Count("stalled_peer_histories", 1)
		// deletion
		res := &result{}
		e := &env{sw: sw, tr: tr, t: tr.T}
		go e.call("Kill", res)
		synctest.Wait()
		if ret, _, _, _ := res.get(); !ret {
			time.Sleep(bound)
			synctest.Wait()
		}
		tr.Killed = true
		if ret, _, _, _ := res.get(); !ret {
			sw.Viol("C17", "hang", "hang Kill stalled-peer", fmt.Sprintf("Kill has not returned after %v (virtual) with one peer that had stopped reading", bound))
			return
		}
		// the stalled peer starts reading again at the latest 90 s after it stopped; give it that and some more
		time.Sleep(3 * time.Minute)
		synctest.Wait()
		if tor.Get(tr.T.Hash) != nil {
			sw.Viol("C17", "deletion", "still-listed", "tor.Get(hash) still finds the torrent after Kill returned")
		}
		for _, r := range []*swarm.Remote{st, other} {
			if !r.Closed() {
				cls := "peer-connection-not-closed"
				if r == st {
					cls += " stalled-peer"
				}
				sw.Viol("C17", "deletion", cls, fmt.Sprintf("%s has not seen its connection closed three virtual minutes after the torrent was deleted", r.Name))
			} else {
				c.Count("connections_seen_closed", 1)
			}
		}
		if !swarm.RaceEnabled && alloc.Bytes() != base {
			sw.Viol("C17", "deletion", "memory-not-released", fmt.Sprintf("alloc.Bytes() is %d above the pre-torrent level", alloc.Bytes()-base))
		}
	})
}
