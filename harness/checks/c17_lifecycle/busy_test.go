package c17

// Two histories in which something is busy at the wrong moment.
//
// readerCancelledWhileQueued: a consumer's request sits in the torrent's mailbox (the loop is busy with something
// else) when the consumer gives up.  Whatever the consumer does, the loop must get past that request: afterwards
// every operation returns and the torrent can be deleted.
//
// stalledPeerAtDeletion: a remote peer stops reading.  storrent's writer to it congests, the peer actor spends
// 200 ms on every further message it is told to send, and the torrent's own questions to that actor (status, for
// the request scheduler and the unchoker) queue behind those.  Then the torrent is deleted: the connection to
// the stalled peer is closed like any other and nothing stays behind.

import (
	"context"
	"fmt"
	"runtime"
	"testing"
	"testing/synctest"
	"time"

	"github.com/jech/storrent/alloc"
	"github.com/jech/storrent/tor"
	"verifharness/fixture"
	"verifharness/refwire"
	"verifharness/swarm"
	"verifharness/vk"
)

func readerCancelledWhileQueued(t *testing.T, c *vk.C, variant int) {
	swarm.Run(t, c, "C17", func(sw *swarm.Swarm) {
		base := alloc.Bytes()
		g := &fixture.Geo{Name: "rq", PieceLen: 32 << 10, Length: 6*(32<<10) - 9, Seed: uint64(100 + variant)}
		tr := sw.AddTorrent(g, swarm.TorOpts{})
		var seed *swarm.Remote
		if variant%2 == 0 {
			seed = tr.Connect(swarm.RemoteOpts{Fast: true})
			seed.AutoSeed(swarm.SeedMode{Delay: 50 * time.Millisecond})
			seed.Honest = true
		}
		sw.Cut()
		ctx, cancel := context.WithCancel(context.Background())
		off := int64(variant%5) * 20000
		rd := tr.T.NewReader(ctx, off, 50000)
		defer runtime.SetFinalizer(rd, nil)
		release := tr.ParkLoop()
		if release == nil {
			c.Inconclusive("could not park the loop")
			return
		}
		type rres struct {
			n   int
			err error
		}
		done := make(chan rres, 1)
		go func() {
			n, err := rd.Read(make([]byte, 1000))
			done <- rres{n, err}
		}()
		synctest.Wait() // the reader's request is in the mailbox, the reader waits for the answer
		queued := len(tr.T.Event)
		cancel()
		synctest.Wait()
		if variant%4 >= 2 {
			time.Sleep(3 * time.Second) // the consumer has been gone for a while when the loop comes back
		}
		release()
		sw.Act("reader cancelled while its request was queued behind a busy loop (%d events queued)", queued)
		c.Count("reader_cancelled_while_request_queued", int64(b2i(queued > 0)))
		tm := time.NewTimer(bound)
		select {
		case r := <-done:
			tm.Stop()
			if r.n == 0 && r.err == nil {
				sw.Viol("C17", "result", "cancelled-read-returns-nothing", "Read of a cancelled reader returned (0, nil)")
			}
		case <-tm.C:
			sw.Viol("C17", "hang", "hang ReaderRead cancelled-while-request-queued", fmt.Sprintf("Read has not returned %v (virtual) after its context was cancelled", bound))
			tr.Killed = true
			return
		}
		rd.Close()
		// every operation still returns
		e := &env{sw: sw, tr: tr, t: tr.T}
		for _, op := range []string{"GetStats", "Request", "GetPeers", "Kill"} {
			res := &result{}
			go e.call(op, res)
			sw.Cut()
			if ret, _, _, _ := res.get(); !ret {
				time.Sleep(bound)
				sw.Cut()
			}
			if ret, _, _, _ := res.get(); !ret {
				sw.Viol("C17", "hang", "hang "+op+" after-reader-cancelled-while-request-queued", fmt.Sprintf("%s has not returned after %v (virtual): the torrent's loop never got past the request of a consumer that had left", op, bound))
				tr.Killed = true
				return
			}
			c.Count("calls_checked", 1)
		}
		tr.Killed = true
		sw.Cut()
		if tor.Get(tr.T.Hash) != nil {
			sw.Viol("C17", "deletion", "still-listed", "tor.Get(hash) still finds the torrent after Kill returned")
		}
		if seed != nil && !seed.Closed() {
			sw.Viol("C17", "deletion", "peer-connection-not-closed", "the seed has not seen its connection closed at the cut after the torrent stopped")
		}
		if !swarm.RaceEnabled && alloc.Bytes() != base {
			sw.Viol("C17", "deletion", "memory-not-released", fmt.Sprintf("alloc.Bytes() is %d above the pre-torrent level", alloc.Bytes()-base))
		}
	})
}

func stalledPeerAtDeletion(t *testing.T, c *vk.C, variant int) {
	swarm.Run(t, c, "C17", func(sw *swarm.Swarm) {
		base := alloc.Bytes()
		np := 200 + 40*(variant%3)
		g := &fixture.Geo{Name: "sp", PieceLen: 16 << 10, Length: int64(np)*(16<<10) - 5, Seed: uint64(200 + variant)}
		tr := sw.AddTorrent(g, swarm.TorOpts{})
		// the peer that will stall: it looks like a seed that has unchoked us and is interested itself, so the request
		// scheduler and the unchoker both keep asking its actor for its status
		st := tr.Connect(swarm.RemoteOpts{Fast: variant%2 == 0, Ext: variant%4 < 2})
		st.AutoSeed(swarm.SeedMode{Silent: true})
		st.Send(refwire.Msg{Kind: refwire.KInterested})
		other := tr.Connect(swarm.RemoteOpts{Fast: true})
		other.AutoSeed(swarm.SeedMode{Silent: true})
		sw.Cut()
		// somebody wants the end of the torrent: the request ticker runs
		for p := np - 8; p < np; p++ {
			tr.T.Request(uint32(p), 1, true, false)
		}
		sw.Cut()
		st.PauseReading(40 * time.Second)
		time.Sleep(300 * time.Millisecond)
		// pieces complete one after the other (announced to every peer): far more messages than the writer's queue holds
		var ps []int
		for p := 0; p < np-16; p++ {
			ps = append(ps, p)
		}
		tr.Prefill(ps)
		for _, p := range ps {
			tr.T.Have(uint32(p), true)
		}
		sw.Act("%d pieces announced while %s is not reading", len(ps), st.Name)
		// let the congestion play out for a while: ticks of the request scheduler (and, past 20 s, of the unchoker) fall into it
		wait := []time.Duration{4 * time.Second, 9 * time.Second, 23 * time.Second}[variant%3]
		for w := time.Duration(0); w < wait; w += time.Second {
			time.Sleep(time.Second)
			synctest.Wait()
		}
		c.Count("stalled_peer_histories", 1)
		// deletion
		res := &result{}
		e := &env{sw: sw, tr: tr, t: tr.T}
		go e.call("Kill", res)
		synctest.Wait()
		if ret, _, _, _ := res.get(); !ret {
			time.Sleep(bound)
			synctest.Wait()
		}
		tr.Killed = true
		if ret, _, _, _ := res.get(); !ret {
			sw.Viol("C17", "hang", "hang Kill stalled-peer", fmt.Sprintf("Kill has not returned after %v (virtual) with one peer that had stopped reading", bound))
			return
		}
		// the stalled peer starts reading again at the latest 40 s after it stopped; give it that and some more
		time.Sleep(2 * time.Minute)
		synctest.Wait()
		if tor.Get(tr.T.Hash) != nil {
			sw.Viol("C17", "deletion", "still-listed", "tor.Get(hash) still finds the torrent after Kill returned")
		}
		for _, r := range []*swarm.Remote{st, other} {
			if !r.Closed() {
				cls := "peer-connection-not-closed"
				if r == st {
					cls += " stalled-peer"
				}
				sw.Viol("C17", "deletion", cls, fmt.Sprintf("%s has not seen its connection closed two virtual minutes after the torrent was deleted", r.Name))
			} else {
				c.Count("connections_seen_closed", 1)
			}
		}
		if !swarm.RaceEnabled && alloc.Bytes() != base {
			sw.Viol("C17", "deletion", "memory-not-released", fmt.Sprintf("alloc.Bytes() is %d above the pre-torrent level", alloc.Bytes()-base))
		}
	})
}
