package c17

// A piece is being hashed when the torrent is deleted (the hasher is held at the yield point
// piece.finalise.hash.begin). "After deletion completes ... its memory is released": Kill may not return
// while the store still holds buffers, and nothing read after Kill returned may carry data.

import (
	"context"
	"fmt"
	"sync"
	"testing"
	"time"

	"github.com/jech/storrent/alloc"
	"github.com/jech/storrent/hash"
	"github.com/jech/storrent/tor"
	"github.com/jech/storrent/verifhook"
	"verifharness/fixture"
	"verifharness/swarm"
	"verifharness/vk"
)

func hashingAtDeletion(t *testing.T, c *vk.C, prop string, variant int) {
	swarm.Run(t, c, prop, func(sw *swarm.Swarm) {
		base := alloc.Bytes()
		ps := []uint32{32 << 10, 128 << 10}[variant%2]
		g := &fixture.Geo{Name: "hashdel", PieceLen: ps, Length: 4*int64(ps) - 33, Seed: uint64(7 + variant)}
		tr := sw.AddTorrent(g, swarm.TorOpts{})
		tr.Prefill([]int{0, 3})
		p := 1 + variant/2%2
		for b := 0; b < g.BlocksIn(p); b++ {
			tr.T.Pieces.AddData(uint32(p), uint32(b*fixture.Block), g.Truth(int64(p)*int64(ps)+int64(b*fixture.Block), g.BlockLen(p, b)), 0)
		}
		rd := tr.T.NewReader(context.Background(), 10, 1000) // piece 0: complete
		defer rd.Close()
		rel := make(chan struct{})
		verifhook.SetPoint(func(name string) {
			if name == "piece.finalise.hash.begin" {
				<-rel
			}
		})
		defer verifhook.SetPoint(nil)
		finDone := make(chan struct{})
		go func() {
			defer close(finDone)
			tr.T.Pieces.Finalise(uint32(p), hash.Hash(g.PieceHash(p)))
		}()
		sw.Cut()
		var mu sync.Mutex
		killed := false
		var kerr error
		go func() {
			ctx, cancel := context.WithTimeout(context.Background(), 2*time.Hour)
			err := tr.T.Kill(ctx)
			cancel()
			mu.Lock()
			killed, kerr = true, err
			mu.Unlock()
			tr.Killed = true
		}()
		sw.Cut()
		time.Sleep(time.Second)
		sw.Cut()
		mu.Lock()
		k, ke := killed, kerr
		mu.Unlock()
		c.Count("deletions_with_a_piece_being_hashed", 1)
		if k && ke == nil {
			// Kill says the deletion is complete while a hash is still under way
			if held := alloc.Bytes() - base; !swarm.RaceEnabled && held > 0 {
				sw.Viol("C17", "deletion", "memory-held-when-kill-returned piece-being-hashed", fmt.Sprintf("Kill returned nil and %d bytes of the torrent's pieces are still allocated (a piece is being hashed)", held))
			}
			if tor.Get(tr.T.Hash) != nil {
				sw.Viol("C17", "deletion", "still-listed-when-kill-returned", "tor.Get(hash) still finds the torrent after Kill returned nil")
			}
			buf := make([]byte, 100)
			if n, _ := tr.T.Pieces.ReadAt(buf, 10); n > 0 {
				sw.Viol("C01", "content", "read-after-deletion", fmt.Sprintf("Pieces.ReadAt returned %d bytes after Kill returned", n))
				sw.Viol("C17", "deletion", "data-readable-when-kill-returned", fmt.Sprintf("Pieces.ReadAt returned %d bytes after Kill returned nil", n))
			}
		} else {
			c.Count("kill_waits_for_the_hasher", 1)
		}
		close(rel)
		<-finDone
		for w := 0; w < 100; w++ {
			sw.Cut()
			mu.Lock()
			k = killed
			mu.Unlock()
			if k {
				break
			}
			time.Sleep(100 * time.Millisecond)
		}
		if !k {
			sw.Viol("C17", "hang", "hang Kill piece-being-hashed", "Kill has not returned ten virtual seconds after the hash of the last busy piece ended")
			tr.Killed = true
			return
		}
		sw.Cut()
		if !swarm.RaceEnabled && alloc.Bytes() != base {
			sw.Viol("C17", "deletion", "memory-not-released", fmt.Sprintf("alloc.Bytes() is %d above the pre-torrent level", alloc.Bytes()-base))
		}
	})
}
