package c17

// Part "webseed-stop" (real time, real loopback sockets, no bubble: a goroutine waiting on a socket never
// counts as blocked there). A web seed accepts the request for a piece and then says nothing. The torrent is
// deleted. "Its goroutines have exited": the fetch must be abandoned, which the server sees as the request's
// context ending. The clean tree does that within a millisecond of Kill; the bound used for the verdict is
// 15 real seconds (the HTTP client's own timeout, which ends any fetch eventually, is 50 s), a watchdog, not
// a deadline anybody comes near.

import (
	"bytes"
	"context"
	"fmt"
	"log"
	"net"
	"net/http"
	"net/http/httptest"
	"net/netip"
	"sync"
	"testing"
	"time"

	"github.com/jech/storrent/config"
	"github.com/jech/storrent/peer"
	"github.com/jech/storrent/protocol"
	"github.com/jech/storrent/tor"
	"verifharness/fixture"
	"verifharness/vk"
)

type stallSrv struct {
	mu      sync.Mutex
	arrived chan string
	ended   chan time.Time
}

func webseedStop(t *testing.T, r *vk.Run) {
	config.DefaultUseWebseeds = true
	config.DefaultDhtMode = config.DhtNone
	config.DefaultUseTrackers = false
	config.MemoryMark = 1 << 40
	peer.DownloadEstimator.Init(3 * time.Second)
	peer.DownloadEstimator.Start()
	peer.UploadEstimator.Init(3 * time.Second)
	peer.UploadEstimator.Start()
	st := &stallSrv{}
	srv := httptest.NewServer(http.HandlerFunc(func(w http.ResponseWriter, q *http.Request) {
		st.mu.Lock()
		arrived, ended := st.arrived, st.ended
		st.mu.Unlock()
		if arrived == nil {
			http.Error(w, "no case", http.StatusGone)
			return
		}
		select {
		case arrived <- q.URL.String():
		default:
		}
		<-q.Context().Done() // say nothing until the client gives up
		select {
		case ended <- time.Now():
		default:
		}
	}))
	defer srv.Close()
	n := r.Env.N(8, 60)
	for i := 0; i < n; i++ {
		if !r.Mine(i) {
			continue
		}
		rng := r.Env.Rng(i)
		style := []string{"getright", "hoffman"}[i%2]
		how := []string{"request-wait", "request", "reader"}[i/2%3]
		d := map[string]any{"part": "webseed-stop", "style": style, "fetch_started_by": how}
		c := r.Begin(i, d)
		func() {
			g := fixture.RandGeo(rng, 1<<20, []uint32{32 << 10, 64 << 10})
			g.Name = fmt.Sprintf("ws%d", i)
			if style == "getright" {
				g.URLList = []string{srv.URL + "/gr/"}
			} else {
				g.HTTPSeeds = []string{srv.URL + "/h"}
			}
			st.mu.Lock()
			st.arrived, st.ended = make(chan string, 4), make(chan time.Time, 4)
			arrived, ended := st.arrived, st.ended
			st.mu.Unlock()
			defer func() {
				st.mu.Lock()
				st.arrived, st.ended = nil, nil
				st.mu.Unlock()
			}()
			tt, err := tor.ReadTorrent("", bytes.NewReader(g.Metainfo()))
			if err != nil {
				c.Inconclusive("ReadTorrent: " + err.Error())
				return
			}
			tt.Log = log.New(&bytes.Buffer{}, "", 0)
			ctx, cancel := context.WithCancel(context.Background())
			defer cancel()
			if _, err := tor.AddTorrent(ctx, tt); err != nil {
				c.Inconclusive("AddTorrent: " + err.Error())
				return
			}
			p := uint32(rng.IntN(g.NumPieces()))
			var rd *tor.Reader
			switch how {
			case "request-wait":
				tt.Request(p, 1, true, true)
			case "request":
				tt.Request(p, 1, true, false)
			case "reader":
				rd = tt.NewReader(context.Background(), int64(p)*int64(g.PieceLen), 100)
				go rd.Read(make([]byte, 100))
			}
			var url string
			select {
			case url = <-arrived:
			case <-time.After(30 * time.Second):
				kctx, kc := context.WithTimeout(context.Background(), 10*time.Second)
				tt.Kill(kctx)
				kc()
				c.Inconclusive("the web seed was not asked within 30 s")
				return
			}
			c.Count("webseed_fetches_stalled", 1)
			kctx, kc := context.WithTimeout(context.Background(), 60*time.Second)
			kerr := tt.Kill(kctx)
			kc()
			killed := time.Now()
			if rd != nil {
				rd.Close()
			}
			if kerr != nil {
				c.Violation("hang", "hang Kill webseed-stalled", fmt.Sprintf("Kill returned %v with a stalled web-seed fetch under way", kerr), d)
				return
			}
			select {
			case at := <-ended:
				c.Count("webseed_fetches_abandoned_at_deletion", 1)
				c.R.Max("max:ms_from_kill_to_fetch_abandoned", at.Sub(killed).Milliseconds())
			case <-time.After(15 * time.Second):
				c.Violation("deletion", "webseed-fetch-survives-deletion "+style, fmt.Sprintf("15 s after Kill returned, the fetch %s started for the deleted torrent (by %s) is still waiting for the web seed: its goroutine and connection live on", url, how), d)
			}
		}()
		c.FP(vk.Hash64("webseed-stop", style, how), true)
		c.End()
	}
}

// busyQueueStop (same real-time part): the torrent is deleted while its mailbox is full and its peers still
// have reports to hand over. "All its peer connections are closed": every remote end must see its connection
// closed. Real time because a peer that spins in its exit path (instead of blocking) cannot be waited for
// in a bubble. Bound for the verdict: 15 real seconds (the clean tree closes them within milliseconds).
func busyQueueStop(t *testing.T, r *vk.Run, base int) {
	n := r.Env.N(6, 40)
	for k := 0; k < n; k++ {
		i := base + k
		if !r.Mine(i) {
			continue
		}
		rng := r.Env.Rng(i)
		np := 1 + rng.IntN(5)
		d := map[string]any{"part": "webseed-stop", "family": "deletion-with-full-mailbox", "peers": np}
		c := r.Begin(i, d)
		func() {
			g := fixture.RandGeo(rng, 1<<20, []uint32{32 << 10, 64 << 10})
			g.Name = fmt.Sprintf("bq%d", i)
			tt, err := tor.ReadTorrent("", bytes.NewReader(g.Metainfo()))
			if err != nil {
				c.Inconclusive("ReadTorrent: " + err.Error())
				return
			}
			tt.Log = log.New(&bytes.Buffer{}, "", 0)
			ctx, cancel := context.WithCancel(context.Background())
			defer cancel()
			if _, err := tor.AddTorrent(ctx, tt); err != nil {
				c.Inconclusive("AddTorrent: " + err.Error())
				return
			}
			closed := make([]chan struct{}, np)
			for p := 0; p < np; p++ {
				a, b := net.Pipe()
				closed[p] = make(chan struct{})
				go func(b net.Conn, ch chan struct{}) {
					buf := make([]byte, 4096)
					for {
						if _, err := b.Read(buf); err != nil {
							close(ch)
							return
						}
					}
				}(b, closed[p])
				id := []byte(fmt.Sprintf("-VF0004-busyq%07d", p))
				addr := netip.AddrPortFrom(netip.AddrFrom4([4]byte{8, 8, 4, byte(1 + p)}), 6881)
				if err := tt.NewPeer("", a, addr, false, protocol.HandshakeResult{Hash: tt.Hash, Id: id, Fast: p%2 == 0, Extended: true}, nil); err != nil {
					c.Inconclusive("NewPeer: " + err.Error())
					return
				}
			}
			if _, err := tt.GetStats(); err != nil { // the peers are attached
				c.Inconclusive("GetStats: " + err.Error())
				return
			}
			time.Sleep(50 * time.Millisecond)
			hold := make(chan *peer.TorStats)
			tt.Event <- peer.TorGetStats{Ch: hold}
			time.Sleep(20 * time.Millisecond)
			killDone := make(chan error, 1)
			go func() {
				kctx, kc := context.WithTimeout(context.Background(), 60*time.Second)
				defer kc()
				killDone <- tt.Kill(kctx)
			}()
			time.Sleep(20 * time.Millisecond) // the stop is queued behind the held query
			for f := 0; f < 600; f++ {
				select {
				case tt.Event <- peer.TorAnnounce{IPv6: false}:
				default:
					f = 600
				}
			}
			<-hold
			var kerr error
			select {
			case kerr = <-killDone:
			case <-time.After(90 * time.Second):
				c.Violation("hang", "hang Kill full-mailbox", "Kill has not returned 90 s after the loop was released", d)
				return
			}
			if kerr != nil {
				c.Violation("hang", "hang Kill full-mailbox", fmt.Sprintf("Kill returned %v", kerr), d)
				return
			}
			c.Count("deletions_with_full_mailbox", 1)
			deadline := time.After(15 * time.Second)
			for p := 0; p < np; p++ {
				select {
				case <-closed[p]:
					c.Count("connections_seen_closed", 1)
				case <-deadline:
					c.Violation("deletion", "peer-connection-not-closed full-mailbox-at-deletion", fmt.Sprintf("15 s after Kill returned nil, peer %d of %d still has its connection open (the mailbox was full when the torrent stopped)", p, np), d)
					return
				}
			}
		}()
		c.FP(vk.Hash64("busyq", np), true)
		c.End()
	}
}
