// C17: torrent lifecycle — no call hangs, deletion is complete.
// Every exported blocking operation x every position of the loop's stop
// relative to the call (arranged exactly with the parked-mailbox technique)
// x {0,1,5 peers} x {0,2 blocked readers} x event queue {empty, 400 deep, full}.
package c17

import (
	"context"
	"errors"
	"fmt"
	"net/netip"
	"os"
	"sync"
	"testing"
	"time"

	"github.com/jech/storrent/alloc"
	"github.com/jech/storrent/known"
	"github.com/jech/storrent/peer"
	"github.com/jech/storrent/tor"
	"verifharness/fixture"
	"verifharness/refwire"
	"verifharness/swarm"
	"verifharness/vk"
)

var opNames = []string{"GetStats", "GetAvailable", "DropPeer", "GetPeer", "GetPeers", "GetKnown", "GetKnowns", "GetConf", "SetConf",
	"Request", "RequestWait", "Withdraw", "Have", "BadPeer", "AddKnown", "NewPeer", "Announce", "Kill", "ReaderRead", "ReaderReadComplete", "InfoComplete",
	"PeerError", "PeerHangup"}

var positions = []string{"already-stopped", "stop-before-call", "call-before-stop", "simultaneous", "context-cancelled-before-call", "context-cancelled-simultaneous",
	"stop-queued-mailbox-full", "live-peer-leaves-mailbox-full"}

type result struct {
	mu       sync.Mutex
	returned bool
	err      error
	n        int
	note     string
}

func (r *result) set(n int, err error, note string) {
	r.mu.Lock()
	r.returned, r.n, r.err, r.note = true, n, err, note
	r.mu.Unlock()
}

func (r *result) get() (bool, int, error, string) {
	r.mu.Lock()
	defer r.mu.Unlock()
	return r.returned, r.n, r.err, r.note
}

type env struct {
	sw      *swarm.Swarm
	tr      *swarm.Tor
	t       *tor.Torrent
	newPeer *swarm.Remote
	rdr     *tor.Reader
	remotes []*swarm.Remote
}

// call runs op in the calling goroutine.
func (e *env) call(op string, res *result) {
	t := e.t
	switch op {
	case "GetStats":
		v, err := t.GetStats()
		res.set(b2i(v != nil), err, "")
	case "GetAvailable":
		v, err := t.GetAvailable()
		res.set(len(v), err, "")
	case "DropPeer":
		_, err := t.DropPeer()
		res.set(0, err, "")
	case "GetPeer":
		_, err := t.GetPeer(make([]byte, 20))
		res.set(0, err, "")
	case "GetPeers":
		v, err := t.GetPeers()
		res.set(len(v), err, "")
	case "GetKnown":
		_, err := t.GetKnown(nil, netip.MustParseAddrPort("8.8.8.8:6881"))
		res.set(0, err, "")
	case "GetKnowns":
		v, err := t.GetKnowns()
		res.set(len(v), err, "")
	case "GetConf":
		_, err := t.GetConf()
		res.set(0, err, "")
	case "SetConf":
		err := t.SetConf(peer.TorConf{})
		res.set(0, err, "")
	case "Request":
		_, _, err := t.Request(1, 1, true, false)
		res.set(0, err, "")
	case "RequestWait":
		_, ch, err := t.Request(1, 1, true, true)
		res.set(b2i(ch != nil), err, "")
	case "Withdraw":
		_, _, err := t.Request(1, 1, false, false)
		res.set(0, err, "")
	case "Have":
		res.set(0, t.Have(0, true), "")
	case "BadPeer":
		res.set(0, t.BadPeer(1, true), "")
	case "AddKnown":
		res.set(0, t.AddKnown(netip.MustParseAddrPort("8.8.4.4:6881"), nil, "", known.Tracker), "")
	case "NewPeer":
		r := e.tr.Connect(swarm.RemoteOpts{Fast: true, Ext: true})
		e.newPeer = r
		res.set(0, nil, "connect issued")
	case "Announce":
		res.set(0, tor.Announce(t.Hash, false), "")
	case "Kill":
		ctx, cancel := context.WithTimeout(context.Background(), 2*time.Hour)
		err := t.Kill(ctx)
		cancel()
		res.set(0, err, "")
	case "ReaderRead", "ReaderReadComplete":
		buf := make([]byte, 1000)
		n, err := e.rdr.Read(buf)
		res.set(n, err, "")
	case "InfoComplete":
		res.set(b2i(t.InfoComplete()), nil, "")
	case "PeerError":
		// a peer leaves on its own account: it sends a frame no peer may send and gets dropped
		if len(e.remotes) > 0 {
			e.remotes[0].SendRaw([]byte{0x7f, 0xff, 0xff, 0xff, 9})
		}
		res.set(0, nil, "oversized frame sent")
	case "PeerHangup":
		if len(e.remotes) > 0 {
			e.remotes[0].Close()
		}
		res.set(0, nil, "remote hung up")
	}
}

func b2i(b bool) int {
	if b {
		return 1
	}
	return 0
}

type scase struct {
	Op    string `json:"op"`
	Pos   string `json:"position"`
	Peers int    `json:"peers"`
	Rdrs  int    `json:"blocked_readers"`
	Depth int    `json:"queue_depth"`
	Rep   int    `json:"rep"`
}

func enumerate(tier string) []scase {
	var out []scase
	for _, op := range opNames {
		for _, pos := range positions {
			for _, np := range []int{0, 1, 5} {
				for _, nr := range []int{0, 2} {
					for _, depth := range []int{0, 400, 512} {
						if depth == 512 && (np != 1 || nr != 0) {
							continue // the full-queue variant once per (op, position)
						}
						if (pos == "already-stopped") && depth != 0 {
							continue
						}
						if (op == "PeerError" || op == "PeerHangup") && np == 0 {
							continue
						}
						if pos == "live-peer-leaves-mailbox-full" && (depth != 0 || nr != 0 || np == 0) {
							continue // once per (op, peers)
						}
						if pos == "stop-queued-mailbox-full" && (depth != 512 || np == 0) {
							// the stop is queued first, then the mailbox is filled to the brim: once per (op, peers)
							if depth != 0 || nr != 0 || np == 0 {
								continue
							}
						}
						reps := 1
						if pos == "live-peer-leaves-mailbox-full" {
							reps = 3
						}
						if pos == "simultaneous" || pos == "context-cancelled-simultaneous" {
							reps = 60
							if tier == "thorough" {
								reps = 300
							}
							if depth != 0 {
								continue
							}
						}
						for rep := 0; rep < reps; rep++ {
							out = append(out, scase{op, pos, np, nr, depth, rep})
						}
					}
				}
			}
		}
	}
	return out
}

const bound = time.Hour

func runCase(t *testing.T, c *vk.C, sc scase) {
	swarm.Run(t, c, "C17", func(sw *swarm.Swarm) {
		base := alloc.Bytes()
		g := &fixture.Geo{Name: "life", PieceLen: 32 << 10, Length: 5*(32<<10) - 77, Seed: 99}
		tr := sw.AddTorrent(g, swarm.TorOpts{})
		e := &env{sw: sw, tr: tr, t: tr.T}
		tr.Prefill([]int{0, 3})
		var remotes []*swarm.Remote
		for i := 0; i < sc.Peers; i++ {
			r := tr.Connect(swarm.RemoteOpts{Fast: i%2 == 0, Ext: true})
			r.SendExt0(swarm.StdExt0(0, 0))
			remotes = append(remotes, r)
		}
		e.remotes = remotes
		// blocked readers (piece 2 never arrives)
		var blocked []*result
		var brs []*tor.Reader
		for i := 0; i < sc.Rdrs; i++ {
			rd := tr.T.NewReader(context.Background(), int64(2*(32<<10))+int64(i), 1000)
			brs = append(brs, rd)
			res := &result{}
			blocked = append(blocked, res)
			go func() {
				buf := make([]byte, 100)
				n, err := rd.Read(buf)
				res.set(n, err, "")
			}()
		}
		if sc.Op == "ReaderRead" {
			e.rdr = tr.T.NewReader(context.Background(), int64(2*(32<<10)), 5000) // piece 2: not available
		} else if sc.Op == "ReaderReadComplete" {
			e.rdr = tr.T.NewReader(context.Background(), 100, 5000) // piece 0: complete
		}
		sw.Cut()
		for i, b := range blocked {
			if ret, _, _, _ := b.get(); ret {
				c.Inconclusive(fmt.Sprintf("reader %d did not block", i))
			}
		}

		res := &result{}
		killRes := &result{}
		kill := func() {
			ctx, cancel := context.WithTimeout(context.Background(), 2*time.Hour)
			err := tr.T.Kill(ctx)
			cancel()
			if err == nil && tor.Get(tr.T.Hash) != nil {
				// "after deletion completes the torrent is no longer listed": judged at the instant Kill returns
				sw.Viol("C17", "deletion", "still-listed-when-kill-returned", "tor.Get(hash) still finds the torrent at the moment Kill returned nil")
			}
			killRes.set(0, err, "")
			tr.Killed = true
		}
		// park the loop inside a handler: it blocks sending the reply on our unbuffered channel
		park := func() chan *peer.TorStats {
			ch := make(chan *peer.TorStats)
			tr.T.Event <- peer.TorGetStats{Ch: ch}
			sw.Cut()
			return ch
		}
		fill := func() {
			n := sc.Depth
			for i := 0; i < n; i++ {
				select {
				case tr.T.Event <- peer.TorAnnounce{IPv6: false}: // cheap: DHT mode is none
				default:
					i = n
				}
			}
		}
		stopViaCtx := sc.Pos == "context-cancelled-before-call" || sc.Pos == "context-cancelled-simultaneous"
		served := false // the call's event was queued before the stop: it must be served normally
		switch sc.Pos {
		case "already-stopped":
			kill()
			sw.Cut()
			go e.call(sc.Op, res)
		case "stop-before-call":
			ch := park()
			fill()
			go kill()
			sw.Cut()
			qlen := len(tr.T.Event)
			go e.call(sc.Op, res)
			sw.Cut()
			c.Count("queue_len_at_parked_cut", int64(qlen))
			if qlen < 1 {
				c.Inconclusive("stop was not queued while the loop was parked")
			}
			<-ch // unpark
		case "call-before-stop":
			ch := park()
			fill()
			go e.call(sc.Op, res)
			sw.Cut()
			qlen := len(tr.T.Event)
			go kill()
			sw.Cut()
			c.Count("queue_len_at_parked_cut", int64(qlen))
			served = sc.Depth < 512
			<-ch
		case "simultaneous":
			go kill()
			go e.call(sc.Op, res)
		case "context-cancelled-before-call":
			ch := park()
			fill()
			sw.CancelContext()
			sw.Cut()
			go e.call(sc.Op, res)
			sw.Cut()
			<-ch
			tr.Killed = true
		case "context-cancelled-simultaneous":
			go sw.CancelContext()
			go e.call(sc.Op, res)
			tr.Killed = true
		case "live-peer-leaves-mailbox-full":
			// the peers are interested (we hold pieces 0 and 3): the choking round will ask each for its status
			for _, r := range remotes {
				r.Send(refwire.Msg{Kind: refwire.KInterested})
			}
			sw.Cut()
			// nothing is being deleted yet: a peer leaves a live torrent while the loop is busy and the mailbox
			// full, timers run, the loop resumes; then the call, which must be served, and only then the stop
			ch := park()
			for i := 0; i < 600; i++ {
				select {
				case tr.T.Event <- peer.TorAnnounce{IPv6: false}:
				default:
					i = 600
				}
			}
			remotes[0].Close()
			sw.Cut()
			time.Sleep([]time.Duration{0, 25 * time.Second, 45 * time.Second}[sc.Rep%3]) // the 20 s ticker (choking round, which asks every peer for its status) becomes due or not
			sw.Cut()
			<-ch
			time.Sleep(2 * time.Second)
			sw.Cut()
			go e.call(sc.Op, res)
			sw.Cut()
			time.Sleep(time.Second)
			sw.Cut()
			if ret, _, _, _ := res.get(); ret || sc.Op == "ReaderRead" {
				// (a read of a piece nobody has blocks on a live torrent; it must fail once the torrent stops)
				served = sc.Op != "ReaderRead"
				go kill()
			} else {
				// the call is stuck on a live torrent: reported below as a hang; do not pile a Kill on top
				tr.Killed = true
			}
		case "stop-queued-mailbox-full":
			// the stop sits at the head of a mailbox that is then filled to the brim; whatever the call (or the
			// departing peer) wants to tell the loop cannot be queued, and the loop stops without draining
			ch := park()
			go kill()
			sw.Cut()
			for i := 0; i < 600; i++ {
				select {
				case tr.T.Event <- peer.TorAnnounce{IPv6: false}:
				default:
					i = 600
				}
			}
			qlen := len(tr.T.Event)
			c.Count("queue_len_at_parked_cut", int64(qlen))
			if qlen < cap(tr.T.Event) {
				c.Inconclusive("mailbox not full")
			}
			go e.call(sc.Op, res)
			sw.Cut()
			time.Sleep(time.Second)
			sw.Cut()
			<-ch
		}
		sw.Cut()
		time.Sleep(time.Second)
		sw.Cut()
		// 1. everything returned?
		hang := func(what string, r *result) bool {
			if ret, _, _, _ := r.get(); ret {
				return false
			}
			time.Sleep(bound)
			sw.Cut()
			if ret, _, _, _ := r.get(); ret {
				c.Count("slow_returns", 1)
				return false
			}
			sw.Viol("C17", "hang", fmt.Sprintf("hang %s %s", what, sc.Pos), fmt.Sprintf("%s has not returned %v (virtual) after the torrent stopped; case %+v", what, bound, sc))
			return true
		}
		hung := hang(sc.Op, res)
		if !stopViaCtx {
			hung = hang("Kill", killRes) || hung
		}
		for i, b := range blocked {
			if hang("blocked Reader.Read", b) {
				hung = true
			}
			if ret, n, err, _ := b.get(); ret {
				if n > 0 {
					sw.Viol("C17", "deletion", "reader-data-after-deletion", fmt.Sprintf("blocked reader %d returned %d bytes after the torrent was deleted", i, n))
				} else if err == nil {
					sw.Viol("C17", "deletion", "reader-nil-error-after-deletion", fmt.Sprintf("blocked reader %d returned (0, nil) after the torrent was deleted", i))
				}
			}
		}
		c.Count("calls_checked", 1)
		// 2. result of the call
		if ret, n, err, _ := res.get(); ret {
			dead := errors.Is(err, tor.ErrTorrentDead) || errors.Is(err, os.ErrNotExist) || errors.Is(err, context.Canceled)
			switch {
			case served && !stopViaCtx && err != nil && sc.Op != "Kill" && sc.Op != "ReaderRead":
				sw.Viol("C17", "result", "call-queued-before-stop-not-served "+sc.Op, fmt.Sprintf("%s was queued before the stop but returned %v", sc.Op, err))
			case err != nil && !dead && sc.Op != "ReaderRead" && sc.Op != "ReaderReadComplete" && sc.Op != "Kill":
				sw.Viol("C17", "result", "unexpected-error "+sc.Op, fmt.Sprintf("%s returned %v", sc.Op, err))
			}
			if err == nil {
				c.Count("calls_served", 1)
			} else {
				c.Count("calls_refused_dead", 1)
			}
			if (sc.Op == "ReaderRead") && sc.Pos == "already-stopped" {
				if n > 0 || err == nil {
					sw.Viol("C17", "deletion", "reader-after-deletion", fmt.Sprintf("first Read after the deletion returned (%d, %v)", n, err))
				}
			}
			if sc.Op == "ReaderReadComplete" && sc.Pos == "already-stopped" && n > 0 {
				sw.Viol("C17", "deletion", "reader-data-after-deletion", fmt.Sprintf("Read after the deletion returned %d bytes", n))
			}
		}
		// 3. deletion is complete
		if tor.Get(tr.T.Hash) != nil {
			sw.Viol("C17", "deletion", "still-listed", "tor.Get(hash) still finds the torrent after it stopped")
		}
		for i, r := range append(remotes, e.newPeer) {
			if r == nil {
				continue
			}
			if !r.Closed() {
				cls := "peer-connection-not-closed"
				if r == e.newPeer {
					cls = "peer-connection-not-closed NewPeer-" + sc.Pos
				}
				sw.Viol("C17", "deletion", cls, fmt.Sprintf("remote %d has not seen its connection closed at the cut after the torrent stopped", i))
			} else {
				c.Count("connections_seen_closed", 1)
			}
		}
		if !swarm.RaceEnabled && alloc.Bytes() != base {
			sw.Viol("C17", "deletion", "memory-not-released", fmt.Sprintf("alloc.Bytes() is %d above the pre-torrent level", alloc.Bytes()-base))
		}
		// post-mortem calls (in goroutines: they must not hang either)
		if !hung {
			var pms []*result
			for _, rd := range brs {
				pm := &result{}
				pms = append(pms, pm)
				go func() {
					buf := make([]byte, 10)
					n, err := rd.Read(buf)
					pm.set(n, err, "")
				}()
			}
			sw.Cut()
			for _, pm := range pms {
				if hang("post-mortem Reader.Read", pm) {
					hung = true
					continue
				}
				if _, n, err, _ := pm.get(); n > 0 || err == nil {
					sw.Viol("C17", "deletion", "reader-after-deletion", fmt.Sprintf("Read after deletion returned (%d, %v)", n, err))
				}
			}
			if !hung {
				for _, rd := range brs {
					rd.Close()
				}
				if e.rdr != nil {
					e.rdr.Close()
				}
			}
		}
	})
}

func TestCheck(t *testing.T) {
	if os.Getenv("VERIF_PART") == "hashdel" {
		// the same family reporting under another property (C01: nothing readable once deletion is complete)
		prop := os.Getenv("VERIF_PROP")
		r2 := vk.New(prop)
		defer r2.Done()
		for v := 0; v < r2.Env.N(16, 200); v++ {
			if !r2.Mine(v) {
				continue
			}
			c := r2.Begin(v, map[string]any{"family": "piece-being-hashed-at-deletion", "variant": v})
			hashingAtDeletion(t, c, prop, v)
			c.FP(vk.Hash64("hashdel", v%4), true)
			c.End()
		}
		r2.Finish()
		return
	}
	r := vk.New("C17")
	defer r.Done()
	if os.Getenv("VERIF_PART") == "webseed-stop" {
		webseedStop(t, r)
		busyQueueStop(t, r, 1000)
		r.Finish()
		return
	}
	cases := enumerate(r.Env.Tier)
	seeds := r.Env.N(1, 5)
	idx := 0
	for s := 0; s < seeds; s++ {
		for _, sc := range cases {
			i := idx
			idx++
			if !r.Mine(i) {
				continue
			}
			c := r.Begin(i, sc)
			runCase(t, c, sc)
			c.FP(vk.Hash64(sc.Op, sc.Pos, sc.Peers, sc.Rdrs, sc.Depth), true)
			c.End()
		}
	}
	for v := 0; v < r.Env.N(16, 200); v++ {
		i := idx
		idx++
		if !r.Mine(i) {
			continue
		}
		c := r.Begin(i, map[string]any{"family": "piece-being-hashed-at-deletion", "variant": v})
		hashingAtDeletion(t, c, "C17", v)
		c.FP(vk.Hash64("hashdel", v%4), true)
		c.End()
	}
	for _, op := range dupOps {
		for _, racing := range []bool{false, true} {
			reps := 1
			if racing {
				reps = r.Env.N(20, 300)
			}
			for rep := 0; rep < reps; rep++ {
				i := idx
				idx++
				if !r.Mine(i) {
					continue
				}
				c := r.Begin(i, map[string]any{"family": "second-object-for-a-listed-hash", "op": op, "found_while_being_added": racing, "rep": rep})
				dupAdd(t, c, op, racing, rep)
				c.FP(vk.Hash64("dupadd", op, racing), true)
				c.End()
			}
		}
	}
	for v := 0; v < r.Env.N(24, 400); v++ {
		i := idx
		idx++
		if !r.Mine(i) {
			continue
		}
		c := r.Begin(i, map[string]any{"family": "reader-cancelled-while-its-request-is-queued", "variant": v})
		readerCancelledWhileQueued(t, c, v)
		c.FP(vk.Hash64("rcq", v%20), true)
		c.End()
	}
	for v := 0; v < r.Env.N(12, 120); v++ {
		i := idx
		idx++
		if !r.Mine(i) {
			continue
		}
		c := r.Begin(i, map[string]any{"family": "stalled-peer-at-deletion", "variant": v})
		stalledPeerAtDeletion(t, c, v)
		c.FP(vk.Hash64("stalled", v%12), true)
		c.End()
	}
	r.Count("enumerated_cases", int64(len(cases)))
	r.Finish()
}
