package c17

// A second Torrent object for a hash that is already listed: AddTorrent refuses it (os.ErrExist). Whoever
// holds that object (the web UI does, for a moment) may still call anything on it: every call returns, with
// "torrent is dead" or a harmless answer, and the listed torrent is not disturbed. And the same calls made
// through tor.Get while a torrent is being added (the window between listing and start) return too.

import (
	"bytes"
	"errors"
	"fmt"
	"os"
	"sync"
	"testing"
	"time"

	"github.com/jech/storrent/tor"
	"verifharness/fixture"
	"verifharness/swarm"
	"verifharness/vk"
)

var dupOps = []string{"GetStats", "GetAvailable", "DropPeer", "GetPeers", "GetKnowns", "GetConf", "SetConf", "Request", "Withdraw", "Have", "BadPeer", "AddKnown", "Kill", "InfoComplete", "Announce"}

func dupAdd(t *testing.T, c *vk.C, op string, racing bool, rep int) {
	swarm.Run(t, c, "C17", func(sw *swarm.Swarm) {
		g := &fixture.Geo{Name: "dup", PieceLen: 32 << 10, Length: 3*(32<<10) - 5, Seed: uint64(11 + rep)}
		res := &result{}
		var tr *swarm.Tor
		if !racing {
			tr = sw.AddTorrent(g, swarm.TorOpts{})
			t2, err := tor.ReadTorrent("", bytes.NewReader(g.Metainfo()))
			if err != nil {
				c.Inconclusive("ReadTorrent: " + err.Error())
				return
			}
			_, aerr := tor.AddTorrent(sw.Ctx, t2)
			if !errors.Is(aerr, os.ErrExist) {
				sw.Viol("C17", "result", "duplicate-add-not-refused", fmt.Sprintf("AddTorrent of an already listed hash returned %v", aerr))
				return
			}
			e := &env{sw: sw, tr: tr, t: t2}
			go e.call(op, res)
		} else {
			// the torrent is being added by one goroutine while another one finds it in the table and calls
			t3, err := tor.ReadTorrent("", bytes.NewReader(g.Metainfo()))
			if err != nil {
				c.Inconclusive("ReadTorrent: " + err.Error())
				return
			}
			var wg sync.WaitGroup
			wg.Add(1)
			go func() {
				defer wg.Done()
				for k := 0; k < 200000; k++ {
					if tt := tor.Get(t3.Hash); tt != nil {
						e := &env{sw: sw, t: tt}
						e.call(op, res)
						return
					}
				}
				res.set(0, nil, "never listed")
			}()
			tr = sw.Adopt(t3, g) // AddTorrent
			_ = wg
		}
		sw.Cut()
		time.Sleep(time.Second)
		sw.Cut()
		if ret, _, _, _ := res.get(); !ret {
			time.Sleep(bound)
			sw.Cut()
		}
		pos := "rejected-duplicate"
		if racing {
			pos = "found-while-being-added"
		}
		if ret, _, err, _ := res.get(); !ret {
			sw.Viol("C17", "hang", fmt.Sprintf("hang %s %s", op, pos), fmt.Sprintf("%s has not returned after %v (virtual)", op, bound))
			tr.Killed = true // do not pile a Kill on top of a stuck call
			return
		} else if err == nil {
			// (a call that only posts an event may find room in the refused object's mailbox and report
			// success; nothing reads it. That it returns is what is demanded.)
			c.Count("calls_on_refused_object_returning_nil", 1)
		}
		c.Count("calls_checked", 1)
		// the listed torrent is alive and well (unless the call was its Kill, through Get)
		if !(racing && op == "Kill") {
			if _, err := tr.T.GetStats(); err != nil {
				sw.Viol("C17", "result", "listed-torrent-disturbed "+pos, fmt.Sprintf("GetStats on the listed torrent returned %v after %s on the other object", err, op))
			}
		} else {
			tr.Killed = true
		}
	})
}
