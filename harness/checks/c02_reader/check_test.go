// C02: a Reader is an exact, live view of its byte range.
// A seekable-file reference model over truth[offset, offset+length) is stepped
// next to real tor.Readers, HTTP Range requests (through the mux) and FUSE
// handle reads, while scripted seeds (honest, slow, corrupting) deliver the
// data and pieces are evicted between reads.  Blocked reads are judged on
// bounded progress in virtual time; cancellation and deletion must fail them
// promptly.
package c02

import (
	"context"
	"errors"
	"fmt"
	"io"
	"math/rand/v2"
	"mime"
	"mime/multipart"
	"net/http"
	"net/http/httptest"
	"os"
	"runtime"
	"strings"
	"sync"
	"sync/atomic"
	"testing"
	"testing/synctest"
	"time"

	"bazil.org/fuse"
	"bazil.org/fuse/fs"
	"github.com/jech/storrent/config"
	storfuse "github.com/jech/storrent/fuse"
	"github.com/jech/storrent/tor"
	"github.com/jech/storrent/verifhook"
	"verifharness/fixture"
	"verifharness/swarm"
	"verifharness/vk"
)

var prop = "C02" // C01 runs the same workloads with the content oracle reporting under C01

const progressBound = 10 * time.Minute
const promptBound = time.Minute

// call runs f in a goroutine and waits (in virtual time) until it returns or the bound passes.
// It returns false if f is still blocked after the bound.
func call(sw *swarm.Swarm, bound time.Duration, f func()) bool {
	return callTick(sw, bound, f, nil)
}

// callTick is call with a callback at every wait step (used to keep an honest seed connected).
func callTick(sw *swarm.Swarm, bound time.Duration, f func(), tick func()) bool {
	var mu sync.Mutex
	done := false
	go func() {
		f()
		mu.Lock()
		done = true
		mu.Unlock()
	}()
	isDone := func() bool { mu.Lock(); defer mu.Unlock(); return done }
	sw.Cut()
	step := 250 * time.Millisecond
	for waited := time.Duration(0); !isDone() && waited < bound; waited += step {
		time.Sleep(step)
		sw.Cut()
		if tick != nil {
			tick()
		}
		if waited > 20*time.Second {
			step = 5 * time.Second
		}
	}
	return isDone()
}

// model of one reader
type rmodel struct {
	r       *tor.Reader
	off, ln int64
	pos     int64
	ctx     context.Context
	cancel  context.CancelFunc
	id      int
	dead    bool
}

type env struct {
	sw           *swarm.Swarm
	tr           *swarm.Tor
	g            *fixture.Geo
	seeds        []*swarm.Remote
	stats        map[string]int
	honestSeedUp func() bool
	keepHonest   func()       // reconnects an honest seed if storrent dropped the last one
	honestGap    time.Time    // last moment at which no honest seed was connected
	slowHash     bool         // hashing takes virtual time in this history
	hashing      atomic.Int64 // pieces that have entered hashing so far
	lingerRead   atomic.Bool  // the next ReadAt is to linger at its yield point
	lingering    atomic.Bool  // ... and one did
}

// racingRead: one Read of the reader is under way inside the store (it has looked at the piece and not yet
// taken the lock) when everything is evicted and the seeds, corrupting ones included, start refilling.
// Whatever the Read returns must be the true content, or nothing.
func (e *env) racingRead(m *rmodel) bool {
	if !e.slowHash || m.pos >= m.ln {
		return true
	}
	e.lingering.Store(false)
	e.lingerRead.Store(true)
	buf := make([]byte, 65536)
	var got int
	var err error
	done := make(chan struct{})
	go func() {
		defer close(done)
		got, err = m.r.Read(buf)
	}()
	e.sw.Cut()
	if e.lingering.Load() {
		e.tr.T.Pieces.Expire(0, nil, func(ix uint32) { e.tr.T.Have(ix, false) })
		e.sw.Act("evict all while reader%d is inside ReadAt", m.id)
		e.sw.Tag("evict")
		e.stats["evictions_during_a_read"]++
	}
	e.lingerRead.Store(false)
	for k := 0; k < 2400; k++ {
		select {
		case <-done:
			k = 2400
		default:
			time.Sleep(250 * time.Millisecond)
			e.sw.Cut()
			e.keepHonest()
		}
	}
	select {
	case <-done:
	default:
		m.dead = true // counted by the ordinary progress rule elsewhere; here only content is judged
		return false
	}
	e.sw.Act("reader%d racing read at %d -> (%d, %v)", m.id, m.pos, got, err)
	if got > 0 {
		if int64(got) > m.ln-m.pos {
			e.sw.Viol("C02", "model", "read-beyond-range", fmt.Sprintf("reader%d: racing Read returned %d bytes, only %d left", m.id, got, m.ln-m.pos))
			return false
		}
		tr := e.g.Truth(m.off+m.pos, got)
		for i := range tr {
			if tr[i] != buf[i] {
				e.sw.Viol("C02", "model", "read-content", fmt.Sprintf("reader%d: a Read that was inside the store while its piece was evicted and refilled returned a byte (position %d) that differs from the true content", m.id, m.pos+int64(i)))
				e.sw.Viol("C01", "content", "reader-content", fmt.Sprintf("tor.Reader returned a byte at torrent offset %d that differs from the true content", m.off+m.pos+int64(i)))
				return false
			}
		}
		e.stats["bytes_compared"] += got
		m.pos += int64(got)
	}
	if err != nil && !errors.Is(err, io.EOF) {
		e.sw.Viol("C02", "model", "read-error", fmt.Sprintf("reader%d: racing Read returned error %v", m.id, err))
		return false
	}
	return true
}

// cancelWhileLoopBusy: a new reader's first request reaches the torrent while its loop is busy with something else
// (parked answering a statistics query), and the reader's context is cancelled before the loop gets to it.  The
// Read fails, and the torrent goes on serving everybody else: the loop gets past the request of the consumer
// that left.
func (e *env) cancelWhileLoopBusy(rng *rand.Rand) bool {
	sw := e.sw
	e.evict(true, rng)
	off, ln := randWindow(rng, e.g)
	if ln == 0 {
		return true
	}
	ctx, cancel := context.WithCancel(context.Background())
	defer cancel()
	r := e.tr.T.NewReader(ctx, off, ln)
	defer runtime.SetFinalizer(r, nil)
	defer r.Close()
	release := e.tr.ParkLoop()
	if release == nil {
		return true
	}
	type rres struct {
		n   int
		err error
	}
	done := make(chan rres, 1)
	go func() {
		n, err := r.Read(make([]byte, 1000))
		done <- rres{n, err}
	}()
	synctest.Wait()
	queued := len(e.tr.T.Event) > 0
	cancel()
	synctest.Wait()
	if rng.IntN(2) == 0 {
		time.Sleep(2 * time.Second)
	}
	release()
	sw.Act("a reader at [%d,+%d) is cancelled while its first request waits behind a busy loop (queued: %v)", off, ln, queued)
	tm := time.NewTimer(promptBound)
	select {
	case res := <-done:
		tm.Stop()
		if res.err == nil && res.n == 0 {
			sw.Viol("C02", "prompt-failure", "cancelled-read-returns-nothing", "Read of a cancelled reader returned (0, nil)")
			return false
		}
	case <-tm.C:
		sw.Viol("C02", "prompt-failure", "blocked-read-survives-cancel request-queued", fmt.Sprintf("a Read whose context was cancelled while its request was queued is still blocked %v (virtual) later", promptBound))
		return false
	}
	if queued {
		e.stats["reads_cancelled_while_request_queued"]++
	}
	sw.Cut()
	// the torrent still serves the others
	return e.tr.LoopAlive("C02", "after-reader-cancelled-while-request-queued")
}

// awaitHashing lets virtual time pass (no reads) until some piece enters hashing, at most two seconds:
// the next read then lands while a piece has all of its data and is not verified yet.
func (e *env) awaitHashing() {
	if !e.slowHash {
		return
	}
	h0 := e.hashing.Load()
	for k := 0; k < 200 && e.hashing.Load() == h0; k++ {
		time.Sleep(10 * time.Millisecond)
	}
	if e.hashing.Load() != h0 {
		e.stats["reads_while_a_piece_is_being_hashed"]++
	}
}

// readOnce performs one Read of n bytes with retries on (0,nil), judges it against the model.
// It returns false when the history should stop (violation or dead reader).
func (e *env) readOnce(m *rmodel, n int) bool {
	sw := e.sw
	buf := make([]byte, n)
	for i := range buf {
		buf[i] = 0x5A
	}
	var got int
	var err error
	spins := 0
	ok := callTick(sw, progressBound+time.Minute, func() {
		for {
			got, err = m.r.Read(buf)
			if got != 0 || err != nil || n == 0 {
				return
			}
			// (0, nil): allowed transiently (the piece was evicted under us); io.ReadFull and
			// net/http retry at once, we retry every 100 virtual ms so that time can pass
			spins++
			if spins > int(progressBound/(100*time.Millisecond)) {
				return
			}
			time.Sleep(100 * time.Millisecond)
		}
	}, e.keepHonest)
	e.stats["reads"]++
	sw.Act("reader%d read(%d) at %d -> (%d, %v) spins=%d", m.id, n, m.pos, got, err, spins)
	if !ok || (got == 0 && err == nil && n > 0) {
		if time.Since(e.honestGap) > progressBound/2 {
			cls := "blocked"
			if spins > 0 {
				cls = "spinning-on-zero-reads"
			}
			sw.Viol("C02", "progress", "reader-no-progress "+cls, fmt.Sprintf("reader%d: Read(%d) at position %d of [%d,+%d) made no progress for %v (virtual) although an honest unchoking seed holding the data is connected (%d zero-byte returns)", m.id, n, m.pos, m.off, m.ln, progressBound, spins))
		} else {
			// storrent dropped the honest seed (it shared a failed piece with a corrupting one) within
			// the last five minutes: the premise of the progress clause did not hold long enough
			e.stats["progress_not_demanded_honest_seed_dropped"]++
		}
		m.dead = true
		return false
	}
	if spins > 0 {
		e.stats["reads_resumed_after_zero_returns"]++
	}
	// --- the reference model ---
	left := m.ln - m.pos
	if left < 0 {
		left = 0
	}
	if int64(got) > left || got > n || got < 0 {
		sw.Viol("C02", "model", "read-beyond-range", fmt.Sprintf("reader%d: Read(%d) at position %d returned %d bytes, only %d left in the range", m.id, n, m.pos, got, left))
		return false
	}
	if got > 0 {
		tr := e.g.Truth(m.off+m.pos, got)
		for i := range tr {
			if tr[i] != buf[i] {
				sw.Viol("C02", "model", "read-content", fmt.Sprintf("reader%d: byte at position %d (torrent offset %d) differs from the true content", m.id, m.pos+int64(i), m.off+m.pos+int64(i)))
				sw.Viol("C01", "content", "reader-content", fmt.Sprintf("tor.Reader returned a byte at torrent offset %d that differs from the true content", m.off+m.pos+int64(i)))
				return false
			}
		}
		e.stats["bytes_compared"] += got
	}
	for i := got; i < n; i++ {
		if buf[i] != 0x5A {
			// io.Reader may use the buffer as scratch, but must not leak other data: only reported as a count
			e.stats["scratch_writes_beyond_n"]++
			break
		}
	}
	m.pos += int64(got)
	switch {
	case err == nil:
		if left == 0 && n > 0 {
			sw.Viol("C02", "model", "no-eof-at-end", fmt.Sprintf("reader%d: Read at position %d = length returned (%d, nil)", m.id, m.pos, got))
			return false
		}
	case errors.Is(err, io.EOF):
		if m.pos != m.ln && !(m.pos > m.ln) {
			sw.Viol("C02", "model", "early-eof", fmt.Sprintf("reader%d: EOF at position %d of %d", m.id, m.pos, m.ln))
			return false
		}
		e.stats["eofs"]++
	default:
		sw.Viol("C02", "model", "read-error", fmt.Sprintf("reader%d: Read returned error %v on a live torrent with a live context", m.id, err))
		return false
	}
	return true
}

func (e *env) seek(m *rmodel, o int64, whence int) bool {
	np, err := m.r.Seek(o, whence)
	var want int64
	switch whence {
	case io.SeekStart:
		want = o
	case io.SeekCurrent:
		want = m.pos + o
	case io.SeekEnd:
		want = m.ln + o
	}
	e.stats["seeks"]++
	e.sw.Act("reader%d seek(%d,%d) -> (%d,%v)", m.id, o, whence, np, err)
	if want < 0 {
		if err == nil || np != m.pos {
			e.sw.Viol("C02", "model", "seek-negative-accepted", fmt.Sprintf("Seek to %d returned (%d,%v)", want, np, err))
			return false
		}
		return true
	}
	if err != nil || np != want {
		e.sw.Viol("C02", "model", "seek-arithmetic", fmt.Sprintf("Seek(%d, whence %d) from %d of length %d returned (%d,%v), want %d", o, whence, m.pos, m.ln, np, err, want))
		return false
	}
	m.pos = want
	return true
}

// evict drops complete pieces exactly as tor.Expire does for one torrent.
func (e *env) evict(all bool, rng *rand.Rand) {
	if all {
		e.tr.T.Pieces.Expire(0, nil, func(ix uint32) { e.tr.T.Have(ix, false) })
	} else {
		target := e.tr.T.Pieces.Bytes() * int64(rng.IntN(4)) / 4
		av, _ := e.tr.T.GetAvailable()
		e.tr.T.Pieces.Expire(target, av, func(ix uint32) { e.tr.T.Have(ix, false) })
	}
	e.sw.Act("evict all=%v", all)
	e.sw.Tag("evict")
	e.stats["evictions"]++
	e.sw.Cut()
}

func newSeed(e *env, rng *rand.Rand, honest bool) *swarm.Remote {
	return newSeedMode(e, rng, honest, nil)
}

func newSeedMode(e *env, rng *rand.Rand, honest bool, force *swarm.SeedMode) *swarm.Remote {
	r := e.tr.Connect(swarm.RemoteOpts{Fast: rng.IntN(2) == 0, Ext: rng.IntN(2) == 0})
	if r.Opt.Ext {
		r.SendExt0(swarm.StdExt0(int64([]int{0, 5, 250}[rng.IntN(3)]), 0))
	}
	m := swarm.SeedMode{}
	if honest {
		// an honest seed is not an instant one: it answers after a few (virtual) milliseconds and forgets a
		// request that was cancelled in between
		m.Delay = []time.Duration{0, 0, 30 * time.Millisecond, 80 * time.Millisecond}[rng.IntN(4)]
	}
	if !honest {
		switch rng.IntN(3) {
		case 0:
			m.CorruptEvery = 2 + rng.IntN(20)
		case 1:
			m.Delay = time.Duration(100+rng.IntN(900)) * time.Millisecond
		case 2:
			m.Silent = true
		}
	}
	if force != nil {
		m = *force
	}
	r.AutoSeed(m)
	r.Honest = honest
	e.seeds = append(e.seeds, r)
	return r
}

func randWindow(rng *rand.Rand, g *fixture.Geo) (off, ln int64) {
	ps := int64(g.PieceLen)
	switch rng.IntN(6) {
	case 0: // whole torrent
		return 0, g.Length
	case 1: // a file
		if len(g.Files) > 0 {
			k := rng.IntN(len(g.Files))
			if g.Files[k].Length > 0 {
				return g.FileOffset(k), g.Files[k].Length
			}
		}
		return 0, g.Length
	case 2: // ends exactly at a piece end
		p := 1 + rng.IntN(g.NumPieces())
		end := int64(p) * ps
		if end > g.Length {
			end = g.Length
		}
		off = rng.Int64N(end)
		return off, end - off
	case 3: // ends inside a piece, one byte long sometimes
		off = rng.Int64N(g.Length)
		ln = 1 + rng.Int64N(g.Length-off)
		if rng.IntN(4) == 0 {
			ln = 1
		}
		return off, ln
	case 4: // starts in the first piece
		ln = 1 + rng.Int64N(g.Length)
		return 0, ln
	default: // the tail
		off = g.Length - 1 - rng.Int64N(min64(g.Length, 3*ps))
		if off < 0 {
			off = 0
		}
		return off, g.Length - off
	}
}

func min64(a, b int64) int64 {
	if a < b {
		return a
	}
	return b
}

var bufSizes = []int{1, 2, 100, 4096, 16383, 16384, 16385, 65536, 200000}

func history(t *testing.T, c *vk.C, rng *rand.Rand, i int) map[string]int {
	st := map[string]int{}
	swarm.Run(t, c, prop, func(sw *swarm.Swarm) {
		g := fixture.RandGeo(rng, 1<<20, []uint32{16 << 10, 32 << 10, 64 << 10, 128 << 10})
		if rng.IntN(2) == 0 && g.Length > 10 {
			g.SplitFiles(rng, 2+rng.IntN(5), rng.IntN(3) == 0)
		}
		tr := sw.AddTorrent(g, swarm.TorOpts{})
		e := &env{sw: sw, tr: tr, g: g, stats: st}
		if i%2 == 0 {
			// hashing a piece takes (virtual) time in half of the histories, as it does for multi-megabyte
			// pieces: reads and evictions then land while a piece has all its data but is not yet verified
			quit := make(chan struct{})
			defer close(quit)
			d := time.Duration(50+rng.IntN(400)) * time.Millisecond
			e.slowHash = true
			verifhook.SetPoint(func(name string) {
				if name == "piece.finalise.hash.begin" {
					e.hashing.Add(1)
					select {
					case <-time.After(d):
					case <-quit:
					}
				}
				if name == "piece.readat.prelock" && e.lingerRead.CompareAndSwap(true, false) {
					// one read lingers between its look at the piece and taking the store's lock
					e.lingering.Store(true)
					select {
					case <-time.After(300 * time.Millisecond):
					case <-quit:
					}
				}
			})
			defer verifhook.SetPoint(nil)
			st["histories_with_slow_hashing"]++
		}
		e.honestSeedUp = func() bool {
			for _, s := range e.seeds {
				if s.Honest && !s.Closed() {
					return true
				}
			}
			return false
		}
		e.honestGap = time.Now()
		e.keepHonest = func() {
			if !e.honestSeedUp() {
				e.honestGap = time.Now()
				newSeed(e, rng, true)
				st["honest_seed_reconnected"]++
			}
		}
		// explicit history family: pieces already complete when the reader first asks, evicted later
		if i%4 == 0 {
			var all []int
			for p := 0; p < g.NumPieces(); p++ {
				all = append(all, p)
			}
			tr.Prefill(all)
			st["prefilled"]++
		}
		newSeed(e, rng, true)
		for k := 0; k < rng.IntN(3); k++ {
			newSeed(e, rng, false)
		}
		if i%8 == 0 || i%8 == 2 {
			// the explicit family with slow hashing (and as many other slow-hashing histories) always has a peer
			// that corrupts every other chunk
			newSeedMode(e, rng, false, &swarm.SeedMode{CorruptEvery: 2, CorruptWhole: true})
		}
		sw.Cut()
		var rs []*rmodel
		// a Reader that is garbage-collected unclosed would run its finalizer (Close) outside the
		// bubble: make sure no reader of this history keeps one, whatever way the history ends
		defer func() {
			for _, m := range rs {
				runtime.SetFinalizer(m.r, nil)
			}
		}()
		open := func() *rmodel {
			off, ln := randWindow(rng, g)
			ctx, cancel := context.WithCancel(context.Background())
			m := &rmodel{r: tr.T.NewReader(ctx, off, ln), off: off, ln: ln, ctx: ctx, cancel: cancel, id: len(rs)}
			rs = append(rs, m)
			sw.Act("reader%d open [%d,+%d)", m.id, off, ln)
			st["readers"]++
			return m
		}
		first := open()
		if i%4 == 0 {
			// the explicit history of the property: the piece is complete when the reader first asks for it,
			// is evicted between two reads of the same reader inside that piece, and must come back
			if !e.readOnce(first, 10) {
				return
			}
			if first.pos < first.ln {
				h0 := e.hashing.Load()
				e.evict(true, rng)
				if e.hashing.Load() == h0 {
					e.awaitHashing()
				} else if e.slowHash {
					st["reads_while_a_piece_is_being_hashed"]++
				}
				if !e.readOnce(first, []int{10, 65536}[i/8%2]) {
					return
				}
				st["explicit_evicted_between_reads"]++
			}
			sw.ClearTags()
		}
		steps := 15 + rng.IntN(40)
		for s := 0; s < steps; s++ {
			var live []*rmodel
			for _, m := range rs {
				if !m.dead {
					live = append(live, m)
				}
			}
			if len(live) == 0 {
				break
			}
			m := live[rng.IntN(len(live))]
			e.keepHonest()
			switch x := rng.IntN(100); {
			case x < 45:
				if !e.readOnce(m, bufSizes[rng.IntN(len(bufSizes))]) {
					return
				}
			case x < 60:
				var o int64
				wh := rng.IntN(3)
				switch rng.IntN(5) {
				case 0:
					o = 0
				case 1:
					o = rng.Int64N(m.ln + 1)
				case 2:
					o = -rng.Int64N(m.ln + 2)
				case 3:
					o = m.ln + int64(rng.IntN(3)) // at / past EOF
				default:
					o = int64(rng.IntN(40000)) - 20000
				}
				if !e.seek(m, o, wh) {
					return
				}
			case x < 64 && e.slowHash:
				if !e.racingRead(m) {
					return
				}
			case x < 67:
				if !e.cancelWhileLoopBusy(rng) {
					return
				}
			case x < 72:
				e.evict(rng.IntN(2) == 0, rng)
				if e.slowHash && rng.IntN(2) == 0 {
					// the paused reader comes back exactly while the piece it was in is being verified again
					e.awaitHashing()
					if !e.readOnce(m, bufSizes[rng.IntN(len(bufSizes))]) {
						return
					}
				}
			case x < 76: // the global memory manager under a small mark
				config.MemoryMark = int64(g.PieceLen) * int64(1+rng.IntN(3))
				rc := tor.Expire()
				sw.Act("tor.Expire -> %d", rc)
				sw.Tag("evict")
				sw.Cut()
				config.MemoryMark = 1 << 40
				st["tor_expire"]++
			case x < 82 && len(rs) < 4:
				open()
			case x < 88: // a seed leaves, another arrives
				if len(e.seeds) > 0 {
					sd := e.seeds[rng.IntN(len(e.seeds))]
					if !sd.Closed() {
						wasHonest := sd.Honest
						sd.Close()
						sw.Act("%s leaves", sd.Name)
						newSeed(e, rng, wasHonest)
						st["seed_replaced"]++
					}
				}
			case x < 92: // zero-length read
				if !e.readOnce(m, 0) {
					return
				}
			default: // read to the end of the range
				for k := 0; k < 400 && m.pos < m.ln; k++ {
					if !e.readOnce(m, 65536) {
						return
					}
				}
				if !e.readOnce(m, 100) { // must be (0, EOF)
					return
				}
			}
			sw.ClearTags()
		}
		// ---- cancellation and deletion fail blocked reads promptly ----
		for _, s := range e.seeds {
			s.Close() // nobody can deliver any more
		}
		e.evict(true, rng)
		blocked := func(m *rmodel) (*error, *int, func() bool) {
			var err error
			var n int
			var mu sync.Mutex
			done := false
			go func() {
				buf := make([]byte, 100)
				for {
					k, er := m.r.Read(buf)
					if k != 0 || er != nil {
						mu.Lock()
						n, err, done = k, er, true
						mu.Unlock()
						return
					}
					time.Sleep(100 * time.Millisecond)
				}
			}()
			return &err, &n, func() bool { mu.Lock(); defer mu.Unlock(); return done }
		}
		var pend []struct {
			m    *rmodel
			err  *error
			n    *int
			done func() bool
			how  string
		}
		for _, m := range rs {
			if m.dead || m.pos >= m.ln {
				continue
			}
			er, n, dn := blocked(m)
			pend = append(pend, struct {
				m    *rmodel
				err  *error
				n    *int
				done func() bool
				how  string
			}{m, er, n, dn, ""})
		}
		sw.Cut()
		time.Sleep(2 * time.Second)
		sw.Cut()
		for k := range pend {
			if pend[k].done() {
				pend[k].how = "returned-before-fault"
				continue
			}
			if k%2 == 0 {
				pend[k].m.cancel()
				pend[k].how = "cancel"
			} else {
				pend[k].how = "kill"
			}
		}
		sw.Cut()
		killed := false
		for k := range pend {
			if pend[k].how == "kill" && !killed {
				tr.Kill()
				killed = true
			}
		}
		sw.Cut()
		waited := time.Duration(0)
		for waited < promptBound {
			all := true
			for k := range pend {
				all = all && pend[k].done()
			}
			if all {
				break
			}
			time.Sleep(time.Second)
			waited += time.Second
			sw.Cut()
		}
		hung := false
		for k := range pend {
			p := pend[k]
			if p.how == "returned-before-fault" {
				continue
			}
			if !p.done() {
				sw.Viol("C02", "prompt-failure", "blocked-read-survives-"+p.how, fmt.Sprintf("reader%d: a blocked Read is still blocked %v (virtual) after %s", p.m.id, promptBound, p.how))
				hung = true
				continue
			}
			if *p.n > 0 || *p.err == nil {
				sw.Viol("C02", "prompt-failure", "blocked-read-result-after-"+p.how, fmt.Sprintf("reader%d: blocked Read returned (%d, %v) after %s", p.m.id, *p.n, *p.err, p.how))
			}
			st["blocked_reads_failed_promptly:"+p.how]++
		}
		if !hung {
			for _, m := range rs {
				m.r.Close()
				m.cancel()
			}
		}
	})
	return st
}

func TestCheck(t *testing.T) {
	fixture.FrontendInit() // registers the HTTP handlers once, outside any bubble
	prop = os.Getenv("VERIF_PROP")
	if prop == "" {
		prop = "C02"
	}
	r := vk.New(prop)
	defer r.Done()
	part := os.Getenv("VERIF_PART")
	n := r.Env.N(900, 20000)
	if os.Getenv("VERIF_RACE_SUBSET") != "" {
		n = r.Env.N(120, 3000)
	}
	if strings.HasPrefix(part, "frontends") {
		frontends(t, r)
		r.Finish()
		return
	}
	for i := 0; i < n; i++ {
		if !r.Mine(i) {
			continue
		}
		rng := r.Env.Rng(i)
		d := map[string]any{"family": "reader-program", "prefilled": i%4 == 0}
		c := r.Begin(i, d)
		st := history(t, c, rng, i)
		for k, v := range st {
			c.Count(k, int64(v))
		}
		c.FP(swarm.ClassOf(st, "reads", "seeks", "evictions", "tor_expire", "seed_replaced", "eofs", "reads_resumed_after_zero_returns", "readers", "prefilled"), st["reads"] > 2 && st["evictions"]+st["tor_expire"] > 0)
		c.End()
	}
	r.Finish()
}

// ---- HTTP Range requests and FUSE reads over a live (downloading, evicting) torrent ----

type rng2 struct{ a, b int64 } // inclusive

func frontends(t *testing.T, r *vk.Run) {
	n := r.Env.N(500, 8000)
	for i := 0; i < n; i++ {
		if !r.Mine(i) {
			continue
		}
		rng := r.Env.Rng(i)
		d := map[string]any{"family": "http-range+fuse"}
		c := r.Begin(i, d)
		st := map[string]int{}
		swarm.Run(t, c, prop, func(sw *swarm.Swarm) {
			g := fixture.RandGeo(rng, 512<<10, []uint32{16 << 10, 32 << 10, 64 << 10})
			g.Name = fmt.Sprintf("f%x", rng.Uint32())
			multi := rng.IntN(2) == 0 && g.Length > 10
			if multi {
				g.SplitFiles(rng, 2+rng.IntN(4), false)
			}
			tr := sw.AddTorrent(g, swarm.TorOpts{})
			e := &env{sw: sw, tr: tr, g: g, stats: st}
			e.honestSeedUp = func() bool {
				for _, s := range e.seeds {
					if s.Honest && !s.Closed() {
						return true
					}
				}
				return false
			}
			e.honestGap = time.Now()
			e.keepHonest = func() {
				if !e.honestSeedUp() {
					e.honestGap = time.Now()
					newSeed(e, rng, true)
					st["honest_seed_reconnected"]++
				}
			}
			newSeed(e, rng, true)
			if rng.IntN(2) == 0 {
				newSeed(e, rng, false)
			}
			sw.Cut()
			// pick a non-empty file
			var path []string
			var foff, flen int64
			if multi {
				var cand []int
				for k, f := range g.Files {
					if f.Length > 0 {
						cand = append(cand, k)
					}
				}
				if len(cand) == 0 {
					return
				}
				k := cand[rng.IntN(len(cand))]
				path, foff, flen = g.Files[k].Path, g.FileOffset(k), g.Files[k].Length
			} else {
				path, foff, flen = []string{g.Name}, 0, g.Length
			}
			url := fmt.Sprintf("/%s/%s", tr.T.Hash.String(), strings.Join(path, "/"))
			for step := 0; step < 6; step++ {
				if rng.IntN(3) == 0 {
					e.evict(rng.IntN(2) == 0, rng)
				}
				if step%2 == 0 {
					if !httpRange(e, rng, url, foff, flen) {
						return
					}
				} else {
					if !fuseReads(e, rng, multi, path, foff, flen) {
						return
					}
				}
				sw.ClearTags()
			}
			// nobody can deliver any more: FUSE reads block, and an interrupted one fails promptly while the
			// others on the same open file keep waiting
			for _, s := range e.seeds {
				s.Close()
			}
			e.evict(true, rng)
			fuseInterrupt(e, rng, multi, path, flen)
			if !sw.C.Violated() {
				fuseStraddle(e, rng, multi, path, foff, flen)
			}
		})
		for k, v := range st {
			c.Count(k, int64(v))
		}
		c.FP(swarm.ClassOf(st, "http_requests", "http_206", "http_416", "http_multipart", "fuse_reads", "evictions"), st["http_requests"] > 0 && st["fuse_reads"] > 0)
		c.End()
	}
}

func httpRange(e *env, rng *rand.Rand, url string, foff, flen int64) bool {
	sw := e.sw
	hdr := ""
	var want []rng2
	kind := rng.IntN(8)
	switch kind {
	case 0: // none
	case 1:
		a := rng.Int64N(flen)
		b := a + rng.Int64N(flen-a)
		hdr = fmt.Sprintf("bytes=%d-%d", a, b)
		want = []rng2{{a, b}}
	case 2:
		a := rng.Int64N(flen)
		hdr = fmt.Sprintf("bytes=%d-", a)
		want = []rng2{{a, flen - 1}}
	case 3:
		k := 1 + rng.Int64N(flen+5)
		hdr = fmt.Sprintf("bytes=-%d", k)
		a := flen - k
		if a < 0 {
			a = 0
		}
		want = []rng2{{a, flen - 1}}
	case 4: // end beyond EOF is clipped
		a := rng.Int64N(flen)
		hdr = fmt.Sprintf("bytes=%d-%d", a, flen+int64(rng.IntN(1000)))
		want = []rng2{{a, flen - 1}}
	case 5: // unsatisfiable
		hdr = fmt.Sprintf("bytes=%d-", flen+int64(rng.IntN(10)))
		want = nil
	case 6: // two disjoint ranges
		if flen < 10 {
			return true
		}
		a := rng.Int64N(flen / 3)
		b := a + rng.Int64N(flen/3-a+1)
		c2 := 2*flen/3 + rng.Int64N(flen/3)
		hdr = fmt.Sprintf("bytes=%d-%d,%d-", a, b, c2)
		want = []rng2{{a, b}, {c2, flen - 1}}
	case 7: // first byte / last byte
		if rng.IntN(2) == 0 {
			hdr, want = "bytes=0-0", []rng2{{0, 0}}
		} else {
			hdr, want = fmt.Sprintf("bytes=%d-%d", flen-1, flen-1), []rng2{{flen - 1, flen - 1}}
		}
	}
	req := httptest.NewRequest("GET", url, nil)
	req.Host = "localhost:8088"
	if hdr != "" {
		req.Header.Set("Range", hdr)
	}
	rec := httptest.NewRecorder()
	ok := callTick(sw, progressBound, func() { http.DefaultServeMux.ServeHTTP(rec, req) }, e.keepHonest)
	e.stats["http_requests"]++
	sw.Act("GET %s Range=%q -> %d", url, hdr, rec.Code)
	if !ok && time.Since(e.honestGap) <= progressBound/2 {
		e.stats["progress_not_demanded_honest_seed_dropped"]++
		return false
	}
	if !ok {
		sw.Viol("C02", "progress", "http-no-progress", fmt.Sprintf("GET %s (Range %q) did not complete within %v (virtual) with an honest seed connected", url, hdr, progressBound))
		return false
	}
	body := rec.Body.Bytes()
	truth := func(a, b int64) []byte { return e.g.Truth(foff+a, int(b-a+1)) }
	bad := func(cls, msg string) bool {
		sw.Viol("C02", "http", "http-"+cls, fmt.Sprintf("GET %s Range %q: %s (status %d, Content-Range %q, %d body bytes, file length %d)", url, hdr, msg, rec.Code, rec.Header().Get("Content-Range"), len(body), flen))
		return false
	}
	switch {
	case kind == 0:
		if rec.Code != 200 || int64(len(body)) != flen || string(body) != string(truth(0, flen-1)) {
			return bad("full-body", "expected 200 with the whole file")
		}
	case kind == 5:
		if rec.Code != http.StatusRequestedRangeNotSatisfiable {
			return bad("unsatisfiable", "expected 416")
		}
		e.stats["http_416"]++
	case len(want) == 1:
		w := want[0]
		if rec.Code != 206 {
			return bad("status", "expected 206")
		}
		if cr := rec.Header().Get("Content-Range"); cr != fmt.Sprintf("bytes %d-%d/%d", w.a, w.b, flen) {
			return bad("content-range", fmt.Sprintf("expected Content-Range bytes %d-%d/%d", w.a, w.b, flen))
		}
		if string(body) != string(truth(w.a, w.b)) {
			sw.Viol("C01", "content", "http-content", "an HTTP body byte differs from the true content")
			return bad("range-body", "body differs from the true bytes of the range")
		}
		e.stats["http_206"]++
		e.stats["bytes_compared"] += len(body)
	default:
		if rec.Code == 200 { // a server may ignore multi-range requests
			if string(body) != string(truth(0, flen-1)) {
				return bad("full-body", "200 for a multi-range request with a wrong body")
			}
			break
		}
		if rec.Code != 206 {
			return bad("status", "expected 206 or 200 for a multi-range request")
		}
		mt, params, err := mime.ParseMediaType(rec.Header().Get("Content-Type"))
		if err != nil || !strings.HasPrefix(mt, "multipart/") {
			return bad("multipart", "expected multipart/byteranges")
		}
		mr := multipart.NewReader(strings.NewReader(string(body)), params["boundary"])
		for k := 0; ; k++ {
			p, err := mr.NextPart()
			if err == io.EOF {
				if k != len(want) {
					return bad("multipart", fmt.Sprintf("%d parts, want %d", k, len(want)))
				}
				break
			}
			if err != nil || k >= len(want) {
				return bad("multipart", "malformed or too many parts")
			}
			pb, _ := io.ReadAll(p)
			w := want[k]
			if p.Header.Get("Content-Range") != fmt.Sprintf("bytes %d-%d/%d", w.a, w.b, flen) || string(pb) != string(truth(w.a, w.b)) {
				return bad("multipart", fmt.Sprintf("part %d (%q) differs from the true bytes of range %d-%d", k, p.Header.Get("Content-Range"), w.a, w.b))
			}
		}
		e.stats["http_multipart"]++
	}
	return true
}

// fuseStraddle: one FUSE read begins in data that is there and runs into a piece that is not (and cannot come:
// no seed is left).  It blocks; then it is interrupted, or the torrent is deleted.  A reply without an error
// tells the kernel "this is all there is" (a short read is the end of the file: the rest is zero-filled and
// cached), so the read must fail; it must not succeed with the first part.
func fuseStraddle(e *env, rng *rand.Rand, multi bool, path []string, foff, flen int64) {
	sw := e.sw
	pl := int64(e.g.PieceLen)
	const half = 2048
	// a piece boundary inside the file with room on both sides
	var bnds []int64
	for b := (foff/pl + 1) * pl; b+half <= foff+flen && b+half <= e.g.Length; b += pl {
		if b-half >= foff {
			bnds = append(bnds, b)
		}
	}
	if len(bnds) == 0 {
		return
	}
	b := bnds[rng.IntN(len(bnds))]
	e.tr.Prefill([]int{int(b/pl) - 1})
	sw.Cut()
	var node fs.Node = storfuse.VerifRoot()
	comps := path
	if multi {
		comps = append([]string{e.g.Name}, path...)
	}
	for _, cpt := range comps {
		lk, ok := node.(fs.NodeStringLookuper)
		if !ok {
			return
		}
		nn, err := lk.Lookup(context.Background(), cpt)
		if err != nil {
			return
		}
		node = nn
	}
	op, ok := node.(fs.NodeOpener)
	if !ok {
		return
	}
	h, err := op.Open(context.Background(), &fuse.OpenRequest{Flags: fuse.OpenReadOnly}, &fuse.OpenResponse{})
	if err != nil {
		return
	}
	hr := h.(fs.HandleReader)
	ctx, cancel := context.WithCancel(context.Background())
	defer cancel()
	var mu sync.Mutex
	done, n := false, 0
	var rerr error
	off := b - half - foff
	go func() {
		resp := &fuse.ReadResponse{Data: make([]byte, 0, 2*half)}
		err := hr.Read(ctx, &fuse.ReadRequest{Offset: off, Size: 2 * half}, resp)
		mu.Lock()
		done, n, rerr = true, len(resp.Data), err
		mu.Unlock()
	}()
	isDone := func() bool { mu.Lock(); defer mu.Unlock(); return done }
	sw.Cut()
	time.Sleep(2 * time.Second)
	sw.Cut()
	if isDone() {
		return // the second piece was there after all
	}
	how := "interrupted"
	if rng.IntN(2) == 0 {
		how = "deleted"
		e.tr.Kill()
	} else {
		cancel()
	}
	sw.Act("FUSE read of %d bytes at file offset %d (the first %d are there, the piece after them is not) is %s", 2*half, off, half, how)
	for waited := time.Duration(0); !isDone() && waited < promptBound; waited += time.Second {
		sw.Cut()
		time.Sleep(time.Second)
	}
	sw.Cut()
	if !isDone() {
		sw.Viol("C02", "prompt-failure", "fuse-straddling-read-survives-"+how, fmt.Sprintf("a FUSE read blocked in the second of two pieces is still blocked %v (virtual) after it was %s", promptBound, how))
		return
	}
	mu.Lock()
	defer mu.Unlock()
	if rerr == nil && n < 2*half {
		sw.Viol("C02", "prompt-failure", "fuse-short-read-reported-as-success "+how, fmt.Sprintf("a FUSE read of %d bytes in the middle of the file, %s while it waited for its second piece, succeeded with %d bytes: to the kernel a short read is the end of the file", 2*half, how, n))
		return
	}
	if rerr == nil {
		sw.Viol("C02", "prompt-failure", "fuse-read-completes-without-data "+how, fmt.Sprintf("a FUSE read returned all %d bytes although the piece holding the second half was missing and no seed was left", n))
		return
	}
	e.stats["fuse_straddling_reads_failed:"+how]++
}

// fuseInterrupt: two (or three) reads are blocked on one open file (the data is gone and no seed is left);
// one of them is interrupted (its context ends, as the kernel's INTERRUPT does): it must return within the
// prompt bound, with an error and no data, while the others stay blocked; then the others are interrupted.
func fuseInterrupt(e *env, rng *rand.Rand, multi bool, path []string, flen int64) {
	sw := e.sw
	if flen < 2 {
		return
	}
	var node fs.Node = storfuse.VerifRoot()
	comps := path
	if multi {
		comps = append([]string{e.g.Name}, path...)
	}
	for _, cpt := range comps {
		lk, ok := node.(fs.NodeStringLookuper)
		if !ok {
			return
		}
		nn, err := lk.Lookup(context.Background(), cpt)
		if err != nil {
			return
		}
		node = nn
	}
	op, ok := node.(fs.NodeOpener)
	if !ok {
		return
	}
	h, err := op.Open(context.Background(), &fuse.OpenRequest{Flags: fuse.OpenReadOnly}, &fuse.OpenResponse{})
	if err != nil {
		return
	}
	hr := h.(fs.HandleReader)
	type blk struct {
		cancel context.CancelFunc
		mu     sync.Mutex
		done   bool
		n      int
		err    error
	}
	n := 2 + rng.IntN(2)
	bs := make([]*blk, n)
	for k := range bs {
		ctx, cancel := context.WithCancel(context.Background())
		b := &blk{cancel: cancel}
		bs[k] = b
		off := rng.Int64N(flen)
		go func() {
			resp := &fuse.ReadResponse{Data: make([]byte, 0, 4096)}
			err := hr.Read(ctx, &fuse.ReadRequest{Offset: off, Size: 4096}, resp)
			b.mu.Lock()
			b.done, b.n, b.err = true, len(resp.Data), err
			b.mu.Unlock()
		}()
		sw.Cut() // they queue up on the handle one after the other
	}
	time.Sleep(2 * time.Second)
	sw.Cut()
	isDone := func(b *blk) bool { b.mu.Lock(); defer b.mu.Unlock(); return b.done }
	for _, b := range bs {
		if isDone(b) {
			// something was readable after all: nothing to interrupt in this history
			for _, x := range bs {
				x.cancel()
			}
			sw.Cut()
			time.Sleep(promptBound)
			sw.Cut()
			return
		}
	}
	order := rng.Perm(n)
	for pos, k := range order {
		b := bs[k]
		b.cancel()
		sw.Act("FUSE read %d of %d on one handle interrupted", k, n)
		waited := time.Duration(0)
		for !isDone(b) && waited < promptBound {
			sw.Cut()
			time.Sleep(time.Second)
			waited += time.Second
		}
		sw.Cut()
		if !isDone(b) {
			sw.Viol("C02", "prompt-failure", fmt.Sprintf("fuse-interrupted-read-survives queued-%d-of-%d", k, n), fmt.Sprintf("FUSE read %d of %d queued on one open file is still blocked %v (virtual) after it was interrupted (%d interrupted before it)", k, n, promptBound, pos))
			for _, x := range bs {
				x.cancel()
			}
			return
		}
		if b.n > 0 || b.err == nil {
			sw.Viol("C02", "prompt-failure", "fuse-interrupted-read-result", fmt.Sprintf("an interrupted FUSE read returned (%d bytes, %v)", b.n, b.err))
		}
		e.stats["fuse_reads_interrupted_promptly"]++
		// the others are still waiting for their own data
		for _, k2 := range order[pos+1:] {
			if isDone(bs[k2]) {
				bs[k2].mu.Lock()
				n2, err2 := bs[k2].n, bs[k2].err
				bs[k2].mu.Unlock()
				sw.Viol("C02", "prompt-failure", "fuse-read-ended-by-another-reads-interrupt", fmt.Sprintf("FUSE read %d returned (%d bytes, %v) when read %d on the same open file was interrupted", k2, n2, err2, k))
				for _, x := range bs {
					x.cancel()
				}
				return
			}
		}
	}
}

func fuseReads(e *env, rng *rand.Rand, multi bool, path []string, foff, flen int64) bool {
	sw := e.sw
	ctx := context.Background()
	var node fs.Node = storfuse.VerifRoot()
	comps := path
	if multi {
		comps = append([]string{e.g.Name}, path...)
	}
	for _, cpt := range comps {
		lk, ok := node.(fs.NodeStringLookuper)
		if !ok {
			sw.C.Inconclusive("fuse node without Lookup")
			return false
		}
		nn, err := lk.Lookup(ctx, cpt)
		if err != nil {
			sw.Viol("C02", "fuse", "fuse-lookup-failed", fmt.Sprintf("Lookup(%q) of path %v: %v", cpt, comps, err))
			return false
		}
		node = nn
	}
	op, ok := node.(fs.NodeOpener)
	if !ok {
		sw.C.Inconclusive("fuse file node without Open")
		return false
	}
	h, err := op.Open(ctx, &fuse.OpenRequest{Flags: fuse.OpenReadOnly}, &fuse.OpenResponse{})
	if err != nil {
		sw.Viol("C02", "fuse", "fuse-open-failed", err.Error())
		return false
	}
	hr := h.(fs.HandleReader)
	type rd struct {
		off  int64
		size int
		data []byte
		err  error
	}
	nr := 1 + rng.IntN(4)
	reads := make([]*rd, nr)
	for k := range reads {
		off := rng.Int64N(flen + 10)
		if rng.IntN(4) == 0 {
			off = flen - int64(rng.IntN(3))
			if off < 0 {
				off = 0
			}
		}
		reads[k] = &rd{off: off, size: []int{1, 4096, 16384, 65536, 131072}[rng.IntN(5)]}
	}
	// several goroutines at once on one handle (the semaphore path)
	ok = callTick(sw, progressBound, func() {
		var wg sync.WaitGroup
		for _, x := range reads {
			wg.Add(1)
			go func(x *rd) {
				defer wg.Done()
				resp := &fuse.ReadResponse{Data: make([]byte, 0, x.size)}
				x.err = hr.Read(ctx, &fuse.ReadRequest{Offset: x.off, Size: x.size}, resp)
				x.data = resp.Data
			}(x)
		}
		wg.Wait()
	}, e.keepHonest)
	if !ok && time.Since(e.honestGap) <= progressBound/2 {
		e.stats["progress_not_demanded_honest_seed_dropped"]++
		return false
	}
	if !ok {
		sw.Viol("C02", "progress", "fuse-no-progress", fmt.Sprintf("FUSE reads on %v did not complete within %v (virtual) with an honest seed connected", comps, progressBound))
		return false
	}
	for _, x := range reads {
		e.stats["fuse_reads"]++
		wantN := int64(x.size)
		if x.off >= flen {
			wantN = 0
		} else if x.off+wantN > flen {
			wantN = flen - x.off
		}
		if x.err != nil {
			sw.Viol("C02", "fuse", "fuse-read-error", fmt.Sprintf("Read(off %d, size %d) of %v: %v", x.off, x.size, comps, x.err))
			return false
		}
		if int64(len(x.data)) != wantN {
			sw.Viol("C02", "fuse", "fuse-read-length", fmt.Sprintf("Read(off %d, size %d) of a %d-byte file returned %d bytes, want %d", x.off, x.size, flen, len(x.data), wantN))
			return false
		}
		if wantN > 0 && string(x.data) != string(e.g.Truth(foff+x.off, int(wantN))) {
			sw.Viol("C01", "content", "fuse-content", "a FUSE read returned a byte that differs from the true content")
			sw.Viol("C02", "fuse", "fuse-read-content", fmt.Sprintf("Read(off %d, size %d) of %v differs from the true content", x.off, x.size, comps))
			return false
		}
		e.stats["bytes_compared"] += int(wantN)
	}
	if rl, ok := h.(fs.HandleReleaser); ok {
		rl.Release(ctx, &fuse.ReleaseRequest{})
	}
	return true
}
