// C04: wire decoding is total, exactly framed and memory-bounded.
// Oracle per frame: no panic; never (nil,nil); on success exactly 4+L bytes
// consumed (counted below the bufio.Reader) and the sentinel frame that follows
// decodes as itself; never more than 4+L bytes consumed; L > 1 MiB refused;
// bytes allocated during the call <= 256*(L+4) + 64 KiB.
package c04

import (
	"bufio"
	"bytes"
	"encoding/binary"
	"fmt"
	"io"
	"math/rand/v2"
	"reflect"
	"runtime"
	"runtime/debug"
	"testing"

	"github.com/jech/storrent/protocol"
	"verifharness/refwire"
	"verifharness/vk"
)

type countingReader struct {
	r io.Reader
	n int
}

func (c *countingReader) Read(p []byte) (int, error) {
	n, err := c.r.Read(p)
	c.n += n
	return n, err
}

var sentinel = []byte{0, 0, 0, 5, 4, 0xde, 0xad, 0xbe, 0xef} // have 0xdeadbeef

const allocMul = 256
const allocC0 = 64 * 1024
const frameCap = 1024 * 1024

type desc struct {
	Family string `json:"family"`
	ID     int    `json:"id"`
	Sub    int    `json:"sub"`
	L      uint32 `json:"announced_len"`
	Given  int    `json:"payload_bytes_given"`
	Class  string `json:"class"`
	Hex    string `json:"frame_hex_prefix"`
}

func kindOf(m protocol.Message) string {
	if m == nil {
		return "nil"
	}
	return reflect.TypeOf(m).Name()
}

// one runs the oracle on input = frame||sentinel.
func one(c *vk.C, d *desc, frame []byte, withSentinel bool) {
	oneX(c, d, frame, withSentinel, withSentinel)
}

// oneX: appendS appends the sentinel bytes; expectS additionally demands that it decodes as itself.
func oneX(c *vk.C, d *desc, frame []byte, appendS, expectS bool) {
	withSentinel := appendS
	in := frame
	if withSentinel {
		in = append(append([]byte(nil), frame...), sentinel...)
	}
	var L uint32
	haveL := len(frame) >= 4
	if haveL {
		L = binary.BigEndian.Uint32(frame)
	}
	cr := &countingReader{r: bytes.NewReader(in)}
	br := bufio.NewReaderSize(cr, 4096)
	var m protocol.Message
	var err error
	var panicked any
	var ms0, ms1 runtime.MemStats
	runtime.ReadMemStats(&ms0)
	func() {
		defer func() { panicked = recover() }()
		m, err = protocol.Read(br, nil)
	}()
	runtime.ReadMemStats(&ms1)
	alloc := int64(ms1.TotalAlloc - ms0.TotalAlloc)
	consumed := cr.n - br.Buffered()
	cls := fmt.Sprintf("id%d/sub%d", d.ID, d.Sub)
	rep := map[string]any{"input_hex": fmt.Sprintf("%x", clip(in, 256)), "input_len": len(in), "announced": L}

	c.Count("frames", 1)
	if panicked != nil {
		c.Violation("panic", "panic "+cls, fmt.Sprintf("protocol.Read panicked: %v", panicked), rep)
		return
	}
	if m == nil && err == nil {
		c.Violation("nil-nil", "nil-nil "+cls, fmt.Sprintf("protocol.Read returned (nil,nil) for announced length %d", L), rep)
		return
	}
	if err == nil {
		c.Count("decoded", 1)
		c.Count("decoded:"+kindOf(m), 1)
	} else {
		c.Count("errors", 1)
	}
	if haveL {
		if L > frameCap && err == nil {
			c.Violation("cap", "cap "+cls, fmt.Sprintf("frame with announced length %d > 1 MiB accepted as %s", L, kindOf(m)), rep)
		}
		limit := int64(4) + int64(L)
		if int64(consumed) > limit {
			c.Violation("overread", "overread "+cls, fmt.Sprintf("consumed %d bytes > 4+%d (reads beyond the frame); err=%v msg=%s", consumed, L, err, kindOf(m)), rep)
		} else if err == nil && int64(consumed) != limit {
			c.Violation("misframed", "misframed "+cls, fmt.Sprintf("message %s returned after consuming %d bytes, frame is 4+%d", kindOf(m), consumed, L), rep)
		}
		bound := int64(allocMul)*(int64(min64(int64(L), frameCap))+4) + allocC0
		c.R.Max("max:alloc_bytes_one_call", alloc)
		if alloc > 32<<20 {
			debug.FreeOSMemory() // give an attacker-sized buffer back before the next case
		}
		if alloc > bound {
			c.Violation("alloc-bound", "alloc-bound "+cls+" "+allocClass(d), fmt.Sprintf("allocated %d bytes decoding a frame of announced length %d (given %d payload bytes); bound %d", alloc, L, d.Given, bound), rep)
		}
	}
	if err == nil && expectS && !c.Violated() {
		// the next frame must be the sentinel, untouched
		m2, err2 := protocol.Read(br, nil)
		h, ok := m2.(protocol.Have)
		if err2 != nil || !ok || h.Index != 0xdeadbeef {
			c.Violation("misframed", "misframed-next "+cls, fmt.Sprintf("frame following a decoded %s did not decode as itself: %v %v", kindOf(m), m2, err2), rep)
		} else {
			c.Count("sentinel_ok", 1)
		}
	}
	if err == nil && !c.Violated() {
		crossCheck(c, d, in, m, rep)
	}
	if pm, ok := m.(protocol.Piece); ok && pm.Data != nil {
		protocol.PutBuffer(pm.Data)
	}
	oc := "err"
	if err == nil {
		oc = kindOf(m)
	}
	c.FP(vk.Hash64(d.Family, d.ID, d.Sub, lenClass(L), d.Class, oc), err == nil || d.Given > 0)
}

// crossCheck: for fixed-format ids the fields must be what refwire reads.
func crossCheck(c *vk.C, d *desc, frame []byte, m protocol.Message, rep any) {
	rm, _, rerr := refwire.Decode(frame)
	bad := func(why string) {
		c.Violation("fields", fmt.Sprintf("fields id%d", d.ID), fmt.Sprintf("storrent decoded %#v, reference codec: %s", m, why), rep)
	}
	switch x := m.(type) {
	case protocol.KeepAlive, protocol.Choke, protocol.Unchoke, protocol.Interested, protocol.NotInterested, protocol.HaveAll, protocol.HaveNone:
		if rerr != nil {
			bad(rerr.Error())
		}
	case protocol.Have:
		if rerr != nil || rm.Kind != refwire.KHave || rm.Index != x.Index {
			bad(fmt.Sprintf("%+v %v", rm, rerr))
		}
	case protocol.Request:
		if rerr != nil || rm.Kind != refwire.KRequest || rm.Index != x.Index || rm.Begin != x.Begin || rm.Length != x.Length {
			bad(fmt.Sprintf("%+v %v", rm, rerr))
		}
	case protocol.Cancel:
		if rerr != nil || rm.Kind != refwire.KCancel || rm.Index != x.Index || rm.Begin != x.Begin || rm.Length != x.Length {
			bad(fmt.Sprintf("%+v %v", rm, rerr))
		}
	case protocol.RejectRequest:
		if rerr != nil || rm.Kind != refwire.KReject || rm.Index != x.Index || rm.Begin != x.Begin || rm.Length != x.Length {
			bad(fmt.Sprintf("%+v %v", rm, rerr))
		}
	case protocol.Piece:
		if rerr != nil || rm.Kind != refwire.KPiece || rm.Index != x.Index || rm.Begin != x.Begin || !bytes.Equal(rm.Data, x.Data) {
			bad(fmt.Sprintf("kind=%v idx=%d begin=%d len=%d %v", rm.Kind, rm.Index, rm.Begin, len(rm.Data), rerr))
		}
	case protocol.Bitfield:
		if rerr != nil || rm.Kind != refwire.KBitfield || !bytes.Equal(rm.Data, x.Bitfield) {
			bad(fmt.Sprintf("kind=%v len=%d %v", rm.Kind, len(rm.Data), rerr))
		}
	case protocol.Port:
		if rerr != nil || rm.Kind != refwire.KPort || rm.Port != x.Port {
			bad(fmt.Sprintf("%+v %v", rm, rerr))
		}
	case protocol.SuggestPiece:
		if rerr != nil || rm.Kind != refwire.KSuggest || rm.Index != x.Index {
			bad(fmt.Sprintf("%+v %v", rm, rerr))
		}
	case protocol.AllowedFast:
		if rerr != nil || rm.Kind != refwire.KAllowedFast || rm.Index != x.Index {
			bad(fmt.Sprintf("%+v %v", rm, rerr))
		}
	case protocol.ExtendedDontHave:
		if rerr != nil || rm.Kind != refwire.KExtended || len(rm.Data) != 4 || binary.BigEndian.Uint32(rm.Data) != x.Index {
			bad(fmt.Sprintf("%+v %v", rm, rerr))
		}
	}
}

func allocClass(d *desc) string {
	if d.Family == "hostile-bencode" {
		return d.Class
	}
	return d.Family
}

func clip(b []byte, n int) []byte {
	if len(b) > n {
		return b[:n]
	}
	return b
}

func min64(a, b int64) int64 {
	if a < b {
		return a
	}
	return b
}

func lenClass(L uint32) string {
	switch {
	case L <= 40:
		return fmt.Sprint(L)
	case L <= 1<<14+20:
		return "~16k"
	case L <= frameCap:
		return "<=cap"
	default:
		return ">cap"
	}
}

var matrixIDs = []int{0, 1, 2, 3, 4, 5, 6, 7, 8, 9, 10, 11, 12, 13, 14, 15, 16, 17, 18, 19, 20, 21, 254, 255}
var matrixSubs = []int{0, 1, 2, 3, 4, 5, 255}
var bigLens = []uint32{1<<14 + 8, 1<<14 + 9, 1<<14 + 10, 1 << 17, 1<<20 - 1, 1 << 20, 1<<20 + 1, 1 << 31, 1<<32 - 1}

type mcase struct {
	id, sub int
	L       uint32
}

func matrix() []mcase {
	var out []mcase
	for _, id := range matrixIDs {
		subs := []int{-1}
		if id == 20 {
			subs = matrixSubs
		}
		for _, sub := range subs {
			for L := uint32(0); L <= 40; L++ {
				out = append(out, mcase{id, sub, L})
			}
			for _, L := range bigLens {
				out = append(out, mcase{id, sub, L})
			}
		}
	}
	return out
}

var fills = []string{"zero", "ff", "benc", "count"}

func fillPayload(kind string, n int, sub int) []byte {
	b := make([]byte, n)
	switch kind {
	case "zero":
	case "ff":
		for i := range b {
			b[i] = 0xff
		}
	case "count":
		for i := range b {
			b[i] = byte(i*7 + 1)
		}
	case "benc":
		var pre []byte
		switch sub {
		case 2:
			pre = []byte("d8:msg_typei1e5:piecei0e10:total_sizei100ee")
		case 1:
			pre = []byte("d5:added6:\x01\x02\x03\x04\x00\x507:added.f1:\x00e")
		default:
			pre = []byte("d1:md11:ut_metadatai2e6:ut_pexi1ee1:pi6881e4:reqqi250e1:v4:test11:upload_onlyi0ee")
		}
		copy(b, pre)
		for i := len(pre); i < n; i++ {
			b[i] = 'x'
		}
	}
	return b
}

// build the frame for a matrix case: length prefix, id, [sub], payload filled
// up to the announced length (capped for huge announcements), then optionally
// truncated to `given` bytes after the prefix.
func buildFrame(mc mcase, fill string, trunc int) ([]byte, int) {
	f := binary.BigEndian.AppendUint32(nil, mc.L)
	var body []byte
	body = append(body, byte(mc.id))
	if mc.sub >= 0 {
		body = append(body, byte(mc.sub))
	}
	want := int64(mc.L)
	if want > frameCap+64 {
		want = 64 // refused anyway: do not materialise
	}
	if int64(len(body)) < want {
		body = append(body, fillPayload(fill, int(want)-len(body), mc.sub)...)
	}
	if int64(len(body)) > int64(mc.L) {
		body = body[:mc.L] // L smaller than id(+sub): the frame simply ends earlier
	}
	if trunc >= 0 && trunc < len(body) {
		body = body[:trunc]
	}
	return append(f, body...), len(body)
}

func TestCheck(t *testing.T) {
	r := vk.New("C04")
	defer r.Done()
	r.Note("alloc_bound", fmt.Sprintf("alloc <= %d*(min(L,1MiB)+4) + %d bytes, measured with runtime.ReadMemStats (TotalAlloc) around the single call", allocMul, allocC0))
	mx := matrix()
	idx := 0
	// (a) exhaustive matrix: every (id, sub, L) x fills, complete frame followed by the sentinel,
	// and truncated at every prefix <= 40 (no sentinel: the stream ends inside the frame)
	for _, mc := range mx {
		for _, fill := range fills {
			i := idx
			idx++
			if !r.Mine(i) {
				continue
			}
			frame, given := buildFrame(mc, fill, -1)
			d := &desc{Family: "matrix", ID: mc.id, Sub: mc.sub, L: mc.L, Given: given, Class: "full-" + fill, Hex: fmt.Sprintf("%x", clip(frame, 24))}
			c := r.Begin(i, d)
			complete := int64(given) == int64(mc.L)
			one(c, d, frame, complete)
			c.End()
		}
		// truncations
		i := idx
		idx++
		if r.Mine(i) {
			d := &desc{Family: "matrix-trunc", ID: mc.id, Sub: mc.sub, L: mc.L, Class: "trunc"}
			c := r.Begin(i, d)
			full, _ := buildFrame(mc, "benc", -1)
			maxT := len(full) - 4
			if maxT > 40 {
				maxT = 40
			}
			for tr := 0; tr < maxT; tr++ {
				frame, given := buildFrame(mc, "benc", tr)
				d2 := *d
				d2.Given = given
				one(c, &d2, frame, false)
				// and truncated but followed by more bytes: hostile peer lies about the length
				oneX(c, &d2, frame, true, false)
			}
			// truncated prefix itself
			for k := 0; k < 4; k++ {
				one(c, d, full[:k], false)
			}
			c.End()
		}
	}
	r.Count("matrix_cells", int64(len(mx)))
	// (b) grammar-based hostile bencode for the three bencoded extended payloads, (c) mutations of valid frames
	n := r.Env.N(20000, 2000000)
	base := idx
	for k := 0; k < n; k++ {
		i := base + k
		if !r.Mine(i) {
			continue
		}
		rng := r.Env.Rng(i)
		var frame []byte
		var d *desc
		if k%2 == 0 {
			sub := []int{0, 1, 2}[rng.IntN(3)]
			payload, cls := hostileBencode(rng, sub)
			body := append([]byte{20, byte(sub)}, payload...)
			L := uint32(len(body))
			if rng.IntN(8) == 0 { // lie about the length
				L = uint32(int(L) + rng.IntN(9) - 4)
			}
			frame = append(binary.BigEndian.AppendUint32(nil, L), body...)
			d = &desc{Family: "hostile-bencode", ID: 20, Sub: sub, L: L, Given: len(body), Class: cls, Hex: fmt.Sprintf("%x", clip(frame, 48))}
		} else {
			var cls string
			frame, cls = mutatedValid(rng)
			id, sub := -1, -1
			if len(frame) > 4 {
				id = int(frame[4])
			}
			if id == 20 && len(frame) > 5 {
				sub = int(frame[5])
			}
			var L uint32
			if len(frame) >= 4 {
				L = binary.BigEndian.Uint32(frame)
			}
			d = &desc{Family: "mutated-valid", ID: id, Sub: sub, L: L, Given: len(frame) - 4, Class: cls, Hex: fmt.Sprintf("%x", clip(frame, 48))}
		}
		c := r.Begin(i, d)
		withS := len(frame) >= 4 && int64(len(frame)-4) == int64(binary.BigEndian.Uint32(frame))
		one(c, d, frame, withS)
		if !withS {
			oneX(c, d, frame, true, false)
		}
		c.End()
	}
	r.Finish()
}

// ---- generators -----------------------------------------------------------

func bstr(s string) string { return fmt.Sprintf("%d:%s", len(s), s) }

func hostileBencode(rng *rand.Rand, sub int) ([]byte, string) {
	keys := map[int][]string{
		0: {"m", "v", "p", "reqq", "metadata_size", "ipv4", "ipv6", "upload_only", "e", "yourip", "zz"},
		1: {"added", "added.f", "added6", "added6.f", "dropped", "dropped6", "zz"},
		2: {"msg_type", "piece", "total_size", "zz"},
	}[sub]
	cls := []string{"strlen>frame", "int-boundary", "wrong-type", "dup-unsorted", "deep-nesting", "trailing", "valid-ish", "meta-sizes", "huge-list", "typed-fields", "typed-fields"}[rng.IntN(11)]
	var b bytes.Buffer
	val := func() string {
		switch rng.IntN(6) {
		case 0:
			return fmt.Sprintf("i%de", []int64{0, 1, -1, 255, 256, 65535, 65536, 1 << 31, 1<<32 - 1, 1 << 32, 1<<63 - 1, -1 << 63}[rng.IntN(12)])
		case 1:
			return bstr(string(make([]byte, rng.IntN(40))))
		case 2:
			return "le"
		case 3:
			return "de"
		case 4:
			return "d" + bstr("ut_pex") + "i1e" + bstr("ut_metadata") + fmt.Sprintf("i%de", rng.IntN(300)) + "e"
		default:
			return bstr("1")
		}
	}
	switch cls {
	case "typed-fields":
		// every key with a value of the RIGHT type but independent, boundary-valued sizes: compact peer
		// lists of n entries with 0, 1, n-1, n, n+1 flag bytes, addresses of 0..20 bytes, ids 0..300, ...
		bytesOf := func(n int) string {
			b := make([]byte, n)
			for i := range b {
				b[i] = byte(rng.IntN(256))
			}
			return bstr(string(b))
		}
		b.WriteString("d")
		switch sub {
		case 1:
			for _, fam := range []struct {
				k string
				w int
			}{{"added", 6}, {"added6", 18}, {"dropped", 6}, {"dropped6", 18}} {
				if rng.IntN(4) == 0 {
					continue
				}
				n := []int{0, 1, 2, 3, 50, 200}[rng.IntN(6)]
				ln := n * fam.w
				if rng.IntN(6) == 0 {
					ln += rng.IntN(fam.w) // not a multiple of the entry size
				}
				if fam.k == "added" || fam.k == "added6" {
					// keys must be emitted in sorted order: added, added.f, added6, added6.f
					b.WriteString(bstr(fam.k) + bytesOf(ln))
					if rng.IntN(5) != 0 {
						m := []int{0, 1, n - 1, n, n + 1, 2 * n}[rng.IntN(6)]
						if m < 0 {
							m = 0
						}
						b.WriteString(bstr(fam.k+".f") + bytesOf(m))
					}
				} else {
					b.WriteString(bstr(fam.k) + bytesOf(ln))
				}
			}
		case 0:
			if rng.IntN(2) == 0 {
				b.WriteString(bstr("e") + fmt.Sprintf("i%de", rng.IntN(3)))
			}
			if rng.IntN(2) == 0 {
				b.WriteString(bstr("ipv4") + bytesOf([]int{0, 3, 4, 5, 16}[rng.IntN(5)]))
			}
			if rng.IntN(2) == 0 {
				b.WriteString(bstr("ipv6") + bytesOf([]int{0, 4, 15, 16, 17}[rng.IntN(5)]))
			}
			b.WriteString(bstr("m") + "d")
			for _, k := range []string{"lt_donthave", "upload_only", "ut_metadata", "ut_pex", "zz"} {
				if rng.IntN(3) != 0 {
					b.WriteString(bstr(k) + fmt.Sprintf("i%de", []int{0, 1, 2, 255, 256, 300, -1}[rng.IntN(7)]))
				}
			}
			b.WriteString("e")
			if rng.IntN(2) == 0 {
				b.WriteString(bstr("metadata_size") + fmt.Sprintf("i%de", []int64{0, 1, 16384, 1 << 27, 1<<32 - 1, 1 << 32}[rng.IntN(6)]))
			}
			if rng.IntN(2) == 0 {
				b.WriteString(bstr("p") + fmt.Sprintf("i%de", []int{0, 1, 65535, 65536}[rng.IntN(4)]))
			}
			if rng.IntN(2) == 0 {
				b.WriteString(bstr("reqq") + fmt.Sprintf("i%de", []int64{0, 1, 250, 1 << 31, 1<<32 - 1, 1 << 32}[rng.IntN(6)]))
			}
			if rng.IntN(2) == 0 {
				b.WriteString(bstr("upload_only") + []string{"i0e", "i1e", "i2e", "1:0", "1:1", "1:x", "0:"}[rng.IntN(7)])
			}
			if rng.IntN(2) == 0 {
				b.WriteString(bstr("v") + bytesOf([]int{0, 1, 40, 5000}[rng.IntN(4)]))
			}
		case 2:
			b.WriteString(bstr("msg_type") + fmt.Sprintf("i%de", []int{0, 1, 2, 3, 255, 256}[rng.IntN(6)]))
			b.WriteString(bstr("piece") + fmt.Sprintf("i%de", []int64{0, 1, 1 << 31, 1<<32 - 1, 1 << 32}[rng.IntN(5)]))
			if rng.IntN(2) == 0 {
				b.WriteString(bstr("total_size") + fmt.Sprintf("i%de", []int64{0, 1, 16384, 1<<32 - 1, 1 << 32}[rng.IntN(5)]))
			}
		}
		b.WriteString("e")
		if sub == 2 {
			b.Write(make([]byte, []int{0, 1, 16383, 16384, 16385}[rng.IntN(5)]))
		}
	case "strlen>frame":
		k := vk.Pick(rng, keys)
		// lengths a decoder could try to allocate stop at 1 GiB: sixteen children each zeroing 2 GiB strings got the
		// whole machine's OOM killer involved; beyond that only lengths no allocator accepts
		n := []int64{100, 1 << 16, 1 << 20, 1 << 24, 1 << 28, 1 << 30, 1 << 40, 1 << 62, 1<<63 - 1}[rng.IntN(9)]
		fmt.Fprintf(&b, "d%s%d:abce", bstr(k), n)
	case "int-boundary":
		b.WriteString("d")
		for _, k := range keys {
			if rng.IntN(2) == 0 {
				ints := []string{"i0e", "i-0e", "i-1e", "i00e", "i01e", "i4294967295e", "i4294967296e", "i9223372036854775807e", "i9223372036854775808e", "i99999999999999999999999e", "ie", "i-e", "i1", "i1.5e", "i 1e"}
				b.WriteString(bstr(k) + vk.Pick(rng, ints))
			}
		}
		b.WriteString("e")
	case "wrong-type":
		b.WriteString("d")
		for _, k := range keys {
			if rng.IntN(2) == 0 {
				b.WriteString(bstr(k) + val())
			}
		}
		b.WriteString("e")
	case "dup-unsorted":
		b.WriteString("d")
		for j := 0; j < 2+rng.IntN(6); j++ {
			b.WriteString(bstr(vk.Pick(rng, keys)) + val())
		}
		b.WriteString("e")
	case "deep-nesting":
		depth := []int{10, 100, 1000, 10000, 100000, 500000}[rng.IntN(6)]
		ch := []byte{'l', 'd'}[rng.IntN(2)]
		if ch == 'd' {
			b.WriteString("d" + bstr(vk.Pick(rng, keys)))
			for j := 0; j < depth/4; j++ {
				b.WriteString("d1:a")
			}
		} else {
			b.WriteString("d" + bstr(vk.Pick(rng, keys)))
			for j := 0; j < depth; j++ {
				b.WriteByte('l')
			}
		}
	case "trailing":
		b.WriteString("de")
		for j := 0; j < rng.IntN(60); j++ {
			b.WriteByte(byte(rng.IntN(256)))
		}
	case "valid-ish":
		b.Write(fillPayload("benc", 120+rng.IntN(50), sub))
	case "meta-sizes":
		n := []int{0, 1, 16383, 16384, 16385}[rng.IntN(5)]
		fmt.Fprintf(&b, "d8:msg_typei%de5:piecei%de10:total_sizei%dee", rng.IntN(4), []int64{0, 1, 1 << 31, 1<<32 - 1, 1 << 32, -1}[rng.IntN(6)], []int64{0, 1, 16384, 1 << 27, 1<<32 - 1, 1 << 32, -5}[rng.IntN(7)])
		b.Write(make([]byte, n))
	case "huge-list":
		b.WriteString("d" + bstr(vk.Pick(rng, keys)) + "l")
		for j := 0; j < 1000+rng.IntN(20000); j++ {
			b.WriteString("i1e")
		}
		b.WriteString("ee")
	}
	return b.Bytes(), cls
}

func mutatedValid(rng *rand.Rand) ([]byte, string) {
	kinds := []refwire.Kind{refwire.KKeepAlive, refwire.KChoke, refwire.KUnchoke, refwire.KInterested, refwire.KNotInterested, refwire.KHave, refwire.KBitfield, refwire.KRequest, refwire.KPiece, refwire.KCancel, refwire.KPort, refwire.KSuggest, refwire.KHaveAll, refwire.KHaveNone, refwire.KReject, refwire.KAllowedFast, refwire.KExtended}
	k := vk.Pick(rng, kinds)
	m := refwire.Msg{Kind: k, Index: rng.Uint32(), Begin: rng.Uint32(), Length: rng.Uint32(), Port: uint16(rng.Uint32())}
	switch k {
	case refwire.KBitfield:
		m.Data = make([]byte, rng.IntN(300))
	case refwire.KPiece:
		m.Data = make([]byte, []int{0, 1, 16383, 16384, 16385, 40000}[rng.IntN(6)])
	case refwire.KExtended:
		m.Sub = byte(rng.IntN(6))
		switch m.Sub {
		case 0:
			v := "x"
			p := int64(rng.IntN(70000))
			m.Data = refwire.Ext0{M: map[string]int64{"ut_pex": int64(rng.IntN(300)), "ut_metadata": 2}, V: &v, P: &p}.Payload()
		case 1:
			m.Data = refwire.Pex{}.Payload()
		case 2:
			m.Data = refwire.Meta{Type: int64(rng.IntN(3)), Piece: int64(rng.IntN(5)), Data: make([]byte, rng.IntN(100))}.Payload()
		case 3:
			m.Data = []byte{0, 0, 0, byte(rng.IntN(256))}
		case 4:
			m.Data = []byte{byte(rng.IntN(3))}
		default:
			m.Data = make([]byte, rng.IntN(20))
		}
	}
	f := refwire.Encode(m)
	cls := "valid"
	switch rng.IntN(6) {
	case 0: // flip a byte
		if len(f) > 0 {
			f[rng.IntN(len(f))] ^= byte(1 << rng.IntN(8))
			cls = "bitflip"
		}
	case 1: // shorten announced length
		if len(f) >= 4 {
			L := binary.BigEndian.Uint32(f)
			binary.BigEndian.PutUint32(f, L-uint32(rng.IntN(3)+1))
			cls = "len-short"
		}
	case 2: // lengthen announced length
		if len(f) >= 4 {
			L := binary.BigEndian.Uint32(f)
			binary.BigEndian.PutUint32(f, L+uint32(rng.IntN(3)+1))
			cls = "len-long"
		}
	case 3: // truncate
		f = f[:rng.IntN(len(f)+1)]
		cls = "truncated"
	}
	return f, cls + "-" + string(k)
}
