// C18: privacy switches are honoured.
// Absence-of-contact monitor on every outbound channel (injected tracker fakes,
// a local web-seed / proxy server, the DHT announce hook, what a scripted peer
// is told, incoming handshakes) under all initial configurations and all
// SetConf sequences of length <= 2 (quick) / <= 3 (thorough).
package c18

import (
	"bytes"
	"context"
	"errors"
	"fmt"
	"math/rand/v2"
	"net"
	"net/http"
	"net/http/httptest"
	"net/netip"
	"os"
	"strings"
	"sync"
	"sync/atomic"
	"testing"
	"time"

	"github.com/jech/storrent/config"
	"github.com/jech/storrent/crypto"
	"github.com/jech/storrent/httpclient"
	"github.com/jech/storrent/peer"
	"github.com/jech/storrent/tor"
	"github.com/jech/storrent/tracker"
	"github.com/jech/storrent/verifhook"
	"github.com/jech/storrent/webseed"
	"verifharness/fixture"
	"verifharness/refwire"
	"verifharness/swarm"
	"verifharness/vk"
)

type conf struct {
	Trackers bool
	Webseeds bool
	Dht      config.DhtMode
}

func (c conf) String() string {
	return fmt.Sprintf("trackers=%v webseeds=%v dht=%v", c.Trackers, c.Webseeds, c.Dht)
}

func allConfs() []conf {
	var out []conf
	for _, t := range []bool{false, true} {
		for _, w := range []bool{false, true} {
			for _, d := range []config.DhtMode{config.DhtNone, config.DhtPassive, config.DhtNormal} {
				out = append(out, conf{t, w, d})
			}
		}
	}
	return out
}

// window: the settings against which a contact is judged.  Between the call of
// SetConf and the quiescent cut after its return both the old and the new
// settings are in force (a contact begun before the switch-off returned is exempt).
type window struct {
	cur, prev conf
	open      bool
	proxied   bool
	// initial: the window of the torrent's creation (configured right after being added). Only in that one
	// are observers inside this process (fake tracker, DHT hook) lenient: every SetConf is called at a
	// quiescent cut with no virtual time passing until the cut after it, so nothing begun under the old
	// settings can still be on its way to them. Real sockets (the web seed's server) stay lenient.
	initial bool
}

type monitor struct {
	w      atomic.Pointer[window]
	sw     *swarm.Swarm
	hash   []byte
	mu     sync.Mutex
	counts map[string]int
}

func (m *monitor) count(k string) {
	m.mu.Lock()
	m.counts[k]++
	m.mu.Unlock()
}

func (m *monitor) allowed(f func(c conf) bool) bool {
	w := m.w.Load()
	return f(w.cur) || (w.open && f(w.prev))
}

// allowedInProcess: for observers called synchronously by storrent's own goroutines.
func (m *monitor) allowedInProcess(f func(c conf) bool) bool {
	w := m.w.Load()
	return f(w.cur) || (w.open && w.initial && f(w.prev))
}

// fakeTracker records every Announce.
type fakeTracker struct {
	m   *monitor
	url string
	// slowFail > 0: the announce takes that long (virtual) and then fails, as an overloaded tracker does
	slowFail time.Duration
}

func (f *fakeTracker) URL() string                      { return f.url }
func (f *fakeTracker) GetState() (tracker.State, error) { return tracker.Ready, nil }
func (f *fakeTracker) Announce(ctx context.Context, hash []byte, myid []byte, want int, size int64, port4, port6 int, proxy string, cb func(netip.AddrPort) bool) error {
	m := f.m
	w := m.w.Load()
	if !m.allowedInProcess(func(c conf) bool { return c.Trackers }) {
		m.sw.Viol("C18", "contact", "tracker-contact-while-disabled", fmt.Sprintf("tracker announced while tracker use is off (%v)", w.cur))
	} else {
		m.count("tracker_contacts_allowed")
	}
	if w.proxied {
		if port4 != 0 || port6 != 0 {
			m.sw.Viol("C18", "leak", "tracker-port-while-proxied", fmt.Sprintf("proxied torrent told the tracker ports %d/%d", port4, port6))
		}
		if proxy == "" {
			m.sw.Viol("C18", "leak", "tracker-not-through-proxy", "proxied torrent announces to a tracker without the proxy")
		}
		m.count("tracker_contacts_proxied")
	} else if port4 != 0 {
		m.count("tracker_contacts_with_port")
	}
	if f.slowFail > 0 {
		select {
		case <-time.After(f.slowFail):
		case <-ctx.Done():
		}
		return errors.New("tracker overloaded")
	}
	return nil
}

var (
	srvOnce sync.Once
	wsSrv   *httptest.Server // plays the web seed (direct) and the HTTP proxy (proxied torrents)
	wsMu    sync.Mutex
	wsMons  = map[string]*monitor{} // by scenario token (part of the web-seed URL)
)

func startServers() {
	srvOnce.Do(func() {
		httpclient.Get("", "") // starts httpclient's expiry goroutine outside any bubble
		wsSrv = httptest.NewServer(http.HandlerFunc(func(w http.ResponseWriter, r *http.Request) {
			var m *monitor
			wsMu.Lock()
			for tok, mm := range wsMons {
				if strings.Contains(r.URL.Path, "/seed/"+tok+"/") {
					m = mm
				}
			}
			wsMu.Unlock()
			// a request of a scenario that has already ended (handled late by the server) cannot be timed: ignored
			if m != nil {
				// a request reaching us directly or as a proxy request (absolute URI) is a web-seed fetch
				if !m.allowed(func(c conf) bool { return c.Webseeds }) {
					m.sw.Viol("C18", "contact", "webseed-contact-while-disabled", fmt.Sprintf("web-seed request %s %s while web-seed use is off (%v)", r.Method, r.URL, m.w.Load().cur))
				} else {
					m.count("webseed_contacts_allowed")
				}
			}
			http.Error(w, "nope", http.StatusNotFound)
		}))
	})
}

// gaddrConn presents a global-unicast TCP peer address.
type gaddrConn struct{ net.Conn }

func (gaddrConn) RemoteAddr() net.Addr { return &net.TCPAddr{IP: net.ParseIP("8.8.8.8"), Port: 40000} }

type scen struct {
	Initial    conf   `json:"initial"`
	ViaDefault bool   `json:"initial_via_global_defaults"`
	Proxied    bool   `json:"proxied"`
	Changes    []conf `json:"changes"`
	Waits      []int  `json:"waits_s"`
}

func run(t *testing.T, c *vk.C, sc scen, rng *rand.Rand) map[string]int {
	m := &monitor{counts: map[string]int{}}
	swarm.Run(t, c, "C18", func(sw *swarm.Swarm) {
		m.sw = sw
		proxy := ""
		if sc.Proxied {
			proxy = wsSrv.URL // an HTTP proxy: every web-seed fetch of a proxied torrent arrives here as a proxy request
		}
		if sc.ViaDefault {
			config.DefaultDhtMode = sc.Initial.Dht
			config.DefaultUseTrackers = sc.Initial.Trackers
			config.DefaultUseWebseeds = sc.Initial.Webseeds
		}
		g := &fixture.Geo{Name: "priv", PieceLen: 16 << 10, Length: 3*(16<<10) - 9, Seed: rng.Uint64()}
		info := g.Info()
		m.hash = g.InfoHash()
		w0 := &window{cur: sc.Initial, proxied: sc.Proxied}
		if !sc.ViaDefault {
			// created under all-off defaults, configured right away: both are in force until the first cut
			w0.prev, w0.open, w0.initial = conf{false, false, config.DhtNone}, true, true
		}
		m.w.Store(w0)
		verifhook.SetAnnounce(func(hash []byte, ipv6 bool, port uint16) {
			if !bytes.Equal(hash, m.hash) {
				return
			}
			w := m.w.Load()
			if !m.allowedInProcess(func(c conf) bool { return c.Dht != config.DhtNone }) {
				sw.Viol("C18", "contact", "dht-announce-while-none", fmt.Sprintf("DHT announce while the DHT mode is none (%v)", w.cur))
				return
			}
			m.count("dht_announces_allowed")
			if port != 0 {
				if w.proxied {
					sw.Viol("C18", "leak", "dht-port-while-proxied", fmt.Sprintf("proxied torrent announced port %d to the DHT", port))
				} else if !m.allowedInProcess(func(c conf) bool { return c.Dht == config.DhtNormal }) {
					sw.Viol("C18", "leak", "dht-port-while-not-normal", fmt.Sprintf("port %d announced to the DHT in mode %v", port, w.cur.Dht))
				} else {
					m.count("dht_announces_with_port")
				}
			}
		})
		defer verifhook.SetAnnounce(nil)
		token := fmt.Sprintf("s%x", rng.Uint64())
		wsMu.Lock()
		wsMons[token] = m
		wsMu.Unlock()
		defer func() {
			wsMu.Lock()
			delete(wsMons, token)
			wsMu.Unlock()
		}()
		ft := &fakeTracker{m: m, url: "http://tracker.invalid/announce"}
		// first in its tier in half of the scenarios: a tracker that answers slowly, with an error
		ftSlow := &fakeTracker{m: m, url: "http://slow.invalid/announce", slowFail: time.Duration(3+rng.IntN(15)) * time.Second}
		tier := []tracker.Tracker{ft}
		if rng.IntN(2) == 0 {
			tier = []tracker.Tracker{ftSlow, ft}
		}
		ws := webseed.New(wsSrv.URL+"/seed/"+token+"/", true)
		t0, err := tor.New(proxy, m.hash, "", info, 0, [][]tracker.Tracker{tier}, []webseed.Webseed{ws})
		if err != nil {
			panic(err)
		}
		if err := t0.MetadataComplete(); err != nil {
			panic(err)
		}
		tr := sw.Adopt(t0, g)
		if !sc.ViaDefault {
			if err := tr.T.SetConf(peer.TorConf{DhtMode: sc.Initial.Dht, UseTrackers: sc.Initial.Trackers, UseWebseeds: sc.Initial.Webseeds}); err != nil {
				panic(err)
			}
		}
		// demand with no peer holding the data: the web-seed path is eligible at every request tick
		tr.T.Request(0, 1, true, false)
		tr.T.Request(1, 0, true, false)
		sw.Cut()
		m.w.Store(&window{cur: sc.Initial, proxied: sc.Proxied})

		// what a scripted peer is told
		r := tr.Connect(swarm.RemoteOpts{Fast: true, Ext: true, Dht: true, Proxy: proxy})
		r.SendExt0(swarm.StdExt0(0, 0))
		sw.Cut()
		if e := r.StExt(); e != nil {
			if sc.Proxied {
				if e.V != nil && *e.V != "" {
					sw.Viol("C18", "leak", "version-to-peer-while-proxied", fmt.Sprintf("proxied torrent sent client version %q to a peer", *e.V))
				}
				if e.P != nil && *e.P != 0 {
					sw.Viol("C18", "leak", "port-to-peer-while-proxied", fmt.Sprintf("proxied torrent sent listening port %d to a peer", *e.P))
				}
				if e.IPv6 != nil || e.IPv4 != nil {
					sw.Viol("C18", "leak", "address-to-peer-while-proxied", "proxied torrent sent an IP address to a peer")
				}
				m.count("peer_handshakes_proxied_checked")
			} else if e.V != nil && *e.V != "" {
				m.count("peer_handshakes_with_version")
			}
		} else {
			c.Inconclusive("no extended handshake from storrent")
		}
		if r.Count("port") > 0 {
			if sc.Proxied {
				sw.Viol("C18", "leak", "dht-port-message-while-proxied", "proxied torrent sent a DHT Port message to a peer")
			} else {
				m.count("port_messages_unproxied")
			}
		}

		if sc.Proxied {
			// other, ordinary torrents live in the same process: what is on offer to incoming handshakes is
			// theirs alone
			for k := 0; k < 1+rng.IntN(3); k++ {
				og := &fixture.Geo{Name: fmt.Sprintf("other%d", k), PieceLen: 16 << 10, Length: 20000 + int64(k), Seed: rng.Uint64()}
				sw.AddTorrent(og, swarm.TorOpts{})
			}
			sw.Cut()
		}
		// incoming connection
		a, b := net.Pipe()
		srvErr := make(chan error, 1)
		var replied atomic.Bool
		go func() { srvErr <- tor.Server(gaddrConn{a}, crypto.DefaultOptions(false, false)) }()
		go func() {
			hs := append([]byte{19}, []byte("BitTorrent protocol")...)
			hs = append(hs, 0, 0, 0, 0, 0, 0x10, 0, 5)
			hs = append(hs, m.hash...)
			hs = append(hs, []byte("-VF0003-incoming0000")...)
			b.SetDeadline(time.Now().Add(2 * time.Minute))
			b.Write(hs)
			buf := make([]byte, 68)
			got := 0
			for {
				n, err := b.Read(buf[got:])
				got += n
				if got >= 20 && bytes.Equal(buf[1:20], []byte("BitTorrent protocol")) {
					replied.Store(true) // storrent answered the handshake: it admitted to having the torrent
				}
				if err != nil || got >= len(buf) {
					break
				}
			}
			for {
				if _, err := b.Read(buf); err != nil {
					break
				}
			}
			b.Close()
		}()
		sw.Cut()
		var serr error
		select {
		case serr = <-srvErr:
		default:
			time.Sleep(3 * time.Minute)
			sw.Cut()
			select {
			case serr = <-srvErr:
			default:
				c.Inconclusive("tor.Server did not return")
			}
		}
		ps, _ := tr.T.GetPeers()
		if sc.Proxied {
			if replied.Load() {
				sw.Viol("C18", "incoming", "incoming-handshake-answered-while-proxied", "storrent answered an incoming handshake for a proxied torrent (it revealed that it has the torrent and its peer id) before dropping the connection")
			}
			if serr == nil || len(ps) > 1 {
				sw.Viol("C18", "incoming", "incoming-accepted-while-proxied", fmt.Sprintf("incoming handshake for a proxied torrent: Server returned %v, %d peers attached", serr, len(ps)))
			} else {
				m.count("incoming_refused_proxied")
			}
		} else if serr == nil {
			m.count("incoming_accepted_unproxied")
		}
		a.Close()

		if sc.Proxied {
			// the same, with history: the handshake starts while the torrent is not proxied (so its hash is on
			// offer), stalls, the torrent is deleted and added again through a proxy, and then the handshake
			// completes. The proxied torrent must not end up with an incoming peer.
			g2 := &fixture.Geo{Name: "swap", PieceLen: 16 << 10, Length: 2*(16<<10) - 5, Seed: rng.Uint64()}
			h2 := g2.InfoHash()
			mk := func(px string) *swarm.Tor {
				tx, err := tor.New(px, h2, "", g2.Info(), 0, nil, nil)
				if err != nil {
					panic(err)
				}
				if err := tx.MetadataComplete(); err != nil {
					panic(err)
				}
				return sw.Adopt(tx, g2)
			}
			u := mk("")
			sw.Cut()
			a2, b2 := net.Pipe()
			srvErr2 := make(chan error, 1)
			go func() { srvErr2 <- tor.Server(gaddrConn{a2}, crypto.DefaultOptions(false, false)) }()
			sw.Cut() // Server has taken its list of hashes and waits for the handshake
			time.Sleep(time.Duration(1+rng.IntN(20)) * time.Second)
			u.Kill()
			sw.Cut()
			pt := mk(proxy)
			sw.Cut()
			sw.Act("torrent %x deleted and added again through a proxy while an incoming handshake for it is pending", h2[:4])
			go func() {
				hs := append([]byte{19}, []byte("BitTorrent protocol")...)
				hs = append(hs, 0, 0, 0, 0, 0, 0x10, 0, 5)
				hs = append(hs, h2...)
				hs = append(hs, []byte("-VF0003-incoming0001")...)
				b2.SetDeadline(time.Now().Add(2 * time.Minute))
				b2.Write(hs)
				buf := make([]byte, 4096)
				for {
					if _, err := b2.Read(buf); err != nil {
						break
					}
				}
				b2.Close()
			}()
			sw.Cut()
			var serr2 error
			got2 := false
			select {
			case serr2 = <-srvErr2:
				got2 = true
			default:
				time.Sleep(3 * time.Minute)
				sw.Cut()
				select {
				case serr2 = <-srvErr2:
					got2 = true
				default:
					c.Inconclusive("tor.Server did not return (swap)")
				}
			}
			if got2 {
				ps2, _ := pt.T.GetPeers()
				if serr2 == nil || len(ps2) > 0 {
					sw.Viol("C18", "incoming", "incoming-accepted-while-proxied after-swap", fmt.Sprintf("an incoming handshake that began before the torrent was re-added through a proxy was accepted: Server returned %v, %d peers attached to the proxied torrent", serr2, len(ps2)))
				} else {
					m.count("incoming_refused_proxied_after_swap")
				}
			}
			a2.Close()
			pt.Kill()
			sw.Cut()
		}

		// configuration changes
		wait := func(s int) {
			if s > 0 {
				time.Sleep(time.Duration(s) * time.Second)
			}
			sw.Cut()
		}
		wait(sc.Waits[0])
		cur := sc.Initial
		for i, nc := range sc.Changes {
			m.w.Store(&window{cur: nc, prev: cur, open: true, proxied: sc.Proxied})
			sw.Act("SetConf %v -> %v", cur, nc)
			if err := tr.T.SetConf(peer.TorConf{DhtMode: nc.Dht, UseTrackers: nc.Trackers, UseWebseeds: nc.Webseeds}); err != nil {
				c.Inconclusive("SetConf: " + err.Error())
			}
			sw.Cut()
			// let requests that were already on the wire reach the server (real sockets): a short real pause is enough
			m.w.Store(&window{cur: nc, proxied: sc.Proxied})
			cur = nc
			got, err := tr.T.GetConf()
			if err == nil && (got.DhtMode != nc.Dht || got.UseTrackers != nc.Trackers || got.UseWebseeds != nc.Webseeds) {
				sw.Viol("C18", "config", "setconf-not-applied", fmt.Sprintf("GetConf after SetConf(%v) returned %+v", nc, got))
			}
			wait(sc.Waits[i+1])
		}
		// the same torrent is added a second time (a second click on the magnet link) while the process-wide
		// defaults say "everything on": the add is refused, and nothing may be contacted or announced on behalf
		// of the refused object under settings the listed torrent does not have
		config.DefaultDhtMode = config.DhtNormal
		config.DefaultUseTrackers = true
		config.DefaultUseWebseeds = true
		ft2 := &fakeTracker{m: m, url: "http://tracker2.invalid/announce"}
		if t2, err := tor.New(proxy, m.hash, "", info, 0, [][]tracker.Tracker{{ft2}}, nil); err == nil {
			_, aerr := tor.AddTorrent(sw.Ctx, t2)
			sw.Act("second add of the same hash -> %v", aerr)
			sw.Cut()
			time.Sleep(25 * time.Second)
			sw.Cut()
			if aerr == nil {
				c.Inconclusive("the second add of a listed hash was accepted")
			} else {
				m.count("duplicate_adds_refused")
			}
		}
		config.DefaultDhtMode = config.DhtNone
		config.DefaultUseTrackers = false
		config.DefaultUseWebseeds = false
		tr.Kill()
		sw.Cut()
	})
	return m.counts
}

func scenarios(tier string) []scen {
	cs := allConfs()
	var out []scen
	for _, init := range cs {
		for _, prox := range []bool{false, true} {
			for _, viaDef := range []bool{false, true} {
				out = append(out, scen{Initial: init, Proxied: prox, ViaDefault: viaDef})
				for _, c1 := range cs {
					if viaDef {
						continue // change sequences start from a per-torrent configuration
					}
					out = append(out, scen{Initial: init, Proxied: prox, Changes: []conf{c1}})
					for _, c2 := range cs {
						out = append(out, scen{Initial: init, Proxied: prox, Changes: []conf{c1, c2}})
					}
				}
			}
		}
	}
	return out
}

func TestCheck(t *testing.T) {
	startServers()
	r := vk.New("C18")
	defer r.Done()
	base := scenarios(r.Env.Tier)
	reps := r.Env.N(1, 4)
	idx := 0
	waitChoices := []int{0, 25, 25, 1800}
	for rep := 0; rep < reps; rep++ {
		for _, sc := range base {
			i := idx
			idx++
			if !r.Mine(i) {
				continue
			}
			rng := r.Env.Rng(i)
			sc.Waits = nil
			for k := 0; k <= len(sc.Changes); k++ {
				sc.Waits = append(sc.Waits, waitChoices[rng.IntN(len(waitChoices))])
			}
			if r.Env.Tier == "thorough" && rep%2 == 1 && len(sc.Changes) == 2 {
				// a third, PRNG-chosen change
				cs := allConfs()
				sc.Changes = append(append([]conf(nil), sc.Changes...), cs[rng.IntN(len(cs))])
				sc.Waits = append(sc.Waits, waitChoices[rng.IntN(len(waitChoices))])
			}
			c := r.Begin(i, sc)
			counts := run(t, c, sc, rng)
			for k, v := range counts {
				c.Count(k, int64(v))
			}
			// non-trivial: some contact was observed under an enabling setting in the same scenario
			en := 0
			for k, v := range counts {
				if strings.HasSuffix(k, "_allowed") && v > 0 {
					en++
				}
			}
			c.FP(vk.Hash64(sc.Initial, sc.Proxied, sc.ViaDefault, sc.Changes), en > 0 || !anyEnabled(sc))
			c.End()
		}
	}
	r.Count("scenarios_enumerated", int64(len(base)))
	_ = os.Getenv
	_ = refwire.KChoke
	r.Finish()
}

func anyEnabled(sc scen) bool {
	f := func(c conf) bool { return c.Trackers || c.Webseeds || c.Dht != config.DhtNone }
	if f(sc.Initial) {
		return true
	}
	for _, c := range sc.Changes {
		if f(c) {
			return true
		}
	}
	return false
}
