//go:build !race

package swarm

const RaceEnabled = false
