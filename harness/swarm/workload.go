package swarm

import (
	"fmt"
	"math/rand/v2"
	"net/netip"
	"slices"
	"sync/atomic"
	"time"

	"github.com/jech/storrent/hash"
	"github.com/jech/storrent/peer"
	"github.com/jech/storrent/verifhook"
	"verifharness/fixture"
	"verifharness/refwire"
)

// bitfieldOf encodes a set as a wire bitfield with zero spare bits.
func bitfieldOf(set []bool) []byte {
	b := make([]byte, (len(set)+7)/8)
	for i, v := range set {
		if v {
			b[i/8] |= 0x80 >> uint(i%8)
		}
	}
	return b
}

// Advertise makes the remote announce `have` in one of the protocol's ways.
func (r *Remote) Advertise(rng *rand.Rand, have []bool) {
	all, none := true, true
	for _, v := range have {
		all = all && v
		none = none && !v
	}
	r.HonestAdvert = true
	switch {
	case all && r.Opt.Fast && rng.IntN(2) == 0:
		r.Send(refwire.Msg{Kind: refwire.KHaveAll})
	case none && r.Opt.Fast && rng.IntN(2) == 0:
		r.Send(refwire.Msg{Kind: refwire.KHaveNone})
	case none && rng.IntN(2) == 0:
		// nothing at all
	case rng.IntN(4) == 0 && len(have) <= 40:
		if r.Opt.Fast {
			r.Send(refwire.Msg{Kind: refwire.KHaveNone})
		}
		for i, v := range have {
			if v {
				r.Send(refwire.Msg{Kind: refwire.KHave, Index: uint32(i)})
			}
		}
	default:
		r.Send(refwire.Msg{Kind: refwire.KBitfield, Data: bitfieldOf(have)})
	}
}

// AnswerKind enumerates the ways a remote can answer a request.
var AnswerKinds = []string{"truth", "truth", "truth", "truth", "corrupt", "short", "empty", "overlong", "misplaced", "duplicate", "reject", "misaligned"}

// Answer answers one outstanding request k in the given way.
func (r *Remote) Answer(k BlockKey, kind string, salt uint64) {
	g := r.Tr.Geo
	off := int64(k.Index)*int64(g.PieceLen) + int64(k.Begin)
	n := int(k.Length)
	if off+int64(n) > g.Length {
		n = int(g.Length - off)
	}
	if n < 0 {
		n = 0
	}
	r.Tr.Sw.C.Count("answers:"+kind, 1)
	if kind != "truth" {
		r.Tr.Sw.Tag(kind)
	}
	switch kind {
	case "truth":
		r.Send(refwire.Msg{Kind: refwire.KPiece, Index: k.Index, Begin: k.Begin, Data: g.Truth(off, n)})
	case "corrupt":
		d := g.Truth(off, n)
		if len(d) > 0 {
			d[int(salt%uint64(len(d)))] ^= 0x10
		}
		r.Send(refwire.Msg{Kind: refwire.KPiece, Index: k.Index, Begin: k.Begin, Data: d})
	case "corrupt-whole":
		d := g.Truth(off, n)
		for i := range d {
			d[i] ^= 0x10
		}
		r.Send(refwire.Msg{Kind: refwire.KPiece, Index: k.Index, Begin: k.Begin, Data: d})
	case "short":
		if n > 1 {
			n = 1 + int(salt%uint64(n-1))
		}
		r.Send(refwire.Msg{Kind: refwire.KPiece, Index: k.Index, Begin: k.Begin, Data: g.Truth(off, n)})
	case "empty":
		r.Send(refwire.Msg{Kind: refwire.KPiece, Index: k.Index, Begin: k.Begin, Data: nil})
	case "overlong":
		m := n + fixture.Block*int(1+salt%2)
		d := make([]byte, m)
		g.TruthInto(d, off) // true bytes as far as they exist, PRF beyond
		r.Send(refwire.Msg{Kind: refwire.KPiece, Index: k.Index, Begin: k.Begin, Data: d})
	case "misplaced":
		// data for another block than the one requested (unsolicited from storrent's point of view)
		ob := (k.Begin + fixture.Block) % uint32(max(g.PieceSize(int(k.Index)), 1))
		ob -= ob % fixture.Block
		ln, ok := r.blockLen(k.Index, ob)
		if !ok {
			ob, ln = 0, g.BlockLen(int(k.Index), 0)
		}
		r.Send(refwire.Msg{Kind: refwire.KPiece, Index: k.Index, Begin: ob, Data: g.Truth(int64(k.Index)*int64(g.PieceLen)+int64(ob), ln)})
	case "misaligned":
		// the requested block, shifted by a byte or two: it names the same 16 KiB slot, and the store cannot
		// take it
		sh := uint32(1 + salt%3)
		r.Send(refwire.Msg{Kind: refwire.KPiece, Index: k.Index, Begin: k.Begin + sh, Data: g.Truth(off, n)})
		if salt%2 == 0 {
			r.Close() // and it hangs up right away
		}
	case "duplicate":
		r.Send(refwire.Msg{Kind: refwire.KPiece, Index: k.Index, Begin: k.Begin, Data: g.Truth(off, n)})
		r.Send(refwire.Msg{Kind: refwire.KPiece, Index: k.Index, Begin: k.Begin, Data: g.Truth(off, n)})
	case "reject":
		if r.Opt.Fast {
			r.Send(refwire.Msg{Kind: refwire.KReject, Index: k.Index, Begin: k.Begin, Length: k.Length})
		} else {
			r.Send(refwire.Msg{Kind: refwire.KPiece, Index: k.Index, Begin: k.Begin, Data: g.Truth(off, n)})
		}
	}
}

// DownloadOpts tunes RunDownload.
type DownloadOpts struct {
	MaxLen         int64
	Steps          int
	Hostile        bool // allow non-truth answers
	Sizes          []uint32
	ManyPieces     bool // >=72 pieces geometry (sparse advertisement branch)
	InjectCommands bool // post scheduler commands (PeerRequest) straight into peer mailboxes at arbitrary moments
	AfterCut       func(tr *Tor, step int)
}

// RunDownload drives one download history: a torrent that wants pieces, 1..6
// scripted seeds/partial seeds, random protocol events, a cut after every step.
// It returns a class string describing what the history exercised.
func RunDownload(sw *Swarm, rng *rand.Rand, o DownloadOpts) (tr *Tor, stats map[string]int) {
	stats = map[string]int{}
	var g *fixture.Geo
	if o.ManyPieces {
		np := []int{72, 73, 80, 144}[rng.IntN(4)]
		g = &fixture.Geo{Name: "many", PieceLen: 16 << 10, Length: int64(np)*(16<<10) - int64([]int{0, 1, 5000}[rng.IntN(3)]), Seed: rng.Uint64()}
	} else {
		g = fixture.RandGeo(rng, o.MaxLen, o.Sizes)
	}
	tr = sw.AddTorrent(g, TorOpts{})
	np := g.NumPieces()
	// local store: empty / sparse / dense / complete
	var pre []int
	switch rng.IntN(5) {
	case 0, 1:
	case 2:
		pre = []int{rng.IntN(np)}
	case 3:
		for p := 0; p < np; p++ {
			if rng.IntN(2) == 0 {
				pre = append(pre, p)
			}
		}
	case 4:
		for p := 0; p < np; p++ {
			if rng.IntN(8) != 0 {
				pre = append(pre, p)
			}
		}
	}
	tr.Prefill(pre)
	sw.Act("prefill %v", pre)
	sw.Cut()

	newRemote := func() *Remote {
		opt := RemoteOpts{Fast: rng.IntN(2) == 0, Ext: rng.IntN(3) != 0, Incoming: rng.IntN(3) == 0}
		r := tr.Connect(opt)
		if opt.Ext {
			reqq := []int64{0, 1, 2, 5, 250, 1 << 31}[rng.IntN(6)]
			r.SendExt0(StdExt0(reqq, 0))
		}
		have := make([]bool, np)
		switch rng.IntN(4) {
		case 0: // seed
			for i := range have {
				have[i] = true
			}
		case 1: // nothing (yet)
		default:
			for i := range have {
				have[i] = rng.IntN(3) != 0
			}
		}
		r.Advertise(rng, have)
		return r
	}
	nr := 1 + rng.IntN(4)
	for i := 0; i < nr; i++ {
		newRemote()
	}
	sw.Cut()
	check := func(step int) {
		tr.CheckConservation("at-cut")
		if o.AfterCut != nil {
			o.AfterCut(tr, step)
		}
		sw.ClearTags()
	}
	check(-1)
	liveRemotes := func() []*Remote {
		var out []*Remote
		for _, r := range tr.Remotes {
			if !r.Closed() && !r.isClosedByUs() {
				out = append(out, r)
			}
		}
		return out
	}
	type demand struct {
		p    uint32
		prio int8
	}
	var demands []demand
	for step := 0; step < o.Steps; step++ {
		live := liveRemotes()
		var r *Remote
		if len(live) > 0 {
			r = live[rng.IntN(len(live))]
		}
		x := rng.IntN(100)
		switch {
		case x < 12: // demand
			p := uint32(rng.IntN(np))
			prio := int8(rng.IntN(5) - 1)
			sw.Act("request piece %d prio %d", p, prio)
			ok, _, err := tr.T.Request(p, prio, true, false)
			if ok && err == nil {
				demands = append(demands, demand{p, prio})
			}
			stats["demand"]++
		case x < 16 && len(demands) > 0: // withdraw
			i := rng.IntN(len(demands))
			d := demands[i]
			demands = append(demands[:i], demands[i+1:]...)
			sw.Act("withdraw piece %d prio %d", d.p, d.prio)
			tr.T.Request(d.p, d.prio, false, false)
		case x < 28 && r != nil: // unchoke / choke
			if r.choking {
				r.Send(refwire.Msg{Kind: refwire.KUnchoke})
			} else {
				r.Send(refwire.Msg{Kind: refwire.KChoke})
				if r.Opt.Fast && rng.IntN(2) == 0 {
					for _, k := range r.Outstanding() {
						r.Send(refwire.Msg{Kind: refwire.KReject, Index: k.Index, Begin: k.Begin, Length: k.Length})
					}
				}
				stats["choke"]++
			}
		case x < 60 && r != nil: // answer requests
			out := r.Outstanding()
			if len(out) == 0 {
				break
			}
			if rng.IntN(3) == 0 {
				out = out[:1+rng.IntN(len(out))]
			}
			for _, k := range out {
				kind := "truth"
				if o.Hostile && rng.IntN(4) == 0 {
					kind = AnswerKinds[rng.IntN(len(AnswerKinds))]
				}
				r.Answer(k, kind, rng.Uint64())
				stats["answer:"+kind]++
			}
		case x < 66 && r != nil: // advertisement changes
			i := uint32(rng.IntN(np))
			switch rng.IntN(5) {
			case 0, 1:
				r.Send(refwire.Msg{Kind: refwire.KHave, Index: i})
			case 2:
				if r.Opt.Ext && r.StExt() != nil {
					r.SendDontHave(i)
					stats["donthave"]++
				}
			case 3:
				have := make([]bool, np)
				for j := range have {
					have[j] = rng.IntN(2) == 0
				}
				r.Send(refwire.Msg{Kind: refwire.KBitfield, Data: bitfieldOf(have)})
				stats["bitfield-change"]++
			case 4:
				if r.Opt.Fast {
					if rng.IntN(2) == 0 {
						r.Send(refwire.Msg{Kind: refwire.KHaveAll})
					} else {
						r.Send(refwire.Msg{Kind: refwire.KHaveNone})
					}
					stats["haveall/none-change"]++
				}
			}
		case x < 70 && r != nil && r.Opt.Fast:
			r.Send(refwire.Msg{Kind: refwire.KAllowedFast, Index: uint32(rng.IntN(np))})
		case x < 76 && r != nil: // disconnect, sometimes in the same step as a message that makes storrent send it commands
			if rng.IntN(3) == 0 {
				sw.Tag("close-with-trigger")
				switch rng.IntN(3) {
				case 0:
					r.Send(refwire.Msg{Kind: refwire.KUnchoke})
				case 1:
					r.Send(refwire.Msg{Kind: refwire.KHaveAll})
					r.Send(refwire.Msg{Kind: refwire.KUnchoke})
				case 2:
					for _, k := range r.Outstanding() {
						r.Answer(k, "truth", 0)
					}
				}
			}
			sw.Act("%s disconnects", r.Name)
			r.Close()
			stats["disconnect"]++
		case x < 78 && len(tr.Remotes) < 10:
			newRemote()
		case x < 80 && len(tr.Remotes) < 12:
			// a peer that is gone before storrent has finished its own opening messages
			r2 := tr.Connect(RemoteOpts{Fast: rng.IntN(2) == 0, Ext: rng.IntN(2) == 0})
			r2.Close()
			sw.Act("%s connected and closed at once", r2.Name)
			stats["connect-close"]++
		case x < 83 && o.InjectCommands && r != nil:
			// a scheduler command that raced with whatever the remote did last: the peer actor must
			// re-check choke / allowed-fast / advertisement at send time
			ps, err := tr.T.GetPeers()
			if err != nil {
				break
			}
			for _, p := range ps {
				if string(p.Id) != string(r.ID) {
					continue
				}
				var chunks []uint32
				cpp := uint32(g.PieceLen) / fixture.Block
				for k := 0; k < 1+rng.IntN(3); k++ {
					pi := uint32(rng.IntN(np))
					chunks = append(chunks, pi*cpp+uint32(rng.IntN(g.BlocksIn(int(pi)))))
				}
				select {
				case p.Event <- peer.PeerRequest{Chunks: chunks}:
					sw.Act("inject PeerRequest %v into %s's actor", chunks, r.Name)
					stats["inject"]++
				default:
				}
			}
		case x < 85 && r != nil:
			// write congestion: the remote stops reading and the torrent has a burst of have / dont-have to
			// announce, so the peer's writer queue fills up and block requests stay queued, unsent
			r.PauseReading(time.Duration(5+rng.IntN(40)) * time.Second)
			for k := 0; k < 40+rng.IntN(30); k++ {
				tr.T.Have(uint32(rng.IntN(np)), k%2 == 0)
			}
			sw.Tag("congested")
			stats["congest"]++
		case x < 88 && r != nil:
			// data pushed for every block of a piece, requested or not (late answers to dropped requests,
			// answers to requests that are still sitting in the peer's queue)
			pi := rng.IntN(np)
			if rng.IntN(2) == 0 && !tr.T.Pieces.Complete(uint32(pi)) {
				// the same against a congested peer: the remote stops reading, storrent's writer to it fills up
				// with have / dont-have, a piece only this remote is known to serve is demanded, so the blocks
				// commanded to the peer stay in its queue, unsent; then the data arrives anyway
				r.PauseReading(time.Duration(20+rng.IntN(30)) * time.Second)
				for k := 0; k < 60+rng.IntN(30); k++ {
					tr.T.Have(uint32(rng.IntN(np)), k%2 == 0)
				}
				if !r.Advertises(pi) {
					r.Send(refwire.Msg{Kind: refwire.KHave, Index: uint32(pi)})
				}
				if r.choking {
					r.Send(refwire.Msg{Kind: refwire.KUnchoke})
				}
				sw.Cut()
				prio := int8(1 + rng.IntN(3))
				if ok, _, err := tr.T.Request(uint32(pi), prio, true, false); ok && err == nil {
					demands = append(demands, demand{uint32(pi), prio})
				}
				sw.Act("request piece %d prio %d (its holder is congested)", pi, prio)
				sw.Cut()
				time.Sleep(time.Duration(rng.IntN(3)) * time.Second)
				sw.Cut()
				stats["push-all-congested"]++
			} else if out := r.Outstanding(); len(out) > 0 && rng.IntN(4) != 0 {
				// a piece storrent is asking this remote for: the blocks behind the ones on the wire are
				// most likely sitting in the peer's queue
				pi = int(out[rng.IntN(len(out))].Index)
				stats["push-all-outstanding-piece"]++
			}
			if r.Opt.Fast && rng.IntN(3) == 0 {
				// the same with rejects instead of data: late rejects for requests storrent has long given up and
				// commanded anew (they sit in the queue again), rejects for blocks never asked for
				for b := 0; b < g.BlocksIn(pi); b++ {
					r.Send(refwire.Msg{Kind: refwire.KReject, Index: uint32(pi), Begin: uint32(b * fixture.Block), Length: uint32(g.BlockLen(pi, b))})
				}
				sw.Tag("rejected-all")
				stats["reject-all"]++
				break
			}
			for b := 0; b < g.BlocksIn(pi); b++ {
				off := int64(pi)*int64(g.PieceLen) + int64(b*fixture.Block)
				r.Send(refwire.Msg{Kind: refwire.KPiece, Index: uint32(pi), Begin: uint32(b * fixture.Block), Data: g.Truth(off, g.BlockLen(pi, b))})
			}
			sw.Tag("pushed")
			stats["push-all"]++
		case x < 90 && r != nil:
			// back-pressure on the torrent's mailbox: the loop is held (it is answering a statistics query that
			// nobody collects yet) while remotes announce and retract pieces, so the 512-slot mailbox fills and
			// the peers' reports pile up in their overflow lists; then the loop resumes while the remotes go on
			var togglers []*Remote
			for _, q := range liveRemotes() {
				if q.Opt.Ext && q.StExt() != nil && !q.Stalled() {
					togglers = append(togglers, q)
				}
			}
			if len(togglers) == 0 {
				break
			}
			hold := make(chan *peer.TorStats)
			posted := false
			select {
			case tr.T.Event <- peer.TorGetStats{Ch: hold}:
				posted = true
			default:
			}
			if !posted {
				break
			}
			sw.Cut()
			toggle := func(n int) {
				for k := 0; k < n; k++ {
					q := togglers[rng.IntN(len(togglers))]
					i := rng.IntN(np)
					if k%24 == 7 {
						// a whole new bitfield, and right behind it a have for a piece it lacks (the "lazy
						// bitfield" habit): the report of the bitfield is still on its way when the have is handled
						have := make([]bool, np)
						for j := range have {
							have[j] = rng.IntN(2) == 0
						}
						have[i] = false
						q.Send(refwire.Msg{Kind: refwire.KBitfield, Data: bitfieldOf(have)})
						q.Send(refwire.Msg{Kind: refwire.KHave, Index: uint32(i)})
						continue
					}
					if q.Advertises(i) {
						q.SendDontHave(uint32(i))
					} else {
						q.Send(refwire.Msg{Kind: refwire.KHave, Index: uint32(i)})
					}
				}
			}
			toggle(560 + rng.IntN(300))
			sw.Cut()
			sw.Act("mailbox holds %d events; the loop resumes", tr.EventQueueLen())
			go func() {
				select {
				case <-hold:
				case <-tr.T.Done:
				}
			}()
			toggle(100 + rng.IntN(300))
			if rng.IntN(3) == 0 {
				q := togglers[rng.IntN(len(togglers))]
				sw.Act("%s disconnects while its reports are queued", q.Name)
				q.Close()
			}
			sw.Tag("backpressure")
			stats["backpressure"]++
		case x < 92: // time
			d := []time.Duration{300 * time.Millisecond, 300 * time.Millisecond, 2500 * time.Millisecond, 6 * time.Second, 31 * time.Second, 70 * time.Second}[rng.IntN(6)]
			sw.Act("sleep %v", d)
			time.Sleep(d)
			stats["sleep"]++
		case x < 96: // evict something complete
			bm := tr.T.Pieces.Bitmap()
			var cs []int
			for p := 0; p < np; p++ {
				if bm.Get(p) {
					cs = append(cs, p)
				}
			}
			if len(cs) > 0 {
				sw.Act("evict to 0")
				tr.T.Pieces.Expire(0, nil, func(ix uint32) { tr.T.Have(ix, false) })
				stats["evict"]++
			}
		default:
			if r != nil { // silence long enough for request expiry
				sw.Act("sleep 36s (expiry)")
				time.Sleep(36 * time.Second)
			}
		}
		sw.Cut()
		check(step)
		if sw.C.Violated() {
			break
		}
	}
	// everybody leaves
	for _, r := range tr.Remotes {
		r.Close()
	}
	sw.Act("all remotes closed")
	sw.Cut()
	time.Sleep(time.Second)
	sw.Cut()
	if !sw.C.Violated() {
		tr.CheckConservation("after-disconnect")
		tr.CheckAllZero("after-disconnect")
	}
	for _, r := range tr.Remotes {
		for k, v := range r.Counts {
			stats["recv:"+k] += v
		}
	}
	return tr, stats
}

func max(a, b int) int {
	if a > b {
		return a
	}
	return b
}

// ClassOf turns stats into a coarse fingerprint string.
func ClassOf(stats map[string]int, keys ...string) string {
	s := ""
	for _, k := range keys {
		v := stats[k]
		c := 0
		switch {
		case v == 0:
		case v < 4:
			c = 1
		case v < 20:
			c = 2
		default:
			c = 3
		}
		s += fmt.Sprintf("%s%d,", k, c)
	}
	return s
}

// RunPex drives a peer-exchange history: observers with ut_pex stay connected
// while other peers join, leave and re-join at chosen moments relative to the
// one-minute PEX rounds; at the end, after ceil(k/50)+2 further rounds, no
// departed peer may still be announced to an observer (C11: "eventually
// reports every departure"); the delta rules are judged online by the remote.
func RunPex(sw *Swarm, rng *rand.Rand) (tr *Tor, stats map[string]int) {
	stats = map[string]int{}
	g := fixture.RandGeo(rng, 512<<10, []uint32{16 << 10, 32 << 10})
	tr = sw.AddTorrent(g, TorOpts{})
	nobs := 1 + rng.IntN(2)
	var obs []*Remote
	for i := 0; i < nobs; i++ {
		r := tr.Connect(RemoteOpts{Fast: rng.IntN(2) == 0, Ext: true})
		r.SendExt0(StdExt0(0, 0))
		r.KeepAlives(100 * time.Second) // or storrent times the observer out five minutes into the history
		obs = append(obs, r)
	}
	sw.Cut()
	pool := 3 + rng.IntN(4)
	if rng.IntN(6) == 0 {
		pool = 55 + rng.IntN(20) // more than one PEX message can carry
		stats["bigpool"] = 1
	}
	conn := make([]*Remote, pool)
	join := func(i int) {
		opt := RemoteOpts{Fast: rng.IntN(2) == 0, Ext: rng.IntN(4) != 0, Addr: Addr(100 + i), ID: []byte(fmt.Sprintf("-VF0002-pool%08d", i))}
		r := tr.Connect(opt)
		r.KeepAlives(100 * time.Second) // a pool peer leaves when the history says so, not when storrent times it out
		if opt.Ext {
			e := StdExt0(0, 0)
			if rng.IntN(4) == 0 {
				// it claims to listen on another port than the one it was dialled at (outgoing connection): the
				// peer keeps one address for its whole stay, whichever storrent settles on
				pp := int64(opt.Addr.Port())%60000 + 1000 + int64(rng.IntN(3))
				e.P = &pp
				stats["inconsistent-port"]++
			}
			r.SendExt0(e)
		}
		conn[i] = r
		stats["join"]++
	}
	leave := func(i int) {
		sw.Act("%s (pool %d) leaves", conn[i].Name, i)
		conn[i].Close()
		conn[i] = nil
		stats["leave"]++
	}
	if stats["bigpool"] > 0 && rng.IntN(2) == 0 {
		// the whole pool arrives within one PEX interval, so every observer learns of it in two messages (50 and
		// the rest); then peers from either message — the last to arrive among them — leave, come back and
		// leave again, a round apart each time
		for k := 0; k < pool; k++ {
			join(k)
		}
		sw.Cut()
		time.Sleep(3 * 61 * time.Second)
		sw.Cut()
		churn := rng.Perm(pool)[:pool/3]
		for k := pool - 4; k < pool; k++ {
			if !slices.Contains(churn, k) {
				churn = append(churn, k)
			}
		}
		for round := 0; round < 2 && !sw.C.Violated(); round++ {
			for _, k := range churn {
				if conn[k] != nil {
					leave(k)
				}
			}
			time.Sleep(61 * time.Second)
			sw.Cut()
			if round == 0 {
				for _, k := range churn {
					join(k)
				}
				stats["rejoin"] += len(churn)
				time.Sleep(61 * time.Second)
				sw.Cut()
			}
		}
		stats["bigpool_all_at_once"]++
		if sw.C.Violated() {
			return
		}
	}
	steps := 15 + rng.IntN(25)
	for s := 0; s < steps; s++ {
		i := rng.IntN(pool)
		switch x := rng.IntN(100); {
		case x < 35:
			if conn[i] == nil {
				join(i)
			} else {
				leave(i)
			}
		case x < 45: // leave and re-join within the same step / round
			if conn[i] != nil {
				leave(i)
				sw.Cut()
				if rng.IntN(2) == 0 {
					time.Sleep(time.Duration(1+rng.IntN(20)) * time.Second)
				}
				join(i)
				stats["rejoin"]++
			}
		case x < 50 && stats["bigpool"] > 0: // mass join / mass leave
			for k := 0; k < pool; k++ {
				if conn[k] == nil && rng.IntN(2) == 0 {
					join(k)
				} else if conn[k] != nil && rng.IntN(2) == 0 {
					leave(k)
				}
			}
		case x < 56: // congest an observer across a PEX round
			o := obs[rng.IntN(len(obs))]
			o.PauseReading(time.Duration(20+rng.IntN(35)) * time.Second)
			for p := 0; p < g.NumPieces() && p < 50; p++ {
				tr.T.Have(uint32(p), p%2 == 0) // a burst of have/dont-have fills the writer queue
			}
			stats["congest"]++
		case x < 61:
			// the PEX tick falls on an observer whose writer queue is exactly full (it has stopped reading), with an
			// arrival to report; the observer then reads again and the newcomer leaves, comes back and leaves
			o := obs[rng.IntN(len(obs))]
			if o.Closed() || o.Stalled() {
				break
			}
			if conn[i] != nil {
				leave(i)
				time.Sleep(125 * time.Second)
				sw.Cut()
			}
			// the peer actor sends PEX at its 2-second ticks 2 s, 62 s, 122 s ... after it was started; storrent gives a
			// connection up after a write has been blocked for a minute, so the observer stops reading 20 s before a tick
			// and reads again 10 s after it
			since := time.Since(o.Born) - 2*time.Second
			next := (since/time.Minute + 1) * time.Minute
			if next-since < 22*time.Second {
				next += time.Minute
			}
			time.Sleep(next - since - 20*time.Second)
			sw.Cut()
			o.PauseReading(30 * time.Second)
			time.Sleep(300 * time.Millisecond)
			if !tr.FillWriter(o) {
				break
			}
			join(i)
			sw.Act("PEX tick due in %v with the writer queue to %s exactly full and an arrival pending", time.Until(o.Born.Add(next+2*time.Second)), o.Name)
			time.Sleep(35 * time.Second) // the tick, then the observer reads again
			sw.Cut()
			if o.Closed() {
				stats["pex_full_writer_observer_lost"]++
				break
			}
			for k := 0; k < 2; k++ {
				if conn[i] != nil {
					leave(i)
				}
				time.Sleep(61 * time.Second)
				sw.Cut()
				if k == 0 {
					join(i)
					time.Sleep(61 * time.Second)
					sw.Cut()
				}
			}
			stats["pex_tick_with_full_writer"]++
		default:
			d := []time.Duration{time.Second, 20 * time.Second, 61 * time.Second, 61 * time.Second, 130 * time.Second}[rng.IntN(5)]
			sw.Act("sleep %v", d)
			time.Sleep(d)
		}
		sw.Cut()
		// whatever is announced is an address some peer of this torrent is (or was) connected at
		for _, o := range obs {
			if o.Closed() || o.Stalled() {
				continue
			}
			for a := range o.PexAnnounced() {
				known := false
				for k := 0; k < pool && !known; k++ {
					known = Addr(100+k) == a
				}
				for _, o2 := range obs {
					known = known || o2.Addr == a
				}
				if !known {
					sw.Viol("C11", "conformance", "pex-announces-address-nobody-connected-from", fmt.Sprintf("%s: %v is announced and no peer was ever connected at that address", o.Name, a))
					return
				}
			}
		}
		if sw.C.Violated() {
			return
		}
	}
	// let the deltas drain: ceil(k/50)+2 rounds
	rounds := (pool+49)/50 + 2
	sw.Act("final: %d PEX rounds", rounds)
	time.Sleep(time.Duration(rounds)*61*time.Second + 5*time.Second)
	sw.Cut()
	everPool := map[netip.AddrPort]bool{}
	for i := range conn {
		everPool[Addr(100+i)] = true
	}
	live := map[netip.AddrPort]bool{}
	for i, r := range conn {
		if r != nil && !r.Closed() {
			live[Addr(100+i)] = true
		}
	}
	for _, o := range obs {
		if o.Closed() {
			stats["observer_lost"]++
			continue
		}
		for a := range o.PexAnnounced() {
			isObs := false
			for _, o2 := range obs {
				if o2.Addr == a && !o2.Closed() {
					isObs = true
				}
			}
			if !live[a] && !isObs {
				if _, ever := everPool[a]; !ever {
					sw.Viol("C11", "conformance", "pex-announces-address-nobody-connected-from", fmt.Sprintf("%s: %v is announced and no peer was ever connected at that address", o.Name, a))
					break
				}
				cls := "pex-departure-never-reported"
				if stats["rejoin"] > 0 {
					cls += " after-rejoin"
				}
				sw.Viol("C11", "conformance", cls, fmt.Sprintf("%s: %v left the torrent but is still announced after %d further PEX rounds", o.Name, a, rounds))
				break
			}
		}
		stats["pex_final_checks"]++
		stats["pex_rounds_seen"] += o.PexRounds
	}
	return
}

// CheckUnchoking is the C16 accounting monitor at a cut: the process-wide count of
// unchoked peers equals the number of peer actors that are unchoking, and equals the
// number of connected remotes whose last choke-state message from storrent was Unchoke;
// the per-peer upload queue is bounded.
func (sw *Swarm) CheckUnchoking(base int, where string) {
	if RaceEnabled {
		return
	}
	got := peer.NumUnchoking() - base
	actors := 0
	exiting := 0
	remotes := 0
	stale := false
	for _, tr := range sw.Tors {
		if tr.Killed {
			continue
		}
		pv, ok := tr.Peers()
		if !ok {
			sw.C.Inconclusive("reflect: Torrent.peers missing")
			return
		}
		for _, p := range pv {
			if p.Missing != "" {
				sw.C.Inconclusive("reflect: Peer." + p.Missing)
				return
			}
			if p.AmUnchoking && p.Exiting {
				// Run is in its exit path (blocked handing its last reports to a stalled torrent loop) or has
				// returned and the loop has not removed it yet: its share of the counter may or may not be released
				exiting++
			} else if p.AmUnchoking {
				actors++
			}
			sw.C.R.Max("max:upload_queue", int64(p.UploadQ))
			if p.UploadQ > 250+8 {
				cls := "upload-queue-over-cap"
				sw.Viol("C16", "upload", cls, fmt.Sprintf("a peer's upload queue holds %d requests (cap 250)", p.UploadQ))
			}
		}
		for _, r := range tr.Remotes {
			if !r.Closed() && !r.isClosedByUs() && !r.StChoking() {
				remotes++
			}
			if !r.Closed() && !r.isClosedByUs() && r.Paused() {
				stale = true // it has not read everything storrent sent
			}
		}
	}
	sw.C.Count("unchoke_accounting_cuts", 1)
	if exiting > 0 {
		sw.C.Count("unchoke_accounting_cuts_with_exiting_actor", 1)
	}
	if got < actors || got > actors+exiting {
		sw.Viol("C16", "unchoke-accounting", "numunchoking-vs-actors "+where, fmt.Sprintf("peer.NumUnchoking() accounts for %d unchoked peers, %d peer actors are unchoking (and %d more that are exiting)", got, actors, exiting))
	} else if got != remotes && !stale && exiting == 0 {
		sw.Viol("C16", "unchoke-accounting", "numunchoking-vs-remotes "+where, fmt.Sprintf("peer.NumUnchoking() accounts for %d unchoked peers, %d connected remotes were last told Unchoke", got, remotes))
	}
	if got > 0 {
		sw.C.Count("unchoke_accounting_cuts_nonzero", 1)
	}
}

// RunUpload drives one upload history (C16): the torrent holds verified data,
// scripted leechers flap interest, request, flood, cancel, stop reading, leave.
func RunUpload(sw *Swarm, rng *rand.Rand) (tr *Tor, stats map[string]int) {
	stats = map[string]int{}
	base := peer.NumUnchoking()
	g := fixture.RandGeo(rng, 1<<20, []uint32{16 << 10, 32 << 10, 128 << 10})
	tr = sw.AddTorrent(g, TorOpts{})
	np := g.NumPieces()
	var all []int
	for p := 0; p < np; p++ {
		if np < 3 || rng.IntN(10) != 0 {
			all = append(all, p)
		}
	}
	tr.Prefill(all)
	sw.Cut()
	newLeech := func() *Remote {
		opt := RemoteOpts{Fast: rng.IntN(2) == 0, Ext: rng.IntN(2) == 0, Incoming: rng.IntN(2) == 0}
		r := tr.Connect(opt)
		if opt.Ext {
			// what the leech says about its own request queue is its business: ours stays bounded
			r.SendExt0(StdExt0([]int64{0, 0, 1, 250, 5000, 1 << 30, 1<<31 - 1}[rng.IntN(7)], 0))
		}
		r.HonestAdvert = true
		if opt.Fast {
			r.Send(refwire.Msg{Kind: refwire.KHaveNone})
		}
		if rng.IntN(4) != 0 {
			r.Send(refwire.Msg{Kind: refwire.KInterested})
		}
		return r
	}
	n0 := 1 + rng.IntN(4)
	if rng.IntN(4) == 0 {
		n0 = 6 + rng.IntN(7) // more than the five unchoke slots
	}
	for i := 0; i < n0; i++ {
		newLeech()
	}
	sw.Cut()
	sw.CheckUnchoking(base, "at-cut")
	randReq := func() refwire.Msg {
		p := rng.IntN(np)
		b := rng.IntN(g.BlocksIn(p))
		m := refwire.Msg{Kind: refwire.KRequest, Index: uint32(p), Begin: uint32(b * fixture.Block), Length: uint32(g.BlockLen(p, b))}
		switch rng.IntN(14) {
		case 0:
			m.Length = 0
			sw.Tag("req-zero-length")
		case 1:
			m.Length = uint32(g.PieceSize(p)) + 1 // spans beyond the piece
			sw.Tag("req-spanning")
		case 2:
			m.Index = uint32(np + rng.IntN(3))
			sw.Tag("req-bad-index")
		case 3:
			m.Begin++
			sw.Tag("req-unaligned")
		case 4:
			m.Length = 1 << 17
			sw.Tag("req-128k")
		case 5:
			m.Length = 1 + uint32(rng.IntN(100))
			sw.Tag("req-tiny")
		case 6:
			m.Begin = uint32(g.PieceSize(p))
			sw.Tag("req-begin-at-end")
		}
		return m
	}
	live := func() []*Remote {
		var out []*Remote
		for _, r := range tr.Remotes {
			if !r.Closed() && !r.isClosedByUs() {
				out = append(out, r)
			}
		}
		return out
	}
	steps := 30 + rng.IntN(50)
	var sentReqs []refwire.Msg
	for s := 0; s < steps; s++ {
		lv := live()
		var r *Remote
		if len(lv) > 0 {
			r = lv[rng.IntN(len(lv))]
		}
		switch x := rng.IntN(100); {
		case x < 10 && r != nil:
			if r.weInterested {
				r.Send(refwire.Msg{Kind: refwire.KNotInterested})
			} else {
				r.Send(refwire.Msg{Kind: refwire.KInterested})
			}
			r.weInterested = !r.weInterested
			stats["interest-flap"]++
		case x < 40 && r != nil:
			k := 1 + rng.IntN(6)
			for i := 0; i < k; i++ {
				m := randReq()
				r.Send(m)
				sentReqs = append(sentReqs, m)
				stats["request"]++
			}
		case x < 44 && r != nil: // flood beyond the queue limit
			k := 260 + rng.IntN(800)
			sw.Act("%s floods %d requests", r.Name, k)
			sw.Tag("flood")
			for i := 0; i < k; i++ {
				p := rng.IntN(np)
				b := rng.IntN(g.BlocksIn(p))
				m := refwire.Msg{Kind: refwire.KRequest, Index: uint32(p), Begin: uint32(b * fixture.Block), Length: uint32(g.BlockLen(p, b))}
				r.noteRequest(m)
				if r.write(refwire.Encode(m)) != nil {
					break
				}
			}
			stats["flood"]++
		case x < 52 && r != nil && len(sentReqs) > 0: // cancel (present or long gone)
			m := sentReqs[rng.IntN(len(sentReqs))]
			m.Kind = refwire.KCancel
			r.Send(m)
			stats["cancel"]++
		case x < 56 && r != nil: // duplicate request
			m := randReq()
			r.Send(m)
			r.Send(m)
			stats["dup-request"]++
		case x < 62 && r != nil:
			r.PauseReading(time.Duration(5+rng.IntN(50)) * time.Second)
			sw.Tag("congested")
			stats["congest"]++
		case x < 68 && r != nil:
			sw.Act("%s disconnects (stChoking=%v)", r.Name, r.StChoking())
			r.Close()
			stats["disconnect"]++
		case x < 73 && len(tr.Remotes) < 16:
			newLeech()
		case x < 78: // evict what is being uploaded, refill later
			sw.Act("evict all")
			tr.T.Pieces.Expire(0, nil, func(ix uint32) { tr.T.Have(ix, false) })
			stats["evict"]++
		case x < 82:
			bm := tr.T.Pieces.Bitmap()
			var miss []int
			for _, p := range all {
				if !bm.Get(p) && tr.T.Pieces.PieceEmpty(uint32(p)) {
					miss = append(miss, p)
				}
			}
			if len(miss) > 0 {
				tr.Prefill(miss)
				for _, p := range miss {
					tr.T.Have(uint32(p), true)
				}
				sw.Act("refill %v", miss)
			}
		case x < 84 && r != nil && !r.StChoking():
			// a request is being served (the peer actor has looked at the piece and lingers at the yield point
			// before the store's lock) when the piece is evicted and corrupt data for it starts to arrive
			bm := tr.T.Pieces.Bitmap()
			var have []int
			for p := 0; p < np; p++ {
				if bm.Get(p) {
					have = append(have, p)
				}
			}
			if len(have) == 0 {
				break
			}
			p := have[rng.IntN(len(have))]
			quit := make(chan struct{})
			var armed, lingering atomic.Bool
			armed.Store(true)
			verifhook.SetPoint(func(name string) {
				if name == "piece.readat.prelock" && armed.CompareAndSwap(true, false) {
					lingering.Store(true)
					select {
					case <-time.After(300 * time.Millisecond):
					case <-quit:
					}
				}
			})
			m := refwire.Msg{Kind: refwire.KRequest, Index: uint32(p), Begin: 0, Length: uint32(g.BlockLen(p, 0))}
			r.Send(m)
			sentReqs = append(sentReqs, m)
			sw.Cut()
			for k := 0; k < 40 && !lingering.Load(); k++ {
				time.Sleep(50 * time.Millisecond) // uploads are paced
				sw.Cut()
			}
			if lingering.Load() {
				tr.T.Pieces.Expire(0, nil, func(ix uint32) { tr.T.Have(ix, false) })
				off := int64(p) * int64(g.PieceLen)
				for b := 0; b < g.BlocksIn(p); b++ {
					d := g.Truth(off+int64(b*fixture.Block), g.BlockLen(p, b))
					for i := range d {
						d[i] ^= 0x40
					}
					tr.T.Pieces.AddData(uint32(p), uint32(b*fixture.Block), d, 0)
				}
				sw.Act("piece %d evicted and refilled with corrupt data while a request for it is being served", p)
				stats["evictions_during_an_upload_read"]++
			}
			armed.Store(false)
			time.Sleep(500 * time.Millisecond)
			sw.Cut()
			verifhook.SetPoint(nil)
			close(quit)
			if lingering.Load() {
				tr.T.Pieces.Finalise(uint32(p), hash.Hash(g.PieceHash(p))) // fails its hash: the store discards it
			}
		case x < 87:
			// a missing piece arrives, corrupted, and is still being verified (hashing takes virtual time
			// here, as it does for a multi-megabyte piece) when the leeches ask for it
			bm := tr.T.Pieces.Bitmap()
			var cand []int
			for p := 0; p < np; p++ {
				if !bm.Get(p) && tr.T.Pieces.PieceEmpty(uint32(p)) {
					cand = append(cand, p)
				}
			}
			if len(cand) == 0 {
				break
			}
			p := cand[rng.IntN(len(cand))]
			off := int64(p) * int64(g.PieceLen)
			for b := 0; b < g.BlocksIn(p); b++ {
				d := g.Truth(off+int64(b*fixture.Block), g.BlockLen(p, b))
				for i := range d {
					d[i] ^= 0x20
				}
				tr.T.Pieces.AddData(uint32(p), uint32(b*fixture.Block), d, 0)
			}
			quit := make(chan struct{})
			verifhook.SetPoint(func(name string) {
				if name == "piece.finalise.hash.begin" {
					select {
					case <-time.After(3 * time.Second):
					case <-quit:
					}
				}
			})
			finDone := make(chan struct{})
			go func() {
				defer close(finDone)
				tr.T.Pieces.Finalise(uint32(p), hash.Hash(g.PieceHash(p)))
			}()
			sw.Cut()
			sw.Act("piece %d has all its data (corrupt) and is being verified", p)
			for _, r := range live() {
				for b := 0; b < g.BlocksIn(p) && b < 3; b++ {
					m := refwire.Msg{Kind: refwire.KRequest, Index: uint32(p), Begin: uint32(b * fixture.Block), Length: uint32(g.BlockLen(p, b))}
					r.Send(m)
					sentReqs = append(sentReqs, m)
					stats["requests_for_piece_being_verified"]++
				}
			}
			sw.Cut()
			time.Sleep(time.Second)
			sw.Cut()
			close(quit)
			<-finDone
			verifhook.SetPoint(nil)
			stats["pieces_verified_slowly"]++
		default:
			d := []time.Duration{300 * time.Millisecond, 2 * time.Second, 2 * time.Second, 25 * time.Second, 65 * time.Second}[rng.IntN(5)]
			sw.Act("sleep %v", d)
			time.Sleep(d)
			stats["sleep"]++
		}
		sw.Cut()
		sw.CheckUnchoking(base, "at-cut")
		sw.ClearTags()
		if sw.C.Violated() {
			return
		}
	}
	// deletion while peers are unchoked
	unch := 0
	for _, r := range live() {
		if !r.StChoking() {
			unch++
		}
	}
	stats["unchoked_at_kill"] = unch
	if rng.IntN(3) == 0 && tr.KillWithFullMailbox() {
		// the torrent stops with its mailbox full: the last things its peers have to say cannot be delivered
		sw.Act("torrent with %d unchoked peers stops while its mailbox is full", unch)
		stats["killed_with_full_mailbox"]++
	} else {
		sw.Act("kill torrent with %d unchoked peers", unch)
		tr.Kill()
	}
	sw.Cut()
	time.Sleep(time.Second)
	sw.Cut()
	if !RaceEnabled && peer.NumUnchoking() != base {
		sw.Viol("C16", "unchoke-accounting", "numunchoking-after-deletion", fmt.Sprintf("peer.NumUnchoking() is %d above its level before the torrent existed, after the torrent was deleted", peer.NumUnchoking()-base))
	}
	for _, r := range tr.Remotes {
		for k, v := range r.Counts {
			stats["recv:"+k] += v
		}
	}
	return
}
