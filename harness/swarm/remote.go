package swarm

import (
	"encoding/binary"
	"fmt"
	"io"
	"net"
	"net/netip"
	"os"
	"sync"
	"time"

	"github.com/jech/storrent/protocol"
	"verifharness/fixture"
	"verifharness/refwire"
)

var traceRecv = os.Getenv("VERIF_TRACE") != ""

// BlockKey identifies a block request on the wire.
type BlockKey struct{ Index, Begin, Length uint32 }

// RemoteOpts configures a scripted peer.
type RemoteOpts struct {
	Fast, Ext, Dht bool
	Incoming       bool
	Proxy          string
	NoAddrPort     bool // incoming connections have port 0
	IDPrefix       string
	Addr           netip.AddrPort // override (re-joining peers keep their address)
	ID             []byte
}

// Remote is the scripted peer at the far end of a net.Pipe, with the online
// monitors for what storrent sends (C11 conformance, C16 upload discipline,
// C01 payload content).  It judges using only what it sent and received.
type Remote struct {
	Tr   *Tor
	Idx  int
	Name string
	conn net.Conn
	ID   []byte
	Addr netip.AddrPort
	Opt  RemoteOpts

	mu sync.Mutex
	// --- what we told storrent (current / at window start) ---
	window    bool
	adv, advP []bool // pieces we advertise
	choking   bool   // we choke storrent
	chokingP  bool
	fastSet   map[uint32]bool // allowed-fast we sent
	reqq      int             // advertised queue depth, 0 = none
	extSent   bool
	extIDs    map[string]int64 // ids we asked storrent to use (m dict)
	// --- requests storrent has outstanding with us ---
	out     map[BlockKey]int  // outstanding (count)
	outP    map[BlockKey]bool // were outstanding at window start or during the window
	canc    map[BlockKey]bool // cancelled by storrent, not answered
	everReq map[BlockKey]bool
	// --- storrent's state as told to us ---
	stChoking     bool // storrent chokes us
	stChokeW      bool // its choke state changed since the last cut
	stInterested  bool
	stHave        map[uint32]bool
	stHaveAll     bool
	gotBitfield   bool
	gotAdvert     bool // bitfield / have-all / have-none seen
	nonAdvertSeen bool // a message other than port/ext-handshake/advert seen
	stExt         *refwire.Ext0
	// --- our requests to storrent (leecher role) ---
	ours       map[BlockKey]int  // certainly outstanding (count): must not be answered twice, may be answered once
	opt        map[BlockKey]int  // sent in an ambiguous choke state: may or may not be served
	sticky     map[BlockKey]int  // sent while our view of storrent's stream was stale (reader paused): may be served whatever older chokes we read later
	cancOurs   map[BlockKey]int  // cancelled by us, not yet rejected (fast) / maybe crossing
	cancW      map[BlockKey]bool // cancelled in this window: a Piece may still cross
	pendChoked []BlockKey        // non-fast: sent while we knew we were choked; dropped unless an Unchoke arrives before the cut
	// --- PEX seen from storrent ---
	pexAnnounced map[netip.AddrPort]bool
	PexRounds    int
	// --- inbox ---
	Inbox   []refwire.Msg
	Counts  map[string]int
	closed  bool
	quit    chan struct{}
	auto    chan BlockKey      // auto-seed: requests to answer
	unsolW  map[[2]uint32]bool // blocks for which we sent data nobody had asked for, since the last cut
	maybe   map[BlockKey]int   // requests that crossed with such data: storrent may count them as answered
	tainted bool               // it has stopped reading at some point: messages it read afterwards were sent at unknown earlier
	// moments, possibly before its own chokes / advert changes, so request bookkeeping that depends on what was
	// outstanding when (while-choked, duplicate, queue depth, not-advertised, cancels) is no longer judged for it
	pauseUntil   time.Time
	lastCut      time.Time
	readErr      error
	done         chan struct{}
	Born         time.Time // when the connection was handed to storrent (its peer actor's tickers count from here)
	HonestAdvert bool // advertisement followed the protocol (remote view of availability is meaningful)
	weInterested bool
	Honest       bool // auto-seed that answers every request with the truth
	MetaKnown    bool // storrent had metadata when the connection started (bitfield rules apply)
}

// Connect attaches a scripted remote to the torrent through Torrent.NewPeer.
func (tr *Tor) Connect(o RemoteOpts) *Remote {
	a, b := net.Pipe()
	i := len(tr.Remotes)
	id := make([]byte, 20)
	copy(id, fmt.Sprintf("%s-vf%04d-%08x", o.IDPrefix, i, tr.Geo.Seed&0xffffffff))
	if o.IDPrefix == "" {
		copy(id, fmt.Sprintf("-VF0001-r%03dx%07x", i, tr.Geo.Seed&0xfffffff))
	}
	addr := Addr(i)
	if o.Addr.IsValid() {
		addr = o.Addr
	}
	if o.ID != nil {
		copy(id, o.ID)
	}
	if o.NoAddrPort {
		addr = netip.AddrPortFrom(addr.Addr(), 0)
	}
	r := &Remote{Tr: tr, Idx: i, Name: fmt.Sprintf("r%d", i), conn: b, ID: id, Addr: addr, Opt: o,
		choking: true, chokingP: true, stChoking: true,
		fastSet: map[uint32]bool{}, out: map[BlockKey]int{}, outP: map[BlockKey]bool{}, canc: map[BlockKey]bool{}, everReq: map[BlockKey]bool{},
		stHave: map[uint32]bool{}, ours: map[BlockKey]int{}, opt: map[BlockKey]int{}, sticky: map[BlockKey]int{}, cancOurs: map[BlockKey]int{}, cancW: map[BlockKey]bool{}, pexAnnounced: map[netip.AddrPort]bool{},
		Counts: map[string]int{}, done: make(chan struct{}), quit: make(chan struct{}), MetaKnown: tr.T.InfoComplete(), Born: time.Now()}
	np := tr.Geo.NumPieces()
	r.adv = make([]bool, np)
	r.advP = make([]bool, np)
	tr.Remotes = append(tr.Remotes, r)
	go r.readLoop()
	// peer.New captures os.Stderr in the actor's logger; give it a sink instead of the child's log
	saved := os.Stderr
	if devNull != nil {
		os.Stderr = devNull
	}
	err := tr.T.NewPeer(o.Proxy, a, addr, o.Incoming, protocol.HandshakeResult{Hash: tr.T.Hash, Id: id, Dht: o.Dht, Fast: o.Fast, Extended: o.Ext}, nil)
	os.Stderr = saved
	tr.Sw.Act("%s connect fast=%v ext=%v incoming=%v err=%v", r.Name, o.Fast, o.Ext, o.Incoming, err)
	return r
}

// Close closes our end.
func (r *Remote) Close() {
	r.mu.Lock()
	was := r.closed
	r.closed = true
	r.mu.Unlock()
	if !was {
		close(r.quit)
		r.conn.Close()
	}
}

// Closed reports whether storrent closed the connection (our read failed).
func (r *Remote) Closed() bool {
	select {
	case <-r.done:
		return true
	default:
		return false
	}
}

func (r *Remote) readLoop() {
	defer close(r.done)
	hdr := make([]byte, 4)
	for {
		r.mu.Lock()
		until := r.pauseUntil
		r.mu.Unlock()
		if d := time.Until(until); d > 0 {
			// congested link: we stop reading for a while
			tm := time.NewTimer(d)
			select {
			case <-tm.C:
			case <-r.quit:
				tm.Stop()
			}
		}
		if _, err := io.ReadFull(r.conn, hdr); err != nil {
			r.readErr = err
			return
		}
		n := binary.BigEndian.Uint32(hdr)
		if n > 2<<20 {
			r.Tr.Sw.Viol("C11", "conformance", "frame-too-long", fmt.Sprintf("%s: storrent sent a frame of %d bytes", r.Name, n))
			return
		}
		buf := make([]byte, 4+n)
		copy(buf, hdr)
		if _, err := io.ReadFull(r.conn, buf[4:]); err != nil {
			r.readErr = err
			return
		}
		m, _, err := refwire.Decode(buf)
		if err != nil {
			r.Tr.Sw.Viol("C11", "conformance", "undecodable-frame", fmt.Sprintf("%s: reference codec rejects a frame storrent sent: %v (%x)", r.Name, err, clip(buf, 40)))
			continue
		}
		r.onRecv(m)
	}
}

func clip(b []byte, n int) []byte {
	if len(b) > n {
		return b[:n]
	}
	return b
}

func (r *Remote) closeWindow() {
	r.mu.Lock()
	if time.Now().Before(r.pauseUntil) {
		// we are not reading: what storrent sent before this cut has not reached the monitor yet,
		// so the exemption windows stay open until a cut at which we have caught up
		r.mu.Unlock()
		return
	}
	r.window = false
	r.stChokeW = false
	r.lastCut = time.Now()
	r.outP = map[BlockKey]bool{}
	r.cancW = map[BlockKey]bool{}
	r.unsolW = nil
	if !r.Opt.Fast {
		r.cancOurs = map[BlockKey]int{}
	}
	r.pendChoked = nil
	copy(r.advP, r.adv)
	r.chokingP = r.choking
	r.mu.Unlock()
}

// openWindow must be called with mu held before a state-changing send.
func (r *Remote) openWindow() {
	if !r.window {
		r.window = true
		copy(r.advP, r.adv)
		r.chokingP = r.choking
		for k := range r.out {
			r.outP[k] = true
		}
	}
}

func (r *Remote) viol(prop, kind, sig, detail string) {
	r.Tr.Sw.Viol(prop, kind, sig, r.Name+": "+detail)
}

// expected block length for (index, begin) from the geometry
func (r *Remote) blockLen(index, begin uint32) (int, bool) {
	g := r.Tr.Geo
	if int(index) >= g.NumPieces() || begin%fixture.Block != 0 {
		return 0, false
	}
	b := int(begin / fixture.Block)
	if b >= g.BlocksIn(int(index)) {
		return 0, false
	}
	return g.BlockLen(int(index), b), true
}

// onRecv is the online monitor over everything storrent sends.
func (r *Remote) onRecv(m refwire.Msg) {
	r.mu.Lock()
	defer r.mu.Unlock()
	g := r.Tr.Geo
	np := uint32(g.NumPieces())
	r.Inbox = append(r.Inbox, m)
	if len(r.Inbox) > 4000 {
		r.Inbox = r.Inbox[len(r.Inbox)-2000:]
	}
	r.Counts[string(m.Kind)]++
	r.Tr.Sw.C.Count("recv:"+string(m.Kind), 1)
	if traceRecv {
		r.Tr.Sw.Act("%s <- %s idx=%d begin=%d length=%d len=%d sub=%d", r.Name, m.Kind, m.Index, m.Begin, m.Length, len(m.Data), m.Sub)
	}
	fastBoth := r.Opt.Fast
	isAdvert := m.Kind == refwire.KBitfield || m.Kind == refwire.KHaveAll || m.Kind == refwire.KHaveNone
	preamble := m.Kind == refwire.KPort || (m.Kind == refwire.KExtended && m.Sub == 0) || m.Kind == refwire.KKeepAlive
	if m.Kind == refwire.KBitfield && (r.nonAdvertSeen || r.gotAdvert) {
		r.viol("C11", "conformance", "bitfield-late", "bitfield sent after other messages")
	}
	if !isAdvert && !preamble {
		r.nonAdvertSeen = true
	}
	switch m.Kind {
	case refwire.KChoke:
		r.stChoking = true
		r.stChokeW = true
		// requests of ours are choked away (fast: storrent rejects them explicitly; either way no data may follow)
		if !fastBoth {
			r.ours = map[BlockKey]int{}
			r.opt = map[BlockKey]int{}
			r.cancOurs = map[BlockKey]int{}
		}
	case refwire.KUnchoke:
		r.stChoking = false
		r.stChokeW = true
		for _, k := range r.pendChoked {
			r.opt[k]++ // the unchoke may have been sent before or after storrent saw these
		}
		r.pendChoked = nil
	case refwire.KInterested:
		r.stInterested = true
	case refwire.KNotInterested:
		r.stInterested = false
	case refwire.KHave:
		if r.MetaKnown && m.Index >= np {
			r.viol("C11", "conformance", "have-out-of-range", fmt.Sprintf("have %d with %d pieces", m.Index, np))
		}
		r.stHave[m.Index] = true
	case refwire.KBitfield:
		r.gotAdvert, r.gotBitfield = true, true
		if r.MetaKnown {
			want := (int(np) + 7) / 8
			if len(m.Data) != want {
				r.viol("C11", "conformance", "bitfield-size", fmt.Sprintf("bitfield of %d bytes for %d pieces (want %d)", len(m.Data), np, want))
			}
			for i := int(np); i < len(m.Data)*8; i++ {
				if m.Data[i/8]&(0x80>>uint(i%8)) != 0 {
					r.viol("C11", "conformance", "bitfield-spare-bits", fmt.Sprintf("spare bit %d set in bitfield for %d pieces", i, np))
					break
				}
			}
		}
		for i := 0; i < len(m.Data)*8; i++ {
			if m.Data[i/8]&(0x80>>uint(i%8)) != 0 {
				r.stHave[uint32(i)] = true
			}
		}
	case refwire.KHaveAll, refwire.KHaveNone:
		if !fastBoth {
			r.viol("C11", "conformance", "fast-message-without-fast", string(m.Kind)+" sent although the fast extension was not negotiated")
		}
		if r.gotAdvert || r.nonAdvertSeen {
			r.viol("C11", "conformance", "advert-late", string(m.Kind)+" sent after other messages")
		}
		r.gotAdvert = true
		r.stHaveAll = m.Kind == refwire.KHaveAll
	case refwire.KSuggest, refwire.KAllowedFast:
		if !fastBoth {
			r.viol("C11", "conformance", "fast-message-without-fast", string(m.Kind)+" without fast")
		}
		if r.MetaKnown && m.Index >= np {
			r.viol("C11", "conformance", "index-out-of-range", fmt.Sprintf("%s %d with %d pieces", m.Kind, m.Index, np))
		}
	case refwire.KRequest:
		r.onRequest(m)
	case refwire.KCancel:
		k := BlockKey{m.Index, m.Begin, m.Length}
		switch {
		case r.tainted:
			if r.out[k] > 0 {
				r.out[k]--
				if r.out[k] == 0 {
					delete(r.out, k)
				}
			}
		case r.out[k] > 0:
			r.out[k]--
			if r.out[k] == 0 {
				delete(r.out, k)
			}
			r.canc[k] = true
			r.Tr.Sw.C.Count("cancels_for_outstanding", 1)
		case r.maybe[k] > 0:
			r.maybe[k]--
			if r.maybe[k] == 0 {
				delete(r.maybe, k)
			}
		case r.window && r.outP[k]:
			// crossed with our answer / reject / choke
			delete(r.outP, k)
			r.Tr.Sw.C.Count("cancels_crossed", 1)
		case r.canc[k]:
			r.viol("C11", "conformance", "cancel-twice", fmt.Sprintf("second cancel for %v", k))
		case !r.everReq[k]:
			r.viol("C11", "conformance", "cancel-never-requested", fmt.Sprintf("cancel for %v which was never requested", k))
		default:
			r.viol("C11", "conformance", "cancel-not-outstanding", fmt.Sprintf("cancel for %v which is not outstanding (answered, rejected or choked away before the last quiescent point)", k))
		}
	case refwire.KReject:
		if !fastBoth {
			r.viol("C11", "conformance", "fast-message-without-fast", "reject without fast")
		}
		k := BlockKey{m.Index, m.Begin, m.Length}
		switch {
		case dec(r.cancOurs, k), dec(r.ours, k), dec(r.opt, k), dec(r.sticky, k):
			r.Tr.Sw.C.Count("rejects_for_our_requests", 1)
		default:
			r.viol("C16", "upload", "reject-unsolicited", fmt.Sprintf("reject for %v which we have not outstanding", k))
		}
	case refwire.KPiece:
		r.onPiece(m)
	case refwire.KExtended:
		r.onExtended(m)
	case refwire.KUnknown:
		r.viol("C11", "conformance", "unknown-id", fmt.Sprintf("message id %d", m.ID))
	}
}

func (r *Remote) onRequest(m refwire.Msg) {
	g := r.Tr.Geo
	np := uint32(g.NumPieces())
	k := BlockKey{m.Index, m.Begin, m.Length}
	sw := r.Tr.Sw
	sw.C.Count("requests_received", 1)
	if m.Index >= np {
		r.viol("C11", "conformance", "request-index-out-of-range", fmt.Sprintf("request %v with %d pieces", k, np))
		return
	}
	want, ok := r.blockLen(m.Index, m.Begin)
	if !ok {
		r.viol("C11", "conformance", "request-misaligned", fmt.Sprintf("request %v: offset not a 16 KiB block of piece (piece length %d)", k, g.PieceSize(int(m.Index))))
	} else if int(m.Length) != want {
		cls := "request-wrong-length"
		if want < fixture.Block {
			cls = "request-wrong-length final-block"
		}
		r.viol("C11", "conformance", cls, fmt.Sprintf("request %v: block length should be %d", k, want))
	}
	if r.tainted {
		r.out[k]++
		r.everReq[k] = true
		sw.C.Count("requests_not_judged_statefully_after_pause", 1)
		return
	}
	if !(r.adv[m.Index] || (r.window && r.advP[m.Index])) {
		r.viol("C11", "conformance", "request-not-advertised", fmt.Sprintf("request %v for a piece this peer does not advertise", k))
	}
	chokedNow := r.choking && !r.fastSet[m.Index]
	chokedBefore := r.chokingP && !r.fastSet[m.Index]
	if chokedNow && !(r.window && !chokedBefore) {
		r.viol("C11", "conformance", "request-while-choked", fmt.Sprintf("request %v while choked and not allowed-fast", k))
	}
	if r.unsolW[[2]uint32{k.Index, k.Begin}] {
		// we pushed data for this block, unasked, since the last quiescent point: the request and the data
		// crossed, and storrent rightly takes the data for the answer. Not outstanding for sure.
		if r.maybe == nil {
			r.maybe = map[BlockKey]int{}
		}
		r.maybe[k]++
		r.everReq[k] = true
		delete(r.canc, k)
		sw.C.Count("requests_crossed_with_unsolicited_data", 1)
		return
	}
	if r.out[k] > 0 {
		r.viol("C11", "conformance", "request-duplicate", fmt.Sprintf("request %v duplicates an outstanding request", k))
	}
	r.out[k]++
	r.everReq[k] = true
	delete(r.canc, k)
	n := 0
	for _, c := range r.out {
		n += c
	}
	sw.C.R.Max("max:outstanding_requests", int64(n))
	if r.auto != nil {
		select {
		case r.auto <- k:
		default:
		}
	}
	if r.reqq > 0 {
		lim := r.reqq
		if lim < 2 {
			lim = 2
		}
		if n > lim {
			r.viol("C11", "conformance", "request-queue-depth", fmt.Sprintf("%d requests outstanding, advertised reqq %d", n, r.reqq))
		}
	}
}

func (r *Remote) onPiece(m refwire.Msg) {
	g := r.Tr.Geo
	sw := r.Tr.Sw
	k := BlockKey{m.Index, m.Begin, uint32(len(m.Data))}
	sw.C.Count("pieces_received", 1)
	// C01/C16: payload must be the verified content of the range.  storrent maps (index, begin) to the flat
	// torrent offset index*piecelength+begin, so a begin beyond the piece names bytes of the next piece;
	// the statement only demands that what is sent is the true content of the range that was named.
	off := int64(m.Index)*int64(g.PieceLen) + int64(m.Begin)
	if off+int64(len(m.Data)) <= g.Length && off >= 0 {
		tr := g.Truth(off, len(m.Data))
		for i := range tr {
			if tr[i] != m.Data[i] {
				r.viol("C16", "upload", "piece-payload-not-truth", fmt.Sprintf("piece %d+%d (%d bytes) differs from the true content at +%d", m.Index, m.Begin, len(m.Data), i))
				r.viol("C01", "content", "upload-payload-not-truth", fmt.Sprintf("piece %d+%d (%d bytes) sent to a peer differs from the true content at +%d", m.Index, m.Begin, len(m.Data), i))
				break
			}
		}
		sw.C.Count("piece_payloads_compared", 1)
	} else {
		r.viol("C16", "upload", "piece-beyond-content", fmt.Sprintf("piece %d+%d (%d bytes) extends beyond the torrent", m.Index, m.Begin, len(m.Data)))
	}
	if r.stChoking {
		r.viol("C16", "upload", "piece-while-choked", fmt.Sprintf("piece %v received after storrent's Choke", k))
	}
	switch {
	case dec(r.ours, k), dec(r.opt, k), dec(r.sticky, k):
		sw.C.Count("pieces_answering_our_requests", 1)
	case r.cancW[k]:
		dec(r.cancOurs, k) // our cancel crossed with the answer
		sw.C.Count("pieces_crossing_cancel", 1)
	default:
		r.viol("C16", "upload", "piece-unsolicited", fmt.Sprintf("piece %v matches no outstanding request of ours (never sent, already answered, cancelled and quiesced, or choked away)", k))
	}
}

// staleView: we have not read everything storrent sent up to the last cut (reader paused),
// so what we believe about its choke state may be out of date.  Call with mu held.
func (r *Remote) staleView() bool {
	return r.pauseUntil.After(r.lastCut) || time.Now().Before(r.pauseUntil)
}

// Stalled reports whether the remote is not reading now, or has not been reading at some time since the
// last quiescent point: storrent may then be behind in handling what the remote sent.
func (r *Remote) Stalled() bool {
	r.mu.Lock()
	defer r.mu.Unlock()
	return r.staleView()
}

func dec(m map[BlockKey]int, k BlockKey) bool {
	if m[k] > 0 {
		m[k]--
		if m[k] == 0 {
			delete(m, k)
		}
		return true
	}
	return false
}

func (r *Remote) onExtended(m refwire.Msg) {
	sw := r.Tr.Sw
	if !r.Opt.Ext {
		r.viol("C11", "conformance", "extended-without-ext", "extended message although the extension protocol was not negotiated")
		return
	}
	if m.Sub == 0 {
		e, err := refwire.ParseExt0(m.Data)
		if err != nil {
			r.viol("C11", "conformance", "ext-handshake-malformed", err.Error())
			return
		}
		r.stExt = &e
		return
	}
	name := ""
	for k, v := range r.extIDs {
		if int64(m.Sub) == v {
			name = k
		}
	}
	np := uint32(r.Tr.Geo.NumPieces())
	switch name {
	case "":
		r.viol("C11", "conformance", "ext-id-not-negotiated", fmt.Sprintf("extended message with sub-id %d which we did not assign", m.Sub))
	case "lt_donthave":
		if len(m.Data) != 4 {
			r.viol("C11", "conformance", "donthave-malformed", fmt.Sprintf("lt_donthave payload of %d bytes", len(m.Data)))
			return
		}
		ix := binary.BigEndian.Uint32(m.Data)
		sw.C.Count("recv:donthave", 1)
		if ix >= np {
			r.viol("C11", "conformance", "donthave-out-of-range", fmt.Sprintf("dont-have %d with %d pieces", ix, np))
		}
		delete(r.stHave, ix)
	case "ut_pex":
		p, err := refwire.ParsePex(m.Data)
		if err != nil {
			r.viol("C11", "conformance", "pex-malformed", err.Error())
			return
		}
		r.PexRounds++
		sw.C.Count("recv:pex", 1)
		if os.Getenv("VERIF_TRACE_FILE") != "" {
			sw.Act("%s <- pex added %d dropped %d: +%v -%v", r.Name, len(p.Added4)+len(p.Added6), len(p.Dropped4)+len(p.Dropped6), p.Added4, p.Dropped4)
		}
		for _, a := range append(append([]refwire.PexPeer(nil), p.Added4...), p.Added6...) {
			if r.pexAnnounced[a.Addr] {
				r.viol("C11", "conformance", "pex-added-twice", fmt.Sprintf("PEX adds %v which is already announced", a.Addr))
			}
			r.pexAnnounced[a.Addr] = true
			sw.C.Count("pex_added", 1)
		}
		for _, a := range append(append([]netip.AddrPort(nil), p.Dropped4...), p.Dropped6...) {
			if !r.pexAnnounced[a] {
				r.viol("C11", "conformance", "pex-dropped-unannounced", fmt.Sprintf("PEX drops %v which was not announced", a))
			}
			delete(r.pexAnnounced, a)
			sw.C.Count("pex_dropped", 1)
		}
	case "ut_metadata":
		if _, err := refwire.ParseMeta(m.Data); err != nil {
			r.viol("C11", "conformance", "metadata-malformed", err.Error())
		}
		sw.C.Count("recv:metadata", 1)
	}
}

// PexAnnounced returns the set of addresses storrent currently announces to us.
func (r *Remote) PexAnnounced() map[netip.AddrPort]bool {
	r.mu.Lock()
	defer r.mu.Unlock()
	out := map[netip.AddrPort]bool{}
	for k := range r.pexAnnounced {
		out[k] = true
	}
	return out
}

// ---- sending ----

func (r *Remote) write(b []byte) error {
	r.conn.SetWriteDeadline(time.Now().Add(30 * time.Second))
	_, err := r.conn.Write(b)
	return err
}

// KeepAlives makes the remote send a keep-alive at the given interval for as long as it is connected, as a
// real peer does (storrent drops a peer it has heard nothing from for five minutes).
func (r *Remote) KeepAlives(every time.Duration) {
	go func() {
		ka := time.NewTicker(every)
		defer ka.Stop()
		for {
			select {
			case <-r.quit:
				return
			case <-r.done:
				return
			case <-ka.C:
				r.write(refwire.Encode(refwire.Msg{Kind: refwire.KKeepAlive}))
			}
		}
	}()
}

// SendRaw writes raw bytes (hostile frames); no state tracking.
func (r *Remote) SendRaw(b []byte) error {
	r.Tr.Sw.Act("%s raw %x", r.Name, clip(b, 24))
	return r.write(b)
}

// Send encodes and sends m, updating what we told storrent.
func (r *Remote) Send(m refwire.Msg) error {
	r.mu.Lock()
	np := len(r.adv)
	switch m.Kind {
	case refwire.KChoke:
		r.openWindow()
		r.choking = true
		if !r.Opt.Fast {
			// without fast a choke discards storrent's outstanding requests
			for k := range r.out {
				r.outP[k] = true
			}
			r.out = map[BlockKey]int{}
			r.maybe = nil
		}
	case refwire.KUnchoke:
		r.openWindow()
		r.choking = false
	case refwire.KHave:
		if int(m.Index) < np {
			r.adv[m.Index] = true
		}
	case refwire.KBitfield:
		r.openWindow()
		for i := 0; i < np; i++ {
			r.adv[i] = i/8 < len(m.Data) && m.Data[i/8]&(0x80>>uint(i%8)) != 0
		}
	case refwire.KHaveAll:
		r.openWindow()
		for i := range r.adv {
			r.adv[i] = true
		}
	case refwire.KHaveNone:
		r.openWindow()
		for i := range r.adv {
			r.adv[i] = false
		}
	case refwire.KAllowedFast:
		r.fastSet[m.Index] = true
	case refwire.KPiece:
		r.openWindow()
		k := BlockKey{m.Index, m.Begin, uint32(len(m.Data))}
		r.answer(k)
	case refwire.KReject:
		r.openWindow()
		r.answer(BlockKey{m.Index, m.Begin, m.Length})
	case refwire.KRequest:
		k := BlockKey{m.Index, m.Begin, m.Length}
		switch {
		case r.Opt.Fast:
			r.ours[k]++ // always answered: Piece or Reject
		case r.staleView():
			r.sticky[k]++
		case r.stChoking && !r.stChokeW:
			r.pendChoked = append(r.pendChoked, k)
			r.Tr.Sw.C.Count("our_requests_while_choked", 1)
		case r.stChoking || r.stChokeW:
			r.opt[k]++
		default:
			r.ours[k]++
		}
		r.Tr.Sw.C.Count("our_requests", 1)
	case refwire.KCancel:
		k := BlockKey{m.Index, m.Begin, m.Length}
		if dec(r.ours, k) {
			r.cancOurs[k]++
			r.cancW[k] = true
			r.window = true
		} else if dec(r.opt, k) || dec(r.sticky, k) {
			r.cancW[k] = true
			r.window = true
		}
	}
	r.mu.Unlock()
	d := ""
	if m.Kind == refwire.KPiece || m.Kind == refwire.KBitfield {
		d = fmt.Sprintf(" len=%d", len(m.Data))
	}
	r.Tr.Sw.Act("%s -> %s idx=%d begin=%d length=%d%s", r.Name, m.Kind, m.Index, m.Begin, m.Length, d)
	return r.write(refwire.Encode(m))
}

// answer removes an outstanding request (we answered or rejected it); any block of the same
// (index, begin) counts, whatever the length we put in our answer.
func (r *Remote) answer(k BlockKey) {
	// storrent maps a Piece to the 16 KiB slot its begin falls into: data that starts a byte or two into a
	// requested block is, for storrent, the (unusable) answer to that block
	slot := k.Begin / fixture.Block
	for o := range r.out {
		if o.Index == k.Index && o.Begin/fixture.Block == slot && o.Begin != k.Begin {
			k.Begin = o.Begin
			break
		}
	}
	for o := range r.out {
		if o.Index == k.Index && o.Begin == k.Begin {
			r.outP[o] = true
			r.out[o]--
			if r.out[o] <= 0 {
				delete(r.out, o)
			}
			return
		}
	}
	for o := range r.maybe {
		if o.Index == k.Index && o.Begin == k.Begin {
			r.maybe[o]--
			if r.maybe[o] <= 0 {
				delete(r.maybe, o)
			}
			return
		}
	}
	if r.unsolW == nil {
		r.unsolW = map[[2]uint32]bool{}
	}
	r.unsolW[[2]uint32{k.Index, k.Begin}] = true
	for o := range r.canc {
		if o.Index == k.Index && o.Begin == k.Begin {
			delete(r.canc, o)
			return
		}
	}
}

// SendDontHave sends lt_donthave using the id storrent assigned in its handshake.
func (r *Remote) SendDontHave(ix uint32) error {
	r.mu.Lock()
	id := int64(3)
	if r.stExt != nil && r.stExt.M != nil {
		if v, ok := r.stExt.M["lt_donthave"]; ok {
			id = v
		}
	}
	r.openWindow()
	if int(ix) < len(r.adv) {
		r.adv[ix] = false
	}
	r.mu.Unlock()
	r.Tr.Sw.Act("%s -> donthave %d", r.Name, ix)
	return r.write(refwire.Encode(refwire.Msg{Kind: refwire.KExtended, Sub: byte(id), Data: binary.BigEndian.AppendUint32(nil, ix)}))
}

// SendExt0 sends our extension handshake.
func (r *Remote) SendExt0(e refwire.Ext0) error {
	r.mu.Lock()
	r.extSent = true
	r.extIDs = map[string]int64{}
	for k, v := range e.M {
		r.extIDs[k] = v
	}
	if e.ReqQ != nil && *e.ReqQ > 0 {
		r.reqq = int(*e.ReqQ)
	}
	r.mu.Unlock()
	r.Tr.Sw.Act("%s -> ext0 m=%v reqq=%v", r.Name, e.M, r.reqq)
	return r.write(refwire.Encode(refwire.Msg{Kind: refwire.KExtended, Sub: 0, Data: e.Payload()}))
}

// StdExt0 is a plain extension handshake asking for all four extensions.
func StdExt0(reqq int64, metaSize int64) refwire.Ext0 {
	v := "refpeer 1.0"
	e := refwire.Ext0{M: map[string]int64{"ut_pex": 11, "ut_metadata": 12, "lt_donthave": 13, "upload_only": 14}, V: &v}
	if reqq > 0 {
		e.ReqQ = &reqq
	}
	if metaSize > 0 {
		e.MetadataSize = &metaSize
	}
	return e
}

// Outstanding returns the requests storrent has outstanding with us.
func (r *Remote) Outstanding() []BlockKey {
	r.mu.Lock()
	defer r.mu.Unlock()
	var out []BlockKey
	for k, c := range r.out {
		for i := 0; i < c; i++ {
			out = append(out, k)
		}
	}
	sortKeys(out)
	return out
}

func sortKeys(a []BlockKey) {
	for i := 1; i < len(a); i++ {
		for j := i; j > 0 && less(a[j], a[j-1]); j-- {
			a[j], a[j-1] = a[j-1], a[j]
		}
	}
}

func less(a, b BlockKey) bool {
	if a.Index != b.Index {
		return a.Index < b.Index
	}
	if a.Begin != b.Begin {
		return a.Begin < b.Begin
	}
	return a.Length < b.Length
}

// State accessors for scripts.
func (r *Remote) StChoking() bool    { r.mu.Lock(); defer r.mu.Unlock(); return r.stChoking }
func (r *Remote) StInterested() bool { r.mu.Lock(); defer r.mu.Unlock(); return r.stInterested }
func (r *Remote) Count(kind string) int {
	r.mu.Lock()
	defer r.mu.Unlock()
	return r.Counts[kind]
}
func (r *Remote) Advertises(i int) bool { r.mu.Lock(); defer r.mu.Unlock(); return r.adv[i] }
func (r *Remote) OurOutstanding() int {
	r.mu.Lock()
	defer r.mu.Unlock()
	n := 0
	for _, c := range r.ours {
		n += c
	}
	return n
}

// Paused reports whether the remote is currently not reading.
func (r *Remote) Paused() bool {
	r.mu.Lock()
	defer r.mu.Unlock()
	return time.Now().Before(r.pauseUntil)
}
func (r *Remote) StExt() *refwire.Ext0 { r.mu.Lock(); defer r.mu.Unlock(); return r.stExt }

// PauseReading makes the remote stop reading for d (virtual time): storrent's writer congests.
func (r *Remote) PauseReading(d time.Duration) {
	r.mu.Lock()
	r.tainted = true
	if t := time.Now().Add(d); t.After(r.pauseUntil) {
		r.pauseUntil = t // pauses only extend: the reader may already be asleep until the old deadline
	}
	r.mu.Unlock()
	r.Tr.Sw.Act("%s stops reading for %v", r.Name, d)
}

// noteRequest records a request of ours without logging an action (floods).
func (r *Remote) noteRequest(m refwire.Msg) {
	r.mu.Lock()
	k := BlockKey{m.Index, m.Begin, m.Length}
	switch {
	case r.Opt.Fast:
		r.ours[k]++
	case r.staleView():
		r.sticky[k]++
	case r.stChoking && !r.stChokeW:
		r.pendChoked = append(r.pendChoked, k)
	case r.stChoking || r.stChokeW:
		r.opt[k]++
	default:
		r.ours[k]++
	}
	r.mu.Unlock()
	r.Tr.Sw.C.Count("our_requests", 1)
}

// SeedMode configures AutoSeed.
type SeedMode struct {
	CorruptEvery int           // every n-th block is corrupted (0 = never)
	CorruptWhole bool          // a corrupted block differs from the truth in every byte, not in one
	Delay        time.Duration // answer delay (virtual)
	Silent       bool          // never answers
}

// AutoSeed turns the remote into a seed that advertises everything, unchokes and answers
// every request by itself (honestly, slowly, or corrupting some blocks).
func (r *Remote) AutoSeed(m SeedMode) {
	r.mu.Lock()
	r.auto = make(chan BlockKey, 4096)
	r.mu.Unlock()
	have := make([]bool, len(r.adv))
	for i := range have {
		have[i] = true
	}
	r.HonestAdvert = true
	r.Send(refwire.Msg{Kind: refwire.KBitfield, Data: bitfieldOf(have)})
	r.Send(refwire.Msg{Kind: refwire.KUnchoke})
	go func() {
		n := 0
		ka := time.NewTicker(100 * time.Second) // a real peer sends keep-alives; storrent drops silent peers after 5 minutes
		defer ka.Stop()
		for {
			select {
			case <-r.quit:
				return
			case <-r.done:
				return
			case <-ka.C:
				r.write(refwire.Encode(refwire.Msg{Kind: refwire.KKeepAlive}))
			case k := <-r.auto:
				if m.Silent {
					continue
				}
				if m.Delay > 0 {
					tm := time.NewTimer(m.Delay)
					select {
					case <-tm.C:
					case <-r.quit:
						tm.Stop()
						return
					}
				}
				n++
				kind := "truth"
				if m.CorruptEvery > 0 && n%m.CorruptEvery == 0 {
					kind = "corrupt"
					if m.CorruptWhole {
						kind = "corrupt-whole"
					}
				}
				r.mu.Lock()
				still := r.out[k] > 0 && !r.choking
				r.mu.Unlock()
				if still {
					r.Answer(k, kind, uint64(n)*2654435761)
				}
			}
		}
	}()
}

// Tainted reports whether the remote's request bookkeeping is no longer exact (it paused reading once).
func (r *Remote) Tainted() bool { r.mu.Lock(); defer r.mu.Unlock(); return r.tainted }
