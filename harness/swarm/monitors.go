package swarm

import (
	"fmt"
	"time"

	"verifharness/fixture"
)

func bit(b []byte, i int) bool {
	return i>>3 < len(b) && b[i>>3]&(0x80>>uint(i&7)) != 0
}

// CheckConservation is the C09 monitor, evaluated at a quiescent cut:
//
//	available[i] == #{connected peers whose actor bitmap has i}
//	inFlight[b]  == #{peers with b queued or requested}        (no web-seed fetch active)
//
// and, against the remotes' own independent view,
//
//	available[i] == #{live honest remotes advertising i},  inFlight[b] >= #{remotes holding a request for b}.
func (tr *Tor) CheckConservation(where string) {
	sw := tr.Sw
	if !tr.T.InfoComplete() || RaceEnabled {
		return
	}
	peers, ok := tr.Peers()
	infl := tr.InFlight()
	avail, ok2 := tr.Available()
	if !ok || !ok2 || infl == nil && tr.Geo.NumBlocks() > 0 {
		sw.C.Inconclusive("reflect: Torrent.peers/inFlight/available missing")
		return
	}
	if tr.EventQueueLen() > 0 {
		sw.C.Count("cuts_not_quiescent", 1)
		return
	}
	for _, p := range peers {
		if p.Missing != "" {
			sw.C.Inconclusive("reflect: Peer." + p.Missing + " missing")
			return
		}
		if p.Events > 0 || p.Mailbox > 0 {
			sw.C.Count("cuts_not_quiescent", 1)
			return
		}
	}
	sw.C.Count("conservation_cuts", 1)
	g := tr.Geo
	np := g.NumPieces()
	// availability vs actor bitmaps
	maxI := np
	if len(avail) > maxI {
		maxI = len(avail)
	}
	for i := 0; i < maxI; i++ {
		want := 0
		for _, p := range peers {
			if bit(p.Bitmap, i) {
				want++
			}
		}
		got := 0
		if i < len(avail) {
			got = int(avail[i])
		}
		if got != want {
			sw.Viol("C09", "conservation", "available-vs-peer-bitmaps "+where+" after"+sw.Tags(), fmt.Sprintf("available[%d]=%d but %d connected peers hold piece %d in their bitmap (%d peers)", i, got, want, i, len(peers)))
			break
		}
	}
	// in-flight vs peer request queues
	cpp := int(g.PieceLen) / fixture.Block
	cnt := make([]int, len(infl))
	for _, p := range peers {
		for _, c := range append(append([]uint32(nil), p.Queue...), p.Requested...) {
			if int(c) < len(cnt) {
				cnt[c]++
			}
		}
	}
	for b := range infl {
		if int(infl[b]) != cnt[b] {
			last := b == len(infl)-1 && g.Length%fixture.Block != 0
			cls := "inflight-vs-peer-queues"
			if int(infl[b]) > cnt[b] {
				cls = "inflight-leak"
				if last {
					cls = "inflight-leak final-short-block"
				}
			} else {
				cls = "inflight-undercount"
			}
			sw.Viol("C09", "conservation", cls+" "+where+" after"+sw.Tags(), fmt.Sprintf("inFlight[%d]=%d (piece %d block %d) but %d peers have it queued or requested", b, infl[b], b/cpp, b%cpp, cnt[b]))
			break
		}
	}
	// independent view: the remotes themselves
	live := 0
	allHonest := true
	for _, r := range tr.Remotes {
		if !r.Closed() && !r.isClosedByUs() {
			live++
			if !r.HonestAdvert {
				allHonest = false
			}
			if r.Stalled() {
				// it is not reading: the peer actor serving it may be blocked in a write and has then not
				// yet handled what this remote sent before the cut
				allHonest = false
				sw.C.Count("conservation_cuts_vs_remote_view_skipped_remote_not_reading", 1)
			}
		}
	}
	if allHonest && live == len(peers) {
		for i := 0; i < np; i++ {
			want := 0
			for _, r := range tr.Remotes {
				if !r.Closed() && !r.isClosedByUs() && r.Advertises(i) {
					want++
				}
			}
			got := 0
			if i < len(avail) {
				got = int(avail[i])
			}
			if got != want {
				sw.Viol("C09", "conservation", "available-vs-remote-adverts "+where+" after"+sw.Tags(), fmt.Sprintf("available[%d]=%d but %d connected remotes currently advertise piece %d", i, got, want, i))
				break
			}
		}
		sw.C.Count("conservation_cuts_vs_remote_view", 1)
	}
	rcnt := make([]int, len(infl))
	for _, r := range tr.Remotes {
		if r.Closed() || r.isClosedByUs() || r.Tainted() {
			continue
		}
		for _, k := range r.Outstanding() {
			b := int(k.Index)*cpp + int(k.Begin)/fixture.Block
			if b < len(rcnt) {
				rcnt[b]++
			}
		}
	}
	for b := range infl {
		if int(infl[b]) < rcnt[b] {
			sw.Viol("C09", "conservation", "inflight-below-remote-outstanding "+where+" after"+sw.Tags(), fmt.Sprintf("inFlight[%d]=%d but %d remotes hold an unanswered request for it", b, infl[b], rcnt[b]))
			break
		}
	}
	if eek := tr.EekLines(); len(eek) > 0 {
		cls := "eek"
		for _, k := range []string{"InFlight underflow", "InFlight overflow", "Available underflow", "Available overflow"} {
			if contains(eek[0], k) {
				cls = "eek " + k
			}
		}
		sw.Viol("C09", "conservation", cls, fmt.Sprintf("storrent's own bookkeeping alarm in the torrent log: %q", eek[0]))
	}
}

func contains(s, sub string) bool {
	return len(sub) <= len(s) && (func() bool {
		for i := 0; i+len(sub) <= len(s); i++ {
			if s[i:i+len(sub)] == sub {
				return true
			}
		}
		return false
	})()
}

// CheckAllZero: nobody connected and nothing outstanding => both tables are zero.
func (tr *Tor) CheckAllZero(where string) {
	sw := tr.Sw
	if RaceEnabled {
		return
	}
	peers, _ := tr.Peers()
	if len(peers) != 0 {
		sw.C.Count("allzero_skipped_peers_left", 1)
		return
	}
	avail, _ := tr.Available()
	for i, a := range avail {
		if a != 0 {
			sw.Viol("C09", "conservation", "available-nonzero-no-peers "+where, fmt.Sprintf("available[%d]=%d with no peer connected", i, a))
			break
		}
	}
	infl := tr.InFlight()
	g := tr.Geo
	for b, v := range infl {
		if v != 0 {
			cls := "inflight-nonzero-no-peers"
			if b == len(infl)-1 && g.Length%fixture.Block != 0 {
				cls += " final-short-block"
			}
			sw.Viol("C09", "conservation", cls+" "+where, fmt.Sprintf("inFlight[%d]=%d with no peer connected and no fetch active", b, v))
			break
		}
	}
	sw.C.Count("allzero_checks", 1)
}

func (r *Remote) isClosedByUs() bool {
	r.mu.Lock()
	defer r.mu.Unlock()
	return r.closed
}

// LoopAlive probes the torrent's event loop at a cut: a GetStats issued now must be answered
// by the next cut.  A loop that is stuck waiting for a peer that will never answer (or sending
// into a mailbox nobody drains) is reported under prop with the given class.
func (tr *Tor) LoopAlive(prop, cls string) bool {
	if tr.Killed {
		return true
	}
	sw := tr.Sw
	done := make(chan struct{})
	go func() {
		tr.T.GetStats()
		close(done)
	}()
	sw.Cut()
	select {
	case <-done:
		sw.C.Count("loop_alive_probes", 1)
		return true
	default:
	}
	time.Sleep(time.Minute) // generous: nothing in a handler legitimately waits that long
	sw.Cut()
	select {
	case <-done:
		sw.C.Count("loop_alive_probes", 1)
		return true
	default:
	}
	sw.Viol(prop, "liveness", "torrent-loop-blocked "+cls, "the torrent's event loop does not answer GetStats one virtual minute after a quiescent cut: it is blocked inside a handler (every operation on the torrent now hangs)")
	return false
}
