// Package swarm is engine E3: real storrent torrents (tor.AddTorrent event
// loops), real peer actors (peer.Run through Torrent.NewPeer) on net.Pipe
// connections whose other end is a scripted remote peer speaking the
// independent refwire codec, all inside one testing/synctest bubble so that
// time is virtual and synctest.Wait() is an exact quiescent cut.
package swarm

import (
	"bytes"
	"context"
	"fmt"
	"io"
	"log"
	"net/netip"
	"os"
	"reflect"
	"sort"
	"strings"
	"sync"
	"testing"
	"testing/synctest"
	"time"
	"unsafe"

	"github.com/jech/storrent/alloc"
	"github.com/jech/storrent/config"
	"github.com/jech/storrent/hash"
	"github.com/jech/storrent/peer"
	"github.com/jech/storrent/tor"
	"verifharness/fixture"
	"verifharness/vk"
)

var realNow = time.Now()

var initOnce sync.Once
var devNull *os.File

// Defaults resets storrent's process-wide configuration to the harness baseline.
func Defaults() {
	config.ProtocolPort = 23222
	config.SetExternalIPv4Port(23222, true)
	config.SetExternalIPv4Port(23222, false)
	config.MemoryMark = 1 << 40
	config.PrefetchRate = 768 * 1024
	config.SetIdleRate(0)
	config.SetUploadRate(512 * 1024)
	config.SetDefaultProxy("")
	config.DefaultDhtMode = config.DhtNone
	config.DefaultUseTrackers = false
	config.DefaultUseWebseeds = false
	config.PreferEncryption = true
	config.ForceEncryption = false
	config.Debug = false
}

// Swarm is the state of one bubble.
type Swarm struct {
	T    *testing.T
	C    *vk.C
	Prop string // property whose violations are reported
	Tors []*Tor
	Ctx  context.Context
	stop context.CancelFunc

	amu     sync.Mutex
	actions []string
	tags    map[string]bool // hostile input classes since the last cut (violation signatures name them)
	Base    int64           // alloc.Bytes() at bubble start
	Start   time.Time
}

// Tor wraps one torrent under test.
type Tor struct {
	Sw      *Swarm
	T       *tor.Torrent
	Geo     *fixture.Geo
	Log     *SyncBuf
	Remotes []*Remote
	Killed  bool
}

// SyncBuf is a goroutine-safe log sink.
type SyncBuf struct {
	mu sync.Mutex
	b  bytes.Buffer
}

func (s *SyncBuf) Write(p []byte) (int, error) {
	s.mu.Lock()
	defer s.mu.Unlock()
	if s.b.Len() < 1<<20 {
		s.b.Write(p)
	}
	return len(p), nil
}

func (s *SyncBuf) String() string {
	s.mu.Lock()
	defer s.mu.Unlock()
	return s.b.String()
}

// Run executes body inside a fresh bubble and tears everything down.
func Run(t *testing.T, c *vk.C, prop string, body func(sw *Swarm)) {
	initOnce.Do(func() {
		log.SetOutput(io.Discard)
		// peer actors log to os.Stderr (captured when the logger is created); runtime panics still go to fd 2
		if os.Getenv("VERIF_PEERLOG") == "" {
			if f, err := os.OpenFile(os.DevNull, os.O_WRONLY, 0); err == nil {
				devNull = f
			}
		}
	})
	synctest.Test(t, func(t *testing.T) {
		time.Sleep(time.Until(realNow.Add(time.Hour)))
		Defaults()
		peer.DownloadEstimator.Init(3 * time.Second)
		peer.DownloadEstimator.Start()
		peer.UploadEstimator.Init(3 * time.Second)
		peer.UploadEstimator.Start()
		ctx, cancel := context.WithCancel(context.Background())
		sw := &Swarm{T: t, C: c, Prop: prop, Ctx: ctx, stop: cancel, Base: alloc.Bytes(), Start: time.Now()}
		defer sw.teardown()
		body(sw)
	})
}

func (sw *Swarm) teardown() {
	for _, tr := range sw.Tors {
		tr.Kill()
	}
	for _, tr := range sw.Tors {
		for _, r := range tr.Remotes {
			r.Close()
		}
	}
	sw.stop()
	synctest.Wait()
}

// Act records an action in the history shown with violations.
func (sw *Swarm) Act(format string, a ...any) {
	if f := os.Getenv("VERIF_TRACE_FILE"); f != "" {
		if fh, err := os.OpenFile(f, os.O_CREATE|os.O_WRONLY|os.O_APPEND, 0o644); err == nil {
			fmt.Fprintf(fh, "[%6.1fs] "+format+"\n", append([]any{time.Since(sw.Start).Seconds()}, a...)...)
			fh.Close()
		}
	}
	sw.amu.Lock()
	sw.actions = append(sw.actions, fmt.Sprintf("[%6.1fs] ", time.Since(sw.Start).Seconds())+fmt.Sprintf(format, a...))
	if len(sw.actions) > 400 {
		sw.actions = sw.actions[len(sw.actions)-300:]
	}
	sw.amu.Unlock()
}

// History returns the last n actions.
func (sw *Swarm) History(n int) []string {
	sw.amu.Lock()
	defer sw.amu.Unlock()
	a := sw.actions
	if len(a) > n {
		a = a[len(a)-n:]
	}
	return append([]string(nil), a...)
}

// Viol reports a violation if it belongs to the property being checked.
func (sw *Swarm) Viol(prop, kind, sig, detail string) {
	if prop != sw.Prop {
		sw.C.Count("other_property_observations:"+prop, 1)
		return
	}
	sw.C.Violation(kind, sig, detail, map[string]any{"history": sw.History(60)})
}

// Tag notes a hostile input class used since the last cut.
func (sw *Swarm) Tag(t string) {
	sw.amu.Lock()
	if sw.tags == nil {
		sw.tags = map[string]bool{}
	}
	sw.tags[t] = true
	sw.amu.Unlock()
}

// Tags returns the sorted tags since the last cut, e.g. "[empty,overlong]".
func (sw *Swarm) Tags() string {
	sw.amu.Lock()
	defer sw.amu.Unlock()
	var ts []string
	for t := range sw.tags {
		ts = append(ts, t)
	}
	sort.Strings(ts)
	return "[" + strings.Join(ts, ",") + "]"
}

// ClearTags is called by the workload after the monitors ran at a cut.
func (sw *Swarm) ClearTags() {
	sw.amu.Lock()
	sw.tags = nil
	sw.amu.Unlock()
}

// Cut waits for quiescence and closes the remotes' exemption windows.
func (sw *Swarm) Cut() {
	synctest.Wait()
	for _, tr := range sw.Tors {
		for _, r := range tr.Remotes {
			r.closeWindow()
		}
	}
	sw.C.Count("cuts", 1)
}

// Sleep advances virtual time, then cuts.
func (sw *Swarm) Sleep(d time.Duration) {
	sw.Act("sleep %v", d)
	time.Sleep(d)
	sw.Cut()
}

// TorOpts selects how the torrent is created.
type TorOpts struct {
	Magnet bool   // add by info-hash only
	Proxy  string // torrent proxy
	Dn     string
}

// AddTorrent creates and starts a torrent.
func (sw *Swarm) AddTorrent(g *fixture.Geo, o TorOpts) *Tor {
	var t *tor.Torrent
	var err error
	if o.Magnet {
		t, err = tor.ReadMagnet(o.Proxy, fmt.Sprintf("magnet:?xt=urn:btih:%x&dn=%s", g.InfoHash(), o.Dn))
	} else {
		t, err = tor.ReadTorrent(o.Proxy, bytes.NewReader(g.Metainfo()))
	}
	if err != nil || t == nil {
		panic(fmt.Sprintf("harness: cannot create torrent: %v", err))
	}
	tr := &Tor{Sw: sw, T: t, Geo: g, Log: &SyncBuf{}}
	t.Log = log.New(tr.Log, "", 0)
	_, err = tor.AddTorrent(sw.Ctx, t)
	if err != nil {
		panic(fmt.Sprintf("harness: AddTorrent: %v", err))
	}
	sw.Tors = append(sw.Tors, tr)
	sw.Act("add torrent %x pieces=%d psize=%d len=%d magnet=%v", t.Hash[:4], g.NumPieces(), g.PieceLen, g.Length, o.Magnet)
	return tr
}

// Kill deletes the torrent and waits for it.
func (tr *Tor) Kill() {
	if tr.Killed {
		return
	}
	tr.Killed = true
	ctx, cancel := context.WithTimeout(context.Background(), time.Hour)
	tr.T.Kill(ctx)
	cancel()
}

// FillWriter makes storrent's writer queue to the remote r exactly full: r should have stopped reading; pieces are
// announced (have / dont-have, as RunPex's congestion does) one at a time until the queue's length equals its
// capacity.  One more message would fail.  False if the peer actor was not found or the queue did not fill.
func (tr *Tor) FillWriter(r *Remote) bool {
	ps, err := tr.T.GetPeers()
	if err != nil {
		return false
	}
	var sp *peer.Peer
	for _, p := range ps {
		if p.GetAddr() == r.Addr {
			sp = p
		}
	}
	if sp == nil {
		return false
	}
	wr := reflect.ValueOf(sp).Elem().FieldByName("writer")
	if !wr.IsValid() || wr.Kind() != reflect.Chan {
		return false
	}
	np := tr.Geo.NumPieces()
	for k := 0; k < 400 && wr.Len() < wr.Cap(); k++ {
		tr.T.Have(uint32(k%np), (k/np)%2 == 0)
		synctest.Wait()
	}
	return wr.Len() == wr.Cap()
}

// ParkLoop parks the torrent's event loop inside a handler (it answers a statistics query whose reply nobody
// collects yet) and returns the function that releases it; nil if the query could not be queued.  While the
// loop is parked everything sent to the torrent stays in its mailbox.
func (tr *Tor) ParkLoop() func() {
	hold := make(chan *peer.TorStats)
	select {
	case tr.T.Event <- peer.TorGetStats{Ch: hold}:
	default:
		return nil
	}
	synctest.Wait()
	return func() {
		select {
		case <-hold:
		case <-tr.T.Done:
		}
	}
}

// KillWithFullMailbox stops the torrent the way Kill does (a TorGoAway event) but with its mailbox full behind
// that event: the loop is first parked answering a statistics query nobody collects yet, the stop event is
// queued, the remaining slots are filled with announce requests, then the loop is released.  What the peers
// want to tell the torrent on their way out finds no room and nobody reading.  False if the loop could not be parked.
func (tr *Tor) KillWithFullMailbox() bool {
	if tr.Killed {
		return false
	}
	hold := make(chan *peer.TorStats)
	select {
	case tr.T.Event <- peer.TorGetStats{Ch: hold}:
	default:
		return false
	}
	synctest.Wait()
	select {
	case tr.T.Event <- peer.TorGoAway{}:
	default:
		<-hold
		return false
	}
	for {
		select {
		case tr.T.Event <- peer.TorAnnounce{}:
			continue
		default:
		}
		break
	}
	tr.Killed = true
	<-hold
	return true
}

// Prefill stores pieces from truth directly (as if downloaded and verified).
func (tr *Tor) Prefill(pieces []int) {
	g := tr.Geo
	for _, p := range pieces {
		base := int64(p) * int64(g.PieceLen)
		for b := 0; b < g.BlocksIn(p); b++ {
			tr.T.Pieces.AddData(uint32(p), uint32(b*fixture.Block), g.Truth(base+int64(b*fixture.Block), g.BlockLen(p, b)), 0)
		}
		done, _, err := tr.T.Pieces.Finalise(uint32(p), hash.Hash(g.PieceHash(p)))
		if !done || err != nil {
			panic(fmt.Sprintf("harness: prefill of piece %d failed: %v", p, err))
		}
	}
}

// EekLines returns storrent's own "Eek!" reports from the torrent log.
func (tr *Tor) EekLines() []string {
	var out []string
	for _, l := range strings.Split(tr.Log.String(), "\n") {
		if strings.Contains(l, "Eek") {
			out = append(out, l)
		}
	}
	return out
}

// ---- reflect readers (call only at a cut) ----

func (tr *Tor) field(name string) reflect.Value {
	return reflect.ValueOf(tr.T).Elem().FieldByName(name)
}

// InFlight returns a copy of Torrent.inFlight (nil if the field is missing).
func (tr *Tor) InFlight() []uint8 {
	v := tr.field("inFlight")
	if !v.IsValid() {
		return nil
	}
	out := make([]uint8, v.Len())
	for i := range out {
		out[i] = uint8(v.Index(i).Uint())
	}
	return out
}

// Available returns a copy of Torrent.available.
func (tr *Tor) Available() ([]uint16, bool) {
	v := tr.field("available")
	if !v.IsValid() {
		return nil, false
	}
	out := make([]uint16, v.Len())
	for i := range out {
		out[i] = uint16(v.Index(i).Uint())
	}
	return out, true
}

// PeerView is the state of one peer actor read through reflect.
type PeerView struct {
	Counter     uint32
	Bitmap      []byte
	Queue       []uint32
	Requested   []uint32
	Events      int // events not yet delivered to the torrent
	Mailbox     int // commands not yet consumed
	AmUnchoking bool
	Interested  bool
	Unchoked    bool
	UploadQ     int  // len(peer.requested)
	Exiting     bool // Peer.Done is closed: Run is in (or past) its exit path, the torrent may not have removed it yet
	Missing     string
}

// Peers returns views of Torrent.peers.
func (tr *Tor) Peers() ([]PeerView, bool) {
	v := tr.field("peers")
	if !v.IsValid() {
		return nil, false
	}
	var out []PeerView
	for i := 0; i < v.Len(); i++ {
		out = append(out, viewPeer(v.Index(i).Elem()))
	}
	return out, true
}

func viewPeer(p reflect.Value) PeerView {
	var pv PeerView
	need := func(name string) reflect.Value {
		f := p.FieldByName(name)
		if !f.IsValid() {
			pv.Missing = name
		}
		return f
	}
	if f := need("Counter"); f.IsValid() {
		pv.Counter = uint32(f.Uint())
	}
	if f := need("bitmap"); f.IsValid() {
		pv.Bitmap = make([]byte, f.Len())
		for i := range pv.Bitmap {
			pv.Bitmap[i] = byte(f.Index(i).Uint())
		}
	}
	if f := need("requests"); f.IsValid() {
		q, r := f.FieldByName("queue"), f.FieldByName("requested")
		if !q.IsValid() || !r.IsValid() {
			pv.Missing = "requests.queue/requested"
		} else {
			for i := 0; i < q.Len(); i++ {
				pv.Queue = append(pv.Queue, uint32(q.Index(i).FieldByName("index").Uint()))
			}
			for i := 0; i < r.Len(); i++ {
				pv.Requested = append(pv.Requested, uint32(r.Index(i).FieldByName("index").Uint()))
			}
		}
	}
	if f := need("events"); f.IsValid() {
		pv.Events = f.Len()
	}
	if f := need("Event"); f.IsValid() {
		pv.Mailbox = f.Len()
	}
	if f := need("amUnchoking"); f.IsValid() {
		pv.AmUnchoking = f.Uint() != 0
	}
	if f := need("interested"); f.IsValid() {
		pv.Interested = f.Uint() != 0
	}
	if f := need("unchoked"); f.IsValid() {
		pv.Unchoked = f.Uint() != 0
	}
	if f := need("requested"); f.IsValid() {
		pv.UploadQ = f.Len()
	}
	if f := need("Done"); f.IsValid() {
		// closed (receive succeeds at once) or open (would block); nothing is ever sent on it
		if f.CanAddr() {
			if ch, ok := reflect.NewAt(f.Type(), unsafe.Pointer(f.UnsafeAddr())).Elem().Interface().(chan struct{}); ok {
				select {
				case <-ch:
					pv.Exiting = true
				default:
				}
			} else {
				pv.Missing = "Done (chan struct{})"
			}
		} else {
			pv.Missing = "Done (addressable)"
		}
	}
	return pv
}

// RequestedView is Torrent.requested: per piece the stored priorities and whether a wait channel exists.
type RequestedView struct {
	Prio    map[uint32][]int8
	HasDone map[uint32]bool
	Missing bool
}

func (tr *Tor) Requested() RequestedView {
	rv := RequestedView{Prio: map[uint32][]int8{}, HasDone: map[uint32]bool{}}
	v := tr.field("requested")
	if !v.IsValid() {
		rv.Missing = true
		return rv
	}
	m := v.FieldByName("pieces")
	if !m.IsValid() {
		rv.Missing = true
		return rv
	}
	it := m.MapRange()
	for it.Next() {
		k := uint32(it.Key().Uint())
		e := it.Value().Elem()
		pr := e.FieldByName("prio")
		dn := e.FieldByName("done")
		if !pr.IsValid() || !dn.IsValid() {
			rv.Missing = true
			return rv
		}
		ps := []int8{}
		for i := 0; i < pr.Len(); i++ {
			ps = append(ps, int8(pr.Index(i).Int()))
		}
		rv.Prio[k] = ps
		rv.HasDone[k] = !dn.IsNil()
	}
	return rv
}

// EventQueueLen is len(Torrent.Event).
func (tr *Tor) EventQueueLen() int { return len(tr.T.Event) }

// Addr returns a distinct global-unicast address for remote i.
func Addr(i int) netip.AddrPort {
	return netip.AddrPortFrom(netip.AddrFrom4([4]byte{8, 8, byte(1 + i/250), byte(1 + i%250)}), uint16(6881+i%100))
}

// CancelContext cancels the context the torrents were started with (the other way a loop stops).
func (sw *Swarm) CancelContext() { sw.stop() }

// AddMagnet adds a torrent by info-hash only; the geometry g describes what the
// metadata will turn out to be (used by the remotes once it is known).
func (sw *Swarm) AddMagnet(g *fixture.Geo, infoHash []byte) *Tor {
	t, err := tor.ReadMagnet("", fmt.Sprintf("magnet:?xt=urn:btih:%x", infoHash))
	if err != nil || t == nil {
		panic(fmt.Sprintf("harness: cannot create magnet torrent: %v", err))
	}
	tr := &Tor{Sw: sw, T: t, Geo: g, Log: &SyncBuf{}}
	t.Log = log.New(tr.Log, "", 0)
	if _, err = tor.AddTorrent(sw.Ctx, t); err != nil {
		panic(fmt.Sprintf("harness: AddTorrent: %v", err))
	}
	sw.Tors = append(sw.Tors, tr)
	sw.Act("add magnet %x", infoHash[:4])
	return tr
}

// Adopt starts a torrent the check built itself (tor.New with injected trackers / web seeds).
func (sw *Swarm) Adopt(t *tor.Torrent, g *fixture.Geo) *Tor {
	tr := &Tor{Sw: sw, T: t, Geo: g, Log: &SyncBuf{}}
	t.Log = log.New(tr.Log, "", 0)
	if _, err := tor.AddTorrent(sw.Ctx, t); err != nil {
		panic(fmt.Sprintf("harness: AddTorrent: %v", err))
	}
	sw.Tors = append(sw.Tors, tr)
	sw.Act("add torrent %x (adopted)", t.Hash[:4])
	return tr
}
