//go:build race

package swarm

// RaceEnabled: under the race detector the reflect-based cut monitors are
// skipped.  A read by the harness at a quiescent cut is ordered before the
// actors' later writes by the bubble's scheduling, but when an actor is woken
// by a timer no happens-before edge from the harness exists for the detector,
// so it would report the monitor itself.  Race builds therefore run the same
// workloads with the wire-level monitors only and look for races inside storrent.
const RaceEnabled = true
