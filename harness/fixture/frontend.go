// Front-end engine (E6) shared by the C19/C20 monitors: storrent's HTTP
// handlers are registered once on http.DefaultServeMux and driven directly
// with recorders; torrents run their real event loop in real time on a store
// pre-filled from truth, so every read returns at once.
package fixture

import (
	"bytes"
	"context"
	"errors"
	"fmt"
	"io"
	"net/http"
	"net/http/httptest"
	"runtime/debug"
	"sort"
	"strings"
	"sync"
	"time"

	"github.com/jech/storrent/config"
	"github.com/jech/storrent/hash"
	storhttp "github.com/jech/storrent/http"
	"github.com/jech/storrent/peer"
	"github.com/jech/storrent/tor"
)

var feOnce sync.Once

// FrontendInit sets the process-global configuration of the engine and
// registers storrent's handlers on http.DefaultServeMux.  Idempotent.
func FrontendInit() {
	feOnce.Do(func() {
		config.DefaultDhtMode = config.DhtNone
		config.DefaultUseTrackers = false
		config.DefaultUseWebseeds = false
		config.SetDefaultProxy("")
		config.MemoryMark = 1 << 40
		peer.DownloadEstimator.Init(3 * time.Second)
		peer.DownloadEstimator.Start()
		peer.UploadEstimator.Init(3 * time.Second)
		peer.UploadEstimator.Start()
		if err := storhttp.Serve("127.0.0.1:0"); err != nil {
			panic("fixture.FrontendInit: " + err.Error())
		}
	})
}

// StartTorrent silences t's log, starts its event loop (tor.AddTorrent) and,
// when g is not nil and the metadata is complete, fills the store from truth.
func StartTorrent(t *tor.Torrent, g *Geo) error {
	if t.Log != nil {
		t.Log.SetOutput(io.Discard)
	}
	_, err := tor.AddTorrent(context.Background(), t)
	if err != nil {
		return err
	}
	if g != nil && t.InfoComplete() {
		return g.Prefill(t)
	}
	return nil
}

// Prefill stores every piece of g into t and verifies it.
func (g *Geo) Prefill(t *tor.Torrent) error {
	if len(t.PieceHashes) != g.NumPieces() {
		return fmt.Errorf("prefill: %d piece hashes for %d pieces", len(t.PieceHashes), g.NumPieces())
	}
	for i := 0; i < g.NumPieces(); i++ {
		data := g.Piece(i)
		for b := 0; b*Block < len(data); b++ {
			e := (b + 1) * Block
			if e > len(data) {
				e = len(data)
			}
			_, _, err := t.Pieces.AddData(uint32(i), uint32(b*Block), data[b*Block:e], 0)
			if err != nil {
				return fmt.Errorf("prefill: AddData(%d,%d): %v", i, b*Block, err)
			}
		}
		done, _, err := t.Pieces.Finalise(uint32(i), t.PieceHashes[i])
		if err != nil || !done {
			return fmt.Errorf("prefill: Finalise(%d): done=%v err=%v", i, done, err)
		}
	}
	return nil
}

const stopTimeout = 2 * time.Minute

// Poisoned is set when a cleanup failed: the process-global torrent table may
// hold a stale torrent, so later cases of this process must not be judged.
var Poisoned bool

// StopTorrent kills t and waits until it has left the global table.
func StopTorrent(t *tor.Torrent) error {
	ctx, cancel := context.WithTimeout(context.Background(), stopTimeout)
	defer cancel()
	err := t.Kill(ctx)
	if err != nil && !errors.Is(err, tor.ErrTorrentDead) {
		return err
	}
	select {
	case <-t.Deleted:
		return nil
	case <-ctx.Done():
		return errors.New("torrent not deleted within 2 min of Kill")
	}
}

// LiveTorrents returns the torrents of the global table sorted by hash.
func LiveTorrents() []*tor.Torrent {
	var out []*tor.Torrent
	tor.Range(func(h hash.Hash, t *tor.Torrent) bool {
		out = append(out, t)
		return true
	})
	sort.Slice(out, func(i, j int) bool { return bytes.Compare(out[i].Hash, out[j].Hash) < 0 })
	return out
}

// StopAll kills whatever is in the global table (end-of-case cleanup).
func StopAll() error {
	var first error
	for _, t := range LiveTorrents() {
		if err := StopTorrent(t); err != nil && first == nil {
			first = err
		}
	}
	if n := len(LiveTorrents()); n != 0 {
		Poisoned = true
		if first == nil {
			first = fmt.Errorf("%d torrents left in the table", n)
		}
	}
	return first
}

// Resp is the outcome of one request driven through the mux.
type Resp struct {
	Code      int
	Header    http.Header
	Body      []byte
	BadTarget string // the harness could not build the request (not an observation)
	Panic     string // non-empty: the handler panicked with this value
	PanicSite string // topmost storrent frame of the panic, e.g. "http.pathUrl"
}

// Req describes one request.
type Req struct {
	Method, Target, Host string
	ContentType          string
	Body                 []byte
	Header               map[string]string
}

// PanicSite extracts the topmost storrent function from a stack dump.
func PanicSite(stack []byte) string {
	const pfx = "github.com/jech/storrent/"
	for _, ln := range strings.Split(string(stack), "\n") {
		if strings.HasPrefix(ln, pfx) {
			fn := strings.TrimPrefix(ln, pfx)
			if i := strings.LastIndexByte(fn, '('); i > 0 {
				fn = fn[:i]
			}
			return fn
		}
	}
	return "?"
}

// Do drives one request straight through http.DefaultServeMux.  A handler
// panic is caught and reported in Resp.Panic (it is an observation).
func Do(q Req) (resp *Resp) {
	resp = &Resp{}
	var req *http.Request
	func() {
		defer func() {
			if p := recover(); p != nil {
				resp.BadTarget = fmt.Sprint(p)
			}
		}()
		var body io.Reader
		if q.Body != nil {
			body = bytes.NewReader(q.Body)
		}
		req = httptest.NewRequest(q.Method, q.Target, body)
	}()
	if req == nil {
		return resp
	}
	req.Host = q.Host
	if q.ContentType != "" {
		req.Header.Set("Content-Type", q.ContentType)
	}
	for k, v := range q.Header {
		req.Header.Set(k, v)
	}
	rec := httptest.NewRecorder()
	func() {
		defer func() {
			if p := recover(); p != nil {
				resp.Panic = fmt.Sprint(p)
				resp.PanicSite = PanicSite(debug.Stack())
			}
		}()
		http.DefaultServeMux.ServeHTTP(rec, req)
	}()
	resp.Code = rec.Code
	resp.Header = rec.Header()
	resp.Body = rec.Body.Bytes()
	return resp
}

// Get is Do for a plain GET.
func Get(target, host string) *Resp {
	return Do(Req{Method: "GET", Target: target, Host: host})
}
