// Package fixture generates torrent geometries, position-dependent truth
// content and metainfo for the monitors.  Content is PRF(seed, offset), so a
// stale, misplaced or unverified byte is distinguishable from the true one
// wherever it surfaces.
package fixture

import (
	"bytes"
	"crypto/sha1"
	"encoding/binary"
	"fmt"
	"math/rand/v2"

	"github.com/jech/storrent/tor"
	"verifharness/refwire"
)

const Block = 16384

// File is one entry of a multi-file torrent.
type File struct {
	Path   []string
	Length int64
	Pad    bool
}

// Geo is a torrent geometry with content.
type Geo struct {
	Name     string
	PieceLen uint32
	Length   int64
	Files    []File // nil: single-file
	Seed     uint64

	// HashOnly, when non-nil, limits real piece hashes to the listed pieces; the others get twenty zero
	// bytes (they can never verify). For geometries too large to hash as a whole.
	HashOnly map[int]bool

	Trackers  [][]string
	URLList   []string
	HTTPSeeds []string
}

func mix(x uint64) uint64 {
	x += 0x9E3779B97F4A7C15
	x = (x ^ (x >> 30)) * 0xBF58476D1CE4E5B9
	x = (x ^ (x >> 27)) * 0x94D049BB133111EB
	return x ^ (x >> 31)
}

// Truth returns the true content of [off, off+n).
func (g *Geo) Truth(off int64, n int) []byte {
	out := make([]byte, n)
	g.TruthInto(out, off)
	return out
}

// TruthInto fills p with the true content at off.
func (g *Geo) TruthInto(p []byte, off int64) {
	var w [8]byte
	i := 0
	for i < len(p) {
		o := off + int64(i)
		word := o / 8
		binary.LittleEndian.PutUint64(w[:], mix(g.Seed^mix(uint64(word))))
		k := int(o % 8)
		i += copy(p[i:], w[k:])
	}
	// padding files hold zeros (BEP 47)
	var fo int64
	for _, f := range g.Files {
		if f.Pad && f.Length > 0 {
			a, b := fo, fo+f.Length
			if a < off {
				a = off
			}
			if b > off+int64(len(p)) {
				b = off + int64(len(p))
			}
			for x := a; x < b; x++ {
				p[x-off] = 0
			}
		}
		fo += f.Length
	}
}

// NumPieces returns the piece count.
func (g *Geo) NumPieces() int {
	return int((g.Length + int64(g.PieceLen) - 1) / int64(g.PieceLen))
}

// NumBlocks returns the number of 16 KiB blocks of the torrent.
func (g *Geo) NumBlocks() int { return int((g.Length + Block - 1) / Block) }

// PieceSize returns the length of piece i.
func (g *Geo) PieceSize(i int) int {
	st := int64(i) * int64(g.PieceLen)
	if st >= g.Length {
		return 0
	}
	if g.Length-st < int64(g.PieceLen) {
		return int(g.Length - st)
	}
	return int(g.PieceLen)
}

// BlocksIn returns the number of blocks of piece i.
func (g *Geo) BlocksIn(i int) int { return (g.PieceSize(i) + Block - 1) / Block }

// BlockLen returns the length of block b (0-based inside piece i).
func (g *Geo) BlockLen(i, b int) int {
	ps := g.PieceSize(i)
	if (b+1)*Block <= ps {
		return Block
	}
	return ps - b*Block
}

// Piece returns the true content of piece i.
func (g *Geo) Piece(i int) []byte {
	return g.Truth(int64(i)*int64(g.PieceLen), g.PieceSize(i))
}

// PieceHash returns SHA-1 of the true piece.
func (g *Geo) PieceHash(i int) []byte {
	if g.HashOnly != nil && !g.HashOnly[i] {
		return make([]byte, 20)
	}
	h := sha1.Sum(g.Piece(i))
	return h[:]
}

// Info returns the bencoded info dictionary.
func (g *Geo) Info() []byte {
	d := refwire.NewDict()
	d.Set("name", g.Name)
	d.Set("piece length", int64(g.PieceLen))
	var ph []byte
	for i := 0; i < g.NumPieces(); i++ {
		ph = append(ph, g.PieceHash(i)...)
	}
	d.Set("pieces", ph)
	if g.Files == nil {
		d.Set("length", g.Length)
	} else {
		var fl []any
		for _, f := range g.Files {
			fd := refwire.NewDict()
			fd.Set("length", f.Length)
			var p []any
			for _, s := range f.Path {
				p = append(p, s)
			}
			fd.Set("path", p)
			if f.Pad {
				fd.Set("attr", "p")
			}
			fl = append(fl, fd)
		}
		d.Set("files", fl)
	}
	return refwire.Benc(d)
}

// InfoHash returns SHA-1 of Info().
func (g *Geo) InfoHash() []byte {
	h := sha1.Sum(g.Info())
	return h[:]
}

// Metainfo returns a .torrent file.
func (g *Geo) Metainfo() []byte {
	d := refwire.NewDict()
	d.Set("info", refwire.Raw(g.Info()))
	if len(g.Trackers) > 0 {
		d.Set("announce", g.Trackers[0][0])
		var al []any
		for _, tier := range g.Trackers {
			var tl []any
			for _, u := range tier {
				tl = append(tl, u)
			}
			al = append(al, tl)
		}
		d.Set("announce-list", al)
	}
	if len(g.URLList) > 0 {
		var l []any
		for _, u := range g.URLList {
			l = append(l, u)
		}
		d.Set("url-list", l)
	}
	if len(g.HTTPSeeds) > 0 {
		var l []any
		for _, u := range g.HTTPSeeds {
			l = append(l, u)
		}
		d.Set("httpseeds", l)
	}
	return refwire.Benc(d)
}

// NewTorrent parses the metainfo with storrent's own reader (not started).
func (g *Geo) NewTorrent(proxy string) (*tor.Torrent, error) {
	return tor.ReadTorrent(proxy, bytes.NewReader(g.Metainfo()))
}

// FileOffset returns the torrent offset of file k.
func (g *Geo) FileOffset(k int) int64 {
	var o int64
	for i := 0; i < k; i++ {
		o += g.Files[i].Length
	}
	return o
}

// PieceSizes used by the generators: heap (<128 KiB) and mmap (>=128 KiB).
var PieceSizes = []uint32{16 << 10, 32 << 10, 64 << 10, 128 << 10, 256 << 10, 1 << 20}

// RandGeo draws a single-file geometry; maxLen bounds the total length.
// The last piece is full / short / a single short block / one byte.
func RandGeo(r *rand.Rand, maxLen int64, sizes []uint32) *Geo {
	if sizes == nil {
		sizes = PieceSizes
	}
	ps := sizes[r.IntN(len(sizes))]
	maxP := int(maxLen / int64(ps))
	if maxP < 1 {
		maxP = 1
	}
	counts := []int{1, 2, 3, 7, 8, 9, 16, 17}
	np := counts[r.IntN(len(counts))]
	if np > maxP {
		np = 1 + r.IntN(maxP)
	}
	length := int64(np) * int64(ps)
	switch r.IntN(5) {
	case 0: // full last piece
	case 1: // short last piece, whole blocks
		if ps > Block {
			length -= int64(Block * (1 + r.IntN(int(ps/Block)-1)))
		}
	case 2: // last block short
		length -= int64(1 + r.IntN(Block-1))
	case 3: // last piece is a single short block
		length -= int64(ps) - int64(1+r.IntN(Block-1))
	case 4: // last piece is one byte
		length -= int64(ps) - 1
	}
	if length <= 0 {
		length = 1
	}
	return &Geo{
		Name:     fmt.Sprintf("t%x", r.Uint32()),
		PieceLen: ps,
		Length:   length,
		Seed:     r.Uint64(),
	}
}

// SplitFiles turns g into a multi-file torrent with n files of random sizes
// (some zero-length, some smaller than a block, optional padding files).
func (g *Geo) SplitFiles(r *rand.Rand, n int, padding bool) {
	if n < 1 {
		n = 1
	}
	cuts := []int64{0, g.Length}
	for i := 0; i < n-1; i++ {
		switch r.IntN(4) {
		case 0:
			cuts = append(cuts, r.Int64N(g.Length+1))
		case 1: // piece boundary
			cuts = append(cuts, int64(r.IntN(g.NumPieces()+1))*int64(g.PieceLen))
		case 2: // near a block boundary
			c := int64(r.IntN(g.NumBlocks()+1))*Block + int64(r.IntN(3)-1)
			cuts = append(cuts, c)
		case 3: // duplicate cut => zero-length file
			cuts = append(cuts, cuts[r.IntN(len(cuts))])
		}
	}
	for i := range cuts {
		if cuts[i] < 0 {
			cuts[i] = 0
		}
		if cuts[i] > g.Length {
			cuts[i] = g.Length
		}
	}
	sortInt64(cuts)
	g.Files = nil
	for i := 0; i+1 < len(cuts); i++ {
		f := File{Path: []string{fmt.Sprintf("d%d", i%3), fmt.Sprintf("f%d.bin", i)}, Length: cuts[i+1] - cuts[i]}
		if i%4 == 0 {
			f.Path = []string{fmt.Sprintf("top%d", i)}
		}
		if padding && i%3 == 1 && f.Length > 0 {
			f.Pad = true
			f.Path = []string{".pad", fmt.Sprintf("%d", i)}
		}
		g.Files = append(g.Files, f)
	}
}

func sortInt64(a []int64) {
	for i := 1; i < len(a); i++ {
		for j := i; j > 0 && a[j] < a[j-1]; j-- {
			a[j], a[j-1] = a[j-1], a[j]
		}
	}
}

// Desc is a compact description for evidence samples.
func (g *Geo) Desc() map[string]any {
	return map[string]any{"piece_len": g.PieceLen, "length": g.Length, "pieces": g.NumPieces(), "files": len(g.Files), "seed": g.Seed}
}
